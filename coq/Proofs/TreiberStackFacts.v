(** * Consequences of linearizability for LIFO stack histories, in the words of property C09:
      a pop never invents an item, and (push values being pairwise distinct) an item is delivered to at most
      one popper.  Pure facts about [LV.Base.Lin.linearizable Stack]; they apply to every history the theorems
      of TreiberProofs / ElimProofs speak about (adapted from the FIFO facts of LV.Proofs.LinProofs). *)
From Coq Require Import List Arith Bool ZArith Lia.
From LV Require Import Base.Lin Spec.Specs Proofs.LinProofs.
Import ListNotations.
Local Open Scope Z_scope.

(** [v] is the argument of some push invoked in [h] *)
Definition pushed (h : history Stack) (v : Z) : Prop :=
  exists i t, nth_error h i = Some (@HInv Stack t (Push v)).

(** the pop invoked at position [i] of [h] returned [r] *)
Definition pop_returns (h : history Stack) (i : nat) (r : option Z) : Prop :=
  exists t j, nth_error h i = Some (@HInv Stack t Pop) /\ completed h i j (RVal r).

(** all push invocations of [h] carry different values *)
Definition distinct_pushes (h : history Stack) : Prop :=
  forall i1 i2 t1 t2 v,
    nth_error h i1 = Some (@HInv Stack t1 (Push v)) ->
    nth_error h i2 = Some (@HInv Stack t2 (Push v)) -> i1 = i2.

Fixpoint push_vals (l : list (pop_op * res)) : list Z :=
  match l with
  | [] => []
  | (Push v, _) :: l' => v :: push_vals l'
  | _ :: l' => push_vals l'
  end.

Fixpoint pop_vals (l : list (pop_op * res)) : list Z :=
  match l with
  | [] => []
  | (Pop, RVal (Some v)) :: l' => v :: pop_vals l'
  | _ :: l' => pop_vals l'
  end.

Lemma nodup_move (x : Z) s pv : NoDup (s ++ x :: pv) -> NoDup (x :: s ++ pv).
Proof. intros H. apply NoDup_remove in H. destruct H. constructor; auto. Qed.

(** sequential LIFO facts: whatever is popped was in the stack or pushed, and if those are pairwise distinct
    nothing is popped twice *)
Lemma stack_seq : forall l s,
  @legal Stack s l ->
  (forall v, In v (pop_vals l) -> In v (s ++ push_vals l)) /\
  (NoDup (s ++ push_vals l) -> NoDup (pop_vals l)).
Proof.
  induction l as [|[[x|] r] l IH]; intros s Hl; simpl in Hl.
  - simpl; split; [easy|constructor].
  - destruct Hl as [_ Hl]. apply IH in Hl; destruct Hl as [H1 H2]. simpl. split.
    + intros v Hv. specialize (H1 v Hv). simpl in H1. destruct H1 as [->|H1].
      * apply in_or_app. right. left. reflexivity.
      * apply in_app_or in H1. apply in_or_app. destruct H1; [left|right; right]; auto.
    + intros ND. apply H2. simpl. now apply nodup_move.
  - destruct s as [|y s]; simpl in Hl; destruct Hl as [<- Hl];
      apply IH in Hl; destruct Hl as [H1 H2]; simpl in *; auto.
    split.
    + intros v [->|Hv]; auto.
    + intros ND; inversion ND as [|? ? Hn ND']; subst. constructor; auto.
Qed.

Notation sseq lin := (map (fun a : lop Stack => (l_op a, l_res a)) lin).

Lemma in_push_vals (lin : list (lop Stack)) v :
  In v (push_vals (sseq lin)) -> exists a, In a lin /\ l_op a = Push v.
Proof.
  induction lin as [|a lin IH]; simpl; [easy|].
  destruct (l_op a) as [x|] eqn:E; simpl.
  - intros [<-|H]; [exists a; auto|]. destruct (IH H) as (b & Hb & Eb); exists b; auto.
  - intros H. destruct (IH H) as (b & Hb & Eb); exists b; auto.
Qed.

Lemma in_pop_vals lin (a : lop Stack) v :
  In a lin -> l_op a = Pop -> l_res a = RVal (Some v) -> In v (pop_vals (sseq lin)).
Proof.
  induction lin as [|b lin IH]; simpl; [easy|].
  intros [->|Ha] Eo Er.
  - rewrite Eo, Er; simpl; auto.
  - specialize (IH Ha Eo Er). destruct (l_op b); auto. destruct (l_res b) as [| |[w|]|]; simpl; auto.
Qed.

Lemma pop_vals_tail (b : lop Stack) lin :
  NoDup (pop_vals (sseq (b :: lin))) -> NoDup (pop_vals (sseq lin)).
Proof.
  simpl. destruct (l_op b); auto. destruct (l_res b) as [| |[w|]|]; auto.
  intros ND; now inversion ND.
Qed.

Lemma pop_vals_unique lin : forall (a1 a2 : lop Stack) v,
  In a1 lin -> In a2 lin ->
  l_op a1 = Pop -> l_res a1 = RVal (Some v) ->
  l_op a2 = Pop -> l_res a2 = RVal (Some v) ->
  NoDup (pop_vals (sseq lin)) -> a1 = a2.
Proof.
  induction lin as [|b lin IH]; intros a1 a2 v H1 H2 O1 R1 O2 R2 ND; [easy|].
  destruct H1 as [->|H1], H2 as [->|H2]; auto.
  - exfalso. simpl in ND; rewrite O1, R1 in ND. inversion ND as [|? ? Hn _]; subst.
    apply Hn. eapply in_pop_vals; eauto.
  - exfalso. simpl in ND; rewrite O2, R2 in ND. inversion ND as [|? ? Hn _]; subst.
    apply Hn. eapply in_pop_vals; eauto.
  - apply pop_vals_tail in ND. eapply IH; eauto.
Qed.

Lemma push_vals_nodup (lin : list (lop Stack)) :
  (forall a1 a2 v, In a1 lin -> In a2 lin -> l_op a1 = Push v -> l_op a2 = Push v ->
                   l_inv a1 = l_inv a2) ->
  NoDup (map l_inv lin) -> NoDup (push_vals (sseq lin)).
Proof.
  induction lin as [|a lin IH]; simpl; intros D ND; [constructor|].
  inversion ND as [|? ? Hn ND']; subst.
  assert (IH' : NoDup (push_vals (sseq lin)))
    by (apply IH; [intros a1 a2 v H1 H2; apply D; auto|auto]).
  destruct (l_op a) as [x|] eqn:E; auto.
  constructor; auto.
  intros Hin; apply in_push_vals in Hin; destruct Hin as (b & Hb & Eb).
  apply Hn. rewrite (D a b x); auto. now apply in_map.
Qed.

Lemma pop_in_lin h lin i r :
  linearization Stack h lin -> pop_returns h i r ->
  exists a, In a lin /\ l_inv a = i /\ l_op a = Pop /\ l_res a = RVal r.
Proof.
  intros L (t & j & Hi & C).
  destruct (lin_complete L C) as (a & Ha & Ei & Er).
  exists a; repeat split; auto.
  pose proof (lin_ops L a Ha) as Hn. rewrite Ei, Hi in Hn. congruence.
Qed.

(** a pop returns only items that some push of the history carries *)
Theorem stack_no_invention (h : history Stack) :
  linearizable Stack h ->
  forall i v, pop_returns h i (Some v) -> pushed h v.
Proof.
  intros (lin & L) i v D.
  destruct (pop_in_lin _ _ _ _ L D) as (a & Ha & _ & Eo & Er).
  destruct (stack_seq (sseq lin) [] (lin_legal L)) as [H _].
  specialize (H v (in_pop_vals lin a v Ha Eo Er)); simpl in H.
  apply in_push_vals in H; destruct H as (b & Hb & Eb).
  exists (l_inv b), (l_tid b). rewrite <- Eb. apply (lin_ops L b Hb).
Qed.

(** an item is delivered to at most one popper *)
Theorem stack_at_most_once (h : history Stack) :
  linearizable Stack h -> distinct_pushes h ->
  forall i1 i2 v, pop_returns h i1 (Some v) -> pop_returns h i2 (Some v) -> i1 = i2.
Proof.
  intros (lin & L) Dist i1 i2 v D1 D2.
  destruct (pop_in_lin _ _ _ _ L D1) as (a1 & Ha1 & E1 & Eo1 & Er1).
  destruct (pop_in_lin _ _ _ _ L D2) as (a2 & Ha2 & E2 & Eo2 & Er2).
  destruct (stack_seq (sseq lin) [] (lin_legal L)) as [_ H]; simpl in H.
  assert (a1 = a2); [|congruence].
  apply (pop_vals_unique lin a1 a2 v); auto.
  apply H, push_vals_nodup; [|apply (lin_nodup L)].
  intros b1 b2 x Hb1 Hb2 Eb1 Eb2.
  pose proof (lin_ops L b1 Hb1) as N1. pose proof (lin_ops L b2 Hb2) as N2.
  rewrite Eb1 in N1; rewrite Eb2 in N2. eapply Dist; eauto.
Qed.
