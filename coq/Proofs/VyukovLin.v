(** * C07 instance of the Vyukov core: the extension is an LP-annotated trace that replays against the
      bounded FIFO (with front / pop_front) and whose erasure is the history read off the client events of
      the trace.  Theorems for every reachable configuration (every schedule, any number of threads,
      any capacity 2^k, k >= 1). *)
From Coq Require Import ZArith List String Bool Lia PeanoNat.
From LV Require Import Base.Conc Base.Events Base.CInt Base.Lin Spec.Specs Model.Vyukov
                       Proofs.VyukovSpec Proofs.VyukovArith Proofs.VyukovCore.
Import ListNotations.
Local Open Scope Z_scope.

(** ** the history of a trace *)
Definition zb (b : Z) : bool := Z.eqb b 1.
Definition vres (b v : Z) : option Z := if Z.eqb b 1 then Some v else None.

Definition hev_of (capn : nat) (te : nat * ev) : option (hev (VQ capn)) :=
  match snd te with
  | EvCli name args =>
      if String.eqb name "inv_enq" then
        match args with [v] => Some (@HInv (VQ capn) (fst te) (VEnq v)) | _ => None end
      else if String.eqb name "ret_enq" then
        match args with [b] => Some (@HRes (VQ capn) (fst te) (RBool (zb b))) | _ => None end
      else if String.eqb name "inv_deq" then Some (@HInv (VQ capn) (fst te) VDeq)
      else if String.eqb name "ret_deq" then
        match args with [b; v] => Some (@HRes (VQ capn) (fst te) (RVal (vres b v))) | _ => None end
      else if String.eqb name "inv_front" then Some (@HInv (VQ capn) (fst te) VFront)
      else if String.eqb name "ret_front" then
        match args with [b; v] => Some (@HRes (VQ capn) (fst te) (RVal (vres b v))) | _ => None end
      else if String.eqb name "inv_pop" then Some (@HInv (VQ capn) (fst te) VPopFront)
      else if String.eqb name "ret_pop" then
        match args with [b] => Some (@HRes (VQ capn) (fst te) (RBool (zb b))) | _ => None end
      else None
  | _ => None
  end.

Fixpoint hist (capn : nat) (tr : list (nat * ev)) : history (VQ capn) :=
  match tr with
  | [] => []
  | te :: r => match hev_of capn te with Some h => h :: hist capn r | None => hist capn r end
  end.

(** the same history read as a history of the plain bounded FIFO (enqueue / dequeue events only) *)
Definition hevb_of (capn : nat) (te : nat * ev) : option (hev (BFifo capn)) :=
  match snd te with
  | EvCli name args =>
      if String.eqb name "inv_enq" then
        match args with [v] => Some (@HInv (BFifo capn) (fst te) (Enq v)) | _ => None end
      else if String.eqb name "ret_enq" then
        match args with [b] => Some (@HRes (BFifo capn) (fst te) (RBool (zb b))) | _ => None end
      else if String.eqb name "inv_deq" then Some (@HInv (BFifo capn) (fst te) Deq)
      else if String.eqb name "ret_deq" then
        match args with [b; v] => Some (@HRes (BFifo capn) (fst te) (RVal (vres b v))) | _ => None end
      else None
  | _ => None
  end.

Fixpoint hist_b (capn : nat) (tr : list (nat * ev)) : history (BFifo capn) :=
  match tr with
  | [] => []
  | te :: r => match hevb_of capn te with Some h => h :: hist_b capn r | None => hist_b capn r end
  end.

Lemma hist_app capn a b : hist capn (a ++ b) = hist capn a ++ hist capn b.
Proof. induction a as [|te a IH]; cbn [hist app]; auto. destruct (hev_of capn te); cbn; now rewrite IH. Qed.

Lemma hist_b_app capn a b : hist_b capn (a ++ b) = hist_b capn a ++ hist_b capn b.
Proof. induction a as [|te a IH]; cbn [hist_b app]; auto. destruct (hevb_of capn te); cbn; now rewrite IH. Qed.

Definition no_ub (tr : list (nat * ev)) : bool := forallb (fun te => negb (is_cli "ub" (snd te))) tr.

Lemma no_ub_app a b : no_ub (a ++ b) = no_ub a && no_ub b.
Proof. unfold no_ub. apply forallb_app. Qed.

(** which operations a thread may use: dequeue-like operations only by the consumer in single-consumer use;
    front() only in single-consumer use by the consumer; [mp] = true restricts programs to the plain
    enqueue / dequeue interface (for the statement against [BFifo]) *)
Definition allowed (mp : bool) (sc : option nat) (t : nat) (o : op) : Prop :=
  match o with
  | OEnq _ | OEmpty | OSize => True
  | ODeq => forall tc, sc = Some tc -> t = tc
  | OPop => mp = false /\ forall tc, sc = Some tc -> t = tc
  | OFront => mp = false /\ sc = Some t
  end.

Section Inst.
  Variable k : nat.
  Hypothesis Hk : (1 <= k)%nat.
  Variable q : qcfg.
  Hypothesis Hq : qcap q = 2 ^ Z.of_nat k.
  Variable sc : option nat.
  Variable mp : bool.

  Notation capn := (2 ^ k)%nat.
  Notation X := (list (aev (VQ capn))).

  Definition xview07 (x : X) (t : nat) : unit := tt.
  Definition xlin07 (t : nat) (x : X) : X := x ++ [@ALin (VQ capn) t].

  Definition Ext07 (qs : list Z) (S : nat -> status (VQ capn)) (atr : X) (tr : list (nat * ev)) : Prop :=
    (exists S', @lp_run (VQ capn) lp_init atr = Some (qs, S') /\ forall t, S' t = S t) /\
    erase atr = hist capn tr /\
    no_ub tr = true /\
    (mp = true -> exists atr', unemb atr = Some atr' /\ erase atr' = hist_b capn tr).

  Lemma Ext07_acc qs S x tr t kk o ok rd wr :
    Ext07 qs S x tr -> Ext07 qs S x (tr ++ Conc.tag t (acc kk o ok rd wr)).
  Proof.
    intros (H1 & H2 & H3 & H4). repeat split; auto.
    - rewrite hist_app. cbn. now rewrite app_nil_r.
    - rewrite no_ub_app, H3. reflexivity.
    - intros Hm. destruct (H4 Hm) as (atr' & U & E). exists atr'. split; auto.
      rewrite hist_b_app. cbn. now rewrite app_nil_r.
  Qed.

  Lemma Ext07_ext qs (S S' : nat -> status (VQ capn)) x tr :
    (forall t, S' t = S t) -> Ext07 qs S x tr -> Ext07 qs S' x tr.
  Proof.
    intros HS ((S0 & R & E) & H2 & H3 & H4). repeat split; auto.
    exists S0. split; auto. intros t. now rewrite E, HS.
  Qed.

  Lemma Ext07_lin qs (S : nat -> status (VQ capn)) x tr t o :
    Ext07 qs S x tr -> S t = sPend k o ->
    Ext07 (fst (vq_step capn qs o)) (Lin.upd S t (sLin k o (snd (vq_step capn qs o)))) (xlin07 t x) tr.
  Proof.
    intros ((S0 & R & E) & H2 & H3 & H4) Hs. unfold xlin07. repeat split; auto.
    - exists (Lin.upd S0 t (sLin k o (snd (vq_step capn qs o)))). split.
      + rewrite lp_run_app, R. cbn [lp_run lp_step]. rewrite E, Hs. unfold sPend. reflexivity.
      + intros u. unfold Lin.upd. destruct (u =? t)%nat; auto.
    - rewrite erase_app. cbn. now rewrite app_nil_r.
    - intros Hm. destruct (H4 Hm) as (atr' & U & E'). exists (atr' ++ [@ALin (BFifo capn) t]). split.
      + apply unemb_app; auto.
      + rewrite erase_app. cbn. now rewrite app_nil_r.
  Qed.

  Lemma xview07_lin t (x : X) u : xview07 (xlin07 t x) u = xview07 x u.
  Proof. reflexivity. Qed.

  (** operation invoke / response and neutral client events *)
  Lemma ext_inv qs (S : nat -> status (VQ capn)) atr tr t o es :
    Ext07 qs S atr tr -> S t = @Idle (VQ capn) ->
    hist capn (Conc.tag t es) = [@HInv (VQ capn) t o] -> no_ub (Conc.tag t es) = true ->
    (mp = true -> exists ob, o = emb ob /\ hist_b capn (Conc.tag t es) = [@HInv (BFifo capn) t ob]) ->
    Ext07 qs (Lin.upd S t (sPend k o)) (atr ++ [@AInv (VQ capn) t o]) (tr ++ Conc.tag t es).
  Proof.
    intros ((S0 & R & E) & H2 & H3 & H4) Hs Hh Hu Hm. repeat split.
    - exists (Lin.upd S0 t (sPend k o)). split.
      + rewrite lp_run_app, R. cbn [lp_run lp_step]. rewrite E, Hs. reflexivity.
      + intros u. unfold Lin.upd. destruct (u =? t)%nat; auto.
    - rewrite erase_app, hist_app, H2, Hh. reflexivity.
    - rewrite no_ub_app, H3, Hu. reflexivity.
    - intros M. destruct (H4 M) as (atr' & U & E'). destruct (Hm M) as (ob & -> & Hb).
      exists (atr' ++ [@AInv (BFifo capn) t ob]). split.
      + apply unemb_app; auto. destruct ob; reflexivity.
      + rewrite erase_app, hist_b_app, E', Hb. reflexivity.
  Qed.

  Lemma ext_res qs (S : nat -> status (VQ capn)) atr tr t o r es :
    Ext07 qs S atr tr -> S t = sLin k o r ->
    hist capn (Conc.tag t es) = [@HRes (VQ capn) t r] -> no_ub (Conc.tag t es) = true ->
    (mp = true -> hist_b capn (Conc.tag t es) = [@HRes (BFifo capn) t r]) ->
    Ext07 qs (Lin.upd S t (@Idle (VQ capn))) (atr ++ [@ARes (VQ capn) t r]) (tr ++ Conc.tag t es).
  Proof.
    intros ((S0 & R & E) & H2 & H3 & H4) Hs Hh Hu Hm. repeat split.
    - exists (Lin.upd S0 t (@Idle (VQ capn))). split.
      + rewrite lp_run_app, R. cbn [lp_run lp_step]. rewrite E, Hs. unfold sLin.
        assert (Hr : res_eqb (VQ capn) r r = true) by (apply res_eqb_spec; reflexivity).
        rewrite Hr. reflexivity.
      + intros u. unfold Lin.upd. destruct (u =? t)%nat; auto.
    - rewrite erase_app, hist_app, H2, Hh. reflexivity.
    - rewrite no_ub_app, H3, Hu. reflexivity.
    - intros M. destruct (H4 M) as (atr' & U & E').
      exists (atr' ++ [@ARes (BFifo capn) t r]). split.
      + apply unemb_app; auto.
      + rewrite erase_app, hist_b_app, E', (Hm M). reflexivity.
  Qed.

  Lemma ext_neutral qs (S : nat -> status (VQ capn)) atr tr t es :
    Ext07 qs S atr tr ->
    hist capn (Conc.tag t es) = [] -> hist_b capn (Conc.tag t es) = [] -> no_ub (Conc.tag t es) = true ->
    Ext07 qs S atr (tr ++ Conc.tag t es).
  Proof.
    intros (H1 & H2 & H3 & H4) Hh Hb Hu. repeat split; auto.
    - rewrite hist_app, Hh, app_nil_r. exact H2.
    - rewrite no_ub_app, H3, Hu. reflexivity.
    - intros M. destruct (H4 M) as (atr' & U & E'). exists atr'. split; auto.
      rewrite hist_b_app, Hb, app_nil_r. exact E'.
  Qed.

  Notation RealInv07 := (RealInv k sc 0 X Ext07).
  Notation Inv07 := (Inv k sc 0 X Ext07).
  Notation view07 := (view X unit xview07).
  Notation safe := (@Conc.safe G V ev (Aux X) (phase * unit) view07 Inv07).

  (** a client event: the thread moves between two phases that carry no obligations *)
  Lemma emit_step g (a : Aux X) tr t p p' atr' es :
    Inv07 g a tr -> view07 a t = (p, tt) ->
    nclaims (Conc.tag t es) = 0 -> unclaimed p -> unclaimed p' ->
    (forall g', phase_ok k g' p') ->
    (consumer p' -> forall tc, sc = Some tc -> t = tc) -> (is_front p' -> sc = Some t) ->
    (RealInv07 g a tr -> bound k 0 tr ->
       Ext07 (absq X a) (fun u => stat_of k (updp (ph X a) t p' u)) atr' (tr ++ Conc.tag t es)) ->
    Inv07 g (mkAux X (absq X a) (updp (ph X a) t p') atr') (tr ++ Conc.tag t es) /\
    Conc.frame view07 t a (mkAux X (absq X a) (updp (ph X a) t p') atr') /\
    view07 (mkAux X (absq X a) (updp (ph X a) t p') atr') t = (p', tt).
  Proof.
    intros Hi Hv Hn Hu Hu' Hok Hco Hfr HE.
    assert (Hp : ph X a t = p) by (unfold view in Hv; inversion Hv; auto).
    split; [|split].
    - intros Hb. pose proof (bound_app k Hk 0 _ _ Hb) as Hb0. specialize (Hi Hb0).
      apply (ri_client k Hk); auto. rewrite Hp; auto.
    - intros u Hu0. unfold view; cbn. now rewrite updp_other.
    - unfold view; cbn. now rewrite updp_same.
  Qed.

  Ltac use_step S :=
    let I1 := fresh "I1" in let I2 := fresh "I2" in let I3 := fresh "I3" in let Hok := fresh "Hok" in
    match type of S with
    | ?A -> _ =>
        assert (Hok : A);
        [clear S
        |specialize (S Hok); destruct S as (I1 & I2 & I3); eexists;
         split; [exact I1|split; [exact I2|rewrite I3; clear I1 I2 I3 Hok]]]
    end.

  Lemma stat_upd_ext (a : Aux X) t p' (S : nat -> status (VQ capn)) x' tr' qs :
    Ext07 qs (Lin.upd (fun u => stat_of k (ph X a u)) t (stat_of k p')) x' tr' ->
    Ext07 qs (fun u => stat_of k (updp (ph X a) t p' u)) x' tr'.
  Proof. apply Ext07_ext. intros u. apply stat_updp. Qed.

  Definition Qop : bool -> phase * unit -> Prop := fun b l => b = true -> l = (PIdle, tt).

  (** response event of an operation whose linearized status is [sLin o r] *)
  Lemma safe_ret t p o r es :
    unclaimed p -> stat_of k p = sLin k o r ->
    nclaims (Conc.tag t es) = 0 ->
    hist capn (Conc.tag t es) = [@HRes (VQ capn) t r] -> no_ub (Conc.tag t es) = true ->
    (mp = true -> hist_b capn (Conc.tag t es) = [@HRes (BFifo capn) t r]) ->
    safe t (Emit es (Ret true)) (p, tt) Qop.
  Proof.
    intros Hu Hst Hn Hh Hub Hm. cbn [Conc.safe]. intros g a tr Hi Hv.
    assert (Hp : ph X a t = p) by (unfold view in Hv; inversion Hv; auto).
    assert (S := fun Hok => emit_step g a tr t p PIdle (ext X a ++ [@ARes (VQ capn) t r]) es Hi Hv Hn Hu I
                              (fun _ => I) (fun F => match F with end) (fun F => match F with end) Hok).
    use_step S.
    { intros R Hb. apply stat_upd_ext. exact (fun u => @Idle (VQ capn)).
      apply ext_res with (o := o); auto.
      - exact (ri_ext k sc 0 X Ext07 g a tr R).
      - cbn. rewrite Hp. exact Hst. }
    cbn. intros _. reflexivity.
  Qed.

  Lemma safe_stop t p name :
    (name = "outoffuel"%string \/ (name = "ub"%string /\ p = PUB)) -> unclaimed p ->
    safe t (Emit [EvCli name []] (Ret false)) (p, tt) Qop.
  Proof.
    intros Hname Hu. cbn [Conc.safe]. intros g a tr Hi Hv.
    assert (Hp : ph X a t = p) by (unfold view in Hv; inversion Hv; auto).
    exists a. split; [|split; [intros ? ?; reflexivity|]].
    - intros Hb. pose proof (bound_app k Hk 0 _ _ Hb) as Hb0. pose proof (Hi Hb0) as R.
      destruct Hname as [->|[-> ->]].
      + destruct R as [Rpos Rcl Rlen Rcont Rused Rfree Rseqb Rph RuE RuD Rsc Rfr Rext].
        constructor; auto.
        * rewrite nclaims_app. change (nclaims (Conc.tag t [EvCli "outoffuel" []])) with 0. lia.
        * apply ext_neutral; auto.
      + exfalso. pose proof (ri_ph k sc 0 X Ext07 g a tr R t) as P. rewrite Hp in P. exact P.
    - cbn. intros H; discriminate.
  Qed.

  Lemma safe_run_op fuel t o : allowed mp sc t o -> safe t (run_op q fuel o) (PIdle, tt) Qop.
  Proof.
    intros Hal. destruct o as [v| | | | |]; cbn [run_op Conc.safe allowed] in *.
    - (* enqueue *)
      intros g a tr Hi Hv.
      assert (Hp : ph X a t = PIdle) by (unfold view in Hv; inversion Hv; auto).
      assert (S := fun Hok => emit_step g a tr t PIdle (PEnq v) (ext X a ++ [@AInv (VQ capn) t (VEnq v)])
                                [EvCli "inv_enq" [v]] Hi Hv eq_refl I I (fun _ => I)
                                (fun F => match F with end) (fun F => match F with end) Hok).
      use_step S.
      { intros R Hb. apply stat_upd_ext. exact (fun u => @Idle (VQ capn)).
        apply ext_inv; auto.
        - exact (ri_ext k sc 0 X Ext07 g a tr R).
        - cbn. rewrite Hp. reflexivity.
        - intros _. exists (Enq v). split; reflexivity. }
      apply Conc.safe_bind. eapply Conc.safe_weaken;
        [|apply (safe_enqueue k Hk q Hq sc 0 (Z.le_refl 0) X unit xview07 xlin07 Ext07 Ext07_acc Ext07_ext Ext07_lin xview07_lin)].
      intros [[|]| |] l Hl; cbn [Qenq finish] in *.
      + subst l. apply safe_ret with (o := VEnq v) (r := RBool true); try reflexivity; exact I.
      + subst l. apply safe_ret with (o := VEnq v) (r := RBool false); try reflexivity; exact I.
      + destruct l as [p []]. cbn [Conc.safe]. intros g2 a2 tr2 Hi2 Hv2. exists a2.
        split; [|split; [intros ? ?; reflexivity|cbn; intros H; discriminate]].
        intros Hb. pose proof (bound_app k Hk 0 _ _ Hb) as Hb0. pose proof (Hi2 Hb0) as R.
        destruct R as [Rpos Rcl Rlen Rcont Rused Rfree Rseqb Rph RuE RuD Rsc Rfr Rext].
        constructor; auto.
        * rewrite nclaims_app. change (nclaims (Conc.tag t [EvCli "outoffuel" []])) with 0. lia.
        * apply ext_neutral; auto.
      + subst l. apply safe_stop; [right; auto|exact I].
    - (* dequeue *)
      intros g a tr Hi Hv.
      assert (Hp : ph X a t = PIdle) by (unfold view in Hv; inversion Hv; auto).
      assert (S := fun Hok => emit_step g a tr t PIdle (PDeq false) (ext X a ++ [@AInv (VQ capn) t VDeq])
                                [EvCli "inv_deq" []] Hi Hv eq_refl I I (fun _ => I)
                                (fun _ => Hal) (fun F => match F with end) Hok).
      use_step S.
      { intros R Hb. apply stat_upd_ext. exact (fun u => @Idle (VQ capn)).
        apply ext_inv; auto.
        - exact (ri_ext k sc 0 X Ext07 g a tr R).
        - cbn. rewrite Hp. reflexivity.
        - intros _. exists Deq. split; reflexivity. }
      apply Conc.safe_bind. eapply Conc.safe_weaken;
        [|apply (safe_dequeue k Hk q Hq sc 0 (Z.le_refl 0) X unit xview07 xlin07 Ext07 Ext07_acc Ext07_ext Ext07_lin xview07_lin)].
      intros [[x|]| |] l Hl; cbn [Qdeq finish] in *.
      + subst l. apply safe_ret with (o := VDeq) (r := RVal (Some x)); try reflexivity; exact I.
      + subst l. apply safe_ret with (o := VDeq) (r := RVal None); try reflexivity; exact I.
      + destruct l as [p []]. cbn [Conc.safe]. intros g2 a2 tr2 Hi2 Hv2. exists a2.
        split; [|split; [intros ? ?; reflexivity|cbn; intros H; discriminate]].
        intros Hb. pose proof (bound_app k Hk 0 _ _ Hb) as Hb0. pose proof (Hi2 Hb0) as R.
        destruct R as [Rpos Rcl Rlen Rcont Rused Rfree Rseqb Rph RuE RuD Rsc Rfr Rext].
        constructor; auto.
        * rewrite nclaims_app. change (nclaims (Conc.tag t [EvCli "outoffuel" []])) with 0. lia.
        * apply ext_neutral; auto.
      + subst l. apply safe_stop; [right; auto|exact I].
    - (* front *)
      destruct Hal as [Hmp Hsc].
      intros g a tr Hi Hv.
      assert (Hp : ph X a t = PIdle) by (unfold view in Hv; inversion Hv; auto).
      assert (S := fun Hok => emit_step g a tr t PIdle PFront (ext X a ++ [@AInv (VQ capn) t VFront])
                                [EvCli "inv_front" []] Hi Hv eq_refl I I (fun _ => I)
                                (fun _ tc H => ltac:(congruence)) (fun _ => Hsc) Hok).
      use_step S.
      { intros R Hb. apply stat_upd_ext. exact (fun u => @Idle (VQ capn)).
        apply ext_inv; auto.
        - exact (ri_ext k sc 0 X Ext07 g a tr R).
        - cbn. rewrite Hp. reflexivity.
        - intros M. congruence. }
      apply Conc.safe_bind. eapply Conc.safe_weaken;
        [|apply (safe_front k Hk q Hq sc 0 (Z.le_refl 0) X unit xview07 xlin07 Ext07 Ext07_acc Ext07_ext Ext07_lin xview07_lin)].
      intros [[x|]| |] l Hl; cbn [Qfront finish] in *.
      + subst l. apply safe_ret with (o := VFront) (r := RVal (Some x)); try reflexivity; try exact I. intros M; congruence.
      + subst l. apply safe_ret with (o := VFront) (r := RVal None); try reflexivity; try exact I. intros M; congruence.
      + destruct l as [p []]. cbn [Conc.safe]. intros g2 a2 tr2 Hi2 Hv2. exists a2.
        split; [|split; [intros ? ?; reflexivity|cbn; intros H; discriminate]].
        intros Hb. pose proof (bound_app k Hk 0 _ _ Hb) as Hb0. pose proof (Hi2 Hb0) as R.
        destruct R as [Rpos Rcl Rlen Rcont Rused Rfree Rseqb Rph RuE RuD Rsc Rfr Rext].
        constructor; auto.
        * rewrite nclaims_app. change (nclaims (Conc.tag t [EvCli "outoffuel" []])) with 0. lia.
        * apply ext_neutral; auto.
      + subst l. apply safe_stop; [right; auto|exact I].
    - (* pop_front *)
      destruct Hal as [Hmp Hsc].
      intros g a tr Hi Hv.
      assert (Hp : ph X a t = PIdle) by (unfold view in Hv; inversion Hv; auto).
      assert (S := fun Hok => emit_step g a tr t PIdle (PDeq true) (ext X a ++ [@AInv (VQ capn) t VPopFront])
                                [EvCli "inv_pop" []] Hi Hv eq_refl I I (fun _ => I)
                                (fun _ => Hsc) (fun F => match F with end) Hok).
      use_step S.
      { intros R Hb. apply stat_upd_ext. exact (fun u => @Idle (VQ capn)).
        apply ext_inv; auto.
        - exact (ri_ext k sc 0 X Ext07 g a tr R).
        - cbn. rewrite Hp. reflexivity.
        - intros M. congruence. }
      apply Conc.safe_bind. eapply Conc.safe_weaken;
        [|apply (safe_dequeue k Hk q Hq sc 0 (Z.le_refl 0) X unit xview07 xlin07 Ext07 Ext07_acc Ext07_ext Ext07_lin xview07_lin)].
      intros [[x|]| |] l Hl; cbn [Qdeq finish] in *.
      + subst l. apply safe_ret with (o := VPopFront) (r := RBool true); try reflexivity; try exact I. intros M; congruence.
      + subst l. apply safe_ret with (o := VPopFront) (r := RBool false); try reflexivity; try exact I. intros M; congruence.
      + destruct l as [p []]. cbn [Conc.safe]. intros g2 a2 tr2 Hi2 Hv2. exists a2.
        split; [|split; [intros ? ?; reflexivity|cbn; intros H; discriminate]].
        intros Hb. pose proof (bound_app k Hk 0 _ _ Hb) as Hb0. pose proof (Hi2 Hb0) as R.
        destruct R as [Rpos Rcl Rlen Rcont Rused Rfree Rseqb Rph RuE RuD Rsc Rfr Rext].
        constructor; auto.
        * rewrite nclaims_app. change (nclaims (Conc.tag t [EvCli "outoffuel" []])) with 0. lia.
        * apply ext_neutral; auto.
      + subst l. apply safe_stop; [right; auto|exact I].
    - (* empty *)
      intros g a tr Hi Hv.
      assert (Hp : ph X a t = PIdle) by (unfold view in Hv; inversion Hv; auto).
      assert (S := fun Hok => emit_step g a tr t PIdle PEmpty (ext X a)
                                [EvCli "inv_empty" []] Hi Hv eq_refl I I (fun _ => I)
                                (fun F => match F with end) (fun F => match F with end) Hok).
      use_step S.
      { intros R Hb. apply ext_neutral; auto. eapply Ext07_ext; [|exact (ri_ext k sc 0 X Ext07 g a tr R)].
        intros u. cbn. unfold updp. destruct (Nat.eqb_spec u t) as [->|]; [rewrite Hp|]; reflexivity. }
      apply Conc.safe_bind. eapply Conc.safe_weaken;
        [|apply (safe_empty k Hk q Hq sc 0 (Z.le_refl 0) X unit xview07 Ext07 Ext07_acc Ext07_ext)].
      intros [b| |] l Hl; cbn [Qempty finish] in *.
      + destruct Hl as (pos & ->). cbn [Conc.safe]. intros g2 a2 tr2 Hi2 Hv2.
        assert (Hp2 : ph X a2 t = EmPos pos) by (unfold view in Hv2; inversion Hv2; auto).
        assert (S := fun Hok => emit_step g2 a2 tr2 t (EmPos pos) PIdle (ext X a2)
                                  [EvCli "ret_empty" [b2z b]] Hi2 Hv2 eq_refl I I (fun _ => I)
                                  (fun F => match F with end) (fun F => match F with end) Hok).
        use_step S.
        { intros R Hb. apply ext_neutral; auto. eapply Ext07_ext; [|exact (ri_ext k sc 0 X Ext07 g2 a2 tr2 R)].
          intros u. cbn. unfold updp. destruct (Nat.eqb_spec u t) as [->|]; [rewrite Hp2|]; reflexivity. }
        cbn. intros _. reflexivity.
      + destruct l as [p []]. cbn [Conc.safe]. intros g2 a2 tr2 Hi2 Hv2. exists a2.
        split; [|split; [intros ? ?; reflexivity|cbn; intros H; discriminate]].
        intros Hb. pose proof (bound_app k Hk 0 _ _ Hb) as Hb0. pose proof (Hi2 Hb0) as R.
        destruct R as [Rpos Rcl Rlen Rcont Rused Rfree Rseqb Rph RuE RuD Rsc Rfr Rext].
        constructor; auto.
        * rewrite nclaims_app. change (nclaims (Conc.tag t [EvCli "outoffuel" []])) with 0. lia.
        * apply ext_neutral; auto.
      + subst l. apply safe_stop; [right; auto|exact I].
    - (* size *)
      intros g a tr Hi Hv.
      assert (Hp : ph X a t = PIdle) by (unfold view in Hv; inversion Hv; auto).
      assert (S := fun Hok => emit_step g a tr t PIdle PIdle (ext X a)
                                [EvCli "inv_size" []] Hi Hv eq_refl I I (fun _ => I)
                                (fun F => match F with end) (fun F => match F with end) Hok).
      use_step S.
      { intros R Hb. apply ext_neutral; auto. eapply Ext07_ext; [|exact (ri_ext k sc 0 X Ext07 g a tr R)].
        intros u. cbn. unfold updp. destruct (Nat.eqb_spec u t) as [->|]; [rewrite Hp|]; reflexivity. }
      apply Conc.safe_bind. eapply Conc.safe_weaken;
        [|apply (safe_size k Hk q sc 0 X unit xview07 Ext07 Ext07_acc Ext07_ext)].
      intros n l ->. cbn [Conc.safe]. intros g2 a2 tr2 Hi2 Hv2.
      assert (Hp2 : ph X a2 t = PIdle) by (unfold view in Hv2; inversion Hv2; auto).
      assert (S := fun Hok => emit_step g2 a2 tr2 t PIdle PIdle (ext X a2)
                                [EvCli "ret_size" [n]] Hi2 Hv2 eq_refl I I (fun _ => I)
                                (fun F => match F with end) (fun F => match F with end) Hok).
      use_step S.
      { intros R Hb. apply ext_neutral; auto. eapply Ext07_ext; [|exact (ri_ext k sc 0 X Ext07 g2 a2 tr2 R)].
        intros u. cbn. unfold updp. destruct (Nat.eqb_spec u t) as [->|]; [rewrite Hp2|]; reflexivity. }
      cbn. intros _. reflexivity.
  Qed.


  Lemma safe_run_ops fuel t os :
    (forall o, In o os -> allowed mp sc t o) ->
    safe t (run_ops q fuel os) (PIdle, tt) (@Conc.QTrue (phase * unit)).
  Proof.
    induction os as [|o r IH]; intros Hal; cbn [run_ops]; [exact I|].
    apply Conc.safe_bind. eapply Conc.safe_weaken; [|apply safe_run_op; apply Hal; left; reflexivity].
    intros [|] l Hl.
    - rewrite (Hl eq_refl). apply IH. intros o' Ho'. apply Hal. right; exact Ho'.
    - exact I.
  Qed.

  Lemma safe_thread fuel t os :
    (forall o, In o os -> allowed mp sc t o) ->
    safe t (thread_prog q fuel os) (PIdle, tt) (@Conc.QTrue (phase * unit)).
  Proof.
    intros Hal. unfold thread_prog. cbn [Conc.safe]. intros g a tr Hi Hv. cbn [a_begin fst snd].
    exists a. split; [|split; [intros ? ?; reflexivity|rewrite Hv; apply safe_run_ops; exact Hal]].
    intros Hb. pose proof (bound_app k Hk 0 _ _ Hb) as Hb0. pose proof (Hi Hb0) as R.
    destruct R as [Rpos Rcl Rlen Rcont Rused Rfree Rseqb Rph RuE RuD Rsc Rfr Rext].
    constructor; auto.
    - rewrite nclaims_app. change (nclaims (Conc.tag t [EvAcc KBegin [] true])) with 0. lia.
    - apply ext_neutral; auto.
  Qed.

  Definition programs_allowed (ths : list (list op)) : Prop :=
    forall t os o, nth_error ths t = Some os -> In o os -> allowed mp sc t o.

  Definition aux0 : Aux X := mkAux X [] (fun _ => PIdle) [].

  Lemma init_real : RealInv07 init aux0 [].
  Proof.
    pose proof (cap_ge2 k Hk) as C2.
    constructor; cbn [init aux0 posE posD seqs datas absq ph ext]; try (intros; discriminate).
    - lia.
    - reflexivity.
    - reflexivity.
    - intros i Hi. cbn in Hi. lia.
    - intros p Hp. lia.
    - intros p Hp. left. unfold VyukovArith.cell. apply Z.mod_small. lia.
    - intros p. pose proof (cell_range k Hk p). lia.
    - intros t. exact I.
    - intros tc t _ F. destruct F.
    - intros t F. destruct F.
    - repeat split.
      + exists (fun _ => @Idle (VQ capn)). split; reflexivity.
      + intros _. exists []. split; reflexivity.
  Qed.

  Lemma init_ok fuel ths : programs_allowed ths ->
    Conc.cfg_ok view07 Inv07 (init_cfg q fuel ths).
  Proof.
    intros Hal. exists aux0. split.
    - intros _. apply init_real.
    - intros t p Hp. cbn [init_cfg Conc.threads] in Hp. rewrite nth_error_map in Hp.
      destruct (nth_error ths t) as [os|] eqn:E; inversion Hp; subst.
      apply safe_thread. intros o Ho. eapply Hal; eauto.
  Qed.

  (** everything the invariant gives in a reachable configuration, under the bound *)
  Theorem reach_real fuel ths c :
    programs_allowed ths -> Conc.reach (init_cfg q fuel ths) c -> bound k 0 (Conc.trace c) ->
    exists a, RealInv07 (Conc.shared c) a (Conc.trace c).
  Proof.
    intros Hal Hr Hb. destruct (Conc.reach_Inv (init_ok fuel ths Hal) Hr) as (a & Hi). exists a. apply Hi. exact Hb.
  Qed.

End Inst.
