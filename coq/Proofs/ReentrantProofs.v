(** * cds::sync::reentrant_spin_lock: mutual exclusion between different threads with arbitrary nesting,
      and "released only by the owner's last unlock", for every schedule, any number of threads and locks.

    Trace-level quantities (thread [t], lock [l]):
      [occ t l tr]   = #"enter l" - #"leave l" by t     nesting depth of t inside the critical section of l
      [nestc t l tr] = #"enter l" - #"rel l" by t       lock() calls returned minus unlock() calls returned
    Auxiliary state: per thread a phase and the stack of locks it has entered and not yet released. *)
From Coq Require Import ZArith List String Bool Lia PeanoNat.
From LV Require Import Base.Conc Base.Events Model.Reentrant.
Import ListNotations.
Local Open Scope Z_scope.
Local Open Scope string_scope.

Definition cli_is (name : string) (l : nat) (e : ev) : bool :=
  match e with
  | EvCli n [x] => String.eqb n name && Z.eqb x (Z.of_nat l)
  | _ => false
  end.

Fixpoint cnt_ev (name : string) (t l : nat) (tr : list (nat * ev)) : Z :=
  match tr with
  | [] => 0
  | (t', e) :: r => (if Nat.eqb t' t && cli_is name l e then 1 else 0) + cnt_ev name t l r
  end.

Definition occ (t l : nat) (tr : list (nat * ev)) : Z := cnt_ev "enter" t l tr - cnt_ev "leave" t l tr.
Definition nestc (t l : nat) (tr : list (nat * ev)) : Z := cnt_ev "enter" t l tr - cnt_ev "rel" t l tr.

Lemma cnt_ev_app name t l tr tr' : cnt_ev name t l (tr ++ tr') = cnt_ev name t l tr + cnt_ev name t l tr'.
Proof. induction tr as [|[t' e] r IH]; cbn [cnt_ev app]; lia. Qed.

Lemma cnt_ev_tag_other name t t' l es : t' <> t -> cnt_ev name t l (Conc.tag t' es) = 0.
Proof.
  intros H. induction es as [|e r IH]; cbn; [reflexivity|].
  destruct (Nat.eqb_spec t' t); [congruence|]. cbn. exact IH.
Qed.

(** d l' l = 1 if l' = l else 0 *)
Definition d (l' l : nat) : Z := if Nat.eqb l' l then 1 else 0.

Lemma cnt_ev_tag_cli1 name t l n l' :
  cnt_ev name t l (Conc.tag t [EvCli n [Z.of_nat l']]) = if String.eqb n name then d l' l else 0.
Proof.
  cbn. rewrite Nat.eqb_refl. cbn. unfold d.
  destruct (String.eqb n name); cbn; [|reflexivity].
  destruct (Z.eqb_spec (Z.of_nat l') (Z.of_nat l)) as [E|E]; destruct (Nat.eqb_spec l' l) as [E'|E']; try lia.
Qed.

Lemma cnt_ev_tag_acc name t l k o ok : cnt_ev name t l (Conc.tag t [EvAcc k o ok]) = 0.
Proof. cbn. rewrite Nat.eqb_refl. reflexivity. Qed.

(** successful acquisitions of m_spin (CAS 0->1 that succeeded, or the owner's fetch_add) *)
Definition acq_is (l : nat) (e : ev) : bool :=
  match e with
  | EvAcc KCas [0; y] true => Z.eqb y (Z.of_nat l)
  | EvAcc KFaa [0; y] _ => Z.eqb y (Z.of_nat l)
  | _ => false
  end.
Fixpoint cnt_acq (t l : nat) (tr : list (nat * ev)) : Z :=
  match tr with
  | [] => 0
  | (t', e) :: r => (if Nat.eqb t' t && acq_is l e then 1 else 0) + cnt_acq t l r
  end.
(** [acqp t l tr]: acquisitions of l by t that are not yet followed by their "enter": t is inside lock()/try_lock()
    and has already taken the lock word *)
Definition acqp (t l : nat) (tr : list (nat * ev)) : Z := cnt_acq t l tr - cnt_ev "enter" t l tr.

Lemma cnt_acq_app t l tr tr' : cnt_acq t l (tr ++ tr') = cnt_acq t l tr + cnt_acq t l tr'.
Proof. induction tr as [|[t' e] r IH]; cbn [cnt_acq app]; lia. Qed.
Lemma cnt_acq_tag_other t t' l es : t' <> t -> cnt_acq t l (Conc.tag t' es) = 0.
Proof.
  intros H. induction es as [|e r IH]; cbn; [reflexivity|].
  destruct (Nat.eqb_spec t' t); [congruence|]. cbn. exact IH.
Qed.
Lemma cnt_acq_tag1 t l e : cnt_acq t l (Conc.tag t [e]) = if acq_is l e then 1 else 0.
Proof. cbn. rewrite Nat.eqb_refl. cbn. destruct (acq_is l e); reflexivity. Qed.
Lemma acq_is_faa l0 l ok : acq_is l0 (EvAcc KFaa (obj_spin l) ok) = Nat.eqb l l0.
Proof. cbn. destruct (Z.eqb_spec (Z.of_nat l) (Z.of_nat l0)); destruct (Nat.eqb_spec l l0); try lia; reflexivity. Qed.
Lemma acq_is_cas l0 l : acq_is l0 (EvAcc KCas (obj_spin l) true) = Nat.eqb l l0.
Proof. cbn. destruct (Z.eqb_spec (Z.of_nat l) (Z.of_nat l0)); destruct (Nat.eqb_spec l l0); try lia; reflexivity. Qed.

(** ** auxiliary state *)
Inductive phase :=
| Idle
| Acq (l : nat)       (* CAS 0->1 on m_spin succeeded, owner not stored yet *)
| Got (l : nat)       (* lock()/try_lock() complete, "enter" not emitted yet *)
| Left (l : nat)      (* "leave" emitted, unlock() in progress (owner still set) *)
| Freeing (l : nat)   (* unlock(): owner cleared, m_spin still 1 *)
| Rel (l : nat).      (* unlock() complete, "rel" not emitted yet *)

Definition tv := (phase * list nat)%type.
Definition Aux := nat -> tv.
Definition view (a : Aux) (t : nat) : tv := a t.

Definition K (s : list nat) (l : nat) : Z := Z.of_nat (count_occ Nat.eq_dec s l).

Lemma K_cons x s l : K (x :: s) l = d x l + K s l.
Proof.
  unfold K, d. cbn [count_occ]. destruct (Nat.eq_dec x l) as [E|E]; destruct (Nat.eqb_spec x l); try congruence; lia.
Qed.
Lemma K_nonneg s l : 0 <= K s l.
Proof. unfold K. lia. Qed.
Lemma K_nil l : K [] l = 0.
Proof. reflexivity. Qed.

(** number of times the thread physically holds l (its contribution to m_spin) *)
Definition hold (v : tv) (l : nat) : Z :=
  K (snd v) l + match fst v with Acq l' | Got l' => d l' l | Rel l' => - d l' l | _ => 0 end.
(** number of holds for which m_OwnerId names the thread *)
Definition own (v : tv) (l : nat) : Z :=
  K (snd v) l + match fst v with Got l' => d l' l | Freeing l' | Rel l' => - d l' l | _ => 0 end.
(** trace-level depth inside the critical section *)
Definition ins (v : tv) (l : nat) : Z :=
  K (snd v) l + match fst v with Left l' | Freeing l' | Rel l' => - d l' l | _ => 0 end.

(** lock word taken inside lock(), "enter" not yet emitted *)
Definition aq (v : tv) (l : nat) : Z :=
  match fst v with Acq l' | Got l' => d l' l | _ => 0 end.

Definition Inv (g : G) (a : Aux) (tr : list (nat * ev)) : Prop :=
  (forall t l, hold (a t) l > 0 -> Z.of_nat (spin g l) = hold (a t) l) /\
  (forall t t' l, hold (a t) l > 0 -> hold (a t') l > 0 -> t = t') /\
  (forall t l, owner g l = S t -> own (a t) l > 0) /\
  (forall t l, nestc t l tr = K (snd (a t)) l /\ occ t l tr = ins (a t) l) /\
  (forall l, (spin g l > 0)%nat -> exists t, hold (a t) l > 0) /\
  (forall t l, 0 <= ins (a t) l) /\
  (forall t l, acqp t l tr = aq (a t) l).

Definition upd (a : Aux) (t : nat) (v : tv) : Aux := fun x => if Nat.eqb x t then v else a x.
Lemma upd_same a t v : upd a t v t = v.
Proof. unfold upd. now rewrite Nat.eqb_refl. Qed.
Lemma upd_other a t v t' : t' <> t -> upd a t v t' = a t'.
Proof. unfold upd. intros H. destruct (Nat.eqb_spec t' t); congruence. Qed.
Lemma frame_upd a t v : Conc.frame view t a (upd a t v).
Proof. intros t' H. unfold view. now apply upd_other. Qed.
Lemma frame_refl a t : Conc.frame view t a a.
Proof. intros ? ?; reflexivity. Qed.

Notation safe := (@Conc.safe G V ev Aux tv view Inv).

(** ** the master preservation lemma: thread [t] moves from view [a t] to [v'], the shared state changes
       only at lock [l], and the events [es] are appended. *)
Lemma step_inv g a tr t l v' g' es :
  Inv g a tr ->
  (forall l', l' <> l -> spin g' l' = spin g l' /\ owner g' l' = owner g l') ->
  (forall l', l' <> l -> hold v' l' = hold (a t) l' /\ own v' l' = own (a t) l') ->
  (forall l0, cnt_ev "enter" t l0 (Conc.tag t es) - cnt_ev "rel" t l0 (Conc.tag t es) = K (snd v') l0 - K (snd (a t)) l0) ->
  (forall l0, cnt_ev "enter" t l0 (Conc.tag t es) - cnt_ev "leave" t l0 (Conc.tag t es) = ins v' l0 - ins (a t) l0) ->
  (hold v' l > 0 -> Z.of_nat (spin g' l) = hold v' l) ->
  (spin g' l = spin g l \/ forall t', t' <> t -> hold (a t') l <= 0) ->
  (hold v' l > 0 -> hold (a t) l > 0 \/ forall t', t' <> t -> hold (a t') l <= 0) ->
  (owner g' l = S t -> own v' l > 0) ->
  (forall t', t' <> t -> owner g' l = S t' -> owner g l = S t') ->
  ((spin g' l > 0)%nat -> hold v' l > 0 \/ ((spin g l > 0)%nat /\ hold (a t) l <= 0)) ->
  (forall l0, 0 <= ins v' l0) ->
  (forall l0, cnt_acq t l0 (Conc.tag t es) - cnt_ev "enter" t l0 (Conc.tag t es) = aq v' l0 - aq (a t) l0) ->
  Inv g' (upd a t v') (tr ++ Conc.tag t es).
Proof.
  intros (I1 & I2 & I3 & I4 & I5 & I6 & I7) Hg Hv Hn Ho C1 C2 C3 C4 C5 C6 C7 C8.
  repeat split.
  - (* I1 *)
    intros t0 l0 H. destruct (Nat.eq_dec l0 l) as [->|Hl].
    + destruct (Nat.eq_dec t0 t) as [->|Ht].
      * rewrite upd_same in *. auto.
      * rewrite upd_other in * by exact Ht. destruct C2 as [C2|C2].
        -- rewrite C2. auto.
        -- specialize (C2 t0 Ht). lia.
    + destruct (Hg l0 Hl) as [Hs _]. rewrite Hs.
      destruct (Nat.eq_dec t0 t) as [->|Ht].
      * rewrite upd_same in *. destruct (Hv l0 Hl) as [E _]. rewrite E in *. auto.
      * rewrite upd_other in * by exact Ht. auto.
  - (* I2 *)
    intros t1 t2 l0 H1 H2.
    assert (X : forall x, hold (upd a t v' x) l0 > 0 -> x <> t -> hold (a x) l0 > 0).
    { intros x Hx Hne. now rewrite upd_other in Hx. }
    destruct (Nat.eq_dec t1 t) as [->|N1]; destruct (Nat.eq_dec t2 t) as [->|N2]; auto.
    + rewrite upd_same in H1. apply X in H2; [|exact N2].
      destruct (Nat.eq_dec l0 l) as [->|Hl].
      * destruct (C3 H1) as [C|C]; [symmetry; eapply I2; eauto|]. specialize (C t2 N2). lia.
      * destruct (Hv l0 Hl) as [E _]. rewrite E in H1. symmetry; eapply I2; eauto.
    + rewrite upd_same in H2. apply X in H1; [|exact N1].
      destruct (Nat.eq_dec l0 l) as [->|Hl].
      * destruct (C3 H2) as [C|C]; [eapply I2; eauto|]. specialize (C t1 N1). lia.
      * destruct (Hv l0 Hl) as [E _]. rewrite E in H2. eapply I2; eauto.
    + apply X in H1; [|exact N1]. apply X in H2; [|exact N2]. eapply I2; eauto.
  - (* I3 *)
    intros t0 l0 H. destruct (Nat.eq_dec l0 l) as [->|Hl].
    + destruct (Nat.eq_dec t0 t) as [->|Ht].
      * rewrite upd_same. auto.
      * rewrite upd_other by exact Ht. apply I3. auto.
    + destruct (Hg l0 Hl) as [_ Hw]. rewrite Hw in H.
      destruct (Nat.eq_dec t0 t) as [->|Ht].
      * rewrite upd_same. destruct (Hv l0 Hl) as [_ E]. rewrite E. auto.
      * rewrite upd_other by exact Ht. auto.
  - (* I4 nestc *)
    unfold nestc. rewrite !cnt_ev_app. destruct (I4 t0 l0) as [J _]. unfold nestc in J.
    destruct (Nat.eq_dec t0 t) as [->|Ht].
    + rewrite upd_same. specialize (Hn l0). lia.
    + rewrite upd_other by exact Ht. rewrite !cnt_ev_tag_other by congruence. lia.
  - (* I4 occ *)
    unfold occ. rewrite !cnt_ev_app. destruct (I4 t0 l0) as [_ J]. unfold occ in J.
    destruct (Nat.eq_dec t0 t) as [->|Ht].
    + rewrite upd_same. specialize (Ho l0). lia.
    + rewrite upd_other by exact Ht. rewrite !cnt_ev_tag_other by congruence. lia.
  - (* I5 *)
    intros l0 H. destruct (Nat.eq_dec l0 l) as [->|Hl].
    + destruct (C6 H) as [C|[C C']].
      * exists t. now rewrite upd_same.
      * destruct (I5 l C) as [t0 Ht0]. exists t0. destruct (Nat.eq_dec t0 t) as [->|Ht]; [lia|].
        now rewrite upd_other.
    + destruct (Hg l0 Hl) as [Hs _]. rewrite Hs in H. destruct (I5 l0 H) as [t0 Ht0]. exists t0.
      destruct (Nat.eq_dec t0 t) as [->|Ht].
      * rewrite upd_same. destruct (Hv l0 Hl) as [E _]. now rewrite E.
      * now rewrite upd_other.
  - (* I6 *)
    intros t0 l0. destruct (Nat.eq_dec t0 t) as [->|Ht].
    + rewrite upd_same. apply C7.
    + rewrite upd_other by exact Ht. apply I6.
  - (* I7 *)
    intros t0 l0. unfold acqp. rewrite cnt_acq_app, cnt_ev_app. specialize (I7 t0 l0). unfold acqp in I7.
    destruct (Nat.eq_dec t0 t) as [->|Ht].
    + rewrite upd_same. specialize (C8 l0). lia.
    + rewrite upd_other by exact Ht. rewrite cnt_acq_tag_other, cnt_ev_tag_other by congruence. lia.
Qed.

(** ** helpers *)
Lemma inv_spin0 g a tr l : Inv g a tr -> spin g l = 0%nat -> forall t', hold (a t') l <= 0.
Proof.
  intros (I1 & _) Hs t'. destruct (Z_gt_le_dec (hold (a t') l) 0) as [H|H]; [|exact H].
  specialize (I1 _ _ H). rewrite Hs in I1. cbn in I1. lia.
Qed.

Lemma inv_others g a tr t l : Inv g a tr -> hold (a t) l > 0 -> forall t', t' <> t -> hold (a t') l <= 0.
Proof.
  intros (_ & I2 & _) H t' Hne. destruct (Z_gt_le_dec (hold (a t') l) 0) as [H'|H']; [|exact H'].
  exfalso. apply Hne. eapply I2; eauto.
Qed.

(** events that are not "enter"/"leave"/"rel" of one lock leave the invariant alone *)
Definition quiet (t : nat) (es : list ev) : Prop :=
  (forall name t0 l0, cnt_ev name t0 l0 (Conc.tag t es) = 0 \/ (name <> "enter" /\ name <> "leave" /\ name <> "rel")) /\
  (forall t0 l0, cnt_acq t0 l0 (Conc.tag t es) = 0).

Lemma Inv_quiet g a tr t es : quiet t es -> Inv g a tr -> Inv g a (tr ++ Conc.tag t es).
Proof.
  intros [Hq Hqa] (I1 & I2 & I3 & I4 & I5 & I6 & I7). repeat split; auto.
  - unfold nestc. rewrite !cnt_ev_app. destruct (I4 t0 l) as [J _]. unfold nestc in J.
    destruct (Hq "enter" t0 l) as [->|(X & _)]; [|congruence].
    destruct (Hq "rel" t0 l) as [->|(_ & _ & X)]; [|congruence]. lia.
  - unfold occ. rewrite !cnt_ev_app. destruct (I4 t0 l) as [_ J]. unfold occ in J.
    destruct (Hq "enter" t0 l) as [->|(X & _)]; [|congruence].
    destruct (Hq "leave" t0 l) as [->|(_ & X & _)]; [|congruence]. lia.
  - intros t0 l. unfold acqp. rewrite cnt_acq_app, cnt_ev_app, Hqa. specialize (I7 t0 l). unfold acqp in I7.
    destruct (Hq "enter" t0 l) as [->|(X & _)]; [|congruence]. lia.
Qed.

Lemma quiet_acc t k o ok : (forall l, acq_is l (EvAcc k o ok) = false) -> quiet t [EvAcc k o ok].
Proof.
  intros Ha. split.
  - intros name t0 l0. left. destruct (Nat.eq_dec t0 t) as [->|H].
    + apply cnt_ev_tag_acc.
    + apply cnt_ev_tag_other. congruence.
  - intros t0 l0. destruct (Nat.eq_dec t0 t) as [->|H].
    + rewrite cnt_acq_tag1, Ha. reflexivity.
    + apply cnt_acq_tag_other. congruence.
Qed.

Lemma quiet_cli t n args :
  String.eqb n "enter" = false -> String.eqb n "leave" = false -> String.eqb n "rel" = false ->
  quiet t [EvCli n args].
Proof.
  intros N1 N2 N3. split; [|intros t0 l0; cbn; destruct (Nat.eqb t t0); reflexivity].
  intros name t0 l0.
  destruct (String.eqb_spec name "enter") as [->|E1]; [left|
    destruct (String.eqb_spec name "leave") as [->|E2]; [left|
      destruct (String.eqb_spec name "rel") as [->|E3]; [left|right; auto]]].
  all: cbn; destruct (Nat.eqb t t0); cbn; try reflexivity;
       destruct args as [|x [|y r]]; try reflexivity; rewrite ?N1, ?N2, ?N3; reflexivity.
Qed.

Lemma safe_emit_quiet {R} t n args (k : prog R) v Q :
  String.eqb n "enter" = false -> String.eqb n "leave" = false -> String.eqb n "rel" = false ->
  safe t k v Q -> safe t (Emit [EvCli n args] k) v Q.
Proof.
  intros N1 N2 N3 Hk. cbn [Conc.safe]. intros g a tr Hi Hv. exists a.
  split; [apply Inv_quiet; auto using quiet_cli|]. split; [apply frame_refl|]. now rewrite Hv.
Qed.

(** simplification of the view tables and of the shared-state updates *)
Ltac simp :=
  unfold hold, own, ins in *; cbn [fst snd spin owner set_spin set_owner] in *;
  rewrite ?K_cons in *; unfold updf, d in *.
Ltac eqbs :=
  repeat match goal with
         | |- context [Nat.eqb ?x ?y] => destruct (Nat.eqb_spec x y)
         | H : context [Nat.eqb ?x ?y] |- _ => destruct (Nat.eqb_spec x y)
         end.
Ltac knn :=
  repeat match goal with
         | |- context [K ?s ?l] =>
             lazymatch goal with
             | H : 0 <= K s l |- _ => fail
             | _ => pose proof (K_nonneg s l)
             end
         | _ : context [K ?s ?l] |- _ =>
             lazymatch goal with
             | H : 0 <= K s l |- _ => fail
             | _ => pose proof (K_nonneg s l)
             end
         end.
Ltac fin := simp; knn; eqbs; subst; try congruence; try lia.

(** an access that changes nothing and whose continuation may use what the invariant says about the value read *)
Lemma safe_act_read {R} t (f : G -> G * V * list ev) (k : V -> prog R) v Q :
  (forall g, fst (fst (f g)) = g /\ exists kd o ok, snd (f g) = [EvAcc kd o ok] /\ forall l, acq_is l (EvAcc kd o ok) = false) ->
  (forall g a tr, Inv g a tr -> a t = v -> safe t (k (snd (fst (f g)))) v Q) ->
  safe t (Act f k) v Q.
Proof.
  intros Hf Hk. cbn [Conc.safe]. intros g a tr Hi Hv. unfold view in Hv.
  destruct (Hf g) as (E & kd & o & ok & Ees & Hna). exists a. rewrite E, Ees.
  split; [apply Inv_quiet; auto using quiet_acc|]. split; [apply frame_refl|].
  unfold view. rewrite Hv. eapply Hk; eauto.
Qed.

(** *** try_taken_lock *)
Definition Qacq (l : nat) (s : list nat) : bool -> tv -> Prop :=
  fun ok v => if ok then v = (Got l, s) else v = (Idle, s).

Lemma safe_faa t l s : K s l > 0 ->
  safe t (Act (a_faa l) (fun _ => Ret true)) (Idle, s) (Qacq l s).
Proof.
  intros HK. cbn [Conc.safe]. intros g a tr Hi Hv. unfold view in Hv. cbn [a_faa fst snd].
  exists (upd a t (Got l, s)). split; [|split; [apply frame_upd|unfold view; rewrite upd_same; reflexivity]].
  assert (Hh : hold (a t) l > 0) by (rewrite Hv; fin).
  pose proof (inv_others g a tr t l Hi Hh) as Hoth.
  pose proof Hi as (I1 & I2 & I3 & I4 & I5 & I6 & I7). pose proof (I1 _ _ Hh) as Hsp.
  eapply (step_inv g a tr t l); [exact Hi| | | | | | | | | | | |]; rewrite ?Hv in *.
  - intros l' Hl. fin.
  - intros l' Hl. fin.
  - intros l0. rewrite !cnt_ev_tag_acc. fin.
  - intros l0. rewrite !cnt_ev_tag_acc. fin.
  - intros _. fin.
  - right. exact Hoth.
  - intros _. left. fin.
  - intros _. fin.
  - intros t' Ht. fin.
  - intros _. left. fin.
  - intros l0. destruct Hi as (_ & _ & _ & _ & _ & J6 & _). specialize (J6 t l0). rewrite Hv in J6. fin.
  - intros l0. rewrite cnt_acq_tag1, acq_is_faa, cnt_ev_tag_acc. unfold aq. fin.
Qed.

Lemma safe_try_taken t l s : safe t (try_taken (S t) l) (Idle, s) (Qacq l s).
Proof.
  unfold try_taken. apply safe_act_read.
  - intros g. cbn. split; auto. do 3 eexists. split; [reflexivity|intros; reflexivity].
  - intros g a tr (_ & _ & I3 & _) Hv. cbn [a_ld_owner fst snd].
    destruct (Nat.eqb_spec (owner g l) (S t)) as [E|E].
    + apply safe_faa. specialize (I3 _ _ E). rewrite Hv in I3. fin.
    + cbn. reflexivity.
Qed.

(** *** try_acquire / acquire *)
Definition Qcas (l : nat) (s : list nat) : bool -> tv -> Prop :=
  fun ok v => if ok then v = (Acq l, s) else v = (Idle, s).

Lemma safe_cas {R} t l s (k : V -> prog R) Q :
  safe t (k 1%nat) (Acq l, s) Q -> safe t (k 0%nat) (Idle, s) Q ->
  safe t (Act (a_cas l) k) (Idle, s) Q.
Proof.
  intros Hok Hfail. cbn [Conc.safe]. intros g a tr Hi Hv. unfold view in Hv. unfold a_cas.
  destruct (Nat.eqb_spec (spin g l) 0) as [E|E]; cbn [fst snd].
  - exists (upd a t (Acq l, s)). split; [|split; [apply frame_upd|unfold view; rewrite upd_same; exact Hok]].
    pose proof (inv_spin0 g a tr l Hi E) as Hz.
    eapply (step_inv g a tr t l); [exact Hi| | | | | | | | | | | |]; rewrite ?Hv in *.
    + intros l' Hl. fin.
    + intros l' Hl. fin.
    + intros l0. rewrite !cnt_ev_tag_acc. fin.
    + intros l0. rewrite !cnt_ev_tag_acc. fin.
    + intros _. specialize (Hz t). rewrite Hv in Hz. pose proof (K_nonneg s l). fin.
    + right. intros t' _. apply Hz.
    + intros _. right. intros t' _. apply Hz.
    + intros Ho. destruct Hi as (_ & _ & I3 & _). specialize (I3 t l). rewrite Hv in I3. fin.
    + intros t' Ht. fin.
    + intros _. left. pose proof (K_nonneg s l). fin.
    + intros l0. destruct Hi as (_ & _ & _ & _ & _ & J6 & _). specialize (J6 t l0). rewrite Hv in J6. fin.
    + intros l0. rewrite cnt_acq_tag1, acq_is_cas, cnt_ev_tag_acc. unfold aq. fin.
  - exists a. split; [apply Inv_quiet; auto; apply quiet_acc; intros; reflexivity|]. split; [apply frame_refl|].
    unfold view. rewrite Hv. exact Hfail.
Qed.

Lemma safe_acq_loops fuel : forall t l s,
  safe t (acq_outer fuel l) (Idle, s) (Qcas l s) /\ safe t (acq_inner fuel l) (Idle, s) (Qcas l s).
Proof.
  induction fuel as [|f IH]; intros t l s; split; cbn [acq_outer acq_inner]; try (cbn; reflexivity).
  - apply safe_cas; cbn [Nat.eqb]; [cbn; reflexivity|apply IH].
  - apply safe_act_read.
    + intros g. cbn. split; auto. do 3 eexists. split; [reflexivity|intros; reflexivity].
    + intros g a tr _ _. cbn [a_ld_spin fst snd]. destruct (Nat.eqb (spin g l) 0); apply IH.
Qed.

Lemma safe_acq_n n : forall t l s, safe t (acq_n n l) (Idle, s) (Qcas l s).
Proof.
  induction n as [|n IH]; intros t l s; cbn [acq_n]; [cbn; reflexivity|].
  apply safe_cas; cbn [Nat.eqb]; [cbn; reflexivity|apply IH].
Qed.

(** *** take *)
Lemma safe_take t l s : safe t (take (S t) l) (Acq l, s) (Qacq l s).
Proof.
  unfold take. cbn [Conc.safe]. intros g a tr Hi Hv. unfold view in Hv. cbn [a_st_owner fst snd].
  exists (upd a t (Got l, s)). split; [|split; [apply frame_upd|unfold view; rewrite upd_same; reflexivity]].
  pose proof Hi as (I1 & I2 & I3 & I4 & I5 & I6 & I7).
  eapply (step_inv g a tr t l); [exact Hi| | | | | | | | | | | |]; rewrite ?Hv in *.
  - intros l' Hl. fin.
  - intros l' Hl. fin.
  - intros l0. rewrite !cnt_ev_tag_acc. fin.
  - intros l0. rewrite !cnt_ev_tag_acc. fin.
  - intros H. specialize (I1 t l). rewrite Hv in I1. fin.
  - left. fin.
  - intros H. left. fin.
  - intros _. pose proof (K_nonneg s l). fin.
  - intros t' Ht. fin.
  - intros H. specialize (I5 l). cbn [spin set_owner] in H. destruct (I5 H) as [t0 H0].
    left. destruct (Nat.eq_dec t0 t) as [->|N]; [rewrite Hv in H0; fin|].
    exfalso. assert (Hme : hold (a t) l > 0) by (rewrite Hv; pose proof (K_nonneg s l); fin).
    apply N. eapply I2; eauto.
  - intros l0. destruct Hi as (_ & _ & _ & _ & _ & J6 & _). specialize (J6 t l0). rewrite Hv in J6. fin.
  - intros l0. rewrite cnt_acq_tag1, cnt_ev_tag_acc. unfold aq. cbn [acq_is obj_owner]. fin.
Qed.

Lemma safe_lock fuel t l s : safe t (lock fuel (S t) l) (Idle, s) (Qacq l s).
Proof.
  unfold lock. apply Conc.safe_bind. eapply Conc.safe_weaken; [|apply safe_try_taken].
  intros [|] v Hq; cbn in Hq; subst v; [cbn; reflexivity|].
  apply Conc.safe_bind. eapply Conc.safe_weaken; [|apply (safe_acq_loops fuel t l s)].
  intros [|] v Hq; cbn in Hq; subst v; [apply safe_take|cbn; reflexivity].
Qed.

Lemma safe_try_lock_n n t l s : safe t (try_lock_n n (S t) l) (Idle, s) (Qacq l s).
Proof.
  unfold try_lock_n. apply Conc.safe_bind. eapply Conc.safe_weaken; [|apply safe_try_taken].
  intros [|] v Hq; cbn in Hq; subst v; [cbn; reflexivity|].
  apply Conc.safe_bind. eapply Conc.safe_weaken; [|apply safe_acq_n].
  intros [|] v Hq; cbn in Hq; subst v; [apply safe_take|cbn; reflexivity].
Qed.

Lemma safe_acquire_by fuel t k l s : safe t (acquire_by fuel (S t) k l) (Idle, s) (Qacq l s).
Proof. destruct k; cbn [acquire_by]; [apply safe_lock|apply safe_try_lock_n]. Qed.

(** *** client events "enter" / "leave" / "rel" *)
Ltac streqs :=
  repeat match goal with
         | |- context [String.eqb ?x ?y] =>
             let r := eval vm_compute in (String.eqb x y) in change (String.eqb x y) with r
         end.

Ltac emit_step g a tr t l v' Hi Hv :=
  exists (upd a t v'); split; [|split; [apply frame_upd|unfold view; rewrite upd_same]];
  [pose proof Hi as (I1 & I2 & I3 & I4 & I5 & I6 & I7);
   eapply (step_inv g a tr t l); [exact Hi| | | | | | | | | | | |]; rewrite ?Hv in *; unfold zl;
   [ intros l' Hl; split; reflexivity
   | intros l' Hl; fin
   | intros l0; rewrite !cnt_ev_tag_cli1; streqs; fin
   | intros l0; rewrite !cnt_ev_tag_cli1; streqs; fin
   | intros H; specialize (I1 t l); rewrite Hv in I1; fin
   | left; reflexivity
   | intros H; left; fin
   | intros H; specialize (I3 t l H); rewrite Hv in I3; fin
   | intros t' Ht H; exact H
   | intros H; destruct (I5 l H) as [t0 H0]; destruct (Nat.eq_dec t0 t) as [->|N];
     [left; rewrite Hv in H0; fin
     |right; split; [exact H|]; destruct (Z_gt_le_dec (hold (a t) l) 0) as [X|X];
      [exfalso; apply N; eapply I2; eauto|rewrite Hv in X; exact X]]
   | intros l0; specialize (I6 t l0); rewrite Hv in I6; pose proof (K_nonneg (snd v') l0); fin
   | intros l0; rewrite cnt_acq_tag1, !cnt_ev_tag_cli1; streqs; unfold aq; cbn [acq_is]; fin ]
  |].

Lemma safe_emit_enter {R} t l s (k : prog R) Q :
  safe t k (Idle, l :: s) Q -> safe t (Emit [EvCli "enter" (zl l)] k) (Got l, s) Q.
Proof.
  intros Hk. cbn [Conc.safe]. intros g a tr Hi Hv. unfold view in Hv.
  emit_step g a tr t l (Idle, l :: s) Hi Hv. exact Hk.
Qed.

Lemma safe_emit_leave {R} t l s (k : prog R) Q :
  safe t k (Left l, l :: s) Q -> safe t (Emit [EvCli "leave" (zl l)] k) (Idle, l :: s) Q.
Proof.
  intros Hk. cbn [Conc.safe]. intros g a tr Hi Hv. unfold view in Hv.
  emit_step g a tr t l (Left l, l :: s) Hi Hv. exact Hk.
Qed.

Lemma safe_emit_rel {R} t l s (k : prog R) Q :
  safe t k (Idle, s) Q -> safe t (Emit [EvCli "rel" (zl l)] k) (Rel l, l :: s) Q.
Proof.
  intros Hk. cbn [Conc.safe]. intros g a tr Hi Hv. unfold view in Hv.
  emit_step g a tr t l (Idle, s) Hi Hv. exact Hk.
Qed.

(** *** unlock *)
Ltac acc_step g a tr t l v' Hi Hv :=
  exists (upd a t v'); split; [|split; [apply frame_upd|unfold view; rewrite upd_same]];
  [pose proof Hi as (I1 & I2 & I3 & I4 & I5 & I6 & I7);
   eapply (step_inv g a tr t l); [exact Hi| | | | | | | | | | | |]; rewrite ?Hv in *;
   [ intros l' Hl; fin
   | intros l' Hl; fin
   | intros l0; rewrite !cnt_ev_tag_acc; fin
   | intros l0; rewrite !cnt_ev_tag_acc; fin
   | | | | | |
   | intros l0; specialize (I6 t l0); rewrite Hv in I6; fin
   | intros l0; rewrite cnt_acq_tag1, cnt_ev_tag_acc; unfold aq; cbn [acq_is obj_owner obj_spin]; fin ]
  |].

Definition Qrel (l : nat) (s : list nat) : unit -> tv -> Prop := fun _ v => v = (Rel l, l :: s).

Lemma safe_st_dec t l s n : Z.of_nat n = 1 + K s l -> (1 < n)%nat ->
  safe t (Act (a_st_spin l (n - 1)) (fun _ => Ret tt)) (Left l, l :: s) (Qrel l s).
Proof.
  intros Hn H1. cbn [Conc.safe]. intros g a tr Hi Hv. unfold view in Hv. cbn [a_st_spin fst snd].
  assert (Hh : hold (a t) l > 0) by (rewrite Hv; fin).
  pose proof (inv_others g a tr t l Hi Hh) as Hoth.
  acc_step g a tr t l (Rel l, l :: s) Hi Hv.
  - intros _. fin.
  - right. exact Hoth.
  - intros _. left. fin.
  - intros _. fin.
  - intros t' Ht. fin.
  - intros _. left. fin.
  - reflexivity.
Qed.

Lemma safe_st_final t l s : K s l = 0 ->
  safe t (Act (a_st_spin l 0) (fun _ => Ret tt)) (Freeing l, l :: s) (Qrel l s).
Proof.
  intros HK. cbn [Conc.safe]. intros g a tr Hi Hv. unfold view in Hv. cbn [a_st_spin fst snd].
  assert (Hh : hold (a t) l > 0) by (rewrite Hv; fin).
  pose proof (inv_others g a tr t l Hi Hh) as Hoth.
  acc_step g a tr t l (Rel l, l :: s) Hi Hv.
  - intros H. fin.
  - right. exact Hoth.
  - intros H. fin.
  - intros H. specialize (I3 t l). rewrite Hv in I3. fin.
  - intros t' Ht. fin.
  - intros H. fin.
  - reflexivity.
Qed.

Lemma safe_free t l s : K s l = 0 ->
  safe t (Act (a_st_owner l 0) (fun _ => Act (a_st_spin l 0) (fun _ => Ret tt))) (Left l, l :: s) (Qrel l s).
Proof.
  intros HK. cbn [Conc.safe]. intros g a tr Hi Hv. unfold view in Hv. cbn [a_st_owner fst snd].
  acc_step g a tr t l (Freeing l, l :: s) Hi Hv.
  - intros H. specialize (I1 t l). rewrite Hv in I1. fin.
  - left. fin.
  - intros H. left. fin.
  - intros H. fin.
  - intros t' Ht. fin.
  - intros H. left. fin.
  - apply (safe_st_final t l s HK).
Qed.

Lemma safe_unlock t l s : safe t (unlock l) (Left l, l :: s) (Qrel l s).
Proof.
  unfold unlock. apply safe_act_read.
  - intros g. cbn. split; auto. do 3 eexists. split; [reflexivity|intros; reflexivity].
  - intros g a tr (I1 & _) Hv. cbn [a_ld_spin fst snd].
    specialize (I1 t l). rewrite Hv in I1.
    assert (Hn : Z.of_nat (spin g l) = 1 + K s l) by fin.
    destruct (Nat.ltb_spec 1 (spin g l)) as [H|H].
    + apply safe_st_dec; auto.
    + apply safe_free. pose proof (K_nonneg s l). lia.
Qed.

(** *** the nest of critical sections *)
Definition Qidle (s : list nat) : unit -> tv -> Prop := fun _ v => v = (Idle, s).

Lemma safe_nest fuel t o : forall s, safe t (nest fuel (S t) o) (Idle, s) (Qidle s).
Proof.
  induction o as [|[k l] r IH]; intros s; cbn [nest]; [reflexivity|].
  apply safe_emit_quiet; try reflexivity.
  apply Conc.safe_bind. eapply Conc.safe_weaken; [|apply safe_acquire_by].
  intros [|] v Hq; cbn in Hq; subst v.
  - apply safe_emit_enter. apply safe_act_read; [intros g; cbn; split; auto; do 3 eexists; split; [reflexivity|intros; reflexivity]|].
    intros g a tr _ _. cbn [a_touch fst snd].
    apply Conc.safe_bind. eapply Conc.safe_weaken; [|apply IH].
    intros [] v Hq. unfold Qidle in Hq. subst v.
    apply safe_emit_leave. apply Conc.safe_bind. eapply Conc.safe_weaken; [|apply safe_unlock].
    intros [] v Hq. unfold Qrel in Hq. subst v.
    apply safe_emit_rel. reflexivity.
  - destruct k; apply safe_emit_quiet; reflexivity.
Qed.

Lemma safe_run_ops fuel t os : forall s, safe t (run_ops fuel (S t) os) (Idle, s) (Qidle s).
Proof.
  induction os as [|o r IH]; intros s; cbn [run_ops]; [reflexivity|].
  apply Conc.safe_bind. unfold run_op. apply Conc.safe_bind.
  eapply Conc.safe_weaken; [|apply safe_nest].
  intros [] v Hq. unfold Qidle in Hq. subst v.
  apply safe_emit_quiet; try reflexivity. cbn [Conc.safe]. apply IH.
Qed.

Lemma safe_thread fuel t os : safe t (thread_prog fuel t os) (Idle, []) (@Conc.QTrue tv).
Proof.
  unfold thread_prog. apply safe_act_read; [intros g; cbn; split; auto; do 3 eexists; split; [reflexivity|intros; reflexivity]|].
  intros g a tr _ _. eapply Conc.safe_weaken; [|apply safe_run_ops]. intros; exact I.
Qed.

Lemma nth_mk_threads fuel ths : forall t0 i p,
  nth_error (mk_threads fuel t0 ths) i = Some p -> exists os, p = thread_prog fuel (t0 + i) os.
Proof.
  induction ths as [|os r IH]; intros t0 [|i] p H; cbn in H; try discriminate.
  - inversion H. exists os. now rewrite Nat.add_0_r.
  - destruct (IH _ _ _ H) as [os' ->]. exists os'. f_equal. lia.
Qed.

Lemma init_ok fuel ths : Conc.cfg_ok view Inv (init_cfg fuel ths).
Proof.
  exists (fun _ => (Idle, [])). split.
  - cbn. repeat split; try (intros; cbn in *; lia).
  - intros t p Hp. cbn [init_cfg Conc.threads] in Hp.
    destruct (nth_mk_threads _ _ _ _ _ Hp) as [os ->]. cbn [Nat.add]. apply safe_thread.
Qed.

(** ** theorems *)

(** two different threads are never inside the critical section of the same lock, at any nesting depth,
    and the depth never goes negative *)
Theorem reentrant_mutex fuel ths c :
  Conc.reach (init_cfg fuel ths) c ->
  forall l t t', (0 <= occ t l (Conc.trace c)) /\
                 (occ t l (Conc.trace c) > 0 -> occ t' l (Conc.trace c) > 0 -> t = t').
Proof.
  intros Hr l t t'. destruct (Conc.reach_Inv (init_ok fuel ths) Hr) as (a & I1 & I2 & I3 & I4 & I5 & I6 & I7).
  destruct (I4 t l) as [_ E]. destruct (I4 t' l) as [_ E']. rewrite E, E'. split; [apply I6|].
  intros H H'. apply (I2 t t' l).
  - clear E E' H'. unfold ins, hold in *. destruct (a t) as [[] s]; cbn [fst snd] in *; unfold d in *; eqbs; lia.
  - clear E E' H. unfold ins, hold in *. destruct (a t') as [[] s]; cbn [fst snd] in *; unfold d in *; eqbs; lia.
Qed.

(** released only by the owner's last unlock: while a thread is inside at depth n >= 1 the lock word is n
    or n+1 (never 0: no other thread can acquire), and every other thread is outside *)
Theorem reentrant_owner_release fuel ths c :
  Conc.reach (init_cfg fuel ths) c ->
  forall l t, occ t l (Conc.trace c) > 0 ->
    occ t l (Conc.trace c) <= Z.of_nat (spin (Conc.shared c) l) <= occ t l (Conc.trace c) + 1 /\
    occ t l (Conc.trace c) <= nestc t l (Conc.trace c) /\
    forall t', t' <> t -> occ t' l (Conc.trace c) = 0.
Proof.
  intros Hr l t H. destruct (Conc.reach_Inv (init_ok fuel ths) Hr) as (a & I1 & I2 & I3 & I4 & I5 & I6 & I7).
  destruct (I4 t l) as [En E]. rewrite E in *. rewrite En.
  assert (Hh : hold (a t) l > 0 /\ ins (a t) l <= hold (a t) l <= ins (a t) l + 1 /\ ins (a t) l <= K (snd (a t)) l).
  { clear E En. unfold ins, hold in *. destruct (a t) as [[] s]; cbn [fst snd] in *; unfold d in *; eqbs; lia. }
  destruct Hh as (Hh & Hb & Hk). rewrite (I1 _ _ Hh). split; [exact Hb|]. split; [exact Hk|].
  intros t' Hne. destruct (I4 t' l) as [_ E']. rewrite E'.
  assert (hold (a t') l <= 0).
  { destruct (Z_gt_le_dec (hold (a t') l) 0) as [X|X]; [|exact X]. exfalso. apply Hne. eapply I2; eauto. }
  specialize (I6 t' l). clear E'. unfold ins, hold in *.
  destruct (a t') as [[] s]; cbn [fst snd] in *; unfold d in *; eqbs; lia.
Qed.

(** the lock word is 0 only when no thread is inside *)
Corollary reentrant_free_means_unused fuel ths c :
  Conc.reach (init_cfg fuel ths) c ->
  forall l, spin (Conc.shared c) l = 0%nat -> forall t, occ t l (Conc.trace c) = 0.
Proof.
  intros Hr l Hs t. destruct (reentrant_mutex fuel ths c Hr l t t) as [H0 _].
  destruct (Z_gt_le_dec (occ t l (Conc.trace c)) 0) as [H|H]; [|lia].
  destruct (reentrant_owner_release fuel ths c Hr l t H) as [Hb _]. rewrite Hs in Hb. cbn in Hb. lia.
Qed.

(** and the lock word is non-zero only when some thread owns the lock (more lock() than unlock() calls have
    returned: [nestc] > 0) or is inside lock()/try_lock() having just taken the word ([acqp] > 0): together with
    [reentrant_owner_release] the word goes back to 0 exactly at the owner's last unlock *)
Theorem reentrant_word_nonzero_only_if_used fuel ths c :
  Conc.reach (init_cfg fuel ths) c ->
  forall l, (spin (Conc.shared c) l > 0)%nat ->
    exists t, nestc t l (Conc.trace c) > 0 \/ acqp t l (Conc.trace c) > 0.
Proof.
  intros Hr l Hs. destruct (Conc.reach_Inv (init_ok fuel ths) Hr) as (a & I1 & I2 & I3 & I4 & I5 & I6 & I7).
  destruct (I5 l Hs) as [t Ht]. exists t. destruct (I4 t l) as [En _]. rewrite En, I7.
  unfold hold, aq in *. destruct (a t) as [[] s]; cbn [fst snd] in *; unfold d in *; eqbs; lia.
Qed.
