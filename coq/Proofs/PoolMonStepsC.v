(** * pool_monitor: the two pool steps (allocate + install, deallocate) on the whole invariant. *)
From Coq Require Import ZArith List String Bool Lia PeanoNat.
From LV Require Import Base.Conc Base.Events Model.PoolMon.
From LV Require Import Proofs.PoolMonBase Proofs.PoolMonSteps Proofs.PoolMonStepsA Proofs.PoolMonStepsR Proofs.PoolMonStepsB.
Import ListNotations.
Local Open Scope string_scope.

Lemma ad_pool x0 name x :
  ad x0 (EvCli name (zl x)) =
  if Nat.eqb x x0 then (if String.eqb name "pool_alloc" then 1 else if String.eqb name "pool_free" then -1 else 0)%Z else 0%Z.
Proof.
  cbn. destruct (Z.eqb_spec (Z.of_nat x) (Z.of_nat x0)); destruct (Nat.eqb_spec x x0); try lia; reflexivity.
Qed.

Lemma acnt_gate_cli x0 t name x :
  acnt x0 (Conc.tag t [EvAcc KFaa obj_gate true; EvCli name (zl x)]) = ad x0 (EvCli name (zl x)).
Proof. cbn [Conc.tag map acnt]. cbn [ad]. lia. Qed.

Lemma step_alloc g vs rf tr t n c s x pool' fresh' :
  Inv g (vs, rf) tr -> vs t = (LBitA n c, s) ->
  ((pool g = x :: pool' /\ fresh' = fresh g) \/ (pool g = [] /\ pool' = [] /\ x = fresh g /\ fresh' = S (fresh g))) ->
  Inv (set_plock (set_pool g pool' fresh') n (Some x)) (upd vs t (LBitS n c x, s), rf)
      (tr ++ Conc.tag t [EvAcc KFaa obj_gate true; EvCli "pool_alloc" (zl x)]).
Proof.
  intros (HR & HP & HM & HL & HO & HD) Hv Hcase. cbn [fst snd] in *.
  destruct HL as ((L1a & L1b) & L2 & L3 & L4).
  assert (Fa : forall y, In y pool' -> In y (pool g) /\ y <> x).
  { intros y Hy. destruct Hcase as [[E _]|(_ & E & _)]; [|subst pool'; destruct Hy].
    rewrite E in *. inversion L1a; subst. split; [now right|]. intros ->. contradiction. }
  assert (Fb : forall y, In y (pool g) -> y = x \/ In y pool').
  { intros y Hy. destruct Hcase as [[E _]|(E & _)]; rewrite E in Hy; [destruct Hy; auto|destruct Hy]. }
  assert (Fc : fresh g <= fresh' /\ x < fresh').
  { destruct Hcase as [[E F]|(_ & _ & E & F)]; subst; [|lia]. split; [lia|]. apply L1b. rewrite E. now left. }
  assert (Fd : In x (pool g) \/ fresh g <= x).
  { destruct Hcase as [[E _]|(_ & _ & E & _)]; [left; rewrite E; now left|right; lia]. }
  assert (Fe : forall y, y < fresh' -> y <> x -> y < fresh g).
  { intros y H1 H2. destruct Hcase as [[_ F]|(_ & _ & E & F)]; subst; lia. }
  assert (Fn : NoDup pool').
  { destruct Hcase as [[E _]|(_ & E & _)]; [rewrite E in L1a; now inversion L1a|subst; constructor]. }
  assert (Fx : forall n0, plock g n0 <> Some x).
  { intros n0 H. destruct (L2 n0 x H) as [A B]. destruct Fd; [contradiction|lia]. }
  assert (Hpn : plock g n = None) by (destruct HP as (_ & P2 & _); apply (P2 t n c); rewrite Hv; reflexivity).
  inv6.
  - apply InvR_frame with (g := g); auto; rewrite ?Hv; try (intros; reflexivity).
    destruct HR as (_ & _ & _ & R4). specialize (R4 t). rewrite Hv in R4. exact R4.
  - destruct HP as (P1 & P2 & P3). repeat split.
    + intros t0 n0 x0 H. cbn [plock set_plock set_pool]. unfold updn.
      assert (Hold : forall tt, uses (vs tt) n0 x0 -> (if Nat.eqb n0 n then Some x else plock g n0) = Some x0).
      { intros tt Hu. pose proof (P1 tt n0 x0 Hu) as Hp. destruct (Nat.eqb_spec n0 n); [congruence|exact Hp]. }
      destruct (Nat.eq_dec t0 t) as [E|N]; [subst t0; rewrite upd_same in H|rewrite upd_other in H by exact N; eauto].
      destruct H as [H|H]; [apply (Hold t); rewrite Hv; now left|]. cbn in H.
      apply andb_true_iff in H. destruct H as [A B]. apply Nat.eqb_eq in A, B. subst. now rewrite Nat.eqb_refl.
    + intros t0 n0 c0 H. cbn [plock set_plock set_pool]. unfold updn.
      destruct (Nat.eq_dec t0 t) as [E|N]; [subst t0; rewrite upd_same in H; discriminate|rewrite upd_other in H by exact N].
      destruct (Nat.eqb_spec n0 n) as [E|Nn]; [|eapply P2; eauto]. subst n0. exfalso. apply N.
      destruct HR as (_ & _ & R3 & _). apply (R3 t0 t n); [rewrite H|rewrite Hv]; cbn; apply Nat.eqb_refl.
    + intros n1 n2 x0. cbn [plock set_plock set_pool]. unfold updn.
      destruct (Nat.eqb_spec n1 n); destruct (Nat.eqb_spec n2 n); try congruence.
      all: try (intros H1 H2; exfalso; apply (Fx n2); congruence).
      all: try (intros H1 H2; exfalso; apply (Fx n1); congruence).
      apply P3.
  - apply InvM_frame with (g := g); auto; rewrite ?Hv; intros; fin.
  - assert (El : forall t0 x0, limbo (fst (upd vs t (LBitS n c x, s) t0)) x0 = true -> t0 <> t /\ limbo (fst (vs t0)) x0 = true).
    { intros t0 x0 H. destruct (Nat.eq_dec t0 t) as [E|N]; [subst t0; rewrite upd_same in H; discriminate|now rewrite upd_other in H]. }
    split; [|split; [|split]]; cbn [pool fresh plock set_plock set_pool].
    + split; [exact Fn|]. intros y Hy. destruct (Fa y Hy) as [A _]. specialize (L1b y A). lia.
    + intros n0 x0. unfold updn. destruct (Nat.eqb_spec n0 n) as [E|Nn].
      * intros H. inversion H; subst x0. split; [|lia]. intros Hi. destruct (Fa x Hi) as [_ X]. congruence.
      * intros H. destruct (L2 n0 x0 H) as [A B]. split; [|lia]. intros Hi. apply A. apply (Fa x0 Hi).
    + intros t0 x0 H. destruct (El t0 x0 H) as [N Hl]. destruct (L3 t0 x0 Hl) as (A & B & C).
      split; [|split]; [intros Hi; apply A; apply (Fa x0 Hi)|lia|].
      intros n0. unfold updn. destruct (Nat.eqb_spec n0 n); [|apply C]. intros Hs. inversion Hs; subst x0.
      destruct Fd; [contradiction|lia].
    + intros t1 t2 x0 H1 H2. destruct (El t1 x0 H1), (El t2 x0 H2). eapply L4; eauto.
  - apply InvO_frame; [exact HO|intros; apply occ_acc_cli; reflexivity|rewrite Hv; reflexivity].
  - destruct HD as (D1 & D2). split.
    + apply disc_app. split; [exact D1|]. cbn [Conc.tag map disc_from snd]. split; [|split; [|exact I]].
      * apply ev_ok_quiet; reflexivity.
      * intros x0. rewrite ad_pool. cbn [is_lacc String.eqb Ascii.eqb Bool.eqb]. repeat split; try discriminate.
        -- intros H. destruct (Nat.eqb_spec x x0); [subst x0|discriminate].
           rewrite acnt_app. cbn [acnt ad]. rewrite Z.add_0_r. apply D2. exact Fd.
        -- destruct (Nat.eqb x x0); discriminate.
    + intros x0. rewrite acnt_app, acnt_gate_cli, ad_pool. cbn [String.eqb Ascii.eqb Bool.eqb pool fresh set_plock set_pool].
      destruct (D2 x0) as [Da Db]. destruct (Nat.eqb_spec x x0) as [E|Nx]; [subst x0|].
      * split.
        -- intros [Hi|Hf]; [destruct (Fa x Hi); congruence|lia].
        -- intros _ _. rewrite Da by exact Fd. reflexivity.
      * rewrite Z.add_0_r. split.
        -- intros [Hi|Hf]; apply Da; [left; apply (Fa x0 Hi)|right; lia].
        -- intros Hn Hf. apply Db; [|apply Fe; auto]. intros Hi. destruct (Fb x0 Hi); [congruence|contradiction].
Qed.

Lemma step_dealloc g vs rf tr t x s :
  Inv g (vs, rf) tr -> vs t = (UDe x, s) ->
  Inv (set_pool g (x :: pool g) (fresh g)) (upd vs t (Idle, s), rf)
      (tr ++ Conc.tag t [EvAcc KFaa obj_gate true; EvCli "pool_free" (zl x)]).
Proof.
  intros (HR & HP & HM & HL & HO & HD) Hv. cbn [fst snd] in *.
  destruct HL as ((L1a & L1b) & L2 & L3 & L4).
  assert (Hme : limbo (fst (vs t)) x = true) by (rewrite Hv; cbn; apply Nat.eqb_refl).
  destruct (L3 t x Hme) as (Hx1 & Hx2 & Hx3).
  inv6.
  - apply InvR_frame with (g := g); auto; rewrite ?Hv; try (intros; reflexivity); try exact I.
  - apply InvP_frame with (g := g); auto; rewrite ?Hv; intros; fin.
  - apply InvM_frame with (g := g); auto; rewrite ?Hv; intros; fin.
  - assert (El : forall t0 x0, limbo (fst (upd vs t (Idle, s) t0)) x0 = true -> t0 <> t /\ limbo (fst (vs t0)) x0 = true).
    { intros t0 x0 H. destruct (Nat.eq_dec t0 t) as [E|N]; [subst t0; rewrite upd_same in H; discriminate|now rewrite upd_other in H]. }
    split; [|split; [|split]]; cbn [pool fresh plock set_pool].
    + split; [constructor; auto|]. intros y [<-|Hy]; auto.
    + intros n0 x0 H. destruct (L2 n0 x0 H) as [A B]. split; auto. intros [<-|Hi]; [eapply Hx3; eauto|contradiction].
    + intros t0 x0 H. destruct (El t0 x0 H) as [N Hl]. destruct (L3 t0 x0 Hl) as (A & B & C). split; [|split]; auto.
      intros [<-|Hi]; [|contradiction]. apply N. eapply L4; eauto.
    + intros t1 t2 x0 H1 H2. destruct (El t1 x0 H1), (El t2 x0 H2). eapply L4; eauto.
  - apply InvO_frame; [exact HO|intros; apply occ_acc_cli; reflexivity|rewrite Hv; reflexivity].
  - destruct HD as (D1 & D2). split.
    + apply disc_app. split; [exact D1|]. cbn [Conc.tag map disc_from snd]. split; [|split; [|exact I]].
      * apply ev_ok_quiet; reflexivity.
      * intros x0. rewrite ad_pool. cbn [is_lacc String.eqb Ascii.eqb Bool.eqb]. repeat split; try discriminate.
        -- destruct (Nat.eqb x x0); discriminate.
        -- intros H. destruct (Nat.eqb_spec x x0); [subst x0|discriminate].
           rewrite acnt_app. cbn [acnt ad]. rewrite Z.add_0_r. apply D2; auto.
    + intros x0. rewrite acnt_app, acnt_gate_cli, ad_pool. cbn [String.eqb Ascii.eqb Bool.eqb pool fresh set_pool].
      destruct (D2 x0) as [Da Db]. destruct (Nat.eqb_spec x x0) as [E|Nx]; [subst x0|].
      * split.
        -- intros _. rewrite Db by auto. reflexivity.
        -- intros Hn. exfalso. apply Hn. now left.
      * rewrite Z.add_0_r. split.
        -- intros [[E|Hi]|Hf]; [congruence|apply Da; now left|apply Da; now right].
        -- intros Hn Hf. apply Db; auto. intros Hi. apply Hn. now right.
Qed.
