(** * The counter facts of MsPqBrc for ALL counts (not the bounded sweep), through the equality with the generated
      code ([MsPqBrcGen.brc_inc_is_generated]) and the closed form of C26 ([C26_Counter.st], [inc_st], [dec_st],
      [C26_Trace.prefix_closed], [slot_of_inj], [slot_parent]).

      [st_closed]    the model's state after n inc() is the closed form of C26, for every n < 2^62
      [slot_closed]  the model's n-th slot is C26's [slot_of n]
      [slot_range_all] / [slot_inj_all] / [dec_st_all] / [slot_parent_all]
                     the Prop-level facts behind [slots_ok] / [shape_ok], for every capacity 2^k - 1 < 2^62.
    Not yet done: the "left sibling first" fact of [shape_ok] from the closed form, and repackaging the heap proofs
    over these Prop-level facts instead of the boolean [slots_ok cap = true] (they are proved for capacities up to
    255 by computation, which covers the property's quantifier 1..16).
    Like MsPqBrcGen this file depends on the regenerated coq/Gen/Gen_brc.v and is built non-gating. *)
From Coq Require Import ZArith List Bool Lia.
From LV Require Import Base.CInt Gen.Gen_brc Proofs.C25_Bits Proofs.C26_Counter Proofs.C26_Trace Model.MsPq
  Proofs.MsPqBrc Proofs.MsPqBrcGen.
Import ListNotations.
Local Open Scope Z_scope.

Definition lim : Z := 2 ^ 62.

Lemma to_gen_inj s s' : to_gen s = to_gen s' -> s = s'.
Proof. destruct s, s'. unfold to_gen. cbn. intros E. inversion E. reflexivity. Qed.

Lemma st_representable n : 0 <= n < lim -> representable (mkB (brc_m_nCounter (C26_Counter.st n)) (brc_m_nReversed (C26_Counter.st n)) (brc_m_nHighBit (C26_Counter.st n))).
Proof.
  unfold lim. intros Hn. unfold representable. cbn [bc br bh]. rewrite st_counter.
  assert (2 ^ 62 < 2 ^ 64) by (apply Z.pow_lt_mono_r; lia).
  destruct (Z.eq_dec n 0) as [->|N0].
  - rewrite st_0. cbn. lia.
  - rewrite st_reversed, st_high_bit by lia. pose proof (slot_of_level n ltac:(lia)) as Hl.
    destruct (log2_bounds n ltac:(lia)) as [Hh Hb].
    assert (Z.log2 n < 62) by (apply Z.log2_lt_pow2; lia).
    assert (2 * 2 ^ Z.log2 n <= 2 ^ 63).
    { replace (2 * 2 ^ Z.log2 n) with (2 ^ (Z.log2 n + 1)) by (apply pow2_succ; lia).
      apply Z.pow_le_mono_r; lia. }
    assert (2 ^ 63 < 2 ^ 64) by (apply Z.pow_lt_mono_r; lia). lia.
Qed.

(** the model's iterated state is the closed form *)
Theorem st_closed (n : nat) : Z.of_nat n < lim -> to_gen (MsPqBrc.st n) = C26_Counter.st (Z.of_nat n).
Proof.
  induction n as [|n IH]; intros Hn; [reflexivity|].
  assert (Hn' : Z.of_nat n < lim) by lia. specialize (IH Hn').
  cbn [MsPqBrc.st].
  assert (Hrep : representable (MsPqBrc.st n)).
  { pose proof (st_representable (Z.of_nat n) ltac:(lia)) as R. rewrite <- IH in R. unfold to_gen in R. cbn in R.
    destruct (MsPqBrc.st n). exact R. }
  pose proof (brc_inc_is_generated 65 (MsPqBrc.st n) ltac:(lia) Hrep) as E1.
  assert (Hmax : 0 <= Z.of_nat n < brc_max).
  { unfold brc_max, lim in *. assert (2 ^ 62 < 2 ^ 64 - 1) by (cbn; lia). lia. }
  pose proof (inc_st 65 (Z.of_nat n) ltac:(lia) Hmax) as E2. rewrite IH, E2 in E1. inversion E1 as [[Es Et]].
  f_equal. lia.
Qed.

Theorem slot_closed (n : nat) : Z.of_nat (S n) < lim -> Z.of_nat (slot (S n)) = slot_of (Z.of_nat (S n)).
Proof.
  intros Hn. assert (Hn' : Z.of_nat n < lim) by lia. pose proof (st_closed n Hn') as IH.
  assert (Hrep : representable (MsPqBrc.st n)).
  { pose proof (st_representable (Z.of_nat n) ltac:(lia)) as R. rewrite <- IH in R. unfold to_gen in R. cbn in R.
    destruct (MsPqBrc.st n). exact R. }
  pose proof (brc_inc_is_generated 65 (MsPqBrc.st n) ltac:(lia) Hrep) as E1.
  assert (Hmax : 0 <= Z.of_nat n < brc_max).
  { unfold brc_max, lim in *. assert (2 ^ 62 < 2 ^ 64 - 1) by (cbn; lia). lia. }
  pose proof (inc_st 65 (Z.of_nat n) ltac:(lia) Hmax) as E2. rewrite IH, E2 in E1. inversion E1 as [[Es Et]].
  rewrite slot_S. pose proof (slot_of_pos (Z.of_nat n + 1) ltac:(lia)).
  replace (fst (MsPq.brc_inc (MsPqBrc.st n))) with (slot_of (Z.of_nat n + 1)) by (exact Es). rewrite Z2Nat.id by lia. f_equal. lia.
Qed.

(** *** the facts behind [slots_ok] / [shape_ok], for every capacity 2^k - 1 below 2^62 *)
Theorem slot_range_all (k : nat) (n : nat) :
  (k <= 61)%nat -> (1 <= n <= 2 ^ k - 1)%nat -> (1 <= slot n <= 2 ^ k - 1)%nat.
Proof.
  intros Hk Hn. destruct n as [|n]; [lia|].
  assert (Hp : Z.of_nat (2 ^ k) = 2 ^ Z.of_nat k) by apply of_nat_pow2.
  assert (Hlt : 2 ^ Z.of_nat k <= 2 ^ 61) by (apply Z.pow_le_mono_r; lia).
  assert (H61 : 2 ^ 61 < lim) by (unfold lim; apply Z.pow_lt_mono_r; lia).
  pose proof (slot_closed n ltac:(lia)) as E.
  pose proof (prefix_closed (Z.of_nat k) (Z.of_nat (S n)) ltac:(lia) ltac:(lia)) as R. rewrite <- E in R. lia.
Qed.

Theorem slot_inj_all (n m : nat) :
  (1 <= n)%nat -> (1 <= m)%nat -> Z.of_nat n < lim -> Z.of_nat m < lim -> slot n = slot m -> n = m.
Proof.
  intros Hn Hm Ln Lm E. destruct n as [|n]; [lia|]. destruct m as [|m]; [lia|].
  pose proof (slot_closed n Ln) as E1. pose proof (slot_closed m Lm) as E2. rewrite E in E1. rewrite E1 in E2.
  apply slot_of_inj in E2; lia.
Qed.

Theorem dec_st_all (n : nat) : Z.of_nat (S n) < lim -> snd (MsPq.brc_dec (MsPqBrc.st (S n))) = MsPqBrc.st n.
Proof.
  intros Hn. pose proof (st_closed (S n) Hn) as E1. pose proof (st_closed n ltac:(lia)) as E0.
  assert (Hmax : 0 <= Z.of_nat n < brc_max).
  { unfold brc_max, lim in *. assert (2 ^ 62 < 2 ^ 64 - 1) by (cbn; lia). lia. }
  pose proof (C26_Counter.dec_st 65 (Z.of_nat n) ltac:(lia) Hmax) as D. replace (Z.of_nat n + 1) with (Z.of_nat (S n)) in D by lia.
  pose proof (st_representable (Z.of_nat (S n)) ltac:(lia)) as R. rewrite <- E1 in R. unfold to_gen in R. cbn in R.
  destruct R as (R1 & R2 & R3 & R4).
  assert (Hc : bc (MsPqBrc.st (S n)) = Z.of_nat (S n)) by apply bc_st.
  assert (Hh : 0 <= bh (MsPqBrc.st (S n)) < 64).
  { assert (Eh : bh (MsPqBrc.st (S n)) = brc_m_nHighBit (to_gen (MsPqBrc.st (S n)))) by reflexivity.
    rewrite Eh, E1, st_high_bit by lia. pose proof (Z.log2_nonneg (Z.of_nat (S n))).
    assert (Z.log2 (Z.of_nat (S n)) < 62) by (apply Z.log2_lt_pow2; unfold lim in *; lia). lia. }
  pose proof (brc_dec_is_generated 65 (MsPqBrc.st (S n)) ltac:(lia) ltac:(rewrite Hc; unfold lim in *; assert (2 ^ 62 < 2 ^ 64) by (cbn; lia); lia) R3 Hh) as G.
  rewrite E1, D in G. inversion G as [[Gs Gt]]. apply to_gen_inj. transitivity (C26_Counter.st (Z.of_nat n)); [symmetry; exact Gt|symmetry; exact E0].
Qed.

Theorem slot_parent_all (n : nat) :
  (2 <= n)%nat -> Z.of_nat n < lim -> exists m, (1 <= m < n)%nat /\ slot m = Nat.div2 (slot n).
Proof.
  intros Hn Ln. destruct n as [|n]; [lia|].
  destruct (C26_Trace.slot_parent (Z.of_nat (S n)) ltac:(lia)) as (m & Hm & Em).
  exists (Z.to_nat m). split; [lia|].
  destruct (Z.to_nat m) as [|m'] eqn:Em'; [lia|].
  pose proof (slot_closed m' ltac:(lia)) as E1. pose proof (slot_closed n Ln) as E2.
  rewrite <- Em' in E1. rewrite Z2Nat.id in E1 by lia. rewrite Em, <- E2 in E1.
  rewrite Em' in E1. apply Nat2Z.inj. rewrite E1. rewrite Nat.div2_div, Nat2Z.inj_div. reflexivity.
Qed.

(** *** left sibling first: an odd slot s >= 3 is handed out after s - 1 *)
Lemma left_sibling_math n :
  1 <= n -> Z.odd (slot_of n) = true -> 3 <= slot_of n ->
  exists m, 1 <= m < n /\ slot_of m = slot_of n - 1.
Proof.
  intros Hn Ho H3. set (s := slot_of n) in *.
  destruct (log2_bounds n Hn) as [Hh Hb]. pose proof (slot_of_level n Hn) as Hl. fold s in Hl.
  pose proof (slot_of_log2 n Hn) as Hls. fold s in Hls. set (h := Z.log2 n) in *.
  assert (Hh1 : 1 <= h).
  { destruct (Z.eq_dec h 0) as [E|]; [|lia]. rewrite E in Hl. cbn in Hl. lia. }
  assert (Hev : Z.odd (2 ^ h) = false).
  { replace h with ((h - 1) + 1) by lia. rewrite pow2_succ by lia. rewrite Z.odd_mul. reflexivity. }
  assert (Hgt : 2 ^ h < s).
  { destruct (Z.eq_dec s (2 ^ h)) as [E|]; [rewrite E in Ho; congruence|lia]. }
  assert (Hl' : Z.log2 (s - 1) = h) by (apply log2_unique'; lia).
  exists (slot_of (s - 1)). split; [|apply slot_of_involutive; lia].
  pose proof (slot_of_pos (s - 1) ltac:(lia)).
  assert (En : n = slot_of s) by (symmetry; apply slot_of_involutive; exact Hn).
  split; [lia|]. rewrite En. unfold slot_of. rewrite Hl', Hls.
  set (x := s - 2 ^ h). replace (s - 1 - 2 ^ h) with (x - 1) by (unfold x; lia).
  assert (Hx : 1 <= x) by (unfold x; lia).
  assert (Hox : Z.odd x = true) by (unfold x; rewrite Z.odd_sub, Ho, Hev; reflexivity).
  replace h with ((h - 1) + 1) by lia. rewrite !rev_succ by lia.
  rewrite (odd_mod2 x), Hox. rewrite (odd_mod2 (x - 1)).
  assert (Hox1 : Z.odd (x - 1) = false) by (rewrite Z.odd_sub, Hox; reflexivity). rewrite Hox1.
  assert (Hdiv : (x - 1) / 2 = x / 2).
  { pose proof (odd_div2 x) as D. rewrite Hox in D. symmetry. apply Z.div_unique with 0; lia. }
  rewrite Hdiv. assert (0 < 2 ^ (h - 1)) by (apply pow2_pos; lia). lia.
Qed.

Lemma even_of_nat k : Z.even (Z.of_nat k) = Nat.even k.
Proof.
  induction k as [|k IH]; [reflexivity|]. rewrite Nat2Z.inj_succ, Z.even_succ, Nat.even_succ.
  rewrite <- Z.negb_even, IH. reflexivity.
Qed.
Lemma odd_of_nat k : Z.odd (Z.of_nat k) = Nat.odd k.
Proof. rewrite <- Z.negb_even, even_of_nat. reflexivity. Qed.

Theorem slot_left_all (n : nat) :
  (1 <= n)%nat -> Z.of_nat n < lim -> Nat.odd (slot n) = true -> (3 <= slot n)%nat ->
  exists m, (1 <= m < n)%nat /\ slot m = (slot n - 1)%nat.
Proof.
  intros Hn Ln Ho H3. destruct n as [|n]; [lia|]. pose proof (slot_closed n Ln) as E.
  assert (Hoz : Z.odd (slot_of (Z.of_nat (S n))) = true).
  { rewrite <- E. rewrite <- Ho. apply odd_of_nat. }
  destruct (left_sibling_math (Z.of_nat (S n)) ltac:(lia) Hoz ltac:(lia)) as (m & Hm & Em).
  exists (Z.to_nat m). split; [lia|]. destruct (Z.to_nat m) as [|m'] eqn:Em'; [lia|].
  pose proof (slot_closed m' ltac:(lia)) as E1. rewrite <- Em' in E1. rewrite Z2Nat.id in E1 by lia.
  rewrite Em, <- E in E1. rewrite Em' in E1. lia.
Qed.

(** ** the boolean predicates of MsPqBrc hold for EVERY capacity 2^k - 1 (k <= 61) *)
Lemma nodupb_of_NoDup l : NoDup l -> nodupb l = true.
Proof.
  induction 1 as [|x l Hx Hnd IH]; [reflexivity|]. cbn [nodupb]. rewrite IH, andb_true_r. apply negb_true_iff.
  destruct (existsb (Nat.eqb x) l) eqn:E; [|reflexivity]. exfalso. apply existsb_exists in E. destruct E as (y & Hy & Ey).
  apply Nat.eqb_eq in Ey. subst y. contradiction.
Qed.

Lemma brc_eqb_refl a : brc_eqb a a = true.
Proof. unfold brc_eqb. rewrite !Z.eqb_refl. reflexivity. Qed.

Lemma cap_lt_lim k : (k <= 61)%nat -> Z.of_nat (2 ^ k - 1) < lim /\ Z.of_nat (2 ^ k) = 2 ^ Z.of_nat k /\ 2 ^ Z.of_nat k <= 2 ^ 61 /\ 2 ^ 61 < lim /\ (1 <= 2 ^ k)%nat.
Proof.
  intros Hk. assert (Hp : Z.of_nat (2 ^ k) = 2 ^ Z.of_nat k) by apply of_nat_pow2.
  assert (Hlt : 2 ^ Z.of_nat k <= 2 ^ 61) by (apply Z.pow_le_mono_r; lia).
  assert (H61 : 2 ^ 61 < lim) by (unfold lim; apply Z.pow_lt_mono_r; lia).
  assert (1 <= 2 ^ k)%nat by apply pow2_nat_pos. repeat split; try assumption. lia.
Qed.

Theorem slots_ok_all (k : nat) : (k <= 61)%nat -> slots_ok (2 ^ k - 1) = true.
Proof.
  intros Hk. destruct (cap_lt_lim k Hk) as (Hcap & Hp & Hlt & H61 & H1). set (cap := (2 ^ k - 1)%nat) in *.
  unfold slots_ok. cbv zeta. rewrite !andb_true_iff. split; [split; [split|]|].
  - apply forallb_forall. intros [n s] Hin. apply in_slist in Hin. destruct Hin as [Hn ->]. cbn [snd].
    pose proof (slot_range_all k n Hk Hn). apply andb_true_iff. split; apply Nat.leb_le; lia.
  - rewrite map_snd_slist. apply nodupb_of_NoDup. apply NoDup_map_inj_on; [|apply seq_NoDup].
    intros x y Hx Hy E. apply in_seq in Hx, Hy. apply slot_inj_all; try lia; exact E.
  - apply forallb_forall. intros n Hn. apply in_seq in Hn. destruct n as [|m]; [lia|]. cbn [pred].
    rewrite (dec_st_all m ltac:(lia)). apply brc_eqb_refl.
  - apply forallb_forall. intros i Hi. apply in_seq in Hi. apply existsb_exists.
    pose proof (prefix_closed (Z.of_nat k) (Z.of_nat i) ltac:(lia) ltac:(lia)) as R.
    set (n := Z.to_nat (slot_of (Z.of_nat i))).
    exists (n, slot n). split; [apply in_slist; split; [unfold n; lia|reflexivity]|]. cbn [snd]. apply Nat.eqb_eq.
    destruct n as [|n'] eqn:En; [unfold n in En; lia|].
    pose proof (slot_closed n' ltac:(unfold n in En; lia)) as E. rewrite <- En in E. unfold n in E at 2. rewrite Z2Nat.id in E by lia.
    rewrite slot_of_involutive in E by lia. rewrite En in E. lia.
Qed.

Theorem shape_ok_all (k : nat) : (k <= 61)%nat -> shape_ok (2 ^ k - 1) = true.
Proof.
  intros Hk. destruct (cap_lt_lim k Hk) as (Hcap & Hp & Hlt & H61 & H1). set (cap := (2 ^ k - 1)%nat) in *.
  unfold shape_ok. cbv zeta. rewrite andb_true_iff. split.
  - apply forallb_forall. intros [n s] Hin. apply in_slist in Hin. destruct Hin as [Hn ->]. cbn [fst snd].
    apply orb_true_iff. destruct (Nat.ltb_spec n 2) as [|Hn2]; [left; reflexivity|right].
    destruct (slot_parent_all n Hn2 ltac:(lia)) as (m & Hm & Em). apply existsb_exists. exists (m, slot m).
    split; [apply in_slist; split; [lia|reflexivity]|]. cbn [fst snd]. apply andb_true_iff. split; [apply Nat.ltb_lt; lia|apply Nat.eqb_eq; exact Em].
  - apply forallb_forall. intros [n s] Hin. apply in_slist in Hin. destruct Hin as [Hn ->]. cbn [fst snd].
    apply orb_true_iff. destruct (Nat.odd (slot n) && Nat.leb 3 (slot n)) eqn:Ec; [right|left; reflexivity].
    apply andb_true_iff in Ec. destruct Ec as [Eo E3]. apply Nat.leb_le in E3.
    destruct (slot_left_all n ltac:(lia) ltac:(lia) Eo E3) as (m & Hm & Em). apply existsb_exists. exists (m, slot m).
    split; [apply in_slist; split; [lia|reflexivity]|]. cbn [fst snd]. apply andb_true_iff. split; [apply Nat.ltb_lt; lia|apply Nat.eqb_eq; exact Em].
Qed.
