(** * DhpSeqThm: the sequential core of C03 for DHP — one thread retiring and scanning, for EVERY sequence of
      retire / scan operations, EVERY hazard list seen by each scan and EVERY block capacity >= 4:
      each retired pointer is freed at most once, a scan frees exactly the unguarded pointers, and what the
      destructor frees at the end is exactly what is still pending.  The machine below is built from the very
      functions the concurrent model executes ([rt_push], [stage2], [rt_do_extend], [new_rblock],
      [final_cells]).  With the [retired_array::extend] of before commit 1cc4b4f the statement is false
      ([dhp_old_extend_refuted]); with capacity < 4 the quarter rule never extends a full array whose scan
      freed nothing ([dhp_small_block_refuted]). *)
From Coq Require Import ZArith NArith List Bool Lia PeanoNat Permutation.
From LV Require Import Base.Conc Base.Events Model.DhpLang Model.Dhp Proofs.DhpBase Proofs.DhpSeq.
Import ListNotations.

(** ** the sequential machine *)
Inductive sop := SRetire (p : nat) (pl : list nat) | SScan (pl : list nat).
(** [pl] = the hazard pointers the scan triggered by this operation collects in stage 1 (arbitrary) *)

Definition seq_extend (c : cfg) (r : nat) (g : G) : G :=
  let (g1, nb) := new_rblock c g in
  fst (rt_do_extend c r nb (upd_rb g1 nb (bs_next None))).

Definition seq_scan (c : cfg) (r : nat) (pl : list nat) (g : G) : G * list nat :=
  let '(g1, (freed, ext)) := stage2 c r pl g in
  (if ext then seq_extend c r g1 else g1, freed).

Definition seq_op (c : cfg) (r : nat) (o : sop) (g : G) : G * list nat :=
  match o with
  | SRetire p pl => let (g1, ok) := rt_push c r p g in if ok then (g1, []) else seq_scan c r pl g1
  | SScan pl => seq_scan c r pl g
  end.

Fixpoint seq_run (c : cfg) (r : nat) (os : list sop) (g : G) : G * list nat :=
  match os with
  | [] => (g, [])
  | o :: rest => let (g1, d1) := seq_op c r o g in let (g2, d2) := seq_run c r rest g1 in (g2, d1 ++ d2)
  end.

(** state after attach: record 0 with one retired block *)
Definition seq_init (c : cfg) : G :=
  let (g1, r) := new_rec c (init c) in
  let (g2, b) := new_rblock c g1 in
  upd_rec g2 r (rs_ret (Some b) 0 (Some b) (Some b) 1).

Definition retired_of (os : list sop) : list nat :=
  flat_map (fun o => match o with SRetire p _ => [p] | SScan _ => [] end) os.

(** what ~smr frees for record r *)
Definition seq_final (c : cfg) (r : nat) (g : G) : list nat :=
  final_cells c (S (List.length (rbs g))) g (r_head (grec g r)) (r_cb (grec g r)) (r_cc (grec g r)).

Section Thm.
  Variable c : cfg.
  Notation RB := (c_RB c).
  Hypothesis HRB : 1 <= RB.

  (** ** a fresh block *)
  Lemma grb_new_old g b : b < List.length (rbs g) -> grb (fst (new_rblock c g)) b = grb g b.
  Proof. intros H. unfold grb, new_rblock. cbn. now rewrite app_nth1. Qed.

  Lemma grb_new_new g : grb (fst (new_rblock c g)) (List.length (rbs g)) = mkRb 0 None None (repeat 0 RB).
  Proof. unfold grb, new_rblock. cbn. rewrite app_nth2 by lia. now rewrite Nat.sub_diag. Qed.

  Lemma Rinv_ext g g' r chain w :
    List.length (recs g') = List.length (recs g) -> List.length (rbs g) <= List.length (rbs g') ->
    grec g' r = grec g r -> (forall b, In b chain -> grb g' b = grb g b) ->
    Rinv c g r chain w -> Rinv c g' r chain w.
  Proof.
    intros H1 H2 H3 H4 [Ir Ich Ind Ine Itl Iw Icur]. constructor; auto; try congruence.
    - rewrite H3. eapply is_chain_ext; eauto.
    - rewrite H3. exact Icur.
  Qed.

  Lemma is_chain_snoc g o chain tl nb : is_chain c g o chain -> NoDup chain -> chain <> [] ->
    nth_error chain (List.length chain - 1) = Some tl -> ~ In nb chain -> nb < List.length (rbs g) ->
    List.length (rb_cells (grb g nb)) = RB -> rb_next (grb g nb) = None ->
    is_chain c (upd_rb g tl (bs_next (Some nb))) o (chain ++ [nb]).
  Proof.
    intros H Hnd Hne Htl Hnb Hlt Hcells Hnext. revert o H. induction chain as [|x l IH]; intros o H; [congruence|].
    cbn [is_chain] in H. destruct H as (H0 & H1 & H2 & H3). inversion Hnd as [|? ? Hx Hnd']; subst.
    assert (Nnb : x <> nb) by (intros ->; apply Hnb; now left).
    destruct l as [|y l'].
    - cbn in Htl. inversion Htl; subst tl. cbn [app is_chain].
      split; auto. split; [rewrite rbs_upd_rb, upd_nth_length; exact H1|].
      rewrite grb_upd_rb_same by exact H1. cbn. split; [exact H2|].
      split; auto. split; [rewrite rbs_upd_rb, upd_nth_length; exact Hlt|].
      rewrite grb_upd_rb_other by exact Nnb. split; [exact Hcells|exact Hnext].
    - assert (Htl' : nth_error (y :: l') (List.length (y :: l') - 1) = Some tl).
      { cbn [List.length] in *. replace (S (S (List.length l')) - 1) with (S (List.length l')) in Htl by lia.
        cbn [nth_error] in Htl. replace (S (List.length l') - 1) with (List.length l') by lia. exact Htl. }
      assert (Nx : tl <> x) by (intros ->; apply Hx; eapply nth_error_In; eauto).
      cbn [app is_chain]. split; auto. split; [rewrite rbs_upd_rb, upd_nth_length; exact H1|].
      rewrite grb_upd_rb_other by exact Nx. split; [exact H2|].
      apply IH; auto; [congruence|intros K; apply Hnb; now right].
  Qed.

  Lemma flat_app g l1 l2 : flat g (l1 ++ l2) = flat g l1 ++ flat g l2.
  Proof. unfold flat. apply flat_map_app. Qed.

  (** ** retired_array::extend (current tree): the chain grows by [nb], the content is unchanged *)
  Lemma extend_spec g r chain w nb : c_old c = false -> Rinv c g r chain w -> ~ In nb chain ->
    nb < List.length (rbs g) -> List.length (rb_cells (grb g nb)) = RB -> rb_next (grb g nb) = None ->
    let g' := fst (rt_do_extend c r nb g) in
    Rinv c g' r (chain ++ [nb]) w /\ content g' (chain ++ [nb]) w = content g chain w /\ oob g' = oob g.
  Proof.
    intros Hold I Hnb Hlt Hcells Hnext. pose proof I as I0.
    destruct I as [Ir Ich Ind Ine Itl Iw (j & i & Icb & Ij & Icc & Ew & Hnorm)].
    destruct (nth_error chain (List.length chain - 1)) as [tl|] eqn:Htl;
      [|apply nth_error_None in Htl; destruct chain; [congruence|cbn in Htl; lia]].
    unfold rt_do_extend. rewrite Hold, Itl. cbn [orb].
    set (g1 := upd_rb g tl (bs_next (Some nb))).
    assert (Hch1 : is_chain c g1 (r_head (grec g r)) (chain ++ [nb])) by (eapply is_chain_snoc; eauto).
    assert (Hfl : flat g1 (chain ++ [nb]) = flat g chain ++ rb_cells (grb g nb)).
    { rewrite flat_app. f_equal.
      - unfold flat. apply flat_map_ext. intros b. unfold g1. destruct (Nat.eq_dec tl b) as [->|N].
        + assert (b < List.length (rbs g)) by (eapply is_chain_lt; eauto; eapply nth_error_In; eauto).
          rewrite grb_upd_rb_same by assumption. reflexivity.
        + rewrite grb_upd_rb_other by exact N. reflexivity.
      - unfold flat. cbn. rewrite app_nil_r. unfold g1. rewrite grb_upd_rb_other; auto.
        intros ->. apply Hnb. eapply nth_error_In; eauto. }
    assert (HLf : List.length (flat g chain) = List.length chain * RB) by (eapply flat_length; eauto).
    assert (Hcont : forall g2, (forall b, grb g2 b = grb g1 b) -> content g2 (chain ++ [nb]) w = content g chain w).
    { intros g2 E. unfold content. rewrite (flat_ext g1 g2) by (intros; apply E). rewrite Hfl.
      rewrite firstn_app. replace (w - List.length (flat g chain)) with 0 by lia. cbn. now rewrite app_nil_r. }
    assert (Hlen : List.length (chain ++ [nb]) = S (List.length chain)) by (rewrite app_length; cbn; lia).
    assert (Hmk : forall cb cc j' i', cb = nth_error (chain ++ [nb]) j' -> j' < S (List.length chain) ->
               w = j' * RB + i' -> cc = i' -> (i' < RB \/ (i' = RB /\ S j' = S (List.length chain))) ->
               Rinv c (upd_rec g1 r (rs_ret cb cc (r_head (grec g r)) (Some nb) (S (r_bcount (grec g r))))) r (chain ++ [nb]) w).
    { intros cb cc j' i' E1 E2 E3 E4 E5. constructor.
      - rewrite recs_upd_rec, upd_nth_length. exact Ir.
      - rewrite grec_upd_rec_same by exact Ir. cbn. eapply is_chain_ext; [| |exact Hch1]; auto.
      - apply (Permutation_NoDup (l := nb :: chain)); [apply Permutation_cons_append|constructor; auto].
      - destruct chain; discriminate.
      - rewrite grec_upd_rec_same by exact Ir. cbn. rewrite Hlen. replace (S (List.length chain) - 1) with (List.length chain) by lia.
        rewrite nth_error_app2 by lia. now rewrite Nat.sub_diag.
      - rewrite Hlen. nia.
      - exists j', i'. rewrite grec_upd_rec_same by exact Ir. cbn. rewrite Hlen. auto. }
    destruct (oeqb (r_cb (grec g r)) (Some tl) && Nat.eqb (r_cc (grec g r)) RB) eqn:Efull; cbn [fst].
    - apply andb_true_iff in Efull. destruct Efull as [E1 E2]. apply Nat.eqb_eq in E2.
      assert (i = RB /\ S j = List.length chain) as (Ei & Ej) by (destruct Hnorm as [?|[? ?]]; [lia|auto]).
      split; [|split; [apply Hcont; intros; apply grb_upd_rec|reflexivity]].
      eapply (Hmk (Some nb) 0 (List.length chain) 0); auto; try lia; try nia.
      rewrite nth_error_app2 by lia. now rewrite Nat.sub_diag.
    - split; [|split; [apply Hcont; intros; apply grb_upd_rec|reflexivity]].
      assert (Hi : i < RB).
      { destruct Hnorm as [?|[Ei Ej]]; auto. exfalso. apply andb_false_iff in Efull. destruct Efull as [E|E].
        - apply oeqb_neq in E. apply E. rewrite Icb. replace j with (List.length chain - 1) by lia. exact Htl.
        - apply Nat.eqb_neq in E. lia. }
      eapply (Hmk (r_cb (grec g r)) (r_cc (grec g r)) j i); auto; try lia.
      rewrite Icb. symmetry. apply nth_error_app1. exact Ij.
  Qed.

  Hypothesis HRB4 : 4 <= RB.
  Hypothesis Hold : c_old c = false.

  Lemma filter_partition_perm (pl : list nat) (l : list nat) :
    Permutation (filter (keepf pl) l ++ filter (freef pl) l) l.
  Proof.
    unfold keepf, freef. induction l as [|x l IH]; cbn; auto. destruct (memb x pl); cbn.
    - now constructor.
    - eapply Permutation_trans; [apply Permutation_sym, Permutation_middle|]. now constructor.
  Qed.

  (** ** one scan (stage 2 + extend), from any cursor position *)
  Lemma seq_scan_step g r chain w pl : Rinv c g r chain w -> oob g = false ->
    let '(g', freed) := seq_scan c r pl g in
    exists chain' w', Rinv c g' r chain' w' /\ w' < List.length chain' * RB /\ oob g' = false /\
      content g' chain' w' = filter (keepf pl) (content g chain w) /\
      freed = filter (freef pl) (content g chain w).
  Proof.
    intros I Hoob. unfold seq_scan. pose proof (stage2_spec c pl g r chain w HRB I) as Sp.
    destruct (stage2 c r pl g) as [g1 [freed ext]].
    destruct Sp as (w1 & J1 & J2 & J3 & J4 & J5 & J6 & J7 & J8).
    assert (Hne : 1 <= List.length chain) by (destruct chain; [exfalso; apply (ri_ne _ _ _ _ _ I); reflexivity|cbn; lia]).
    assert (Hw : w <= List.length chain * RB) by exact (ri_w _ _ _ _ _ I).
    destruct ext.
    - destruct (J5 eq_refl) as (Efull & Hq).
      unfold seq_extend. destruct (new_rblock c g1) as [g2 nb] eqn:En.
      assert (Enb : nb = List.length (rbs g1)) by (unfold new_rblock in En; inversion En; reflexivity).
      assert (Eg2 : g2 = fst (new_rblock c g1)) by (rewrite En; reflexivity).
      assert (Hlt_chain : forall b, In b chain -> b < List.length (rbs g1)) by (eapply is_chain_lt; exact (ri_chain _ _ _ _ _ J1)).
      assert (Hnotin : ~ In nb chain) by (intros K; apply Hlt_chain in K; lia).
      assert (L2 : List.length (rbs g2) = S (List.length (rbs g1))).
      { subst g2. unfold new_rblock. cbn. rewrite app_length. cbn. lia. }
      set (g3 := upd_rb g2 nb (bs_next None)).
      assert (I3 : Rinv c g3 r chain w1).
      { eapply Rinv_ext; [| | | |exact J1].
        - subst g2. reflexivity.
        - unfold g3. rewrite rbs_upd_rb, upd_nth_length. lia.
        - subst g2. reflexivity.
        - intros b Hb. unfold g3. rewrite grb_upd_rb_other by (intros ->; contradiction).
          subst g2. apply grb_new_old. now apply Hlt_chain. }
      assert (Hnb3 : grb g3 nb = mkRb 0 None None (repeat 0 RB)).
      { unfold g3. rewrite grb_upd_rb_same by lia. subst g2 nb. rewrite grb_new_new. reflexivity. }
      destruct (extend_spec g3 r chain w1 nb Hold I3 Hnotin) as (E1 & E2 & E3).
      + unfold g3. rewrite rbs_upd_rb, upd_nth_length. lia.
      + rewrite Hnb3. cbn. apply repeat_length.
      + rewrite Hnb3. reflexivity.
      + exists (chain ++ [nb]), w1. split; [exact E1|]. split; [rewrite app_length; cbn; nia|].
        split; [rewrite E3; transitivity (oob g1); [unfold g3; subst g2; reflexivity|congruence]|].
        split; [|exact J3]. rewrite E2, <- J2. unfold content. f_equal. apply flat_ext.
        intros b Hb. unfold g3. rewrite grb_upd_rb_other by (intros ->; contradiction).
        subst g2. apply grb_new_old. now apply Hlt_chain.
    - exists chain, w1. split; [exact J1|]. split; [|split; [congruence|split; [exact J2|exact J3]]].
      destruct (Nat.eq_dec w (List.length chain * RB)) as [Efull|N]; [|lia].
      destruct (Nat.lt_ge_cases (List.length freed) (List.length chain * RB / 4)) as [Hq|Hq].
      + specialize (J6 Efull Hq). discriminate.
      + assert (1 <= List.length chain * RB / 4).
        { apply Nat.div_le_lower_bound; nia. }
        lia.
  Qed.

  (** ** the invariant between operations *)
  Definition SInv (g : G) (r : nat) (retired disposed : list nat) : Prop :=
    exists chain w, Rinv c g r chain w /\ w < List.length chain * RB /\ oob g = false /\
                    Permutation (content g chain w ++ disposed) retired.

  Lemma seq_scan_SInv g r chain w pl retired disposed : Rinv c g r chain w -> oob g = false ->
    Permutation (content g chain w ++ disposed) retired ->
    SInv (fst (seq_scan c r pl g)) r retired (disposed ++ snd (seq_scan c r pl g)) /\
    snd (seq_scan c r pl g) = filter (freef pl) (content g chain w).
  Proof.
    intros I Hoob HP. pose proof (seq_scan_step g r chain w pl I Hoob) as St.
    destruct (seq_scan c r pl g) as [g' freed]. destruct St as (chain' & w' & S1 & S2 & S3 & S4 & S5).
    cbn [fst snd]. split; [|exact S5]. exists chain', w'.
    split; [exact S1|]. split; [exact S2|]. split; [exact S3|].
    rewrite S4, S5. eapply Permutation_trans; [|exact HP].
    rewrite (Permutation_app_comm disposed), app_assoc. apply Permutation_app_tail. apply filter_partition_perm.
  Qed.

  Lemma seq_op_SInv g r o retired disposed : SInv g r retired disposed ->
    SInv (fst (seq_op c r o g)) r (retired ++ retired_of [o]) (disposed ++ snd (seq_op c r o g)).
  Proof.
    intros (chain & w & I & Hw & Hoob & HP). destruct o as [p pl|pl]; cbn [seq_op retired_of flat_map app].
    - destruct (push_spec c g r chain w p I Hw) as (P1 & P2 & P3 & P4 & P5).
      destruct (rt_push c r p g) as [g1 ok]. cbn [fst snd] in *.
      assert (HLf : List.length (flat g chain) = List.length chain * RB) by (eapply flat_length; exact (ri_chain _ _ _ _ _ I)).
      assert (Hcont : content g1 chain (S w) = content g chain w ++ [p]).
      { unfold content. rewrite P2. apply firstn_S_upd_nth. lia. }
      assert (HP1 : Permutation (content g1 chain (S w) ++ disposed) (retired ++ [p])).
      { rewrite Hcont. rewrite <- app_assoc. eapply Permutation_trans; [apply Permutation_app_head, Permutation_app_comm|].
        rewrite app_assoc. now apply Permutation_app_tail. }
      destruct ok.
      + cbn [fst snd]. rewrite app_nil_r. exists chain, (S w).
        split; [exact P1|]. split; [|split; [congruence|exact HP1]].
        symmetry in P3. apply negb_true_iff, Nat.eqb_neq in P3. pose proof (ri_w _ _ _ _ _ P1). lia.
      + apply (seq_scan_SInv g1 r chain (S w) pl (retired ++ [p]) disposed P1 ltac:(congruence) HP1).
    - rewrite app_nil_r. apply (seq_scan_SInv g r chain w pl retired disposed I Hoob HP).
  Qed.

  Lemma seq_run_SInv os : forall g r retired disposed, SInv g r retired disposed ->
    SInv (fst (seq_run c r os g)) r (retired ++ retired_of os) (disposed ++ snd (seq_run c r os g)).
  Proof.
    induction os as [|o rest IH]; intros g r retired disposed H; cbn [seq_run].
    - cbn. now rewrite !app_nil_r.
    - pose proof (seq_op_SInv g r o retired disposed H) as H1.
      destruct (seq_op c r o g) as [g1 d1]. cbn [fst snd] in H1.
      specialize (IH g1 r _ _ H1). destruct (seq_run c r rest g1) as [g2 d2]. cbn [fst snd] in *.
      replace (retired ++ retired_of (o :: rest)) with ((retired ++ retired_of [o]) ++ retired_of rest).
      + now rewrite app_assoc.
      + rewrite <- app_assoc. f_equal. unfold retired_of. cbn. now rewrite app_nil_r.
  Qed.

  (** ** what the destructor frees is the content *)
  Lemma final_cells_spec : forall chain fuel g o j i b, is_chain c g o chain -> NoDup chain ->
    nth_error chain j = Some b -> i <= RB -> List.length chain < fuel ->
    final_cells c fuel g o (Some b) i = firstn (j * RB + i) (flat g chain).
  Proof.
    induction chain as [|x l IH]; intros fuel g o j i b H Hnd Hj Hi Hf; [destruct j; discriminate|].
    cbn [is_chain] in H. destruct H as (H0 & H1 & H2 & H3). inversion Hnd as [|? ? Hx Hnd']; subst.
    destruct fuel as [|fuel]; [cbn in Hf; lia|]. cbn [final_cells]. unfold flat. cbn [flat_map].
    destruct j as [|j]; cbn [nth_error] in Hj.
    - inversion Hj; subst x. rewrite oeqb_refl. cbn [Nat.mul Nat.add]. rewrite firstn_app.
      replace (i - List.length (rb_cells (grb g b))) with 0 by lia. cbn. now rewrite app_nil_r.
    - assert (N : oeqb (Some x) (Some b) = false).
      { apply oeqb_neq. intros E. inversion E; subst x. apply Hx. eapply nth_error_In; eauto. }
      rewrite N. rewrite (IH fuel g _ j i b H3 Hnd' Hj Hi ltac:(cbn in Hf; lia)).
      rewrite firstn_app, H2. replace (S j * RB + i - RB) with (j * RB + i) by lia.
      rewrite (@firstn_all2 _ (S j * RB + i) (rb_cells (grb g x))) by (rewrite H2; lia). reflexivity.
  Qed.

  Lemma seq_final_content g r chain w : Rinv c g r chain w -> seq_final c r g = content g chain w.
  Proof.
    intros [Ir Ich Ind Ine Itl Iw (j & i & Icb & Ij & Icc & Ew & Hnorm)].
    destruct (nth_error chain j) as [b|] eqn:Hb; [|apply nth_error_None in Hb; lia].
    unfold seq_final, content. rewrite Icb, Icc, Ew.
    eapply final_cells_spec; eauto; [lia|].
    pose proof (chain_length_le c _ _ _ Ich Ind). lia.
  Qed.

  Lemma seq_init_SInv : SInv (seq_init c) 0 [] [].
  Proof.
    assert (E1 : grec (seq_init c) 0 = mkRec None 0 false 0 (repeat 0 (eff_H c)) (repeat None (eff_H c)) (Some (GI 0 0)) None
                                           (Some 0) 0 (Some 0) (Some 0) 1) by reflexivity.
    assert (E2 : grb (seq_init c) 0 = mkRb 0 None None (repeat 0 RB)) by reflexivity.
    assert (E3 : List.length (recs (seq_init c)) = 1) by reflexivity.
    assert (E4 : List.length (rbs (seq_init c)) = 1) by reflexivity.
    assert (E5 : oob (seq_init c) = false) by reflexivity.
    exists [0], 0. split; [|split; [cbn; lia|split; [exact E5|reflexivity]]].
    constructor.
    - rewrite E3. lia.
    - rewrite E1. cbn [r_head is_chain]. rewrite E2, E4. cbn. repeat split; auto. apply repeat_length.
    - constructor; [intros []|constructor].
    - discriminate.
    - rewrite E1. reflexivity.
    - lia.
    - exists 0, 0. rewrite E1. cbn. repeat split; auto; try (left; lia).
  Qed.

  Lemma NoDup_app_r (l1 l2 : list nat) : NoDup (l1 ++ l2) -> NoDup l2.
  Proof. induction l1 as [|x l IH]; cbn; auto. intros H. inversion H; auto. Qed.

  (** ** the theorems *)
  Theorem dhp_seq_at_most_once os : NoDup (retired_of os) ->
    let '(g, d) := seq_run c 0 os (seq_init c) in
    NoDup d /\ incl d (retired_of os) /\ oob g = false /\
    Permutation (seq_final c 0 g ++ d) (retired_of os).
  Proof.
    intros Hnd. pose proof (seq_run_SInv os _ _ _ _ seq_init_SInv) as H.
    destruct (seq_run c 0 os (seq_init c)) as [g d]. cbn [fst snd app] in H.
    destruct H as (chain & w & I & Hw & Hoob & HP).
    assert (HN : NoDup (content g chain w ++ d)) by (eapply Permutation_NoDup; [apply Permutation_sym; exact HP|exact Hnd]).
    split; [eapply NoDup_app_r; exact HN|].
    split; [intros x Hx; eapply Permutation_in; [exact HP|apply in_or_app; now right]|].
    split; [exact Hoob|]. rewrite (seq_final_content g 0 chain w I). exact HP.
  Qed.

  (** every scan frees exactly the pending pointers that are not in the hazard list it collected *)
  Theorem dhp_seq_scan_frees_unguarded g r retired disposed pl : SInv g r retired disposed ->
    exists chain w, Rinv c g r chain w /\
      snd (seq_scan c r pl g) = filter (freef pl) (content g chain w) /\
      (forall p, In p (content g chain w) -> ~ In p pl -> In p (snd (seq_scan c r pl g))) /\
      (forall p, In p (snd (seq_scan c r pl g)) -> ~ In p pl).
  Proof.
    intros (chain & w & I & Hw & Hoob & HP). exists chain, w. split; [exact I|].
    destruct (seq_scan_SInv g r chain w pl retired disposed I Hoob HP) as (_ & E). split; [exact E|].
    rewrite E. split.
    - intros p Hp Hn. apply filter_In. split; auto. unfold freef. apply negb_true_iff.
      destruct (memb p pl) eqn:M; auto. apply memb_In in M. contradiction.
    - intros p Hp Hin. apply filter_In in Hp. destruct Hp as (_ & Hp). unfold freef in Hp.
      apply negb_true_iff in Hp. apply memb_In in Hin. congruence.
  Qed.
End Thm.

(** ** regression of non-vacuity: the same statement is FALSE for the retired_array::extend of before commit
       1cc4b4f (capacity 8: seven of eight retired pointers guarded, the scan frees one, the old extend() jumps
       over the freed cell, the next scan frees its stale content again) *)
Definition old_cfg : cfg := mkCfg 4 2 8 true 100 1 false.
Definition old_witness : list sop :=
  map (fun p => SRetire p [1;2;3;4;5;6;7]) (seq 1 16).

Theorem dhp_old_extend_refuted :
  exists c os, c_old c = true /\ 4 <= c_RB c /\ NoDup (retired_of os) /\
               ~ NoDup (snd (seq_run c 0 os (seq_init c))).
Proof.
  exists old_cfg, old_witness. split; [reflexivity|]. split; [cbn; lia|]. split.
  - vm_compute. repeat constructor; cbn; intuition discriminate.
  - vm_compute. intros H. inversion H as [|x l Hx Hl]; subst. apply Hx. cbn. intuition.
Qed.

(** on the current extend() the same input is fine (instance of the theorem, computed) *)
Example dhp_new_extend_same_input :
  snd (seq_run (mkCfg 4 2 8 false 100 1 false) 0 old_witness (seq_init (mkCfg 4 2 8 false 100 1 false))) = [8].
Proof. vm_compute. reflexivity. Qed.

(** input the code does not reject: with fewer than 4 cells per block "free_count < retired_count / 4" is
    never true for a one-block array, a full array whose scan freed nothing is not extended and the next
    push() writes outside the block.  (retired_block::c_capacity = 256 in /repo.) *)
Theorem dhp_small_block_refuted :
  exists c os, c_old c = false /\ c_RB c = 3 /\ NoDup (retired_of os) /\
               oob (fst (seq_run c 0 os (seq_init c))) = true.
Proof.
  exists (mkCfg 4 2 3 false 100 1 false), (map (fun p => SRetire p [1;2;3]) (seq 1 4)).
  split; [reflexivity|]. split; [reflexivity|]. split.
  - vm_compute. repeat constructor; cbn; intuition discriminate.
  - vm_compute. reflexivity.
Qed.
