(** * Bucket-table invariant of the step-grain split-list model (LV.Model.SplitList), for every schedule.

    What is proved here (no reasoning about the ordered list is needed): a published bucket pointer is an aux node that
    carries that bucket's dummy key, and a bucket is published only after its parent bucket.  Every access of the model
    other than the table store keeps the table, the allocation counter (monotonically) and the keys of allocated nodes
    ([keeps]); programs made of such accesses are [benign] and trivially safe. *)
From Coq Require Import ZArith List Bool Arith PeanoNat Lia String.
From LV Require Import Base.Conc Base.Events Model.SplitList.
Import ListNotations.

Set Implicit Arguments.

Section Inv.
  Variables (cap : nat) (hs : list Z).

  (** what a thread knows: the aux node it allocated (node, bucket) and buckets it has seen published *)
  Record L := mkL { own : option (nat * nat); pub : list nat }.
  Definition Aux := nat -> L.
  Definition view (A : Aux) (t : nat) : L := A t.
  Definition upd (A : Aux) (t : nat) (l : L) : Aux := fun u => if Nat.eqb u t then l else A u.

  Record Inv (g : G) (A : Aux) (tr : list (nat * ev)) : Prop := {
    i_tab : forall b, table g b <> 0 -> table g b <= nalloc g /\ nkey (heap g (table g b)) = dkey b;
    i_parent : forall b, table g b <> 0 -> b <> 0 -> table g (parent_bucket b) <> 0;
    i_zero : table g 0 <> 0;
    i_own : forall t n b, own (A t) = Some (n, b) -> n <> 0 /\ n <= nalloc g /\ nkey (heap g n) = dkey b;
    i_pub : forall t b, In b (pub (A t)) -> table g b <> 0
  }.

  Notation safe := (@Conc.safe G V ev Aux L view Inv).
  Notation prog := (Conc.prog G V ev).

  Lemma view_upd_same A t l : view (upd A t l) t = l.
  Proof. unfold view, upd. now rewrite Nat.eqb_refl. Qed.
  Lemma frame_upd A t l : Conc.frame view t A (upd A t l).
  Proof. intros u H. unfold view, upd. destruct (Nat.eqb_spec u t); congruence. Qed.
  Lemma frame_refl A t : Conc.frame view t A A.
  Proof. intros u H. reflexivity. Qed.

  Lemma Inv_trace g A tr tr' : Inv g A tr -> Inv g A tr'.
  Proof. intros []; constructor; assumption. Qed.

  (** ** accesses that keep the table and the keys of allocated nodes *)
  Definition keeps (f : G -> G * V * list ev) : Prop :=
    forall g, let g' := fst (fst (f g)) in
      table g' = table g /\ nalloc g <= nalloc g' /\ (forall n, n <= nalloc g -> nkey (heap g' n) = nkey (heap g n)).

  Lemma Inv_keeps f g A tr tr' : keeps f -> Inv g A tr -> Inv (fst (fst (f g))) A tr'.
  Proof.
    intros K I. destruct (K g) as (K1 & K2 & K3). destruct I. constructor.
    - intros b Hb. rewrite K1 in *. destruct (i_tab0 b Hb) as [H1 H2]. split; [lia|]. rewrite K3; assumption.
    - intros b Hb Hn. rewrite K1 in *. auto.
    - rewrite K1. assumption.
    - intros t n b H. destruct (i_own0 t n b H) as (H1 & H2 & H3). repeat split; auto; [lia|]. rewrite K3; assumption.
    - intros t b H. rewrite K1. eauto.
  Qed.

  Inductive benign {R} : prog R -> Prop :=
  | bn_ret r : benign (Ret r)
  | bn_emit es k : benign k -> benign (Emit es k)
  | bn_act f k : keeps f -> (forall v, benign (k v)) -> benign (Act f k).

  Lemma benign_bind {A B} (p : prog A) (q : A -> prog B) : benign p -> (forall a, benign (q a)) -> benign (Conc.bind p q).
  Proof. intros Hp Hq. induction Hp; cbn [Conc.bind]; [apply Hq|constructor; auto|constructor; auto]. Qed.

  Lemma safe_benign {R} t (p : prog R) : benign p -> forall l, safe t p l (fun _ l' => l' = l).
  Proof.
    intros H. induction H as [r|es k Hk IH|f k Hf Hk IH]; intros l; cbn [Conc.safe].
    - reflexivity.
    - intros g A tr HI Hv. exists A. split; [eapply Inv_trace; exact HI|]. split; [apply frame_refl|]. rewrite Hv. apply IH.
    - intros g A tr HI Hv. exists A. split; [eapply Inv_keeps; eauto|]. split; [apply frame_refl|]. rewrite Hv. apply IH.
  Qed.

  Lemma safe_benign_bind {A B} t (p : prog A) (q : A -> prog B) l (Q : B -> L -> Prop) :
    benign p -> (forall a, safe t (q a) l Q) -> safe t (Conc.bind p q) l Q.
  Proof.
    intros Hp Hq. apply Conc.safe_bind. eapply Conc.safe_weaken; [|apply safe_benign; exact Hp].
    intros a l' ->. apply Hq.
  Qed.

  (** every access except the table store keeps *)
  Ltac kp := intros g; cbn; repeat split; auto; try lia.

  Lemma keeps_nop k o : keeps (a_nop k o). Proof. kp. Qed.
  Lemma keeps_begin : keeps a_begin. Proof. kp. Qed.
  Lemma keeps_ld l : keeps (a_ld l). Proof. intros g; unfold a_ld. destruct (rd g l); cbn; repeat split; auto. Qed.
  Lemma keeps_cas l ep np nm : keeps (a_cas l ep np nm).
  Proof.
    intros g; unfold a_cas. destruct (rd g l) as [p m]. destruct (Nat.eqb p ep && negb m); cbn; [|repeat split; auto].
    destruct l as [t s a|n]; cbn; repeat split; auto.
    intros n' Hn. unfold upd_heap. destruct (Nat.eqb_spec n' n); [subst; reflexivity|reflexivity].
  Qed.
  Lemma keeps_alloc_st k p : keeps (a_alloc_st k p).
  Proof. intros g; cbn. repeat split; auto. intros n Hn. unfold upd_heap. destruct (Nat.eqb_spec n (S (nalloc g))); [lia|reflexivity]. Qed.
  Lemma keeps_new_aux k : keeps (a_new_aux k).
  Proof. intros g; cbn. repeat split; auto. intros n Hn. unfold upd_heap. destruct (Nat.eqb_spec n (S (nalloc g))); [lia|reflexivity]. Qed.
  Lemma keeps_st_next n p : keeps (a_st_next n p).
  Proof. intros g; cbn. repeat split; auto. intros n' Hn. unfold upd_heap. destruct (Nat.eqb_spec n' n); [subst; reflexivity|reflexivity]. Qed.
  Lemma keeps_ld_log2 : keeps a_ld_log2. Proof. kp. Qed.
  Lemma keeps_ld_tab b : keeps (a_ld_tab b). Proof. kp. Qed.
  Lemma keeps_ld_auxcnt : keeps a_ld_auxcnt. Proof. kp. Qed.
  Lemma keeps_faa_auxcnt : keeps a_faa_auxcnt. Proof. kp. Qed.
  Lemma keeps_ld_max : keeps a_ld_max. Proof. kp. Qed.
  Lemma keeps_cnt k d : keeps (a_cnt k d). Proof. kp. Qed.
  Lemma keeps_cas_max e n : keeps (a_cas_max e n). Proof. intros g; unfold a_cas_max. destruct (Z.eqb (maxcnt g) e); cbn; repeat split; auto. Qed.
  Lemma keeps_st_max n : keeps (a_st_max n). Proof. kp. Qed.
  Lemma keeps_cas_log2 e : keeps (a_cas_log2 e). Proof. intros g; unfold a_cas_log2. destruct (Nat.eqb (log2 g) e); cbn; repeat split; auto. Qed.
  Lemma keeps_fl_ld : keeps a_fl_ld. Proof. kp. Qed.
  Lemma keeps_fl_cas ep n : keeps (a_fl_cas ep n). Proof. intros g; unfold a_fl_cas. destruct (Nat.eqb (flhead g) ep); cbn; repeat split; auto. Qed.

  Hint Resolve keeps_nop keeps_begin keeps_ld keeps_cas keeps_alloc_st keeps_new_aux keeps_st_next keeps_ld_log2 keeps_ld_tab
    keeps_ld_auxcnt keeps_faa_auxcnt keeps_ld_max keeps_cnt keeps_cas_max keeps_st_max keeps_cas_log2 keeps_fl_ld keeps_fl_cas : kp.

  Ltac bn := repeat (first [ apply bn_ret | apply bn_emit | apply bn_act; [solve [auto with kp | unfold a_gst, a_gld, a_sync, a_rld, a_rst, a_ld_seg, a_ld_auxlist, a_faa_refs, a_st_refs, a_st_flnext; auto with kp]|intros ?] ]).

  (** ** the list-level programs are benign *)
  Lemma bn_protect f t s l : benign (protect f t s l).
  Proof. induction f as [|f IH]; cbn [protect]; bn. destruct (veqb _ _); [bn|exact IH]. Qed.
  Lemma bn_assign_guard t s : benign (assign_guard t s). Proof. unfold assign_guard; bn. Qed.
  Lemma bn_copy_guard t d s : benign (copy_guard t d s). Proof. unfold copy_guard; bn. Qed.
  Lemma bn_retire t : benign (retire t). Proof. unfold retire; bn. Qed.
  Lemma bn_free_guards t gs : forall fr, benign (free_guards t gs fr).
  Proof. induction gs as [|s r IH]; intros fr; cbn [free_guards]; bn. apply IH. Qed.

  Lemma bn_search t g0 g1 g2 hd k : forall f st, benign (search f t g0 g1 g2 hd k st).
  Proof.
    induction f as [|f IH]; intros st; cbn [search]; [bn|].
    destruct st as [[pPrev pCur]|].
    - destruct (Nat.eqb (vptr pCur) 0); [bn|]. apply benign_bind; [apply bn_protect|].
      intros [pNext|]; [|bn]. bn.
      destruct (negb _); [apply IH|]. destruct (vmark pNext).
      + bn. destruct (vmark _); [|apply IH]. apply benign_bind; [apply bn_retire|]. intros _.
        apply benign_bind; [apply bn_copy_guard|]. intros _. apply IH.
      + destruct (Z.leb k (vkey pCur)); [bn|]. apply benign_bind; [apply bn_copy_guard|]. intros _.
        apply benign_bind; [apply bn_copy_guard|]. intros _. apply IH.
    - apply benign_bind; [apply bn_protect|]. intros [v|]; [apply IH|bn].
  Qed.

  Lemma bn_link_node own k p : benign (link_node own k p).
  Proof. unfold link_node. destruct own; bn; destruct (vmark _); bn. Qed.
  Lemma bn_unlink_node t p : benign (unlink_node t p).
  Proof.
    unfold unlink_node. bn. destruct (vmark _); [|bn]. bn. destruct (vmark _); [|bn].
    apply benign_bind; [apply bn_retire|]. intros _. bn.
  Qed.

  Lemma bn_insert_loop sf t g0 g1 g2 hd k : forall f own, benign (insert_loop f sf t g0 g1 g2 hd k own).
  Proof.
    induction f as [|f IH]; intros own; cbn [insert_loop]; [bn|].
    apply benign_bind; [apply bn_search|]. intros [[[|] p]|]; try (solve [bn]).
    apply benign_bind; [apply bn_link_node|]. intros [b n]. cbn [fst snd]. destruct b; [bn|apply IH].
  Qed.
  Lemma bn_erase_loop sf t g0 g1 g2 hd k : forall f, benign (erase_loop f sf t g0 g1 g2 hd k).
  Proof.
    induction f as [|f IH]; cbn [erase_loop]; [bn|].
    apply benign_bind; [apply bn_search|]. intros [[[|] p]|]; try (solve [bn]).
    apply benign_bind; [apply bn_unlink_node|]. intros [|]; [bn|apply IH].
  Qed.

  Lemma bn_list_insert f t site aux k own fr : benign (list_insert f t site aux k own fr).
  Proof.
    unfold list_insert. destruct (alloc3 fr) as [[[g0 g1] g2] fr1].
    apply benign_bind; [apply bn_insert_loop|]. intros [b|]; [|bn]. apply benign_bind; [apply bn_free_guards|]. intros; bn.
  Qed.
  Lemma bn_list_erase f t site aux k fr : benign (list_erase f t site aux k fr).
  Proof.
    unfold list_erase. destruct (alloc3 fr) as [[[g0 g1] g2] fr1].
    apply benign_bind; [apply bn_erase_loop|]. intros [b|]; [|bn]. apply benign_bind; [apply bn_free_guards|]. intros; bn.
  Qed.
  Lemma bn_list_find f t site aux k fr : benign (list_find f t site aux k fr).
  Proof.
    unfold list_find. destruct (alloc3 fr) as [[[g0 g1] g2] fr1].
    apply benign_bind; [apply bn_search|]. intros [[b p]|]; [|bn]. apply benign_bind; [apply bn_free_guards|]. intros; bn.
  Qed.
  Lemma bn_fl_put f n : benign (fl_put f n).
  Proof.
    unfold fl_put. bn. generalize (vptr v0). induction f as [|f IH]; intros hp; cbn [fl_put_loop]; bn.
    destruct (vmark _); [bn|]. bn. apply IH.
  Qed.
  Lemma bn_inc_item_count : benign (inc_item_count cap).
  Proof.
    unfold inc_item_count. bn. destruct (_ || _); [bn|]. bn. destruct (Z.ltb _ _); [|bn]. destruct (Z.ltb _ _); bn.
  Qed.

  (** ** the bucket table *)
  Definition add_pub (l : L) (b : nat) : L := mkL (own l) (b :: pub l).

  (** reading a table entry: a non-null result is remembered; bucket 0 is never null *)
  Lemma safe_bucket t b l (Q : nat -> L -> Prop) :
    (forall p, (p = 0 -> b <> 0) -> Q p (if Nat.eqb p 0 then l else add_pub l b)) ->
    safe t (bucket b) l Q.
  Proof.
    intros HQ. unfold bucket. cbn [Conc.safe]. intros g A tr HI Hv.
    exists A. split; [eapply Inv_keeps with (f := a_ld_seg); [apply keeps_nop|exact HI]|]. split; [apply frame_refl|]. rewrite Hv. cbn [a_ld_seg a_nop fst snd].
    clear g A tr HI Hv. intros g A tr HI Hv. cbn [a_ld_tab fst snd vptr].
    destruct (Nat.eqb_spec (table g b) 0) as [Hz|Hnz].
    - exists A. split; [eapply Inv_trace; exact HI|]. split; [apply frame_refl|]. rewrite Hv. cbn.
      specialize (HQ (table g b)). rewrite Hz in *. cbn in HQ. apply HQ. intros _ ->. apply (i_zero HI). exact Hz.
    - exists (upd A t (add_pub l b)). split.
      + apply Inv_trace with (tr := tr). destruct HI. constructor; auto.
        * intros u n b' H. unfold upd in H. destruct (Nat.eqb_spec u t) as [->|]; [cbn in H; unfold view in Hv; rewrite <- Hv in H|]; eauto.
        * intros u b' H. unfold upd in H. destruct (Nat.eqb_spec u t) as [->|]; [|eauto]. cbn in H. destruct H as [<-|H]; [exact Hnz|].
          unfold view in Hv. rewrite <- Hv in H. eauto.
      + split; [apply frame_upd|]. rewrite view_upd_same. cbn. specialize (HQ (table g b)).
        destruct (Nat.eqb_spec (table g b) 0); [congruence|]. apply HQ. intros; congruence.
  Qed.

  (** publishing: the thread owns an aux node for [b] and knows the parent bucket published *)
  Lemma safe_set_bucket t b n l (Q : unit -> L -> Prop) :
    own l = Some (n, b) -> (b <> 0 -> In (parent_bucket b) (pub l)) ->
    Q tt (add_pub l b) -> safe t (set_bucket b n) l Q.
  Proof.
    intros Hown Hpar HQ. unfold set_bucket. cbn [Conc.safe]. intros g A tr HI Hv.
    exists A. split; [eapply Inv_keeps with (f := a_ld_seg); [apply keeps_nop|exact HI]|]. split; [apply frame_refl|]. rewrite Hv. cbn [a_ld_seg a_nop fst snd].
    clear g A tr HI Hv. intros g A tr HI Hv.
    exists A. split; [eapply Inv_keeps with (f := a_ld_seg); [apply keeps_nop|exact HI]|]. split; [apply frame_refl|]. rewrite Hv. cbn [a_ld_seg a_nop fst snd].
    clear g A tr HI Hv. intros g A tr HI Hv. cbn [a_st_tab fst snd].
    unfold view in Hv.
    destruct (i_own HI t) with (n := n) (b := b) as (Hn0 & Hnle & Hkey); [rewrite Hv; exact Hown|].
    exists (upd A t (add_pub l b)). split; [|split; [apply frame_upd|rewrite view_upd_same; exact HQ]].
    apply Inv_trace with (tr := tr).
    set (tab' := fun x => if Nat.eqb x b then n else table g x).
    assert (T1 : tab' b = n) by (unfold tab'; now rewrite Nat.eqb_refl).
    assert (T2 : forall x, x <> b -> tab' x = table g x) by (intros x Hx; unfold tab'; destruct (Nat.eqb_spec x b); congruence).
    assert (T3 : forall x, table g x <> 0 -> tab' x <> 0).
    { intros x Hx. destruct (Nat.eq_dec x b) as [->|Hne]; [rewrite T1; exact Hn0|rewrite T2; assumption]. }
    destruct HI. constructor; cbn [table heap nalloc]; fold tab'.
    - intros b' Hb'. destruct (Nat.eq_dec b' b) as [->|Hne]; [rewrite T1; split; assumption|].
      rewrite T2 in * by exact Hne. apply i_tab0; exact Hb'.
    - intros b' Hb' Hz. destruct (Nat.eq_dec b' b) as [->|Hne].
      + apply T3. apply (i_pub0 t). rewrite Hv. apply Hpar. exact Hz.
      + rewrite T2 in Hb' by exact Hne. apply T3. apply i_parent0; assumption.
    - apply T3. exact i_zero0.
    - intros u n' b' H. unfold upd in H. destruct (Nat.eqb_spec u t) as [->|]; [cbn in H; rewrite <- Hv in H|]; eauto.
    - intros u b' H. unfold upd in H. destruct (Nat.eqb_spec u t) as [->|]; [|apply T3; eauto]. cbn in H. destruct H as [<-|H]; [rewrite T1; exact Hn0|].
      rewrite <- Hv in H. apply T3. eauto.
  Qed.

  Lemma safe_wait_bucket t b : forall f l,
    safe t (wait_bucket f b) l (fun r l' => match r with None => True | Some _ => In b (pub l') end).
  Proof.
    induction f as [|f IH]; intros l; cbn [wait_bucket]; [exact I|].
    apply Conc.safe_bind. apply safe_bucket. intros p Hp.
    destruct (Nat.eqb_spec p 0); [apply IH|]. cbn. left; reflexivity.
  Qed.

  Definition QB (b : nat) : out (nat * list nat) -> L -> Prop :=
    fun r l' => match r with None => True | Some _ => In b (pub l') end.

  Lemma safe_init_bucket t : forall f depth b fr l, b <> 0 ->
    safe t (init_bucket cap f t depth b fr) l (QB b).
  Proof.
    induction f as [|f IH]; intros depth b fr l Hb; cbn [init_bucket]; [exact I|].
    apply Conc.safe_bind. apply safe_bucket. intros pp Hpp.
    apply Conc.safe_bind.
    (* the parent is published afterwards *)
    eapply Conc.safe_weaken with (Q := fun r l' => match r with None => True | Some _ => In (parent_bucket b) (pub l') end).
    2:{ destruct (Nat.eqb_spec pp 0) as [->|Hnz].
        - eapply Conc.safe_weaken; [|apply IH; apply Hpp; reflexivity]. intros [x|] l'; auto.
        - cbn. left; reflexivity. }
    intros [[pParent fr1]|] l1 H1; [|exact I].
    apply Conc.safe_bind. apply safe_bucket. intros pb Hpb.
    destruct (Nat.eqb_spec pb 0) as [->|Hnz]; cbn [negb].
    2:{ cbn. left; reflexivity. }
    (* allocate the aux node *)
    cbn [Conc.safe]. intros g A tr HI Hv.
    exists A. split; [eapply Inv_keeps with (f := a_ld_auxlist); [apply keeps_nop|exact HI]|]. split; [apply frame_refl|]. rewrite Hv. cbn [a_ld_auxlist a_nop fst snd].
    clear g A tr HI Hv. intros g A tr HI Hv.
    exists A. split; [eapply Inv_keeps; [apply keeps_ld_auxcnt|exact HI]|]. split; [apply frame_refl|]. rewrite Hv. cbn [a_ld_auxcnt fst snd].
    destruct (Z.ltb _ _); [|exact I].
    clear g A tr HI Hv. cbn [Conc.safe]. intros g A tr HI Hv.
    exists A. split; [eapply Inv_keeps; [apply keeps_faa_auxcnt|exact HI]|]. split; [apply frame_refl|]. rewrite Hv. cbn [a_faa_auxcnt fst snd].
    destruct (Z.ltb _ _); [|exact I].
    clear g A tr HI Hv. cbn [Conc.safe]. intros g A tr HI Hv. cbn [a_new_aux fst snd vptr].
    set (n := S (nalloc g)). set (l2 := mkL (Some (n, b)) (pub l1)).
    exists (upd A t l2). split.
    { assert (HI' : Inv (fst (fst (a_new_aux (dkey b) g))) A tr) by (eapply Inv_keeps; [apply keeps_new_aux|exact HI]).
      cbn [a_new_aux fst] in HI'. apply Inv_trace with (tr := tr). destruct HI'. constructor; auto.
      - intros u n' b' H. unfold upd in H. destruct (Nat.eqb_spec u t) as [->|]; [|eauto]. cbn in H. inversion H; subst n' b'.
        cbn [set_heap nalloc heap]. unfold n. repeat split; auto. unfold upd_heap. rewrite Nat.eqb_refl. reflexivity.
      - intros u b' H. unfold upd in H. destruct (Nat.eqb_spec u t) as [->|]; [|eauto]. cbn in H. unfold view in Hv. rewrite <- Hv in H. eauto. }
    split; [apply frame_upd|]. rewrite view_upd_same.
    apply safe_benign_bind; [apply bn_list_insert|]. intros [[[|] fr2]|]; [| |exact I].
    - apply Conc.safe_bind. apply safe_set_bucket; [reflexivity|intros _; exact H1|]. cbn. left; reflexivity.
    - apply safe_benign_bind; [apply bn_fl_put|]. intros [u|]; [|exact I].
      apply Conc.safe_bind. eapply Conc.safe_weaken; [|apply safe_wait_bucket]. intros [p|] l3 H3; [exact H3|exact I].
  Qed.

  Definition QT {R} : R -> L -> Prop := fun _ _ => True.

  Lemma safe_get_bucket t f h fr l : safe t (get_bucket cap f t h fr) l QT.
  Proof.
    unfold get_bucket. cbn [Conc.safe]. intros g A tr HI Hv.
    exists A. split; [eapply Inv_keeps; [apply keeps_ld_log2|exact HI]|]. split; [apply frame_refl|]. rewrite Hv. cbn [a_ld_log2 fst snd].
    apply Conc.safe_bind. apply safe_bucket. intros p Hp.
    destruct (Nat.eqb_spec p 0) as [->|Hnz]; [|exact I].
    eapply Conc.safe_weaken; [|apply safe_init_bucket; apply Hp; reflexivity]. intros; exact I.
  Qed.

  Lemma safe_any_benign {R} t (p : prog R) l : benign p -> safe t p l QT.
  Proof. intros H. eapply Conc.safe_weaken; [|apply safe_benign; exact H]. intros; exact I. Qed.

  Lemma safe_run_op t f o fr l : safe t (run_op cap hs f t o fr) l QT.
  Proof.
    unfold run_op. destruct o as [|code [|k [|x r]]]; try exact I.
    cbn [Conc.safe]. intros g A tr HI Hv. exists A. split; [eapply Inv_trace; exact HI|]. split; [apply frame_refl|]. rewrite Hv.
    apply Conc.safe_bind. eapply Conc.safe_weaken; [|apply safe_get_bucket].
    intros [[pHead fr1]|] l1 _; [|apply safe_any_benign; unfold give_up; bn].
    destruct (Z.eqb code 1).
    - apply safe_benign_bind; [apply bn_list_insert|]. intros [[[|] fr2]|]; try (solve [apply safe_any_benign; unfold give_up; bn]).
      apply safe_any_benign. apply benign_bind; [apply bn_inc_item_count|]. intros _. bn.
    - destruct (Z.eqb code 7).
      + apply safe_benign_bind; [apply bn_list_erase|]. intros [[[|] fr2]|]; try (solve [apply safe_any_benign; unfold give_up; bn]).
      + apply safe_benign_bind; [apply bn_list_find|]. intros [[b fr2]|]; apply safe_any_benign; unfold give_up; bn.
  Qed.

  Lemma safe_run_ops t f : forall os fr l, safe t (run_ops cap hs f t os fr) l QT.
  Proof.
    induction os as [|o r IH]; intros fr l; cbn [run_ops]; [exact I|].
    apply Conc.safe_bind. eapply Conc.safe_weaken; [|apply safe_run_op]. intros [fr'|] l' _; [apply IH|exact I].
  Qed.

  Lemma safe_thread t f os l : safe t (thread_prog cap hs f t os) l (@Conc.QTrue L).
  Proof.
    unfold thread_prog. cbn [Conc.safe]. intros g A tr HI Hv.
    exists A. split; [eapply Inv_keeps; [apply keeps_begin|exact HI]|]. split; [apply frame_refl|]. rewrite Hv.
    eapply Conc.safe_weaken; [|apply safe_run_ops]. intros; exact I.
  Qed.

  Lemma Inv_init : Inv init (fun _ => mkL None []) [].
  Proof.
    constructor; cbn.
    - intros b Hb. destruct (Nat.eq_dec b 0) as [E|E]; [subst b; cbn; split; [lia|reflexivity]|].
      exfalso. apply Hb. destruct (Nat.eqb_spec b 0); [congruence|reflexivity].
    - intros b Hb Hn. exfalso. apply Hb. destruct (Nat.eqb_spec b 0); [congruence|reflexivity].
    - discriminate.
    - intros t n b H. discriminate.
    - intros t b [].
  Qed.

  Lemma nth_thread_progs f : forall ths t0 t p,
    nth_error (thread_progs cap hs f t0 ths) t = Some p -> exists os, p = thread_prog cap hs f (t0 + t) os.
  Proof.
    induction ths as [|os r IH]; intros t0 t p H; cbn [thread_progs] in H.
    - destruct t; discriminate.
    - destruct t as [|t]; cbn in H.
      + inversion H; subst. exists os. rewrite Nat.add_0_r. reflexivity.
      + destruct (IH (S t0) t p H) as (os' & ->). exists os'. f_equal. lia.
  Qed.

  Lemma init_ok f ths : Conc.cfg_ok view Inv (init_cfg cap hs f ths).
  Proof.
    exists (fun _ => mkL None []). split; [exact Inv_init|].
    intros t p Hp. cbn [init_cfg Conc.threads] in Hp. destruct (nth_thread_progs _ _ _ _ Hp) as (os & ->). apply safe_thread.
  Qed.

  (** for every schedule: a published bucket pointer is an aux node with that bucket's dummy key, and the parent bucket of a
      published bucket is published *)
  Theorem split_table_reach f ths c :
    Conc.reach (init_cfg cap hs f ths) c ->
    forall b, table (Conc.shared c) b <> 0 ->
      nkey (heap (Conc.shared c) (table (Conc.shared c) b)) = dkey b /\
      table (Conc.shared c) b <= nalloc (Conc.shared c) /\
      (b <> 0 -> table (Conc.shared c) (parent_bucket b) <> 0).
  Proof.
    intros Hr b Hb. destruct (Conc.reach_Inv (init_ok f ths) Hr) as (A & HI).
    destruct (i_tab HI b Hb) as [H1 H2]. repeat split; auto. intros Hn. apply (i_parent HI); assumption.
  Qed.
End Inv.
