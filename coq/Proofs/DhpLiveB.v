(** * DhpLiveB: C02, second sentence for DHP.  Part B: a second summary of the trace (what each thread is doing:
      its current operation, the publish it announced, its last store to a hazard cell, its last load of a client
      source, whether it is inside smr::scan; and the content of the client sources), the invariant that ties it to
      the shared state, and generic proof rules for the nodes of the model programs that it cannot see. *)
From Coq Require Import ZArith NArith List String Bool Lia PeanoNat.
From LV Require Import Base.Conc Base.Events Model.DhpLang Model.Dhp Proofs.DhpBase Proofs.DhpHist
  Proofs.DhpLangProofs Proofs.DhpLiveA.
Import ListNotations.
Local Open Scope string_scope.
Local Open Scope list_scope.

(** ** events as this summary sees them *)
Inductive lev :=
| LOp (args : list Z) | LRet (args : list Z) | LSlotAcc | LSlot (s : gref) (x : nat) | LLd (k : nat) | LSt (k : nat)
| LScanb | LScane | LDisp | LNone.

Definition lcls (e : ev) : lev :=
  match e with
  | EvAcc KSt (1%Z :: _) _ => LSlotAcc
  | EvAcc KSt (2%Z :: _) _ => LSlotAcc
  | EvAcc KLd [7%Z; k] _ => LLd (Z.to_nat k)
  | EvAcc KSt [7%Z; k] _ => LSt (Z.to_nat k)
  | EvAcc _ _ _ => LNone
  | EvCli name args =>
      if String.eqb name "op" then LOp args
      else if String.eqb name "ret" then LRet args
      else match classify e with
           | HSlot s x => LSlot s x | HScanb _ => LScanb | HScane _ => LScane | HDispose _ => LDisp
           | _ => LNone
           end
  end.

Definition fnu {B} (f : nat -> B) (k : nat) (v : B) : nat -> B := fun x => if Nat.eqb x k then v else f x.
Lemma fnu_same {B} (f : nat -> B) k v : fnu f k v k = v.
Proof. unfold fnu. now rewrite Nat.eqb_refl. Qed.
Lemma fnu_other {B} (f : nat -> B) k v x : x <> k -> fnu f k v x = f x.
Proof. intros H. unfold fnu. destruct (Nat.eqb_spec x k); [contradiction|reflexivity]. Qed.

Record S := mkS {
  slen : nat;
  lop : nat -> list Z;                        (* arguments of the thread's last "op" event *)
  pend : nat -> option (nat * nat);           (* publish( k, q ) announced, store not yet done *)
  lsl : nat -> option (nat * gref * nat);     (* the "_slot" event of the thread's last store to a hazard cell, if it hit a cell *)
  lld : nat -> option (nat * nat * nat);      (* the thread's last load of a client source: index, source, value read *)
  lsc : nat -> option nat;                    (* inside smr::scan since *)
  sv : nat -> nat }.                          (* content of the client sources *)

Definition s0 : S := mkS 0 (fun _ => []) (fun _ => None) (fun _ => None) (fun _ => None) (fun _ => None) (fun _ => 0).

Definition pend_of (args : list Z) : option (nat * nat) :=
  match args with [8%Z; k; q] => Some (Z.to_nat k, Z.to_nat q) | _ => None end.

Definition sstep (st : S) (te : nat * ev) : S :=
  let t := fst te in
  let n := slen st in
  match lcls (snd te) with
  | LOp args => mkS (Datatypes.S n) (fnu (lop st) t args) (fnu (pend st) t (pend_of args)) (lsl st) (lld st) (lsc st) (sv st)
  | LSlotAcc => mkS (Datatypes.S n) (lop st) (pend st) (fnu (lsl st) t None) (lld st) (lsc st) (sv st)
  | LSlot s x => mkS (Datatypes.S n) (lop st) (pend st) (fnu (lsl st) t (Some (n, s, x))) (lld st) (lsc st) (sv st)
  | LLd k => mkS (Datatypes.S n) (lop st) (pend st) (lsl st) (fnu (lld st) t (Some (n, k, sv st k))) (lsc st) (sv st)
  | LSt k =>
      match pend st t with
      | Some (k', q) =>
          if Nat.eqb k k' then mkS (Datatypes.S n) (lop st) (fnu (pend st) t None) (lsl st) (lld st) (lsc st) (fnu (sv st) k q)
          else mkS (Datatypes.S n) (lop st) (pend st) (lsl st) (lld st) (lsc st) (sv st)
      | None => mkS (Datatypes.S n) (lop st) (pend st) (lsl st) (lld st) (lsc st) (sv st)
      end
  | LScanb => mkS (Datatypes.S n) (lop st) (pend st) (lsl st) (lld st) (fnu (lsc st) t (Some n)) (sv st)
  | LScane => mkS (Datatypes.S n) (lop st) (pend st) (lsl st) (lld st) (fnu (lsc st) t None) (sv st)
  | LRet _ | LDisp | LNone => mkS (Datatypes.S n) (lop st) (pend st) (lsl st) (lld st) (lsc st) (sv st)
  end.

Definition sfold (tr : list (nat * ev)) : S := fold_left sstep tr s0.

Lemma sfold_app tr tr' : sfold (tr ++ tr') = fold_left sstep tr' (sfold tr).
Proof. unfold sfold. apply fold_left_app. Qed.
Lemma sfold_snoc tr e : sfold (tr ++ [e]) = sstep (sfold tr) e.
Proof. now rewrite sfold_app. Qed.
Lemma slen_sstep st e : slen (sstep st e) = Datatypes.S (slen st).
Proof.
  unfold sstep. destruct (lcls (snd e)); try reflexivity.
  destruct (pend st (fst e)) as [[k' q]|]; [destruct (Nat.eqb k k')|]; reflexivity.
Qed.
Lemma slen_sfold tr : slen (sfold tr) = List.length tr.
Proof.
  induction tr as [|e tr IH] using rev_ind; [reflexivity|]. rewrite sfold_snoc, slen_sstep, IH, app_length. cbn. lia.
Qed.
Lemma sfold_firstn_S tr i te : nth_error tr i = Some te -> sfold (firstn (Datatypes.S i) tr) = sstep (sfold (firstn i tr)) te.
Proof. intros H. rewrite (firstn_S_snoc tr i te H). apply sfold_snoc. Qed.
Lemma slen_firstn tr i : i <= List.length tr -> slen (sfold (firstn i tr)) = i.
Proof. intros H. rewrite slen_sfold, firstn_length. lia. Qed.

(** ** the per-thread part *)
Record VL := mkVL {
  v_op : list Z; v_pend : option (nat * nat); v_sl : option (nat * gref * nat); v_ld : option (nat * nat * nat);
  v_sc : option nat }.
Definition viewL (a : S) (t : nat) : VL := mkVL (lop a t) (pend a t) (lsl a t) (lld a t) (lsc a t).

Lemma view_sstep_other st t e t' : t' <> t -> viewL (sstep st (t, e)) t' = viewL st t'.
Proof.
  intros N. unfold sstep, viewL. cbn [fst snd].
  destruct (lcls e); cbn; rewrite ?fnu_other by exact N; try reflexivity.
  destruct (pend st t) as [[k' q]|]; [destruct (Nat.eqb k k')|]; cbn; rewrite ?fnu_other by exact N; reflexivity.
Qed.
Lemma view_fold_other t es t' : t' <> t -> forall st, viewL (fold_left sstep (Conc.tag t es) st) t' = viewL st t'.
Proof.
  intros N. induction es as [|e es IH]; intros st; [reflexivity|].
  change (Conc.tag t (e :: es)) with ((t, e) :: Conc.tag t es). cbn [fold_left]. rewrite IH. now apply view_sstep_other.
Qed.

(** ** events of three kinds: [inert] change nothing; [libev] may change the last-store / last-load fields of the
       thread; the others are handled one by one *)
Definition inertb (e : ev) : bool := match lcls e with LRet _ | LDisp | LNone => true | _ => false end.
Definition libevb (e : ev) : bool := match lcls e with LNone | LSlotAcc | LSlot _ _ | LLd _ => true | _ => false end.

Definition same_but_len (a a' : S) : Prop :=
  lop a' = lop a /\ pend a' = pend a /\ lsl a' = lsl a /\ lld a' = lld a /\ lsc a' = lsc a /\ sv a' = sv a.

Lemma inert_sstep st t e : inertb e = true -> same_but_len st (sstep st (t, e)).
Proof. unfold inertb, sstep, same_but_len. cbn [snd]. destruct (lcls e); try discriminate; intros _; cbn; repeat split; reflexivity. Qed.
Lemma inert_fold t es : Forall (fun e => inertb e = true) es -> forall st, same_but_len st (fold_left sstep (Conc.tag t es) st).
Proof.
  induction es as [|e es IH]; intros Hq st; [cbn; unfold same_but_len; repeat split; reflexivity|].
  change (Conc.tag t (e :: es)) with ((t, e) :: Conc.tag t es). cbn [fold_left].
  inversion Hq; subst. destruct (inert_sstep st t e H1) as (A1&A2&A3&A4&A5&A6).
  destruct (IH H2 (sstep st (t, e))) as (B1&B2&B3&B4&B5&B6). unfold same_but_len. repeat split; congruence.
Qed.

Definition lib_rel (a a' : S) : Prop := lop a' = lop a /\ pend a' = pend a /\ lsc a' = lsc a /\ sv a' = sv a.
Lemma lib_sstep st t e : libevb e = true -> lib_rel st (sstep st (t, e)).
Proof. unfold libevb, sstep, lib_rel. cbn [snd]. destruct (lcls e); try discriminate; intros _; cbn; repeat split; reflexivity. Qed.
Lemma lib_fold t es : Forall (fun e => libevb e = true) es -> forall st, lib_rel st (fold_left sstep (Conc.tag t es) st).
Proof.
  induction es as [|e es IH]; intros Hq st; [cbn; unfold lib_rel; repeat split; reflexivity|].
  change (Conc.tag t (e :: es)) with ((t, e) :: Conc.tag t es). cbn [fold_left].
  inversion Hq; subst. destruct (lib_sstep st t e H1) as (A1&A2&A3&A4).
  destruct (IH H2 (sstep st (t, e))) as (B1&B2&B3&B4). unfold lib_rel. repeat split; congruence.
Qed.

(** ** properties of a trace of the form "every event, given the summary of what precedes it" *)
Definition TProp (Phi : S -> nat -> ev -> Prop) (tr : list (nat * ev)) : Prop :=
  forall v t e, nth_error tr v = Some (t, e) -> Phi (sfold (firstn v tr)) t e.

Lemma firstn_app_le {A} (l l' : list A) n : n <= List.length l -> firstn n (l ++ l') = firstn n l.
Proof. intros H. rewrite firstn_app. replace (n - List.length l) with 0 by lia. now rewrite firstn_O, app_nil_r. Qed.
Lemma firstn_app_ge {A} (l l' : list A) n : List.length l <= n -> firstn n (l ++ l') = l ++ firstn (n - List.length l) l'.
Proof. intros H. rewrite firstn_app. now rewrite firstn_all2 by exact H. Qed.

Lemma TProp_app Phi tr es : TProp Phi tr ->
  (forall i t e, nth_error es i = Some (t, e) -> Phi (sfold (tr ++ firstn i es)) t e) -> TProp Phi (tr ++ es).
Proof.
  intros H1 H2 v t e Hn. destruct (Nat.lt_ge_cases v (List.length tr)) as [L|L].
  - rewrite nth_error_app1 in Hn by exact L. rewrite firstn_app_le by lia. now apply H1.
  - rewrite nth_error_app2 in Hn by exact L. rewrite firstn_app_ge by exact L. now apply H2.
Qed.

(** what a "ret" event of a protect operation and a disposer call say about the summary before them *)
Definition PhiP (st : S) (t : nat) (e : ev) : Prop :=
  forall z, lcls e = LRet [z] -> forall j k, lop st t = [7%Z; j; k] -> Z.to_nat z <> 0 ->
    exists w, lld st t = Some (w, Z.to_nat k, Z.to_nat z) /\
      forall g0 s x, lsl st t = Some (g0, s, x) -> x = Z.to_nat z /\ g0 < w.
Definition PhiD (st : S) (t : nat) (e : ev) : Prop := lcls e = LDisp -> lsc st t <> None.
Definition PhiA (st : S) (t : nat) (e : ev) : Prop := PhiP st t e /\ PhiD st t e.

Definition SrcOK (g : G) (a : S) : Prop := forall k, k < List.length (srcs g) -> nth k (srcs g) 0 = sv a k.

Definition InvL (g : G) (a : S) (tr : list (nat * ev)) : Prop := a = sfold tr /\ SrcOK g a /\ TProp PhiA tr.

Notation dsafeL := (@dsafe G ev S VL viewL InvL).

Lemma frame_fold t es a : Conc.frame viewL t a (fold_left sstep (Conc.tag t es) a).
Proof. intros t' N. now apply view_fold_other. Qed.

Lemma nth_tag t (es : list ev) i u e : nth_error (Conc.tag t es) i = Some (u, e) -> u = t /\ nth_error es i = Some e.
Proof.
  unfold Conc.tag. rewrite nth_error_map. destruct (nth_error es i); cbn; intros H; inversion H; auto.
Qed.
Lemma firstn_tag t (es : list ev) i : firstn i (Conc.tag t es) = Conc.tag t (firstn i es).
Proof. unfold Conc.tag. apply firstn_map. Qed.

(** events that are neither "ret" nor disposer calls keep the trace property *)
Definition plainb (e : ev) : bool := match lcls e with LRet _ | LDisp => false | _ => true end.
Lemma TProp_plain tr t es : TProp PhiA tr -> Forall (fun e => plainb e = true) es -> TProp PhiA (tr ++ Conc.tag t es).
Proof.
  intros H Hq. apply TProp_app; [exact H|]. intros i u e Hn. apply nth_tag in Hn. destruct Hn as (-> & Hn).
  apply nth_error_In in Hn. rewrite Forall_forall in Hq. specialize (Hq e Hn). unfold plainb in Hq.
  split; [intros z E; rewrite E in Hq; discriminate|intros E; rewrite E in Hq; discriminate].
Qed.
Lemma libev_plain e : libevb e = true -> plainb e = true.
Proof. unfold libevb, plainb. destruct (lcls e); auto. Qed.

(** ** the generic node rules: the new auxiliary state is forced, the frame condition is free *)
Lemma dsafeL_act {X R} t (f : A X) (k : X -> @dprog G ev R) l Q :
  (forall g a tr, InvL g a tr -> viewL a t = l ->
     InvL (fst (fst (f g))) (fold_left sstep (Conc.tag t (snd (f g))) a) (tr ++ Conc.tag t (snd (f g))) /\
     dsafeL t (k (snd (fst (f g)))) (viewL (fold_left sstep (Conc.tag t (snd (f g))) a) t) Q) ->
  dsafeL t (DAct f k) l Q.
Proof.
  intros H. cbn [dsafe]. intros g a tr Hi Hv. destruct (H g a tr Hi Hv) as (H1 & H2).
  exists (fold_left sstep (Conc.tag t (snd (f g))) a). split; [exact H1|]. split; [apply frame_fold|exact H2].
Qed.
Lemma dsafeL_emit {R} t es (k : @dprog G ev R) l Q :
  (forall g a tr, InvL g a tr -> viewL a t = l ->
     InvL g (fold_left sstep (Conc.tag t es) a) (tr ++ Conc.tag t es) /\
     dsafeL t k (viewL (fold_left sstep (Conc.tag t es) a) t) Q) ->
  dsafeL t (DEmit es k) l Q.
Proof.
  intros H. cbn [dsafe]. intros g a tr Hi Hv. destruct (H g a tr Hi Hv) as (H1 & H2).
  exists (fold_left sstep (Conc.tag t es) a). split; [exact H1|]. split; [apply frame_fold|exact H2].
Qed.
Lemma dsafeL_loc {X R} t (f : G -> G * X) (k : X -> @dprog G ev R) l Q :
  (forall g, srcs (fst (f g)) = srcs g) -> (forall x, dsafeL t (k x) l Q) -> dsafeL t (DLoc f k) l Q.
Proof.
  intros Hf Hk. cbn [dsafe]. intros g a tr (E & Hs & Ht) Hv. exists a. split; [|split; [apply frame_refl|rewrite Hv; apply Hk]].
  split; [exact E|]. split; [|exact Ht]. unfold SrcOK. rewrite Hf. exact Hs.
Qed.

Lemma InvL_lib g g' a tr t es : InvL g a tr -> srcs g' = srcs g -> Forall (fun e => libevb e = true) es ->
  InvL g' (fold_left sstep (Conc.tag t es) a) (tr ++ Conc.tag t es).
Proof.
  intros (E & Hs & Ht) Hg Hq. split; [rewrite sfold_app; now subst a|]. split.
  - destruct (lib_fold t es Hq a) as (_&_&_&B). unfold SrcOK. rewrite Hg, B. exact Hs.
  - apply TProp_plain; [exact Ht|]. eapply Forall_impl; [|exact Hq]. intros e. apply libev_plain.
Qed.

(** ** programs built from library nodes: the thread's current operation (and, in the strict variant, its scan
       status) is the same afterwards *)
Definition Rw (l l' : VL) : Prop := v_op l' = v_op l.
Definition Rs (l l' : VL) : Prop := v_op l' = v_op l /\ v_pend l' = v_pend l /\ v_sc l' = v_sc l.

Section Lib.
  Variable Rl : VL -> VL -> Prop.
  Hypothesis Rl_refl : forall l, Rl l l.
  Hypothesis Rl_trans : forall l1 l2 l3, Rl l1 l2 -> Rl l2 l3 -> Rl l1 l3.
  Hypothesis Rl_lib : forall l l', Rs l l' -> Rl l l'.

  Definition LibG {R} (p : @dprog G ev R) : Prop := forall t l, dsafeL t p l (fun _ l' => Rl l l').

  Lemma Rs_fold t es a : Forall (fun e => libevb e = true) es -> Rs (viewL a t) (viewL (fold_left sstep (Conc.tag t es) a) t).
  Proof. intros Hq. destruct (lib_fold t es Hq a) as (B1&B2&B3&_). unfold Rs, viewL. cbn. now rewrite B1, B2, B3. Qed.

  Lemma LibG_ret {X} (x : X) : LibG (ret x).
  Proof. intros t l. cbn. apply Rl_refl. Qed.
  Lemma LibG_dret {X} (x : X) : LibG (@DRet G ev X x).
  Proof. intros t l. cbn. apply Rl_refl. Qed.
  Lemma LibG_dbind {X Y} (p : @dprog G ev X) (q : X -> @dprog G ev Y) : LibG p -> (forall x, LibG (q x)) -> LibG (dbind p q).
  Proof.
    intros Hp Hq t l. apply dsafe_bind. eapply dsafe_weaken; [|apply Hp]. intros x l1 K. cbn beta in K.
    eapply dsafe_weaken; [|apply Hq]. intros y l2 K2. cbn beta in K2. eapply Rl_trans; eauto.
  Qed.
  Lemma LibG_xbind {X Y} (p : P X) (q : X -> P Y) : LibG p -> (forall x, LibG (q x)) -> LibG (xbind p q).
  Proof. intros Hp Hq. unfold xbind. apply LibG_dbind; auto. intros [x|]; [apply Hq|apply LibG_dret]. Qed.
  Lemma LibG_act {X} (f : A X) : (forall g, srcs (fst (fst (f g))) = srcs g /\ Forall (fun e => libevb e = true) (snd (f g))) -> LibG (act f).
  Proof.
    intros Hf t l. unfold act. apply dsafeL_act. intros g a tr Hi Hv. destruct (Hf g) as (H1 & H2).
    split; [eapply InvL_lib; eauto|]. cbn. apply Rl_lib. rewrite <- Hv. now apply Rs_fold.
  Qed.
  Lemma LibG_emit es : Forall (fun e => libevb e = true) es -> LibG (emit es).
  Proof.
    intros Hq t l. unfold emit. apply dsafeL_emit. intros g a tr Hi Hv.
    split; [eapply InvL_lib; eauto|]. cbn. apply Rl_lib. rewrite <- Hv. now apply Rs_fold.
  Qed.
  Lemma LibG_loc {X} (f : G -> G * X) : (forall g, srcs (fst (f g)) = srcs g) -> LibG (loc f).
  Proof. intros Hf t l. unfold loc. apply dsafeL_loc; [exact Hf|]. intros x. cbn. apply Rl_refl. Qed.
  Lemma LibG_fuel_out {X} : LibG (@fuel_out X).
  Proof.
    intros t l. unfold fuel_out. apply dsafeL_emit. intros g a tr Hi Hv.
    assert (Hq : Forall (fun e => libevb e = true) [EvCli "outoffuel" []]) by (repeat constructor).
    split; [eapply InvL_lib; eauto|]. cbn [dsafe]. apply Rl_lib. rewrite <- Hv. now apply Rs_fold.
  Qed.
End Lib.

Lemma Rw_refl l : Rw l l. Proof. reflexivity. Qed.
Lemma Rw_trans l1 l2 l3 : Rw l1 l2 -> Rw l2 l3 -> Rw l1 l3. Proof. unfold Rw. congruence. Qed.
Lemma Rw_lib l l' : Rs l l' -> Rw l l'. Proof. intros (H&_). exact H. Qed.
Lemma Rs_refl l : Rs l l. Proof. unfold Rs. auto. Qed.
Lemma Rs_trans l1 l2 l3 : Rs l1 l2 -> Rs l2 l3 -> Rs l1 l3. Proof. unfold Rs. intros (A&B&C) (D&E&F). repeat split; congruence. Qed.

Lemma LibG_weaken {R} (p : @dprog G ev R) : LibG Rs p -> LibG Rw p.
Proof. intros H t l. eapply dsafe_weaken; [|apply H]. intros r l' K. now apply Rw_lib. Qed.

(** ** the atomic accesses and ghost events of the library *)
Ltac srcs_tac := intros; unfold upd_rec, upd_gb, upd_rb, fl_set_head, fl_set_refs, fl_set_next, slot_set, snext_set,
  upd_rec, upd_gb, upd_rb, set_hp_head, set_rt_head, set_recs, set_gbs, set_rbs, set_tlist, set_oob; cbn;
  repeat match goal with |- context [match ?x with _ => _ end] => destruct x; cbn end; try reflexivity.

Ltac libacc := intros g; cbn;
  repeat match goal with |- context [if ?b then _ else _] => destruct b; cbn end;
  (split; [srcs_tac|repeat constructor]).

Notation libA f := (forall g, srcs (fst (fst (f g))) = srcs g /\ Forall (fun e => libevb e = true) (snd (f g))).

Lemma l_begin : libA a_begin. Proof. libacc. Qed.
Lemma l_ld_tlist : libA a_ld_tlist. Proof. libacc. Qed.
Lemma l_st_tlist v : libA (a_st_tlist v). Proof. libacc. Qed.
Lemma l_cas_tlist e n : libA (a_cas_tlist e n). Proof. intros g. unfold a_cas_tlist. destruct (oeqb _ _); cbn; (split; [reflexivity|repeat constructor]). Qed.
Lemma l_ld_tid r : libA (a_ld_tid r). Proof. libacc. Qed.
Lemma l_st_tid r v : libA (a_st_tid r v). Proof. libacc. Qed.
Lemma l_cas_tid r e n : libA (a_cas_tid r e n). Proof. intros g. unfold a_cas_tid. destruct (Nat.eqb _ _); cbn; (split; [reflexivity|repeat constructor]). Qed.
Lemma l_ld_free r : libA (a_ld_free r). Proof. libacc. Qed.
Lemma l_st_free r v : libA (a_st_free r v). Proof. libacc. Qed.
Lemma l_faa_sync r : libA (a_faa_sync r). Proof. libacc. Qed.
Lemma l_ld_ext r : libA (a_ld_ext r). Proof. libacc. Qed.
Lemma l_st_ext r v : libA (a_st_ext r v). Proof. libacc. Qed.
Lemma l_ld_slot s : libA (a_ld_slot s). Proof. intros g. destruct s; cbn; (split; [reflexivity|repeat constructor]). Qed.
Lemma l_ld_src k : libA (a_ld_src k). Proof. libacc. Qed.
Lemma l_ld_head f : libA (a_ld_head f). Proof. intros g. destruct f; cbn; (split; [reflexivity|repeat constructor]). Qed.
Lemma l_cas_head f e n : libA (a_cas_head f e n).
Proof. intros g. unfold a_cas_head. destruct (oeqb _ _); destruct f; cbn; (split; [reflexivity|repeat constructor]). Qed.
Lemma l_ld_refs f n : libA (a_ld_refs f n). Proof. intros g. destruct f; cbn; (split; [reflexivity|repeat constructor]). Qed.
Lemma l_st_refs f n v : libA (a_st_refs f n v). Proof. intros g. destruct f; cbn; (split; [reflexivity|repeat constructor]). Qed.
Lemma l_cas_refs f n e v : libA (a_cas_refs f n e v).
Proof. intros g. unfold a_cas_refs. destruct (N.eqb _ _); destruct f; cbn; (split; [reflexivity|repeat constructor]). Qed.
Lemma l_faa_refs f n d : libA (a_faa_refs f n d). Proof. intros g. destruct f; cbn; (split; [reflexivity|repeat constructor]). Qed.
Lemma l_fas_refs f n d : libA (a_fas_refs f n d). Proof. intros g. destruct f; cbn; (split; [reflexivity|repeat constructor]). Qed.
Lemma l_ld_flnext f n : libA (a_ld_flnext f n). Proof. intros g. destruct f; cbn; (split; [reflexivity|repeat constructor]). Qed.
Lemma l_st_flnext f n v : libA (a_st_flnext f n v). Proof. intros g. destruct f; cbn; (split; [reflexivity|repeat constructor]). Qed.

Lemma lcls_slot s v : lcls (ev_slot s v) = LSlot s v.
Proof. unfold lcls. change (ev_slot s v) with (EvCli "_slot" (gref_z s ++ [zn v])) at 1. cbn [String.eqb Ascii.eqb Bool.eqb]. now rewrite classify_slot. Qed.
Lemma libev_slot s v : libevb (ev_slot s v) = true.
Proof. unfold libevb. now rewrite lcls_slot. Qed.
Lemma lcls_acc_slot s : lcls (EvAcc KSt (obj_slot s) true) = LSlotAcc.
Proof. destruct s; reflexivity. Qed.

Lemma l_st_slot s v : libA (a_st_slot s v).
Proof.
  intros g. unfold a_st_slot. cbn [fst snd]. split; [destruct s; reflexivity|].
  unfold acc. cbn [app]. constructor; [unfold libevb; now rewrite lcls_acc_slot|].
  destruct (slot_valid g s); [constructor; [apply libev_slot|constructor]|constructor].
Qed.
Lemma l_st_ext_g r v b : libA (a_st_ext_g r v [ev_link r b]).
Proof. intros g. cbn. split; [reflexivity|repeat constructor]. Qed.

Lemma libev_alloc f b : libevb (ev_alloc f b) = true. Proof. destruct f; reflexivity. Qed.
Lemma libev_new f b : libevb (ev_new f b) = true. Proof. destruct f; reflexivity. Qed.
Lemma libev_free f b : libevb (ev_free f b) = true. Proof. destruct f; reflexivity. Qed.
Lemma libev_own s : libevb (ev_own s) = true. Proof. destruct s; reflexivity. Qed.
Lemma libev_rel s : libevb (ev_rel s) = true. Proof. destruct s; reflexivity. Qed.
Lemma libev_relall : libevb ev_relall = true. Proof. reflexivity. Qed.
Lemma libev_att r : libevb (ev_att r) = true. Proof. reflexivity. Qed.
Lemma libev_det r : libevb (ev_det r) = true. Proof. reflexivity. Qed.
Lemma libev_skip : libevb (EvCli "skip" []) = true. Proof. reflexivity. Qed.
Lemma libev_err : libevb (EvCli "modelerror" []) = true. Proof. reflexivity. Qed.

#[export] Hint Resolve l_begin l_ld_tlist l_st_tlist l_cas_tlist l_ld_tid l_st_tid l_cas_tid l_ld_free l_st_free l_faa_sync l_ld_ext
  l_st_ext l_ld_slot l_ld_src l_ld_head l_cas_head l_ld_refs l_st_refs l_cas_refs l_faa_refs l_fas_refs l_ld_flnext l_st_flnext
  l_st_slot l_st_ext_g : ldb.
#[export] Hint Resolve libev_alloc libev_new libev_free libev_own libev_rel libev_relall libev_att libev_det libev_skip libev_err
  libev_slot : ldb.
