(** * SegmentedQueue: every operation's program preserves the invariant ([Conc.safe]), for every schedule. *)
From Coq Require Import ZArith List String Bool Lia PeanoNat.
From LV Require Import Base.Conc Base.Events Model.Segmented Proofs.SegmentedBase Proofs.SegmentedSteps.
Import ListNotations.
Local Open Scope string_scope.
Local Open Scope list_scope.

Section Safe.
  Variable qf : nat.

  Notation safe := (@Conc.safe G V ev Aux view aview (Inv qf)).

  Lemma tag1 t (e : ev) : Conc.tag t [e] = [(t, e)].
  Proof. reflexivity. Qed.

  (** an access that leaves the core state and the view alone *)
  Definition silent_act (t : nat) (f : act) : Prop :=
    forall g, same_core g (fst (fst (f g))) /\
              (forall t', t' <> t -> hp (fst (fst (f g))) t' 0 = hp g t' 0) /\
              exists k o b, snd (f g) = [EvAcc k o b].

  Lemma safe_silent {R} t (f : act) (k : V -> prog R) l Q :
    silent_act t f ->
    ((forall g, hp (fst (fst (f g))) t 0 = hp g t 0) \/ hp0_free (v_ph l)) ->
    (forall v, safe t (k v) l Q) ->
    safe t (Act f k) l Q.
  Proof.
    intros Hs Hhp Hk. cbn [Conc.safe]. intros g a tr HI Hv. unfold aview in Hv.
    destruct (Hs g) as (Hc & Ho & kd & o & b & He).
    exists (upd a t (a t)). split; [|split; [apply frame_upd|]].
    - rewrite He, tag1. apply (Inv_silent qf g); auto. destruct Hhp as [H|H]; [left; apply H|right; now rewrite Hv].
    - rewrite aview_upd_same, Hv. apply Hk.
  Qed.

  Lemma same_core_refl g : same_core g g.
  Proof. repeat split; auto. Qed.

  Lemma silent_st_hp t j h : silent_act t (a_st_hp t j h).
  Proof.
    intros g. cbn. split; [repeat split; auto; intros s i; reflexivity|]. split; [|eauto].
    intros t' N. destruct (Nat.eqb_spec t' t); [contradiction|reflexivity].
  Qed.
  Lemma silent_faa_sync t : silent_act t (a_faa_sync t).
  Proof. intros g. cbn. split; [apply same_core_refl|]. split; eauto. Qed.
  Lemma silent_faa_cnt t : silent_act t a_faa_cnt.
  Proof. intros g. cbn. split; [repeat split; auto; intros s i; reflexivity|]. split; eauto. Qed.
  Lemma silent_fas_cnt t : silent_act t a_fas_cnt.
  Proof. intros g. cbn. split; [repeat split; auto; intros s i; reflexivity|]. split; eauto. Qed.
  Lemma silent_ld_ret t s : silent_act t (a_ld_ret t s).
  Proof. intros g. cbn. split; [repeat split; auto; intros s' i; reflexivity|]. split; eauto. Qed.
  Lemma silent_st_ret t : silent_act t (a_st_ret t).
  Proof. intros g. cbn. split; [apply same_core_refl|]. split; eauto. Qed.
  Lemma silent_lock_ld t : silent_act t a_lock_ld.
  Proof. intros g. cbn. split; [apply same_core_refl|]. split; eauto. Qed.
  Lemma silent_begin t : silent_act t a_begin.
  Proof. intros g. cbn. split; [apply same_core_refl|]. split; eauto. Qed.

  Lemma hp_st_other g t j h : j <> 0 -> hp (set_hp g t j h) t 0 = hp g t 0.
  Proof. intros N. cbn. rewrite Nat.eqb_refl. destruct j; [contradiction|reflexivity]. Qed.

  (** guard.assign on slot 1, or on slot 0 while the view does not mention slot 0 *)
  Lemma safe_st_hp1 {R} t h (k : V -> prog R) l Q :
    (forall v, safe t (k v) l Q) -> safe t (Act (a_st_hp t 1 h) k) l Q.
  Proof. intros H. apply safe_silent; auto using silent_st_hp. left. intros g. apply hp_st_other. discriminate. Qed.

  Lemma safe_st_hp_free {R} t j h (k : V -> prog R) l Q :
    hp0_free (v_ph l) -> (forall v, safe t (k v) l Q) -> safe t (Act (a_st_hp t j h) k) l Q.
  Proof. intros F H. apply safe_silent; auto using silent_st_hp. Qed.

  Lemma safe_faa_sync {R} t (k : V -> prog R) l Q :
    (forall v, safe t (k v) l Q) -> safe t (Act (a_faa_sync t) k) l Q.
  Proof. intros H. apply safe_silent; auto using silent_faa_sync. Qed.

  (** ** spin_lock::lock() *)
  Definition Qlock (idx : nat) (ph : phase) : option (list nat * nat) -> view -> Prop :=
    fun r vw => match r with None => True | Some ln => vw = mkV false idx (Some ln) ph end.

  Lemma safe_lock_loops fuel : forall t idx ph,
    safe t (lock_outer fuel) (mkV false idx None ph) (Qlock idx ph) /\
    safe t (lock_inner fuel) (mkV false idx None ph) (Qlock idx ph).
  Proof.
    induction fuel as [|f IH]; intros t idx ph; split; cbn [lock_outer lock_inner]; try exact I.
    - cbn [Conc.safe]. intros g a tr HI Hv. unfold aview in Hv. cbn [a_lock_xchg fst snd]. rewrite tag1.
      destruct (lockw g) eqn:Hw.
      + exists (upd a t (a t)). split; [|split; [apply frame_upd|]].
        * apply (Inv_silent qf g); auto.
          repeat split; auto.
        * rewrite aview_upd_same, Hv. apply IH.
      + exists (upd a t (mkV false (v_idx (a t)) (Some (slist g, nalloc g)) (v_ph (a t)))). split; [|split; [apply frame_upd|]].
        * apply Inv_lock_step; auto. discriminate.
        * rewrite aview_upd_same, Hv. cbn. reflexivity.
    - apply safe_silent; auto using silent_lock_ld.
      intros v. destruct v as [| | | | |[|] ? ?]; apply IH.
  Qed.

  (** ** enqueue *)
  Lemma PH_enq_sg g tr t idx x lb sg vis sg' :
    PH g tr t idx (PEnq x lb sg vis false) -> (forall s, sg' = Some s -> s < nalloc g) ->
    PH g tr t idx (PEnq x lb sg' [] false).
  Proof.
    cbn. intros (P1 & P2 & P3 & P4 & P5 & P6 & P7) H. repeat split; auto.
  Qed.

  Ltac use_view K Hv := rewrite ?Hv in K; cbn [v_hd v_idx v_lock v_ph set_hp0] in K.

  (** a load of m_pTail: the enqueuer now knows a segment that exists *)
  Lemma safe_ld_tail {R} t hd idx lk x lb sg vis (k : V -> prog R) Q :
    (forall p, safe t (k (VS p)) (mkV hd idx lk (PEnq x lb p [] false)) Q) ->
    safe t (Act a_ld_tail k) (mkV hd idx lk (PEnq x lb sg vis false)) Q.
  Proof.
    intros Hk. cbn [Conc.safe]. intros g a tr HI Hv. unfold aview in Hv. cbn [a_ld_tail fst snd]. rewrite tag1.
    exists (upd a t (mkV hd idx lk (PEnq x lb (tailp g) [] false))). split; [|split; [apply frame_upd|]].
    - pose proof (Inv_view qf g a tr t g KLd obj_tail true (PEnq x lb (tailp g) [] false) HI) as K.
      use_view K Hv. apply K; clear K.
      + repeat split; auto.
      + auto.
      + discriminate.
      + pose proof (PH_own_acc qf g a tr t g KLd obj_tail true HI) as P. use_view P Hv.
        eapply PH_enq_sg; [apply P; [repeat split; auto|discriminate]|].
        apply (si_tail _ _ (inv_si _ _ _ _ HI)).
      + apply taker_iff_ph; [discriminate|cbn; discriminate].
    - rewrite aview_upd_same. apply Hk.
  Qed.

  Definition Qprot_enq hd idx lk x lb : option (option nat) -> view -> Prop :=
    fun r vw => match r with None => True | Some p => vw = mkV hd idx lk (PEnq x lb p [] false) end.

  Lemma safe_protect_tail_loop fuel t hd idx lk x lb : forall pcur sg,
    safe t (protect_loop fuel a_ld_tail t 0 pcur) (mkV hd idx lk (PEnq x lb sg [] false)) (Qprot_enq hd idx lk x lb).
  Proof.
    induction fuel as [|f IH]; intros pcur sg; cbn [protect_loop]; [exact I|].
    apply safe_st_hp_free; [exact I|]. intros _. apply safe_faa_sync. intros _.
    apply safe_ld_tail. intros p. cbn [seg_of]. destruct (optnat_eqb pcur p); [reflexivity|apply IH].
  Qed.

  Lemma safe_protect_tail fuel t hd idx lk x lb sg vis :
    safe t (protect fuel a_ld_tail t 0) (mkV hd idx lk (PEnq x lb sg vis false)) (Qprot_enq hd idx lk x lb).
  Proof. unfold protect. apply safe_ld_tail. intros p. apply safe_protect_tail_loop. Qed.
End Safe.
