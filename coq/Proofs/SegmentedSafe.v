(** * SegmentedQueue: every operation's program preserves the invariant ([Conc.safe]), for every schedule. *)
From Coq Require Import ZArith List String Bool Lia PeanoNat.
From LV Require Import Base.Conc Base.Events Model.Segmented Proofs.SegmentedBase Proofs.SegmentedSteps.
Import ListNotations.
Local Open Scope string_scope.
Local Open Scope list_scope.

Section Safe.
  Variable qf : nat.

  Notation safe := (@Conc.safe G V ev Aux view aview (Inv qf)).

  Lemma tag1 t (e : ev) : Conc.tag t [e] = [(t, e)].
  Proof. reflexivity. Qed.

  (** an access that leaves the core state and the view alone *)
  Definition silent_act (t : nat) (f : act) : Prop :=
    forall g, same_core g (fst (fst (f g))) /\
              (forall t', t' <> t -> hp (fst (fst (f g))) t' 0 = hp g t' 0) /\
              exists k o b, snd (f g) = [EvAcc k o b].

  Lemma safe_silent {R} t (f : act) (k : V -> prog R) l Q :
    silent_act t f ->
    ((forall g, hp (fst (fst (f g))) t 0 = hp g t 0) \/ hp0_free (v_ph l)) ->
    (forall v, safe t (k v) l Q) ->
    safe t (Act f k) l Q.
  Proof.
    intros Hs Hhp Hk. cbn [Conc.safe]. intros g a tr HI Hv. unfold aview in Hv.
    destruct (Hs g) as (Hc & Ho & kd & o & b & He).
    exists (upd a t (a t)). split; [|split; [apply frame_upd|]].
    - rewrite He, tag1. apply (Inv_silent qf g); auto. destruct Hhp as [H|H]; [left; apply H|right; now rewrite Hv].
    - rewrite aview_upd_same, Hv. apply Hk.
  Qed.

  Lemma same_core_refl g : same_core g g.
  Proof. repeat split; auto. Qed.

  Lemma silent_st_hp t j h : silent_act t (a_st_hp t j h).
  Proof.
    intros g. cbn. split; [repeat split; auto; intros s i; reflexivity|]. split; [|eauto].
    intros t' N. destruct (Nat.eqb_spec t' t); [contradiction|reflexivity].
  Qed.
  Lemma silent_faa_sync t : silent_act t (a_faa_sync t).
  Proof. intros g. cbn. split; [apply same_core_refl|]. split; eauto. Qed.
  Lemma silent_faa_cnt t : silent_act t a_faa_cnt.
  Proof. intros g. cbn. split; [repeat split; auto; intros s i; reflexivity|]. split; eauto. Qed.
  Lemma silent_fas_cnt t : silent_act t a_fas_cnt.
  Proof. intros g. cbn. split; [repeat split; auto; intros s i; reflexivity|]. split; eauto. Qed.
  Lemma silent_ld_ret t s : silent_act t (a_ld_ret t s).
  Proof. intros g. cbn. split; [repeat split; auto; intros s' i; reflexivity|]. split; eauto. Qed.
  Lemma silent_st_ret t : silent_act t (a_st_ret t).
  Proof. intros g. cbn. split; [apply same_core_refl|]. split; eauto. Qed.
  Lemma silent_lock_ld t : silent_act t a_lock_ld.
  Proof. intros g. cbn. split; [apply same_core_refl|]. split; eauto. Qed.
  Lemma silent_begin t : silent_act t a_begin.
  Proof. intros g. cbn. split; [apply same_core_refl|]. split; eauto. Qed.

  Lemma hp_st_other g t j h : j <> 0 -> hp (set_hp g t j h) t 0 = hp g t 0.
  Proof. intros N. cbn. rewrite Nat.eqb_refl. destruct j; [contradiction|reflexivity]. Qed.

  (** guard.assign on slot 1, or on slot 0 while the view does not mention slot 0 *)
  Lemma safe_st_hp1 {R} t h (k : V -> prog R) l Q :
    (forall v, safe t (k v) l Q) -> safe t (Act (a_st_hp t 1 h) k) l Q.
  Proof. intros H. apply safe_silent; auto using silent_st_hp. left. intros g. apply hp_st_other. discriminate. Qed.

  Lemma safe_st_hp_free {R} t j h (k : V -> prog R) l Q :
    hp0_free (v_ph l) -> (forall v, safe t (k v) l Q) -> safe t (Act (a_st_hp t j h) k) l Q.
  Proof. intros F H. apply safe_silent; auto using silent_st_hp. Qed.

  Lemma safe_faa_sync {R} t (k : V -> prog R) l Q :
    (forall v, safe t (k v) l Q) -> safe t (Act (a_faa_sync t) k) l Q.
  Proof. intros H. apply safe_silent; auto using silent_faa_sync. Qed.

  (** ** spin_lock::lock() *)
  Definition Qlock (idx : nat) (ph : phase) : option (list nat * nat) -> view -> Prop :=
    fun r vw => match r with None => True | Some ln => vw = mkV false idx (Some ln) ph end.

  Lemma safe_lock_loops fuel : forall t idx ph,
    safe t (lock_outer fuel) (mkV false idx None ph) (Qlock idx ph) /\
    safe t (lock_inner fuel) (mkV false idx None ph) (Qlock idx ph).
  Proof.
    induction fuel as [|f IH]; intros t idx ph; split; cbn [lock_outer lock_inner]; try exact I.
    - cbn [Conc.safe]. intros g a tr HI Hv. unfold aview in Hv. cbn [a_lock_xchg fst snd]. rewrite tag1.
      destruct (lockw g) eqn:Hw.
      + exists (upd a t (a t)). split; [|split; [apply frame_upd|]].
        * apply (Inv_silent qf g); auto.
          repeat split; auto.
        * rewrite aview_upd_same, Hv. apply IH.
      + exists (upd a t (mkV false (v_idx (a t)) (Some (slist g, nalloc g)) (v_ph (a t)))). split; [|split; [apply frame_upd|]].
        * apply Inv_lock_step; auto. discriminate.
        * rewrite aview_upd_same, Hv. cbn. reflexivity.
    - apply safe_silent; auto using silent_lock_ld.
      intros v. destruct v as [| | | | |[|] ? ?]; apply IH.
  Qed.

  (** ** enqueue *)
  Lemma PH_enq_sg g tr t idx x lb sg vis sg' :
    PH g tr t idx (PEnq x lb sg vis false) -> (forall s, sg' = Some s -> s < nalloc g) ->
    PH g tr t idx (PEnq x lb sg' [] false).
  Proof.
    cbn. intros (P1 & P2 & P3 & P4 & P5 & P6 & P7) H. repeat split; auto.
  Qed.

  Ltac use_view K Hv := rewrite ?Hv in K; cbn [v_hd v_idx v_lock v_ph set_hp0] in K.

  (** a load of m_pTail: the enqueuer now knows a segment that exists *)
  Lemma safe_ld_tail {R} t hd idx lk x lb sg vis (k : V -> prog R) Q :
    (forall p, safe t (k (VS p)) (mkV hd idx lk (PEnq x lb p [] false)) Q) ->
    safe t (Act a_ld_tail k) (mkV hd idx lk (PEnq x lb sg vis false)) Q.
  Proof.
    intros Hk. cbn [Conc.safe]. intros g a tr HI Hv. unfold aview in Hv. cbn [a_ld_tail fst snd]. rewrite tag1.
    exists (upd a t (mkV hd idx lk (PEnq x lb (tailp g) [] false))). split; [|split; [apply frame_upd|]].
    - pose proof (Inv_view qf g a tr t g KLd obj_tail true (PEnq x lb (tailp g) [] false) HI) as K.
      use_view K Hv. apply K; clear K.
      + repeat split; auto.
      + auto.
      + discriminate.
      + pose proof (PH_own_acc qf g a tr t g KLd obj_tail true HI) as P. use_view P Hv.
        eapply PH_enq_sg; [apply P; [repeat split; auto|discriminate]|].
        apply (si_tail _ _ (inv_si _ _ _ _ HI)).
      + apply taker_iff_ph; [discriminate|cbn; discriminate].
    - rewrite aview_upd_same. apply Hk.
  Qed.

  Definition Qprot_enq hd idx lk x lb : option (option nat) -> view -> Prop :=
    fun r vw => match r with None => True | Some p => vw = mkV hd idx lk (PEnq x lb p [] false) end.

  Lemma safe_protect_tail_loop fuel t hd idx lk x lb : forall pcur sg,
    safe t (protect_loop fuel a_ld_tail t 0 pcur) (mkV hd idx lk (PEnq x lb sg [] false)) (Qprot_enq hd idx lk x lb).
  Proof.
    induction fuel as [|f IH]; intros pcur sg; cbn [protect_loop]; [exact I|].
    apply safe_st_hp_free; [exact I|]. intros _. apply safe_faa_sync. intros _.
    apply safe_ld_tail. intros p. cbn [seg_of]. destruct (optnat_eqb pcur p); [reflexivity|apply IH].
  Qed.

  Lemma safe_protect_tail fuel t hd idx lk x lb sg vis :
    safe t (protect fuel a_ld_tail t 0) (mkV hd idx lk (PEnq x lb sg vis false)) (Qprot_enq hd idx lk x lb).
  Proof. unfold protect. apply safe_ld_tail. intros p. apply safe_protect_tail_loop. Qed.

  Lemma optnat_eqb_eq a b : optnat_eqb a b = true <-> a = b.
  Proof.
    destruct a, b; cbn; try (split; congruence). rewrite Nat.eqb_eq. split; congruence.
  Qed.

  Lemma safe_unlock {R} t hd idx ln ph (k : V -> prog R) Q :
    (forall v, safe t (k v) (mkV false idx None ph) Q) ->
    safe t (Act a_unlock k) (mkV hd idx (Some ln) ph) Q.
  Proof.
    intros Hk. cbn [Conc.safe]. intros g a tr HI Hv. unfold aview in Hv. cbn [a_unlock fst snd]. rewrite tag1.
    exists (upd a t (mkV false idx None ph)). split; [|split; [apply frame_upd|]].
    - pose proof (Inv_lock_step qf g a tr t false None KSt HI) as K. use_view K Hv. apply K.
      + discriminate.
      + intros _. split; [reflexivity|discriminate].
    - rewrite aview_upd_same. apply Hk.
  Qed.

  (** stores to the cells of the segment being created (not yet published: its cells are null already) *)
  Lemma safe_init_cells {R} t hd idx l n ph (k : prog R) Q : forall idxs,
    safe t k (mkV hd idx (Some (l, n)) ph) Q ->
    safe t (init_cells n idxs k) (mkV hd idx (Some (l, n)) ph) Q.
  Proof.
    induction idxs as [|i r IH]; intros Hk; cbn [init_cells]; [exact Hk|].
    cbn [Conc.safe]. intros g a tr HI Hv. unfold aview in Hv. cbn [a_init_cell fst snd]. rewrite tag1.
    exists (upd a t (a t)). split; [|split; [apply frame_upd|]].
    - apply (Inv_silent qf g); auto.
      repeat split; auto. intros s' i'. cell_cases g n i null_cell s' i' E; rewrite E; [|reflexivity].
      pose proof (inv_si _ _ _ _ HI) as HS.
      pose proof (vi_lock _ _ _ _ (inv_vi _ _ _ _ HI t)) as VL. rewrite Hv in VL. destruct (VL l n eq_refl) as (_ & _ & En).
      destruct (cells g n i) as [p m] eqn:C. destruct p as [y|].
      + exfalso. destruct (si_range _ _ HS n i) as (L & _); [unfold cptr; rewrite C; discriminate|lia].
      + pose proof (si_wf _ _ HS n i) as W. unfold cptr, cmark in W. rewrite C in W. cbn in W. rewrite W; reflexivity.
    - rewrite aview_upd_same, Hv. apply IH. exact Hk.
  Qed.

  Lemma lock_facts g a tr t hd idx l n ph :
    Inv qf g a tr -> a t = mkV hd idx (Some (l, n)) ph -> lockw g = true /\ slist g = l /\ nalloc g = n.
  Proof.
    intros HI Hv. pose proof (vi_lock _ _ _ _ (inv_vi _ _ _ _ HI t)) as VL. rewrite Hv in VL. apply (VL l n eq_refl).
  Qed.

  (** create_tail, early return: m_pTail.store( &m_List.back()) *)
  Lemma safe_st_tail_back {R} t hd idx l n ph b (k : V -> prog R) Q :
    last_opt l = Some b ->
    (forall v, safe t (k v) (mkV hd idx (Some (l, n)) ph) Q) ->
    safe t (Act (a_st_tail (Some b)) k) (mkV hd idx (Some (l, n)) ph) Q.
  Proof.
    intros Hb Hk. cbn [Conc.safe]. intros g a tr HI Hv. unfold aview in Hv. cbn [a_st_tail fst snd]. rewrite tag1.
    destruct (lock_facts _ _ _ _ _ _ _ _ _ HI Hv) as (_ & El & En).
    exists (upd a t (a t)). split; [|split; [apply frame_upd|]].
    - apply Inv_st_tail; auto. intros s E. inversion E; subst s.
      rewrite <- El in Hb. pose proof (slist_last _ _ _ (inv_si _ _ _ _ HI) Hb). lia.
    - rewrite aview_upd_same, Hv. apply Hk.
  Qed.

  (** guard.assign( p ) for a segment p the lock holder took from the list: the enqueuer's segment is now p *)
  Lemma safe_assign_back {R} t hd idx l n x lb sg vis b (k : prog R) Q :
    In b l ->
    safe t k (mkV hd idx (Some (l, n)) (PEnq x lb (Some b) [] false)) Q ->
    safe t (assign_seg t 0 b k) (mkV hd idx (Some (l, n)) (PEnq x lb sg vis false)) Q.
  Proof.
    intros Hb Hk. unfold assign_seg. cbn [Conc.safe]. intros g a tr HI Hv. unfold aview in Hv. cbn [a_st_hp fst snd]. rewrite tag1.
    destruct (lock_facts _ _ _ _ _ _ _ _ _ HI Hv) as (_ & El & En).
    exists (upd a t (mkV hd idx (Some (l, n)) (PEnq x lb (Some b) [] false))). split; [|split; [apply frame_upd|]].
    - pose proof (Inv_view qf g a tr t (set_hp g t 0 (HSeg b)) KSt (obj_hp t 0) true (PEnq x lb (Some b) [] false) HI) as K.
      use_view K Hv. apply K; clear K.
      + repeat split; auto.
      + intros t' N. cbn. destruct (Nat.eqb_spec t' t); [contradiction|reflexivity].
      + discriminate.
      + pose proof (PH_own_acc qf g a tr t (set_hp g t 0 (HSeg b)) KSt (obj_hp t 0) true HI) as P. use_view P Hv.
        eapply PH_enq_sg; [apply P; [repeat split; auto|discriminate]|].
        intros s E. inversion E; subst s. cbn.
        pose proof (inv_si _ _ _ _ HI) as HS. destruct (si_list _ _ HS) as (E1 & L). rewrite <- El in Hb. rewrite E1 in Hb.
        apply in_seq in Hb. unfold lo in Hb. lia.
      + apply taker_iff_ph; [discriminate|cbn; discriminate].
    - rewrite aview_upd_same. apply safe_faa_sync. intros _. exact Hk.
  Qed.

  Lemma last_opt_in l b : last_opt l = Some b -> In b l.
  Proof.
    unfold last_opt. destruct l as [|y r]; [discriminate|]. intros E. inversion E.
    destruct (exists_last (l := y :: r)) as (l' & z & ->); [discriminate|]. rewrite last_last. apply in_app_iff. right. left. reflexivity.
  Qed.

  (** create_tail, first segment: m_pHead.store( pNew ) *)
  Lemma safe_st_head_first {R} t idx n ph (k : V -> prog R) Q :
    (forall v, safe t (k v) (mkV true idx (Some ([], n)) ph) Q) ->
    safe t (Act (a_st_head (Some n)) k) (mkV false idx (Some ([], n)) ph) Q.
  Proof.
    intros Hk. cbn [Conc.safe]. intros g a tr HI Hv. unfold aview in Hv. cbn [a_st_head fst snd]. rewrite tag1.
    destruct (lock_facts _ _ _ _ _ _ _ _ _ HI Hv) as (_ & El & En).
    exists (upd a t (mkV true idx (Some ([], n)) ph)). split; [|split; [apply frame_upd|]].
    - pose proof (Inv_st_head qf g a tr t (Some n) true HI) as K. use_view K Hv. apply K.
      + discriminate.
      + intros s E. inversion E; subst s. unfold lo. rewrite El. cbn. lia.
      + discriminate.
      + discriminate.
    - rewrite aview_upd_same. apply Hk.
  Qed.

  (** create_tail: m_List.push_back( *pNew ); m_pTail.store( pNew ) *)
  Lemma safe_push {R} t hd idx l n x lb sg vis (k : V -> prog R) Q :
    (l = [] -> hd = true) ->
    (l = [] \/ (sg <> None /\ sg = last_opt l /\ covers qf vis)) ->
    (forall v, safe t (k v) (mkV false idx (Some (l ++ [n], S n)) (PEnq x lb (Some n) [] false)) Q) ->
    safe t (Act (a_push_st_tail n) k) (mkV hd idx (Some (l, n)) (PEnq x lb sg vis false)) Q.
  Proof.
    intros Hhd Hor Hk. cbn [Conc.safe]. intros g a tr HI Hv. unfold aview in Hv. cbn [a_push_st_tail fst snd]. rewrite tag1.
    destruct (lock_facts _ _ _ _ _ _ _ _ _ HI Hv) as (_ & El & En).
    exists (upd a t (mkV false idx (Some (l ++ [n], S n)) (PEnq x lb (Some n) [] false))). split; [|split; [apply frame_upd|]].
    - pose proof (Inv_push qf g a tr t x lb sg vis l n HI) as K. use_view K Hv. apply K; auto.
      destruct l as [|f r].
      + pose proof (vi_hd _ _ _ _ (inv_vi _ _ _ _ HI t)) as Vh. rewrite Hv in Vh. cbn in Vh. apply Vh. auto.
      + intros E. rewrite (si_head0 _ _ (inv_si _ _ _ _ HI) E) in El. discriminate.
    - rewrite aview_upd_same. apply Hk.
  Qed.

  Definition Qct idx x lb : option nat -> view -> Prop :=
    fun r vw => match r with None => True | Some s' => vw = mkV false idx None (PEnq x lb (Some s') [] false) end.

  Lemma safe_create_tail fuel t idx x lb sg vis pTail :
    (pTail = None \/ (pTail = sg /\ covers qf vis)) ->
    safe t (create_tail fuel qf t 0 pTail) (mkV false idx None (PEnq x lb sg vis false)) (Qct idx x lb).
  Proof.
    intros Hor. unfold create_tail. apply Conc.safe_bind.
    eapply Conc.safe_weaken; [|apply safe_lock_loops].
    intros [[l n]|] vw Hq; cbn in Hq; [subst vw|exact I].
    assert (Hfresh : forall hd, (l = [] -> hd = true) -> (l = [] \/ (sg <> None /\ sg = last_opt l /\ covers qf vis)) ->
      safe t (Act (a_push_st_tail n) (fun _ => assign_seg t 0 n (Act a_unlock (fun _ => Ret (Some n)))))
        (mkV hd idx (Some (l, n)) (PEnq x lb sg vis false)) (Qct idx x lb)).
    { intros hd H1 H2. apply safe_push; auto. intros _.
      eapply safe_assign_back; [apply in_app_iff; right; left; reflexivity|].
      apply safe_unlock. intros _. reflexivity. }
    assert (Hfresh2 : (l = [] \/ (sg <> None /\ sg = last_opt l /\ covers qf vis)) ->
      safe t (init_cells n (seq 0 qf)
         ((fun k => match l with [] => Act (a_st_head (Some n)) (fun _ => k) | _ => k end)
            (Act (a_push_st_tail n) (fun _ => assign_seg t 0 n (Act a_unlock (fun _ => Ret (Some n)))))))
        (mkV false idx (Some (l, n)) (PEnq x lb sg vis false)) (Qct idx x lb)).
    { intros H2. apply safe_init_cells. destruct l as [|f r].
      - apply safe_st_head_first. intros _. apply Hfresh; auto.
      - apply Hfresh; auto. discriminate. }
    destruct (last_opt l) as [b|] eqn:Hl.
    - destruct (optnat_eqb pTail (Some b)) eqn:Hp; cbn [negb].
      + apply Hfresh2. right. apply optnat_eqb_eq in Hp. destruct Hor as [->|(E & C)]; [discriminate|].
        subst pTail. rewrite <- E. split; [discriminate|]. split; [reflexivity|exact C].
      + apply safe_st_tail_back; [exact Hl|]. intros _.
        eapply safe_assign_back; [apply last_opt_in; exact Hl|].
        apply safe_unlock. intros _. reflexivity.
    - apply Hfresh2. left. destruct l; [reflexivity|discriminate].
  Qed.
End Safe.
