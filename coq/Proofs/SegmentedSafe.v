(** * SegmentedQueue: every operation's program preserves the invariant ([Conc.safe]), for every schedule. *)
From Coq Require Import ZArith List String Bool Lia PeanoNat.
From LV Require Import Base.Conc Base.Events Model.Segmented Proofs.SegmentedBase Proofs.SegmentedSteps.
Import ListNotations.
Local Open Scope string_scope.
Local Open Scope list_scope.

Section Safe.
  Variable qf : nat.

  Notation safe := (@Conc.safe G V ev Aux view aview (Inv qf)).

  Lemma tag1 t (e : ev) : Conc.tag t [e] = [(t, e)].
  Proof. reflexivity. Qed.

  (** an access that leaves the core state and the view alone *)
  Definition silent_act (t : nat) (f : act) : Prop :=
    forall g, same_core g (fst (fst (f g))) /\
              (forall t', t' <> t -> hp (fst (fst (f g))) t' 0 = hp g t' 0) /\
              exists k o b, snd (f g) = [EvAcc k o b].

  Lemma safe_silent {R} t (f : act) (k : V -> prog R) l Q :
    silent_act t f ->
    ((forall g, hp (fst (fst (f g))) t 0 = hp g t 0) \/ hp0_free (v_ph l)) ->
    (forall v, safe t (k v) l Q) ->
    safe t (Act f k) l Q.
  Proof.
    intros Hs Hhp Hk. cbn [Conc.safe]. intros g a tr HI Hv. unfold aview in Hv.
    destruct (Hs g) as (Hc & Ho & kd & o & b & He).
    exists (upd a t (a t)). split; [|split; [apply frame_upd|]].
    - rewrite He, tag1. apply (Inv_silent qf g); auto. destruct Hhp as [H|H]; [left; apply H|right; now rewrite Hv].
    - rewrite aview_upd_same, Hv. apply Hk.
  Qed.

  Lemma same_core_refl g : same_core g g.
  Proof. repeat split; auto. Qed.

  Lemma silent_st_hp t j h : silent_act t (a_st_hp t j h).
  Proof.
    intros g. cbn. split; [repeat split; auto; intros s i; reflexivity|]. split; [|eauto].
    intros t' N. destruct (Nat.eqb_spec t' t); [contradiction|reflexivity].
  Qed.
  Lemma silent_faa_sync t : silent_act t (a_faa_sync t).
  Proof. intros g. cbn. split; [apply same_core_refl|]. split; eauto. Qed.
  Lemma silent_faa_cnt t : silent_act t a_faa_cnt.
  Proof. intros g. cbn. split; [repeat split; auto; intros s i; reflexivity|]. split; eauto. Qed.
  Lemma silent_fas_cnt t : silent_act t a_fas_cnt.
  Proof. intros g. cbn. split; [repeat split; auto; intros s i; reflexivity|]. split; eauto. Qed.
  Lemma silent_ld_ret t s : silent_act t (a_ld_ret t s).
  Proof. intros g. cbn. split; [repeat split; auto; intros s' i; reflexivity|]. split; eauto. Qed.
  Lemma silent_st_ret t : silent_act t (a_st_ret t).
  Proof. intros g. cbn. split; [apply same_core_refl|]. split; eauto. Qed.
  Lemma silent_lock_ld t : silent_act t a_lock_ld.
  Proof. intros g. cbn. split; [apply same_core_refl|]. split; eauto. Qed.
  Lemma silent_begin t : silent_act t a_begin.
  Proof. intros g. cbn. split; [apply same_core_refl|]. split; eauto. Qed.

  Lemma hp_st_other g t j h : j <> 0 -> hp (set_hp g t j h) t 0 = hp g t 0.
  Proof. intros N. cbn. rewrite Nat.eqb_refl. destruct j; [contradiction|reflexivity]. Qed.

  (** guard.assign on slot 1, or on slot 0 while the view does not mention slot 0 *)
  Lemma safe_st_hp1 {R} t h (k : V -> prog R) l Q :
    (forall v, safe t (k v) l Q) -> safe t (Act (a_st_hp t 1 h) k) l Q.
  Proof. intros H. apply safe_silent; auto using silent_st_hp. left. intros g. apply hp_st_other. discriminate. Qed.

  Lemma safe_st_hp_free {R} t j h (k : V -> prog R) l Q :
    hp0_free (v_ph l) -> (forall v, safe t (k v) l Q) -> safe t (Act (a_st_hp t j h) k) l Q.
  Proof. intros F H. apply safe_silent; auto using silent_st_hp. Qed.

  Lemma safe_faa_sync {R} t (k : V -> prog R) l Q :
    (forall v, safe t (k v) l Q) -> safe t (Act (a_faa_sync t) k) l Q.
  Proof. intros H. apply safe_silent; auto using silent_faa_sync. Qed.
End Safe.
