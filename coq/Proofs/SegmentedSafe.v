(** * SegmentedQueue: every operation's program preserves the invariant ([Conc.safe]), for every schedule. *)
From Coq Require Import ZArith List String Bool Lia PeanoNat.
From LV Require Import Base.Conc Base.Events Model.Segmented Proofs.SegmentedBase Proofs.SegmentedSteps.
Import ListNotations.
Local Open Scope string_scope.
Local Open Scope list_scope.

Section Safe.
  Variable qf : nat.

  Notation safe := (@Conc.safe G V ev Aux view aview (Inv qf)).

  Lemma tag1 t (e : ev) : Conc.tag t [e] = [(t, e)].
  Proof. reflexivity. Qed.

  (** introduction rule for one access (keeps [safe] of the continuation folded) *)
  Lemma safe_act {R} t (f : act) (k : V -> prog R) l (Q : R -> view -> Prop) :
    (forall g a tr, Inv qf g a tr -> aview a t = l ->
       exists a', Inv qf (fst (fst (f g))) a' (tr ++ Conc.tag t (snd (f g))) /\ Conc.frame aview t a a' /\
                  safe t (k (snd (fst (f g)))) (aview a' t) Q) ->
    safe t (Act f k) l Q.
  Proof. intros H. exact H. Qed.

  (** an access that leaves the core state and the view alone *)
  Definition silent_act (t : nat) (f : act) : Prop :=
    forall g, same_core g (fst (fst (f g))) /\
              (forall t', t' <> t -> hp (fst (fst (f g))) t' 0 = hp g t' 0) /\
              exists k o b, snd (f g) = [EvAcc k o b].

  Lemma safe_silent {R} t (f : act) (k : V -> prog R) l Q :
    silent_act t f ->
    ((forall g, hp (fst (fst (f g))) t 0 = hp g t 0) \/ hp0_free (v_ph l)) ->
    (forall v, safe t (k v) l Q) ->
    safe t (Act f k) l Q.
  Proof.
    intros Hs Hhp Hk. apply safe_act. intros g a tr HI Hv. unfold aview in Hv.
    destruct (Hs g) as (Hc & Ho & kd & o & b & He).
    exists (upd a t (a t)). split; [|split; [apply frame_upd|]].
    - rewrite He, tag1. apply (Inv_silent qf g); auto. destruct Hhp as [H|H]; [left; apply H|right; now rewrite Hv].
    - rewrite aview_upd_same, Hv. apply Hk.
  Qed.

  Lemma same_core_refl g : same_core g g.
  Proof. repeat split; auto. Qed.

  Lemma silent_st_hp t j h : silent_act t (a_st_hp t j h).
  Proof.
    intros g. cbn. split; [repeat split; auto; intros s i; reflexivity|]. split; [|eauto].
    intros t' N. destruct (Nat.eqb_spec t' t); [contradiction|reflexivity].
  Qed.
  Lemma silent_faa_sync t : silent_act t (a_faa_sync t).
  Proof. intros g. cbn. split; [apply same_core_refl|]. split; eauto. Qed.
  Lemma silent_faa_cnt t : silent_act t a_faa_cnt.
  Proof. intros g. cbn. split; [repeat split; auto; intros s i; reflexivity|]. split; eauto. Qed.
  Lemma silent_fas_cnt t : silent_act t a_fas_cnt.
  Proof. intros g. cbn. split; [repeat split; auto; intros s i; reflexivity|]. split; eauto. Qed.
  Lemma silent_ld_ret t s : silent_act t (a_ld_ret t s).
  Proof. intros g. cbn. split; [repeat split; auto; intros s' i; reflexivity|]. split; eauto. Qed.
  Lemma silent_st_ret t : silent_act t (a_st_ret t).
  Proof. intros g. cbn. split; [apply same_core_refl|]. split; eauto. Qed.
  Lemma silent_lock_ld t : silent_act t a_lock_ld.
  Proof. intros g. cbn. split; [apply same_core_refl|]. split; eauto. Qed.
  Lemma silent_begin t : silent_act t a_begin.
  Proof. intros g. cbn. split; [apply same_core_refl|]. split; eauto. Qed.

  Lemma hp_st_other g t j h : j <> 0 -> hp (set_hp g t j h) t 0 = hp g t 0.
  Proof. intros N. cbn. rewrite Nat.eqb_refl. destruct j; [contradiction|reflexivity]. Qed.

  (** guard.assign on slot 1, or on slot 0 while the view does not mention slot 0 *)
  Lemma safe_st_hp1 {R} t h (k : V -> prog R) l Q :
    (forall v, safe t (k v) l Q) -> safe t (Act (a_st_hp t 1 h) k) l Q.
  Proof. intros H. apply safe_silent; auto using silent_st_hp. left. intros g. apply hp_st_other. discriminate. Qed.

  Lemma safe_st_hp_free {R} t j h (k : V -> prog R) l Q :
    hp0_free (v_ph l) -> (forall v, safe t (k v) l Q) -> safe t (Act (a_st_hp t j h) k) l Q.
  Proof. intros F H. apply safe_silent; auto using silent_st_hp. Qed.

  Lemma safe_faa_sync {R} t (k : V -> prog R) l Q :
    (forall v, safe t (k v) l Q) -> safe t (Act (a_faa_sync t) k) l Q.
  Proof. intros H. apply safe_silent; auto using silent_faa_sync. Qed.

  (** ** spin_lock::lock() *)
  Definition Qlock (idx : nat) (ph : phase) : option (list nat * nat) -> view -> Prop :=
    fun r vw => match r with None => True | Some ln => vw = mkV false idx (Some ln) ph end.

  Lemma safe_lock_loops fuel : forall t idx ph,
    safe t (lock_outer fuel) (mkV false idx None ph) (Qlock idx ph) /\
    safe t (lock_inner fuel) (mkV false idx None ph) (Qlock idx ph).
  Proof.
    induction fuel as [|f IH]; intros t idx ph; split; cbn [lock_outer lock_inner]; try exact I.
    - apply safe_act. intros g a tr HI Hv. unfold aview in Hv. cbn [a_lock_xchg fst snd]. rewrite tag1.
      destruct (lockw g) eqn:Hw.
      + exists (upd a t (a t)). split; [|split; [apply frame_upd|]].
        * apply (Inv_silent qf g); auto.
          repeat split; auto.
        * rewrite aview_upd_same, Hv. apply IH.
      + exists (upd a t (mkV false (v_idx (a t)) (Some (slist g, nalloc g)) (v_ph (a t)))). split; [|split; [apply frame_upd|]].
        * apply Inv_lock_step; auto. discriminate.
        * rewrite aview_upd_same, Hv. cbn. reflexivity.
    - apply safe_silent; auto using silent_lock_ld.
      intros v. destruct v as [| | | | |[|] ? ?]; apply IH.
  Qed.

  (** ** enqueue *)
  Lemma PH_enq_sg g tr t idx x lb sg vis sg' :
    PH g tr t idx (PEnq x lb sg vis false) -> (forall s, sg' = Some s -> s < nalloc g) ->
    PH g tr t idx (PEnq x lb sg' [] false).
  Proof.
    cbn. intros (P1 & P2 & P3 & P4 & P5 & P6 & P7) H. repeat split; auto.
  Qed.

  Ltac use_view K Hv := rewrite ?Hv in K; cbn [v_hd v_idx v_lock v_ph set_hp0] in K.

  (** a load of m_pTail: the enqueuer now knows a segment that exists *)
  Lemma safe_ld_tail {R} t hd idx lk x lb sg vis (k : V -> prog R) Q :
    (forall p, safe t (k (VS p)) (mkV hd idx lk (PEnq x lb p [] false)) Q) ->
    safe t (Act a_ld_tail k) (mkV hd idx lk (PEnq x lb sg vis false)) Q.
  Proof.
    intros Hk. apply safe_act. intros g a tr HI Hv. unfold aview in Hv. cbn [a_ld_tail fst snd]. rewrite tag1.
    exists (upd a t (mkV hd idx lk (PEnq x lb (tailp g) [] false))). split; [|split; [apply frame_upd|]].
    - pose proof (Inv_view qf g a tr t g KLd obj_tail true (PEnq x lb (tailp g) [] false) HI) as K.
      use_view K Hv. apply K; clear K.
      + repeat split; auto.
      + auto.
      + discriminate.
      + pose proof (PH_own_acc qf g a tr t g KLd obj_tail true HI) as P. use_view P Hv.
        eapply PH_enq_sg; [apply P; [repeat split; auto|discriminate]|].
        apply (si_tail _ _ (inv_si _ _ _ _ HI)).
      + apply taker_iff_ph; [discriminate|cbn; discriminate].
    - rewrite aview_upd_same. apply Hk.
  Qed.

  Definition Qprot_enq hd idx lk x lb : option (option nat) -> view -> Prop :=
    fun r vw => match r with None => True | Some p => vw = mkV hd idx lk (PEnq x lb p [] false) end.

  Lemma safe_protect_tail_loop fuel t hd idx lk x lb : forall pcur sg,
    safe t (protect_loop fuel a_ld_tail t 0 pcur) (mkV hd idx lk (PEnq x lb sg [] false)) (Qprot_enq hd idx lk x lb).
  Proof.
    induction fuel as [|f IH]; intros pcur sg; cbn [protect_loop]; [exact I|].
    apply safe_st_hp_free; [exact I|]. intros _. apply safe_faa_sync. intros _.
    apply safe_ld_tail. intros p. cbn [seg_of]. destruct (optnat_eqb pcur p); [reflexivity|apply IH].
  Qed.

  Lemma safe_protect_tail fuel t hd idx lk x lb sg vis :
    safe t (protect fuel a_ld_tail t 0) (mkV hd idx lk (PEnq x lb sg vis false)) (Qprot_enq hd idx lk x lb).
  Proof. unfold protect. apply safe_ld_tail. intros p. apply safe_protect_tail_loop. Qed.

  Lemma optnat_eqb_eq a b : optnat_eqb a b = true <-> a = b.
  Proof.
    destruct a, b; cbn; try (split; congruence). rewrite Nat.eqb_eq. split; congruence.
  Qed.

  Lemma safe_unlock {R} t hd idx ln ph (k : V -> prog R) Q :
    (forall v, safe t (k v) (mkV false idx None ph) Q) ->
    safe t (Act a_unlock k) (mkV hd idx (Some ln) ph) Q.
  Proof.
    intros Hk. apply safe_act. intros g a tr HI Hv. unfold aview in Hv. cbn [a_unlock fst snd]. rewrite tag1.
    exists (upd a t (mkV false idx None ph)). split; [|split; [apply frame_upd|]].
    - pose proof (Inv_lock_step qf g a tr t false None KSt HI) as K. use_view K Hv. apply K.
      + discriminate.
      + intros _. split; [reflexivity|discriminate].
    - rewrite aview_upd_same. apply Hk.
  Qed.

  (** stores to the cells of the segment being created (not yet published: its cells are null already) *)
  Lemma safe_init_cells {R} t hd idx l n ph (k : prog R) Q : forall idxs,
    safe t k (mkV hd idx (Some (l, n)) ph) Q ->
    safe t (init_cells n idxs k) (mkV hd idx (Some (l, n)) ph) Q.
  Proof.
    induction idxs as [|i r IH]; intros Hk; cbn [init_cells]; [exact Hk|].
    apply safe_act. intros g a tr HI Hv. unfold aview in Hv. cbn [a_init_cell fst snd]. rewrite tag1.
    exists (upd a t (a t)). split; [|split; [apply frame_upd|]].
    - apply (Inv_silent qf g); auto.
      repeat split; auto. intros s' i'. cell_cases g n i null_cell s' i' E; rewrite E; [|reflexivity].
      pose proof (inv_si _ _ _ _ HI) as HS.
      pose proof (vi_lock _ _ _ _ (inv_vi _ _ _ _ HI t)) as VL. rewrite Hv in VL. destruct (VL l n eq_refl) as (_ & _ & En).
      destruct (cells g n i) as [p m] eqn:C. destruct p as [y|].
      + exfalso. destruct (si_range _ _ HS n i) as (L & _); [unfold cptr; rewrite C; discriminate|lia].
      + pose proof (si_wf _ _ HS n i) as W. unfold cptr, cmark in W. rewrite C in W. cbn in W. rewrite W; reflexivity.
    - rewrite aview_upd_same, Hv. apply IH. exact Hk.
  Qed.

  Lemma lock_facts g a tr t hd idx l n ph :
    Inv qf g a tr -> a t = mkV hd idx (Some (l, n)) ph -> lockw g = true /\ slist g = l /\ nalloc g = n.
  Proof.
    intros HI Hv. pose proof (vi_lock _ _ _ _ (inv_vi _ _ _ _ HI t)) as VL. rewrite Hv in VL. apply (VL l n eq_refl).
  Qed.

  (** create_tail, early return: m_pTail.store( &m_List.back()) *)
  Lemma safe_st_tail_back {R} t hd idx l n ph b (k : V -> prog R) Q :
    last_opt l = Some b ->
    (forall v, safe t (k v) (mkV hd idx (Some (l, n)) ph) Q) ->
    safe t (Act (a_st_tail (Some b)) k) (mkV hd idx (Some (l, n)) ph) Q.
  Proof.
    intros Hb Hk. apply safe_act. intros g a tr HI Hv. unfold aview in Hv. cbn [a_st_tail fst snd]. rewrite tag1.
    destruct (lock_facts _ _ _ _ _ _ _ _ _ HI Hv) as (_ & El & En).
    exists (upd a t (a t)). split; [|split; [apply frame_upd|]].
    - apply Inv_st_tail; auto. intros s E. inversion E; subst s.
      rewrite <- El in Hb. pose proof (slist_last _ _ _ (inv_si _ _ _ _ HI) Hb). lia.
    - rewrite aview_upd_same, Hv. apply Hk.
  Qed.

  (** guard.assign( p ) for a segment p the lock holder took from the list: the enqueuer's segment is now p *)
  Lemma safe_assign_back {R} t hd idx l n x lb sg vis b (k : prog R) Q :
    In b l ->
    safe t k (mkV hd idx (Some (l, n)) (PEnq x lb (Some b) [] false)) Q ->
    safe t (assign_seg t 0 b k) (mkV hd idx (Some (l, n)) (PEnq x lb sg vis false)) Q.
  Proof.
    intros Hb Hk. unfold assign_seg. apply safe_act. intros g a tr HI Hv. unfold aview in Hv. cbn [a_st_hp fst snd]. rewrite tag1.
    destruct (lock_facts _ _ _ _ _ _ _ _ _ HI Hv) as (_ & El & En).
    exists (upd a t (mkV hd idx (Some (l, n)) (PEnq x lb (Some b) [] false))). split; [|split; [apply frame_upd|]].
    - pose proof (Inv_view qf g a tr t (set_hp g t 0 (HSeg b)) KSt (obj_hp t 0) true (PEnq x lb (Some b) [] false) HI) as K.
      use_view K Hv. apply K; clear K.
      + repeat split; auto.
      + intros t' N. cbn. destruct (Nat.eqb_spec t' t); [contradiction|reflexivity].
      + discriminate.
      + pose proof (PH_own_acc qf g a tr t (set_hp g t 0 (HSeg b)) KSt (obj_hp t 0) true HI) as P. use_view P Hv.
        eapply PH_enq_sg; [apply P; [repeat split; auto|discriminate]|].
        intros s E. inversion E; subst s. cbn.
        pose proof (inv_si _ _ _ _ HI) as HS. destruct (si_list _ _ HS) as (E1 & L). rewrite <- El in Hb. rewrite E1 in Hb.
        apply in_seq in Hb. unfold lo in Hb. lia.
      + apply taker_iff_ph; [discriminate|cbn; discriminate].
    - rewrite aview_upd_same. apply safe_faa_sync. intros _. exact Hk.
  Qed.

  Lemma last_in (l : list nat) d : l <> [] -> In (last l d) l.
  Proof.
    induction l as [|y r IH]; [congruence|]. intros _. destruct r as [|z r']; [left; reflexivity|].
    right. apply IH. discriminate.
  Qed.

  Lemma last_opt_in l b : last_opt l = Some b -> In b l.
  Proof.
    unfold last_opt. destruct l as [|y r]; [discriminate|]. intros E.
    assert (E' : last (y :: r) 0 = b) by congruence. rewrite <- E'. apply last_in. discriminate.
  Qed.

  (** create_tail, first segment: m_pHead.store( pNew ) *)
  Lemma safe_st_head_first {R} t idx n ph (k : V -> prog R) Q :
    (forall v, safe t (k v) (mkV true idx (Some ([], n)) ph) Q) ->
    safe t (Act (a_st_head (Some n)) k) (mkV false idx (Some ([], n)) ph) Q.
  Proof.
    intros Hk. apply safe_act. intros g a tr HI Hv. unfold aview in Hv. cbn [a_st_head fst snd]. rewrite tag1.
    destruct (lock_facts _ _ _ _ _ _ _ _ _ HI Hv) as (_ & El & En).
    exists (upd a t (mkV true idx (Some ([], n)) ph)). split; [|split; [apply frame_upd|]].
    - pose proof (Inv_st_head qf g a tr t (Some n) true HI) as K. use_view K Hv. apply K.
      + discriminate.
      + intros s E. inversion E; subst s. unfold lo. rewrite El. cbn. lia.
      + discriminate.
      + discriminate.
    - rewrite aview_upd_same. apply Hk.
  Qed.

  (** create_tail: m_List.push_back( *pNew ); m_pTail.store( pNew ) *)
  Lemma safe_push {R} t hd idx l n x lb sg vis (k : V -> prog R) Q :
    (l = [] -> hd = true) ->
    (l = [] \/ (sg <> None /\ sg = last_opt l /\ covers qf vis)) ->
    (forall v, safe t (k v) (mkV false idx (Some (l ++ [n], S n)) (PEnq x lb (Some n) [] false)) Q) ->
    safe t (Act (a_push_st_tail n) k) (mkV hd idx (Some (l, n)) (PEnq x lb sg vis false)) Q.
  Proof.
    intros Hhd Hor Hk. apply safe_act. intros g a tr HI Hv. unfold aview in Hv. cbn [a_push_st_tail fst snd]. rewrite tag1.
    destruct (lock_facts _ _ _ _ _ _ _ _ _ HI Hv) as (_ & El & En).
    exists (upd a t (mkV false idx (Some (l ++ [n], S n)) (PEnq x lb (Some n) [] false))). split; [|split; [apply frame_upd|]].
    - pose proof (Inv_push qf g a tr t x lb sg vis l n HI) as K. use_view K Hv. apply K; auto.
      destruct l as [|f r].
      + pose proof (vi_hd _ _ _ _ (inv_vi _ _ _ _ HI t)) as Vh. rewrite Hv in Vh. cbn in Vh. apply Vh. auto.
      + intros E. rewrite (si_head0 _ _ (inv_si _ _ _ _ HI) E) in El. discriminate.
    - rewrite aview_upd_same. apply Hk.
  Qed.

  Definition Qct idx x lb : option nat -> view -> Prop :=
    fun r vw => match r with None => True | Some s' => vw = mkV false idx None (PEnq x lb (Some s') [] false) end.

  Lemma safe_create_tail fuel t idx x lb sg vis pTail :
    (pTail = None \/ (pTail = sg /\ covers qf vis)) ->
    safe t (create_tail fuel qf t 0 pTail) (mkV false idx None (PEnq x lb sg vis false)) (Qct idx x lb).
  Proof.
    intros Hor. unfold create_tail. apply Conc.safe_bind.
    eapply Conc.safe_weaken; [|apply safe_lock_loops].
    intros [[l n]|] vw Hq; cbn in Hq; [subst vw|exact I].
    assert (Hfresh : forall hd, (l = [] -> hd = true) -> (l = [] \/ (sg <> None /\ sg = last_opt l /\ covers qf vis)) ->
      safe t (Act (a_push_st_tail n) (fun _ => assign_seg t 0 n (Act a_unlock (fun _ => Ret (Some n)))))
        (mkV hd idx (Some (l, n)) (PEnq x lb sg vis false)) (Qct idx x lb)).
    { intros hd H1 H2. apply safe_push; auto. intros _.
      eapply safe_assign_back; [apply in_app_iff; right; left; reflexivity|].
      apply safe_unlock. intros _. reflexivity. }
    assert (Hfresh2 : (l = [] \/ (sg <> None /\ sg = last_opt l /\ covers qf vis)) ->
      safe t (init_cells n (seq 0 qf)
         ((fun k => match l with [] => Act (a_st_head (Some n)) (fun _ => k) | _ => k end)
            (Act (a_push_st_tail n) (fun _ => assign_seg t 0 n (Act a_unlock (fun _ => Ret (Some n)))))))
        (mkV false idx (Some (l, n)) (PEnq x lb sg vis false)) (Qct idx x lb)).
    { intros H2. apply safe_init_cells. destruct l as [|f r].
      - apply safe_st_head_first. intros _. apply Hfresh; auto.
      - apply Hfresh; auto. discriminate. }
    destruct (last_opt l) as [b|] eqn:Hl.
    - destruct (optnat_eqb pTail (Some b)) eqn:Hp; cbn [negb].
      + apply Hfresh2. right. apply optnat_eqb_eq in Hp. destruct Hor as [H0|(E & C)]; [congruence|].
        assert (Es : sg = Some b) by congruence. rewrite Es. split; [discriminate|]. split; [reflexivity|exact C].
      + apply safe_st_tail_back; [exact Hl|]. intros _.
        eapply safe_assign_back; [apply last_opt_in; exact Hl|].
        apply safe_unlock. intros _. reflexivity.
    - apply Hfresh2. left. destruct l; [reflexivity|discriminate].
  Qed.

  Lemma PH_enq_vis g tr t idx x lb s vis i :
    PH g tr t idx (PEnq x lb (Some s) vis false) -> cptr g s i <> None ->
    PH g tr t idx (PEnq x lb (Some s) (i :: vis) false).
  Proof.
    cbn. intros (P1 & P2 & P3 & P4 & P5 & P6 & P7) H. repeat split; auto.
    intros s0 i0 E [<-|Hin]; [inversion E; subst; exact H|eauto].
  Qed.

  Definition enq_view idx x lb s vis ins : view := mkV false idx None (PEnq x lb (Some s) vis ins).

  (** probing a cell of the tail segment *)
  Lemma safe_ld_cell_enq {R} t idx x lb s vis i (k : V -> prog R) Q :
    (forall c, (fst c = None -> snd c = false) ->
       safe t (k (VC c)) (enq_view idx x lb s (match fst c with None => vis | Some _ => i :: vis end) false) Q) ->
    safe t (Act (a_ld_cell s i) k) (enq_view idx x lb s vis false) Q.
  Proof.
    intros Hk. apply safe_act. intros g a tr HI Hv. unfold aview, enq_view in Hv. cbn [a_ld_cell fst snd]. rewrite tag1.
    set (vis' := match fst (cells g s i) with None => vis | Some _ => i :: vis end).
    exists (upd a t (enq_view idx x lb s vis' false)). split; [|split; [apply frame_upd|]].
    - pose proof (Inv_view qf g a tr t g KLd (obj_cell s i) true (PEnq x lb (Some s) vis' false) HI) as K.
      use_view K Hv. apply K; clear K.
      + repeat split; auto.
      + auto.
      + discriminate.
      + pose proof (PH_own_acc qf g a tr t g KLd (obj_cell s i) true HI) as P. use_view P Hv.
        specialize (P ltac:(repeat split; auto) ltac:(discriminate)).
        unfold vis'. destruct (fst (cells g s i)) eqn:E; [|exact P].
        apply PH_enq_vis; [exact P|]. unfold cptr. rewrite E. discriminate.
      + apply taker_iff_ph; [discriminate|cbn; discriminate].
    - rewrite aview_upd_same. apply Hk.
      pose proof (si_wf _ _ (inv_si _ _ _ _ HI) s i) as W. exact W.
  Qed.

  Definition Qprobe idx x lb s (all : list nat) : bool -> view -> Prop :=
    fun done vw => exists vis', vw = enq_view idx x lb s vis' done /\ (done = false -> forall i, In i all -> In i vis').

  Lemma safe_enq_probe t idx x lb s all : forall ord vis,
    (forall i, In i ord -> i < qf) ->
    (forall i, In i all -> In i vis \/ In i ord) ->
    safe t (enq_probe s x ord) (enq_view idx x lb s vis false) (Qprobe idx x lb s all).
  Proof.
    induction ord as [|i r IH]; intros vis Hlt Hall; cbn [enq_probe].
    - cbn. exists vis. split; [reflexivity|]. intros _ j Hj. destruct (Hall j Hj) as [K|[]]; exact K.
    - apply safe_ld_cell_enq. intros c Hwf. cbn [cell_of].
      assert (Hr : forall vis', (forall j, In j vis \/ j = i -> In j vis') ->
                 safe t (enq_probe s x r) (enq_view idx x lb s vis' false) (Qprobe idx x lb s all)).
      { intros vis' Hsub. apply IH; [intros j Hj; apply Hlt; right; exact Hj|].
        intros j Hj. destruct (Hall j Hj) as [K|[K|K]]; [left; apply Hsub; auto|left; apply Hsub; auto|right; exact K]. }
      destruct c as [[y|] m]; cbn [fst snd] in *.
      + apply Hr. intros j [K| ->]; [right; exact K|left; reflexivity].
      + rewrite (Hwf eq_refl).
        (* the cell looked empty: CAS *)
        apply safe_act. intros g a tr HI Hv. unfold aview, enq_view in Hv. unfold a_cas_cell.
        destruct (cell_eqb (cells g s i) null_cell) eqn:Hc; cbn [fst snd]; rewrite tag1.
        * apply cell_eqb_eq in Hc.
          exists (upd a t (enq_view idx x lb s vis true)). split; [|split; [apply frame_upd|]].
          -- pose proof (Inv_insert qf g a tr t s i x lb vis HI) as K. use_view K Hv. apply K; auto.
             apply Hlt. left. reflexivity.
          -- rewrite aview_upd_same. cbn. exists vis. split; [reflexivity|discriminate].
        * exists (upd a t (enq_view idx x lb s (i :: vis) false)). split; [|split; [apply frame_upd|]].
          -- pose proof (Inv_view qf g a tr t g KCas (obj_cell s i) false (PEnq x lb (Some s) (i :: vis) false) HI) as K.
             use_view K Hv. apply K; clear K.
             ++ repeat split; auto.
             ++ auto.
             ++ discriminate.
             ++ pose proof (PH_own_acc qf g a tr t g KCas (obj_cell s i) false HI) as P. use_view P Hv.
                specialize (P ltac:(repeat split; auto) ltac:(discriminate)).
                apply PH_enq_vis; [exact P|]. intros E.
                pose proof (si_wf _ _ (inv_si _ _ _ _ HI) s i E) as W. unfold cptr, cmark in *.
                destruct (cells g s i) as [p m']. cbn in *. subst. cbn in Hc. discriminate.
             ++ apply taker_iff_ph; [discriminate|cbn; discriminate].
          -- rewrite aview_upd_same. cbn [ok_of]. apply Hr. intros j [K| ->]; [right; exact K|left; reflexivity].
  Qed.

  (** the probing order of a round enumerates exactly the cells of a segment *)
  Definition perm_ok (l : list nat) : Prop := forall i, In i l <-> i < qf.

  Definition Qenq idx x lb : bool -> view -> Prop :=
    fun done vw => done = true -> exists s vis, vw = enq_view idx x lb s vis true.

  Lemma safe_enq_rounds lfuel t idx x lb ord :
    (forall r, perm_ok (ord r)) ->
    forall fuel r s,
    safe t (enq_rounds fuel lfuel qf t x ord r s) (enq_view idx x lb s [] false) (Qenq idx x lb).
  Proof.
    intros Hord. induction fuel as [|f IH]; intros r s; cbn [enq_rounds]; [discriminate|].
    apply Conc.safe_bind. eapply Conc.safe_weaken; [|apply (safe_enq_probe t idx x lb s (ord r))].
    - intros [|] vw (vis' & -> & Hc); cbn beta iota.
      + intros _. eauto.
      + apply Conc.safe_bind. eapply Conc.safe_weaken; [|apply (safe_create_tail lfuel t idx x lb (Some s) vis' (Some s))].
        * intros [s'|] vw Hq; cbn in Hq; [subst vw; apply IH|discriminate].
        * right. split; [reflexivity|]. intros i Hi. apply Hc; [reflexivity|]. apply (proj2 (Hord r i)). exact Hi.
    - intros i Hi. apply (proj1 (Hord r i)). exact Hi.
    - intros i Hi. right. exact Hi.
  Qed.

  Lemma safe_faa_cnt {R} t (k : V -> prog R) l Q :
    (forall v, safe t (k v) l Q) -> safe t (Act a_faa_cnt k) l Q.
  Proof. intros H. apply safe_silent; auto using silent_faa_cnt. Qed.

  Lemma safe_enqueue fuel t idx x lb ord :
    (forall r, perm_ok (ord r)) ->
    safe t (enqueue fuel qf t x ord) (mkV false idx None (PEnq x lb None [] false)) (Qenq idx x lb).
  Proof.
    intros Hord. unfold enqueue. apply Conc.safe_bind.
    eapply Conc.safe_weaken; [|apply safe_protect_tail].
    intros [p0|] vw Hq; cbn in Hq; [subst vw|discriminate].
    apply Conc.safe_bind.
    assert (Hrest : forall s, safe t
       (Act a_faa_cnt (fun _ => bind (enq_rounds fuel fuel qf t x ord 0 s)
          (fun done => if done then Act (a_st_hp t 0 HNull) (fun _ => Ret true) else Ret false)))
       (enq_view idx x lb s [] false) (Qenq idx x lb)).
    { intros s. apply safe_faa_cnt. intros _. apply Conc.safe_bind.
      eapply Conc.safe_weaken; [|apply safe_enq_rounds; exact Hord].
      intros [|] vw Hq; [|discriminate]. destruct (Hq eq_refl) as (s' & vis & ->).
      apply safe_st_hp_free; [exact I|]. intros _. cbn. intros _. eauto. }
    destruct p0 as [s|].
    - cbn. apply Hrest.
    - eapply Conc.safe_weaken; [|apply (safe_create_tail fuel t idx x lb None [] None); left; reflexivity].
      intros [s|] vw Hq; cbn in Hq; [subst vw; apply Hrest|discriminate].
  Qed.

  (** ** dequeue *)
  Definition deq_view idx Sn sg vis hn emp hp0 cur : view := mkV false idx None (PDeq Sn sg vis hn emp hp0 cur).

  (** starting the scan of another segment (or learning that there is none) *)
  Lemma PH_deq_reset g tr t idx Sn sg vis hn emp hp0 cur sg' emp' :
    PH g tr t idx (PDeq Sn sg vis hn emp hp0 cur) ->
    (forall s, sg' = Some s -> s <= lo g) ->
    (emp' = true -> emp = true \/ forall y, Sn y -> marked g y) ->
    PH g tr t idx (PDeq Sn sg' [] false emp' hp0 None).
  Proof.
    cbn. intros (P1 & P2 & P3 & P4 & P5 & P6 & P7 & P8 & P9) H1 H2.
    split; [exact P1|]. split; [exact P2|]. split; [exact P3|]. split; [exact H1|].
    split; [intros s i _ []|]. split; [discriminate|]. split; [|split; [exact P8|discriminate]].
    intros E. destruct (H2 E) as [K|K]; auto.
  Qed.

  Lemma PH_deq_hp0 g tr t idx Sn sg vis hn emp hp0 cur : 
    PH g tr t idx (PDeq Sn sg vis hn emp hp0 cur) -> hp g t 0 = hp0.
  Proof. cbn. tauto. Qed.

  Definition is_none (p : option nat) : bool := match p with None => true | _ => false end.

  Lemma deq_own g a tr t g' k o b idx lk hd Sn sg vis hn emp hp0 cur :
    Inv qf g a tr -> a t = mkV hd idx lk (PDeq Sn sg vis hn emp hp0 cur) -> same_core g g' ->
    PH g' (tr ++ [(t, EvAcc k o b)]) t idx (PDeq Sn sg vis hn emp (hp g' t 0) cur).
  Proof.
    intros HI Hv Hc. pose proof (PH_own_acc qf g a tr t g' k o b HI Hc) as P. rewrite Hv in P. cbn [v_idx v_ph set_hp0] in P.
    apply P. discriminate.
  Qed.

  Lemma safe_ld_head {R} t idx Sn sg vis hn emp hp0 cur (k : V -> prog R) Q :
    (forall p, safe t (k (VS p)) (deq_view idx Sn p [] false (emp || is_none p) hp0 None) Q) ->
    safe t (Act a_ld_head k) (deq_view idx Sn sg vis hn emp hp0 cur) Q.
  Proof.
    intros Hk. apply safe_act. intros g a tr HI Hv. unfold aview, deq_view in Hv. cbn [a_ld_head fst snd]. rewrite tag1.
    exists (upd a t (deq_view idx Sn (headp g) [] false (emp || is_none (headp g)) hp0 None)). split; [|split; [apply frame_upd|]].
    - pose proof (Inv_view qf g a tr t g KLd obj_head true (PDeq Sn (headp g) [] false (emp || is_none (headp g)) hp0 None) HI) as K.
      use_view K Hv. apply K; clear K.
      + repeat split; auto.
      + auto.
      + discriminate.
      + pose proof (deq_own g a tr t g KLd obj_head true _ _ _ _ _ _ _ _ _ _ HI Hv ltac:(repeat split; auto)) as P.
        pose proof (vi_ph _ _ _ _ (inv_vi _ _ _ _ HI t)) as P0. rewrite Hv in P0. rewrite (PH_deq_hp0 _ _ _ _ _ _ _ _ _ _ _ P0) in P.
        eapply PH_deq_reset; [exact P| |].
        * apply (si_head _ _ (inv_si _ _ _ _ HI)).
        * intros E. apply orb_true_iff in E. destruct E as [E|E]; [left; exact E|right].
          destruct (headp g) eqn:Eh; [discriminate|].
          pose proof (si_head0 _ _ (inv_si _ _ _ _ HI) Eh) as El. intros y Hy.
          eapply all_marked_when_empty; [apply (inv_si _ _ _ _ HI)|exact El|].
          cbn in P0. destruct P0 as (_ & _ & S2 & _). auto.
      + apply taker_iff_ph; [discriminate|cbn; discriminate].
    - rewrite aview_upd_same. apply Hk.
  Qed.

  Definition Qprot_deq idx Sn hp0 : option (option nat) -> view -> Prop :=
    fun r vw => match r with None => True
                | Some p => exists emp, vw = deq_view idx Sn p [] false emp hp0 None /\ (p = None -> emp = true) end.

  Lemma safe_protect_head_loop fuel t idx Sn hp0 : forall pcur sg emp,
    safe t (protect_loop fuel a_ld_head t 1 pcur) (deq_view idx Sn sg [] false emp hp0 None) (Qprot_deq idx Sn hp0).
  Proof.
    induction fuel as [|f IH]; intros pcur sg emp; cbn [protect_loop]; [exact I|].
    apply safe_st_hp1. intros _. apply safe_faa_sync. intros _.
    apply safe_ld_head. intros p. cbn [seg_of]. destruct (optnat_eqb pcur p); [|apply IH].
    cbn. eexists. split; [reflexivity|]. intros ->. apply orb_true_r.
  Qed.

  Lemma safe_protect_head fuel t idx Sn sg vis hn emp hp0 cur :
    safe t (protect fuel a_ld_head t 1) (deq_view idx Sn sg vis hn emp hp0 cur) (Qprot_deq idx Sn hp0).
  Proof. unfold protect. apply safe_ld_head. intros p. apply safe_protect_head_loop. Qed.

  Definition scan_after (idx : nat) Sn s vis hn emp hp0 i (c : cell) : view :=
    match c with
    | (None, _) => deq_view idx Sn (Some s) (i :: vis) true emp hp0 None
    | (Some y, true) => deq_view idx Sn (Some s) (i :: vis) hn emp hp0 None
    | (Some y, false) => deq_view idx Sn (Some s) vis hn emp hp0 (Some (i, y))
    end.

  Lemma PH_deq_load g tr t idx Sn s vis hn emp hp0 cur i :
    SI qf g -> i < qf ->
    PH g tr t idx (PDeq Sn (Some s) vis hn emp hp0 cur) ->
    PH g tr t idx (v_ph (scan_after idx Sn s vis hn emp hp0 i (cells g s i))).
  Proof.
    intros HS Hi. cbn [PH]. intros (P1 & P2 & P3 & P4 & P5 & P6 & P7 & P8 & P9).
    destruct (cells g s i) as [[y|] m] eqn:C; [destruct m|]; cbn [scan_after deq_view v_ph PH].
    - split; [exact P1|]. split; [exact P2|]. split; [exact P3|]. split; [exact P4|]. split.
      { intros s0 i0 E [<-|Hin]; [|eauto]. inversion E; subst. left. unfold cmark. now rewrite C. }
      split; [exact P6|]. split; [exact P7|]. split; [exact P8|discriminate].
    - split; [exact P1|]. split; [exact P2|]. split; [exact P3|]. split; [exact P4|]. split; [exact P5|].
      split; [exact P6|]. split; [exact P7|]. split; [exact P8|].
      intros i0 x0 s0 E1 E2. inversion E1; inversion E2; subst. unfold cptr. now rewrite C.
    - split; [exact P1|]. split; [exact P2|]. split; [exact P3|]. split; [exact P4|]. split.
      { intros s0 i0 E [<-|Hin].
        - inversion E; subst. right. split; [reflexivity|]. intros y _. unfold cptr. rewrite C. discriminate.
        - destruct (P5 s0 i0 E Hin) as [K|[K1 K2]]; [left; exact K|right; split; [reflexivity|exact K2]]. }
      split.
      { intros _ s0 E y s' i' Hy K. inversion E; subst s0.
        destruct (si_range _ _ HS s' i') as (L & _); [rewrite K; discriminate|].
        destruct (Nat.le_gt_cases s' s) as [Le|Gt]; [exact Le|exfalso].
        apply (si_full _ _ HS s i); [lia|exact Hi|]. unfold cptr. now rewrite C. }
      split; [exact P7|]. split; [exact P8|discriminate].
  Qed.

  Lemma safe_ld_cell_deq {R} t idx Sn s vis hn emp hp0 cur i (k : V -> prog R) Q :
    i < qf ->
    (forall c, (fst c = None -> snd c = false) -> safe t (k (VC c)) (scan_after idx Sn s vis hn emp hp0 i c) Q) ->
    safe t (Act (a_ld_cell s i) k) (deq_view idx Sn (Some s) vis hn emp hp0 cur) Q.
  Proof.
    intros Hi Hk. apply safe_act. intros g a tr HI Hv. unfold aview, deq_view in Hv. cbn [a_ld_cell fst snd]. rewrite tag1.
    exists (upd a t (scan_after idx Sn s vis hn emp hp0 i (cells g s i))). split; [|split; [apply frame_upd|]].
    - pose proof (Inv_view qf g a tr t g KLd (obj_cell s i) true (v_ph (scan_after idx Sn s vis hn emp hp0 i (cells g s i))) HI) as K.
      use_view K Hv.
      replace (scan_after idx Sn s vis hn emp hp0 i (cells g s i))
        with (mkV false idx None (v_ph (scan_after idx Sn s vis hn emp hp0 i (cells g s i))))
        by (destruct (cells g s i) as [[y|] [|]]; reflexivity).
      apply K; clear K.
      + repeat split; auto.
      + auto.
      + destruct (cells g s i) as [[y|] [|]]; discriminate.
      + pose proof (deq_own g a tr t g KLd (obj_cell s i) true _ _ _ _ _ _ _ _ _ _ HI Hv ltac:(repeat split; auto)) as P.
        pose proof (vi_ph _ _ _ _ (inv_vi _ _ _ _ HI t)) as P0. rewrite Hv in P0. rewrite (PH_deq_hp0 _ _ _ _ _ _ _ _ _ _ _ P0) in P.
        eapply PH_deq_load; [apply (inv_si _ _ _ _ HI)|exact Hi|exact P].
      + apply taker_iff_ph; [destruct (cells g s i) as [[y|] [|]]; discriminate|cbn; discriminate].
    - rewrite aview_upd_same. apply Hk. apply (si_wf _ _ (inv_si _ _ _ _ HI) s i).
  Qed.

  (** itemGuard.assign: slot 0 of a dequeuer *)
  Lemma safe_st_hp0_deq {R} t idx Sn sg vis hn emp hp0 cur h (k : V -> prog R) Q :
    (forall v, safe t (k v) (deq_view idx Sn sg vis hn emp h cur) Q) ->
    safe t (Act (a_st_hp t 0 h) k) (deq_view idx Sn sg vis hn emp hp0 cur) Q.
  Proof.
    intros Hk. apply safe_act. intros g a tr HI Hv. unfold aview, deq_view in Hv. cbn [a_st_hp fst snd]. rewrite tag1.
    exists (upd a t (deq_view idx Sn sg vis hn emp h cur)). split; [|split; [apply frame_upd|]].
    - pose proof (Inv_view qf g a tr t (set_hp g t 0 h) KSt (obj_hp t 0) true (PDeq Sn sg vis hn emp h cur) HI) as K.
      use_view K Hv. apply K; clear K.
      + repeat split; auto.
      + intros t' N. cbn. destruct (Nat.eqb_spec t' t); [contradiction|reflexivity].
      + discriminate.
      + pose proof (deq_own g a tr t (set_hp g t 0 h) KSt (obj_hp t 0) true _ _ _ _ _ _ _ _ _ _ HI Hv ltac:(repeat split; auto)) as P.
        cbn [hp set_hp] in P. rewrite !Nat.eqb_refl in P. exact P.
      + apply taker_iff_ph; [discriminate|cbn; discriminate].
    - rewrite aview_upd_same. apply Hk.
  Qed.

  Lemma PH_deq_casfail g tr t idx Sn s vis hn emp hp0 i y :
    PH g tr t idx (PDeq Sn (Some s) vis hn emp hp0 (Some (i, y))) ->
    cells g s i <> (Some y, false) ->
    PH g tr t idx (PDeq Sn (Some s) (i :: vis) hn emp hp0 None).
  Proof.
    cbn [PH]. intros (P1 & P2 & P3 & P4 & P5 & P6 & P7 & P8 & P9) N.
    split; [exact P1|]. split; [exact P2|]. split; [exact P3|]. split; [exact P4|]. split.
    { intros s0 i0 E [<-|Hin]; [|eauto]. inversion E; subst s0. left.
      pose proof (P9 i y s eq_refl eq_refl) as K. unfold cptr, cmark in *.
      destruct (cells g s i) as [p m]. cbn in *. subst p. destruct m; [reflexivity|congruence]. }
    split; [exact P6|]. split; [exact P7|]. split; [exact P8|discriminate].
  Qed.

  Definition Qscan idx Sn s emp (all : list nat) : scan_res -> view -> Prop :=
    fun r vw => match r with
      | SGot x => vw = mkV false idx None (PGot x false)
      | SNone hn' => exists vis' hp0', vw = deq_view idx Sn (Some s) vis' hn' emp hp0' None /\ (forall i, In i all -> In i vis')
      end.

  Lemma safe_deq_scan t idx Sn s emp all : forall ord vis hn hp0,
    (forall i, In i ord -> i < qf) ->
    (forall i, In i all -> In i vis \/ In i ord) ->
    safe t (deq_scan t s ord hn) (deq_view idx Sn (Some s) vis hn emp hp0 None) (Qscan idx Sn s emp all).
  Proof.
    induction ord as [|i r IH]; intros vis hn hp0 Hlt Hall; cbn [deq_scan].
    - cbn. exists vis, hp0. split; [reflexivity|]. intros j Hj. destruct (Hall j Hj) as [K|[]]; exact K.
    - assert (Hr : forall hn' hp0', safe t (deq_scan t s r hn') (deq_view idx Sn (Some s) (i :: vis) hn' emp hp0' None) (Qscan idx Sn s emp all)).
      { intros hn' hp0'. apply IH; [intros j Hj; apply Hlt; right; exact Hj|].
        intros j Hj. destruct (Hall j Hj) as [K|[K|K]]; [left; right; exact K|left; left; exact K|right; exact K]. }
      apply safe_ld_cell_deq; [apply Hlt; left; reflexivity|]. intros c Hwf. cbn [cell_of].
      destruct c as [[y|] m]; cbn [fst snd] in *.
      + destruct m; cbn [scan_after].
        * apply safe_st_hp0_deq. intros _. apply safe_faa_sync. intros _. apply Hr.
        * apply safe_st_hp0_deq. intros _. apply safe_faa_sync. intros _.
          apply safe_act. intros g a tr HI Hv. unfold aview, deq_view in Hv. unfold a_cas_cell.
          destruct (cell_eqb (cells g s i) (Some y, false)) eqn:Hc; cbn [fst snd]; rewrite tag1.
          -- apply cell_eqb_eq in Hc.
             exists (upd a t (mkV false idx None (PGot y false))). split; [|split; [apply frame_upd|]].
             ++ pose proof (Inv_mark qf g a tr t s i y Sn vis hn emp (Some (i, y)) HI) as K. use_view K Hv. apply K; auto.
             ++ rewrite aview_upd_same. cbn. reflexivity.
          -- exists (upd a t (deq_view idx Sn (Some s) (i :: vis) hn emp (hitem (Some y)) None)). split; [|split; [apply frame_upd|]].
             ++ pose proof (Inv_view qf g a tr t g KCas (obj_cell s i) false (PDeq Sn (Some s) (i :: vis) hn emp (hitem (Some y)) None) HI) as K.
                use_view K Hv. apply K; clear K.
                ** repeat split; auto.
                ** auto.
                ** discriminate.
                ** pose proof (deq_own g a tr t g KCas (obj_cell s i) false _ _ _ _ _ _ _ _ _ _ HI Hv ltac:(repeat split; auto)) as P.
                   pose proof (vi_ph _ _ _ _ (inv_vi _ _ _ _ HI t)) as P0. rewrite Hv in P0. rewrite (PH_deq_hp0 _ _ _ _ _ _ _ _ _ _ _ P0) in P.
                   eapply PH_deq_casfail; [exact P|]. intros E. rewrite E in Hc.
                   assert (cell_eqb (Some y, false) (Some y, false) = true) by (apply cell_eqb_eq; reflexivity). congruence.
                ** apply taker_iff_ph; [discriminate|cbn; discriminate].
             ++ rewrite aview_upd_same. cbn [ok_of]. apply Hr.
      + rewrite (Hwf eq_refl). cbn [scan_after].
        apply safe_st_hp0_deq. intros _. apply safe_faa_sync. intros _. apply Hr.
  Qed.

  (** ** remove_head *)
  Lemma safe_st_tail_none {R} t l (k : V -> prog R) Q :
    (forall v, safe t (k v) l Q) -> safe t (Act (a_st_tail None) k) l Q.
  Proof.
    intros Hk. apply safe_act. intros g a tr HI Hv. unfold aview in Hv. cbn [a_st_tail fst snd]. rewrite tag1.
    exists (upd a t (a t)). split; [|split; [apply frame_upd|]].
    - apply Inv_st_tail; auto. discriminate.
    - rewrite aview_upd_same, Hv. apply Hk.
  Qed.

  (** m_pHead.store( front of the list, or null when the list is empty ) by the lock holder *)
  Lemma safe_st_head_locked {R} t idx l n ph (k : V -> prog R) Q :
    (forall v, safe t (k v) (mkV false idx (Some (l, n)) ph) Q) ->
    safe t (Act (a_st_head (hd_opt l)) k) (mkV false idx (Some (l, n)) ph) Q.
  Proof.
    intros Hk. apply safe_act. intros g a tr HI Hv. unfold aview in Hv. cbn [a_st_head fst snd]. rewrite tag1.
    destruct (lock_facts _ _ _ _ _ _ _ _ _ HI Hv) as (_ & El & En).
    exists (upd a t (mkV false idx (Some (l, n)) ph)). split; [|split; [apply frame_upd|]].
    - pose proof (Inv_st_head qf g a tr t (hd_opt l) false HI) as K. use_view K Hv. apply K.
      + discriminate.
      + intros s E. destruct l as [|f r]; [discriminate|]. cbn in E. inversion E; subst s.
        destruct (slist_front _ _ _ _ (inv_si _ _ _ _ HI) El) as (-> & _). lia.
      + intros E. destruct l; [exact El|discriminate].
      + discriminate.
    - rewrite aview_upd_same. apply Hk.
  Qed.

  (** guard.assign( front of the list or null ) by the lock holder: the dequeuer's segment is the new front *)
  Lemma safe_st_hp1_front {R} t idx l n Sn sg vis hn emp hp0 cur h (k : V -> prog R) Q :
    (forall v, safe t (k v) (mkV false idx (Some (l, n)) (PDeq Sn (hd_opt l) [] false (emp || is_nil l) hp0 None)) Q) ->
    safe t (Act (a_st_hp t 1 h) k) (mkV false idx (Some (l, n)) (PDeq Sn sg vis hn emp hp0 cur)) Q.
  Proof.
    intros Hk. apply safe_act. intros g a tr HI Hv. unfold aview in Hv. cbn [a_st_hp fst snd]. rewrite tag1.
    destruct (lock_facts _ _ _ _ _ _ _ _ _ HI Hv) as (_ & El & En).
    exists (upd a t (mkV false idx (Some (l, n)) (PDeq Sn (hd_opt l) [] false (emp || is_nil l) hp0 None))). split; [|split; [apply frame_upd|]].
    - pose proof (Inv_view qf g a tr t (set_hp g t 1 h) KSt (obj_hp t 1) true (PDeq Sn (hd_opt l) [] false (emp || is_nil l) hp0 None) HI) as K.
      use_view K Hv. apply K; clear K.
      + repeat split; auto.
      + intros t' N. cbn. destruct (Nat.eqb_spec t' t); [contradiction|reflexivity].
      + discriminate.
      + pose proof (deq_own g a tr t (set_hp g t 1 h) KSt (obj_hp t 1) true _ _ _ _ _ _ _ _ _ _ HI Hv ltac:(repeat split; auto)) as P.
        pose proof (vi_ph _ _ _ _ (inv_vi _ _ _ _ HI t)) as P0. rewrite Hv in P0.
        rewrite hp_st_other in P by discriminate. rewrite (PH_deq_hp0 _ _ _ _ _ _ _ _ _ _ _ P0) in P.
        eapply PH_deq_reset; [exact P| |].
        * intros s E. change (s <= lo g). destruct l as [|f r]; [discriminate|]. cbn in E. inversion E; subst s.
          destruct (slist_front _ _ _ _ (inv_si _ _ _ _ HI) El) as (-> & _). lia.
        * intros E. apply orb_true_iff in E. destruct E as [E|E]; [left; exact E|right].
          destruct l; [|discriminate]. intros y Hy. apply (marked_ext g (set_hp g t 1 h)); [intros ? ?; reflexivity|].
          eapply all_marked_when_empty; [apply (inv_si _ _ _ _ HI)|exact El|].
          cbn in P0. destruct P0 as (_ & _ & S2 & _). auto.
      + apply taker_iff_ph; [discriminate|cbn; discriminate].
    - rewrite aview_upd_same. apply Hk.
  Qed.

  Lemma safe_pop {R} t idx f rest n Sn vis emp hp0 cur h (k : V -> prog R) Q :
    covers qf vis ->
    (forall v, safe t (k v) (mkV false idx (Some (rest, n)) (PDeq Sn (hd_opt rest) [] false (emp || is_nil rest) hp0 None)) Q) ->
    safe t (Act (a_pop_st_hp t 1 h) k) (mkV false idx (Some (f :: rest, n)) (PDeq Sn (Some f) vis false emp hp0 cur)) Q.
  Proof.
    intros Hc Hk. apply safe_act. intros g a tr HI Hv. unfold aview in Hv. cbn [a_pop_st_hp fst snd]. rewrite tag1.
    exists (upd a t (mkV false idx (Some (rest, n)) (PDeq Sn (hd_opt rest) [] false (emp || is_nil rest) hp0 None))). split; [|split; [apply frame_upd|]].
    - pose proof (Inv_pop qf g a tr t f rest n Sn vis emp hp0 cur h HI) as K. use_view K Hv. apply K; auto.
    - rewrite aview_upd_same. apply Hk.
  Qed.

  Lemma safe_ld_ret {R} t s (k : V -> prog R) l Q : (forall v, safe t (k v) l Q) -> safe t (Act (a_ld_ret t s) k) l Q.
  Proof. intros H. apply safe_silent; auto using silent_ld_ret. Qed.
  Lemma safe_st_ret {R} t (k : V -> prog R) l Q : (forall v, safe t (k v) l Q) -> safe t (Act (a_st_ret t) k) l Q.
  Proof. intros H. apply safe_silent; auto using silent_st_ret. Qed.

  Lemma safe_remove_head fuel t idx Sn s vis emp hp0 :
    covers qf vis ->
    safe t (remove_head fuel t 1 s) (deq_view idx Sn (Some s) vis false emp hp0 None) (Qprot_deq idx Sn hp0).
  Proof.
    intros Hc. unfold remove_head. apply Conc.safe_bind.
    eapply Conc.safe_weaken; [|apply safe_lock_loops].
    intros [[l n]|] vw Hq; cbn in Hq; [subst vw|exact I].
    assert (Hend : forall p emp', (p = None -> emp' = true) ->
              safe t (Ret (Some p)) (mkV false idx None (PDeq Sn p [] false emp' hp0 None)) (Qprot_deq idx Sn hp0)).
    { intros p emp' H. cbn. exists emp'. split; [reflexivity|exact H]. }
    destruct l as [|f rest].
    - apply safe_st_tail_none. intros _. apply (safe_st_head_locked t idx [] n). intros _.
      apply safe_st_hp1_front. intros _. apply safe_unlock. intros _. apply Hend. intros _. apply orb_true_r.
    - destruct (Nat.eqb s f) eqn:Ef; cbn [negb].
      + apply Nat.eqb_eq in Ef. subst f.
        assert (Hret : forall p emp', (p = None -> emp' = true) ->
                  safe t (Act a_unlock (fun _ => Act (a_ld_ret t s) (fun _ => Act (a_st_ret t) (fun _ => Ret (Some p)))))
                    (mkV false idx (Some (rest, n)) (PDeq Sn p [] false emp' hp0 None)) (Qprot_deq idx Sn hp0)).
        { intros p emp' H. apply safe_unlock. intros _. apply safe_ld_ret. intros _. apply safe_st_ret. intros _. apply Hend. exact H. }
        destruct rest as [|f2 r2].
        * apply safe_pop; [exact Hc|]. intros _. apply safe_st_tail_none. intros _.
          apply (safe_st_head_locked t idx [] n). intros _. apply Hret. intros _. apply orb_true_r.
        * apply safe_pop; [exact Hc|]. intros _. apply safe_faa_sync. intros _.
          apply (safe_st_head_locked t idx (f2 :: r2) n). intros _. apply Hret. discriminate.
      + apply (safe_st_head_locked t idx (f :: rest) n). intros _. unfold assign_seg.
        apply safe_st_hp1_front. intros _. apply safe_faa_sync. intros _. apply safe_unlock. intros _. apply Hend. discriminate.
  Qed.

  (** ** do_dequeue / dequeue *)
  Definition Qrounds idx Sn : rounds_res -> view -> Prop :=
    fun r vw => match r with
      | RFuel => True
      | RGot x => vw = mkV false idx None (PGot x false)
      | REmpty => exists sg vis hn emp hp0, vw = deq_view idx Sn sg vis hn emp hp0 None /\
                    (emp = true \/ (hn = true /\ sg <> None /\ covers qf vis))
      end.

  Lemma safe_fas_cnt {R} t (k : V -> prog R) l Q :
    (forall v, safe t (k v) l Q) -> safe t (Act a_fas_cnt k) l Q.
  Proof. intros H. apply safe_silent; auto using silent_fas_cnt. Qed.

  Lemma safe_deq_rounds lfuel t idx Sn ord :
    (forall r, perm_ok (ord r)) ->
    forall fuel r ph emp hp0, (ph = None -> emp = true) ->
    safe t (deq_rounds fuel lfuel t ord r ph) (deq_view idx Sn ph [] false emp hp0 None) (Qrounds idx Sn).
  Proof.
    intros Hord. induction fuel as [|f IH]; intros r ph emp hp0 Hemp; cbn [deq_rounds]; [exact I|].
    destruct ph as [s|].
    - apply Conc.safe_bind. eapply Conc.safe_weaken; [|apply (safe_deq_scan t idx Sn s emp (ord r))].
      + intros [x|hn'] vw Hq; cbn in Hq.
        * subst vw. apply safe_fas_cnt. intros _. reflexivity.
        * destruct Hq as (vis' & hp0' & -> & Hc). 
          assert (Hcov : covers qf vis') by (intros i Hi; apply Hc; apply (proj2 (Hord r i)); exact Hi).
          destruct hn'.
          -- cbn. exists (Some s), vis', true, emp, hp0'. split; [reflexivity|]. right. repeat split; auto. discriminate.
          -- apply Conc.safe_bind. eapply Conc.safe_weaken; [|apply safe_remove_head; exact Hcov].
             intros [ph'|] vw Hq; cbn in Hq; [|exact I]. destruct Hq as (emp' & -> & He). apply IH. exact He.
      + intros i Hi. apply (proj1 (Hord r i)). exact Hi.
      + intros i Hi. right. exact Hi.
    - cbn. exists None, [], false, emp, hp0. split; [reflexivity|]. left. auto.
  Qed.

  Lemma PH_deq_emp g tr t idx Sn sg vis hn emp hp0 :
    SI qf g ->
    PH g tr t idx (PDeq Sn sg vis hn emp hp0 None) ->
    (emp = true \/ (hn = true /\ sg <> None /\ covers qf vis)) ->
    PH g tr t idx (PDeq Sn sg vis hn true hp0 None).
  Proof.
    intros HS. cbn [PH]. intros (P1 & P2 & P3 & P4 & P5 & P6 & P7 & P8 & P9) Hor.
    split; [exact P1|]. split; [exact P2|]. split; [exact P3|]. split; [exact P4|]. split; [exact P5|].
    split; [exact P6|]. split; [|split; [exact P8|exact P9]].
    intros _ y Hy. destruct Hor as [E|(Hn & Hs & Hc)]; [auto|].
    destruct sg as [s|]; [|congruence].
    destruct (P3 y Hy) as (sy & iy & K). exists sy, iy.
    destruct (si_range _ _ HS sy iy) as (L1 & L2); [rewrite K; discriminate|].
    pose proof (P6 Hn s eq_refl y sy iy Hy K) as Le.
    assert (M : cmark g sy iy = true).
    { destruct (Nat.eq_dec sy s) as [->|N].
      - destruct (P5 s iy eq_refl (Hc iy L2)) as [M|[_ M]]; [exact M|]. exfalso. eapply M; eauto.
      - apply (si_exh _ _ HS); [|exact L2]. specialize (P4 s eq_refl). lia. }
    unfold cptr, cmark in *. destruct (cells g sy iy); cbn in *; subst; reflexivity.
  Qed.

  Lemma safe_st_hp1_emp {R} t idx Sn sg vis hn emp hp0 h (k : V -> prog R) Q :
    (emp = true \/ (hn = true /\ sg <> None /\ covers qf vis)) ->
    (forall v, safe t (k v) (deq_view idx Sn sg vis hn true hp0 None) Q) ->
    safe t (Act (a_st_hp t 1 h) k) (deq_view idx Sn sg vis hn emp hp0 None) Q.
  Proof.
    intros Hor Hk. apply safe_act. intros g a tr HI Hv. unfold aview, deq_view in Hv. cbn [a_st_hp fst snd]. rewrite tag1.
    exists (upd a t (deq_view idx Sn sg vis hn true hp0 None)). split; [|split; [apply frame_upd|]].
    - pose proof (Inv_view qf g a tr t (set_hp g t 1 h) KSt (obj_hp t 1) true (PDeq Sn sg vis hn true hp0 None) HI) as K.
      use_view K Hv. apply K; clear K.
      + repeat split; auto.
      + intros t' N. cbn. destruct (Nat.eqb_spec t' t); [contradiction|reflexivity].
      + discriminate.
      + pose proof (deq_own g a tr t (set_hp g t 1 h) KSt (obj_hp t 1) true _ _ _ _ _ _ _ _ _ _ HI Hv ltac:(repeat split; auto)) as P.
        pose proof (vi_ph _ _ _ _ (inv_vi _ _ _ _ HI t)) as P0. rewrite Hv in P0.
        rewrite hp_st_other in P by discriminate. rewrite (PH_deq_hp0 _ _ _ _ _ _ _ _ _ _ _ P0) in P.
        eapply PH_deq_emp; [|exact P|exact Hor].
        eapply SI_ext; [apply (inv_si _ _ _ _ HI)|repeat split; auto].
      + apply taker_iff_ph; [discriminate|cbn; discriminate].
    - rewrite aview_upd_same. apply Hk.
  Qed.

  (** itemGuard.get(): the dequeuer reads back the pointer it protected *)
  Lemma safe_ld_hp_got {R} t idx x (k : V -> prog R) Q :
    safe t (k (VH (HItem x))) (mkV false idx None (PGot x true)) Q ->
    safe t (Act (a_ld_hp t 0) k) (mkV false idx None (PGot x false)) Q.
  Proof.
    intros Hk. apply safe_act. intros g a tr HI Hv. unfold aview in Hv. cbn [a_ld_hp fst snd]. rewrite tag1.
    pose proof (vi_ph _ _ _ _ (inv_vi _ _ _ _ HI t)) as P0. rewrite Hv in P0. cbn in P0. destruct P0 as (P1 & P2 & P3).
    rewrite (P3 eq_refl).
    exists (upd a t (mkV false idx None (PGot x true))). split; [|split; [apply frame_upd|]].
    - pose proof (Inv_view qf g a tr t g KLd (obj_hp t 0) true (PGot x true) HI) as K.
      use_view K Hv. apply K; clear K.
      + repeat split; auto.
      + auto.
      + discriminate.
      + cbn. split; [apply in_evs_snoc; auto|]. split; [exact P2|discriminate].
      + intros y. unfold taker. cbn. split; intros (rd & E); inversion E; eauto.
    - rewrite aview_upd_same. exact Hk.
  Qed.

  Definition Qdeq idx Sn : deq_res -> view -> Prop :=
    fun r vw => match r with
      | DFuel => True
      | DEmpty => exists sg vis hn hp0 cur, vw = deq_view idx Sn sg vis hn true hp0 cur
      | DGot h => exists x, h = HItem x /\ vw = mkV false idx None (PGot x true)
      end.

  Lemma safe_dequeue fuel t idx Sn hp0 ord :
    (forall r, perm_ok (ord r)) ->
    safe t (dequeue fuel t ord) (deq_view idx Sn None [] false false hp0 None) (Qdeq idx Sn).
  Proof.
    intros Hord. unfold dequeue. apply Conc.safe_bind.
    eapply Conc.safe_weaken; [|apply safe_protect_head].
    intros [ph|] vw Hq; cbn in Hq; [|exact I]. destruct Hq as (emp & -> & He).
    apply Conc.safe_bind. eapply Conc.safe_weaken; [|apply safe_deq_rounds; [exact Hord|exact He]].
    intros [| |x] vw Hq; cbn in Hq.
    - exact I.
    - destruct Hq as (sg & vis & hn & emp' & hp0' & -> & Hor).
      apply safe_st_hp1_emp; [exact Hor|]. intros _. apply safe_st_hp0_deq. intros _. cbn. eauto 10.
    - subst vw. apply safe_silent; [apply silent_st_hp|left; intros g; apply hp_st_other; discriminate|].
      intros _. apply safe_ld_hp_got. apply safe_st_hp_free; [exact I|]. intros _. cbn. eauto.
  Qed.

  (** ** client operations, threads *)
  Definition op_ok (o : op) : Prop :=
    match o with OEnq _ ord => forall r, perm_ok (ord r) | ODeq ord => forall r, perm_ok (ord r) end.

  Lemma safe_emit {R} t (e : ev) (k : prog R) l (Q : R -> view -> Prop) :
    (forall g a tr, Inv qf g a tr -> aview a t = l ->
       exists a', Inv qf g a' (tr ++ [(t, e)]) /\ Conc.frame aview t a a' /\ safe t k (aview a' t) Q) ->
    safe t (Emit [e] k) l Q.
  Proof. intros H. exact H. Qed.

  Definition idle_view (k : nat) : view := mkV false k None PIdle.
  Definition Qop (k : nat) : bool -> view -> Prop := fun r vw => r = true -> vw = idle_view (S k).

  Lemma safe_emit_other {R} t name (k : prog R) l Q :
    ev_op (EvCli name []) = None -> safe t k l Q -> safe t (Emit [EvCli name []] k) l Q.
  Proof.
    intros Hop Hk. apply safe_emit. intros g a tr HI Hv. unfold aview in Hv.
    exists (upd a t (a t)). split; [|split; [apply frame_upd|]].
    - apply Inv_emit_other; auto.
    - rewrite aview_upd_same, Hv. exact Hk.
  Qed.

  Lemma safe_run_op fuel t k o : op_ok o -> safe t (run_op fuel qf t k o) (idle_view k) (Qop k).
  Proof.
    intros Hok. destruct o as [v ord|ord]; cbn [run_op].
    - apply safe_emit. intros g a tr HI Hv. unfold aview, idle_view in Hv.
      exists (upd a t (mkV false k None (PEnq (t, k, v) (nalloc g) None [] false))). split; [|split; [apply frame_upd|]].
      + pose proof (Inv_inv_enq qf g a tr t v HI) as K. rewrite ?Hv in K. cbn [v_hd v_idx v_lock v_ph] in K. apply K. reflexivity.
      + rewrite aview_upd_same. apply Conc.safe_bind.
        eapply Conc.safe_weaken; [|apply safe_enqueue; exact Hok].
        intros [|] vw Hq.
        * destruct (Hq eq_refl) as (s & vis & ->).
          apply safe_emit. intros g1 a1 tr1 HI1 Hv1. unfold aview, enq_view in Hv1.
          exists (upd a1 t (idle_view (S k))). split; [|split; [apply frame_upd|]].
          -- pose proof (Inv_ret_enq qf g1 a1 tr1 t (t, k, v) (nalloc g) (Some s) vis HI1) as K.
             rewrite ?Hv1 in K. cbn [v_hd v_idx v_lock v_ph] in K. apply K. reflexivity.
          -- rewrite aview_upd_same. intros _. reflexivity.
        * apply safe_emit_other; [reflexivity|]. cbn. discriminate.
    - apply safe_emit. intros g a tr HI Hv. unfold aview, idle_view in Hv.
      exists (upd a t (deq_view k (inserted g) None [] false false (hp g t 0) None)). split; [|split; [apply frame_upd|]].
      + pose proof (Inv_inv_deq qf g a tr t HI) as K. rewrite ?Hv in K. cbn [v_hd v_idx v_lock v_ph] in K. apply K. reflexivity.
      + rewrite aview_upd_same. apply Conc.safe_bind.
        eapply Conc.safe_weaken; [|apply safe_dequeue; exact Hok].
        intros [| |h] vw Hq; cbn in Hq.
        * apply safe_emit_other; [reflexivity|]. cbn. discriminate.
        * destruct Hq as (sg & vis & hn & hp0 & cur & ->).
          apply safe_emit. intros g1 a1 tr1 HI1 Hv1. unfold aview, deq_view in Hv1.
          exists (upd a1 t (idle_view (S k))). split; [|split; [apply frame_upd|]].
          -- pose proof (Inv_ret_deq_empty qf g1 a1 tr1 t (inserted g) sg vis hn hp0 cur HI1) as K.
             rewrite ?Hv1 in K. cbn [v_hd v_idx v_lock v_ph] in K. apply K. reflexivity.
          -- rewrite aview_upd_same. intros _. reflexivity.
        * destruct Hq as (x & -> & ->).
          apply safe_emit. intros g1 a1 tr1 HI1 Hv1. unfold aview in Hv1.
          exists (upd a1 t (idle_view (S k))). split; [|split; [apply frame_upd|]].
          -- pose proof (Inv_ret_deq_got qf g1 a1 tr1 t x HI1) as K.
             rewrite ?Hv1 in K. cbn [v_hd v_idx v_lock v_ph] in K. apply K. reflexivity.
          -- rewrite aview_upd_same. intros _. reflexivity.
  Qed.

  Lemma safe_run_ops fuel t : forall os k,
    Forall op_ok os -> safe t (run_ops fuel qf t k os) (idle_view k) (@Conc.QTrue view).
  Proof.
    induction os as [|o r IH]; intros k Hok; cbn [run_ops]; [exact I|].
    inversion Hok; subst. apply Conc.safe_bind. eapply Conc.safe_weaken; [|apply safe_run_op; assumption].
    intros [|] vw Hq; [|exact I]. rewrite (Hq eq_refl). apply IH. assumption.
  Qed.

  Lemma safe_thread fuel t os :
    Forall op_ok os -> safe t (thread_prog fuel qf t os) (idle_view 0) (@Conc.QTrue view).
  Proof.
    intros Hok. unfold thread_prog. apply safe_silent; [apply silent_begin|right; exact I|].
    intros _. apply safe_run_ops. exact Hok.
  Qed.

  (** ** the initial configuration *)
  Definition aux0 : Aux := fun _ => idle_view 0.

  Lemma Inv_init : Inv qf init aux0 [].
  Proof.
    split.
    - split; cbn; try discriminate; auto; try (intros; lia).
      intros s i H. exfalso. apply H. reflexivity.
    - split.
      + intros x [].
      + intros x (s & i & H). discriminate.
      + intros x y sx ix sy iy (tr1 & tr2 & E & _ & _ & H). destruct tr1; destruct tr2; cbn in *; try discriminate; try contradiction.
      + intros t k y [].
      + intros x H. cbn in H. lia.
    - intros t. split; cbn; auto; try discriminate. intros t' e k [].
    - reflexivity.
    - intros t t' H. cbn in H. congruence.
    - intros x t t' (rd & E). discriminate.
    - intros x t (rd & E). discriminate.
    - intros x (s & i & H). discriminate.
  Qed.

  Definition prog_ok (ths : list (list op)) : Prop := Forall (Forall op_ok) ths.

  Lemma threads_safe_from fuel : forall ths t0,
    prog_ok ths ->
    forall t p, nth_error (thread_progs fuel qf t0 ths) t = Some p -> safe (t0 + t) p (idle_view 0) (@Conc.QTrue view).
  Proof.
    induction ths as [|os r IH]; intros t0 Hok t p H; cbn [thread_progs] in H.
    - destruct t; discriminate.
    - inversion Hok; subst. destruct t as [|t]; cbn in H.
      + inversion H; subst. rewrite Nat.add_0_r. apply safe_thread. assumption.
      + replace (t0 + S t) with (S t0 + t) by lia. apply IH; assumption.
  Qed.
End Safe.

(** every reachable configuration satisfies the invariant, for some auxiliary state *)
Theorem segq_Inv fuel arg ths c :
  prog_ok (ceil2 arg) ths ->
  Conc.reach (init_cfg fuel arg ths) c ->
  exists a, Inv (ceil2 arg) (Conc.shared c) a (Conc.trace c).
Proof.
  intros Hok Hr. eapply (Conc.reach_Inv (view := aview)); [|exact Hr].
  exists (aux0). split.
  - cbn. apply Inv_init.
  - intros t p Hp. cbn [init_cfg Conc.threads] in Hp.
    apply (threads_safe_from (ceil2 arg) fuel ths 0 Hok t p Hp).
Qed.
