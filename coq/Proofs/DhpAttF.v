(** * DhpAttF: create_thread_data: a new record appended to the record table (not yet on the list). *)
From Coq Require Import ZArith NArith List String Bool Lia PeanoNat.
From LV Require Import Base.Conc Base.Events Model.DhpLang Model.Dhp Proofs.DhpBase Proofs.DhpHist
  Proofs.DhpLangProofs Proofs.DhpInvA Proofs.DhpStepsA Proofs.DhpQuietA Proofs.DhpSlotA Proofs.DhpScanA Proofs.DhpScanC
  Proofs.DhpPresA Proofs.DhpAllocA Proofs.DhpAllocB Proofs.DhpViewA Proofs.DhpDetB Proofs.DhpDetC Proofs.DhpAttA Proofs.DhpAttC
  Proofs.DhpAttD.
Import ListNotations.

Section AttF.
  Variable c : cfg.

  Lemma JA_newrec g a h t l :
    JA c g a h -> views a t = l -> va_unpub l = None ->
    let nr := List.length (recs g) in
    JA c (fst (new_rec c g)) (upd_aux a t (with_unpub_hold l (Some (nr, (false, None))) (va_hold l)) (bown a)) h.
  Proof.
    intros J Hv Hu nr. pose proof J as [J1 J2 J3 J4 J5 J6 J7 J8 J9 J10 J11 J12 J15 J16 J17 J18 J13 J14].
    set (g' := fst (new_rec c g)).
    destruct (views_unpub_hold a t l (Some (nr, (false, None))) (va_hold l) Hv) as (V & Vs & F).
    set (a' := upd_aux a t (with_unpub_hold l (Some (nr, (false, None))) (va_hold l)) (bown a)) in *.
    rewrite <- Hv in Hu.
    assert (Lr : List.length (recs g') = S nr) by (unfold g', new_rec; cbn; rewrite app_length; cbn; lia).
    assert (Eo : forall r, r < nr -> grec g' r = grec g r) by (intros r Hr; unfold g', new_rec; cbn [fst]; now apply grec_app).
    assert (Enew : grec g' nr = mkRec None 0 false 0 (repeat 0 (eff_H c)) (repeat None (eff_H c)) (Some (GI nr 0)) None None 0 None None 0).
    { unfold g', new_rec, grec. cbn. rewrite app_nth2 by lia. now rewrite Nat.sub_diag. }
    assert (Et : tlist g' = tlist g) by reflexivity. assert (Lgb : gbs g' = gbs g) by reflexivity.
    assert (Rc : forall o l0, (forall r, In r l0 -> r < nr) -> (rchain g o l0 <-> rchain g' o l0)).
    { intros o' l'; revert o'; induction l' as [|x l' IH]; intros o' Hl; cbn [rchain]; [tauto|].
      rewrite (Eo x (Hl x (or_introl eq_refl))), Lr, IH; [|intros; apply Hl; now right].
      assert (x < nr) by (apply Hl; now left). unfold nr in *. split; intros (A&B&C); repeat split; auto; lia. }
    destruct J1 as (L & HL & HLnd). assert (HLlt : forall r, In r L -> r < nr) by (apply (rchain_lt g _ _ HL)).
    assert (HL' : rchain g' (tlist g) L) by (now apply Rc).
    assert (Af : forall o r', after g o r' -> after g' o r').
    { intros o r' (S & H1 & H2 & H3). assert (HS : forall x, In x S -> x < nr) by (intros x Hx; apply HLlt; apply (H3 L HL); exact Hx).
      exists S. split; [now apply Rc|]. split; auto. intros L2 HL2. rewrite Et in HL2. rewrite (rchain_fun _ _ _ _ HL2 HL'). now apply H3. }
    assert (Gc : forall o S, gchain c g o S <-> gchain c g' o S).
    { intros o S. split; apply gchain_ext; try (apply Nat.le_refl); intros; split; reflexivity. }
    assert (Alt : forall r t' k, att h r = Some (t', k) -> r < nr) by (intros r t' k Ha; destruct (J2 r t' k Ha) as (_&_&X&_); exact X).
    assert (Inlt : forall r', after g (tlist g) r' -> r' < nr) by (intros r' (S & H1 & H2 & H3); apply HLlt; apply (H3 L HL); exact H2).
    assert (B : bown a' = bown a) by reflexivity.
    constructor; rewrite ?B, ?Lr, ?Et, ?Lgb.
    - exists L. split; auto.
    - intros r' t' k Ha. destruct (J2 r' t' k Ha) as (X1&X2&X3&X4&X5&X6&X7&X8&X9). destruct (F t') as (E&_). rewrite E, (Eo r' X3).
      split; auto. split; auto. split; [unfold nr in *; lia|]. split; auto. split; auto. split; auto. split; [now apply Gc|]. split; auto.
    - intros t' r' Ht. destruct (F t') as (E&_). rewrite E in Ht. auto.
    - exact J4.
    - intros t' r' bt' Ht. destruct (Nat.eq_dec t' t) as [->|N].
      + rewrite Vs in Ht. cbn in Ht. inversion Ht; subst r' bt'. rewrite Enew. cbn [r_ext].
        split; [lia|]. split; [destruct (att h nr) as [[t0 k0]|] eqn:E0; auto; pose proof (Alt _ _ _ E0); lia|].
        split; [intros L2 HL2; rewrite (rchain_fun _ _ _ _ HL2 HL'); intros K; pose proof (HLlt _ K); lia|]. split; auto. split; [reflexivity|].
        intros t'' bt'' Ht''. destruct (Nat.eq_dec t'' t) as [->|N']; auto. rewrite (V t'' N') in Ht''.
        destruct (J5 t'' nr bt'' Ht'') as (X&_). unfold nr in X. lia.
      + rewrite (V t' N) in Ht. destruct (J5 t' r' bt' Ht) as (X1&X2&X3&X4&X5&X6). rewrite (Eo r' X1).
        split; [unfold nr in *; lia|]. split; auto. split; [intros L2 HL2; rewrite (rchain_fun _ _ _ _ HL2 HL'); now apply X3|]. split; auto. split; auto.
        intros t'' bt'' Ht''. destruct (Nat.eq_dec t'' t) as [->|N'].
        * rewrite Vs in Ht''. cbn in Ht''. inversion Ht''. unfold nr in *. lia.
        * rewrite (V t'' N') in Ht''. eauto.
    - intros t' r' Ht. assert (Hh : va_hold (views a t') = Some r') by (destruct (Nat.eq_dec t' t) as [->|N]; [rewrite Vs in Ht; cbn in Ht; rewrite <- Hv in Ht; exact Ht|now rewrite (V t' N) in Ht]).
      destruct (F t') as (_&_&_&_&_&E6&_). rewrite E6. destruct (J6 t' r' Hh) as (X1&X2&X3&X4&X5&X6). rewrite (Eo r' X1).
      split; [unfold nr in *; lia|]. repeat split; auto.
    - intros t' r' Ht. destruct (F t') as (_&E2&_). rewrite E2 in Ht. destruct (J7 t' r' Ht) as (X1&X2&X3).
      rewrite (Eo r' (tid_lt g r' t' X1)). split; auto. split; auto.
      destruct (Nat.eq_dec t' t) as [->|N]; [rewrite Vs; cbn; rewrite <- Hv; exact X3|now rewrite (V t' N)].
    - intros r' Hr Ha. destruct (Nat.eq_dec r' nr) as [->|N]; [left; rewrite Enew; reflexivity|]. assert (r' < nr) by lia. rewrite (Eo r' H).
      destruct (J8 r' H Ha) as [X|(t' & X1 & X2)]; [now left|right]. exists t'.
      destruct (F t') as (_&_&_&_&_&E6&_). rewrite E6. split; auto. destruct (Nat.eq_dec t' t) as [->|N']; [rewrite Vs; cbn; rewrite <- Hv; exact X1|now rewrite (V t' N')].
    - intros t' b' Ht. destruct (F t') as (_&_&_&E4&_&E6&_). rewrite E4 in Ht. rewrite E6. exact (J9 t' b' Ht).
    - intros t' o lb' Ht. destruct (F t') as (_&_&_&_&_&E6&_). rewrite E6 in Ht. destruct (J10 t' o lb' Ht) as (X1&X2&X3). split; [now apply Gc|auto].
    - exact J11.
    - exact J12.
    - intros r' Hr. destruct (Nat.eq_dec r' nr) as [->|N]; [rewrite Enew; cbn; apply repeat_length|]. rewrite Eo by lia. apply J15. unfold nr in *. lia.
    - exact J16.
    - intros t' e f Ht. destruct (F t') as (E1&_&_&E4&E5&_). rewrite E5 in Ht. rewrite E1, E4.
      destruct (J17 t' e f Ht) as (r' & X1 & X2 & X3). exists r'. destruct (J3 t' r' X1) as (k & Ka). rewrite (Eo r' (Alt _ _ _ Ka)). auto.
    - intros t' n Ht. destruct (F t') as (_&_&E3&_). rewrite E3 in Ht. apply Af. eauto.
    - intros s. rewrite <- J13. destruct s as [r' i|x i]; [|reflexivity]. cbn [slot_get].
      destruct (Nat.lt_ge_cases r' nr) as [Hlt|Hge]; [now rewrite Eo|].
      assert (Z0 : forall n i0, nth i0 (repeat 0 n) 0 = 0) by (induction n; intros [|i0]; cbn; auto).
      destruct (Nat.eq_dec r' nr) as [->|N].
      + rewrite Enew. cbn [r_slots]. rewrite Z0. unfold grec. rewrite (nth_overflow (recs g)) by apply Nat.le_refl. cbn. now destruct i.
      + unfold grec. rewrite (nth_overflow (recs g')) by (rewrite Lr; lia). rewrite (nth_overflow (recs g)) by (unfold nr in *; lia). reflexivity.
    - intros t'. destruct (F t') as (_&_&_&_&_&_&E7). rewrite E7. specialize (J14 t').
      destruct (va_scan (views a t')) as [ss|]; auto. destruct J14 as (X1 & X2). split; auto.
      apply (scan_ok_frame c g g' h h ss); [lia|intros s; left; auto|exact Af|left; exact Et| | |exact X2].
      + intros n0 Hn0. rewrite (Eo n0 (Inlt n0 Hn0)). reflexivity.
      + intros s k Hl Hk. split; auto. split; auto. intros n0 o S0 b i E Hin Hg Hi. split; auto. now apply Gc.
  Qed.
End AttF.
