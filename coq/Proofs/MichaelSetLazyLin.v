(** * MichaelHashSet-over-LazyList model (LV.Model.MichaelSetLazy): every history is linearizable to the sequential set,
      every schedule.

    Composition of
      - C13's full linearizability of the lazy list (reads included, with helping), lifted to every bucket of the
        product model (Proofs/MichaelSetLazyProofs.v: an LP-annotated trace for the history of every bucket),
      - the shape of the hash set's history (Proofs/MichaelSetLazyHist.v: sequential per thread, invocations tagged with
        the bucket of their key, bucket sub-histories = histories of the buckets),
      - LP-level locality (Proofs/PartitionLin.v, [weave_valid]): annotated traces of the buckets weave into one
        annotated trace of the whole history.
    The history is C13's [full_hist] of the product trace with the bucket tags forgotten: all operations, reads included;
    an [unlink] that returned false is dropped as in C13. *)
From Coq Require Import ZArith List Bool Arith PeanoNat Lia.
From LV Require Import Base.Conc Base.Events Base.Lin Spec.Specs Proofs.LinProofs.
From LV Require Import Model.LazyList Model.Product Model.MichaelSetLazy.
From LV Require Model.MichaelSet.
From LV Require Import Proofs.MichaelListProofs Proofs.PartitionLin Proofs.MichaelSetHist Proofs.MichaelSetLin
                       Proofs.MichaelSetLazyProofs Proofs.MichaelSetLazyHist.
Import ListNotations.

Section MSLL.
  Variables (nb : nat) (hs : list Z).
  Hypothesis Hnb : 0 < nb.

  Theorem michaelset_lazy_linearizable_lp fuel sf ic ths c :
    Conc.reach (init_cfgP nb hs fuel sf ic ths) c ->
    exists atr, lp_valid SetSpec atr /\ erase atr = full_hist (untag (Conc.trace c)).
  Proof.
    intros Hr. destruct (hist_inv_reachL nb hs Hnb fuel sf ic ths c Hr) as (H1 & H2 & H3 & H4).
    set (gl := fst (gfold (Conc.trace c))) in *.
    destruct (fin_choice (fun b (atr : list (aev SetSpec)) => lp_valid SetSpec atr /\ erase atr = hfilter b gl) [] nb) as [f Hf].
    { intros b Hb. destruct (michaelset_lazy_bucket_linearizable_lp nb hs Hnb fuel sf ic ths c Hr b Hb) as (atr & V & E).
      exists atr. split; [exact V|]. rewrite E, H2. reflexivity. }
    destruct (weave_valid (MichaelSet.bucket nb hs) gl (fun b => if Nat.ltb b nb then f b else []) H1) as (ATR & V & E).
    { intros b. destruct (Nat.ltb_spec b nb) as [Hb|Hb]; [apply Hf; exact Hb|].
      split; [exists (@lp_init SetSpec); reflexivity|]. rewrite (H3 b Hb). reflexivity. }
    exists ATR. split; [exact V|]. rewrite E. exact H4.
  Qed.

  Theorem michaelset_lazy_linearizable fuel sf ic ths c :
    Conc.reach (init_cfgP nb hs fuel sf ic ths) c ->
    linearizable SetSpec (full_hist (untag (Conc.trace c))).
  Proof.
    intros Hr. destruct (michaelset_lazy_linearizable_lp fuel sf ic ths c Hr) as (atr & V & <-).
    apply lp_valid_linearizable. exact V.
  Qed.
End MSLL.

Print Assumptions michaelset_lazy_linearizable.
