(** * SplitListLinOps: the split-list level of the model (bucket table, init_bucket, get_bucket, inc_item_count, the
      client operations, the thread programs) is [Conc.safe] for the invariant [InvS].

    The split-order arithmetic enters through the section hypotheses (discharged in SplitListLinThm with the lemmas of
    SplitListOrdArith): dummy keys are anchor keys, client keys are not, the dummy of the bucket selected by ANY table
    size lies below the key, the parent's dummy lies below the bucket's dummy. *)
From Coq Require Import ZArith List String Bool Lia PeanoNat.
From LV Require Import Base.Conc Base.Events Base.Lin Spec.Specs Proofs.LinProofs.
From LV Require Import Model.MichaelList Proofs.MichaelListBase Proofs.MichaelListInv Proofs.MichaelListSteps
                       Proofs.MichaelListLin Proofs.MichaelListActs Proofs.MichaelListProofs
                       Proofs.MichaelListFullInv Proofs.MichaelListFullActs Proofs.MichaelListFullProofs
                       Proofs.MichaelListFromActs.
From LV Require Model.SplitList.
From LV Require Import Proofs.SplitListLinProj Proofs.SplitListLinSim Proofs.SplitListLinActs Proofs.SplitListLinProg.
Import ListNotations.
Local Open Scope Z_scope.

Section Ops.
Variables (cap : nat) (hs : list Z) (ak : Z -> bool).
Hypothesis ak_okey : forall h k, 0 <= k < 256 -> ak (SL.okey h k) = false.
Hypothesis ak_dkey : forall b, ak (SL.dkey b) = true.
Hypothesis dkey_lt_okey : forall h l k, 0 <= k -> SL.dkey (SL.bucket_no h l) < SL.okey h k.
Hypothesis parent_dkey_lt : forall b, b <> 0%nat -> Z.of_nat b < 2 ^ 63 -> SL.dkey (SL.parent_bucket b) < SL.dkey b.
Hypothesis parent_le : forall b, (SL.parent_bucket b <= b)%nat.
Hypothesis bucket_no_lt : forall h l, Z.of_nat (SL.bucket_no h l) < 2 ^ Z.of_nat l.
Hypothesis Hcap : Z.of_nat cap <= 2 ^ 62.

Notation safeS := (@Conc.safe SL.G SL.V ev AuxS LS viewS (InvS hs ak)).
Notation "x <- p ;; q" := (Conc.bind p (fun x => q)) (at level 61, p at next level, right associativity).

Definition fc (L : LS) : list fact := lv_facts (fst (lc L)).
Definition fd (L : LS) : list fact := lv_facts (fst (ld L)).

(** the thread is between invocation and the list operation of its client operation: the client's virtual thread has
    status [sc] and code [cdc], the dummy-inserting virtual thread is idle *)
Definition BP (sc : status SetSpec) (cdc : Z) (L : LS) : Prop :=
  lv_st (fst (lc L)) = sc /\ snd (lc L) = cdc /\ lv_st (fst (ld L)) = @Idle SetSpec /\ Z.eqb (snd (ld L)) 6 = false.
Definition Lle (L L' : LS) : Prop := incl (fc L) (fc L') /\ incl (fd L) (fd L').
Definition known (L : LS) (p b : nat) : Prop :=
  p <> 0%nat /\ In (FPub p (SL.dkey b)) (fc L) /\ In (FPub p (SL.dkey b)) (fd L).

Lemma Lle_refl L : Lle L L.
Proof. split; apply incl_refl. Qed.
Lemma Lle_trans L1 L2 L3 : Lle L1 L2 -> Lle L2 L3 -> Lle L1 L3.
Proof. intros [A1 A2] [B1 B2]. split; eapply incl_tran; eauto. Qed.
Lemma known_le L L' p b : Lle L L' -> known L p b -> known L' p b.
Proof. intros [A1 A2] (H0 & H1 & H2). repeat split; auto. Qed.

(** ** plain accesses *)
Ltac plain := apply safeS_plain; [intros g0; cbn; repeat split; auto; apply acc_only_1|].

Lemma safeS_ld_seg {R} t (k : SL.V -> SL.prog R) L Q : safeS t (k SL.v0) L Q -> safeS t (Act SL.a_ld_seg k) L Q.
Proof. apply safeS_nop. Qed.

(** ** reading the bucket table *)
Lemma safeS_bucket t b sc cdc L (Q : nat -> LS -> Prop) :
  BP sc cdc L ->
  (forall p L', Lle L L' -> BP sc cdc L' -> (p = 0%nat -> b <> 0%nat) -> (p <> 0%nat -> known L' p b) -> Q p L') ->
  safeS t (SL.bucket b) L Q.
Proof.
  intros HB HQ. unfold SL.bucket. apply safeS_ld_seg. apply safeS_ld_tab. intros p Hp0. cbn [SL.vptr Conc.safe].
  destruct (Nat.eqb_spec p 0) as [->|Hp].
  - apply HQ; [apply Lle_refl|exact HB|exact Hp0|intros X; congruence].
  - apply HQ.
    + split; unfold fc, fd; cbn [lc ld addf fst lv_facts]; apply incl_tl; apply incl_refl.
    + destruct HB as (B1 & B2 & B3 & B4). repeat split; cbn [lc ld addf fst snd lv_st]; assumption.
    + exact Hp0.
    + intros _. split; [exact Hp|]. unfold fc, fd; cbn [lc ld addf fst lv_facts]. split; left; reflexivity.
Qed.

Lemma safeS_wait_bucket t b sc cdc : forall f L (Q : SL.out nat -> LS -> Prop),
  BP sc cdc L ->
  (forall L', Q None L') ->
  (forall p L', Lle L L' -> BP sc cdc L' -> known L' p b -> Q (Some p) L') ->
  safeS t (SL.wait_bucket f b) L Q.
Proof.
  induction f as [|f IH]; intros L Q HB HN HS; cbn [SL.wait_bucket]; [apply HN|].
  apply Conc.safe_bind. eapply safeS_bucket; [exact HB|]. intros p L' Hle HB' _ Hk.
  destruct (Nat.eqb_spec p 0) as [->|Hp].
  - apply IH; [exact HB'|exact HN|]. intros p' L'' Hle' HB'' Hk'. apply HS; auto. eapply Lle_trans; eauto.
  - cbn [Conc.safe]. apply HS; auto.
Qed.

Lemma safeS_fl_put t n : forall f L (Q : SL.out unit -> LS -> Prop),
  (forall r, Q r L) -> safeS t (SL.fl_put f n) L Q.
Proof.
  intros f L Q HQ. unfold SL.fl_put. apply safeS_nop. plain. intros v. generalize (SL.vptr v). clear v.
  induction f as [|f IH]; intros hp0; cbn [SL.fl_put_loop]; [apply HQ|].
  apply safeS_nop. apply safeS_nop.
  apply safeS_plain.
  { intros g0. unfold SL.a_fl_cas. destruct (Nat.eqb (SL.flhead g0) hp0); cbn; repeat split; auto; apply acc_only_1. }
  intros r. destruct (SL.vmark r); [apply HQ|]. apply safeS_nop. apply IH.
Qed.

Lemma pow2_le_62 l : 2 ^ Z.of_nat l < 2 ^ 62 -> (S l <= 62)%nat.
Proof. intros H. apply Z.pow_lt_mono_r_iff in H; lia. Qed.

Lemma safeS_inc_item_count t L (Q : unit -> LS -> Prop) : Q tt L -> safeS t (SL.inc_item_count cap) L Q.
Proof.
  intros HQ. unfold SL.inc_item_count. plain. intros m. plain. intros c.
  destruct (_ || _); [exact HQ|]. apply safeS_ld_log2. intros l Hl. cbn [SL.vnum SL.vn].
  rewrite Z.shiftl_1_l. destruct (Z.ltb_spec (2 ^ Z.of_nat l) (Z.of_nat cap)) as [Hlt|_].
  - destruct (Z.ltb _ _); [exact HQ|]. apply safeS_plain.
    { intros g0. unfold SL.a_cas_max. destruct (Z.eqb (SL.maxcnt g0) (SL.vnum m)); cbn; repeat split; auto; apply acc_only_1. }
    intros _. rewrite Nat2Z.id. apply safeS_cas_log2; [apply pow2_le_62; lia|]. intros _. exact HQ.
  - plain. intros _. exact HQ.
Qed.

(** ** init_bucket *)
Definition QB (sc : status SetSpec) (cdc : Z) (L : LS) (b : nat) : SL.out (nat * list nat) -> LS -> Prop :=
  fun r L' => match r with None => True | Some (p, _) => Lle L L' /\ BP sc cdc L' /\ known L' p b end.

Lemma safeS_init_bucket t sc cdc : forall f depth b fr L,
  BP sc cdc L -> b <> 0%nat -> Z.of_nat b < 2 ^ 63 ->
  safeS t (SL.init_bucket cap f t depth b fr) L (QB sc cdc L b).
Proof.
  induction f as [|f IH]; intros depth b fr L HB Hb Hb63; cbn [SL.init_bucket]; [exact I|].
  set (pb := SL.parent_bucket b).
  apply Conc.safe_bind. eapply safeS_bucket; [exact HB|]. intros pp L1 Hle1 HB1 Hpp0 Hkpp.
  apply Conc.safe_bind.
  eapply Conc.safe_weaken with (Q := QB sc cdc L1 pb).
  2:{ destruct (Nat.eqb_spec pp 0) as [->|Hnz].
      - apply IH; [exact HB1|apply Hpp0; reflexivity|]. pose proof (parent_le b). unfold pb. lia.
      - cbn [Conc.safe QB]. split; [apply Lle_refl|]. split; [exact HB1|apply Hkpp; exact Hnz]. }
  intros [[pParent fr1]|] L2 H2; [|exact I]. destruct H2 as (Hle2 & HB2 & Hkpar).
  apply Conc.safe_bind. eapply safeS_bucket; [exact HB2|]. intros pbk L3 Hle3 HB3 _ Hkb.
  assert (Hle03 : Lle L L3) by (eapply Lle_trans; [exact Hle1|eapply Lle_trans; eauto]).
  destruct (Nat.eqb_spec pbk 0) as [->|Hnz]; cbn [negb].
  2:{ cbn [Conc.safe QB]. split; [exact Hle03|]. split; [exact HB3|apply Hkb; exact Hnz]. }
  pose proof (known_le _ _ _ _ Hle3 Hkpar) as (Hpar0 & HparC & HparD).
  apply safeS_nop. plain. intros c. destruct (Z.ltb _ _); [|exact I].
  plain. intros i. destruct (Z.ltb _ _); [|exact I].
  (* allocate the dummy node: the dummy-inserting virtual thread invokes insert( dkey b ) *)
  destruct L3 as [[lvc cc] [lvd cd0]]. destruct HB3 as (B1 & B2 & B3 & B4). cbn [lc ld fst snd] in B1, B2, B3, B4.
  unfold fc, fd in *. cbn [lc ld fst] in *.
  set (dk := SL.dkey b).
  eapply safeS_ghost_inv with (dk := dk); [reflexivity|exact B3|apply ak_dkey|]. cbn [setl lc ld lv_facts lv_own].
  set (L4 := mkLS (lvc, cc) (mkLV (lv_facts lvd) (lv_own lvd) (@Pending SetSpec (SInsert dk)), 1)).
  change (safeS t (Act (SL.a_new_aux dk) (fun nv => let n := SL.vptr nv in
            r <- SL.list_insert f t (3 + depth) pParent dk (Some n) fr1 ;;
            match r with
            | None => Ret None
            | Some (true, fr2) => _ <- SL.set_bucket b n ;; Ret (Some (n, fr2))
            | Some (false, fr2) =>
                u <- SL.fl_put f n ;;
                match u with
                | None => Ret None
                | Some _ => w <- SL.wait_bucket f b ;; match w with None => Ret None | Some p => Ret (Some (p, fr2)) end
                end
            end)) (setl true L4 (mkLV (lv_facts lvd) (lv_own lvd) (@Pending SetSpec (SInsert dk)), 1)) (QB sc cdc L b)).
  eapply safeS_new_aux with (d := true); [reflexivity|]. intros n Hn0. cbn beta zeta. cbn [SL.vptr]. rewrite setl_setl.
  apply Conc.safe_bind.
  eapply safeS_list_insert with (kh := SL.dkey pb) (d := true).
  - exact Hpar0.
  - cbn [lv_facts]. exact HparD.
  - apply ak_dkey.
  - apply parent_dkey_lt; assumption.
  - cbn [lv_st]. left. reflexivity.
  - right. exists n, 0%nat. split; reflexivity.
  - intros L'. exact I.
  - (* the key is already there: give the node to the free list, wait for the winner *)
    intros F' own' fr2 HF'. cbn [setl L4 lc].
    unfold SL.fl_put. apply Conc.safe_bind.
    eapply safeS_ghost_ret with (dk := dk) (b := false); [reflexivity|reflexivity|reflexivity|]. cbn [setl lc ld lv_facts lv_own].
    set (L5 := mkLS (lvc, cc) (mkLV F' own' (@Idle SetSpec), 1)).
    assert (HB5 : BP sc cdc L5) by (repeat split; assumption).
    assert (Hle5 : Lle L L5).
    { eapply Lle_trans; [exact Hle03|]. split; unfold fc, fd; cbn [L5 lc ld fst lv_facts]; [apply incl_refl|exact HF']. }
    change (safeS t (SL.fl_put f n) L5 (fun u L' =>
              safeS t match u with
                      | None => Ret None
                      | Some _ => w <- SL.wait_bucket f b ;; match w with None => Ret None | Some p => Ret (Some (p, fr2)) end
                      end L' (QB sc cdc L b))).
    apply safeS_fl_put. intros [u|]; [|exact I].
    apply Conc.safe_bind. eapply safeS_wait_bucket; [exact HB5|intros; exact I|].
    intros p L6 Hle6 HB6 Hk6. cbn [Conc.safe QB]. split; [eapply Lle_trans; eauto|]. split; assumption.
  - (* linked: publish it in the bucket table *)
    intros F' n' fr2 HF' Hn' Hin. assert (n' = n) by (apply Hn'; reflexivity). subst n'. cbn [setl L4 lc].
    apply Conc.safe_bind. unfold SL.set_bucket.
    eapply safeS_ghost_ret with (dk := dk) (b := true); [reflexivity|reflexivity|reflexivity|]. cbn [setl lc ld lv_facts lv_own].
    apply safeS_ld_seg. apply safeS_ld_seg.
    eapply safeS_st_tab; [reflexivity|cbn [lv_facts]; exact Hin|exact Hb63|]. cbn [Conc.safe lc ld QB].
    split; [|split].
    + eapply Lle_trans; [exact Hle03|]. split; unfold fc, fd; cbn [lc ld fst addf lv_facts]; [apply incl_tl; apply incl_refl|exact HF'].
    + repeat split; cbn [lc ld addf fst snd lv_st]; assumption.
    + split; [exact Hn0|]. unfold fc, fd; cbn [lc ld fst addf lv_facts]. split; [left; reflexivity|exact Hin].
Qed.

Lemma safeS_get_bucket t sc cdc f h fr L (Q : SL.out (nat * list nat) -> LS -> Prop) :
  BP sc cdc L ->
  (forall L', Q None L') ->
  (forall p fr' L' l, BP sc cdc L' -> p <> 0%nat -> In (FPub p (SL.dkey (SL.bucket_no h l))) (fc L') -> Q (Some (p, fr')) L') ->
  safeS t (SL.get_bucket cap f t h fr) L Q.
Proof.
  intros HB HN HS. unfold SL.get_bucket. apply safeS_ld_log2. intros l Hl. cbn [SL.vnum SL.vn]. rewrite Nat2Z.id.
  set (b := SL.bucket_no h l).
  apply Conc.safe_bind. eapply safeS_bucket; [exact HB|]. intros p L1 Hle1 HB1 Hp0 Hk.
  destruct (Nat.eqb_spec p 0) as [->|Hnz].
  - eapply Conc.safe_weaken; [|apply safeS_init_bucket with (sc := sc) (cdc := cdc); [exact HB1|apply Hp0; reflexivity|]].
    + intros [[p' fr']|] L' H'; [|apply HN]. destruct H' as (_ & HB' & (K0 & K1 & _)). apply (HS p' fr' L' l); assumption.
    + pose proof (bucket_no_lt h l). fold b in H. assert (2 ^ Z.of_nat l <= 2 ^ 62) by (apply Z.pow_le_mono_r; lia). lia.
  - cbn [Conc.safe]. destruct (Hk Hnz) as (K0 & K1 & _). apply (HS p fr L1 l); assumption.
Qed.

(** ** the client operations *)
(** between operations: both virtual threads idle *)
Definition TI (L : LS) : Prop :=
  lv_st (fst (lc L)) = @Idle SetSpec /\ lv_st (fst (ld L)) = @Idle SetSpec /\ Z.eqb (snd (ld L)) 6 = false.

Definition op_ok (o : list Z) : Prop := match o with [code; k] => 0 <= k < 256 | _ => True end.

Lemma scode_not6 code : Z.eqb (scode code) 6 = false.
Proof. unfold scode. destruct (Z.eqb code 1); [reflexivity|]. destruct (Z.eqb code 7); reflexivity. Qed.

Lemma safeS_give_up t L (Q : SL.out (list nat) -> LS -> Prop) : Q None L -> safeS t SL.give_up L Q.
Proof. intros H. unfold SL.give_up. apply safeS_emit_other; [reflexivity|reflexivity|exact H]. Qed.

Lemma safeS_run_op t f o fr L (Q : SL.out (list nat) -> LS -> Prop) :
  TI L -> op_ok o ->
  (forall L', Q None L') -> (forall fr' L', TI L' -> Q (Some fr') L') ->
  safeS t (SL.run_op cap hs f t o fr) L Q.
Proof.
  intros HT Hok HN HS. unfold SL.run_op. destruct o as [|code [|k [|x r]]]; try (cbn [Conc.safe]; apply HS; exact HT).
  cbn [op_ok] in Hok. set (h := SL.hash hs k). set (kk := SL.okey h k).
  destruct L as [[lvc cc] [lvd cd0]]. destruct HT as (T1 & T2 & T3). cbn [lc ld fst snd] in T1, T2, T3.
  eapply safeS_emit_inv; [exact ak_okey|reflexivity|exact T1|exact Hok|]. cbn [setl lc ld lv_facts lv_own]. fold h kk.
  set (op := spec_op (scode code) kk 0).
  set (L1 := mkLS (mkLV (lv_facts lvc) (lv_own lvc) (@Pending SetSpec op), scode code) (lvd, cd0)).
  assert (HB1 : BP (@Pending SetSpec op) (scode code) L1) by (repeat split; assumption).
  apply Conc.safe_bind. eapply safeS_get_bucket; [exact HB1| |].
  { intros L'. apply safeS_give_up. apply HN. }
  intros pHead fr1 L2 l (B1 & B2 & B3 & B4) Hp0 Hin.
  destruct L2 as [[lvc2 cc2] [lvd2 cd2]]. cbn [lc ld fst snd] in B1, B2, B3, B4. unfold fc in Hin. cbn [lc fst] in Hin. subst cc2.
  assert (Hlt : SL.dkey (SL.bucket_no h l) < kk) by (apply dkey_lt_okey; lia).
  assert (Eop : op = if Z.eqb code 1 then SInsert kk else if Z.eqb code 7 then SErase kk else SContains kk) by apply spec_op_scode.
  change (mkLS (lvc2, scode code) (lvd2, cd2)) with (setl false (mkLS (lvc2, scode code) (lvd2, cd2)) (lvc2, scode code)).
  set (L0 := mkLS (lvc2, scode code) (lvd2, cd2)).
  assert (Hret : forall F' own' b o fr2, res_of o (SL.zb b) 0 = RBool b ->
            safeS t (Emit [SL.ev_ret b] (Ret (Some fr2))) (setl false L0 (mkLV F' own' (@Linearized SetSpec o (RBool b)), scode code)) Q).
  { intros F' own' b o fr2 Hr. eapply safeS_emit_ret; [reflexivity|reflexivity|exact Hr|apply scode_not6|].
    cbn [Conc.safe setl lc ld L0]. apply HS. repeat split; assumption. }
  destruct (Z.eqb code 1) eqn:E1.
  - apply Conc.safe_bind. eapply safeS_list_insert with (kh := SL.dkey (SL.bucket_no h l)) (d := false);
      [exact Hp0|exact Hin|apply ak_dkey|exact Hlt|rewrite B1, Eop; left; reflexivity|left; reflexivity|..].
    + intros L'. apply safeS_give_up. apply HN.
    + intros F' own' fr2 _. apply Hret. reflexivity.
    + intros F' n fr2 _ _ _. apply Conc.safe_bind. apply safeS_inc_item_count. apply Hret. reflexivity.
  - destruct (Z.eqb code 7) eqn:E7.
    + apply Conc.safe_bind. eapply safeS_list_erase with (kh := SL.dkey (SL.bucket_no h l)) (d := false);
        [exact Hp0|exact Hin|apply ak_dkey|exact Hlt|apply ak_okey; exact Hok|rewrite B1, Eop; left; reflexivity|..].
      * intros L'. apply safeS_give_up. apply HN.
      * intros F' own' b fr2. destruct b.
        -- apply safeS_plain; [intros g0; cbn; repeat split; auto; apply acc_only_1|]. intros _. apply Hret. reflexivity.
        -- apply Hret. reflexivity.
    + apply Conc.safe_bind. eapply safeS_list_find with (kh := SL.dkey (SL.bucket_no h l)) (d := false);
        [exact Hp0|exact Hin|apply ak_dkey|exact Hlt|rewrite B1, Eop; left; reflexivity|..].
      * intros L'. apply safeS_give_up. apply HN.
      * intros F' own' b fr2. apply Hret. destruct b; reflexivity.
Qed.

Lemma safeS_run_ops t f : forall os fr L, TI L -> Forall op_ok os -> safeS t (SL.run_ops cap hs f t os fr) L (fun _ _ => True).
Proof.
  induction os as [|o r IH]; intros fr L HT Hok; cbn [SL.run_ops]; [exact I|].
  inversion Hok; subst. apply Conc.safe_bind. apply safeS_run_op; [exact HT|assumption| |].
  - intros L'. exact I.
  - intros fr' L' HT'. apply IH; assumption.
Qed.

Lemma safeS_thread t f os L : TI L -> Forall op_ok os -> safeS t (SL.thread_prog cap hs f t os) L (@Conc.QTrue LS).
Proof.
  intros HT Hok. unfold SL.thread_prog.
  apply safeS_plain; [intros g0; cbn; repeat split; auto; apply acc_only_1|]. intros _.
  eapply Conc.safe_weaken; [|apply safeS_run_ops; assumption]. intros; exact I.
Qed.

End Ops.
