(** * CachedFreeList<TaggedFreeList,4>: initial configuration and theorems for every schedule. *)
From Coq Require Import ZArith List String Bool Lia PeanoNat.
From LV Require Import Base.Conc Base.Events Model.FreeList Model.FreeListTagged Model.FreeListCached
  Proofs.FreeListBase Proofs.FreeListTaggedInv Proofs.FreeListTaggedSafe Proofs.FreeListThm Proofs.FreeListTaggedThm Proofs.FreeListCachedTagged.
Import ListNotations.
Local Open Scope Z_scope.
Local Open Scope string_scope.

Definition cths (ths : list (list op * list nat * nat)) : list (list op * list nat) := map fst ths.
Definition slot0 (ths : list (list op * list nat * nat)) : nat := match ths with th :: _ => snd th | [] => O end.

(** client discipline at the start, and every thread's slot is a cache index *)
Definition cwf_init (k : nat) (ths : list (list op * list nat * nat)) : Prop :=
  wf_init k (cths ths) /\ forall th, In th ths -> (snd th < CACHE_SIZE)%nat.

(** initial tag of the backing list: the set-up pushed nodes 2..k *)
Definition ctag0 (k : nat) : nat := if Nat.leb 2 k then (S k - 2)%nat else O.

Definition caux_init (k : nat) (ths : list (list op * list nat * nat)) : TAux :=
  let NR := List.length ths in
  mkTA (fun n => if (Nat.eqb n 1 && Nat.leb 1 k)%bool then THeld (NR + slot0 ths)
                 else if on_init k n then TOn
                 else match own_init (cths ths) n with Some t => THeld t | None => TNil end)
       (rev (seq 2 (k - 1)))
       (fun _ => TIdle)
       (fun t => if Nat.ltb t NR then nth t (helds (cths ths)) []
                 else if (Nat.eqb t (NR + slot0 ths) && Nat.leb 1 k)%bool then [1%nat] else [])
       (own_init (cths ths)).

Lemma rev_seq2_S m : rev (seq 2 (S m)) = (2 + m)%nat :: rev (seq 2 m).
Proof. rewrite seq_S, rev_app_distr. reflexivity. Qed.

Lemma tchain_range K : forall m, (m + 1 <= K)%nat ->
  chain (tnext (tinit_range 2 K)) (if Nat.eqb m 0 then O else S m) (rev (seq 2 m)).
Proof.
  induction m as [|m IH]; intros Hk; [reflexivity|].
  rewrite rev_seq2_S. cbn [Nat.eqb chain]. split; [reflexivity|]. split; [lia|].
  assert (E : tnext (tinit_range 2 K) (2 + m) = if Nat.eqb m 0 then O else S m).
  { unfold tinit_range. cbn [tnext]. destruct m as [|m']; [reflexivity|].
    assert ((3 <=? 2 + S m')%nat = true) as -> by (apply Nat.leb_le; lia).
    assert ((2 + S m' <=? K)%nat = true) as -> by (apply Nat.leb_le; lia). reflexivity. }
  rewrite E. apply IH. lia.
Qed.

Section CInit.
  Variable fuel k : nat.
  Variable ths : list (list op * list nat * nat).
  Hypothesis Hwf : cwf_init k ths.
  Let NR := List.length ths.
  Let N := (NR + CACHE_SIZE)%nat.

  Lemma slot0_lt : (slot0 ths < CACHE_SIZE)%nat.
  Proof. unfold slot0. destruct ths as [|th r]; [unfold CACHE_SIZE; lia|]. apply Hwf. left; reflexivity. Qed.

  Lemma helds_len : List.length (helds (cths ths)) = NR.
  Proof. unfold helds, cths. now rewrite !map_length. Qed.

  Lemma own_lt n t : own_init (cths ths) n = Some t -> (t < NR)%nat /\ In n (nth t (helds (cths ths)) []).
  Proof.
    intros E. apply (own_init_spec _ n t (proj1 (proj1 Hwf))) in E. split; [|exact E].
    destruct (Nat.lt_ge_cases t NR) as [Hl|Hl]; [exact Hl|]. rewrite nth_overflow in E by (rewrite helds_len; exact Hl). contradiction.
  Qed.

  Lemma CInvS_init : InvTS N (valid_init k (cths ths)) (tinit_range 2 k) (caux_init k ths).
  Proof.
    destruct Hwf as [[Hnd Hgt] Hsl]. pose proof slot0_lt as Hs0. constructor.
    - intros n. cbn [tst caux_init]. unfold valid_init, on_init.
      destruct (Nat.eqb_spec n 1) as [->|Hn1]; cbn [andb].
      + destruct (Nat.leb_spec 1 k); cbn [andb orb]; [split; discriminate|].
        destruct (own_init (cths ths) 1%nat); split; try discriminate; reflexivity.
      + destruct (Nat.leb 1 n && Nat.leb n k)%bool; cbn [orb]; [split; discriminate|].
        destruct (own_init (cths ths) n); split; try discriminate; reflexivity.
    - intros n. unfold tst_ok. cbn [tst caux_init thl tph].
      destruct (Nat.eqb_spec n 1) as [->|Hn1]; cbn [andb].
      + destruct (Nat.leb_spec 1 k) as [Hk|Hk]; cbn [andb].
        * left. fold NR. destruct (Nat.ltb_spec (NR + slot0 ths) NR); [lia|]. rewrite Nat.eqb_refl. cbn. left; reflexivity.
        * unfold on_init. destruct (Nat.leb_spec 1 k); [lia|]. cbn [andb].
          destruct (own_init (cths ths) 1%nat) as [t|] eqn:E; [|exact I]. left. destruct (own_lt _ _ E) as [Hl Hin].
          fold NR. destruct (Nat.ltb_spec t NR); [exact Hin|lia].
      + destruct (on_init k n); [exact I|]. destruct (own_init (cths ths) n) as [t|] eqn:E; [|exact I].
        left. destruct (own_lt _ _ E) as [Hl Hin]. fold NR. destruct (Nat.ltb_spec t NR); [exact Hin|lia].
    - cbn [tlst caux_init]. pose proof (tchain_range k (k - 1)) as Hc.
      assert (Hh : thead (tinit_range 2 k) = if Nat.eqb (k - 1) 0 then O else S (k - 1)).
      { unfold tinit_range. cbn [thead]. destruct (Nat.leb_spec 2 k); destruct (Nat.eqb_spec (k - 1) 0); try lia. }
      rewrite Hh. destruct k as [|k']; [reflexivity|]. apply Hc. lia.
    - cbn [tlst caux_init]. apply NoDup_rev. apply seq_NoDup.
    - intros n. cbn [tlst caux_init tst]. rewrite <- in_rev, in_seq. unfold on_init.
      destruct (Nat.eqb_spec n 1) as [->|Hn1]; cbn [andb].
      + destruct (Nat.leb_spec 1 k); cbn [andb]; split; intros; try lia; try discriminate.
        destruct (own_init (cths ths) 1%nat); discriminate.
      + destruct (Nat.leb_spec 1 n), (Nat.leb_spec n k); cbn [andb]; split; intros; try lia; try reflexivity;
          destruct (own_init (cths ths) n); discriminate.
    - intros t. cbn. exact I.
    - intros t n Hin. cbn [thl caux_init] in Hin. cbn [tst caux_init]. fold NR in Hin.
      destruct (Nat.ltb_spec t NR) as [Hl|Hl].
      + pose proof (held_gt k (cths ths) (conj Hnd Hgt) t n Hin) as Hg. unfold on_init.
        destruct (Nat.eqb_spec n 1) as [->|Hn1]; cbn [andb].
        * destruct (Nat.leb_spec 1 k); [lia|]. cbn [andb].
          apply (own_init_spec _ _ t Hnd) in Hin. rewrite Hin. reflexivity.
        * destruct (Nat.leb_spec 1 n), (Nat.leb_spec n k); cbn [andb]; try lia;
            apply (own_init_spec _ _ t Hnd) in Hin; rewrite Hin; reflexivity.
      + destruct (Nat.eqb_spec t (NR + slot0 ths)) as [->|Hne]; cbn [andb] in Hin; [|contradiction].
        destruct (Nat.leb_spec 1 k); [|contradiction]. destruct Hin as [<-|[]]. cbn [Nat.eqb andb].
        destruct (Nat.leb_spec 1 k); [reflexivity|lia].
    - intros t. cbn [thl caux_init]. fold NR. destruct (Nat.ltb t NR); [apply NoDup_concat_nth; exact Hnd|].
      destruct (Nat.eqb t (NR + slot0 ths) && Nat.leb 1 k)%bool; repeat constructor. intros [].
    - intros t Ht. cbn [tph thl caux_init]. split; [reflexivity|]. fold NR. unfold N in Ht.
      destruct (Nat.ltb_spec t NR); [lia|]. destruct (Nat.eqb_spec t (NR + slot0 ths)); [lia|reflexivity].
  Qed.

  Lemma cinit_ok : Conc.cfg_ok (cview NR)
      (CInv NR (valid_init k (cths ths)) (own_init (cths ths)) (ctag0 k))
      (cinit_cfg TG tput tget tinit_range fuel k ths).
  Proof.
    pose proof slot0_lt as Hs0.
    exists (caux_init k ths). split.
    - intros _. cbn [Conc.shared Conc.trace cinit_cfg]. fold (slot0 ths). cbn [back cinit]. split; [apply CInvS_init|split].
      + split; [|split; [reflexivity|split]].
        * unfold tinit_range, ctag0. cbn [ttag ncas]. destruct (Nat.leb 2 k); lia.
        * intros n t. cbn [town thl caux_init]. fold NR. split.
          -- intros E. destruct (own_lt _ _ E) as [Hl Hin]. split; [exact Hl|]. destruct (Nat.ltb_spec t NR); [exact Hin|lia].
          -- intros [Hl Hin]. destruct (Nat.ltb_spec t NR); [|lia]. apply own_init_spec; [apply Hwf|exact Hin].
        * intros t. reflexivity.
      + intros i Hi. cbn [tph thl caux_init cache cinit]. fold NR. split; [reflexivity|].
        destruct (Nat.ltb_spec (NR + i) NR); [lia|].
        assert (E : Nat.eqb (NR + i) (NR + slot0 ths) = Nat.eqb i (slot0 ths)).
        { destruct (Nat.eqb_spec i (slot0 ths)); [subst; apply Nat.eqb_refl|apply Nat.eqb_neq; lia]. }
        rewrite E. destruct (Nat.eqb i (slot0 ths) && Nat.leb 1 k)%bool; reflexivity.
    - intros t p Hp. cbn [cinit_cfg Conc.threads] in Hp. rewrite nth_error_map in Hp.
      destruct (nth_error ths t) as [[[os H] sl]|] eqn:E; [|discriminate]. injection Hp as <-.
      assert (Ht : (t < NR)%nat) by (apply nth_error_Some; congruence).
      assert (Hsl : (sl < CACHE_SIZE)%nat) by (apply (proj2 Hwf (os, H, sl)); eapply nth_error_In; eauto).
      assert (Hv : cview NR (caux_init k ths) t = (H, TIdle)).
      { rewrite cview_lt by exact Ht. unfold tview. cbn [thl tph caux_init]. fold NR.
        destruct (Nat.ltb_spec t NR); [|lia]. f_equal. unfold helds, cths. rewrite map_map.
        rewrite (nth_indep _ [] (snd (fst (os, H, sl)))) by (rewrite map_length; exact Ht).
        rewrite (map_nth (fun x => snd (fst x))). rewrite (nth_error_nth ths t (os, H, sl) E). reflexivity. }
      rewrite Hv. cbn [fst snd]. apply safe_cthread; auto. apply valid_zero. apply Hwf.
  Qed.
End CInit.

(** ** theorems *)
Section CTheorems.
  Variable fuel k : nat.
  Variable ths : list (list op * list nat * nat).
  Hypothesis Hwf : cwf_init k ths.
  Let NR := List.length ths.

  Lemma creach_Inv c : Conc.reach (cinit_cfg TG tput tget tinit_range fuel k ths) c ->
    exists a, CInv NR (valid_init k (cths ths)) (own_init (cths ths)) (ctag0 k) (Conc.shared c) a (Conc.trace c).
  Proof. intros Hr. exact (Conc.reach_Inv (cinit_ok fuel k ths Hwf) Hr). Qed.

  Theorem cached_tagged_no_double_get c :
    Conc.reach (cinit_cfg TG tput tget tinit_range fuel k ths) c -> nowrap (ctag0 k) (Conc.trace c) ->
    exists own, mon_run (own_init (cths ths)) (Conc.trace c) = Some own.
  Proof. intros Hr Hnw. destruct (creach_Inv c Hr) as (a & HI). destruct (HI Hnw) as (_ & (_ & T1 & _) & _). eauto. Qed.

  (** every node nobody holds is on the backing list or in a cache slot, unless an operation is in flight;
      backing list and cache slots are disjoint and contain only nodes nobody holds *)
  Theorem cached_tagged_unique_holder c :
    Conc.reach (cinit_cfg TG tput tget tinit_range fuel k ths) c -> nowrap (ctag0 k) (Conc.trace c) ->
    let g := Conc.shared c in
    exists own l,
      mon_run (own_init (cths ths)) (Conc.trace c) = Some own /\
      chain (tnext (back TG g)) (thead (back TG g)) l /\ NoDup l /\
      (forall n, In n l -> valid_init k (cths ths) n = true /\ own n = None) /\
      (forall i, (i < CACHE_SIZE)%nat -> cache TG g i <> O ->
         valid_init k (cths ths) (cache TG g i) = true /\ own (cache TG g i) = None /\ ~ In (cache TG g i) l /\
         forall j, (j < CACHE_SIZE)%nat -> cache TG g j = cache TG g i -> j = i) /\
      (forall n, valid_init k (cths ths) n = true -> own n = None ->
         In n l \/ (exists i, (i < CACHE_SIZE)%nat /\ cache TG g i = n) \/ exists t, opens t (Conc.trace c) <> 0).
  Proof.
    intros Hr Hnw g. destruct (creach_Inv c Hr) as (a & HI). destruct (HI Hnw) as (HS & HT & HL).
    pose proof HT as (T0 & T1 & T2 & T3).
    assert (Hslot : forall i, (i < CACHE_SIZE)%nat -> cache TG g i <> O -> tst a (cache TG g i) = THeld (NR + i)).
    { intros i Hi Hnz. destruct (HL i Hi) as [_ E]. fold g in E. destruct (Nat.eqb_spec (cache TG g i) 0); [contradiction|].
      apply (TS_held HS). rewrite E. left; reflexivity. }
    exists (town a), (tlst a). split; [exact T1|]. split; [apply (TS_chain HS)|]. split; [apply (TS_lnd HS)|]. split; [|split].
    - intros n Hin. apply (TS_lin HS) in Hin. split.
      + destruct (valid_init k (cths ths) n) eqn:E; [reflexivity|]. apply (TS_valid HS) in E. congruence.
      + destruct (town a n) as [t|] eqn:E; [|reflexivity]. apply T2 in E. destruct E as [_ E]. apply (TS_held HS) in E. congruence.
    - intros i Hi Hnz. pose proof (Hslot i Hi Hnz) as Hst. split; [|split; [|split]].
      + destruct (valid_init k (cths ths) (cache TG g i)) eqn:E; [reflexivity|]. apply (TS_valid HS) in E. congruence.
      + destruct (town a (cache TG g i)) as [t|] eqn:E; [|reflexivity]. apply T2 in E. destruct E as [Hl E].
        apply (TS_held HS) in E. rewrite Hst in E. injection E as E. lia.
      + intros Hin. apply (TS_lin HS) in Hin. congruence.
      + intros j Hj Ej. assert (cache TG g j <> O) by congruence. pose proof (Hslot j Hj H) as Hst'.
        rewrite Ej, Hst in Hst'. injection Hst' as E. lia.
    - intros n Hv Ho. pose proof (TS_st HS n) as Hst. unfold tst_ok in Hst.
      destruct (tst a n) as [|t|] eqn:Es.
      + apply (TS_valid HS) in Es. congruence.
      + destruct Hst as [Hst|Hst].
        * destruct (Nat.lt_ge_cases t NR) as [Hl|Hl].
          -- assert (E : town a n = Some t) by (apply T2; split; assumption). congruence.
          -- right; left. destruct (Nat.lt_ge_cases t (NR + CACHE_SIZE)) as [Hl2|Hl2].
             ++ exists (t - NR)%nat. split; [lia|]. destruct (HL (t - NR)%nat ltac:(lia)) as [_ E].
                replace (NR + (t - NR))%nat with t in E by lia. fold g in E. rewrite E in Hst.
                destruct (Nat.eqb (cache TG g (t - NR)) 0); [contradiction|]. destruct Hst as [<-|[]]. reflexivity.
             ++ rewrite (proj2 (TS_out HS t Hl2)) in Hst. contradiction.
        * right; right. exists t. rewrite T3. destruct (tph a t); cbn in *; try lia; discriminate.
      + left. apply (TS_lin HS). exact Es.
  Qed.

  (** once all threads are quiescent, backing list + cache slots hold exactly the nodes nobody holds *)
  Theorem cached_tagged_no_loss c :
    Conc.reach (cinit_cfg TG tput tget tinit_range fuel k ths) c -> nowrap (ctag0 k) (Conc.trace c) ->
    quiescent (Conc.trace c) ->
    let g := Conc.shared c in
    exists own l,
      mon_run (own_init (cths ths)) (Conc.trace c) = Some own /\
      tseq_ok (back TG g) l /\
      (forall n, (In n l \/ (n <> O /\ exists i, (i < CACHE_SIZE)%nat /\ cache TG g i = n))
                 <-> valid_init k (cths ths) n = true /\ own n = None).
  Proof.
    intros Hr Hnw Hq g. destruct (cached_tagged_unique_holder c Hr Hnw) as (own & l & M & Hc & Hnd & H1 & H2 & H3).
    fold g in Hc, H2, H3. exists own, l. split; [exact M|]. split; [split; assumption|].
    intros n. split.
    - intros [Hin|[Hnz (i & Hi & E)]]; [apply H1; exact Hin|]. subst n. destruct (H2 i Hi Hnz) as (A & B & _). split; assumption.
    - intros [Hv Ho]. destruct (H3 n Hv Ho) as [Hin|[(i & Hi & E)|(t & Ht)]].
      + left; exact Hin.
      + right. split; [|exists i; split; assumption]. intros ->.
        rewrite (valid_zero k (cths ths) (proj1 Hwf)) in Hv. discriminate.
      + exfalso. apply Ht. apply Hq.
  Qed.
End CTheorems.
