(** * WeakRingBuffer<void>: every record returned by front() has the pushed size and bytes, the producer never
      writes a byte the consumer has not released, for every schedule / capacity / record-size sequence.

    Ghost state: the list [segs] of segments (records and unused tails) lying between front_ and back_, tied to
    the buffer bytes by [lay]; the records among them are the pushed-and-not-yet-popped records of the trace. *)
From Coq Require Import ZArith List String Bool Lia PeanoNat Znumtheory.
From LV Require Import Base.Conc Base.Events Model.Ring Model.RingV Proofs.RingBase Proofs.RingVBase.
Import ListNotations.
Local Open Scope Z_scope.

(** ** ghost sequences of a trace *)
Definition vpush_rec (e : ev) : list (Z * Z) :=
  match e with
  | EvCli n args =>
      if String.eqb n "vpush_ok" then match args with [size; seed] => [(size, seed)] | _ => [] end else []
  | _ => []
  end.
Definition vpop_cnt (e : ev) : nat :=
  match e with EvCli n _ => if String.eqb n "vpop_ok" then 1%nat else 0%nat | _ => 0%nat end.

Fixpoint vpushed (tr : list (nat * ev)) : list (Z * Z) :=
  match tr with [] => [] | (_, e) :: r => vpush_rec e ++ vpushed r end.
Fixpoint npopped (tr : list (nat * ev)) : nat :=
  match tr with [] => 0%nat | (_, e) :: r => (vpop_cnt e + npopped r)%nat end.

Lemma vpushed_snoc tr t e : vpushed (tr ++ [(t, e)]) = vpushed tr ++ vpush_rec e.
Proof.
  induction tr as [|[t' e'] r IH]; cbn [vpushed app]; [rewrite app_nil_r; reflexivity|].
  rewrite IH, app_assoc. reflexivity.
Qed.
Lemma npopped_snoc tr t e : npopped (tr ++ [(t, e)]) = (npopped tr + vpop_cnt e)%nat.
Proof. induction tr as [|[t' e'] r IH]; cbn [npopped app]; [lia|]. rewrite IH. lia. Qed.

(** ** preconditions the code does not check *)
Definition capv_ok (exp2 : bool) (cap : Z) : bool :=
  cap_ok exp2 cap && Z.eqb (cap mod 8) 0 && Z.ltb cap (2 ^ 62).
Definition vop_ok (cap : Z) (o : vpop_) : bool :=
  match o with VPush size seed => Z.leb 1 size && Z.leb size cap && Z.leb (calc_real_size size) cap end.

(** ** segments *)
Inductive seg := SRec (size seed : Z) | STail (t : Z).
Definition seg_len (s : seg) : Z := match s with SRec size _ => rsz size | STail t => t end.
Fixpoint segs_len (l : list seg) : Z := match l with [] => 0 | s :: r => seg_len s + segs_len r end.
Fixpoint recs_of (l : list seg) : list (Z * Z) :=
  match l with
  | [] => []
  | SRec a b :: r => (a, b) :: recs_of r
  | STail _ :: r => recs_of r
  end.

Lemma segs_len_app l l' : segs_len (l ++ l') = segs_len l + segs_len l'.
Proof. induction l as [|s r IH]; cbn [segs_len app]; lia. Qed.
Lemma recs_of_app l l' : recs_of (l ++ l') = recs_of l ++ recs_of l'.
Proof. induction l as [|[a b|t] r IH]; cbn [recs_of app]; congruence. Qed.

Inductive phase :=
| PIdle
| PTailT (size : Z)            (* tail marker written; second space test needs the reload *)
| PTailS (size : Z)            (* tail marker written; second space test passed; back_.store pending *)
| PRec (size seed : Z)         (* header and data written at back_; push_back pending *)
| CRec (size : Z)              (* front() returned the record at front_ *)
| CTail (t : Z)                (* front() read a tail marker at front_ *)
| CZero.                       (* the tail has been popped: front_ is at the start of the buffer *)

Record lview := mkL { lv_loc : Z; lv_mine : Z; lv_rem : Z; lv_ph : phase }.
Record Aux := mkA { segs : list seg; pv : lview; cv : lview }.
Definition view (a : Aux) (t : nat) : lview :=
  match t with O => pv a | S O => cv a | _ => mkL 0 0 0 PIdle end.

Section RingV.
  Variables (exp2 : bool) (cap : Z).
  Hypothesis Hcapv : capv_ok exp2 cap = true.

  Lemma Hcap : cap_ok exp2 cap = true.
  Proof. unfold capv_ok in Hcapv. apply andb_prop in Hcapv. destruct Hcapv as [H _]. apply andb_prop in H. tauto. Qed.
  Lemma cap8 : cap mod 8 = 0.
  Proof.
    unfold capv_ok in Hcapv. apply andb_prop in Hcapv. destruct Hcapv as [H _]. apply andb_prop in H.
    destruct H as [_ H]. apply Z.eqb_eq in H. exact H.
  Qed.
  Lemma cap_small : cap < 2 ^ 62.
  Proof. unfold capv_ok in Hcapv. apply andb_prop in Hcapv. destruct Hcapv as [_ H]. apply Z.ltb_lt in H. exact H. Qed.
  Lemma cap_pos : 1 <= cap.
  Proof. pose proof Hcap as H. unfold cap_ok in H. apply andb_prop in H. destruct H as [H _]. apply Z.leb_le in H. exact H. Qed.

  (** what back( size ) guarantees when it fails, in terms of the true counters at the deciding access *)
  Definition fail_cond (f b size : Z) : Prop :=
    let rs := rsz size in
    let free := cap - (b - f) in
    let tail := cap - b mod cap in
    free < rs \/ (tail < rs /\ free - tail < rs).

  Definition seg_ok (g : GV) (p : Z) (s : seg) : Prop :=
    let off := p mod cap in
    match s with
    | SRec size seed =>
        1 <= size /\ size <= cap /\ off + rsz size <= cap /\ read64 g off = size /\
        read_bytes g (off + 8) (Z.to_nat size) = data_bytes size seed
    | STail t =>
        8 <= t /\ t mod 8 = 0 /\ off + t = cap /\ 0 < off /\ read64 g off = make_tail (t - 8)
    end.

  Fixpoint lay (g : GV) (p : Z) (l : list seg) : Prop :=
    match l with
    | [] => True
    | s :: r => seg_ok g p s /\ lay g (p + seg_len s) r
    end.

  Definition Phi (tr1 : list (nat * ev)) (t : nat) (e : ev) : Prop :=
    match e with
    | EvCli name args =>
        (name = "vfront_ok"%string -> exists size seed,
           nth_error (vpushed tr1) (npopped tr1) = Some (size, seed) /\ args = size :: data_bytes size seed) /\
        (name = "vfront_null"%string -> List.length (vpushed tr1) = npopped tr1) /\
        (name = "vpop_fail"%string -> False)
    | _ => True
    end.

  Definition pph_ok (g : GV) (l : lview) : Prop :=
    let back := v_back g in
    let tail := cap - back mod cap in
    match lv_ph l with
    | PTailT size =>
        1 <= size <= cap /\ rsz size <= cap /\ rsz size + cap <= lv_rem l /\
        tail < rsz size /\ 8 <= tail /\ read64 g (back mod cap) = make_tail (tail - 8) /\
        back + rsz size <= lv_loc l + cap
    | PTailS size =>
        1 <= size <= cap /\ rsz size <= cap /\ rsz size + cap <= lv_rem l /\
        tail < rsz size /\ 8 <= tail /\ read64 g (back mod cap) = make_tail (tail - 8) /\
        back + tail + rsz size <= lv_loc l + cap
    | PRec size seed =>
        seg_ok g back (SRec size seed) /\ back + rsz size <= lv_loc l + cap /\ rsz size <= lv_rem l
    | _ => True
    end.

  Definition cph_ok (g : GV) (sg : list seg) (l : lview) : Prop :=
    match lv_ph l with
    | CRec size => v_front g + 8 <= lv_loc l /\ exists seed rest, sg = SRec size seed :: rest
    | CTail t => v_front g + 8 <= lv_loc l /\ exists rest, sg = STail t :: rest
    | CZero => v_front g mod cap = 0
    | _ => True
    end.

  Record Inv (g : GV) (a : Aux) (tr : list (nat * ev)) : Prop := mkInv {
    j_minep : lv_mine (pv a) = v_back g;
    j_minec : lv_mine (cv a) = v_front g;
    j_chain : 0 <= lv_loc (pv a) /\ lv_loc (pv a) <= v_front g /\ v_front g <= lv_loc (cv a) /\
              lv_loc (cv a) <= v_back g /\ v_back g <= lv_loc (pv a) + cap;
    j_align : v_back g mod 8 = 0;
    j_bound : 0 <= lv_rem (pv a) /\ v_back g + lv_rem (pv a) + cap < two64;
    j_len : v_front g + segs_len (segs a) = v_back g;
    j_lay : lay g (v_front g) (segs a);
    (* cback_ is a segment boundary *)
    j_cb : exists l1 l2, segs a = l1 ++ l2 /\ v_front g + segs_len l1 = lv_loc (cv a);
    j_recs : recs_of (segs a) = skipn (npopped tr) (vpushed tr) /\ (npopped tr <= List.length (vpushed tr))%nat;
    j_fails : forall f b size, In (f, b, size) (v_fails g) -> fail_cond f b size;
    j_wbad : v_wbad g = false;
    j_pph : pph_ok g (pv a);
    j_cph : cph_ok g (segs a) (cv a);
    j_hist : hist_ok Phi tr
  }.

  (** ** offsets *)
  Lemma mod_offset p i : 0 <= p -> 0 <= i -> p mod cap + i < cap -> (p + i) mod cap = p mod cap + i.
  Proof.
    intros Hp Hi H. pose proof cap_pos as Hc.
    pose proof (Z.mod_pos_bound p cap ltac:(lia)) as M.
    rewrite (Z.div_mod p cap) at 1 by lia.
    replace (cap * (p / cap) + p mod cap + i) with (p mod cap + i + (p / cap) * cap) by lia.
    rewrite Z_mod_plus_full. apply Z.mod_small. lia.
  Qed.

  Lemma off_mod8 p : p mod 8 = 0 -> (p mod cap) mod 8 = 0.
  Proof.
    intros H. pose proof cap_pos. rewrite <- (Zmod_div_mod 8 cap p); try lia.
    apply Zmod_divide; [lia|apply cap8].
  Qed.

  Lemma seg_len_pos g p s : seg_ok g p s -> 8 <= seg_len s /\ seg_len s mod 8 = 0 /\ p mod cap + seg_len s <= cap.
  Proof.
    destruct s as [size seed|t]; cbn [seg_ok seg_len].
    - intros (H1 & H2 & H3 & _). destruct (rsz_bounds size ltac:(lia)) as (A & B & C). lia.
    - intros (H1 & H2 & H3 & _). lia.
  Qed.

  (** a segment only depends on its own bytes *)
  Lemma seg_ok_frame g g' p s :
    (forall i, 0 <= i < seg_len s -> v_mem g' (p mod cap + i) = v_mem g (p mod cap + i)) ->
    seg_ok g p s -> seg_ok g' p s.
  Proof.
    intros H Hs. destruct s as [size seed|t]; cbn [seg_ok seg_len] in *.
    - destruct Hs as (H1 & H2 & H3 & H4 & H5).
      destruct (rsz_bounds size ltac:(lia)) as (A & B & C).
      repeat split; auto.
      + rewrite <- H4. unfold read64. f_equal. apply read_bytes_agree. intros i Hi. apply H. cbn in Hi. lia.
      + rewrite <- H5. apply read_bytes_agree. intros i Hi.
        replace (p mod cap + 8 + i) with (p mod cap + (8 + i)) by lia. apply H. lia.
    - destruct Hs as (H1 & H2 & H3 & H4 & H5). repeat split; auto.
      rewrite <- H5. unfold read64. f_equal. apply read_bytes_agree. intros i Hi. apply H. cbn in Hi. lia.
  Qed.

  Lemma lay_frame g g' f e l : forall p,
    (forall x, f <= x < e -> v_mem g' (x mod cap) = v_mem g (x mod cap)) ->
    0 <= f <= p -> p + segs_len l <= e -> lay g p l -> lay g' p l.
  Proof.
    induction l as [|s r IH]; intros p Hag Hp He Hl; cbn [lay segs_len] in *; [exact Logic.I|].
    destruct Hl as (Hs & Hr). destruct (seg_len_pos _ _ _ Hs) as (L1 & L2 & L3).
    assert (0 <= segs_len r).
    { clear -Hr. revert Hr. generalize (p + seg_len s). induction r as [|s' r' IH']; intros q Hq; cbn [segs_len lay] in *; [lia|].
      destruct Hq as (Hs' & Hr'). destruct (seg_len_pos _ _ _ Hs') as (M1 & _). specialize (IH' _ Hr'). lia. }
    split.
    - eapply seg_ok_frame; [|exact Hs]. intros i Hi.
      rewrite <- (mod_offset p i) by lia. apply Hag. lia.
    - apply IH; auto; lia.
  Qed.

  Lemma lay_app g l l' : forall p, lay g p (l ++ l') <-> lay g p l /\ lay g (p + segs_len l) l'.
  Proof.
    induction l as [|s r IH]; intros p; cbn [lay app segs_len].
    - rewrite Z.add_0_r. tauto.
    - rewrite IH. replace (p + (seg_len s + segs_len r)) with (p + seg_len s + segs_len r) by lia. tauto.
  Qed.

  Lemma segs_len_nonneg g l : forall p, lay g p l -> 0 <= segs_len l /\ (segs_len l = 0 -> l = []) /\ segs_len l mod 8 = 0.
  Proof.
    induction l as [|s r IH]; intros p H; cbn [lay segs_len] in *; [repeat split; auto; lia|].
    destruct H as (Hs & Hr). destruct (seg_len_pos _ _ _ Hs) as (L1 & L2 & _).
    destruct (IH _ Hr) as (A & B & C). repeat split; try lia.
    rewrite Z.add_mod, L2, C by lia. reflexivity.
  Qed.

  (** ** a producer write of the bytes [bs] at the counters [b + d, b + d + |bs|), all of them free *)
  Lemma producer_write g bs d :
    let b := v_back g in let f := v_front g in
    0 <= f <= b -> 0 <= d -> b mod cap + d + Z.of_nat (List.length bs) <= cap ->
    b + d + Z.of_nat (List.length bs) <= f + cap -> v_wbad g = false ->
    let g' := write_bytes cap g (b mod cap + d) bs in
    v_front g' = f /\ v_back g' = b /\ v_fails g' = v_fails g /\ v_wbad g' = false /\
    (forall x, f <= x < b + d -> v_mem g' (x mod cap) = v_mem g (x mod cap)) /\
    read_bytes g' (b mod cap + d) (List.length bs) = bs.
  Proof.
    intros b f Hfb Hd Hfit Hfree Hw g'. pose proof cap_pos as Hc.
    pose proof (Z.mod_pos_bound b cap ltac:(lia)) as Mb.
    destruct (write_bytes_counters cap bs g (b mod cap + d)) as (A & B & C).
    split; [exact A|]. split; [exact B|]. split; [exact C|]. split; [|split].
    - apply write_bytes_wbad; [exact Hw|]. intros i Hi. split; [lia|].
      unfold occupied. apply Z.ltb_ge. fold f b.
      replace (b mod cap + d + i - f) with ((b + d + i - f) + (- (b / cap)) * cap).
      2:{ pose proof (Z.div_mod b cap ltac:(lia)). lia. }
      rewrite Z_mod_plus_full. rewrite Z.mod_small by lia. lia.
    - intros x Hx. unfold g'. apply write_bytes_other.
      destruct (Z.lt_ge_cases (x mod cap) (b mod cap + d)) as [Hlt|Hge]; [left; exact Hlt|right].
      destruct (Z.lt_ge_cases (x mod cap) (b mod cap + d + Z.of_nat (List.length bs))) as [Hin|Hout]; [|exact Hout].
      exfalso. set (i := x mod cap - (b mod cap)).
      assert ((b + i) mod cap = x mod cap) as E.
      { rewrite mod_offset by (unfold i; lia). unfold i. lia. }
      symmetry in E. apply mod_inj_window in E; [|lia|unfold i; lia]. unfold i in E. lia.
    - apply write_bytes_read.
  Qed.
  (** ** list facts *)
  Lemma skipn_cons_nth {A} (l : list A) : forall n x r,
    skipn n l = x :: r -> nth_error l n = Some x /\ skipn (S n) l = r /\ (S n <= List.length l)%nat.
  Proof.
    induction l as [|y l IH]; intros n x r H.
    - destruct n; discriminate.
    - destruct n as [|n]; cbn in H.
      + inversion H; subst. cbn. repeat split; auto. lia.
      + destruct (IH _ _ _ H) as (A1 & A2 & A3). cbn [nth_error List.length]. repeat split; auto. lia.
  Qed.

  Lemma skipn_nil_len {A} (l : list A) : forall n, skipn n l = [] -> (List.length l <= n)%nat.
  Proof.
    induction l as [|y l IH]; intros n H; cbn; [lia|].
    destruct n as [|n]; [discriminate|]. cbn in H. specialize (IH _ H). lia.
  Qed.

  Lemma skipn_snoc {A} (l l' : list A) n : (n <= List.length l)%nat -> skipn n (l ++ l') = skipn n l ++ l'.
  Proof.
    intros H. rewrite skipn_app. replace (n - List.length l)%nat with 0%nat by lia. reflexivity.
  Qed.

  (** ** dependence on the state *)
  Lemma seg_ok_mem g g' p s : v_mem g' = v_mem g -> seg_ok g p s -> seg_ok g' p s.
  Proof. intros E. apply seg_ok_frame. intros i _. rewrite E. reflexivity. Qed.

  Lemma lay_mem g g' l : forall p, v_mem g' = v_mem g -> lay g p l -> lay g' p l.
  Proof.
    induction l as [|s r IH]; intros p E H; cbn [lay] in *; [exact Logic.I|].
    destruct H as (Hs & Hr). split; [eapply seg_ok_mem; eauto|apply IH; auto].
  Qed.

  Lemma read64_mem g g' off : v_mem g' = v_mem g -> read64 g' off = read64 g off.
  Proof. intros E. unfold read64. f_equal. apply read_bytes_agree. intros i _. rewrite E. reflexivity. Qed.

  Lemma pph_mem g g' l : v_mem g' = v_mem g -> v_back g' = v_back g -> pph_ok g l -> pph_ok g' l.
  Proof.
    intros E B. unfold pph_ok. rewrite B. destruct (lv_ph l); auto.
    - rewrite (read64_mem g g') by exact E. auto.
    - rewrite (read64_mem g g') by exact E. auto.
    - intros (H1 & H2). split; [eapply seg_ok_mem; eauto|exact H2].
  Qed.

  (** ** histories *)
  Lemma Inv_neutral g a tr t e :
    Inv g a tr -> vpush_rec e = [] -> vpop_cnt e = 0%nat -> Phi tr t e -> Inv g a (tr ++ [(t, e)]).
  Proof.
    intros I E1 E2 HP. destruct I.
    constructor; rewrite ?vpushed_snoc, ?npopped_snoc, ?E1, ?E2, ?app_nil_r, ?Nat.add_0_r; auto.
    apply hist_ok_snoc; assumption.
  Qed.

  Lemma Inv_acc g a tr t k o ok : Inv g a tr -> Inv g a (tr ++ [(t, EvAcc k o ok)]).
  Proof. intros I. apply Inv_neutral; auto. exact Logic.I. Qed.

  Lemma Phi_trivial tr t name args :
    name <> "vfront_ok"%string -> name <> "vfront_null"%string -> name <> "vpop_fail"%string ->
    Phi tr t (EvCli name args).
  Proof. intros. cbn. repeat split; intros; congruence. Qed.

  (** ** producer steps *)

  (** the producer changes its view and possibly writes free bytes / logs a failure *)
  Lemma Inv_p_write g g' a tr l' :
    Inv g a tr ->
    v_front g' = v_front g -> v_back g' = v_back g -> v_wbad g' = false ->
    (forall f b size, In (f, b, size) (v_fails g') -> fail_cond f b size) ->
    (forall x, v_front g <= x < v_back g -> v_mem g' (x mod cap) = v_mem g (x mod cap)) ->
    lv_mine l' = v_back g -> lv_loc (pv a) <= lv_loc l' <= v_front g ->
    0 <= lv_rem l' <= lv_rem (pv a) -> pph_ok g' l' ->
    Inv g' (mkA (segs a) l' (cv a)) tr.
  Proof.
    intros I F B W FL AG M LOC REM PP. destruct I.
    constructor; cbn [segs pv cv]; rewrite ?F, ?B; auto; try lia.
    - eapply lay_frame; [exact AG| |rewrite j_len0; apply Z.le_refl|exact j_lay0]. lia.
    - unfold cph_ok in *. rewrite F. exact j_cph0.
  Qed.

  (** D: back_.store( back + tail ) publishes the tail marker *)
  Lemma Inv_p_pubtail g a tr pf b R size :
    Inv g a tr -> pv a = mkL pf b R (PTailS size) ->
    let tail := cap - b mod cap in
    Inv (setv_back g (b + tail)) (mkA (segs a ++ [STail tail]) (mkL pf (b + tail) (R - tail) PIdle) (cv a)) tr.
  Proof.
    intros I Hpv tail. destruct I. rewrite Hpv in *. cbn [lv_loc lv_mine lv_rem lv_ph] in *.
    unfold pph_ok in j_pph0. cbn [lv_loc lv_mine lv_rem lv_ph] in j_pph0. subst b.
    destruct j_pph0 as (S1 & S2 & S3 & S4 & S5 & S6 & S7). fold tail in S4, S5, S6, S7.
    pose proof cap_pos as Hc. pose proof (Z.mod_pos_bound (v_back g) cap ltac:(lia)) as Mb.
    assert (Ht8 : tail mod 8 = 0).
    { unfold tail. rewrite Zminus_mod, cap8, off_mod8 by exact j_align0. reflexivity. }
    destruct (segs_len_nonneg _ _ _ j_lay0) as (N1 & _ & _).
    constructor; cbn [segs pv cv lv_loc lv_mine lv_rem lv_ph setv_back v_front v_back v_mem v_fails v_wbad]; auto; try lia.
    - rewrite Z.add_mod, j_align0, Ht8 by lia. reflexivity.
    - rewrite segs_len_app. cbn [segs_len seg_len]. lia.
    - apply lay_app. split; [eapply lay_mem; [|exact j_lay0]; reflexivity|].
      cbn [lay]. split; [|exact Logic.I]. rewrite j_len0. cbn [seg_ok].
      repeat split; try lia. rewrite (read64_mem g) by reflexivity. exact S6.
    - destruct j_cb0 as (l1 & l2 & E1 & E2). exists l1, (l2 ++ [STail tail]). rewrite E1, app_assoc. auto.
    - rewrite recs_of_app. cbn [recs_of]. rewrite app_nil_r. exact j_recs0.
    - unfold pph_ok. cbn. exact Logic.I.
    - unfold cph_ok in *. cbn [v_front setv_back]. destruct (lv_ph (cv a)); auto.
      + destruct j_cph0 as (C1 & seed & rest & C2). split; [exact C1|]. rewrite C2. cbn [app]. eauto.
      + destruct j_cph0 as (C1 & rest & C2). split; [exact C1|]. rewrite C2. cbn [app]. eauto.
  Qed.

  (** F: back_.store( back + real_size ) publishes the record, with its "vpush_ok" event *)
  Lemma Inv_p_push g a tr pf b R size seed :
    Inv g a tr -> pv a = mkL pf b R (PRec size seed) ->
    Inv (setv_back g (b + rsz size)) (mkA (segs a ++ [SRec size seed]) (mkL pf (b + rsz size) (R - rsz size) PIdle) (cv a))
        (tr ++ [(0%nat, EvCli "vpush_ok" [size; seed])]).
  Proof.
    intros I Hpv. destruct I. rewrite Hpv in *. cbn [lv_loc lv_mine lv_rem lv_ph] in *.
    unfold pph_ok in j_pph0. cbn [lv_loc lv_mine lv_rem lv_ph] in j_pph0. subst b.
    destruct j_pph0 as (S1 & S2 & S3).
    destruct (seg_len_pos _ _ _ S1) as (L1 & L2 & L3). cbn [seg_len] in *.
    destruct (segs_len_nonneg _ _ _ j_lay0) as (N1 & _ & _).
    constructor; cbn [segs pv cv lv_loc lv_mine lv_rem lv_ph setv_back v_front v_back v_mem v_fails v_wbad];
      rewrite ?vpushed_snoc, ?npopped_snoc; cbn [vpush_rec vpop_cnt String.eqb Ascii.eqb Bool.eqb];
      rewrite ?Nat.add_0_r; auto; try lia.
    - rewrite Z.add_mod, j_align0, L2 by lia. reflexivity.
    - rewrite segs_len_app. cbn [segs_len seg_len]. lia.
    - apply lay_app. split; [eapply lay_mem; [|exact j_lay0]; reflexivity|].
      cbn [lay]. split; [|exact Logic.I]. rewrite j_len0. eapply seg_ok_mem; [|exact S1]. reflexivity.
    - destruct j_cb0 as (l1 & l2 & E1 & E2). exists l1, (l2 ++ [SRec size seed]). rewrite E1, app_assoc. auto.
    - destruct j_recs0 as (R1 & R2). rewrite recs_of_app. cbn [recs_of]. rewrite R1. split.
      + symmetry. apply skipn_snoc. exact R2.
      + rewrite app_length. lia.
    - unfold pph_ok. cbn. exact Logic.I.
    - unfold cph_ok in *. cbn [v_front setv_back]. destruct (lv_ph (cv a)); auto.
      + destruct j_cph0 as (C1 & seed' & rest & C2). split; [exact C1|]. rewrite C2. cbn [app]. eauto.
      + destruct j_cph0 as (C1 & rest & C2). split; [exact C1|]. rewrite C2. cbn [app]. eauto.
    - apply hist_ok_snoc; [assumption|]. apply Phi_trivial; discriminate.
  Qed.

  (** ** consumer steps *)

  (** the consumer changes its phase, or reloads cback_ = back_ *)
  Lemma Inv_c_view g a tr l' :
    Inv g a tr -> lv_mine l' = v_front g ->
    (lv_loc l' = lv_loc (cv a) \/ lv_loc l' = v_back g) ->
    cph_ok g (segs a) l' -> Inv g (mkA (segs a) (pv a) l') tr.
  Proof.
    intros I M LOC CP. destruct I.
    constructor; cbn [segs pv cv]; auto; try (destruct LOC as [->| ->]; lia).
    destruct LOC as [->| ->]; [exact j_cb0|]. exists (segs a), []. rewrite app_nil_r. auto.
  Qed.

  Lemma head_boundary g a tr s rest :
    Inv g a tr -> segs a = s :: rest -> v_front g + 8 <= lv_loc (cv a) ->
    v_front g + seg_len s <= lv_loc (cv a) /\
    exists l1 l2, rest = l1 ++ l2 /\ v_front g + seg_len s + segs_len l1 = lv_loc (cv a).
  Proof.
    intros I Hs H8. destruct I. destruct j_cb0 as (l1 & l2 & E1 & E2).
    destruct l1 as [|s' l1']; [cbn in E2; lia|].
    rewrite Hs in E1. cbn in E1. inversion E1; subst s' rest.
    rewrite Hs in j_lay0. cbn [lay] in j_lay0. destruct j_lay0 as (_ & Hr).
    apply lay_app in Hr. destruct Hr as (Hr1 & _).
    destruct (segs_len_nonneg _ _ _ Hr1) as (N1 & _ & _). cbn [segs_len] in E2.
    split; [lia|]. exists l1', l2. split; [reflexivity|lia].
  Qed.

  (** D of pop_front() on a record, with its "vpop_ok" event *)
  Lemma Inv_c_pop_rec g a tr cb f r size :
    Inv g a tr -> cv a = mkL cb f r (CRec size) ->
    exists seed rest, segs a = SRec size seed :: rest /\
    Inv (setv_front g (f + rsz size)) (mkA rest (pv a) (mkL cb (f + rsz size) r PIdle))
        (tr ++ [(1%nat, EvCli "vpop_ok" [])]).
  Proof.
    intros I Hcv. pose proof I as I'. destruct I'. rewrite Hcv in *. cbn [lv_loc lv_mine lv_rem lv_ph] in *.
    unfold cph_ok in j_cph0. cbn [lv_loc lv_ph] in j_cph0. destruct j_cph0 as (C1 & seed & rest & C2).
    exists seed, rest. split; [exact C2|]. subst f.
    destruct (head_boundary g a tr _ _ I C2) as (B1 & l1 & l2 & B2 & B3); [rewrite Hcv; exact C1|].
    rewrite Hcv in B1, B3. cbn [lv_loc seg_len] in B1, B3.
    rewrite C2 in *. cbn [lay segs_len seg_len recs_of] in *. destruct j_lay0 as (Hs & Hr).
    destruct (seg_len_pos _ _ _ Hs) as (L1 & L2 & L3). cbn [seg_len] in *.
    destruct j_recs0 as (R1 & R2). symmetry in R1. destruct (skipn_cons_nth _ _ _ _ R1) as (K1 & K2 & K3).
    constructor; cbn [segs pv cv lv_loc lv_mine lv_rem lv_ph setv_front v_front v_back v_mem v_fails v_wbad];
      rewrite ?vpushed_snoc, ?npopped_snoc; cbn [vpush_rec vpop_cnt String.eqb Ascii.eqb Bool.eqb];
      rewrite ?app_nil_r; auto; try lia.
    - eapply lay_mem; [|exact Hr]. reflexivity.
    - exists l1, l2. auto.
    - replace (npopped tr + 1)%nat with (S (npopped tr)) by lia. split; [symmetry; exact K2|exact K3].
    - eapply pph_mem; [| |exact j_pph0]; reflexivity.
    - unfold cph_ok. cbn. exact Logic.I.
    - apply hist_ok_snoc; [assumption|]. apply Phi_trivial; discriminate.
  Qed.

  (** D of the pop_front() inside front() on a tail marker: no client event *)
  Lemma Inv_c_pop_tail g a tr cb f r t :
    Inv g a tr -> cv a = mkL cb f r (CTail t) ->
    exists rest, segs a = STail t :: rest /\
    Inv (setv_front g (f + t)) (mkA rest (pv a) (mkL cb (f + t) r CZero)) tr.
  Proof.
    intros I Hcv. pose proof I as I'. destruct I'. rewrite Hcv in *. cbn [lv_loc lv_mine lv_rem lv_ph] in *.
    unfold cph_ok in j_cph0. cbn [lv_loc lv_ph] in j_cph0. destruct j_cph0 as (C1 & rest & C2).
    exists rest. split; [exact C2|]. subst f.
    destruct (head_boundary g a tr _ _ I C2) as (B1 & l1 & l2 & B2 & B3); [rewrite Hcv; exact C1|].
    rewrite Hcv in B1, B3. cbn [lv_loc seg_len] in B1, B3.
    rewrite C2 in *. cbn [lay segs_len seg_len recs_of] in *. destruct j_lay0 as (Hs & Hr).
    destruct (seg_len_pos _ _ _ Hs) as (L1 & L2 & L3). cbn [seg_len seg_ok] in *.
    destruct Hs as (T1 & T2 & T3 & T4 & T5). pose proof cap_pos as Hc.
    constructor; cbn [segs pv cv lv_loc lv_mine lv_rem lv_ph setv_front v_front v_back v_mem v_fails v_wbad];
      auto; try lia.
    - eapply lay_mem; [|exact Hr]. reflexivity.
    - exists l1, l2. auto.
    - eapply pph_mem; [| |exact j_pph0]; reflexivity.
    - unfold cph_ok. cbn [lv_ph v_front].
      rewrite (Z.div_mod (v_front g) cap) at 1 by lia.
      replace (cap * (v_front g / cap) + v_front g mod cap + t) with ((v_front g / cap + 1) * cap) by lia.
      apply Z_mod_mult.
  Qed.

  (** ** producer memory writes *)
  Lemma read64_write64 g o v : 0 <= v < two64 ->
    read_bytes (write64 cap g o v) o 8 = le_bytes 8 v /\ le_val (le_bytes 8 v) = v.
  Proof.
    intros Hv. split.
    - unfold write64. apply (write_bytes_read cap (le_bytes 8 v) g o).
    - apply le_roundtrip. exact Hv.
  Qed.

  Lemma write_tail g v :
    0 <= v_front g <= v_back g -> v_back g mod cap + 8 <= cap -> v_back g + 8 <= v_front g + cap ->
    v_wbad g = false -> 0 <= v < two64 ->
    let g' := write64 cap g (v_back g mod cap) v in
    v_front g' = v_front g /\ v_back g' = v_back g /\ v_fails g' = v_fails g /\ v_wbad g' = false /\
    (forall x, v_front g <= x < v_back g -> v_mem g' (x mod cap) = v_mem g (x mod cap)) /\
    read64 g' (v_back g mod cap) = v.
  Proof.
    intros Hfb Hfit Hfree Hw Hv g'.
    pose proof (producer_write g (le_bytes 8 v) 0) as P. cbn zeta in P.
    rewrite le_bytes_length, !Z.add_0_r in P. change (Z.of_nat 8) with 8 in P.
    destruct (P Hfb ltac:(lia) ltac:(lia) ltac:(lia) Hw) as (A & B & C & D & E & F).
    repeat split; auto.
    unfold read64. unfold g', write64. rewrite F. apply le_roundtrip. exact Hv.
  Qed.

  Lemma write_record g size seed :
    0 <= v_front g <= v_back g -> 1 <= size <= cap -> v_back g mod cap + rsz size <= cap ->
    v_back g + rsz size <= v_front g + cap -> v_wbad g = false ->
    let o := v_back g mod cap in
    let g' := write_bytes cap (write64 cap g o size) (o + 8) (data_bytes size seed) in
    v_front g' = v_front g /\ v_back g' = v_back g /\ v_fails g' = v_fails g /\ v_wbad g' = false /\
    (forall x, v_front g <= x < v_back g -> v_mem g' (x mod cap) = v_mem g (x mod cap)) /\
    seg_ok g' (v_back g) (SRec size seed).
  Proof.
    intros Hfb Hsz Hfit Hfree Hw o g'. pose proof cap_small as Hcs. pose proof cap_pos as Hc.
    destruct (rsz_bounds size ltac:(lia)) as (R1 & R2 & R3).
    pose proof (Z.mod_pos_bound (v_back g) cap ltac:(lia)) as Mb.
    assert (Hv : 0 <= size < two64) by (unfold two64; lia).
    (* header *)
    pose proof (producer_write g (le_bytes 8 size) 0) as P. cbn zeta in P.
    rewrite le_bytes_length, !Z.add_0_r in P. change (Z.of_nat 8) with 8 in P.
    destruct (P Hfb ltac:(lia) ltac:(lia) ltac:(lia) Hw) as (A1 & B1 & C1 & D1 & E1 & F1).
    fold (write64 cap g (v_back g mod cap) size) in A1, B1, C1, D1, E1, F1.
    set (g1 := write64 cap g (v_back g mod cap) size) in *.
    (* data *)
    pose proof (producer_write g1 (data_bytes size seed) 8) as P2. cbn zeta in P2.
    rewrite data_bytes_length in P2 by lia. rewrite A1, B1 in P2.
    destruct (P2 Hfb ltac:(lia) ltac:(lia) ltac:(lia) D1) as (A2 & B2 & C2 & D2 & E2 & F2).
    fold o in A2, B2, C2, D2, E2, F2. fold g' in A2, B2, C2, D2, E2, F2.
    split; [exact A2|]. split; [exact B2|]. split; [exact (eq_trans C2 C1)|]. split; [exact D2|]. split.
    - intros x Hx. rewrite E2 by lia. apply E1. exact Hx.
    - cbn [seg_ok]. fold o. repeat split; try lia.
      + unfold read64. rewrite (read_bytes_agree g1 g' 8 o).
        * fold o in F1. rewrite F1. apply le_roundtrip. exact Hv.
        * intros i Hi. change (Z.of_nat 8) with 8 in Hi. unfold o.
          rewrite <- (mod_offset (v_back g) i) by lia. apply E2. lia.
      + replace (Z.to_nat size) with (List.length (data_bytes size seed)); [exact F2|].
        pose proof (data_bytes_length size seed ltac:(lia)). lia.
  Qed.

  (** ** the operations are safe *)
  Notation safe := (@Conc.safe GV V ev Aux lview view Inv).

  Lemma frame_p a sg l : Conc.frame view 0 a (mkA sg l (cv a)).
  Proof. intros t' Ht. destruct t' as [|[|t']]; [congruence| |]; reflexivity. Qed.
  Lemma frame_c a sg l : Conc.frame view 1 a (mkA sg (pv a) l).
  Proof. intros t' Ht. destruct t' as [|[|t']]; [|congruence|]; reflexivity. Qed.
  Lemma frame_refl t a : Conc.frame view t a a.
  Proof. intros t' Ht. reflexivity. Qed.
  Lemma tag1 t (e : ev) : Conc.tag t [e] = [(t, e)].
  Proof. reflexivity. Qed.
  Lemma tag2 t (e1 e2 : ev) tr : tr ++ Conc.tag t [e1; e2] = (tr ++ [(t, e1)]) ++ [(t, e2)].
  Proof. unfold Conc.tag. cbn [map]. rewrite <- app_assoc. reflexivity. Qed.

  Lemma space_lt_false pf back n :
    0 <= pf + cap - back < two64 -> space_lt cap pf back n = false -> back + n <= pf + cap.
  Proof. unfold space_lt. intros H E. rewrite u64_small in E by exact H. apply Z.ltb_ge in E. lia. Qed.
  Lemma space_lt_true pf back n :
    0 <= pf + cap - back < two64 -> space_lt cap pf back n = true -> pf + cap - back < n.
  Proof. unfold space_lt. intros H E. rewrite u64_small in E by exact H. apply Z.ltb_lt in E. lia. Qed.
  Lemma avail_lt_false cb f n :
    0 <= cb - f < two64 -> avail_lt cb f n = false -> f + n <= cb.
  Proof. unfold avail_lt. intros H E. rewrite u64_small in E by exact H. apply Z.ltb_ge in E. lia. Qed.
  Lemma avail_lt_true cb f n :
    0 <= cb - f < two64 -> avail_lt cb f n = true -> cb - f < n.
  Proof. unfold avail_lt. intros H E. rewrite u64_small in E by exact H. apply Z.ltb_lt in E. lia. Qed.

  Lemma crs_eq size : 1 <= size <= cap -> calc_real_size size = rsz size.
  Proof. intros H. pose proof cap_small. apply calc_real_size_eq; unfold two64; lia. Qed.

  Definition Qp (R0 : Z) : Z -> lview -> Prop :=
    fun pf l => exists b R', l = mkL pf b R' PIdle /\ R0 <= R'.

  (** push_back(): E, F *)
  Lemma safe_push_back_op pf b R size seed ret R0 :
    1 <= size <= cap -> R0 <= R - rsz size ->
    safe 0 (push_back_op exp2 cap size seed ret) (mkL pf b R (PRec size seed)) (fun r l => r = ret /\ Qp R0 pf l).
  Proof.
    intros Hsz HR0. unfold push_back_op. cbn [Conc.safe]. intros g a tr I Hv. cbn [view] in Hv.
    unfold av_pb_ld_back. cbn [fst snd hd].
    exists a. split; [rewrite tag1; apply Inv_acc; exact I|]. split; [apply frame_refl|].
    cbn [view]. rewrite Hv.
    assert (Hb : v_back g = b /\ read64 g (idx exp2 cap (v_back g)) = size /\ u64 (b + rsz size) = b + rsz size).
    { destruct I. rewrite Hv in *. cbn [lv_loc lv_mine lv_rem lv_ph] in *.
      unfold pph_ok in j_pph0. cbn [lv_loc lv_mine lv_rem lv_ph] in j_pph0.
      destruct j_pph0 as (S1 & S2 & S3). cbn [seg_ok] in S1. destruct S1 as (_ & _ & _ & S1 & _).
      destruct (rsz_bounds size ltac:(lia)). split; [auto|]. split.
      - rewrite idx_mod by (try apply Hcap; lia). exact S1.
      - apply u64_small. lia. }
    destruct Hb as (Hb1 & Hb2 & Hb3). rewrite Hb2, Hb1, crs_eq, Hb3 by exact Hsz.
    clear g a tr I Hv Hb1 Hb2.
    cbn [Conc.safe]. intros g a tr I Hv. cbn [view] in Hv. unfold av_pb_st_back. cbn [fst snd].
    exists (mkA (segs a ++ [SRec size seed]) (mkL pf (b + rsz size) (R - rsz size) PIdle) (cv a)).
    split; [|split; [apply frame_p|]].
    - rewrite tag2. eapply Inv_p_push; [apply Inv_acc; exact I|exact Hv].
    - cbn. split; [reflexivity|]. do 2 eexists. split; [reflexivity|lia].
  Qed.

  (** D: publish the tail, write the record at the start of the buffer, then push_back() *)
  Lemma safe_D pf b R size seed R0 :
    1 <= size <= cap -> R0 <= R - rsz size - cap ->
    safe 0 (Act (av_back_st_back cap (b + (cap - b mod cap)) size seed) (fun _ => push_back_op exp2 cap size seed pf))
         (mkL pf b R (PTailS size)) (fun r l => r = pf /\ Qp R0 pf l).
  Proof.
    intros Hsz HR0. cbn [Conc.safe]. intros g a tr I Hv. cbn [view] in Hv.
    unfold av_back_st_back. cbn [fst snd].
    pose proof (Inv_p_pubtail g a tr pf b R size I Hv) as I1. cbn zeta in I1.
    set (tail := cap - b mod cap) in *.
    set (g1 := setv_back g (b + tail)) in *.
    assert (Hfacts : v_back g = b /\ 8 <= tail <= cap /\ rsz size <= cap /\ rsz size + cap <= R /\
                     b + tail + rsz size <= pf + cap /\ (b + tail) mod cap = 0 /\ 0 <= pf <= v_front g /\ v_front g <= b).
    { destruct I. rewrite Hv in *. cbn [lv_loc lv_mine lv_rem lv_ph] in *.
      unfold pph_ok in j_pph0. cbn [lv_loc lv_mine lv_rem lv_ph] in j_pph0. subst b.
      destruct j_pph0 as (S1 & S2 & S3 & S4 & S5 & S6 & S7). pose proof cap_pos as Hc.
      pose proof (Z.mod_pos_bound (v_back g) cap ltac:(lia)) as Mb. fold tail in S4, S5, S6, S7.
      repeat split; try lia. unfold tail.
      rewrite (Z.div_mod (v_back g) cap) at 1 by lia.
      replace (cap * (v_back g / cap) + v_back g mod cap + (cap - v_back g mod cap)) with ((v_back g / cap + 1) * cap) by lia.
      apply Z_mod_mult. }
    destruct Hfacts as (Hb & Ht & Hrs & HR & Hsp & Hz & Hpf & Hfb).
    pose proof I1 as I1'. destruct I1'. cbn [segs pv cv lv_loc lv_mine lv_rem lv_ph] in *.
    assert (Hb1 : v_back g1 = b + tail) by reflexivity. assert (Hf1 : v_front g1 = v_front g) by reflexivity.
    destruct (write_record g1 size seed) as (A & B & C & D & E & F);
      [rewrite Hb1, Hf1; lia|exact Hsz|rewrite Hb1, Hz; lia|rewrite Hb1, Hf1; lia|exact j_wbad0|].
    rewrite Hb1, Hz in A, B, C, D, E, F. cbn [Z.add] in A, B, C, D, E, F.
    set (g2 := write_bytes cap (write64 cap g1 0 size) 8 (data_bytes size seed)) in *.
    exists (mkA (segs a ++ [STail tail]) (mkL pf (b + tail) (R - tail) (PRec size seed)) (cv a)).
    split; [|split; [apply frame_p|]].
    - rewrite tag1. apply Inv_acc.
      apply (Inv_p_write g1 g2 (mkA (segs a ++ [STail tail]) (mkL pf (b + tail) (R - tail) PIdle) (cv a)) tr
                         (mkL pf (b + tail) (R - tail) (PRec size seed))); auto;
        cbn [segs pv cv lv_loc lv_mine lv_rem lv_ph]; try lia.
      + intros f0 b0 s0 Hin. rewrite C in Hin. apply j_fails0. exact Hin.
      + unfold pph_ok. cbn [lv_loc lv_mine lv_rem lv_ph]. rewrite B. split; [exact F|]. lia.
    - cbn [view pv]. apply safe_push_back_op; [exact Hsz|lia].
  Qed.

  Lemma fail_cond_second g size :
    let b := v_back g in let tail := cap - b mod cap in
    tail < rsz size -> v_front g + cap - (b + tail) < rsz size -> fail_cond (v_front g) b size.
  Proof. intros b tail H1 H2. unfold fail_cond. right. fold b tail. lia. Qed.

  (** C: the reload for the second space test *)
  Lemma safe_C pf b R size seed R0 :
    1 <= size <= cap -> R0 <= R - rsz size - cap ->
    safe 0 (Act (av_back_ld_front2 cap (b + (cap - b mod cap)) size) (fun r =>
              let pf' := fst r in
              if space_lt cap pf' (b + (cap - b mod cap)) (rsz size) then Ret pf'
              else Act (av_back_st_back cap (b + (cap - b mod cap)) size seed) (fun _ => push_back_op exp2 cap size seed pf')))
         (mkL pf b R (PTailT size)) (fun r l => Qp R0 r l).
  Proof.
    intros Hsz HR0. cbn [Conc.safe]. intros g a tr I Hv. cbn [view] in Hv.
    unfold av_back_ld_front2. rewrite crs_eq by exact Hsz.
    pose proof I as I'. destruct I'. rewrite Hv in *. cbn [lv_loc lv_mine lv_rem lv_ph] in *.
    unfold pph_ok in j_pph0. cbn [lv_loc lv_mine lv_rem lv_ph] in j_pph0. subst b.
    destruct j_pph0 as (S1 & S2 & S3 & S4 & S5 & S6). pose proof cap_pos as Hc.
    pose proof (Z.mod_pos_bound (v_back g) cap ltac:(lia)) as Mb.
    set (tail := cap - v_back g mod cap) in *.
    assert (Hrng : 0 <= v_front g + cap - (v_back g + tail) < two64) by lia.
    destruct (space_lt cap (v_front g) (v_back g + tail) (rsz size)) eqn:Hs; cbn [fst snd]; pose proof Hs as Hs0.
    - apply space_lt_true in Hs; [|exact Hrng].
      exists (mkA (segs a) (mkL (v_front g) (v_back g) R PIdle) (cv a)).
      split; [|split; [apply frame_p|]].
      + rewrite tag2. apply Inv_neutral; try reflexivity; [apply Inv_acc|apply Phi_trivial; discriminate].
        apply (Inv_p_write g (log_fail g size) a tr (mkL (v_front g) (v_back g) R PIdle)); auto;
          rewrite ?Hv; cbn [log_fail v_fails lv_loc lv_mine lv_rem lv_ph]; try lia.
        * intros f0 b0 s0 [Hin|Hin]; [|apply j_fails0; exact Hin].
          inversion Hin; subst. apply fail_cond_second; fold tail; lia.
        * unfold pph_ok. cbn. exact Logic.I.
      + rewrite Hs0. cbn. do 2 eexists. split; [reflexivity|lia].
    - apply space_lt_false in Hs; [|exact Hrng].
      exists (mkA (segs a) (mkL (v_front g) (v_back g) R (PTailS size)) (cv a)).
      split; [|split; [apply frame_p|]].
      + rewrite tag1. apply Inv_acc.
        apply (Inv_p_write g g a tr (mkL (v_front g) (v_back g) R (PTailS size))); auto;
          rewrite ?Hv; cbn [lv_loc lv_mine lv_rem lv_ph]; try lia.
        unfold pph_ok. cbn [lv_loc lv_mine lv_rem lv_ph]. fold tail. repeat split; try lia; try exact S6.
      + rewrite Hs0. cbn [view pv]. eapply Conc.safe_weaken; [|apply safe_D; [exact Hsz|exact HR0]].
        intros r l (-> & H). exact H.
  Qed.

  Lemma tail_ge8 b : 0 <= b -> b mod 8 = 0 -> 8 <= cap - b mod cap /\ (cap - b mod cap) mod 8 = 0 /\ cap - b mod cap <= cap.
  Proof.
    intros Hb H8. pose proof cap_pos as Hc. pose proof (Z.mod_pos_bound b cap ltac:(lia)) as Mb.
    assert (Hm : (cap - b mod cap) mod 8 = 0) by (rewrite Zminus_mod, cap8, off_mod8 by exact H8; reflexivity).
    pose proof (Z.div_mod (cap - b mod cap) 8 ltac:(lia)). lia.
  Qed.

  (** the code of back() after a successful first space test with pfront_ = [pf], and what follows *)
  Lemma post_space_step g a tr pf0 pf R size seed R0 :
    Inv g a tr -> pv a = mkL pf0 (v_back g) R PIdle -> pf0 <= pf <= v_front g ->
    v_back g + rsz size <= pf + cap ->
    1 <= size <= cap -> rsz size <= cap -> rsz size + cap <= R -> R0 <= R - rsz size - cap ->
    exists l', Inv (post_space exp2 cap g (v_back g) size seed) (mkA (segs a) l' (cv a)) tr /\
               safe 0 (after_space exp2 cap (v_back g) pf size seed) l' (fun r l => Qp R0 r l).
  Proof.
    intros I Hpv Hpf Hsp Hsz Hrs HR HR0.
    pose proof I as I'. destruct I'. rewrite Hpv in *. cbn [lv_loc lv_mine lv_rem lv_ph] in *.
    pose proof cap_pos as Hc. pose proof cap_small as Hcs.
    assert (Hb0 : 0 <= v_back g) by lia.
    pose proof (Z.mod_pos_bound (v_back g) cap ltac:(lia)) as Mb.
    destruct (tail_ge8 (v_back g) Hb0 j_align0) as (T1 & T2 & T3).
    destruct (rsz_bounds size ltac:(lia)) as (Q1 & Q2 & Q3).
    unfold post_space, after_space. cbn zeta.
    rewrite !crs_eq by exact Hsz. rewrite !(idx_mod exp2 cap (v_back g) Hcap Hb0).
    rewrite !(u64_small (cap - v_back g mod cap)) by (unfold two64; lia).
    set (tail := cap - v_back g mod cap) in *.
    destruct (Z.ltb tail (rsz size)) eqn:Ht.
    - apply Z.ltb_lt in Ht.
      rewrite !(u64_small (tail - 8)) by (unfold two64; lia).
      rewrite !(u64_small (v_back g + tail)) by lia.
      assert (Hv : 0 <= make_tail (tail - 8) < two64).
      { rewrite make_tail_add by (unfold top_bit; lia). unfold top_bit, two64. lia. }
      destruct (write_tail g (make_tail (tail - 8))) as (A & B & C & D & E & F); try lia; try assumption.
      set (g' := write64 cap g (v_back g mod cap) (make_tail (tail - 8))) in *.
      destruct (space_lt cap pf (v_back g + tail) (rsz size)) eqn:Hs2.
      + exists (mkL pf (v_back g) R (PTailT size)). split.
        * apply (Inv_p_write g g' a tr (mkL pf (v_back g) R (PTailT size))); auto;
            rewrite ?Hpv; cbn [lv_loc lv_mine lv_rem lv_ph]; try lia;
            try (intros f0 b0 s0 Hin; rewrite C in Hin; apply j_fails0; exact Hin).
          unfold pph_ok. cbn [lv_loc lv_mine lv_rem lv_ph]. rewrite B. fold tail. repeat split; try lia; try exact F.
        * apply safe_C; [exact Hsz|exact HR0].
      + apply space_lt_false in Hs2; [|lia].
        exists (mkL pf (v_back g) R (PTailS size)). split.
        * apply (Inv_p_write g g' a tr (mkL pf (v_back g) R (PTailS size))); auto;
            rewrite ?Hpv; cbn [lv_loc lv_mine lv_rem lv_ph]; try lia;
            try (intros f0 b0 s0 Hin; rewrite C in Hin; apply j_fails0; exact Hin).
          unfold pph_ok. cbn [lv_loc lv_mine lv_rem lv_ph]. rewrite B. fold tail. repeat split; try lia; try exact F.
        * eapply Conc.safe_weaken; [|apply safe_D; [exact Hsz|exact HR0]]. intros r l (-> & H). exact H.
    - apply Z.ltb_ge in Ht.
      destruct (write_record g size seed) as (A & B & C & D & E & F); try lia; try assumption.
      set (g' := write_bytes cap (write64 cap g (v_back g mod cap) size) (v_back g mod cap + 8) (data_bytes size seed)) in *.
      exists (mkL pf (v_back g) R (PRec size seed)). split.
      + apply (Inv_p_write g g' a tr (mkL pf (v_back g) R (PRec size seed))); auto;
          rewrite ?Hpv; cbn [lv_loc lv_mine lv_rem lv_ph]; try lia;
          try (intros f0 b0 s0 Hin; rewrite C in Hin; apply j_fails0; exact Hin).
        unfold pph_ok. cbn [lv_loc lv_mine lv_rem lv_ph]. rewrite B. split; [exact F|]. lia.
      + eapply Conc.safe_weaken; [|apply (safe_push_back_op pf (v_back g) R size seed pf R0); [exact Hsz|lia]].
        intros r l (-> & H). exact H.
  Qed.

  (** B: the reload for the first space test *)
  Lemma safe_vpush_B pf b R size seed R0 :
    1 <= size <= cap -> rsz size <= cap -> rsz size + cap <= R -> R0 <= R - rsz size - cap ->
    safe 0 (Act (av_back_ld_front1 exp2 cap b size seed) (fun r2 =>
              let pf' := fst r2 in
              if space_lt cap pf' b (rsz size) then Ret pf' else after_space exp2 cap b pf' size seed))
         (mkL pf b R PIdle) (fun r l => Qp R0 r l).
  Proof.
    intros Hsz Hrs HR HR0. cbn [Conc.safe]. intros g a tr I Hv. cbn [view] in Hv.
    unfold av_back_ld_front1. rewrite crs_eq by exact Hsz.
    pose proof I as I'. destruct I'. rewrite Hv in *. cbn [lv_loc lv_mine lv_rem lv_ph] in *. subst b.
    assert (Hrng : 0 <= v_front g + cap - v_back g < two64) by lia.
    destruct (space_lt cap (v_front g) (v_back g) (rsz size)) eqn:Hs; cbn [fst snd]; pose proof Hs as Hs0.
    - apply space_lt_true in Hs; [|exact Hrng].
      exists (mkA (segs a) (mkL (v_front g) (v_back g) R PIdle) (cv a)).
      split; [|split; [apply frame_p|]].
      + rewrite tag2. apply Inv_neutral; try reflexivity; [apply Inv_acc|apply Phi_trivial; discriminate].
        apply (Inv_p_write g (log_fail g size) a tr (mkL (v_front g) (v_back g) R PIdle)); auto;
          rewrite ?Hv; cbn [log_fail v_fails lv_loc lv_mine lv_rem lv_ph]; try lia;
          try (unfold pph_ok; cbn; exact Logic.I);
          try (intros f0 b0 s0 [Hin|Hin]; [inversion Hin; subst; unfold fail_cond; left; lia|apply j_fails0; exact Hin]).
      + rewrite Hs0. cbn. do 2 eexists. split; [reflexivity|lia].
    - apply space_lt_false in Hs; [|exact Hrng].
      destruct (post_space_step g a tr pf (v_front g) R size seed R0 I Hv) as (l' & I1 & S1); try lia.
      exists (mkA (segs a) l' (cv a)). split; [rewrite tag1; apply Inv_acc; exact I1|].
      split; [apply frame_p|]. rewrite Hs0. cbn [view pv]. exact S1.
  Qed.

  Lemma safe_vpush pf b R size seed R0 :
    1 <= size <= cap -> rsz size <= cap -> rsz size + cap <= R -> R0 <= R - rsz size - cap ->
    safe 0 (vpush exp2 cap pf size seed) (mkL pf b R PIdle) (fun r l => Qp R0 r l).
  Proof.
    intros Hsz Hrs HR HR0. unfold vpush. cbn zeta. rewrite !crs_eq by exact Hsz.
    cbn [Conc.safe]. intros g a tr I Hv. cbn [view] in Hv.
    unfold av_back_ld_back. rewrite crs_eq by exact Hsz.
    pose proof I as I'. destruct I'. rewrite Hv in *. cbn [lv_loc lv_mine lv_rem lv_ph] in *. subst b.
    assert (Hrng : 0 <= pf + cap - v_back g < two64) by lia.
    destruct (space_lt cap pf (v_back g) (rsz size)) eqn:Hs; cbn [fst snd]; pose proof Hs as Hs0.
    - exists a. split; [rewrite tag1; apply Inv_acc; exact I|]. split; [apply frame_refl|].
      rewrite Hs0. cbn [view]. rewrite Hv. apply safe_vpush_B; assumption.
    - apply space_lt_false in Hs; [|exact Hrng].
      destruct (post_space_step g a tr pf pf R size seed R0 I Hv) as (l' & I1 & S1); try lia.
      exists (mkA (segs a) l' (cv a)). split; [rewrite tag1; apply Inv_acc; exact I1|].
      split; [apply frame_p|]. rewrite Hs0. cbn [view pv]. exact S1.
  Qed.

  (** *** consumer *)

  (** what the reads of front() see once [front_ + 8 <= cback_]: the head segment *)
  Lemma front_found g a tr cb0 f r ph0 cbx ct :
    Inv g a tr -> cv a = mkL cb0 f r ph0 -> (cbx = cb0 \/ cbx = v_back g) -> f + 8 <= cbx ->
    (ct = false -> f mod cap = 0) ->
    (exists t, ct = true /\ vf_read exp2 cap ct g f = ([make_tail (t - 8)], []) /\
               is_tail (make_tail (t - 8)) = true /\
               Inv g (mkA (segs a) (pv a) (mkL cbx f r (CTail t))) tr) \/
    (exists sz seed,
        vf_read exp2 cap ct g f = (sz :: data_bytes sz seed, [EvCli "vfront_ok" (sz :: data_bytes sz seed)]) /\
        is_tail sz = false /\
        Inv g (mkA (segs a) (pv a) (mkL cbx f r (CRec sz))) tr /\
        nth_error (vpushed tr) (npopped tr) = Some (sz, seed)).
  Proof.
    intros I Hcv Hcbx H8 Hct. pose proof I as I'. destruct I'. rewrite Hcv in *.
    cbn [lv_loc lv_mine lv_rem lv_ph] in *. subst f.
    pose proof cap_pos as Hc. pose proof cap_small as Hcs.
    assert (Hcb : cbx <= v_back g) by (destruct Hcbx; subst; lia).
    assert (Hf0 : 0 <= v_front g) by lia.
    destruct (segs a) as [|s rest] eqn:Hsegs; [cbn [segs_len] in j_len0; lia|].
    cbn [lay] in j_lay0. destruct j_lay0 as (Hs & Hr).
    unfold vf_read. rewrite (idx_mod exp2 cap (v_front g) Hcap Hf0).
    destruct s as [sz seed|t]; cbn [seg_ok] in Hs.
    - right. destruct Hs as (S1 & S2 & S3 & S4 & S5). exists sz, seed.
      assert (Hnt : is_tail sz = false) by (apply is_tail_small; unfold top_bit; lia).
      rewrite S4, Hnt, andb_false_r. replace (Z.leb sz cap) with true by (symmetry; apply Z.leb_le; lia).
      rewrite S5. split; [reflexivity|]. split; [reflexivity|]. split.
      + rewrite <- Hsegs. apply Inv_c_view; auto; cbn [lv_loc lv_mine lv_rem lv_ph]; [rewrite Hcv; cbn; tauto|].
        unfold cph_ok. cbn [lv_loc lv_ph]. split; [lia|]. rewrite Hsegs. eauto.
      + destruct j_recs0 as (R1 & R2). cbn [recs_of] in R1. symmetry in R1.
        destruct (skipn_cons_nth _ _ _ _ R1) as (K1 & _). exact K1.
    - left. destruct Hs as (T1 & T2 & T3 & T4 & T5). exists t.
      destruct ct; [|specialize (Hct eq_refl); lia].
      assert (Hit : is_tail (make_tail (t - 8)) = true) by (apply is_tail_make_tail; unfold top_bit; lia).
      rewrite T5, Hit. cbn [andb]. split; [reflexivity|]. split; [reflexivity|]. split; [reflexivity|].
      rewrite <- Hsegs. apply Inv_c_view; auto; cbn [lv_loc lv_mine lv_rem lv_ph]; [rewrite Hcv; cbn; tauto|].
      unfold cph_ok. cbn [lv_loc lv_ph]. split; [lia|]. rewrite Hsegs. eauto.
  Qed.

  Lemma Phi_vfront_ok tr t sz seed :
    nth_error (vpushed tr) (npopped tr) = Some (sz, seed) ->
    Phi tr t (EvCli "vfront_ok" (sz :: data_bytes sz seed)).
  Proof. intros H. cbn. repeat split; intros; try discriminate. eauto. Qed.

  Lemma Phi_vfront_null g a tr t :
    Inv g a tr -> v_back g - v_front g < 8 -> Phi tr t (EvCli "vfront_null" []).
  Proof.
    intros I H. destruct I. cbn. repeat split; intros; try discriminate.
    destruct (segs_len_nonneg _ _ _ j_lay0) as (N1 & N2 & N3).
    assert (segs_len (segs a) = 0).
    { pose proof (Z.div_mod (segs_len (segs a)) 8 ltac:(lia)). lia. }
    rewrite (N2 H1) in j_recs0. cbn [recs_of] in j_recs0. destruct j_recs0 as (R1 & R2).
    symmetry in R1. apply skipn_nil_len in R1. lia.
  Qed.

  Definition cstart (ph : phase) : Prop := ph = PIdle \/ exists sz, ph = CRec sz.

  Definition Qf (r : Z) : Z * bool -> lview -> Prop :=
    fun res l => exists f,
      if snd res then exists sz, l = mkL (fst res) f r (CRec sz) else l = mkL (fst res) f r PIdle.
  Definition Qc (r : Z) : Z -> lview -> Prop :=
    fun cb l => exists f, l = mkL cb f r PIdle.

  (** pop_front() on the record front() just returned *)
  Lemma safe_vpop_rec cb f r sz :
    safe 1 (vpop_front exp2 cap cb [EvCli "vpop_ok" []] [EvCli "vpop_fail" []]) (mkL cb f r (CRec sz)) (Qc r).
  Proof.
    unfold vpop_front. cbn [Conc.safe]. intros g a tr I Hv. cbn [view] in Hv.
    pose proof I as I'. destruct I'. rewrite Hv in *. cbn [lv_loc lv_mine lv_rem lv_ph] in *.
    unfold cph_ok in j_cph0. cbn [lv_loc lv_ph] in j_cph0. destruct j_cph0 as (C1 & seed & rest & C2).
    pose proof cap_pos as Hc. pose proof cap_small as Hcs. subst f.
    assert (Hf0 : 0 <= v_front g) by lia.
    rewrite C2 in j_lay0. cbn [lay seg_ok] in j_lay0. destruct j_lay0 as ((S1 & S2 & S3 & S4 & S5) & _).
    rewrite C2 in j_len0. cbn [segs_len seg_len] in j_len0.
    destruct (segs_len_nonneg g rest (v_front g + rsz sz)) as (N1 & _ & _).
    { pose proof (j_lay _ _ _ I) as L. rewrite C2 in L. cbn [lay] in L. apply L. }
    unfold av_pop_ld_front.
    assert (Hs : avail_lt cb (v_front g) 8 = false).
    { unfold avail_lt. rewrite u64_small by lia. apply Z.ltb_ge. lia. }
    rewrite Hs. cbn [fst snd hd]. rewrite Hs.
    rewrite (idx_mod exp2 cap (v_front g) Hcap Hf0), S4.
    rewrite untail_small by (unfold top_bit; lia). rewrite crs_eq by lia.
    destruct (rsz_bounds sz ltac:(lia)) as (Q1 & Q2 & Q3).
    rewrite u64_small by lia.
    exists a. split; [rewrite tag1; apply Inv_acc; exact I|]. split; [apply frame_refl|].
    cbn [view]. rewrite Hv.
    cbn [Conc.safe]. intros g2 a2 tr2 I2 Hv2. cbn [view] in Hv2.
    unfold av_pop_st_front. cbn [fst snd].
    destruct (Inv_c_pop_rec g2 a2 (tr2 ++ [(1%nat, EvAcc KSt vobj_front true)]) cb (v_front g) r sz) as (seed2 & rest2 & E2 & I3).
    { apply Inv_acc. exact I2. } { exact Hv2. }
    exists (mkA rest2 (pv a2) (mkL cb (v_front g + rsz sz) r PIdle)).
    split; [rewrite tag2; exact I3|]. split; [apply frame_c|]. cbn. eexists. reflexivity.
  Qed.
  (** the pop_front() inside front(), on a tail marker *)
  Lemma safe_vpop_tail cb f r t :
    safe 1 (vpop_front exp2 cap cb [] []) (mkL cb f r (CTail t))
         (fun cb' l => cb' = cb /\ exists f', l = mkL cb f' r CZero).
  Proof.
    unfold vpop_front. cbn [Conc.safe]. intros g a tr I Hv. cbn [view] in Hv.
    pose proof I as I'. destruct I'. rewrite Hv in *. cbn [lv_loc lv_mine lv_rem lv_ph] in *.
    unfold cph_ok in j_cph0. cbn [lv_loc lv_ph] in j_cph0. destruct j_cph0 as (C1 & rest & C2).
    pose proof cap_pos as Hc. pose proof cap_small as Hcs. subst f.
    assert (Hf0 : 0 <= v_front g) by lia.
    rewrite C2 in j_lay0. cbn [lay seg_ok] in j_lay0. destruct j_lay0 as ((T1 & T2 & T3 & T4 & T5) & Hr).
    rewrite C2 in j_len0. cbn [segs_len seg_len] in j_len0.
    destruct (segs_len_nonneg g rest _ Hr) as (N1 & _ & _).
    unfold av_pop_ld_front.
    assert (Hs : avail_lt cb (v_front g) 8 = false).
    { unfold avail_lt. rewrite u64_small by lia. apply Z.ltb_ge. lia. }
    rewrite Hs. cbn [fst snd hd]. rewrite Hs.
    rewrite (idx_mod exp2 cap (v_front g) Hcap Hf0), T5.
    pose proof (Z.mod_pos_bound (v_front g) cap ltac:(lia)) as Mf.
    rewrite untail_make_tail by (unfold top_bit; lia).
    rewrite calc_real_size_eq by (unfold two64; lia).
    assert (Ht8 : (t - 8) mod 8 = 0).
    { pose proof (Z.div_mod t 8 ltac:(lia)). replace (t - 8) with ((t / 8 - 1) * 8) by lia. apply Z_mod_mult. }
    rewrite rsz_of_multiple by (lia || exact Ht8). replace (t - 8 + 8) with t by lia.
    rewrite u64_small by lia.
    exists a. split; [rewrite tag1; apply Inv_acc; exact I|]. split; [apply frame_refl|].
    cbn [view]. rewrite Hv.
    cbn [Conc.safe]. intros g2 a2 tr2 I2 Hv2. cbn [view] in Hv2.
    unfold av_pop_st_front. cbn [fst snd].
    destruct (Inv_c_pop_tail g2 a2 (tr2 ++ [(1%nat, EvAcc KSt vobj_front true)]) cb (v_front g) r t) as (rest2 & E2 & I3).
    { apply Inv_acc. exact I2. } { exact Hv2. }
    exists (mkA rest2 (pv a2) (mkL cb (v_front g + t) r CZero)).
    split; [rewrite tag1; exact I3|]. split; [apply frame_c|]. cbn. split; [reflexivity|]. eexists. reflexivity.
  Qed.

  Lemma Inv_found_event g a tr k o sz seed :
    Inv g a tr -> nth_error (vpushed tr) (npopped tr) = Some (sz, seed) ->
    Inv g a (tr ++ Conc.tag 1 [EvAcc k o true; EvCli "vfront_ok" (sz :: data_bytes sz seed)]).
  Proof.
    intros I H. rewrite tag2. apply Inv_neutral; try reflexivity; [apply Inv_acc; exact I|].
    apply Phi_vfront_ok. rewrite vpushed_snoc, npopped_snoc. cbn [vpush_rec vpop_cnt].
    rewrite app_nil_r, Nat.add_0_r. exact H.
  Qed.

  (** reads after the tail skip: the segment at the start of the buffer is a record *)
  Lemma found_step_false g a tr cb0 f r ph0 cbx k o :
    Inv g a tr -> cv a = mkL cb0 f r ph0 -> (cbx = cb0 \/ cbx = v_back g) -> f + 8 <= cbx -> f mod cap = 0 ->
    exists a', Inv g a' (tr ++ Conc.tag 1 (EvAcc k o true :: snd (vf_read exp2 cap false g f))) /\
               Conc.frame view 1 a a' /\ Qf r (cbx, true) (view a' 1).
  Proof.
    intros I Hcv Hcbx H8 Hz.
    destruct (front_found g a tr cb0 f r ph0 cbx false I Hcv Hcbx H8 (fun _ => Hz))
      as [(t & Hct & _)|(sz & seed & E & Hnt & I2 & Hn)]; [discriminate|].
    rewrite E. cbn [snd].
    exists (mkA (segs a) (pv a) (mkL cbx f r (CRec sz))). split; [|split; [apply frame_c|]].
    - apply Inv_found_event; assumption.
    - cbn. exists f, sz. reflexivity.
  Qed.

  Lemma safe_after_tail_F cb f r :
    safe 1 (Act (av_front_ld_back exp2 cap f false) (fun r2 =>
              let cb' := fst r2 in if avail_lt cb' f 8 then Ret (cb', false) else Ret (cb', true)))
         (mkL cb f r CZero) (Qf r).
  Proof.
    cbn [Conc.safe]. intros g a tr I Hv. cbn [view] in Hv.
    pose proof I as I'. destruct I'. rewrite Hv in *. cbn [lv_loc lv_mine lv_rem lv_ph] in *.
    unfold cph_ok in j_cph0. cbn [lv_ph] in j_cph0. subst f.
    unfold av_front_ld_back.
    assert (Hrng : 0 <= v_back g - v_front g < two64) by lia.
    destruct (avail_lt (v_back g) (v_front g) 8) eqn:Hs; pose proof Hs as Hs0.
    - apply avail_lt_true in Hs; [|exact Hrng]. cbn [fst snd]. rewrite Hs0.
      exists (mkA (segs a) (pv a) (mkL (v_back g) (v_front g) r PIdle)).
      split; [|split; [apply frame_c|]].
      + rewrite tag2. apply Inv_neutral; try reflexivity.
        * apply Inv_acc. apply Inv_c_view; auto; cbn [lv_loc lv_mine lv_ph]; try tauto; try (unfold cph_ok; cbn; exact Logic.I).
        * eapply Phi_vfront_null; [apply Inv_acc; exact I|exact Hs].
      + cbn. eexists. reflexivity.
    - apply avail_lt_false in Hs; [|exact Hrng].
      destruct (found_step_false g a tr cb (v_front g) r CZero (v_back g) KLd vobj_back I Hv) as (a' & I2 & F2 & Q2);
        [tauto|lia|exact j_cph0|].
      destruct (vf_read exp2 cap false g (v_front g)) as [vals es]. cbn [fst snd] in *. rewrite Hs0.
      exists a'. split; [exact I2|]. split; [exact F2|exact Q2].
  Qed.

  Lemma safe_after_tail cb f r :
    safe 1 (vfront_after_tail exp2 cap cb) (mkL cb f r CZero) (Qf r).
  Proof.
    unfold vfront_after_tail. cbn [Conc.safe]. intros g a tr I Hv. cbn [view] in Hv.
    pose proof I as I'. destruct I'. rewrite Hv in *. cbn [lv_loc lv_mine lv_rem lv_ph] in *.
    unfold cph_ok in j_cph0. cbn [lv_ph] in j_cph0. subst f.
    unfold av_front_ld_front.
    assert (Hrng : 0 <= cb - v_front g < two64) by lia.
    destruct (avail_lt cb (v_front g) 8) eqn:Hs; pose proof Hs as Hs0.
    - cbn [fst snd]. rewrite Hs0.
      exists a. split; [rewrite tag1; apply Inv_acc; exact I|]. split; [apply frame_refl|].
      cbn [view]. rewrite Hv. apply safe_after_tail_F.
    - apply avail_lt_false in Hs; [|exact Hrng].
      destruct (found_step_false g a tr cb (v_front g) r CZero cb KLd vobj_front I Hv) as (a' & I2 & F2 & Q2);
        [tauto|lia|exact j_cph0|].
      destruct (vf_read exp2 cap false g (v_front g)) as [vals es]. cbn [fst snd] in *. rewrite Hs0.
      exists a'. split; [exact I2|]. split; [exact F2|exact Q2].
  Qed.

  (** first reads of front(): a record, or a tail marker to be skipped *)
  Lemma found_step_true g a tr cb0 f r ph0 cbx k o :
    Inv g a tr -> cv a = mkL cb0 f r ph0 -> (cbx = cb0 \/ cbx = v_back g) -> f + 8 <= cbx ->
    exists a', Inv g a' (tr ++ Conc.tag 1 (EvAcc k o true :: snd (vf_read exp2 cap true g f))) /\
               Conc.frame view 1 a a' /\
               safe 1 (vfront_tail_or_ret exp2 cap cbx (fst (vf_read exp2 cap true g f))) (view a' 1) (Qf r).
  Proof.
    intros I Hcv Hcbx H8.
    destruct (front_found g a tr cb0 f r ph0 cbx true I Hcv Hcbx H8 ltac:(intros; discriminate))
      as [(t & _ & E & Hit & I2)|(sz & seed & E & Hnt & I2 & Hn)]; rewrite E; cbn [fst snd].
    - exists (mkA (segs a) (pv a) (mkL cbx f r (CTail t))). split; [|split; [apply frame_c|]].
      + rewrite tag1. apply Inv_acc. exact I2.
      + cbn [view cv]. unfold vfront_tail_or_ret. cbn [hd]. rewrite Hit.
        apply Conc.safe_bind. eapply Conc.safe_weaken; [|apply safe_vpop_tail].
        intros cb' l (-> & f' & ->). apply safe_after_tail.
    - exists (mkA (segs a) (pv a) (mkL cbx f r (CRec sz))). split; [|split; [apply frame_c|]].
      + apply Inv_found_event; assumption.
      + cbn [view cv]. unfold vfront_tail_or_ret. cbn [hd]. rewrite Hnt. cbn. exists f, sz. reflexivity.
  Qed.

  Lemma safe_vfront_B cb f r :
    safe 1 (Act (av_front_ld_back exp2 cap f true) (fun r2 =>
              let cb' := fst r2 in
              if avail_lt cb' f 8 then Ret (cb', false) else vfront_tail_or_ret exp2 cap cb' (snd r2)))
         (mkL cb f r PIdle) (Qf r).
  Proof.
    cbn [Conc.safe]. intros g a tr I Hv. cbn [view] in Hv.
    pose proof I as I'. destruct I'. rewrite Hv in *. cbn [lv_loc lv_mine lv_rem lv_ph] in *. subst f.
    unfold av_front_ld_back.
    assert (Hrng : 0 <= v_back g - v_front g < two64) by lia.
    destruct (avail_lt (v_back g) (v_front g) 8) eqn:Hs; pose proof Hs as Hs0.
    - apply avail_lt_true in Hs; [|exact Hrng]. cbn [fst snd]. rewrite Hs0.
      exists (mkA (segs a) (pv a) (mkL (v_back g) (v_front g) r PIdle)).
      split; [|split; [apply frame_c|]].
      + rewrite tag2. apply Inv_neutral; try reflexivity.
        * apply Inv_acc. apply Inv_c_view; auto; cbn [lv_loc lv_mine lv_ph]; try tauto; try (unfold cph_ok; cbn; exact Logic.I).
        * eapply Phi_vfront_null; [apply Inv_acc; exact I|exact Hs].
      + cbn. eexists. reflexivity.
    - apply avail_lt_false in Hs; [|exact Hrng].
      destruct (found_step_true g a tr cb (v_front g) r PIdle (v_back g) KLd vobj_back I Hv) as (a' & I2 & F2 & S2);
        [tauto|lia|].
      destruct (vf_read exp2 cap true g (v_front g)) as [vals es]. cbn [fst snd] in *. rewrite Hs0.
      exists a'. split; [exact I2|]. split; [exact F2|exact S2].
  Qed.

  Lemma safe_vfront cb f r ph :
    cstart ph -> safe 1 (vfront exp2 cap cb) (mkL cb f r ph) (Qf r).
  Proof.
    intros Hph. unfold vfront. cbn [Conc.safe]. intros g a tr I Hv. cbn [view] in Hv.
    pose proof I as I'. destruct I'. rewrite Hv in *. cbn [lv_loc lv_mine lv_rem lv_ph] in *. subst f.
    unfold av_front_ld_front.
    assert (Hrng : 0 <= cb - v_front g < two64) by lia.
    destruct (avail_lt cb (v_front g) 8) eqn:Hs; pose proof Hs as Hs0.
    - cbn [fst snd]. rewrite Hs0.
      exists (mkA (segs a) (pv a) (mkL cb (v_front g) r PIdle)).
      split; [|split; [apply frame_c|]].
      + rewrite tag1. apply Inv_acc. apply Inv_c_view; auto; cbn [lv_loc lv_mine lv_ph]; try (rewrite Hv; cbn; tauto); try (unfold cph_ok; cbn; exact Logic.I).
      + cbn [view cv]. apply safe_vfront_B.
    - apply avail_lt_false in Hs; [|exact Hrng].
      destruct (found_step_true g a tr cb (v_front g) r ph cb KLd vobj_front I Hv) as (a' & I2 & F2 & S2);
        [tauto|lia|].
      destruct (vf_read exp2 cap true g (v_front g)) as [vals es]. cbn [fst snd] in *. rewrite Hs0.
      exists a'. split; [exact I2|]. split; [exact F2|exact S2].
  Qed.

  (** *** client programs *)
  Lemma safe_emit t e (k : progv Z) l (Q : Z -> lview -> Prop) :
    vpush_rec e = [] -> vpop_cnt e = 0%nat -> (forall tr, Phi tr t e) ->
    safe t k l Q -> safe t (Emit [e] k) l Q.
  Proof.
    intros E1 E2 HP Hk. cbn [Conc.safe]. intros g a tr I Hv. exists a.
    split; [rewrite tag1; apply Inv_neutral; auto|]. split; [apply frame_refl|]. rewrite Hv. exact Hk.
  Qed.

  Definition cost (o : vpop_) : Z := match o with VPush size _ => rsz size + cap end.
  Fixpoint volv (os : list vpop_) : Z := match os with [] => 0 | o :: r => cost o + volv r end.

  Lemma cost_nonneg o : vop_ok cap o = true -> 0 <= cost o.
  Proof.
    destruct o as [size seed]. cbn. intros H. apply andb_prop in H. destruct H as [H _].
    apply andb_prop in H. destruct H as [H1 _]. apply Z.leb_le in H1.
    destruct (rsz_bounds size ltac:(lia)). pose proof cap_pos. lia.
  Qed.

  Lemma volv_nonneg os : forallb (vop_ok cap) os = true -> 0 <= volv os.
  Proof.
    induction os as [|o r IH]; cbn [volv forallb]; [lia|]. intros H. apply andb_prop in H. destruct H as [H1 H2].
    pose proof (cost_nonneg o H1). specialize (IH H2). lia.
  Qed.

  Lemma safe_run_vpop pf b R o :
    vop_ok cap o = true -> cost o <= R ->
    safe 0 (run_vpop exp2 cap pf o) (mkL pf b R PIdle) (fun r l => Qp (R - cost o) r l).
  Proof.
    destruct o as [size seed]. cbn [vop_ok cost run_vpop]. intros H HR.
    apply andb_prop in H. destruct H as [H H3]. apply andb_prop in H. destruct H as [H1 H2].
    apply Z.leb_le in H1, H2, H3. rewrite crs_eq in H3 by lia.
    apply safe_emit; try reflexivity; [intros tr; apply Phi_trivial; discriminate|].
    apply safe_vpush; lia.
  Qed.

  Lemma safe_run_vpops os : forall pf b R,
    forallb (vop_ok cap) os = true -> volv os <= R ->
    safe 0 (run_vpops exp2 cap pf os) (mkL pf b R PIdle) (@Conc.QTrue lview).
  Proof.
    induction os as [|o r IH]; intros pf b R Hok HR; cbn [run_vpops volv forallb] in *; [exact Logic.I|].
    apply andb_prop in Hok. destruct Hok as [H1 H2]. pose proof (volv_nonneg r H2) as Hr.
    apply Conc.safe_bind. eapply Conc.safe_weaken; [|apply safe_run_vpop; [exact H1|lia]].
    intros pf' l' (b' & R' & -> & HR'). apply IH; [exact H2|lia].
  Qed.

  Definition Qcs (r : Z) : Z -> lview -> Prop :=
    fun cb l => exists f ph, l = mkL cb f r ph /\ cstart ph.

  Lemma safe_run_vcop cb f r ph o :
    cstart ph -> safe 1 (run_vcop exp2 cap cb o) (mkL cb f r ph) (Qcs r).
  Proof.
    intros Hph. destruct o; cbn [run_vcop].
    - apply safe_emit; try reflexivity; [intros tr; apply Phi_trivial; discriminate|].
      apply Conc.safe_bind. eapply Conc.safe_weaken; [|apply safe_vfront; exact Hph].
      intros [cb' found] l' (f' & H). cbn [fst snd] in *. cbn. destruct found.
      + destruct H as (sz & ->). exists f', (CRec sz). split; [reflexivity|right; eauto].
      + subst l'. exists f', PIdle. split; [reflexivity|left; reflexivity].
    - apply safe_emit; try reflexivity; [intros tr; apply Phi_trivial; discriminate|].
      apply Conc.safe_bind. eapply Conc.safe_weaken; [|apply safe_vfront; exact Hph].
      intros [cb' found] l' (f' & H). cbn [fst snd] in *. destruct found.
      + destruct H as (sz & ->). eapply Conc.safe_weaken; [|apply safe_vpop_rec].
        intros cb2 l2 (f2 & ->). exists f2, PIdle. split; [reflexivity|left; reflexivity].
      + subst l'. cbn. exists f', PIdle. split; [reflexivity|left; reflexivity].
  Qed.

  Lemma safe_run_vcops os : forall cb f r ph,
    cstart ph -> safe 1 (run_vcops exp2 cap cb os) (mkL cb f r ph) (@Conc.QTrue lview).
  Proof.
    induction os as [|o rest IH]; intros cb f r ph Hph; cbn [run_vcops]; [exact Logic.I|].
    apply Conc.safe_bind. eapply Conc.safe_weaken; [|apply safe_run_vcop; exact Hph].
    intros cb' l' (f' & ph' & -> & Hph'). apply IH. exact Hph'.
  Qed.

  Lemma safe_begin t (k : Conc.thread GV V ev) l :
    safe t k l (@Conc.QTrue lview) -> safe t (Act av_begin (fun _ => k)) l (@Conc.QTrue lview).
  Proof.
    intros Hk. cbn [Conc.safe]. intros g a tr I Hv. unfold av_begin. cbn [fst snd].
    exists a. split; [rewrite tag1; apply Inv_acc; exact I|]. split; [apply frame_refl|].
    rewrite Hv. exact Hk.
  Qed.

  Lemma vinit_ok pos cos :
    forallb (vop_ok cap) pos = true -> volv pos + cap < two64 ->
    Conc.cfg_ok view Inv (vinit_cfg exp2 cap pos cos).
  Proof.
    intros Hok Hvol. pose proof (volv_nonneg pos Hok) as Hp. pose proof cap_pos as Hc.
    exists (mkA [] (mkL 0 0 (volv pos) PIdle) (mkL 0 0 0 PIdle)). split.
    - unfold two64 in *. cbn. constructor; try apply hist_ok_nil; cbn; try lia; try reflexivity; try exact Logic.I;
        try (exists [], []; split; reflexivity); try (split; [reflexivity|lia]); try (intros f b size []).
    - intros t p Hp'. cbn [vinit_cfg Conc.threads] in Hp'.
      destruct t as [|[|t]]; cbn in Hp'.
      + inversion Hp'; subst p. unfold vproducer. apply safe_begin. apply safe_run_vpops; [exact Hok|lia].
      + inversion Hp'; subst p. unfold vconsumer. apply safe_begin. apply safe_run_vcops. left. reflexivity.
      + destruct t; discriminate.
  Qed.

  Lemma reach_Inv pos cos c :
    forallb (vop_ok cap) pos = true -> volv pos + cap < two64 ->
    Conc.reach (vinit_cfg exp2 cap pos cos) c ->
    exists a, Inv (Conc.shared c) a (Conc.trace c).
  Proof. intros Hok Hvol Hr. eapply Conc.reach_Inv; [apply vinit_ok; eauto|exact Hr]. Qed.

End RingV.

(** ** the theorems: every capacity that is a multiple of 8 (a power of two when the mask is used), every
       sequence of record sizes with 1 <= size, real size <= capacity, EVERY schedule *)
Section Theorems.
  Variables (exp2 : bool) (cap : Z) (pos : list vpop_) (cos : list vcop) (c : Conc.config GV V ev).
  Hypothesis Hcapv : capv_ok exp2 cap = true.
  Hypothesis Hops : forallb (vop_ok cap) pos = true.
  Hypothesis Hvol : volv cap pos + cap < two64.
  Hypothesis Hreach : Conc.reach (vinit_cfg exp2 cap pos cos) c.

  (** every record front() returns is the oldest pushed-and-not-popped record, size and bytes *)
  Theorem ringv_record_exact :
    forall tr1 t args tr2, Conc.trace c = tr1 ++ (t, EvCli "vfront_ok" args) :: tr2 ->
      exists size seed, nth_error (vpushed tr1) (npopped tr1) = Some (size, seed) /\
                        args = size :: data_bytes size seed.
  Proof.
    destruct (reach_Inv exp2 cap Hcapv pos cos c Hops Hvol Hreach) as (a & I). destruct I.
    intros tr1 t args tr2 E. specialize (j_hist0 _ _ _ _ E). cbn in j_hist0.
    destruct j_hist0 as (H & _). apply H. reflexivity.
  Qed.

  Theorem ringv_front_null_only_if_empty :
    forall tr1 t tr2, Conc.trace c = tr1 ++ (t, EvCli "vfront_null" []) :: tr2 ->
      List.length (vpushed tr1) = npopped tr1.
  Proof.
    destruct (reach_Inv exp2 cap Hcapv pos cos c Hops Hvol Hreach) as (a & I). destruct I.
    intros tr1 t tr2 E. specialize (j_hist0 _ _ _ _ E). cbn in j_hist0.
    destruct j_hist0 as (_ & H & _). apply H. reflexivity.
  Qed.

  Theorem ringv_pop_front_after_front_succeeds :
    forall tr1 t args tr2, Conc.trace c <> tr1 ++ (t, EvCli "vpop_fail" args) :: tr2.
  Proof.
    destruct (reach_Inv exp2 cap Hcapv pos cos c Hops Hvol Hreach) as (a & I). destruct I.
    intros tr1 t args tr2 E. specialize (j_hist0 _ _ _ _ E). cbn in j_hist0.
    destruct j_hist0 as (_ & _ & H). apply H. reflexivity.
  Qed.

  (** the producer never wrote outside the buffer nor on a byte of [front_, back_) *)
  Theorem ringv_no_overlap : v_wbad (Conc.shared c) = false.
  Proof.
    destruct (reach_Inv exp2 cap Hcapv pos cos c Hops Hvol Hreach) as (a & I). destruct I. exact j_wbad0.
  Qed.

  (** back( size ) failed only when, at the deciding access, free space < real size, or the record does not fit
      before the end of the buffer and free space minus that unusable tail < real size *)
  Theorem ringv_push_fails_only_if_no_contiguous_space :
    forall f b size, In (f, b, size) (v_fails (Conc.shared c)) -> fail_cond cap f b size.
  Proof.
    destruct (reach_Inv exp2 cap Hcapv pos cos c Hops Hvol Hreach) as (a & I). destruct I. exact j_fails0.
  Qed.

  Theorem ringv_counters :
    0 <= v_front (Conc.shared c) <= v_back (Conc.shared c) /\
    v_back (Conc.shared c) <= v_front (Conc.shared c) + cap /\
    v_back (Conc.shared c) mod 8 = 0 /\
    (npopped (Conc.trace c) <= List.length (vpushed (Conc.trace c)))%nat.
  Proof.
    destruct (reach_Inv exp2 cap Hcapv pos cos c Hops Hvol Hreach) as (a & I). destruct I.
    destruct j_recs0. repeat split; try lia; try exact j_align0.
  Qed.
End Theorems.
