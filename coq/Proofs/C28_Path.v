(** * C28_Path — the addressing theorems, for EVERY splitter that meets [splitter_spec] (C28_Splitters.v proves
    that each generated splitter meets it), every layout [good_layout] (which metrics::make establishes,
    C28_Metrics.v) accepted by the splitter's [is_correct], and every hash. *)
Require Import ZArith Lia List Bool.
Require Import LV.Base.CInt LV.Model.FeldmanPath LV.Proofs.C28_Digits.
Import ListNotations.
Local Open Scope Z_scope.

(** What a hash splitter must do.  [val h] is the hash read as an unsigned number (two's complement bits of an
    integral hash; little-endian value of a byte string), [pos s] the number of bits consumed, [okc c] the counts
    the theorems cover (they imply [is_correct c]). *)
Record splitter_spec {H S : Type} (sp : splitter H S) (W : Z) (valid : H -> Prop) (val : H -> Z)
       (okc : Z -> Prop) (inv : H -> S -> Prop) (pos : S -> Z) : Prop := {
  ss_width : W = 8 * sp_size sp;
  ss_val_range : forall h, valid h -> 0 <= val h < 2 ^ W;
  ss_val_inj : forall h1 h2, valid h1 -> valid h2 -> val h1 = val h2 -> h1 = h2;
  ss_heqb : forall h1 h2, valid h1 -> valid h2 -> (sp_heqb sp h1 h2 = true <-> h1 = h2);
  ss_okc : forall c, okc c -> sp_is_correct sp c = Some true;
  ss_init : forall h, valid h -> inv h (sp_init sp h) /\ pos (sp_init sp h) = 0;
  ss_init_at : forall h s, valid h -> inv h s -> pos s < W ->
    inv h (sp_init_at sp h (pos s)) /\ pos (sp_init_at sp h (pos s)) = pos s;
  ss_pos : forall h s, inv h s -> 0 <= pos s <= W;
  ss_eos : forall h s, valid h -> inv h s -> sp_eos sp h s = Some (W <=? pos s);
  ss_bit_offset : forall h s, valid h -> inv h s -> sp_bit_offset sp h s = Some (pos s);
  ss_cut : forall h s c, valid h -> inv h s -> okc c -> 0 < c -> pos s + c <= W ->
    exists s', sp_cut sp h s c = Some (slice (val h) (pos s) c, s') /\ inv h s' /\ pos s' = pos s + c
}.

(** what metrics::make guarantees about (head_node_size_log, array_node_size_log) — see C28_Metrics *)
Definition good_layout (W : Z) (m : metrics) : Prop :=
  0 < head_node_size_log m <= W /\ 0 < array_node_size_log m /\
  (W - head_node_size_log m) mod array_node_size_log m = 0.

Definition nlev (W : Z) (m : metrics) : nat := Z.to_nat ((W - head_node_size_log m) / array_node_size_log m).
Definition widths (W : Z) (m : metrics) : list Z :=
  head_node_size_log m :: repeat (array_node_size_log m) (nlev W m).

(** the path as pure arithmetic: (slice, "all bits consumed") per level *)
Fixpoint dpath (v p W : Z) (ws : list Z) : list (Z * bool) :=
  match ws with
  | [] => []
  | w :: r => (slice v p w, W <=? p + w) :: dpath v (p + w) W r
  end.

Lemma dpath_slots v p W ws : map fst (dpath v p W ws) = digits v p ws.
Proof. revert p; induction ws; simpl; intros; [reflexivity | now rewrite IHws]. Qed.

Lemma dpath_flags v p W ws : Forall (fun w => 0 < w) ws -> ws <> [] -> p + sumz ws = W ->
  map snd (dpath v p W ws) = repeat false (length ws - 1) ++ [true].
Proof.
  intros Hws. revert p. induction Hws as [|w ws Hw Hws IH]; intros p Hne Hsum; [congruence|].
  simpl in Hsum. fold (sumz ws) in Hsum. simpl dpath. simpl map.
  destruct ws as [|w2 ws].
  - simpl in *. f_equal. apply Z.leb_le. lia.
  - assert (0 < sumz (w2 :: ws)).
    { inversion Hws as [|? ? Hw2 Hws2]; subst. simpl. fold (sumz ws).
      assert (0 <= sumz ws) by (apply sumz_nonneg; eapply Forall_impl; [|exact Hws2]; simpl; intros; lia). lia. }
    replace (W <=? p + w) with false by (symmetry; apply Z.leb_gt; lia).
    rewrite IH by (try congruence; lia).
    replace (length (w :: w2 :: ws) - 1)%nat with (Datatypes.S (length (w2 :: ws) - 1)) by (simpl; lia).
    reflexivity.
Qed.

Lemma good_layout_facts W m : good_layout W m ->
  Forall (fun w => 0 < w) (widths W m) /\ sumz (widths W m) = W /\
  W - head_node_size_log m = Z.of_nat (nlev W m) * array_node_size_log m.
Proof.
  intros (Hh & Ha & Hm). unfold widths, nlev.
  set (hb := head_node_size_log m) in *. set (ab := array_node_size_log m) in *.
  assert (Hq : 0 <= (W - hb) / ab) by (apply Z.div_pos; lia).
  assert (HW : W - hb = (W - hb) / ab * ab).
  { pose proof (Z.div_mod (W - hb) ab ltac:(lia)). lia. }
  repeat split.
  - constructor; [lia|]. apply Forall_forall. intros x Hx. apply repeat_spec in Hx. lia.
  - simpl. fold (sumz (repeat ab (Z.to_nat ((W - hb) / ab)))). rewrite sumz_repeat, Z2Nat.id by lia. lia.
  - rewrite Z2Nat.id by lia. exact HW.
Qed.

Lemma Some_inj {A} (a b : A) : Some a = Some b -> a = b.
Proof. congruence. Qed.

Section Generic.
  Context {H S : Type} (sp : splitter H S) (W : Z) (valid : H -> Prop) (val : H -> Z)
          (okc : Z -> Prop) (inv : H -> S -> Prop) (pos : S -> Z).
  Hypothesis SP : splitter_spec sp W valid val okc inv pos.

  (** accepted: the two assertions of the multilevel_array constructor *)
  Lemma accepted_ok m : okc (head_node_size_log m) -> okc (array_node_size_log m) -> accepted sp m = Some true.
  Proof. intros A B. unfold accepted. now rewrite (ss_okc _ _ _ _ _ _ _ SP _ A), (ss_okc _ _ _ _ _ _ _ SP _ B). Qed.

  Lemma descend_spec h ab : valid h -> okc ab -> 0 < ab ->
    forall (n lv : nat) s, inv h s -> W - pos s = Z.of_nat n * ab -> (n < lv)%nat ->
    descend sp lv h s ab = Some (dpath (val h) (pos s) W (repeat ab n)).
  Proof.
    intros Hv Hok Hab. induction n as [|n IH]; intros lv s Hinv Hrem Hlv; (destruct lv as [|lv]; [lia|]); simpl descend.
    - rewrite (ss_eos _ _ _ _ _ _ _ SP h s Hv Hinv).
      replace (W <=? pos s) with true by (symmetry; apply Z.leb_le; lia). reflexivity.
    - rewrite (ss_eos _ _ _ _ _ _ _ SP h s Hv Hinv).
      replace (W <=? pos s) with false by (symmetry; apply Z.leb_gt; lia). cbn [obind].
      destruct (ss_cut _ _ _ _ _ _ _ SP h s ab Hv Hinv Hok Hab ltac:(lia)) as (s' & Hc & Hinv' & Hpos').
      rewrite Hc. cbn [obind]. rewrite (ss_eos _ _ _ _ _ _ _ SP h s' Hv Hinv'). cbn [obind].
      rewrite (IH lv s' Hinv') by lia. cbn [obind repeat dpath]. rewrite Hpos'. reflexivity.
  Qed.

  (** the model's path is the digit sequence of the hash value *)
  Lemma path_is_dpath m h lv : good_layout W m -> okc (head_node_size_log m) -> okc (array_node_size_log m) ->
    valid h -> (nlev W m < lv)%nat ->
    path sp lv m h = Some (dpath (val h) 0 W (widths W m)).
  Proof.
    intros GL Oh Oa Hv Hlv. pose proof GL as (Hh & Ha & Hm).
    destruct (good_layout_facts W m GL) as (_ & _ & Hrem).
    unfold path. destruct (ss_init _ _ _ _ _ _ _ SP h Hv) as (Hi & Hp0).
    destruct (ss_cut _ _ _ _ _ _ _ SP h _ _ Hv Hi Oh ltac:(lia) ltac:(lia)) as (s' & Hc & Hinv' & Hpos').
    rewrite Hc. cbn [obind]. rewrite (ss_eos _ _ _ _ _ _ _ SP h s' Hv Hinv'). cbn [obind].
    rewrite (descend_spec h _ Hv Oa Ha (nlev W m) lv s' Hinv') by lia.
    cbn [obind]. unfold widths. cbn [dpath]. rewrite Hp0, Hpos', Hp0. reflexivity.
  Qed.

  Lemma path_slots m h lv : good_layout W m -> okc (head_node_size_log m) -> okc (array_node_size_log m) ->
    valid h -> (nlev W m < lv)%nat ->
    exists p, path sp lv m h = Some p /\ slots p = digits (val h) 0 (widths W m) /\
              length p = Datatypes.S (nlev W m).
  Proof.
    intros. eexists. split; [apply path_is_dpath; assumption|]. split.
    - apply dpath_slots.
    - rewrite <- (map_length fst), dpath_slots, digits_length. unfold widths. simpl. now rewrite repeat_length.
  Qed.

  (** [layout_consumes_all_bits] *)
  Lemma layout_consumes_all_bits_gen m h lv : good_layout W m -> okc (head_node_size_log m) ->
    okc (array_node_size_log m) -> valid h -> (nlev W m < lv)%nat ->
    sumz (widths W m) = W /\
    exists p, path sp lv m h = Some p /\ length p = length (widths W m) /\
              map snd p = repeat false (nlev W m) ++ [true].
  Proof.
    intros GL Oh Oa Hv Hlv. destruct (good_layout_facts W m GL) as (Hpos & Hsum & _).
    split; [exact Hsum|]. eexists. split; [apply path_is_dpath; assumption|]. split.
    - rewrite <- (map_length fst), dpath_slots, digits_length. reflexivity.
    - rewrite dpath_flags by (first [assumption | (unfold widths; congruence) | lia]).
      unfold widths. cbn [length]. rewrite repeat_length. do 2 f_equal. lia.
  Qed.

  (** [path_deterministic]: the path depends on the bits of the hash only *)
  Lemma path_deterministic_gen m h1 h2 lv : good_layout W m -> okc (head_node_size_log m) ->
    okc (array_node_size_log m) -> valid h1 -> valid h2 -> (nlev W m < lv)%nat ->
    val h1 = val h2 -> path sp lv m h1 = path sp lv m h2.
  Proof. intros. rewrite !path_is_dpath by assumption. congruence. Qed.

  (** [slot_in_range] *)
  Lemma slot_in_range_gen m h lv p k slot w : good_layout W m -> okc (head_node_size_log m) ->
    okc (array_node_size_log m) -> valid h -> (nlev W m < lv)%nat ->
    path sp lv m h = Some p -> nth_error (slots p) k = Some slot -> nth_error (widths W m) k = Some w ->
    0 <= slot < 2 ^ w.
  Proof.
    intros GL Oh Oa Hv Hlv Hp Hs Hw. rewrite path_is_dpath in Hp by assumption. apply Some_inj in Hp. subst p.
    unfold slots in Hs. rewrite dpath_slots in Hs.
    destruct (good_layout_facts W m GL) as (Hpos & _ & _).
    apply (digits_in_range (val h) 0 (widths W m) k w slot); [| exact Hw | exact Hs].
    eapply Forall_impl; [|exact Hpos]. simpl. intros. lia.
  Qed.

  (** the full path is injective: [cut_sequence_reconstructs] for the layout *)
  Lemma path_injective_gen m h1 h2 lv p : good_layout W m -> okc (head_node_size_log m) ->
    okc (array_node_size_log m) -> valid h1 -> valid h2 -> (nlev W m < lv)%nat ->
    path sp lv m h1 = Some p -> path sp lv m h2 = Some p -> h1 = h2.
  Proof.
    intros GL Oh Oa Hv1 Hv2 Hlv H1 H2. rewrite path_is_dpath in H1, H2 by assumption.
    assert (E : digits (val h1) 0 (widths W m) = digits (val h2) 0 (widths W m)).
    { rewrite <- !dpath_slots with (W := W). congruence. }
    destruct (good_layout_facts W m GL) as (Hpos & Hsum & _).
    apply (ss_val_inj _ _ _ _ _ _ _ SP); try assumption.
    apply (digits_inj _ _ (widths W m)); try assumption.
    - eapply Forall_impl; [|exact Hpos]. simpl. intros. lia.
    - rewrite Hsum. now apply (ss_val_range _ _ _ _ _ _ _ SP).
    - rewrite Hsum. now apply (ss_val_range _ _ _ _ _ _ _ SP).
  Qed.

  (** [paths_diverge] *)
  Lemma paths_diverge_gen m h1 h2 lv : good_layout W m -> okc (head_node_size_log m) ->
    okc (array_node_size_log m) -> valid h1 -> valid h2 -> (nlev W m < lv)%nat -> h1 <> h2 ->
    exists p1 p2 k, path sp lv m h1 = Some p1 /\ path sp lv m h2 = Some p2 /\
      length p1 = length p2 /\ (k < length p1)%nat /\
      firstn k (slots p1) = firstn k (slots p2) /\ nth_error (slots p1) k <> nth_error (slots p2) k.
  Proof.
    intros GL Oh Oa Hv1 Hv2 Hlv Hne.
    destruct (path_slots m h1 lv GL Oh Oa Hv1 Hlv) as (p1 & Hp1 & Hs1 & Hl1).
    destruct (path_slots m h2 lv GL Oh Oa Hv2 Hlv) as (p2 & Hp2 & Hs2 & Hl2).
    assert (Hd : slots p1 <> slots p2).
    { intros E. apply Hne. rewrite Hs1, Hs2 in E.
      destruct (good_layout_facts W m GL) as (Hpos & Hsum & _).
      apply (ss_val_inj _ _ _ _ _ _ _ SP); try assumption.
      apply (digits_inj _ _ (widths W m)); try assumption.
      - eapply Forall_impl; [|exact Hpos]. simpl. intros. lia.
      - rewrite Hsum. now apply (ss_val_range _ _ _ _ _ _ _ SP).
      - rewrite Hsum. now apply (ss_val_range _ _ _ _ _ _ _ SP). }
    assert (Hlen : length (slots p1) = length (slots p2)) by (unfold slots; rewrite !map_length; lia).
    destruct (first_diff _ _ Hlen Hd) as (k & Hk & Hf & Hn).
    exists p1, p2, k. unfold slots in Hk. rewrite map_length in Hk. repeat split; try assumption. lia.
  Qed.

  (** [insert_new_hash_never_fails], on paths: if insert has followed the path of [h1] for [j] levels and the
      slot there holds another hash [h2] (which sits on its own path, so the first [j] slots agree), then [j]
      is not the last level — [eos] is false after the j-th cut, and insert expands the slot instead of
      returning false.  Equivalently: two hashes whose full paths agree are equal. *)
  Lemma insert_never_fails_gen m h1 h2 lv p1 p2 j : good_layout W m -> okc (head_node_size_log m) ->
    okc (array_node_size_log m) -> valid h1 -> valid h2 -> (nlev W m < lv)%nat -> h1 <> h2 ->
    path sp lv m h1 = Some p1 -> path sp lv m h2 = Some p2 ->
    (1 <= j <= length p1)%nat -> firstn j (slots p1) = firstn j (slots p2) ->
    (j < length p1)%nat /\ nth_error (map snd p1) (j - 1) = Some false.
  Proof.
    intros GL Oh Oa Hv1 Hv2 Hlv Hne H1 H2 Hj Hf.
    destruct (paths_diverge_gen m h1 h2 lv GL Oh Oa Hv1 Hv2 Hlv Hne) as (q1 & q2 & k & Hq1 & Hq2 & Hlen & Hk & Hfk & Hnk).
    rewrite H1 in Hq1. rewrite H2 in Hq2. injection Hq1 as <-. injection Hq2 as <-.
    assert (Hjk : (j <= k)%nat).
    { destruct (le_lt_dec j k) as [|Hlt]; [assumption|]. exfalso. apply Hnk.
      rewrite <- (firstn_skipn j (slots p1)), <- (firstn_skipn j (slots p2)), Hf.
      assert (Hlf : (k < length (firstn j (slots p2)))%nat).
      { rewrite firstn_length. unfold slots. rewrite map_length. lia. }
      rewrite !nth_error_app1 by assumption. reflexivity. }
    split; [lia|].
    destruct (layout_consumes_all_bits_gen m h1 lv GL Oh Oa Hv1 Hlv) as (_ & p & Hp & Hlp & Hflags).
    rewrite H1 in Hp. injection Hp as <-. rewrite Hflags.
    assert (length p1 = Datatypes.S (nlev W m)).
    { rewrite Hlp. unfold widths. simpl. now rewrite repeat_length. }
    rewrite nth_error_app1 by (rewrite repeat_length; lia).
    apply nth_error_repeat. lia.
  Qed.

  (** expand_slot re-derives the slot of the moved item with a fresh splitter positioned at bit_offset():
      it is the slot traverse computes *)
  Lemma expand_from_spec h ab : valid h -> okc ab -> 0 < ab ->
    forall (n lv : nat) s, inv h s -> W - pos s = Z.of_nat n * ab -> (n < lv)%nat ->
    expand_from sp lv h s ab = Some (digits (val h) (pos s) (repeat ab n)).
  Proof.
    intros Hv Hok Hab. induction n as [|n IH]; intros lv s Hinv Hrem Hlv; (destruct lv as [|lv]; [lia|]); simpl expand_from.
    - rewrite (ss_eos _ _ _ _ _ _ _ SP h s Hv Hinv).
      replace (W <=? pos s) with true by (symmetry; apply Z.leb_le; lia). reflexivity.
    - rewrite (ss_eos _ _ _ _ _ _ _ SP h s Hv Hinv).
      replace (W <=? pos s) with false by (symmetry; apply Z.leb_gt; lia). cbn [obind].
      rewrite (ss_bit_offset _ _ _ _ _ _ _ SP h s Hv Hinv). cbn [obind].
      pose proof (ss_pos _ _ _ _ _ _ _ SP h s Hinv) as Hps.
      destruct (ss_init_at _ _ _ _ _ _ _ SP h s Hv Hinv ltac:(lia)) as (Hia & Hpa).
      destruct (ss_cut _ _ _ _ _ _ _ SP h _ ab Hv Hia Hok Hab ltac:(lia)) as (sa & Hca & _ & _).
      rewrite Hca. cbn [obind]. rewrite Hpa.
      destruct (ss_cut _ _ _ _ _ _ _ SP h s ab Hv Hinv Hok Hab ltac:(lia)) as (s' & Hc & Hinv' & Hpos').
      rewrite Hc. cbn [obind]. rewrite (IH lv s' Hinv') by lia. cbn [obind repeat digits]. now rewrite Hpos'.
  Qed.

  Lemma expand_slot_consistent_gen m h lv p : good_layout W m -> okc (head_node_size_log m) ->
    okc (array_node_size_log m) -> valid h -> (nlev W m < lv)%nat ->
    path sp lv m h = Some p -> expand_slots sp lv m h = Some (tl (slots p)).
  Proof.
    intros GL Oh Oa Hv Hlv Hp. pose proof GL as (Hh & Ha & Hm).
    destruct (good_layout_facts W m GL) as (_ & _ & Hrem).
    rewrite path_is_dpath in Hp by assumption. apply Some_inj in Hp. subst p.
    unfold expand_slots. destruct (ss_init _ _ _ _ _ _ _ SP h Hv) as (Hi & Hp0).
    destruct (ss_cut _ _ _ _ _ _ _ SP h _ _ Hv Hi Oh ltac:(lia) ltac:(lia)) as (s' & Hc & Hinv' & Hpos').
    rewrite Hc. cbn [obind].
    rewrite (expand_from_spec h _ Hv Oa Ha (nlev W m) lv s' Hinv') by lia.
    unfold slots, widths. cbn [dpath map tl]. rewrite dpath_slots, Hpos', Hp0. reflexivity.
  Qed.

  (** ** inserts on paths ([insert1]/[inserts] of the model): a new valid hash is always placed *)

  Lemma cpl_lt (p q : list Z) : length p = length q -> p <> q -> (cpl p q < length p)%nat.
  Proof.
    revert q. induction p as [|x p IH]; intros [|y q] Hl Hne; simpl in *; try discriminate; try contradiction.
    destruct (x =? y) eqn:E; [|lia]. apply Z.eqb_eq in E. subst.
    assert (p <> q) by congruence. specialize (IH q ltac:(lia) H0). lia.
  Qed.

  Lemma depth_among_le (p : list Z) (others : list (list Z)) :
    Forall (fun q => length q = length p /\ q <> p) others -> p <> [] ->
    (depth_among p others <= length p)%nat.
  Proof.
    intros Hf Hne. unfold depth_among.
    assert (length p <> 0)%nat by (destruct p; simpl; congruence).
    induction Hf as [|q qs [Hl Hq] Hf IH]; simpl; [lia|].
    pose proof (cpl_lt p q (eq_sym Hl) (fun e => Hq (eq_sym e))). lia.
  Qed.

  (** the contents of the model set: every stored hash is valid and stored with its own path *)
  Definition well_stored (lv : nat) (m : metrics) (present : list (H * list Z)) : Prop :=
    Forall (fun e => valid (fst e) /\ exists p, path sp lv m (fst e) = Some p /\ snd e = slots p) present.

  Lemma insert1_new_succeeds m lv present h : good_layout W m -> okc (head_node_size_log m) ->
    okc (array_node_size_log m) -> (nlev W m < lv)%nat -> well_stored lv m present ->
    valid h -> ~ In h (map fst present) ->
    exists p, path sp lv m h = Some p /\
      insert1 sp lv m present h = Some (true, present ++ [(h, slots p)]) /\
      well_stored lv m (present ++ [(h, slots p)]).
  Proof.
    intros GL Oh Oa Hlv Hws Hv Hnin.
    destruct (path_slots m h lv GL Oh Oa Hv Hlv) as (p & Hp & Hs & Hl).
    exists p. split; [exact Hp|]. unfold insert1. rewrite Hp. cbn [obind].
    assert (Hex : existsb (fun e => sp_heqb sp (fst e) h) present = false).
    { apply not_true_is_false. intros Hex. apply existsb_exists in Hex as (e & He & Heq).
      unfold well_stored in Hws. rewrite Forall_forall in Hws. destruct (Hws e He) as (Hve & _).
      apply (ss_heqb _ _ _ _ _ _ _ SP _ _ Hve Hv) in Heq. apply Hnin. rewrite <- Heq. now apply in_map. }
    rewrite Hex.
    assert (Hd : (depth_among (slots p) (map snd present) <= length (slots p))%nat).
    { apply depth_among_le.
      - apply Forall_forall. intros q Hq. apply in_map_iff in Hq as (e & <- & He).
        unfold well_stored in Hws. rewrite Forall_forall in Hws. destruct (Hws e He) as (Hve & pe & Hpe & Hse).
        destruct (path_slots m (fst e) lv GL Oh Oa Hve Hlv) as (pe' & Hpe' & _ & Hle).
        rewrite Hpe in Hpe'. injection Hpe' as <-. rewrite Hse. split.
        + unfold slots. rewrite !map_length. lia.
        + intros E. apply Hnin. apply in_map_iff. exists e. split; [|exact He].
          destruct (Z.eq_dec 0 0) as [_|]; [|lia].
          assert (val (fst e) = val h).
          { destruct (good_layout_facts W m GL) as (Hpos & Hsum & _).
            destruct (path_slots m (fst e) lv GL Oh Oa Hve Hlv) as (pe2 & Hpe2 & Hse2 & _).
            rewrite Hpe in Hpe2. injection Hpe2 as <-.
            apply (digits_inj _ _ (widths W m)).
            - eapply Forall_impl; [|exact Hpos]. simpl. intros. lia.
            - rewrite Hsum. now apply (ss_val_range _ _ _ _ _ _ _ SP).
            - rewrite Hsum. now apply (ss_val_range _ _ _ _ _ _ _ SP).
            - congruence. }
          now apply (ss_val_inj _ _ _ _ _ _ _ SP).
      - unfold slots. destruct p; simpl in *; [lia | congruence]. }
    apply Nat.leb_le in Hd. rewrite Hd. split; [reflexivity|].
    unfold well_stored. apply Forall_app. split; [exact Hws|]. constructor; [|constructor].
    simpl. split; [exact Hv|]. exists p. auto.
  Qed.

  (** inserting any sequence of pairwise distinct valid hashes into the empty set: every insert succeeds *)
  Lemma inserts_all_succeed m lv hs : good_layout W m -> okc (head_node_size_log m) ->
    okc (array_node_size_log m) -> (nlev W m < lv)%nat -> Forall valid hs -> NoDup hs ->
    forall present, well_stored lv m present -> (forall h, In h hs -> ~ In h (map fst present)) ->
    exists fin, inserts sp lv m present hs = Some (repeat true (length hs), fin) /\ well_stored lv m fin /\
                map fst fin = map fst present ++ hs.
  Proof.
    intros GL Oh Oa Hlv Hval Hnd. induction hs as [|h hs IH]; intros present Hws Hnin.
    - exists present. simpl. rewrite app_nil_r. auto.
    - inversion Hval as [|? ? Hv Hval']; subst. inversion Hnd as [|? ? Hnh Hnd']; subst.
      destruct (insert1_new_succeeds m lv present h GL Oh Oa Hlv Hws Hv (Hnin h (or_introl eq_refl)))
        as (p & Hp & Hi & Hws').
      destruct (IH Hval' Hnd' (present ++ [(h, slots p)]) Hws') as (fin & Hins & Hwf & Hmf).
      { intros h' Hin Hc. rewrite map_app in Hc. apply in_app_or in Hc as [Hc|Hc].
        - exact (Hnin h' (or_intror Hin) Hc).
        - simpl in Hc. destruct Hc as [<-|[]]. contradiction. }
      exists fin. simpl inserts. rewrite Hi. cbn [obind]. rewrite Hins. cbn [obind].
      repeat split; [assumption|]. rewrite Hmf, map_app. simpl. now rewrite <- app_assoc.
  Qed.
End Generic.
