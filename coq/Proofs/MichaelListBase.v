(** * MichaelListBase: heap and chain lemmas for the model of cds::intrusive::MichaelList (LV.Model.MichaelList).

    The list reachable from m_pHead is described by [linked g 0 L 0]: starting from the next cell of the
    pseudo node 0 (= m_pHead) the nodes [L] are traversed in order and the last next pointer is null.
    Keys are compared through [okey] (the pseudo node has key "minus infinity" = [None]). *)
From Coq Require Import ZArith List Bool Lia PeanoNat.
From LV Require Import Model.MichaelList.
Import ListNotations.
Local Open Scope Z_scope.

(** ** heap *)
Lemma upd_heap_same h n x : upd_heap h n x n = x.
Proof. unfold upd_heap. now rewrite Nat.eqb_refl. Qed.
Lemma upd_heap_other h n x m : m <> n -> upd_heap h n x m = h m.
Proof. unfold upd_heap. intros H. destruct (Nat.eqb_spec m n); congruence. Qed.

Lemma heap_wr_same g l p m : heap (wr g l p m) l = mkNode (nkey (heap g l)) p m.
Proof. unfold wr; cbn. apply upd_heap_same. Qed.
Lemma heap_wr_other g l p m n : n <> l -> heap (wr g l p m) n = heap g n.
Proof. unfold wr; cbn. apply upd_heap_other. Qed.
Lemma nkey_wr g l p m n : nkey (heap (wr g l p m) n) = nkey (heap g n).
Proof.
  destruct (Nat.eq_dec n l) as [->|H]; [rewrite heap_wr_same; reflexivity|now rewrite heap_wr_other].
Qed.
Lemma nalloc_wr g l p m : nalloc (wr g l p m) = nalloc g.
Proof. reflexivity. Qed.

(** ** chains *)
Fixpoint linked (g : G) (n : nat) (L : list nat) (q : nat) : Prop :=
  match L with
  | [] => nnext (heap g n) = q
  | x :: L' => nnext (heap g n) = x /\ linked g x L' q
  end.

Lemma linked_app g : forall L1 n x L2 q,
  linked g n (L1 ++ x :: L2) q <-> linked g n L1 x /\ linked g x L2 q.
Proof.
  induction L1 as [|y L1 IH]; intros n x L2 q; cbn [app linked].
  - tauto.
  - rewrite IH. tauto.
Qed.

(** only the next field of the start node matters *)
Lemma linked_start g g' a b L q :
  nnext (heap g a) = nnext (heap g' b) ->
  (forall x, In x L -> nnext (heap g x) = nnext (heap g' x)) ->
  linked g a L q -> linked g' b L q.
Proof.
  revert a b. induction L as [|x L IH]; intros a b Hab HL; cbn [linked].
  - congruence.
  - intros [H1 H2]. split; [congruence|].
    eapply IH; [|intros y Hy; apply HL; right; exact Hy|exact H2].
    apply HL; left; reflexivity.
Qed.

Lemma linked_frame g g' n L q :
  (forall x, x = n \/ In x L -> nnext (heap g x) = nnext (heap g' x)) ->
  linked g n L q -> linked g' n L q.
Proof.
  intros H. apply linked_start; [apply H; left; reflexivity|intros x Hx; apply H; right; exact Hx].
Qed.

(** ** keys and order *)
Definition okey (g : G) (n : nat) : option Z :=
  if Nat.eqb n 0 then None else Some (nkey (heap g n)).

Definition olt (a b : option Z) : Prop :=
  match a, b with
  | None, Some _ => True
  | Some x, Some y => x < y
  | _, None => False
  end.

Lemma olt_trans a b c : olt a b -> olt b c -> olt a c.
Proof. destruct a, b, c; cbn; try tauto; lia. Qed.
Lemma olt_irrefl a : ~ olt a a.
Proof. destruct a; cbn; lia. Qed.

Fixpoint osorted (l : list (option Z)) : Prop :=
  match l with
  | [] => True
  | x :: r => match r with [] => True | y :: _ => olt x y end /\ osorted r
  end.

Lemma osorted_tail x r : osorted (x :: r) -> osorted r.
Proof. cbn. tauto. Qed.

Lemma osorted_lt_all x r : osorted (x :: r) -> forall y, In y r -> olt x y.
Proof.
  revert x. induction r as [|z r IH]; intros x H y Hy; [destruct Hy|].
  destruct H as [H1 H2]. destruct Hy as [->|Hy]; [exact H1|].
  eapply olt_trans; [exact H1|]. apply IH; auto.
Qed.

Lemma osorted_app_r l1 l2 : osorted (l1 ++ l2) -> osorted l2.
Proof. induction l1 as [|x l1 IH]; cbn [app]; auto. intros H. apply IH. eapply osorted_tail; eauto. Qed.

(** insertion of [k] right after [a] *)
Lemma osorted_insert A a k B :
  osorted (A ++ a :: B) -> olt a k -> match B with [] => True | b :: _ => olt k b end ->
  osorted (A ++ a :: k :: B).
Proof.
  induction A as [|x A IH]; cbn [app]; intros H Ha Hb.
  - destruct H as [H1 H2]. cbn [osorted]. repeat split; auto.
  - destruct H as [H1 H2]. split; [|apply IH; auto].
    destruct A; cbn [app] in *; exact H1.
Qed.

(** removal of the element right after [a] *)
Lemma osorted_remove A a c B :
  osorted (A ++ a :: c :: B) -> osorted (A ++ a :: B).
Proof.
  induction A as [|x A IH]; cbn [app]; intros H.
  - destruct H as [H1 [H2 H3]]. split; [|exact H3].
    destruct B as [|b B]; auto. eapply olt_trans; eauto.
  - destruct H as [H1 H2]. split; [|apply IH; auto].
    destruct A; cbn [app] in *; exact H1.
Qed.

Lemma osorted_mid A a B : osorted (A ++ a :: B) ->
  (forall x, In x A -> olt x a) /\ (forall y, In y B -> olt a y).
Proof.
  induction A as [|z A IH]; cbn [app]; intros H.
  - split; [intros x []|]. apply osorted_lt_all; exact H.
  - destruct (IH (osorted_tail _ _ H)) as [I1 I2]. split; auto.
    intros x [->|Hx]; auto. apply (osorted_lt_all _ _ H). apply in_or_app. right. left. reflexivity.
Qed.

Lemma osorted_nodup l : osorted l -> NoDup l.
Proof.
  induction l as [|x r IH]; intros H; constructor.
  - intros Hx. apply (olt_irrefl x). apply (osorted_lt_all _ _ H); exact Hx.
  - apply IH. eapply osorted_tail; eauto.
Qed.

Lemma okey_wr g l p m n : okey (wr g l p m) n = okey g n.
Proof. unfold okey. now rewrite nkey_wr. Qed.

Lemma map_okey_wr g l p m L : map (okey (wr g l p m)) L = map (okey g) L.
Proof. apply map_ext. intros; apply okey_wr. Qed.

Lemma okey_inj_sorted g L : osorted (map (okey g) L) -> NoDup L.
Proof.
  intros H. apply osorted_nodup in H. revert H. induction L as [|x L IH]; cbn [map]; intros H; constructor.
  - inversion H; subst. intros Hx. apply H2. apply in_map. exact Hx.
  - inversion H; subst. auto.
Qed.

(** the pseudo node 0 is smaller than everything, so it occurs only at the front *)
Lemma sorted_nonzero g L : osorted (map (okey g) (0%nat :: L)) -> forall x, In x L -> x <> 0%nat.
Proof.
  intros H x Hx ->. cbn [map] in H.
  assert (K : olt (okey g 0%nat) (okey g 0%nat)) by (apply (osorted_lt_all _ _ H); apply in_map; exact Hx).
  exact (olt_irrefl _ K).
Qed.

(** ** chain surgery *)
Definition chain_ok (g : G) (L : list nat) : Prop :=
  linked g 0 L 0 /\ osorted (map (okey g) (0%nat :: L)).

(** [m] (the pseudo node or a node of the chain) is followed by the rest [L2] of the chain *)
Lemma chain_split g L m : chain_ok g L -> In m (0%nat :: L) ->
  exists L1 L2, (0%nat :: L) = L1 ++ m :: L2 /\ linked g m L2 0 /\
                (forall x, In x L1 -> x <> m) /\ (forall x, In x L2 -> x <> m) /\
                (forall g', (forall x, In x L1 -> nnext (heap g' x) = nnext (heap g x)) ->
                            match L1 with [] => True | s :: L1' => linked g' s L1' m end).
Proof.
  intros [Hl Hs] Hm. apply in_split in Hm. destruct Hm as (L1 & L2 & E).
  pose proof (okey_inj_sorted _ _ Hs) as Hnd. rewrite E in Hnd.
  assert (N1 : forall x, In x L1 -> x <> m).
  { intros x Hx ->. apply NoDup_remove_2 in Hnd. apply Hnd. apply in_or_app. left; exact Hx. }
  assert (N2 : forall x, In x L2 -> x <> m).
  { intros x Hx ->. apply NoDup_remove_2 in Hnd. apply Hnd. apply in_or_app. right; exact Hx. }
  exists L1, L2. split; [exact E|].
  destruct L1 as [|s L1'].
  - cbn [app] in E. inversion E; subst. repeat split; auto.
  - cbn [app] in E. inversion E; subst s. subst L.
    apply linked_app in Hl. destruct Hl as [Ha Hb]. repeat split; auto.
    intros g' Hg'. eapply linked_start; [| |exact Ha].
    + symmetry. apply Hg'. left; reflexivity.
    + intros x Hx. symmetry. apply Hg'. right; exact Hx.
Qed.

(** linking a fresh node [n] (key [k], next = the successor of [m]) right after [m] *)
Lemma chain_insert g L m n k :
  chain_ok g L -> In m (0%nat :: L) -> ~ In n (0%nat :: L) ->
  heap g n = mkNode k (nnext (heap g m)) false ->
  olt (okey g m) (Some k) ->
  (nnext (heap g m) = 0%nat \/ olt (Some k) (okey g (nnext (heap g m)))) ->
  exists L', chain_ok (wr g m n false) L' /\ (forall x, In x L' <-> x = n \/ In x L).
Proof.
  intros Hc Hm Hn Hh Hk1 Hk2.
  destruct (chain_split _ _ _ Hc Hm) as (L1 & L2 & E & H2 & N1 & N2 & Hpre).
  destruct Hc as [Hl Hs].
  assert (Hn0 : n <> 0%nat) by (intros ->; apply Hn; left; reflexivity).
  assert (Hnm : n <> m) by (intros ->; apply Hn; exact Hm).
  set (g' := wr g m n false).
  assert (Hsame : forall x, x <> m -> nnext (heap g' x) = nnext (heap g x)).
  { intros x Hx. unfold g'. now rewrite heap_wr_other. }
  assert (H2' : linked g' m (n :: L2) 0).
  { cbn [linked]. split; [unfold g'; rewrite heap_wr_same; reflexivity|].
    eapply linked_start; [| |exact H2].
    - rewrite Hsame by exact Hnm. rewrite Hh. reflexivity.
    - intros x Hx. symmetry. apply Hsame. apply N2; exact Hx. }
  (* sortedness of the new chain *)
  assert (Hs' : osorted (map (okey g') (L1 ++ m :: n :: L2))).
  { unfold g'. rewrite map_okey_wr. rewrite map_app. cbn [map].
    apply osorted_insert.
    - rewrite E in Hs. rewrite map_app in Hs. exact Hs.
    - unfold okey at 2. destruct (Nat.eqb_spec n 0); [contradiction|]. rewrite Hh. exact Hk1.
    - destruct L2 as [|b L2]; cbn [map]; auto.
      cbn [linked] in H2. destruct H2 as [Hb _].
      unfold okey at 1. destruct (Nat.eqb_spec n 0); [contradiction|]. rewrite Hh. cbn [nkey].
      destruct Hk2 as [Hz|Hlt]; [|rewrite Hb in Hlt; exact Hlt].
      exfalso. rewrite Hb in Hz. subst b.
      assert (K : In 0%nat L).
      { destruct L1 as [|s L1']; cbn [app] in E; inversion E; subst; [left; reflexivity|].
        apply in_or_app. right. right. left. reflexivity. }
      exact (sorted_nonzero _ _ Hs _ K eq_refl). }
  destruct L1 as [|s L1'].
  - cbn [app] in E. inversion E; subst m L2. exists (n :: L). split; [split|].
    + exact H2'.
    + exact Hs'.
    + intros x. cbn [In]. split; intros [->|Hx]; auto.
  - cbn [app] in E. inversion E; subst s. subst L.
    exists (L1' ++ m :: n :: L2). split; [split|].
    + apply linked_app. split; [|exact H2'].
      apply (Hpre g').
      intros x Hx. apply Hsame. apply N1; exact Hx.
    + exact Hs'.
    + intros x. rewrite !in_app_iff. cbn [In]. split.
      * intros [Hx|[->|[->|Hx]]]; auto.
      * intros [->|[Hx|[->|Hx]]]; auto.
Qed.

(** unlinking the marked node [c] that follows [m] *)
Lemma chain_remove g L m c :
  chain_ok g L -> In m (0%nat :: L) -> nnext (heap g m) = c -> c <> 0%nat ->
  exists L', chain_ok (wr g m (nnext (heap g c)) false) L' /\ In c L /\
             (forall x, In x L' <-> In x L /\ x <> c).
Proof.
  intros Hc Hm Hmc Hc0.
  destruct (chain_split _ _ _ Hc Hm) as (L1 & L2 & E & H2 & N1 & N2 & Hpre).
  destruct Hc as [Hl Hs].
  destruct L2 as [|c' L2].
  { cbn [linked] in H2. congruence. }
  cbn [linked] in H2. destruct H2 as [Hc' H3]. rewrite Hmc in Hc'. subst c'.
  set (g' := wr g m (nnext (heap g c)) false).
  assert (Hsame : forall x, x <> m -> nnext (heap g' x) = nnext (heap g x)).
  { intros x Hx. unfold g'. now rewrite heap_wr_other. }
  pose proof (okey_inj_sorted _ _ Hs) as Hnd. rewrite E in Hnd.
  assert (Hcm : c <> m) by (apply N2; left; reflexivity).
  assert (Hc12 : ~ In c ((L1 ++ [m]) ++ L2)).
  { apply NoDup_remove_2. rewrite <- app_assoc. cbn [app]. exact Hnd. }
  assert (Hc2 : ~ In c L2) by (intros Hx; apply Hc12; apply in_or_app; right; exact Hx).
  assert (Hc1 : ~ In c L1) by (intros Hx; apply Hc12; apply in_or_app; left; apply in_or_app; left; exact Hx).
  assert (H3' : linked g' m L2 0).
  { eapply linked_start; [| |exact H3].
    - unfold g'. rewrite heap_wr_same. reflexivity.
    - intros x Hx. symmetry. apply Hsame. apply N2. right; exact Hx. }
  assert (Hs' : osorted (map (okey g') (L1 ++ m :: L2))).
  { unfold g'. rewrite map_okey_wr, map_app. cbn [map]. rewrite E, map_app in Hs. cbn [map] in Hs.
    eapply osorted_remove; eauto. }
  destruct L1 as [|s L1'].
  - cbn [app] in E. inversion E; subst m L. exists L2. split; [split; auto|]. split; [left; reflexivity|].
    intros x. cbn [In]. split.
    + intros Hx. split; auto. intros ->. contradiction.
    + intros [[->|Hx] Hne]; [congruence|exact Hx].
  - cbn [app] in E. inversion E; subst s. subst L.
    exists (L1' ++ m :: L2). split; [split|].
    + apply linked_app. split; [|exact H3'].
      apply (Hpre g'). intros x Hx. apply Hsame. apply N1; exact Hx.
    + exact Hs'.
    + split; [apply in_or_app; right; right; left; reflexivity|].
      intros x. rewrite !in_app_iff. cbn [In]. split.
      * intros [Hx|[->|Hx]]; (split; [auto|intros ->]).
        -- apply Hc1. right; exact Hx.
        -- congruence.
        -- contradiction.
      * intros [[Hx|[->|[->|Hx]]] Hne]; auto. congruence.
Qed.

(** a change of marks only, or of nodes outside the chain, keeps the chain *)
Lemma chain_same_next g g' L :
  (forall x, In x (0%nat :: L) -> nnext (heap g' x) = nnext (heap g x) /\ nkey (heap g' x) = nkey (heap g x)) ->
  chain_ok g L -> chain_ok g' L.
Proof.
  intros H [Hl Hs]. split.
  - eapply linked_frame; [|exact Hl]. intros x Hx. symmetry. apply H. destruct Hx as [->|Hx]; [left|right]; auto.
  - erewrite map_ext_in; [exact Hs|]. intros x Hx. unfold okey. destruct (Nat.eqb x 0); auto.
    f_equal. apply H. exact Hx.
Qed.
