(** * Every atomic step of put / get / add_knowing_refcount_is_zero preserves the state invariant
      [InvS] of LV.Proofs.FreeListInv. *)
From Coq Require Import ZArith List String Bool Lia PeanoNat.
From LV Require Import Base.Conc Base.Events Model.FreeList Proofs.FreeListBase Proofs.FreeListInv.
Import ListNotations.
Local Open Scope Z_scope.
Local Open Scope string_scope.

Section Steps.
  Variable N : nat.
  Hypothesis HN : Z.of_nat N + 1 < FLAG.
  Variable valid0 : nat -> bool.
  Hypothesis Hv0 : valid0 O = false.

  Notation InvS := (InvS N valid0).
  Notation cnt := (cnt N).
  Notation st_ok := (st_ok N).

  (** node [n] -> state [s], thread [t] -> phase [p]; lists unchanged *)
  Definition aux_set (a : Aux) (n : nat) (s : nstate) (t : nat) (p : phase) : Aux :=
    step_aux a n s (lst a) t p (hl a t) (own a).

  Lemma refs_set_refs_other g n r m : m <> n -> refs (set_refs g n r) m = refs g m.
  Proof. intros H. cbn. destruct (Nat.eqb_spec m n); congruence. Qed.
  Lemma refs_set_refs_same g n r : refs (set_refs g n r) n = r.
  Proof. cbn. now rewrite Nat.eqb_refl. Qed.
  Lemma next_set_next_other g n h m : m <> n -> next (set_next g n h) m = next g m.
  Proof. intros H. cbn. destruct (Nat.eqb_spec m n); congruence. Qed.
  Lemma next_set_next_same g n h : next (set_next g n h) n = h.
  Proof. cbn. now rewrite Nat.eqb_refl. Qed.

  Lemma cnt_set a n s t p m : (t < N)%nat ->
    (cnt (aux_set a n s t p) m + b2n (has_ref (ph a t) m) = cnt a m + b2n (has_ref p m))%nat.
  Proof. intros. unfold aux_set. apply cnt_step; assumption. Qed.

  Lemma ph_set_same a n s t p : ph (aux_set a n s t p) t = p.
  Proof. cbn. apply upd_same. Qed.
  Lemma ph_set_other a n s t p t' : t' <> t -> ph (aux_set a n s t p) t' = ph a t'.
  Proof. intros. cbn. now apply upd_other. Qed.
  Lemma hl_set a n s t p t' : hl (aux_set a n s t p) t' = hl a t'.
  Proof. cbn. unfold upd. destruct (Nat.eqb_spec t' t); congruence. Qed.
  Lemma st_set_same a n s t p : st (aux_set a n s t p) n = s.
  Proof. cbn. apply upd_same. Qed.

  (** the generic step specialised to "lists unchanged" *)
  Lemma InvS_set g a g' n0 s' t0 p' :
    InvS g a -> (t0 < N)%nat ->
    (node_of (ph a t0) = None \/ node_of (ph a t0) = Some n0) ->
    (node_of p' = None \/ node_of p' = Some n0) ->
    (s' = st a n0 \/ ((st_owner (st a n0) = None \/ st_owner (st a n0) = Some t0) /\ st a n0 <> Nil /\ s' <> Nil)) ->
    (forall n, n <> n0 -> refs g' n = refs g n) ->
    (forall n, n <> n0 -> next g' n = next g n) ->
    (next g' n0 = next g n0 \/ st a n0 = Adding t0) ->
    let a' := aux_set a n0 s' t0 p' in
    refs g' n0 = enc (flag_of s') (base_of s' + Z.of_nat (cnt a' n0)) ->
    st_ok a' n0 ->
    chain (next g') (head g') (lst a) ->
    (In n0 (lst a) <-> s' = OnList) ->
    phase_ok (st a') (next g') (hl a t0) t0 p' ->
    (In n0 (hl a t0) -> s' = Held t0) ->
    InvS g' a'.
  Proof.
    intros Hi Ht0 Hp Hp' Hs Hrefs Hnext Hnext0 a' U1 U2 U3 U4 U5 U6.
    apply (InvS_step N valid0) with (g := g); auto; try tauto.
    - apply (S_lnd Hi).
    - apply (S_hnd Hi).
  Qed.

  Ltac refs_frame := intros; first [reflexivity | apply refs_set_refs_other; assumption].
  Ltac next_frame := intros; first [reflexivity | apply next_set_next_other; assumption].
  Ltac nodeof Hp := try rewrite Hp; cbn; first [left; reflexivity | right; reflexivity].
  Ltac own_change Hst := right; rewrite Hst; cbn; repeat split; auto; discriminate.

  (** a thread whose phase names no node it is responsible for justifies no node state *)
  Ltac st_cases a n Ho :=
    let Es := fresh "Es" in
    unfold FreeListInv.st_ok in *; destruct (st a n) as [|?t|?t| | |?t|?t] eqn:Es.

  (** thread [t] holds a reference on [h]: the count is at least one *)
  Lemma ref_cnt_pos g a t h : InvS g a -> has_ref (ph a t) h = true -> (1 <= cnt a h)%nat.
  Proof.
    intros Hi Hr. assert (Ht : (t < N)%nat).
    { eapply active_lt; eauto. intros E. rewrite E in Hr. discriminate. }
    exact (count_pos N (fun t => has_ref (ph a t) h) t Ht Hr).
  Qed.

  (** the state of [n] does not change and thread [t] moves between phases that do not justify it *)
  Definition claims (p : phase) (n : nat) : Prop :=
    p = PPut n \/ p = PRet n \/ p = GTook n \/ p = AStart n \/ (exists h, p = ANxt n h) \/ (exists h, p = APub n h) \/ p = AFail n.

  Lemma st_ok_keep a n t p' :
    st_ok a n -> ~ claims (ph a t) n ->
    match st a n with
    | Nil | Adding _ => cnt (aux_set a n (st a n) t p') n = O
    | Pending => (1 <= cnt (aux_set a n (st a n) t p') n)%nat
    | _ => True
    end ->
    st_ok (aux_set a n (st a n) t p') n.
  Proof.
    intros Ho Hc Hn. unfold FreeListInv.st_ok in *. rewrite st_set_same.
    destruct (st a n) as [|t1|t1| | |t1|t1] eqn:Es; rewrite ?hl_set.
    - exact Hn.
    - destruct (Nat.eq_dec t1 t) as [->|Hne].
      + destruct Ho as [Ho|[Ho|Ho]]; [left; exact Ho| |]; exfalso; apply Hc; unfold claims; tauto.
      + rewrite ph_set_other by exact Hne. exact Ho.
    - destruct (Nat.eq_dec t1 t) as [->|Hne]; [exfalso; apply Hc; unfold claims; tauto|].
      rewrite ph_set_other by exact Hne. exact Ho.
    - exact I.
    - exact Hn.
    - destruct Ho as [_ Ho]. split; [exact Hn|]. destruct (Nat.eq_dec t1 t) as [->|Hne].
      + exfalso; apply Hc; unfold claims. destruct Ho as [Ho|Ho]; tauto.
      + rewrite ph_set_other by exact Hne. exact Ho.
    - destruct (Nat.eq_dec t1 t) as [->|Hne].
      + exfalso; apply Hc; unfold claims. destruct Ho as [Ho|Ho]; tauto.
      + rewrite ph_set_other by exact Hne. exact Ho.
  Qed.

  Ltac noclaim Hp := rewrite Hp; unfold claims; intros HH; decompose [or ex] HH; discriminate.
  Ltac cnt_eq Hc Hp := rewrite Hp in Hc; unfold has_ref in Hc; cbn in Hc; rewrite ?Nat.eqb_refl in Hc; cbn in Hc.
  Ltac notlisted Hi Hst := split; [intros Hin; apply (S_lin Hi) in Hin; congruence|discriminate].
  Ltac notheld Hi Hst := intros Hin; apply (S_held Hi) in Hin; congruence.

  (** *** get(): the refs CAS succeeds *)
  Lemma step_cas_refs g a t h r :
    InvS g a -> ph a t = Busy -> refs g h = r -> r mod FLAG <> 0 ->
    InvS (set_refs g h (u32 (r + 1))) (aux_set a h (st a h) t (GRef h)).
  Proof.
    intros Hi Hp Hr Hm.
    assert (Ht : (t < N)%nat) by (eapply active_lt; eauto; congruence).
    pose proof (cnt_set a h (st a h) t (GRef h) h Ht) as Hc. cnt_eq Hc Hp.
    pose proof (cnt_bound N HN a h (st a h)) as Hb.
    pose proof (cnt_bound N HN (aux_set a h (st a h) t (GRef h)) h (st a h)) as Hb'.
    rewrite (S_refs Hi h) in Hr. subst r. rewrite enc_mod in Hm by exact Hb.
    pose proof (S_st Hi h) as Ho.
    apply InvS_set with (g := g);
      [exact Hi|exact Ht|nodeof Hp|nodeof Hp|left; reflexivity|refs_frame|next_frame|left; reflexivity| | |
       apply (S_chain Hi)|apply (S_lin Hi)|exact I|apply (S_held Hi)].
    - rewrite refs_set_refs_same. rewrite u32_enc_add1 by lia. f_equal. lia.
    - apply st_ok_keep; auto. { noclaim Hp. }
      unfold FreeListInv.st_ok in Ho. destruct (st a h); cbn [base_of] in *; auto; lia.
  Qed.

  (** *** get(): next loaded *)
  Lemma step_ld_next g a t h :
    InvS g a -> ph a t = GRef h -> InvS g (aux_set a h (st a h) t (GNext h (next g h))).
  Proof.
    intros Hi Hp.
    assert (Ht : (t < N)%nat) by (eapply active_lt; eauto; congruence).
    pose proof (cnt_set a h (st a h) t (GNext h (next g h)) h Ht) as Hc. cnt_eq Hc Hp.
    assert (Hc' : cnt (aux_set a h (st a h) t (GNext h (next g h))) h = cnt a h) by lia.
    pose proof (S_st Hi h) as Ho.
    apply InvS_set with (g := g);
      [exact Hi|exact Ht|nodeof Hp|nodeof Hp|left; reflexivity|refs_frame|next_frame|left; reflexivity| | |
       apply (S_chain Hi)|apply (S_lin Hi)|reflexivity|apply (S_held Hi)].
    - rewrite Hc'. apply (S_refs Hi).
    - apply st_ok_keep; auto. { noclaim Hp. }
      rewrite Hc'. unfold FreeListInv.st_ok in Ho. destruct (st a h); auto; tauto.
  Qed.

  (** *** get(): the head CAS fails *)
  Lemma step_cas_head_get_fail g a t h x :
    InvS g a -> ph a t = GNext h x -> InvS g (aux_set a h (st a h) t (GFail h)).
  Proof.
    intros Hi Hp.
    assert (Ht : (t < N)%nat) by (eapply active_lt; eauto; congruence).
    pose proof (cnt_set a h (st a h) t (GFail h) h Ht) as Hc. cnt_eq Hc Hp.
    assert (Hc' : cnt (aux_set a h (st a h) t (GFail h)) h = cnt a h) by lia.
    pose proof (S_st Hi h) as Ho.
    apply InvS_set with (g := g);
      [exact Hi|exact Ht|nodeof Hp|nodeof Hp|left; reflexivity|refs_frame|next_frame|left; reflexivity| | |
       apply (S_chain Hi)|apply (S_lin Hi)|exact I|apply (S_held Hi)].
    - rewrite Hc'. apply (S_refs Hi).
    - apply st_ok_keep; auto. { noclaim Hp. }
      rewrite Hc'. unfold FreeListInv.st_ok in Ho. destruct (st a h); auto; tauto.
  Qed.

  (** *** get(): the head CAS succeeds: the node leaves the list *)
  Lemma step_cas_head_get_ok g a t h x :
    InvS g a -> ph a t = GNext h x -> head g = h -> h <> O ->
    InvS (set_head g x) (step_aux a h (Taking t) (tl (lst a)) t (GTook h) (hl a t) (own a)).
  Proof.
    intros Hi Hp Hh Hnz.
    assert (Ht : (t < N)%nat) by (eapply active_lt; eauto; congruence).
    pose proof (S_ph Hi t) as Hx. rewrite Hp in Hx. cbn in Hx.
    pose proof (S_chain Hi) as Hch. pose proof (S_lnd Hi) as Hnd.
    pose proof (cnt_step N a h (Taking t) (tl (lst a)) t (GTook h) (hl a t) (own a) h Ht) as Hc. cnt_eq Hc Hp.
    pose proof (S_lin Hi h) as Hlin. pose proof (S_refs Hi h) as Hrf.
    destruct (lst a) as [|h' r] eqn:El; cbn in Hch; [congruence|].
    destruct Hch as (E & _ & Hch). rewrite Hh in E. subst h'.
    assert (Hon : st a h = OnList) by (apply Hlin; left; reflexivity).
    apply NoDup_cons_iff in Hnd. destruct Hnd as [Hnin Hnd'].
    cbn [tl] in *.
    apply (InvS_step N valid0) with (g := g);
      [exact Hi|exact Ht|nodeof Hp|nodeof Hp|own_change Hon|refs_frame|next_frame|left; reflexivity|tauto| | | | |exact Hnd'| | | |apply (S_hnd Hi)].
    - intros n Hn. rewrite El. cbn. split; [tauto|]. intros [E|E]; [congruence|exact E].
    - cbn [refs set_head]. rewrite Hrf, Hon. cbn [flag_of base_of]. f_equal. lia.
    - unfold FreeListInv.st_ok. cbn [st step_aux]. rewrite upd_same. cbn [ph]. apply upd_same.
    - cbn [next head set_head]. rewrite <- Hx. exact Hch.
    - split; [contradiction|discriminate].
    - cbn. apply upd_same.
    - notheld Hi Hon.
  Qed.

  (** *** get(): fetch_sub 2 after a successful head CAS: the caller now holds the node *)
  Lemma step_fas2 g a t h :
    InvS g a -> ph a t = GTook h ->
    InvS (set_refs g h (u32 (refs g h - 2))) (aux_set a h (Held t) t (PRet h)).
  Proof.
    intros Hi Hp.
    assert (Ht : (t < N)%nat) by (eapply active_lt; eauto; congruence).
    pose proof (S_ph Hi t) as Hx. rewrite Hp in Hx. cbn in Hx.
    pose proof (cnt_set a h (Held t) t (PRet h) h Ht) as Hc. cnt_eq Hc Hp.
    pose proof (cnt_bound N HN a h (st a h)) as Hb. rewrite Hx in Hb. cbn [base_of] in Hb.
    apply InvS_set with (g := g);
      [exact Hi|exact Ht|nodeof Hp|nodeof Hp|own_change Hx|refs_frame|next_frame|left; reflexivity| | |
       apply (S_chain Hi)|notlisted Hi Hx| |reflexivity].
    - rewrite refs_set_refs_same, (S_refs Hi h), Hx. cbn [flag_of base_of].
      rewrite u32_enc_sub2 by lia. f_equal. lia.
    - unfold FreeListInv.st_ok. rewrite st_set_same, ph_set_same. tauto.
    - cbn. rewrite upd_same. split; [reflexivity|]. notheld Hi Hx.
  Qed.

  (** *** get(): fetch_sub 1 after a failed head CAS; [refs g h = FLAG + 1] means: last reference and
          the should-be-on-freelist flag is set, the caller re-adds the node *)
  Lemma step_fas1_readd g a t h :
    InvS g a -> ph a t = GFail h -> refs g h = FLAG + 1 ->
    InvS (set_refs g h (u32 (refs g h - 1))) (aux_set a h (Adding t) t (AStart h)).
  Proof.
    intros Hi Hp Hw.
    assert (Ht : (t < N)%nat) by (eapply active_lt; eauto; congruence).
    pose proof (cnt_set a h (Adding t) t (AStart h) h Ht) as Hc. cnt_eq Hc Hp.
    pose proof (cnt_bound N HN a h (st a h)) as Hb.
    pose proof (S_refs Hi h) as Hr. rewrite Hw in Hr. symmetry in Hr. apply enc_eq_flag1 in Hr; [|exact Hb].
    destruct Hr as [Hf Hc1].
    assert (Hpos : (1 <= cnt a h)%nat).
    { eapply ref_cnt_pos; eauto. rewrite Hp. unfold has_ref; cbn. apply Nat.eqb_refl. }
    pose proof (S_st Hi h) as Ho. unfold FreeListInv.st_ok in Ho.
    assert (Hst : st a h = Pending).
    { destruct (st a h); cbn in Hf; try discriminate; [reflexivity|]. destruct Ho as [Ho _]. lia. }
    rewrite Hst in *. cbn [base_of] in *.
    apply InvS_set with (g := g);
      [exact Hi|exact Ht|nodeof Hp|nodeof Hp|own_change Hst|refs_frame|next_frame|left; reflexivity| | |
       apply (S_chain Hi)|notlisted Hi Hst| |notheld Hi Hst].
    - rewrite refs_set_refs_same, Hw. cbn [flag_of base_of].
      replace (cnt (aux_set a h (Adding t) t (AStart h)) h) with O by lia. reflexivity.
    - unfold FreeListInv.st_ok. rewrite st_set_same, ph_set_same. split; [lia|tauto].
    - cbn. apply upd_same.
  Qed.

  Lemma step_fas1_release g a t h :
    InvS g a -> ph a t = GFail h -> refs g h <> FLAG + 1 ->
    InvS (set_refs g h (u32 (refs g h - 1))) (aux_set a h (st a h) t Busy).
  Proof.
    intros Hi Hp Hw.
    assert (Ht : (t < N)%nat) by (eapply active_lt; eauto; congruence).
    pose proof (cnt_set a h (st a h) t Busy h Ht) as Hc. cnt_eq Hc Hp.
    pose proof (cnt_bound N HN a h (st a h)) as Hb.
    assert (Hpos : (1 <= cnt a h)%nat).
    { eapply ref_cnt_pos; eauto. rewrite Hp. unfold has_ref; cbn. apply Nat.eqb_refl. }
    pose proof (S_st Hi h) as Ho.
    apply InvS_set with (g := g);
      [exact Hi|exact Ht|nodeof Hp|nodeof Hp|left; reflexivity|refs_frame|next_frame|left; reflexivity| | |
       apply (S_chain Hi)|apply (S_lin Hi)|exact I|apply (S_held Hi)].
    - rewrite refs_set_refs_same, (S_refs Hi h).
      assert (0 <= base_of (st a h)) by (destruct (st a h); cbn; lia).
      rewrite u32_enc_sub1 by lia. f_equal. lia.
    - apply st_ok_keep; auto. { noclaim Hp. }
      unfold FreeListInv.st_ok in Ho. destruct (st a h) eqn:Es; auto; try lia.
      rewrite (S_refs Hi h), Es in Hw. cbn [flag_of base_of] in Hw.
      destruct (Nat.eq_dec (cnt a h) 1) as [E|E]; [|lia]. exfalso. apply Hw. rewrite E. reflexivity.
  Qed.

  (** *** put(): the fetch_add of the flag; old value 0 = no references, the caller adds the node *)
  Lemma step_put_add g a t n :
    InvS g a -> ph a t = PPut n -> refs g n = 0 ->
    InvS (set_refs g n (u32 (refs g n + FLAG))) (aux_set a n (Adding t) t (AStart n)).
  Proof.
    intros Hi Hp Hw.
    assert (Ht : (t < N)%nat) by (eapply active_lt; eauto; congruence).
    pose proof (S_ph Hi t) as Hx. rewrite Hp in Hx. cbn in Hx. destruct Hx as [Hst Hnin].
    pose proof (cnt_set a n (Adding t) t (AStart n) n Ht) as Hc. cnt_eq Hc Hp.
    pose proof (cnt_bound N HN a n (st a n)) as Hb.
    pose proof (S_refs Hi n) as Hr. rewrite Hw, Hst in Hr. cbn [flag_of base_of] in Hr.
    rewrite Hst in Hb. cbn [base_of] in Hb. symmetry in Hr. apply enc_eq_0 in Hr; [|exact Hb].
    apply InvS_set with (g := g);
      [exact Hi|exact Ht|nodeof Hp|nodeof Hp|own_change Hst|refs_frame|next_frame|left; reflexivity| | |
       apply (S_chain Hi)|notlisted Hi Hst| |intros Hin; contradiction].
    - rewrite refs_set_refs_same, Hw. cbn [flag_of base_of].
      replace (cnt (aux_set a n (Adding t) t (AStart n)) n) with O by lia. reflexivity.
    - unfold FreeListInv.st_ok. rewrite st_set_same, ph_set_same. split; [lia|tauto].
    - cbn. apply upd_same.
  Qed.

  Lemma step_put_pending g a t n :
    InvS g a -> ph a t = PPut n -> refs g n <> 0 ->
    InvS (set_refs g n (u32 (refs g n + FLAG))) (aux_set a n Pending t Busy).
  Proof.
    intros Hi Hp Hw.
    assert (Ht : (t < N)%nat) by (eapply active_lt; eauto; congruence).
    pose proof (S_ph Hi t) as Hx. rewrite Hp in Hx. cbn in Hx. destruct Hx as [Hst Hnin].
    pose proof (cnt_set a n Pending t Busy n Ht) as Hc. cnt_eq Hc Hp.
    pose proof (cnt_bound N HN a n (st a n)) as Hb.
    pose proof (S_refs Hi n) as Hr. rewrite Hst in Hr, Hb. cbn [flag_of base_of] in Hr, Hb.
    assert (Hpos : (1 <= cnt a n)%nat).
    { destruct (cnt a n) eqn:E; [|lia]. exfalso. apply Hw. rewrite Hr. reflexivity. }
    apply InvS_set with (g := g);
      [exact Hi|exact Ht|nodeof Hp|nodeof Hp|own_change Hst|refs_frame|next_frame|left; reflexivity| | |
       apply (S_chain Hi)|notlisted Hi Hst|exact I|intros Hin; contradiction].
    - rewrite refs_set_refs_same, Hr. cbn [flag_of base_of]. rewrite u32_enc_flag by lia. f_equal. lia.
    - unfold FreeListInv.st_ok. rewrite st_set_same. lia.
  Qed.

  (** *** add_knowing_refcount_is_zero: next.store *)
  Lemma step_st_next g a t n h :
    InvS g a -> ph a t = AStart n -> InvS (set_next g n h) (aux_set a n (st a n) t (ANxt n h)).
  Proof.
    intros Hi Hp.
    assert (Ht : (t < N)%nat) by (eapply active_lt; eauto; congruence).
    pose proof (S_ph Hi t) as Hx. rewrite Hp in Hx. cbn in Hx.
    pose proof (cnt_set a n (st a n) t (ANxt n h) n Ht) as Hc. cnt_eq Hc Hp.
    assert (Hc' : cnt (aux_set a n (st a n) t (ANxt n h)) n = cnt a n) by lia.
    pose proof (S_st Hi n) as Ho.
    assert (Hnl : ~ In n (lst a)). { intros Hin. apply (S_lin Hi) in Hin. congruence. }
    apply InvS_set with (g := g);
      [exact Hi|exact Ht|nodeof Hp|nodeof Hp|left; reflexivity|refs_frame|next_frame|right; exact Hx| | | |
       apply (S_lin Hi)| |apply (S_held Hi)].
    - cbn [refs set_next]. rewrite Hc'. apply (S_refs Hi).
    - unfold FreeListInv.st_ok in *. rewrite st_set_same. rewrite Hx in *. rewrite ph_set_same, Hc'.
      split; [tauto|]. right. exists h. reflexivity.
    - cbn [head set_next]. apply chain_ext with (nx := next g); [|apply (S_chain Hi)].
      intros m Hm. apply next_set_next_other. intros ->. contradiction.
    - cbn [phase_ok]. rewrite st_set_same. split; [exact Hx|apply next_set_next_same].
  Qed.

  (** *** add_knowing_refcount_is_zero: refs.store(1) *)
  Lemma step_st_refs g a t n h :
    InvS g a -> ph a t = ANxt n h -> InvS (set_refs g n 1) (aux_set a n (Publ t) t (APub n h)).
  Proof.
    intros Hi Hp.
    assert (Ht : (t < N)%nat) by (eapply active_lt; eauto; congruence).
    pose proof (S_ph Hi t) as Hx. rewrite Hp in Hx. cbn in Hx. destruct Hx as [Hst Hnx].
    pose proof (cnt_set a n (Publ t) t (APub n h) n Ht) as Hc. cnt_eq Hc Hp.
    pose proof (S_st Hi n) as Ho. unfold FreeListInv.st_ok in Ho. rewrite Hst in Ho. destruct Ho as [Hz _].
    apply InvS_set with (g := g);
      [exact Hi|exact Ht|nodeof Hp|nodeof Hp|own_change Hst|refs_frame|next_frame|left; reflexivity| | |
       apply (S_chain Hi)|notlisted Hi Hst| |notheld Hi Hst].
    - rewrite refs_set_refs_same. cbn [flag_of base_of].
      replace (cnt (aux_set a n (Publ t) t (APub n h)) n) with O by lia. reflexivity.
    - unfold FreeListInv.st_ok. rewrite st_set_same, ph_set_same. left. exists h. reflexivity.
    - cbn [phase_ok]. rewrite st_set_same. split; [reflexivity|exact Hnx].
  Qed.

  (** *** add_knowing_refcount_is_zero: the head CAS succeeds: the node is on the list *)
  Lemma step_cas_head_add_ok g a t n h :
    InvS g a -> ph a t = APub n h -> head g = h ->
    InvS (set_head g n) (step_aux a n OnList (n :: lst a) t Busy (hl a t) (own a)).
  Proof.
    intros Hi Hp Hh.
    assert (Ht : (t < N)%nat) by (eapply active_lt; eauto; congruence).
    pose proof (S_ph Hi t) as Hx. rewrite Hp in Hx. cbn in Hx. destruct Hx as [Hst Hnx].
    pose proof (cnt_step N a n OnList (n :: lst a) t Busy (hl a t) (own a) n Ht) as Hc. cnt_eq Hc Hp.
    assert (Hnl : ~ In n (lst a)). { intros Hin. apply (S_lin Hi) in Hin. congruence. }
    assert (Hnz : n <> O). { intros ->. rewrite (st_zero N valid0 Hv0 g a Hi) in Hst. discriminate. }
    apply (InvS_step N valid0) with (g := g);
      [exact Hi|exact Ht|nodeof Hp|nodeof Hp|own_change Hst|refs_frame|next_frame|left; reflexivity|tauto| | | | | | |exact I|notheld Hi Hst|apply (S_hnd Hi)].
    - intros m Hm. cbn. split; [intros [E|E]; [congruence|exact E]|tauto].
    - cbn [refs set_head]. rewrite (S_refs Hi n), Hst. cbn [flag_of base_of]. f_equal. lia.
    - unfold FreeListInv.st_ok. cbn [st step_aux]. rewrite upd_same. exact I.
    - cbn [next head set_head chain]. repeat split; auto. rewrite Hnx, <- Hh. apply (S_chain Hi).
    - constructor; [exact Hnl|apply (S_lnd Hi)].
    - split; [reflexivity|]. intros _. left; reflexivity.
  Qed.

  Lemma step_cas_head_add_fail g a t n h :
    InvS g a -> ph a t = APub n h -> InvS g (aux_set a n (st a n) t (AFail n)).
  Proof.
    intros Hi Hp.
    assert (Ht : (t < N)%nat) by (eapply active_lt; eauto; congruence).
    pose proof (S_ph Hi t) as Hx. rewrite Hp in Hx. cbn in Hx. destruct Hx as [Hst Hnx].
    pose proof (cnt_set a n (st a n) t (AFail n) n Ht) as Hc. cnt_eq Hc Hp.
    assert (Hc' : cnt (aux_set a n (st a n) t (AFail n)) n = cnt a n) by lia.
    apply InvS_set with (g := g);
      [exact Hi|exact Ht|nodeof Hp|nodeof Hp|left; reflexivity|refs_frame|next_frame|left; reflexivity| | |
       apply (S_chain Hi)|apply (S_lin Hi)| |apply (S_held Hi)].
    - rewrite Hc'. apply (S_refs Hi).
    - unfold FreeListInv.st_ok. rewrite st_set_same, Hst, ph_set_same. right; reflexivity.
    - cbn [phase_ok]. rewrite st_set_same. exact Hst.
  Qed.

  (** *** add_knowing_refcount_is_zero: fetch_add(flag - 1) after the failed head CAS *)
  Lemma step_add_faa_retry g a t n :
    InvS g a -> ph a t = AFail n -> refs g n = 1 ->
    InvS (set_refs g n (u32 (refs g n + (FLAG - 1)))) (aux_set a n (Adding t) t (AStart n)).
  Proof.
    intros Hi Hp Hw.
    assert (Ht : (t < N)%nat) by (eapply active_lt; eauto; congruence).
    pose proof (S_ph Hi t) as Hst. rewrite Hp in Hst. cbn in Hst.
    pose proof (cnt_set a n (Adding t) t (AStart n) n Ht) as Hc. cnt_eq Hc Hp.
    pose proof (cnt_bound N HN a n (st a n)) as Hb.
    pose proof (S_refs Hi n) as Hr. rewrite Hw, Hst in Hr. cbn [flag_of base_of] in Hr.
    rewrite Hst in Hb. cbn [base_of] in Hb. symmetry in Hr. apply enc_eq_1 in Hr; [|exact Hb].
    apply InvS_set with (g := g);
      [exact Hi|exact Ht|nodeof Hp|nodeof Hp|own_change Hst|refs_frame|next_frame|left; reflexivity| | |
       apply (S_chain Hi)|notlisted Hi Hst| |notheld Hi Hst].
    - rewrite refs_set_refs_same, Hw. cbn [flag_of base_of].
      replace (cnt (aux_set a n (Adding t) t (AStart n)) n) with O by lia. reflexivity.
    - unfold FreeListInv.st_ok. rewrite st_set_same, ph_set_same. split; [lia|tauto].
    - cbn. apply upd_same.
  Qed.

  Lemma step_add_faa_pending g a t n :
    InvS g a -> ph a t = AFail n -> refs g n <> 1 ->
    InvS (set_refs g n (u32 (refs g n + (FLAG - 1)))) (aux_set a n Pending t Busy).
  Proof.
    intros Hi Hp Hw.
    assert (Ht : (t < N)%nat) by (eapply active_lt; eauto; congruence).
    pose proof (S_ph Hi t) as Hst. rewrite Hp in Hst. cbn in Hst.
    pose proof (cnt_set a n Pending t Busy n Ht) as Hc. cnt_eq Hc Hp.
    pose proof (cnt_bound N HN a n (st a n)) as Hb.
    pose proof (S_refs Hi n) as Hr. rewrite Hst in Hr, Hb. cbn [flag_of base_of] in Hr, Hb.
    assert (Hpos : (1 <= cnt a n)%nat).
    { destruct (cnt a n) eqn:E; [|lia]. exfalso. apply Hw. rewrite Hr. reflexivity. }
    apply InvS_set with (g := g);
      [exact Hi|exact Ht|nodeof Hp|nodeof Hp|own_change Hst|refs_frame|next_frame|left; reflexivity| | |
       apply (S_chain Hi)|notlisted Hi Hst|exact I|notheld Hi Hst].
    - rewrite refs_set_refs_same, Hr. cbn [flag_of base_of]. rewrite u32_enc_flagm1 by lia. f_equal. lia.
    - unfold FreeListInv.st_ok. rewrite st_set_same. lia.
  Qed.

  (** *** client events *)
  Lemma step_phase_only g a t p' :
    InvS g a -> (t < N)%nat -> node_of (ph a t) = None -> node_of p' = None ->
    InvS g (aux_set a O (st a O) t p').
  Proof.
    intros Hi Ht Hp Hp'.
    pose proof (cnt_set a O (st a O) t p' O Ht) as Hc.
    assert (A : has_ref (ph a t) O = false).
    { destruct (has_ref (ph a t) O) eqn:E; [|reflexivity]. apply has_ref_node in E. congruence. }
    assert (B : has_ref p' O = false).
    { destruct (has_ref p' O) eqn:E; [|reflexivity]. apply has_ref_node in E. congruence. }
    rewrite A, B in Hc. cbn in Hc.
    assert (Hc' : cnt (aux_set a O (st a O) t p') O = cnt a O) by lia.
    pose proof (st_zero N valid0 Hv0 g a Hi) as Hz.
    apply InvS_set with (g := g);
      [exact Hi|exact Ht|left; exact Hp|left; exact Hp'|left; reflexivity|refs_frame|next_frame|left; reflexivity| | |
       apply (S_chain Hi)|apply (S_lin Hi)| |apply (S_held Hi)].
    - rewrite Hc'. apply (S_refs Hi).
    - unfold FreeListInv.st_ok. rewrite st_set_same, Hc', Hz. pose proof (S_st Hi O) as Ho.
      unfold FreeListInv.st_ok in Ho. rewrite Hz in Ho. exact Ho.
    - destruct p'; cbn in *; try exact I; discriminate.
  Qed.

  Lemma step_ret_get g a t n o' :
    InvS g a -> ph a t = PRet n ->
    InvS g (step_aux a n (Held t) (lst a) t Idle (hl a t ++ [n]) o').
  Proof.
    intros Hi Hp.
    assert (Ht : (t < N)%nat) by (eapply active_lt; eauto; congruence).
    pose proof (S_ph Hi t) as Hx. rewrite Hp in Hx. cbn in Hx. destruct Hx as [Hst Hnin].
    pose proof (cnt_step N a n (Held t) (lst a) t Idle (hl a t ++ [n]) o' n Ht) as Hc. cnt_eq Hc Hp.
    apply (InvS_step N valid0) with (g := g);
      [exact Hi|exact Ht|nodeof Hp|nodeof Hp|left; symmetry; exact Hst|refs_frame|next_frame|left; reflexivity| |tauto| | |
       apply (S_chain Hi)|apply (S_lnd Hi)| |exact I|reflexivity| ].
    - intros m Hm. rewrite in_app_iff. cbn. split; [intros [E|[E|[]]]; [exact E|congruence]|tauto].
    - rewrite (S_refs Hi n), Hst. f_equal. f_equal. lia.
    - unfold FreeListInv.st_ok. cbn [st step_aux hl]. rewrite !upd_same. left. apply in_or_app. right; left; reflexivity.
    - rewrite <- Hst. apply (S_lin Hi).
    - apply NoDup_snoc; [apply (S_hnd Hi)|exact Hnin].
  Qed.

  Lemma step_inv_put g a t k n o' :
    InvS g a -> (t < N)%nat -> ph a t = Idle -> nth_error (hl a t) k = Some n ->
    InvS g (step_aux a n (Held t) (lst a) t (PPut n) (remove_nth k (hl a t)) o').
  Proof.
    intros Hi Ht Hp Hk.
    assert (Hin : In n (hl a t)) by (eapply nth_error_In; eauto).
    pose proof (S_held Hi t n Hin) as Hst.
    destruct (remove_nth_spec (hl a t) k n Hk (S_hnd Hi t)) as (R1 & R2 & R3).
    pose proof (cnt_step N a n (Held t) (lst a) t (PPut n) (remove_nth k (hl a t)) o' n Ht) as Hc. cnt_eq Hc Hp.
    apply (InvS_step N valid0) with (g := g);
      [exact Hi|exact Ht|nodeof Hp|nodeof Hp|left; symmetry; exact Hst|refs_frame|next_frame|left; reflexivity|exact R3|tauto| | |
       apply (S_chain Hi)|apply (S_lnd Hi)| | |reflexivity|exact R1].
    - rewrite (S_refs Hi n), Hst. f_equal. f_equal. lia.
    - unfold FreeListInv.st_ok. cbn [st step_aux ph]. rewrite !upd_same. right; left; reflexivity.
    - rewrite <- Hst. apply (S_lin Hi).
    - cbn [phase_ok st step_aux]. rewrite upd_same. split; [reflexivity|exact R2].
  Qed.
End Steps.
