(** * Arithmetic used by the Vyukov queue proofs: size_t / intptr_t operations of LV.Base.CInt on values below
      2^62 (where nothing wraps), the mask as a remainder, and cells of positions inside a window of one ring. *)
From Coq Require Import ZArith List Bool Lia.
From LV Require Import Base.CInt Model.Vyukov.
Local Open Scope Z_scope.

Definition B62 : Z := 2 ^ 62.

Lemma B62_val : B62 = 4611686018427387904.
Proof. reflexivity. Qed.

Lemma p64_val : 2 ^ 64 = 18446744073709551616.
Proof. reflexivity. Qed.

Lemma uadd1 p : 0 <= p < B62 -> uadd u64 p 1 = p + 1.
Proof.
  intros H. unfold uadd. cbn [ibits u64]. rewrite B62_val in H. rewrite p64_val.
  apply Z.mod_small. lia.
Qed.

Lemma uadd_small a b : 0 <= a < B62 -> 0 <= b < B62 -> uadd u64 a b = a + b.
Proof.
  intros Ha Hb. unfold uadd. cbn [ibits u64]. rewrite B62_val in *. rewrite p64_val.
  apply Z.mod_small. lia.
Qed.

Lemma usub_ge a b : 0 <= b <= a -> a < B62 -> usub u64 a b = a - b.
Proof.
  intros Ha Hb. unfold usub. cbn [ibits u64]. rewrite B62_val in *. rewrite p64_val.
  apply Z.mod_small. lia.
Qed.

Lemma usub_eqb a b c : 0 <= a < B62 -> 0 <= b < B62 -> 0 <= c < B62 ->
  (usub u64 a b =? c) = (a - b =? c).
Proof.
  intros Ha Hb Hc. unfold usub. cbn [ibits u64]. rewrite B62_val in *. rewrite p64_val.
  destruct (Z_le_gt_dec b a) as [L|L].
  - rewrite Z.mod_small by lia. reflexivity.
  - replace ((a - b) mod 18446744073709551616) with (a - b + 18446744073709551616).
    + destruct (Z.eqb_spec (a - b + 18446744073709551616) c); destruct (Z.eqb_spec (a - b) c); try lia; reflexivity.
    + symmetry. rewrite <- (Z_mod_plus_full (a - b) 1 18446744073709551616).
      rewrite Z.mul_1_l. apply Z.mod_small. lia.
Qed.

Lemma sdif_small a b : 0 <= a < 2 * B62 -> 0 <= b < 2 * B62 -> sdif a b = Some (a - b).
Proof.
  intros Ha Hb. unfold sdif, cast, ssub. rewrite B62_val in *.
  rewrite !wrap_id; try (cbn; lia); try (unfold in_range, imin, imax; cbn; lia).
  apply checked_some. unfold in_range, imin, imax; cbn; lia.
Qed.

(** ** the ring *)
Section Ring.
  Variable k : nat.
  Hypothesis Hk : (1 <= k)%nat.
  Let cap : Z := 2 ^ Z.of_nat k.

  Lemma cap_ge2 : 2 <= cap.
  Proof.
    unfold cap. replace (Z.of_nat k) with (1 + (Z.of_nat k - 1)) by lia.
    rewrite Z.pow_add_r by lia. change (2 ^ 1) with 2.
    assert (0 < 2 ^ (Z.of_nat k - 1)) by (apply Z.pow_pos_nonneg; lia). lia.
  Qed.

  Lemma cap_pos : 0 < cap.
  Proof. pose proof cap_ge2. lia. Qed.

  Definition cell (p : Z) : Z := p mod cap.

  Lemma land_mask p : Z.land p (cap - 1) = cell p.
  Proof.
    unfold cell, cap. rewrite <- Z.land_ones by lia. f_equal.
    rewrite Z.ones_equiv. lia.
  Qed.

  Lemma qmask_val q : qcap q = cap -> cap < B62 -> qmask q = cap - 1.
  Proof.
    intros Hq Hb. unfold qmask. rewrite Hq. apply usub_ge; pose proof cap_ge2; lia.
  Qed.

  Lemma cell_range p : 0 <= cell p < cap.
  Proof. unfold cell. apply Z.mod_pos_bound. apply cap_pos. Qed.

  Lemma cell_add_cap p : cell (p + cap) = cell p.
  Proof. unfold cell. rewrite <- (Z.mul_1_l cap) at 1. apply Z_mod_plus_full. Qed.

  Lemma cell_sub_cap p : cell (p - cap) = cell p.
  Proof. rewrite <- (cell_add_cap (p - cap)). f_equal. lia. Qed.

  Lemma cell_inj p p' : cell p = cell p' -> - cap < p - p' < cap -> p = p'.
  Proof.
    unfold cell. intros H Hd. pose proof cap_pos as Hc.
    pose proof (Z.div_mod p cap ltac:(lia)) as E1. pose proof (Z.div_mod p' cap ltac:(lia)) as E2.
    rewrite H in E1.
    assert (p - p' = cap * (p / cap - p' / cap)) as E by lia.
    assert (p / cap - p' / cap = 0) by nia. lia.
  Qed.

  Lemma cell_neq p p' : p <> p' -> - cap < p - p' < cap -> cell p <> cell p'.
  Proof. intros N H E. apply N. apply cell_inj; auto. Qed.
End Ring.
