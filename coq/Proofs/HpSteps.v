(** * Preservation of [Inv] by each kind of step of the HP model. *)
From Coq Require Import ZArith List String Bool Lia PeanoNat.
From LV Require Import Base.Conc Base.Events Model.Hp Proofs.HpTrace Proofs.HpInv.
Import ListNotations.
Local Open Scope string_scope.
Local Open Scope list_scope.

(** ** events that the trace predicates of the invariant do not look at.
       [quiet]: not a scan marker, not retire / dispose / overflow (the ghost slot store is allowed);
       [neutral]: quiet and not a ghost slot store. *)
Definition loud_names : list string := ["g_scan_begin"; "g_scan_end"; "retire"; "dispose"; "overflow"].
Definition quiet (e : ev) : bool :=
  match e with
  | EvAcc _ _ _ => true
  | EvCli n _ => negb (existsb (String.eqb n) loud_names)
  end.
Definition neutral (e : ev) : bool :=
  (quiet e && negb (is_cli_named "g_slot" e))%bool.

Lemma neutral_quiet e : neutral e = true -> quiet e = true.
Proof. unfold neutral. intros H. apply andb_true_iff in H. tauto. Qed.

Lemma quiet_name n args s : quiet (EvCli n args) = true -> In s loud_names -> String.eqb n s = false.
Proof.
  unfold quiet. intros H Hs. apply negb_true_iff in H. destruct (String.eqb n s) eqn:E; auto.
  exfalso. rewrite <- not_true_iff_false in H. apply H. apply existsb_exists. exists s; auto.
Qed.

Lemma neutral_slot e r j cur : neutral e = true -> slot_upd r j e cur = cur.
Proof.
  destruct e as [k o b|n args]; [reflexivity|]. intros H. cbn.
  destruct args as [|a [|b [|v [|w rest]]]]; try reflexivity.
  unfold neutral in H. apply andb_true_iff in H. destruct H as (_ & H). cbn in H.
  apply negb_true_iff in H. rewrite H. reflexivity.
Qed.

Lemma quiet_not_sb t t' e : quiet e = true -> is_sb t (t', e) = false.
Proof.
  destruct e as [k o b|n args]; unfold is_sb; cbn [fst snd is_cli_named]; [now rewrite andb_false_r|]. intros H.
  rewrite (quiet_name _ _ "g_scan_begin" H) by (cbn; tauto). now rewrite andb_false_r.
Qed.

Lemma quiet_not_ev name p e :
  In name ["retire"; "dispose"; "overflow"] -> quiet e = true -> is_ev name p e = false.
Proof.
  intros Hn. destruct e as [k o b|n args]; [reflexivity|]. intros H. cbn.
  destruct args as [|x [|y rest]]; try reflexivity.
  rewrite (quiet_name _ _ name H); [reflexivity|]. cbn in *. tauto.
Qed.

Lemma quiet_not_dispose e p : quiet e = true -> e <> ev_dispose p.
Proof. intros H ->. discriminate. Qed.
Lemma quiet_not_scan_end e r kept : quiet e = true -> e <> ev_scan_end r kept.
Proof. intros H ->. discriminate. Qed.

Lemma firstn_app_le {A} (l l' : list A) i : i <= List.length l -> firstn i (l ++ l') = firstn i l.
Proof.
  intros H. rewrite firstn_app. replace (i - List.length l) with 0 by lia. now rewrite firstn_O, app_nil_r.
Qed.

Lemma slot_at_neutral tr t es r j :
  (forall e, In e es -> neutral e = true) -> slot_at (tr ++ Conc.tag t es) r j = slot_at tr r j.
Proof.
  intros H. rewrite slot_at_app. generalize (slot_at tr r j). unfold Conc.tag.
  induction es as [|e es IH]; intros z; cbn; [reflexivity|].
  rewrite neutral_slot by (apply H; now left). apply IH. intros; apply H; now right.
Qed.

Lemma last_sb_quiet tr t es t' :
  (forall e, In e es -> quiet e = true) -> last_sb (tr ++ Conc.tag t es) t' = last_sb tr t'.
Proof.
  intros H. apply last_sb_app_other. intros te Hin. unfold Conc.tag in Hin.
  apply in_map_iff in Hin. destruct Hin as (e & <- & He). apply quiet_not_sb. now apply H.
Qed.

Lemma seen_in_ext tr es s e v : e <= List.length tr -> seen_in tr s e v -> seen_in (tr ++ es) s e v.
Proof.
  intros He (r & j & i & Hi & Hv). exists r, j, i. split; [exact Hi|].
  rewrite firstn_app_le by lia. exact Hv.
Qed.
Lemma seen_in_mono tr s e e' v : e <= e' -> seen_in tr s e v -> seen_in tr s e' v.
Proof. intros He (r & j & i & Hi & Hv). exists r, j, i. split; [lia|exact Hv]. Qed.

(** the two clauses about positions of the trace only look at prefixes *)
Definition safe_cl (c : cfgT) (tr : trace) : Prop :=
  forall d t p s, nth_error tr d = Some (t, ev_dispose p) -> last_sb (firstn d tr) t = Some s ->
    (cInplace c = true -> retire_once (firstn d tr)) -> p <> 0%Z ->
    forall r j, ~ held (firstn (S d) tr) s r j p.
Definition kept_cl (tr : trace) : Prop :=
  forall e t r kept s, nth_error tr e = Some (t, ev_scan_end r kept) ->
    last_sb (firstn e tr) t = Some s -> forall p, In p kept -> seen_in tr s e p.

Lemma safe_cl_ext c tr es :
  safe_cl c tr ->
  (forall k t p s, nth_error es k = Some (t, ev_dispose p) ->
     last_sb (tr ++ firstn k es) t = Some s ->
     (cInplace c = true -> retire_once (tr ++ firstn k es)) -> p <> 0%Z ->
     forall r j, ~ held (tr ++ firstn (S k) es) s r j p) ->
  safe_cl c (tr ++ es).
Proof.
  intros Hs Hn d t p s Hd Hsb Hro Hp0 r j.
  destruct (Nat.lt_ge_cases d (List.length tr)) as [Hlt|Hge].
  - rewrite nth_error_app1 in Hd by exact Hlt.
    rewrite firstn_app_le in Hsb by lia. rewrite firstn_app_le by lia.
    apply (Hs d t p s Hd Hsb); [|exact Hp0]. intros Hi. specialize (Hro Hi). now rewrite firstn_app_le in Hro by lia.
  - rewrite nth_error_app2 in Hd by exact Hge.
    rewrite firstn_app in Hsb. rewrite firstn_all2 in Hsb by lia.
    rewrite firstn_app. rewrite (firstn_all2 tr) by lia.
    replace (S d - List.length tr) with (S (d - List.length tr)) by lia.
    apply (Hn _ t p s Hd Hsb); [|exact Hp0]. intros Hi. specialize (Hro Hi).
    rewrite firstn_app in Hro. now rewrite (firstn_all2 tr) in Hro by lia.
Qed.

Lemma kept_cl_ext tr es :
  kept_cl tr ->
  (forall k t r kept s, nth_error es k = Some (t, ev_scan_end r kept) ->
     last_sb (tr ++ firstn k es) t = Some s ->
     forall p, In p kept -> seen_in (tr ++ es) s (List.length tr + k) p) ->
  kept_cl (tr ++ es).
Proof.
  intros Hk Hn e t r kept s He Hsb p Hp.
  destruct (Nat.lt_ge_cases e (List.length tr)) as [Hlt|Hge].
  - rewrite nth_error_app1 in He by exact Hlt. rewrite firstn_app_le in Hsb by lia.
    apply seen_in_ext; [lia|]. eapply Hk; eauto.
  - rewrite nth_error_app2 in He by exact Hge.
    rewrite firstn_app in Hsb. rewrite firstn_all2 in Hsb by lia.
    replace e with (List.length tr + (e - List.length tr)) at 1 by lia.
    eapply Hn; eauto.
Qed.

Lemma nth_error_tag t (es : list ev) k t' e : nth_error (Conc.tag t es) k = Some (t', e) -> t' = t /\ nth_error es k = Some e.
Proof.
  unfold Conc.tag. rewrite nth_error_map. destruct (nth_error es k); cbn; [|discriminate].
  intros H; inversion H; auto.
Qed.

Lemma slot_at_noslot tr t es r j :
  (forall e, In e es -> is_cli_named "g_slot" e = false) -> slot_at (tr ++ Conc.tag t es) r j = slot_at tr r j.
Proof.
  intros H. rewrite slot_at_app. generalize (slot_at tr r j). unfold Conc.tag.
  induction es as [|e es IH]; intros z; cbn; [reflexivity|].
  rewrite IH by (intros; apply H; now right). f_equal.
  pose proof (H e (or_introl eq_refl)) as H1.
  destruct e as [k o b|n args]; [reflexivity|]. cbn in *.
  destruct args as [|x [|y [|z' [|w rest]]]]; try reflexivity. now rewrite H1.
Qed.

Lemma last_sb_nosb tr t es t' :
  (forall e, In e es -> is_cli_named "g_scan_begin" e = false) -> last_sb (tr ++ Conc.tag t es) t' = last_sb tr t'.
Proof.
  intros H. apply last_sb_app_other. intros te Hin. unfold Conc.tag in Hin.
  apply in_map_iff in Hin. destruct Hin as (e & <- & He). unfold is_sb. cbn.
  rewrite (H e He). now rewrite andb_false_r.
Qed.


(** ** cells were retired before: clause helpers *)
Definition retd_cl (g : G) (a : Aux) (tr : trace) : Prop :=
  forall r p, In p (effc g a r) -> retired_before tr (List.length tr) p.
Definition retd_scan_cl (g : G) (a : Aux) (tr : trace) : Prop :=
  forall t sv r s, v_scan (view a t) = Some sv -> v_rec (view a t) = Some r -> last_sb tr t = Some s ->
    forall p, In p (effc g a r) -> retired_before tr s p.
Definition pre_cl (tr : trace) : Prop :=
  forall d t p, nth_error tr d = Some (t, ev_dispose p) ->
    exists s, last_sb (firstn d tr) t = Some s /\ retired_before tr s p.

Lemma retired_before_ext tr es n p : retired_before tr n p -> retired_before (tr ++ es) n p.
Proof.
  intros (i & u & Hi & Hn). exists i, u. split; [exact Hi|]. rewrite nth_error_app1; [exact Hn|].
  apply nth_error_Some. congruence.
Qed.
Lemma retired_before_mono tr n m p : n <= m -> retired_before tr n p -> retired_before tr m p.
Proof. intros Hle (i & u & Hi & Hn). exists i, u. split; [lia|exact Hn]. Qed.

Lemma retd_cl_ext g a tr es : retd_cl g a tr -> retd_cl g a (tr ++ es).
Proof.
  intros H r p Hp. apply retired_before_ext. eapply retired_before_mono; [|apply (H r p Hp)].
  rewrite app_length; lia.
Qed.

Lemma retd_scan_cl_ext g a tr t es :
  retd_scan_cl g a tr -> (forall e, In e es -> is_cli_named "g_scan_begin" e = false) ->
  retd_scan_cl g a (tr ++ Conc.tag t es).
Proof.
  intros H Hq t' sv r s Hsv Hr Hs p Hp. rewrite last_sb_nosb in Hs by exact Hq.
  apply retired_before_ext. eapply H; eauto.
Qed.

Lemma pre_cl_ext tr es :
  pre_cl tr ->
  (forall k t p, nth_error es k = Some (t, ev_dispose p) ->
     exists s, last_sb (tr ++ firstn k es) t = Some s /\ retired_before (tr ++ es) s p) ->
  pre_cl (tr ++ es).
Proof.
  intros Hp Hn d t p Hd. destruct (Nat.lt_ge_cases d (List.length tr)) as [Hlt|Hge].
  - rewrite nth_error_app1 in Hd by exact Hlt. destruct (Hp d t p Hd) as (s & Hs & Hr). exists s.
    rewrite firstn_app_le by lia. split; [exact Hs|apply retired_before_ext; exact Hr].
  - rewrite nth_error_app2 in Hd by exact Hge. destruct (Hn _ t p Hd) as (s & Hs & Hr). exists s.
    rewrite firstn_app. rewrite (firstn_all2 tr) by lia. split; [exact Hs|exact Hr].
Qed.

Lemma pre_cl_nodispose tr t es :
  pre_cl tr -> (forall e p, In e es -> e <> ev_dispose p) -> pre_cl (tr ++ Conc.tag t es).
Proof.
  intros Hs Hq. apply pre_cl_ext; [exact Hs|].
  intros k t' p Hk. apply nth_error_tag in Hk. destruct Hk as (_ & Hk).
  exfalso. apply nth_error_In in Hk. eapply Hq; eauto.
Qed.

Lemma quiet_nosb e : quiet e = true -> is_cli_named "g_scan_begin" e = false.
Proof.
  destruct e as [k o b|n args]; [reflexivity|]. intros H. cbn. apply (quiet_name _ _ "g_scan_begin" H). cbn; tauto.
Qed.

(** ** sizes and overflow: clause helpers *)
Definition size_cl (c : cfgT) (g : G) (a : Aux) (tr : trace) : Prop :=
  ovf_cond c g tr -> forall r,
    List.length (r_ret (get_rec g r)) < cR c \/ exists t cl, In cl (v_cl (view a t)) /\ shrinking_claim_on r cl.
Definition noovf_cl (c : cfgT) (g : G) (tr : trace) : Prop := ovf_cond c g tr -> forall p, cnt "overflow" p tr = 0%Z.
Definition collsz_cl (c : cfgT) (g : G) (a : Aux) : Prop := forall t sv, v_scan (view a t) = Some sv -> collsz_ok c g sv.

Lemma cnt_le_app name p tr es : (cnt name p tr <= cnt name p (tr ++ es))%Z.
Proof. rewrite cnt_app. pose proof (cnt_nonneg name p es). lia. Qed.

Lemma ovf_cond_weaken c g g' tr tr' :
  ovf_cond c g' tr' -> List.length (g_list g) <= List.length (g_list g') ->
  (forall p, (cnt "retire" p tr <= cnt "retire" p tr')%Z) -> ovf_cond c g tr.
Proof. intros (H1 & H2 & H3) Hl Hc. repeat split; [lia|exact H2|]. intros p. specialize (H3 p). specialize (Hc p). lia. Qed.

Lemma size_cl_transfer c g a tr g' a' tr' :
  size_cl c g a tr -> List.length (g_list g) <= List.length (g_list g') ->
  (forall p, (cnt "retire" p tr <= cnt "retire" p tr')%Z) ->
  (forall r, List.length (r_ret (get_rec g' r)) <= List.length (r_ret (get_rec g r))) ->
  (forall t cl, In cl (v_cl (view a t)) -> In cl (v_cl (view a' t))) ->
  size_cl c g' a' tr'.
Proof.
  intros Hs Hl Hc Hret Hcl Hcond r. pose proof (ovf_cond_weaken _ _ _ _ _ Hcond Hl Hc) as Hold.
  destruct (Hs Hold r) as [H|(t & cl & H1 & H2)]; [left; specialize (Hret r); lia|right]. exists t, cl. auto.
Qed.

Lemma noovf_cl_transfer c g tr g' tr' :
  noovf_cl c g tr -> List.length (g_list g) <= List.length (g_list g') ->
  (forall p, (cnt "retire" p tr <= cnt "retire" p tr')%Z) ->
  (forall p, cnt "overflow" p tr' = cnt "overflow" p tr) -> noovf_cl c g' tr'.
Proof. intros Hn Hl Hc Ho Hcond p. rewrite Ho. apply Hn. eapply ovf_cond_weaken; eauto. Qed.

Lemma collsz_ok_mono c g g' sv :
  collsz_ok c g sv -> List.length (g_list g) <= List.length (g_list g') -> collsz_ok c g' sv.
Proof.
  unfold collsz_ok. destruct (sc_todo sv); [|auto]. intros H Hl.
  assert (cH c * List.length (g_list g) <= cH c * List.length (g_list g')) by (apply Nat.mul_le_mono_l; exact Hl). lia.
Qed.

Lemma cnt_overflow_quiet p t es : (forall e, In e es -> quiet e = true) -> cnt "overflow" p (Conc.tag t es) = 0%Z.
Proof. intros H. apply cnt_tag_none. intros e He. apply quiet_not_ev; [cbn; tauto|auto]. Qed.

(** ** attachment / operation / last store / sources: clause helpers *)
Definition inert (e : ev) : bool := (xplain e && negb (is_opstart e) && negb (is_resp' e))%bool.

Definition X_cl (g : G) (a : Aux) (tr : trace) : Prop :=
  TrOK tr /\ (forall t, att_at tr t = v_rec (view a t)) /\
  (forall t e0, v_op (view a t) = Some e0 -> open_op tr t = Some e0) /\
  (forall t r j x ok, v_val (view a t) = Some (r, j, x, ok) -> val_pat tr t r j x ok) /\
  (forall k, src_at tr k = g_srcs g k).

Lemma X_of_inv c g a tr : Inv c g a tr -> X_cl g a tr.
Proof. intros HI. destruct HI. split; [exact i_tr|]. split; [exact i_att|]. split; [exact i_op|]. split; [exact i_val|exact i_src]. Qed.

Lemma TrOK_ext tr es :
  TrOK tr -> (forall k u e, nth_error es k = Some (u, e) -> ev_ok (tr ++ firstn k es) u e) -> TrOK (tr ++ es).
Proof.
  intros H Hn i u e Hi. destruct (Nat.lt_ge_cases i (List.length tr)) as [Hlt|Hge].
  - rewrite nth_error_app1 in Hi by exact Hlt. rewrite firstn_app_le by lia. now apply H.
  - rewrite nth_error_app2 in Hi by exact Hge. rewrite firstn_app. rewrite (firstn_all2 tr) by lia. now apply Hn.
Qed.

Lemma TrOK_xplain tr t es : TrOK tr -> (forall e, In e es -> xplain e = true) -> TrOK (tr ++ Conc.tag t es).
Proof.
  intros H Hx. apply TrOK_ext; [exact H|]. intros k u e Hk. apply nth_error_tag in Hk. destruct Hk as (-> & Hk).
  apply xplain_ev_ok. apply Hx. eapply nth_error_In; eauto.
Qed.

Lemma att_upd_xplain e acc : xplain e = true -> att_upd e acc = acc.
Proof.
  destruct e as [k o b|n args]; [reflexivity|]. intros H. cbn. destruct args as [|r [|r2 rest]]; try reflexivity.
  rewrite (xplain_name _ _ "g_att" H), (xplain_name _ _ "g_det" H) by (cbn; tauto). reflexivity.
Qed.
Lemma src_upd_xplain k e acc : xplain e = true -> src_upd k e acc = acc.
Proof.
  destruct e as [k0 o b|n args]; [reflexivity|]. intros H. cbn. destruct args as [|a [|b [|c0 [|d rest]]]]; try reflexivity.
  rewrite (xplain_name _ _ "g_src" H) by (cbn; tauto). reflexivity.
Qed.
Lemma att_at_other tr t es t' : t' <> t -> att_at (tr ++ Conc.tag t es) t' = att_at tr t'.
Proof.
  intros Hne. rewrite att_at_app. generalize (att_at tr t'). unfold Conc.tag.
  induction es as [|e es IH]; intros acc; cbn; [reflexivity|]. unfold att_step at 2. cbn.
  destruct (Nat.eqb_spec t t'); [congruence|]. apply IH.
Qed.
Lemma open_op_other tr t es t' : t' <> t -> open_op (tr ++ Conc.tag t es) t' = open_op tr t'.
Proof.
  intros Hne. rewrite open_op_app. generalize (open_op tr t'). unfold Conc.tag.
  induction es as [|e es IH]; intros acc; cbn; [reflexivity|]. unfold op_step at 2. cbn.
  destruct (Nat.eqb_spec t t'); [congruence|]. apply IH.
Qed.
Lemma att_at_xplain tr t es t' : (forall e, In e es -> xplain e = true) -> att_at (tr ++ Conc.tag t es) t' = att_at tr t'.
Proof.
  intros Hx. rewrite att_at_app. generalize (att_at tr t'). unfold Conc.tag.
  induction es as [|e es IH]; intros acc; cbn; [reflexivity|]. unfold att_step at 2. cbn.
  rewrite att_upd_xplain by (apply Hx; now left). destruct (Nat.eqb t t'); apply IH; intros; apply Hx; now right.
Qed.
Lemma src_at_xplain tr t es k : (forall e, In e es -> xplain e = true) -> src_at (tr ++ Conc.tag t es) k = src_at tr k.
Proof.
  intros Hx. rewrite src_at_app. generalize (src_at tr k). unfold Conc.tag.
  induction es as [|e es IH]; intros acc; cbn; [reflexivity|].
  rewrite src_upd_xplain by (apply Hx; now left). apply IH. intros; apply Hx; now right.
Qed.
Definition op_fold (es : list ev) (acc : option ev) : option ev := fold_left (fun a e => op_upd e a) es acc.
Lemma open_op_same tr t es : open_op (tr ++ Conc.tag t es) t = op_fold es (open_op tr t).
Proof.
  rewrite open_op_app. unfold op_fold. generalize (open_op tr t). unfold Conc.tag.
  induction es as [|e es IH]; intros acc; cbn; [reflexivity|]. unfold op_step at 2. cbn. rewrite Nat.eqb_refl. apply IH.
Qed.
Lemma op_fold_inert es acc : (forall e, In e es -> inert e = true) -> op_fold es acc = acc.
Proof.
  unfold op_fold. revert acc. induction es as [|e es IH]; intros acc H; cbn; [reflexivity|].
  assert (He : inert e = true) by (apply H; now left). unfold inert in He.
  apply andb_true_iff in He. destruct He as (He & H3). apply andb_true_iff in He. destruct He as (_ & H2).
  unfold op_upd. apply negb_true_iff in H2. apply negb_true_iff in H3. rewrite H2, H3. apply IH. intros; apply H; now right.
Qed.
Lemma inert_xplain e : inert e = true -> xplain e = true.
Proof. unfold inert. intros H. apply andb_true_iff in H. destruct H as (H & _). apply andb_true_iff in H. tauto. Qed.

Lemma xplain_pat_ok e : xplain e = true -> pat_ok e = true.
Proof.
  destruct e as [k o b|n args]; [reflexivity|]. intros H. unfold pat_ok. cbn.
  rewrite (xplain_name _ _ "g_slot" H), (xplain_name _ _ "g_att" H), (xplain_name _ _ "g_det" H) by (cbn; tauto). reflexivity.
Qed.

Lemma val_pat_ext tr t es t' r j x ok :
  val_pat tr t' r j x ok -> (t' <> t \/ forall e, In e es -> pat_ok e = true) ->
  val_pat (tr ++ Conc.tag t es) t' r j x ok.
Proof.
  intros (g0 & Hg & Hall & Hok) Hcond. assert (Hlt : g0 < List.length tr) by (apply nth_error_Some; congruence).
  exists g0. split; [rewrite nth_error_app1 by exact Hlt; exact Hg|]. split.
  - intros i e Hi Hn. destruct (Nat.lt_ge_cases i (List.length tr)) as [H1|H1].
    + rewrite nth_error_app1 in Hn by exact H1. eapply Hall; eauto.
    + rewrite nth_error_app2 in Hn by exact H1. apply nth_error_tag in Hn. destruct Hn as (E & Hn).
      destruct Hcond as [Hc|Hc]; [congruence|]. apply Hc. eapply nth_error_In; eauto.
  - destruct ok as [k|]; [|exact I]. destruct Hok as (w & Hw & Hn). exists w. split; [exact Hw|].
    rewrite nth_error_app1; [exact Hn|]. apply nth_error_Some. congruence.
Qed.

Lemma X_transfer g a tr g' a' t es :
  X_cl g a tr -> (forall e, In e es -> inert e = true) ->
  (forall t', v_rec (view a' t') = v_rec (view a t') /\ v_op (view a' t') = v_op (view a t') /\
              v_val (view a' t') = v_val (view a t')) ->
  (forall k, g_srcs g' k = g_srcs g k) ->
  X_cl g' a' (tr ++ Conc.tag t es).
Proof.
  intros (H1 & H2 & H3 & H4 & H5) Hin Hv Hs.
  assert (Hx : forall e, In e es -> xplain e = true) by (intros; apply inert_xplain; auto).
  split; [|split; [|split; [|split]]].
  - apply TrOK_xplain; assumption.
  - intros t'. rewrite att_at_xplain by exact Hx. destruct (Hv t') as (-> & _). apply H2.
  - intros t' e0. destruct (Hv t') as (_ & -> & _). intros Ho. destruct (Nat.eq_dec t' t) as [->|Hne].
    + rewrite open_op_same, op_fold_inert by exact Hin. now apply H3.
    + rewrite open_op_other by exact Hne. now apply H3.
  - intros t' r j x ok Hval. destruct (Hv t') as (_ & _ & E). rewrite E in Hval.
    apply val_pat_ext; [eapply H4; eauto|]. right. intros e He. apply xplain_pat_ok. auto.
  - intros k. rewrite src_at_xplain by exact Hx. rewrite Hs. apply H5.
Qed.

Lemma X_transfer0 g a tr g' a' :
  X_cl g a tr ->
  (forall t', v_rec (view a' t') = v_rec (view a t') /\ v_op (view a' t') = v_op (view a t') /\
              v_val (view a' t') = v_val (view a t')) ->
  (forall k, g_srcs g' k = g_srcs g k) ->
  X_cl g' a' tr.
Proof.
  intros H Hv Hs. pose proof (X_transfer g a tr g' a' 0 [] H) as HX. cbn in HX. rewrite app_nil_r in HX.
  apply HX; [intros e []|exact Hv|exact Hs].
Qed.

Ltac xbullets HX := destruct HX as (HX1 & HX2 & HX3 & HX4 & HX5).

(** ** 1. neutral events *)
Lemma resp_last_other tr t t' es : t' <> t -> resp_last (tr ++ Conc.tag t' es) t <-> resp_last tr t.
Proof. intros H. unfold resp_last. now rewrite last_ev_tag_other. Qed.

Lemma resp_last_same tr t es e : resp_last (tr ++ Conc.tag t (es ++ [e])) t <-> is_resp e = true.
Proof. unfold resp_last. now rewrite last_ev_tag_same. Qed.

Lemma tag_nil t : @Conc.tag ev t [] = [].
Proof. reflexivity. Qed.

(** the trace-only clauses under quiet events *)
Definition cov_cl (c : cfgT) (a : Aux) (tr : trace) : Prop :=
  forall t sv, v_scan (view a t) = Some sv ->
    exists s, last_sb tr t = Some s /\
      (forall r j v, covered (cH c) sv r j -> v <> 0%Z -> held tr s r j v -> In v (sc_coll sv)) /\
      (forall v, In v (sc_coll sv) -> seen_in tr s (List.length tr) v).
Definition bal_cl (g : G) (a : Aux) (tr : trace) : Prop :=
  forall p, cnt "retire" p tr = (cnt "dispose" p tr + cnt "overflow" p tr + pend p g a)%Z.
Definition idle_cl (a : Aux) (tr : trace) : Prop := forall t, resp_last tr t -> idle (view a t).

Lemma cov_cl_quiet c a tr t es :
  cov_cl c a tr -> (forall e, In e es -> quiet e = true) -> cov_cl c a (tr ++ Conc.tag t es).
Proof.
  intros Hc Hq t' sv Hsv. destruct (Hc t' sv Hsv) as (s & Hs & Hcv & Hsn).
  exists s. rewrite last_sb_quiet by exact Hq. pose proof (last_sb_lt _ _ _ Hs) as Hlt.
  split; [exact Hs|]. split.
  - intros r j v Hcov Hv Hh. apply (Hcv r j v Hcov Hv). eapply held_prefix; [lia|exact Hh].
  - intros v Hv. rewrite app_length. eapply seen_in_mono; [|apply seen_in_ext; [|apply Hsn; exact Hv]]; lia.
Qed.

Lemma bal_cl_quiet g a tr t es :
  bal_cl g a tr -> (forall e, In e es -> quiet e = true) -> bal_cl g a (tr ++ Conc.tag t es).
Proof.
  intros Hb Hq p. rewrite !cnt_app.
  rewrite !(cnt_tag_none) by (intros e He; apply quiet_not_ev; [cbn; tauto|auto]). rewrite Hb. lia.
Qed.

Lemma safe_cl_quiet c tr t es :
  safe_cl c tr -> (forall e, In e es -> quiet e = true) -> safe_cl c (tr ++ Conc.tag t es).
Proof.
  intros Hs Hq. apply safe_cl_ext; [exact Hs|].
  intros k t' p s Hk. apply nth_error_tag in Hk. destruct Hk as (_ & Hk).
  exfalso. apply nth_error_In in Hk. eapply quiet_not_dispose; [apply Hq; exact Hk|reflexivity].
Qed.

Lemma kept_cl_quiet tr t es :
  kept_cl tr -> (forall e, In e es -> quiet e = true) -> kept_cl (tr ++ Conc.tag t es).
Proof.
  intros Hs Hq. apply kept_cl_ext; [exact Hs|].
  intros k t' r kept s Hk. apply nth_error_tag in Hk. destruct Hk as (_ & Hk).
  exfalso. apply nth_error_In in Hk. eapply quiet_not_scan_end; [apply Hq; exact Hk|reflexivity].
Qed.

Lemma idle_cl_ext a tr t es :
  idle_cl a tr ->
  (forall es' e, es = es' ++ [e] -> is_resp e = true -> idle (view a t)) ->
  idle_cl a (tr ++ Conc.tag t es).
Proof.
  intros Hi Hr t' Hrl. destruct (Nat.eq_dec t' t) as [->|Hne].
  - destruct es as [|e0 es0] using rev_ind.
    + rewrite tag_nil, app_nil_r in Hrl. auto.
    + apply resp_last_same in Hrl. eapply Hr; eauto.
  - apply Hi. apply (resp_last_other tr t' t es); [congruence|exact Hrl].
Qed.

Lemma inv_neutral c g a tr t es :
  Inv c g a tr ->
  (forall e, In e es -> neutral e = true) ->
  (forall es' e, es = es' ++ [e] -> is_resp e = true -> idle (view a t)) ->
  (forall e, In e es -> xplain e = true) ->
  (v_op (view a t) = None \/ forall e, In e es -> inert e = true) ->
  Inv c g a (tr ++ Conc.tag t es).
Proof.
  intros HI Hn Hr Hx Hop. destruct HI.
  assert (Hq : forall e, In e es -> quiet e = true) by (intros; apply neutral_quiet; auto).
  apply mkInv.
  - intros r j. rewrite slot_at_neutral by exact Hn. auto.
  - exact i_zero_unowned.
  - exact i_zero_unlisted.
  - exact i_zero_hi.
  - exact i_list_lt.
  - exact i_rec.
  - exact i_held.
  - exact i_excl.
  - exact i_self.
  - exact i_clr.
  - exact i_unl.
  - exact i_seen.
  - exact i_claim.
  - exact i_claim_nd.
  - exact i_eff.
  - now apply bal_cl_quiet.
  - now apply cov_cl_quiet.
  - now apply safe_cl_quiet.
  - now apply kept_cl_quiet.
  - now apply idle_cl_ext.
  - apply (retd_cl_ext g a tr _ i_retd).
  - apply (retd_scan_cl_ext g a tr t es i_retd_scan). intros e He. apply quiet_nosb. auto.
  - apply (pre_cl_nodispose tr t es i_pre). intros e p He. apply quiet_not_dispose. auto.
  - exact i_collsz.
  - apply (size_cl_transfer c g a tr g a _ i_size); [apply le_n|intros p; apply cnt_le_app|intros; apply le_n|auto].
  - apply (noovf_cl_transfer c g tr g _ i_noovf); [apply le_n|intros p; apply cnt_le_app|].
    intros p. rewrite cnt_app, cnt_overflow_quiet by exact Hq. lia.
  - now apply TrOK_xplain.
  - intros t'. rewrite att_at_xplain by exact Hx. apply i_att.
  - intros t' e0 Ho. destruct (Nat.eq_dec t' t) as [->|Hne].
    + destruct Hop as [Hop|Hop]; [congruence|]. rewrite open_op_same, op_fold_inert by exact Hop. now apply i_op.
    + rewrite open_op_other by exact Hne. now apply i_op.
  - intros t' r j x ok Hv. apply val_pat_ext; [eapply i_val; eauto|]. right. intros e He. apply xplain_pat_ok. auto.
  - intros k. rewrite src_at_xplain by exact Hx. apply i_src.
Qed.

(** the usual case: one access event *)
Lemma inv_acc c g a tr t k o b :
  Inv c g a tr -> k <> KBegin -> Inv c g a (tr ++ Conc.tag t [EvAcc k o b]).
Proof.
  intros HI Hk. apply inv_neutral; [exact HI| | | |].
  - intros e [<-|[]]. reflexivity.
  - intros es' e He Hresp. assert (e = EvAcc k o b) as ->.
    { destruct es' as [|x es'']; cbn in He; [inversion He; auto|]. inversion He. destruct es''; discriminate. }
    destruct k; try discriminate. congruence.
  - intros e [<-|[]]. reflexivity.
  - right. intros e [<-|[]]. unfold inert. cbn. destruct k; try reflexivity. congruence.
Qed.

Lemma not_resp_after_acc tr t k o b : k <> KBegin -> ~ resp_last (tr ++ Conc.tag t [EvAcc k o b]) t.
Proof.
  intros Hk H. apply (resp_last_same tr t [] (EvAcc k o b)) in H. destruct k; try discriminate. congruence.
Qed.

(** ** 2. helpers *)
Ltac vcase t' t :=
  destruct (Nat.eq_dec t' t) as [->|?];
  [rewrite ?view_upd_same in *|rewrite ?view_upd_other in * by assumption].

Lemma effc_upd_view g a t v r : effc g (upd_view a t v) r = effc g a r.
Proof. reflexivity. Qed.

Lemma pend_ext p g a g' a' :
  List.length (g_recs g') = List.length (g_recs g) ->
  (forall r, r < List.length (g_recs g) -> effc g' a' r = effc g a r) -> pend p g' a' = pend p g a.
Proof. intros Hl H. unfold pend. rewrite Hl. now apply pend_upto_ext. Qed.

Lemma pend_change p g a g' a' r0 :
  List.length (g_recs g') = List.length (g_recs g) -> r0 < List.length (g_recs g) ->
  (forall r, r <> r0 -> effc g' a' r = effc g a r) ->
  pend p g' a' = (pend p g a - countZ p (effc g a r0) + countZ p (effc g' a' r0))%Z.
Proof. intros Hl Hlt H. unfold pend. rewrite Hl. apply pend_upto_change; auto. Qed.

Lemma zn_inj a b : zn a = zn b -> a = b.
Proof. unfold zn. apply Nat2Z.inj. Qed.

Lemma owns_lt c g a tr t r : Inv c g a tr -> owns (view a t) r -> r < List.length (g_recs g).
Proof.
  intros HI [H|H].
  - apply (i_list_lt _ _ _ _ HI). apply (i_rec _ _ _ _ HI t r H).
  - apply (i_held _ _ _ _ HI t r H).
Qed.

Lemma owns_owner c g a tr t r : Inv c g a tr -> owns (view a t) r -> r_owner (get_rec g r) = true.
Proof.
  intros HI [H|H].
  - apply (i_rec _ _ _ _ HI t r H).
  - apply (i_held _ _ _ _ HI t r H).
Qed.

(** ** 3. the thread changes soft parts of its view only (scan progress, known records, cleared prefix) *)
Lemma inv_soft_gen c g a tr t v' :
  Inv c g a tr ->
  v_rec v' = v_rec (view a t) -> v_held v' = v_held (view a t) -> v_cl v' = v_cl (view a t) ->
  v_clr v' <= v_clr (view a t) ->
  (forall r, In r (v_seen v') -> In r (g_list g)) ->
  (forall sv, v_scan v' = Some sv ->
     exists s, last_sb tr t = Some s /\
       (forall r j v, covered (cH c) sv r j -> v <> 0%Z -> held tr s r j v -> In v (sc_coll sv)) /\
       (forall v, In v (sc_coll sv) -> seen_in tr s (List.length tr) v)) ->
  (forall sv r s, v_scan v' = Some sv -> v_rec v' = Some r -> last_sb tr t = Some s ->
     forall p, In p (effc g a r) -> retired_before tr s p) ->
  (forall sv, v_scan v' = Some sv -> collsz_ok c g sv) ->
  X_cl g (upd_view a t v') tr ->
  Inv c g (upd_view a t v') tr.
Proof.
  intros HI Hr Hh Hc Hk Hs Hv Hrs Hcz HX. destruct HI. xbullets HX.
  assert (Ho : forall t' r, owns (view (upd_view a t v') t') r <-> owns (view a t') r).
  { intros t' r. vcase t' t; [|tauto]. unfold owns. rewrite Hr, Hh. tauto. }
  apply mkInv.
  - exact i_slot.
  - exact i_zero_unowned.
  - exact i_zero_unlisted.
  - exact i_zero_hi.
  - exact i_list_lt.
  - intros t' r H. vcase t' t; [rewrite Hr in H|]; eauto.
  - intros t' r H. vcase t' t; [rewrite Hh in H|]; eauto.
  - intros t1 t2 r H1 H2. apply Ho in H1. apply Ho in H2. eauto.
  - intros t'. vcase t' t; [rewrite Hr, Hh|]; auto.
  - intros t' r j H1 H2. vcase t' t; [rewrite Hr in H1; apply (i_clr t r j H1); lia|eauto].
  - intros r H. destruct (i_unl r H) as [H1|(t' & H1)]; [now left|right]. exists t'.
    vcase t' t; [now rewrite Hh|exact H1].
  - intros t' r H. vcase t' t; eauto.
  - intros t' cl H. vcase t' t.
    + rewrite Hc in H. destruct (i_claim t cl H) as (H1 & H2). split.
      * unfold owns. rewrite Hr, Hh. exact H1.
      * destruct cl; exact H2.
    + destruct (i_claim t' cl H) as (H1 & H2). split; [exact H1|]. destruct cl; exact H2.
  - intros t'. vcase t' t; [rewrite Hc|]; auto.
  - intros r x H. destruct (i_eff r x H) as (t' & cl & H1 & H2). exists t', cl. split; [|exact H2].
    vcase t' t; [now rewrite Hc|exact H1].
  - intros p. rewrite i_bal. f_equal. symmetry. apply pend_ext; auto.
  - intros t' sv H. vcase t' t; eauto.
  - exact i_safe.
  - exact i_kept.
  - intros t' H. specialize (i_idle t' H). vcase t' t; [|exact i_idle].
    unfold idle in *. now rewrite Hh, Hc.
  - exact i_retd.
  - intros t' sv r s H1 H2 H3 p Hp. change (In p (effc g a r)) in Hp. vcase t' t; eauto.
  - exact i_pre.
  - intros t' sv H. vcase t' t; eauto.
  - apply (size_cl_transfer c g _ tr g _ tr i_size); [apply le_n|intros; lia|intros; apply le_n|].
    intros t' cl H. vcase t' t; [now rewrite Hc|exact H].
  - exact i_noovf.
  - exact HX1.
  - exact HX2.
  - exact HX3.
  - exact HX4.
  - exact HX5.
Qed.

Lemma inv_soft c g a tr t v' :
  Inv c g a tr ->
  v_rec v' = v_rec (view a t) -> v_held v' = v_held (view a t) -> v_cl v' = v_cl (view a t) ->
  v_op v' = v_op (view a t) -> v_val v' = v_val (view a t) ->
  v_clr v' <= v_clr (view a t) ->
  (forall r, In r (v_seen v') -> In r (g_list g)) ->
  (forall sv, v_scan v' = Some sv ->
     exists s, last_sb tr t = Some s /\
       (forall r j v, covered (cH c) sv r j -> v <> 0%Z -> held tr s r j v -> In v (sc_coll sv)) /\
       (forall v, In v (sc_coll sv) -> seen_in tr s (List.length tr) v)) ->
  (forall sv r s, v_scan v' = Some sv -> v_rec v' = Some r -> last_sb tr t = Some s ->
     forall p, In p (effc g a r) -> retired_before tr s p) ->
  (forall sv, v_scan v' = Some sv -> collsz_ok c g sv) ->
  Inv c g (upd_view a t v') tr.
Proof.
  intros HI Hr Hh Hc Ho Hva Hk Hs Hv Hrs Hcz. apply inv_soft_gen; auto.
  apply (X_transfer0 g a tr g _ (X_of_inv _ _ _ _ HI)); [|reflexivity].
  intros t'. vcase t' t; auto.
Qed.

Definition with_x (v : lview) (o : option ev) (val : option (nat * nat * Z * option nat)) : lview :=
  mkV (v_rec v) (v_held v) (v_clr v) (v_scan v) (v_cl v) (v_seen v) o val.

(** the thread changes only its record of the current operation / last slot store *)
Lemma inv_set_x c g a tr t o val :
  Inv c g a tr -> X_cl g (upd_view a t (with_x (view a t) o val)) tr ->
  Inv c g (upd_view a t (with_x (view a t) o val)) tr.
Proof.
  intros HI HX. apply inv_soft_gen; try reflexivity; [exact HI| | | | |exact HX].
  - intros r H. cbn in H. apply (i_seen _ _ _ _ HI t r H).
  - intros sv H. cbn in H. apply (i_cov _ _ _ _ HI t sv H).
  - intros sv r s H1 H2 H3 p Hp. cbn in H1, H2. eapply (i_retd_scan _ _ _ _ HI); eauto.
  - intros sv H. cbn in H. eapply (i_collsz _ _ _ _ HI); eauto.
Qed.

(** ** 4. a state change in fields the invariant does not mention (free_, client sources) *)
Lemma inv_irrel c g g' a tr :
  Inv c g a tr ->
  g_list g' = g_list g -> List.length (g_recs g') = List.length (g_recs g) ->
  (forall r, r_owner (get_rec g' r) = r_owner (get_rec g r) /\
             r_slots (get_rec g' r) = r_slots (get_rec g r) /\
             r_ret (get_rec g' r) = r_ret (get_rec g r)) ->
  (forall k, g_srcs g' k = g_srcs g k) ->
  Inv c g' a tr.
Proof.
  intros HI Hl Hn Hf Hsrc. assert (HX : X_cl g' a tr) by (apply (X_transfer0 g a tr g' a (X_of_inv _ _ _ _ HI)); auto).
  destruct HI. xbullets HX.
  assert (Hs : forall r j, gslot g' r j = gslot g r j).
  { intros r j. unfold gslot. destruct (Hf r) as (_ & -> & _). reflexivity. }
  assert (Ho : forall r, r_owner (get_rec g' r) = r_owner (get_rec g r)) by (intros r; apply Hf).
  assert (He : forall r, effc g' a r = effc g a r).
  { intros r. unfold effc. destruct (Hf r) as (_ & _ & ->). reflexivity. }
  apply mkInv.
  - intros r j. rewrite Hs. eauto.
  - intros r j H. rewrite Hs. rewrite Ho in H. eauto.
  - intros r j H. rewrite Hs. rewrite Hl in H. eauto.
  - intros r j H. rewrite Hs. eauto.
  - intros r H. rewrite Hl in H. rewrite Hn. eauto.
  - intros t r H. rewrite Ho, Hl. eauto.
  - intros t r H. rewrite Hn, Ho. destruct (i_held t r H) as (H1 & H2 & H3). repeat split; eauto.
    intros j. rewrite Hs. eauto.
  - exact i_excl.
  - exact i_self.
  - intros t r j H1 H2. rewrite Hs. eauto.
  - intros r H. rewrite Hn in H. rewrite Hl. eauto.
  - intros t r H. rewrite Hl. eauto.
  - intros t cl H. destruct (i_claim t cl H) as (H1 & H2). split; [exact H1|].
    destruct cl; cbn in *; destruct (Hf r) as (_ & _ & ->); exact H2.
  - exact i_claim_nd.
  - exact i_eff.
  - intros p. rewrite i_bal. f_equal. symmetry. apply pend_ext; eauto.
  - exact i_cov.
  - exact i_safe.
  - exact i_kept.
  - exact i_idle.
  - intros r p H. rewrite He in H. eauto.
  - intros t sv r s H1 H2 H3 p Hp. rewrite He in Hp. eauto.
  - exact i_pre.
  - intros t sv H. eapply collsz_ok_mono; [eauto|]. rewrite Hl. lia.
  - apply (size_cl_transfer c g a tr g' a tr i_size); [rewrite Hl; lia|intros; lia| |auto].
    intros r. destruct (Hf r) as (_ & _ & ->). lia.
  - apply (noovf_cl_transfer c g tr g' tr i_noovf); [rewrite Hl; lia|intros; lia|reflexivity].
  - exact HX1.
  - exact HX2.
  - exact HX3.
  - exact HX4.
  - exact HX5.
Qed.

(** ** 4b. the general quiet step: neutral events, a state change in fields the old clauses do not mention
       (client sources, free_), and a change of the thread's record of its operation / last store;
       the clauses about attachment, operations and sources are supplied by the caller *)
Lemma inv_quiet_step c g g' a tr t es o val :
  Inv c g a tr ->
  g_list g' = g_list g -> List.length (g_recs g') = List.length (g_recs g) ->
  (forall r, r_owner (get_rec g' r) = r_owner (get_rec g r) /\
             r_slots (get_rec g' r) = r_slots (get_rec g r) /\
             r_ret (get_rec g' r) = r_ret (get_rec g r)) ->
  (forall e, In e es -> neutral e = true) ->
  (forall es' e, es = es' ++ [e] -> is_resp e = true -> idle (view a t)) ->
  X_cl g' (upd_view a t (with_x (view a t) o val)) (tr ++ Conc.tag t es) ->
  Inv c g' (upd_view a t (with_x (view a t) o val)) (tr ++ Conc.tag t es).
Proof.
  intros HI Hl Hlen Hf Hn Hr HX.
  set (a' := upd_view a t (with_x (view a t) o val)) in *.
  assert (Hq : forall e, In e es -> quiet e = true) by (intros; apply neutral_quiet; auto).
  assert (Hs : forall r j, gslot g' r j = gslot g r j).
  { intros r j. unfold gslot. destruct (Hf r) as (_ & -> & _). reflexivity. }
  assert (Ho : forall r, r_owner (get_rec g' r) = r_owner (get_rec g r)) by (intros r; apply Hf).
  assert (Hret : forall r, r_ret (get_rec g' r) = r_ret (get_rec g r)) by (intros r; apply Hf).
  assert (He : forall r, effc g' a' r = effc g a r).
  { intros r. unfold effc, a'. cbn. now rewrite Hret. }
  assert (Hvr : forall t', v_rec (view a' t') = v_rec (view a t')) by (intros t'; unfold a'; vcase t' t; reflexivity).
  assert (Hvh : forall t', v_held (view a' t') = v_held (view a t')) by (intros t'; unfold a'; vcase t' t; reflexivity).
  assert (Hvk : forall t', v_clr (view a' t') = v_clr (view a t')) by (intros t'; unfold a'; vcase t' t; reflexivity).
  assert (Hvc : forall t', v_cl (view a' t') = v_cl (view a t')) by (intros t'; unfold a'; vcase t' t; reflexivity).
  assert (Hvs : forall t', v_scan (view a' t') = v_scan (view a t')) by (intros t'; unfold a'; vcase t' t; reflexivity).
  assert (Hvn : forall t', v_seen (view a' t') = v_seen (view a t')) by (intros t'; unfold a'; vcase t' t; reflexivity).
  assert (Hoo : forall t' r, owns (view a' t') r <-> owns (view a t') r).
  { intros t' r. unfold owns. rewrite Hvr, Hvh. tauto. }
  destruct HI. xbullets HX.
  apply mkInv.
  - intros r j. rewrite slot_at_neutral by exact Hn. rewrite Hs. auto.
  - intros r j H. rewrite Hs. rewrite Ho in H. auto.
  - intros r j H. rewrite Hs. rewrite Hl in H. auto.
  - intros r j H. rewrite Hs. auto.
  - intros r H. rewrite Hl in H. rewrite Hlen. auto.
  - intros t' r H. rewrite Hvr in H. rewrite Ho, Hl. eauto.
  - intros t' r H. rewrite Hvh in H. rewrite Hlen, Ho. destruct (i_held t' r H) as (H1 & H2 & H3).
    repeat split; auto. intros j. rewrite Hs. auto.
  - intros t1 t2 r H1 H2. apply Hoo in H1. apply Hoo in H2. eauto.
  - intros t'. rewrite Hvr, Hvh. auto.
  - intros t' r j H1 H2. rewrite Hs. rewrite Hvr in H1. rewrite Hvk in H2. eauto.
  - intros r H. rewrite Hlen in H. rewrite Hl. destruct (i_unl r H) as [H1|(t' & H1)]; [now left|right].
    exists t'. now rewrite Hvh.
  - intros t' r H. rewrite Hvn in H. rewrite Hl. eauto.
  - intros t' cl H. rewrite Hvc in H. destruct (i_claim t' cl H) as (H1 & H2). split; [now apply Hoo|].
    destruct cl; cbn in *; rewrite Hret; exact H2.
  - intros t'. rewrite Hvc. auto.
  - intros r x H. destruct (i_eff r x H) as (t' & cl & H1 & H2). exists t', cl. now rewrite Hvc.
  - assert (Hb : bal_cl g a (tr ++ Conc.tag t es)) by (apply bal_cl_quiet; auto).
    intros p. rewrite Hb. f_equal. symmetry. apply pend_ext; [exact Hlen|]. intros r _. apply He.
  - assert (Hc : cov_cl c a (tr ++ Conc.tag t es)) by (apply cov_cl_quiet; auto).
    intros t' sv H. rewrite Hvs in H. apply (Hc t' sv H).
  - now apply safe_cl_quiet.
  - now apply kept_cl_quiet.
  - assert (Hi : idle_cl a (tr ++ Conc.tag t es)) by (apply idle_cl_ext; auto).
    intros t' H. specialize (Hi t' H). unfold idle in *. now rewrite Hvh, Hvc.
  - intros r p H. rewrite He in H. apply (retd_cl_ext g a tr _ i_retd r p H).
  - intros t' sv r s H1 H2 H3 p Hp. rewrite Hvs in H1. rewrite Hvr in H2. rewrite He in Hp.
    apply (retd_scan_cl_ext g a tr t es i_retd_scan (fun e He0 => quiet_nosb e (Hq e He0)) t' sv r s H1 H2 H3 p Hp).
  - apply (pre_cl_nodispose tr t es i_pre). intros e p He0. apply quiet_not_dispose. auto.
  - intros t' sv H. rewrite Hvs in H. eapply collsz_ok_mono; [eauto|]. rewrite Hl. apply le_n.
  - apply (size_cl_transfer c g a tr g' a' _ i_size); [rewrite Hl; apply le_n|intros p; apply cnt_le_app|intros r; rewrite Hret; apply le_n|].
    intros t' cl H. now rewrite Hvc.
  - apply (noovf_cl_transfer c g tr g' _ i_noovf); [rewrite Hl; apply le_n|intros p; apply cnt_le_app|].
    intros p. rewrite cnt_app, cnt_overflow_quiet by exact Hq. lia.
  - exact HX1.
  - exact HX2.
  - exact HX3.
  - exact HX4.
  - exact HX5.
Qed.

Lemma inv_st_free c g a tr r b : Inv c g a tr -> Inv c (upd_rec g r (set_free b)) a tr.
Proof.
  intros HI. eapply inv_irrel; [exact HI|reflexivity|apply upd_rec_length| |reflexivity].
  intros r'. destruct (Nat.eq_dec r' r) as [->|Hne].
  - destruct (Nat.lt_ge_cases r (List.length (g_recs g))) as [Hlt|Hge].
    + rewrite get_upd_same by exact Hlt. auto.
    + rewrite upd_rec_ge by exact Hge. auto.
  - rewrite get_upd_other by exact Hne. auto.
Qed.


(** ** 5. store into a hazard slot of the attached record *)
Definition st_slot_evs (r j : nat) (v : Z) : list ev := [EvAcc KSt (obj_slot r j) true; ev_slot r j v].

Lemma st_slot_quiet r j v e : In e (st_slot_evs r j v) -> quiet e = true.
Proof. intros [<-|[<-|[]]]; reflexivity. Qed.

Lemma slot_at_st tr t r j v r' j' :
  slot_at (tr ++ Conc.tag t (st_slot_evs r j v)) r' j' =
  if (Nat.eqb r' r && Nat.eqb j' j)%bool then v else slot_at tr r' j'.
Proof.
  rewrite slot_at_app. cbn.
  destruct (Nat.eqb_spec r' r) as [->|Hr]; destruct (Nat.eqb_spec j' j) as [->|Hj]; cbn.
  - now rewrite !Z.eqb_refl.
  - rewrite Z.eqb_refl. destruct (Z.eqb_spec (zn j) (zn j')) as [E|E]; [apply zn_inj in E; congruence|reflexivity].
  - destruct (Z.eqb_spec (zn r) (zn r')) as [E|E]; [apply zn_inj in E; congruence|reflexivity].
  - destruct (Z.eqb_spec (zn r) (zn r')) as [E|E]; [apply zn_inj in E; congruence|reflexivity].
Qed.

Lemma gslot_st g r j v r' j' : r < List.length (g_recs g) ->
  gslot (upd_rec g r (set_slot j v)) r' j' = if (Nat.eqb r' r && Nat.eqb j' j)%bool then v else gslot g r' j'.
Proof.
  intros Hlt. unfold gslot. destruct (Nat.eqb_spec r' r) as [->|Hr].
  - rewrite get_upd_same by exact Hlt. cbn. reflexivity.
  - rewrite get_upd_other by exact Hr. reflexivity.
Qed.

Definition slot_view (v : lview) (k : nat) (r j : nat) (x : Z) : lview :=
  mkV (v_rec v) (v_held v) k (v_scan v) (v_cl v) (v_seen v) (v_op v) (Some (r, j, x, None)).
Definition with_clr (v : lview) (k : nat) : lview := mkV (v_rec v) (v_held v) k (v_scan v) (v_cl v) (v_seen v) (v_op v) (v_val v).

Lemma excl_rec_held c g a tr t t' r :
  Inv c g a tr -> v_rec (view a t) = Some r -> In r (v_held (view a t')) -> False.
Proof.
  intros HI H1 H2. assert (t = t') by (eapply (i_excl _ _ _ _ HI); [left; exact H1|right; exact H2]). subst t'.
  destruct (i_self _ _ _ _ HI t) as (_ & H). eapply H; eauto.
Qed.

Lemma inv_st_slot c g a tr t r j v k' :
  Inv c g a tr -> v_rec (view a t) = Some r -> j < cH c ->
  (forall i, i < k' -> (i < v_clr (view a t) /\ i <> j) \/ (i = j /\ v = 0%Z)) ->
  forall e0, v_op (view a t) = Some e0 -> rel_b j e0 = true ->
  Inv c (upd_rec g r (set_slot j v)) (upd_view a t (slot_view (view a t) k' r j v))
      (tr ++ Conc.tag t (st_slot_evs r j v)).
Proof.
  intros HI Hrec Hj Hk e0 Hop Hrel.
  assert (Hlt : r < List.length (g_recs g)) by (eapply owns_lt; [exact HI|left; exact Hrec]).
  assert (Hex : forall t', In r (v_held (view a t')) -> False) by (intros t'; eapply excl_rec_held; eauto).
  assert (HX : X_cl (upd_rec g r (set_slot j v)) (upd_view a t (slot_view (view a t) k' r j v)) (tr ++ Conc.tag t (st_slot_evs r j v))).
  { destruct (X_of_inv _ _ _ _ HI) as (X1 & X2 & X3 & X4 & X5).
    assert (Eatt : forall t', att_at (tr ++ Conc.tag t (st_slot_evs r j v)) t' = att_at tr t').
    { intros t'. rewrite att_at_app. cbn. unfold att_step. cbn. destruct (Nat.eqb t t'); reflexivity. }
    assert (Eop : forall t', open_op (tr ++ Conc.tag t (st_slot_evs r j v)) t' = open_op tr t').
    { intros t'. rewrite open_op_app. cbn. unfold op_step. cbn. destruct (Nat.eqb t t'); reflexivity. }
    split; [|split; [|split; [|split]]].
    - apply TrOK_ext; [exact X1|]. intros k u e Hk0. apply nth_error_tag in Hk0. destruct Hk0 as (-> & Hk0).
      destruct k as [|[|k]]; cbn in Hk0; try (destruct k; discriminate).
      + inversion Hk0; subst e. apply xplain_ev_ok. reflexivity.
      + inversion Hk0; subst e. cbn [firstn Conc.tag map].
        assert (Ea : att_at (tr ++ [(t, EvAcc KSt (obj_slot r j) true)]) t = Some r).
        { rewrite att_at_snoc. unfold att_step. cbn. rewrite Nat.eqb_refl. cbn. rewrite X2. exact Hrec. }
        assert (Eo : open_op (tr ++ [(t, EvAcc KSt (obj_slot r j) true)]) t = Some e0).
        { rewrite open_op_snoc. unfold op_step. cbn. rewrite Nat.eqb_refl. cbn. now apply X3. }
        unfold ev_ok, ev_slot, ev_det, ev_att. repeat split; intros; try discriminate.
        * match goal with E : EvCli _ _ = EvCli _ _ |- _ => inversion E as [[Er Ej Ex]] end.
          apply zn_inj in Er. subst. exact Ea.
        * match goal with E : EvCli _ _ = EvCli _ _ |- _ => inversion E as [[Er Ej Ex]] end.
          apply zn_inj in Ej. subst. exists e0. split; [exact Eo|exact Hrel].
    - intros t'. rewrite Eatt, X2. destruct (Nat.eq_dec t' t) as [->|?]; [rewrite view_upd_same|rewrite view_upd_other by assumption]; reflexivity.
    - intros t' e1 Ho1. rewrite Eop. apply X3.
      destruct (Nat.eq_dec t' t) as [->|?]; [rewrite view_upd_same in Ho1|rewrite view_upd_other in Ho1 by assumption]; exact Ho1.
    - intros t' r1 j1 x1 ok1 Hv1. destruct (Nat.eq_dec t' t) as [->|Hne].
      + rewrite view_upd_same in Hv1. cbn in Hv1. inversion Hv1; subst r1 j1 x1 ok1.
        exists (S (List.length tr)). split.
        * rewrite nth_error_app2 by lia. replace (S (List.length tr) - List.length tr) with 1 by lia. reflexivity.
        * split; [|exact I]. intros i e Hi Hn. exfalso.
          assert (i < List.length (tr ++ Conc.tag t (st_slot_evs r j v))) by (apply nth_error_Some; congruence).
          rewrite app_length in H. cbn in H. lia.
      + rewrite view_upd_other in Hv1 by exact Hne. apply val_pat_ext; [eapply X4; eauto|now left].
    - intros k. rewrite src_at_app. cbn. apply X5. }
  destruct HI. xbullets HX.
  set (g' := upd_rec g r (set_slot j v)). set (a' := upd_view a t (slot_view (view a t) k' r j v)).
  assert (Hown : forall r', r_owner (get_rec g' r') = r_owner (get_rec g r')).
  { intros r'. unfold g'. destruct (Nat.eq_dec r' r) as [->|Hne];
      [rewrite get_upd_same by exact Hlt|rewrite get_upd_other by exact Hne]; reflexivity. }
  assert (Hret : forall r', r_ret (get_rec g' r') = r_ret (get_rec g r')).
  { intros r'. unfold g'. destruct (Nat.eq_dec r' r) as [->|Hne];
      [rewrite get_upd_same by exact Hlt|rewrite get_upd_other by exact Hne]; reflexivity. }
  assert (Hlen : List.length (g_recs g') = List.length (g_recs g)) by apply upd_rec_length.
  assert (Hq := st_slot_quiet r j v).
  assert (Hvr : forall t', v_rec (view a' t') = v_rec (view a t')) by (intros t'; unfold a'; vcase t' t; reflexivity).
  assert (Hvh : forall t', v_held (view a' t') = v_held (view a t')) by (intros t'; unfold a'; vcase t' t; reflexivity).
  assert (Hvc : forall t', v_cl (view a' t') = v_cl (view a t')) by (intros t'; unfold a'; vcase t' t; reflexivity).
  assert (Hvs : forall t', v_scan (view a' t') = v_scan (view a t')) by (intros t'; unfold a'; vcase t' t; reflexivity).
  assert (Hvn : forall t', v_seen (view a' t') = v_seen (view a t')) by (intros t'; unfold a'; vcase t' t; reflexivity).
  assert (Ho : forall t' r', owns (view a' t') r' <-> owns (view a t') r').
  { intros t' r'. unfold owns. rewrite Hvr, Hvh. tauto. }
  apply mkInv.
  - intros r' j'. rewrite slot_at_st. unfold g'. rewrite gslot_st by exact Hlt. rewrite i_slot. reflexivity.
  - intros r' j' H. rewrite Hown in H. unfold g'. rewrite gslot_st by exact Hlt.
    destruct (Nat.eqb_spec r' r) as [->|Hr]; cbn; [|auto].
    destruct (i_rec t r Hrec) as (Ht & _). congruence.
  - intros r' j' H. unfold g'. rewrite gslot_st by exact Hlt.
    destruct (Nat.eqb_spec r' r) as [->|Hr]; cbn; [|auto].
    destruct (i_rec t r Hrec) as (_ & Ht). exfalso. apply H. exact Ht.
  - intros r' j' H. unfold g'. rewrite gslot_st by exact Hlt.
    destruct (Nat.eqb_spec j' j) as [->|Hjj]; [lia|]. rewrite andb_false_r. auto.
  - intros r' H. rewrite Hlen. auto.
  - intros t' r' H. rewrite Hvr in H. rewrite Hown. apply (i_rec t' r' H).
  - intros t' r' H. rewrite Hvh in H. rewrite Hlen, Hown. destruct (i_held t' r' H) as (H1 & H2 & H3).
    repeat split; auto. intros j'. unfold g'. rewrite gslot_st by exact Hlt.
    destruct (Nat.eqb_spec r' r) as [->|Hr]; cbn; [|auto]. exfalso. eapply Hex; eauto.
  - intros t1 t2 r' H1 H2. apply Ho in H1. apply Ho in H2. eauto.
  - intros t'. rewrite Hvr, Hvh. auto.
  - intros t' r' i H1 H2. rewrite Hvr in H1. unfold g'. rewrite gslot_st by exact Hlt.
    unfold a' in H2. vcase t' t.
    + cbn in H2. assert (r' = r) by congruence. subst r'. rewrite Nat.eqb_refl. cbn.
      destruct (Hk i H2) as [(Ha & Hb)|(Ha & Hb)].
      * destruct (Nat.eqb_spec i j); [congruence|]. eauto.
      * subst i. now rewrite Nat.eqb_refl.
    + destruct (Nat.eqb_spec r' r) as [->|Hr]; cbn; [|eauto].
      exfalso. assert (t' = t) by (eapply i_excl; left; eauto). congruence.
  - intros r' H. rewrite Hlen in H. destruct (i_unl r' H) as [H1|(t' & H1)]; [now left|right].
    exists t'. now rewrite Hvh.
  - intros t' r' H. rewrite Hvn in H. eauto.
  - intros t' cl H. rewrite Hvc in H. destruct (i_claim t' cl H) as (H1 & H2). split; [now apply Ho|].
    destruct cl; cbn in *; rewrite Hret; exact H2.
  - intros t'. rewrite Hvc. auto.
  - intros r' x H. destruct (i_eff r' x H) as (t' & cl & H1 & H2). exists t', cl. now rewrite Hvc.
  - assert (Hb : bal_cl g a (tr ++ Conc.tag t (st_slot_evs r j v))) by (apply bal_cl_quiet; auto).
    intros p. rewrite Hb. f_equal. symmetry. apply pend_ext; [exact Hlen|].
    intros r' _. unfold effc. rewrite Hret. reflexivity.
  - assert (Hc : cov_cl c a (tr ++ Conc.tag t (st_slot_evs r j v))) by (apply cov_cl_quiet; auto).
    intros t' sv H. rewrite Hvs in H. apply (Hc t' sv H).
  - apply safe_cl_quiet; auto.
  - apply kept_cl_quiet; auto.
  - assert (Hi : idle_cl a (tr ++ Conc.tag t (st_slot_evs r j v))).
    { apply idle_cl_ext; [exact i_idle|]. intros es' e He Hresp. exfalso.
      assert (e = ev_slot r j v).
      { unfold st_slot_evs in He. destruct es' as [|x [|y l]]; cbn in He; inversion He; auto. destruct l; discriminate. }
      subst e. discriminate. }
    intros t' H. specialize (Hi t' H). unfold idle in *. now rewrite Hvh, Hvc.
  - assert (Hc : retd_cl g a (tr ++ Conc.tag t (st_slot_evs r j v))) by (apply retd_cl_ext; exact i_retd).
    intros r' p H. apply (Hc r' p). unfold effc in *. cbn in *. now rewrite <- Hret.
  - assert (Hc : retd_scan_cl g a (tr ++ Conc.tag t (st_slot_evs r j v))).
    { apply retd_scan_cl_ext; [exact i_retd_scan|]. intros e He. apply quiet_nosb. auto. }
    intros t' sv r' s H1 H2 H3 p Hp. rewrite Hvs in H1. rewrite Hvr in H2.
    apply (Hc t' sv r' s H1 H2 H3 p). unfold effc in *. cbn in *. now rewrite <- Hret.
  - apply pre_cl_nodispose; [exact i_pre|]. intros e p He. apply quiet_not_dispose. auto.
  - intros t' sv H. rewrite Hvs in H. eapply collsz_ok_mono; [eauto|]. apply le_n.
  - apply (size_cl_transfer c g a tr g' a' _ i_size); [apply le_n|intros p; apply cnt_le_app|intros r'; rewrite Hret; lia|].
    intros t' cl H. now rewrite Hvc.
  - apply (noovf_cl_transfer c g tr g' _ i_noovf); [apply le_n|intros p; apply cnt_le_app|].
    intros p. rewrite cnt_app, cnt_overflow_quiet by exact Hq. lia.
  - exact HX1.
  - exact HX2.
  - exact HX3.
  - exact HX4.
  - exact HX5.
Qed.

(** ** 6. owner_rec_ changes *)
Lemma set_owner_facts g r b : r < List.length (g_recs g) ->
  let g' := upd_rec g r (set_owner b) in
  (forall r' j, gslot g' r' j = gslot g r' j) /\
  (forall r', r_ret (get_rec g' r') = r_ret (get_rec g r')) /\
  (forall r', r' <> r -> r_owner (get_rec g' r') = r_owner (get_rec g r')) /\
  r_owner (get_rec g' r) = b /\
  List.length (g_recs g') = List.length (g_recs g) /\ g_list g' = g_list g.
Proof.
  intros Hlt g'. unfold g'. repeat split.
  - intros r' j. unfold gslot. destruct (Nat.eq_dec r' r) as [->|Hne];
      [rewrite get_upd_same by exact Hlt|rewrite get_upd_other by exact Hne]; reflexivity.
  - intros r'. destruct (Nat.eq_dec r' r) as [->|Hne];
      [rewrite get_upd_same by exact Hlt|rewrite get_upd_other by exact Hne]; reflexivity.
  - intros r' Hne. now rewrite get_upd_other by exact Hne.
  - now rewrite get_upd_same by exact Hlt.
  - apply upd_rec_length.
Qed.

Definition with_rec (v : lview) (o : option nat) : lview := mkV o (v_held v) 0 (v_scan v) (v_cl v) (v_seen v) (v_op v) (v_val v).
Definition with_held (v : lview) (h : list nat) : lview := mkV (v_rec v) h (v_clr v) (v_scan v) (v_cl v) (v_seen v) (v_op v) (v_val v).



Lemma NoDup_remove_eq (l : list nat) x : NoDup l -> NoDup (remove Nat.eq_dec x l).
Proof.
  induction 1 as [|y l Hn Hd IH]; cbn; [constructor|].
  destruct (Nat.eq_dec x y); [exact IH|]. constructor; [|exact IH].
  intros Hin. apply in_remove in Hin. tauto.
Qed.
Lemma in_remove_iff (l : list nat) x y : In y (remove Nat.eq_dec x l) <-> In y l /\ y <> x.
Proof. split; [apply in_remove|]. intros (H1 & H2). now apply in_in_remove. Qed.

(** help_scan claims an abandoned record: CAS owner_rec_ null -> rec succeeded *)
Lemma inv_acquire_held c g a tr t r :
  Inv c g a tr -> ~ resp_last tr t -> In r (g_list g) -> r_owner (get_rec g r) = false ->
  Inv c (upd_rec g r (set_owner true)) (upd_view a t (with_held (view a t) (r :: v_held (view a t)))) tr.
Proof.
  intros HI Hnr Hin Hfree.
  assert (Hlt : r < List.length (g_recs g)) by (apply (i_list_lt _ _ _ _ HI); exact Hin).
  assert (Hnobody : forall t', ~ owns (view a t') r).
  { intros t' Ho. pose proof (owns_owner _ _ _ _ _ _ HI Ho). congruence. }
  destruct (set_owner_facts g r true Hlt) as (Hs & Hret & Hoo & Hor & Hlen & Hlist).
  assert (HX : X_cl (upd_rec g r (set_owner true)) (upd_view a t (with_held (view a t) (r :: v_held (view a t)))) tr)
    by (apply (X_transfer0 g a tr _ _ (X_of_inv _ _ _ _ HI)); [intros t'; destruct (Nat.eq_dec t' t) as [->|?]; [rewrite view_upd_same|rewrite view_upd_other by assumption]; cbn; auto|reflexivity]).
  destruct HI. xbullets HX.
  set (g' := upd_rec g r (set_owner true)) in *.
  set (a' := upd_view a t (with_held (view a t) (r :: v_held (view a t)))).
  assert (Hvr : forall t', v_rec (view a' t') = v_rec (view a t')) by (intros t'; unfold a'; vcase t' t; reflexivity).
  assert (Hvk : forall t', v_clr (view a' t') = v_clr (view a t')) by (intros t'; unfold a'; vcase t' t; reflexivity).
  assert (Hvc : forall t', v_cl (view a' t') = v_cl (view a t')) by (intros t'; unfold a'; vcase t' t; reflexivity).
  assert (Hvs : forall t', v_scan (view a' t') = v_scan (view a t')) by (intros t'; unfold a'; vcase t' t; reflexivity).
  assert (Hvn : forall t', v_seen (view a' t') = v_seen (view a t')) by (intros t'; unfold a'; vcase t' t; reflexivity).
  assert (Hh : forall t' r', In r' (v_held (view a' t')) -> In r' (v_held (view a t')) \/ (t' = t /\ r' = r)).
  { intros t' r' H. unfold a' in H. vcase t' t; [|now left]. cbn in H. destruct H as [<-|H]; auto. }
  assert (Hh2 : forall t' r', In r' (v_held (view a t')) -> In r' (v_held (view a' t'))).
  { intros t' r' H. unfold a'. vcase t' t; [cbn; now right|exact H]. }
  assert (Ho : forall t' r', owns (view a' t') r' -> owns (view a t') r' \/ (t' = t /\ r' = r)).
  { intros t' r' [H|H]; [rewrite Hvr in H; left; left; exact H|].
    apply Hh in H. destruct H as [H|H]; [left; right; exact H|now right]. }
  assert (Ho2 : forall t' r', owns (view a t') r' -> owns (view a' t') r').
  { intros t' r' [H|H]; [left; now rewrite Hvr|right; now apply Hh2]. }
  apply mkInv.
  - intros r' j. rewrite Hs. auto.
  - intros r' j H. rewrite Hs. destruct (Nat.eq_dec r' r) as [->|Hne]; [congruence|]. rewrite Hoo in H by exact Hne. auto.
  - intros r' j H. rewrite Hs. rewrite Hlist in H. auto.
  - intros r' j H. rewrite Hs. auto.
  - intros r' H. rewrite Hlist in H. rewrite Hlen. auto.
  - intros t' r' H. rewrite Hvr in H. rewrite Hlist. destruct (i_rec t' r' H) as (H1 & H2). split; [|exact H2].
    destruct (Nat.eq_dec r' r) as [->|Hne]; [exact Hor|]. now rewrite Hoo.
  - intros t' r' H. rewrite Hlen. apply Hh in H. destruct H as [H|(-> & ->)].
    + destruct (i_held t' r' H) as (H1 & H2 & H3). repeat split; auto.
      * destruct (Nat.eq_dec r' r) as [->|Hne]; [exact Hor|]. now rewrite Hoo.
      * intros j. rewrite Hs. auto.
    + repeat split; auto. intros j. rewrite Hs. apply i_zero_unowned. exact Hfree.
  - intros t1 t2 r' H1 H2. apply Ho in H1. apply Ho in H2.
    destruct H1 as [H1|(E1 & E1')]; destruct H2 as [H2|(E2 & E2')]; subst; eauto.
    + exfalso. eapply Hnobody; eauto.
    + exfalso. eapply Hnobody; eauto.
  - intros t'. rewrite Hvr. destruct (i_self t') as (H1 & H2). unfold a'. vcase t' t; [|auto]. cbn. split.
    + constructor; [|exact H1]. intros Hin'. eapply Hnobody. right. exact Hin'.
    + intros r' H [<-|Hin']; [eapply Hnobody; left; exact H|]. eapply H2; eauto.
  - intros t' r' j H1 H2. rewrite Hs. rewrite Hvr in H1. rewrite Hvk in H2. eauto.
  - intros r' H. rewrite Hlen in H. rewrite Hlist. destruct (i_unl r' H) as [H1|(t' & H1)]; [now left|right].
    exists t'. now apply Hh2.
  - intros t' r' H. rewrite Hvn in H. rewrite Hlist. eauto.
  - intros t' cl H. rewrite Hvc in H. destruct (i_claim t' cl H) as (H1 & H2). split; [now apply Ho2|].
    destruct cl; cbn in *; rewrite Hret; exact H2.
  - intros t'. rewrite Hvc. auto.
  - intros r' x H. destruct (i_eff r' x H) as (t' & cl & H1 & H2). exists t', cl. now rewrite Hvc.
  - intros p. rewrite i_bal. f_equal. symmetry. apply pend_ext; [exact Hlen|].
    intros r' _. unfold effc. rewrite Hret. reflexivity.
  - intros t' sv H. rewrite Hvs in H. eauto.
  - exact i_safe.
  - exact i_kept.
  - intros t' H. unfold a'. vcase t' t; [contradiction|auto].
  - intros r' p H. apply (i_retd r' p). unfold effc in *. unfold a' in H. cbn [a_eff upd_view] in *. rewrite Hret in H. exact H.
  - intros t' sv r' s H1 H2 H3 p Hp. rewrite Hvs in H1. rewrite Hvr in H2.
    apply (i_retd_scan t' sv r' s H1 H2 H3 p). unfold effc in *. unfold a' in Hp. cbn [a_eff upd_view] in *. rewrite Hret in Hp. exact Hp.
  - exact i_pre.
  - intros t' sv H. rewrite Hvs in H. eapply collsz_ok_mono; [eauto|]. apply le_n.
  - apply (size_cl_transfer c g a tr g' a' tr i_size); [apply le_n|intros; lia|intros r'; rewrite Hret; lia|].
    intros t' cl H. now rewrite Hvc.
  - apply (noovf_cl_transfer c g tr g' tr i_noovf); [apply le_n|intros; lia|reflexivity].
  - exact HX1.
  - exact HX2.
  - exact HX3.
  - exact HX4.
  - exact HX5.
Qed.



(** help_scan gives a claimed record back: owner_rec_.store( nullptr ) *)
Lemma inv_release_held c g a tr t h :
  Inv c g a tr -> In h (v_held (view a t)) -> In h (g_list g) ->
  (forall cl, In cl (v_cl (view a t)) -> crec cl <> h) ->
  Inv c (upd_rec g h (set_owner false))
        (upd_view a t (with_held (view a t) (remove Nat.eq_dec h (v_held (view a t))))) tr.
Proof.
  intros HI Hheld Hin Hcl.
  assert (Hlt : h < List.length (g_recs g)) by (eapply owns_lt; [exact HI|right; exact Hheld]).
  assert (Hex : forall t', v_rec (view a t') = Some h -> False) by (intros t' H; eapply excl_rec_held; eauto).
  destruct (set_owner_facts g h false Hlt) as (Hs & Hret & Hoo & Hor & Hlen & Hlist).
  assert (HX : X_cl (upd_rec g h (set_owner false)) (upd_view a t (with_held (view a t) (remove Nat.eq_dec h (v_held (view a t))))) tr)
    by (apply (X_transfer0 g a tr _ _ (X_of_inv _ _ _ _ HI)); [intros t'; destruct (Nat.eq_dec t' t) as [->|?]; [rewrite view_upd_same|rewrite view_upd_other by assumption]; cbn; auto|reflexivity]).
  destruct HI. xbullets HX.
  set (g' := upd_rec g h (set_owner false)) in *.
  set (a' := upd_view a t (with_held (view a t) (remove Nat.eq_dec h (v_held (view a t))))).
  assert (Hvr : forall t', v_rec (view a' t') = v_rec (view a t')) by (intros t'; unfold a'; vcase t' t; reflexivity).
  assert (Hvk : forall t', v_clr (view a' t') = v_clr (view a t')) by (intros t'; unfold a'; vcase t' t; reflexivity).
  assert (Hvc : forall t', v_cl (view a' t') = v_cl (view a t')) by (intros t'; unfold a'; vcase t' t; reflexivity).
  assert (Hvs : forall t', v_scan (view a' t') = v_scan (view a t')) by (intros t'; unfold a'; vcase t' t; reflexivity).
  assert (Hvn : forall t', v_seen (view a' t') = v_seen (view a t')) by (intros t'; unfold a'; vcase t' t; reflexivity).
  assert (Hh : forall t' r', In r' (v_held (view a' t')) <-> In r' (v_held (view a t')) /\ r' <> h).
  { intros t' r'. unfold a'. vcase t' t; [cbn; apply in_remove_iff|].
    split; [|tauto]. intros H. split; [exact H|]. intros ->.
    assert (t' = t) by (eapply i_excl; right; eauto). congruence. }
  assert (Ho : forall t' r', owns (view a' t') r' -> owns (view a t') r').
  { intros t' r' [H|H]; [left; now rewrite Hvr in H|right; now apply Hh in H]. }
  apply mkInv.
  - intros r' j. rewrite Hs. auto.
  - intros r' j H. rewrite Hs. destruct (Nat.eq_dec r' h) as [->|Hne]; [|rewrite Hoo in H by exact Hne; auto].
    apply (i_held t h Hheld).
  - intros r' j H. rewrite Hs. rewrite Hlist in H. auto.
  - intros r' j H. rewrite Hs. auto.
  - intros r' H. rewrite Hlist in H. rewrite Hlen. auto.
  - intros t' r' H. rewrite Hvr in H. rewrite Hlist. rewrite Hoo; [eauto|]. intros ->. eapply Hex; eauto.
  - intros t' r' H. apply Hh in H. destruct H as (H & Hne). destruct (i_held t' r' H) as (H1 & H2 & H3). rewrite Hlen.
    repeat split; auto.
    + now rewrite Hoo.
    + intros j. rewrite Hs. auto.
  - intros t1 t2 r' H1 H2. apply Ho in H1. apply Ho in H2. eauto.
  - intros t'. rewrite Hvr. destruct (i_self t') as (H1 & H2). split.
    + unfold a'. vcase t' t; [cbn; now apply NoDup_remove_eq|exact H1].
    + intros r' H Hin'. apply Hh in Hin'. destruct Hin' as (Hin' & _). eapply H2; eauto.
  - intros t' r' j H1 H2. rewrite Hs. rewrite Hvr in H1. rewrite Hvk in H2. eauto.
  - intros r' H. rewrite Hlen in H. rewrite Hlist. destruct (Nat.eq_dec r' h) as [->|Hne]; [now left|].
    destruct (i_unl r' H) as [H1|(t' & H1)]; [now left|right]. exists t'. apply Hh. now split.
  - intros t' r' H. rewrite Hvn in H. rewrite Hlist. eauto.
  - intros t' cl H. rewrite Hvc in H. destruct (i_claim t' cl H) as (H1 & H2). split.
    + destruct H1 as [H1|H1]; [left; now rewrite Hvr|]. right. apply Hh. split; [exact H1|].
      intros E. assert (t' = t) by (eapply i_excl; right; [exact H1|rewrite E; exact Hheld]). subst t'.
      apply (Hcl cl H). exact E.
    + destruct cl; cbn in *; rewrite Hret; exact H2.
  - intros t'. rewrite Hvc. auto.
  - intros r' x H. destruct (i_eff r' x H) as (t' & cl & H1 & H2). exists t', cl. now rewrite Hvc.
  - intros p. rewrite i_bal. f_equal. symmetry. apply pend_ext; [exact Hlen|].
    intros r' _. unfold effc. rewrite Hret. reflexivity.
  - intros t' sv H. rewrite Hvs in H. eauto.
  - exact i_safe.
  - exact i_kept.
  - intros t' H. specialize (i_idle t' H). unfold a'. vcase t' t; [|exact i_idle].
    destruct i_idle as (E & _). rewrite E in Hheld. destruct Hheld.
  - intros r' p H. apply (i_retd r' p). unfold effc in *. unfold a' in H. cbn [a_eff upd_view] in *. rewrite Hret in H. exact H.
  - intros t' sv r' s H1 H2 H3 p Hp. rewrite Hvs in H1. rewrite Hvr in H2.
    apply (i_retd_scan t' sv r' s H1 H2 H3 p). unfold effc in *. unfold a' in Hp. cbn [a_eff upd_view] in *. rewrite Hret in Hp. exact Hp.
  - exact i_pre.
  - intros t' sv H. rewrite Hvs in H. eapply collsz_ok_mono; [eauto|]. apply le_n.
  - apply (size_cl_transfer c g a tr g' a' tr i_size); [apply le_n|intros; lia|intros r'; rewrite Hret; lia|].
    intros t' cl H. now rewrite Hvc.
  - apply (noovf_cl_transfer c g tr g' tr i_noovf); [apply le_n|intros; lia|reflexivity].
  - exact HX1.
  - exact HX2.
  - exact HX3.
  - exact HX4.
  - exact HX5.
Qed.

(** ** 7. create_thread_data + first store, and the push onto thread_list_ *)
Definition add_rec (g : G) : G := mkG (g_list g) (g_recs g ++ [new_rec]) (g_srcs g).

Lemma add_rec_facts g :
  let n := List.length (g_recs g) in
  let g' := add_rec g in
  (forall r' j, gslot g' r' j = gslot g r' j) /\
  (forall r', r_ret (get_rec g' r') = r_ret (get_rec g r')) /\
  (forall r', r' <> n -> r_owner (get_rec g' r') = r_owner (get_rec g r')) /\
  r_owner (get_rec g' n) = true /\
  List.length (g_recs g') = S n /\ g_list g' = g_list g.
Proof.
  intros n g'.
  assert (Hget : forall r', r' <> n -> get_rec g' r' = get_rec g r').
  { intros r' Hne. unfold get_rec, g', add_rec; cbn. destruct (Nat.lt_ge_cases r' n).
    - now rewrite app_nth1.
    - rewrite (nth_overflow (g_recs g)) by (fold n; lia).
      rewrite nth_overflow; [reflexivity|]. rewrite app_length; cbn. fold n. lia. }
  assert (Hnew : get_rec g' n = new_rec).
  { unfold get_rec, g', add_rec; cbn. rewrite app_nth2 by (fold n; lia). fold n. now rewrite Nat.sub_diag. }
  assert (Hold : get_rec g n = dead_rec) by (apply get_rec_ge; fold n; lia).
  repeat split.
  - intros r' j. unfold gslot. destruct (Nat.eq_dec r' n) as [->|Hne]; [now rewrite Hnew, Hold|now rewrite Hget].
  - intros r'. destruct (Nat.eq_dec r' n) as [->|Hne]; [now rewrite Hnew, Hold|now rewrite Hget].
  - intros r' Hne. now rewrite Hget.
  - now rewrite Hnew.
  - unfold g', add_rec; cbn. rewrite app_length; cbn. fold n. lia.
Qed.

Lemma inv_new_rec c g a tr t :
  Inv c g a tr -> ~ resp_last tr t ->
  let r := List.length (g_recs g) in
  Inv c (add_rec g) (upd_view a t (with_held (view a t) (r :: v_held (view a t)))) tr.
Proof.
  intros HI Hnr r.
  assert (Hnobody : forall t', ~ owns (view a t') r).
  { intros t' Ho. pose proof (owns_lt _ _ _ _ _ _ HI Ho). unfold r in *. lia. }
  destruct (add_rec_facts g) as (Hs & Hret & Hoo & Hor & Hlen & Hlist). fold r in Hoo, Hor, Hlen.
  assert (HX : X_cl (add_rec g) (upd_view a t (with_held (view a t) (r :: v_held (view a t)))) tr)
    by (apply (X_transfer0 g a tr _ _ (X_of_inv _ _ _ _ HI)); [intros t'; destruct (Nat.eq_dec t' t) as [->|?]; [rewrite view_upd_same|rewrite view_upd_other by assumption]; cbn; auto|reflexivity]).
  destruct HI. xbullets HX.
  set (g' := add_rec g) in *.
  set (a' := upd_view a t (with_held (view a t) (r :: v_held (view a t)))).
  assert (Hvr : forall t', v_rec (view a' t') = v_rec (view a t')) by (intros t'; unfold a'; vcase t' t; reflexivity).
  assert (Hvk : forall t', v_clr (view a' t') = v_clr (view a t')) by (intros t'; unfold a'; vcase t' t; reflexivity).
  assert (Hvc : forall t', v_cl (view a' t') = v_cl (view a t')) by (intros t'; unfold a'; vcase t' t; reflexivity).
  assert (Hvs : forall t', v_scan (view a' t') = v_scan (view a t')) by (intros t'; unfold a'; vcase t' t; reflexivity).
  assert (Hvn : forall t', v_seen (view a' t') = v_seen (view a t')) by (intros t'; unfold a'; vcase t' t; reflexivity).
  assert (Hh : forall t' r', In r' (v_held (view a' t')) -> In r' (v_held (view a t')) \/ (t' = t /\ r' = r)).
  { intros t' r' H. unfold a' in H. vcase t' t; [|now left]. cbn in H. destruct H as [<-|H]; auto. }
  assert (Hh2 : forall t' r', In r' (v_held (view a t')) -> In r' (v_held (view a' t'))).
  { intros t' r' H. unfold a'. vcase t' t; [cbn; now right|exact H]. }
  assert (Ho : forall t' r', owns (view a' t') r' -> owns (view a t') r' \/ (t' = t /\ r' = r)).
  { intros t' r' [H|H]; [rewrite Hvr in H; left; left; exact H|].
    apply Hh in H. destruct H as [H|H]; [left; right; exact H|now right]. }
  assert (Ho2 : forall t' r', owns (view a t') r' -> owns (view a' t') r').
  { intros t' r' [H|H]; [left; now rewrite Hvr|right; now apply Hh2]. }
  assert (Hnl : ~ In r (g_list g)) by (intros H; apply i_list_lt in H; unfold r in H; lia).
  apply mkInv.
  - intros r' j. rewrite Hs. auto.
  - intros r' j H. rewrite Hs. destruct (Nat.eq_dec r' r) as [->|Hne]; [congruence|]. rewrite Hoo in H by exact Hne. auto.
  - intros r' j H. rewrite Hs. rewrite Hlist in H. auto.
  - intros r' j H. rewrite Hs. auto.
  - intros r' H. rewrite Hlist in H. rewrite Hlen. apply i_list_lt in H. unfold r. lia.
  - intros t' r' H. rewrite Hvr in H. rewrite Hlist. destruct (i_rec t' r' H) as (H1 & H2). split; [|exact H2].
    rewrite Hoo; [exact H1|]. intros ->. contradiction.
  - intros t' r' H. rewrite Hlen. apply Hh in H. destruct H as [H|(-> & ->)].
    + destruct (i_held t' r' H) as (H1 & H2 & H3). repeat split; [unfold r; lia| |].
      * rewrite Hoo; [exact H2|]. unfold r. lia.
      * intros j. rewrite Hs. auto.
    + repeat split; [lia|exact Hor|]. intros j. rewrite Hs. apply i_zero_unlisted. exact Hnl.
  - intros t1 t2 r' H1 H2. apply Ho in H1. apply Ho in H2.
    destruct H1 as [H1|(E1 & E1')]; destruct H2 as [H2|(E2 & E2')]; subst; eauto.
    + exfalso. eapply Hnobody; eauto.
    + exfalso. eapply Hnobody; eauto.
  - intros t'. rewrite Hvr. destruct (i_self t') as (H1 & H2). unfold a'. vcase t' t; [|auto]. cbn. split.
    + constructor; [|exact H1]. intros Hin'. eapply Hnobody. right. exact Hin'.
    + intros r' H [<-|Hin']; [eapply Hnobody; left; exact H|]. eapply H2; eauto.
  - intros t' r' j H1 H2. rewrite Hs. rewrite Hvr in H1. rewrite Hvk in H2. eauto.
  - intros r' H. rewrite Hlen in H. rewrite Hlist. destruct (Nat.eq_dec r' r) as [->|Hne].
    + right. exists t. unfold a'. rewrite view_upd_same. cbn. now left.
    + destruct (i_unl r') as [H1|(t' & H1)]; [unfold r in *; lia|now left|right]. exists t'. now apply Hh2.
  - intros t' r' H. rewrite Hvn in H. rewrite Hlist. eauto.
  - intros t' cl H. rewrite Hvc in H. destruct (i_claim t' cl H) as (H1 & H2). split; [now apply Ho2|].
    destruct cl; cbn in *; rewrite Hret; exact H2.
  - intros t'. rewrite Hvc. auto.
  - intros r' x H. destruct (i_eff r' x H) as (t' & cl & H1 & H2). exists t', cl. now rewrite Hvc.
  - intros p. rewrite i_bal. f_equal. unfold pend. rewrite Hlen. fold r. cbn [pend_upto].
    assert (E : effc g' a' r = []).
    { unfold effc. destruct (a_eff a' r) as [x|] eqn:Ex.
      - exfalso. destruct (i_eff r x Ex) as (t' & cl & H1 & H2). eapply (Hnobody t').
        rewrite <- H2. apply (i_claim t' cl H1).
      - rewrite Hret. rewrite get_rec_ge by (fold r; lia). reflexivity. }
    rewrite E. cbn. rewrite Z.add_0_r. symmetry. apply pend_upto_ext.
    intros r' _. unfold effc. rewrite Hret. reflexivity.
  - intros t' sv H. rewrite Hvs in H. eauto.
  - exact i_safe.
  - exact i_kept.
  - intros t' H. unfold a'. vcase t' t; [contradiction|auto].
  - intros r' p H. apply (i_retd r' p). unfold effc in *. unfold a' in H. cbn [a_eff upd_view] in *. rewrite Hret in H. exact H.
  - intros t' sv r' s H1 H2 H3 p Hp. rewrite Hvs in H1. rewrite Hvr in H2.
    apply (i_retd_scan t' sv r' s H1 H2 H3 p). unfold effc in *. unfold a' in Hp. cbn [a_eff upd_view] in *. rewrite Hret in Hp. exact Hp.
  - exact i_pre.
  - intros t' sv H. rewrite Hvs in H. eapply collsz_ok_mono; [eauto|]. apply le_n.
  - apply (size_cl_transfer c g a tr g' a' tr i_size); [apply le_n|intros; lia|intros r'; rewrite Hret; lia|].
    intros t' cl H. now rewrite Hvc.
  - apply (noovf_cl_transfer c g tr g' tr i_noovf); [apply le_n|intros; lia|reflexivity].
  - exact HX1.
  - exact HX2.
  - exact HX3.
  - exact HX4.
  - exact HX5.
Qed.

(** the CAS that publishes the new record at the head of thread_list_ *)
Definition push_rec (g : G) (r : nat) : G := mkG (r :: g_list g) (g_recs g) (g_srcs g).
Lemma inv_push_held c g a tr t r :
  Inv c g a tr -> In r (v_held (view a t)) -> Inv c (push_rec g r) a tr.
Proof.
  intros HI Hheld.
  destruct (i_held _ _ _ _ HI t r Hheld) as (Hlt & Howner & Hzero).
  assert (HX : X_cl (push_rec g r) a tr) by (apply (X_transfer0 g a tr _ a (X_of_inv _ _ _ _ HI)); auto).
  destruct HI. xbullets HX.
  apply mkInv.
  - exact i_slot.
  - exact i_zero_unowned.
  - intros r' j H. apply i_zero_unlisted. intros Hin. apply H. cbn. now right.
  - exact i_zero_hi.
  - intros r' [<-|H]; [exact Hlt|auto].
  - intros t' r' H. destruct (i_rec t' r' H) as (H1 & H2). split; [exact H1|cbn; now right].
  - exact i_held.
  - exact i_excl.
  - exact i_self.
  - exact i_clr.
  - intros r' H. destruct (i_unl r' H) as [H1|H1]; [left; cbn; now right|now right].
  - intros t' r' H. cbn. right. eauto.
  - exact i_claim.
  - exact i_claim_nd.
  - exact i_eff.
  - intros p. rewrite i_bal. f_equal. symmetry. apply pend_ext; [reflexivity|]. intros; reflexivity.
  - exact i_cov.
  - exact i_safe.
  - exact i_kept.
  - exact i_idle.
  - exact i_retd.
  - exact i_retd_scan.
  - exact i_pre.
  - intros t' sv H. eapply collsz_ok_mono; [eauto|]. cbn. lia.
  - apply (size_cl_transfer c g a tr (push_rec g r) a tr i_size); [cbn; lia|intros; lia|intros; apply le_n|auto].
  - apply (noovf_cl_transfer c g tr (push_rec g r) tr i_noovf); [cbn; lia|intros; lia|reflexivity].
  - exact HX1.
  - exact HX2.
  - exact HX3.
  - exact HX4.
  - exact HX5.
Qed.


(** ** 8. steps on retired arrays: the owner changes its claims, the effective contents, the cells *)
Definition mild (e : ev) : bool :=
  (negb (is_cli_named "g_slot" e) && negb (is_cli_named "g_scan_begin" e) && negb (is_cli_named "g_scan_end" e))%bool.

Lemma mild_parts e : mild e = true ->
  is_cli_named "g_slot" e = false /\ is_cli_named "g_scan_begin" e = false /\ is_cli_named "g_scan_end" e = false.
Proof.
  unfold mild. intros H. apply andb_true_iff in H. destruct H as (H & H3). apply andb_true_iff in H.
  destruct H as (H1 & H2). rewrite negb_true_iff in *. auto.
Qed.

Lemma slot_at_mild tr t es r j :
  (forall e, In e es -> mild e = true) -> slot_at (tr ++ Conc.tag t es) r j = slot_at tr r j.
Proof.
  intros H. rewrite slot_at_app. generalize (slot_at tr r j). unfold Conc.tag.
  induction es as [|e es IH]; intros z; cbn; [reflexivity|].
  rewrite IH by (intros; apply H; now right). f_equal.
  destruct (mild_parts e (H e (or_introl eq_refl))) as (H1 & _).
  destruct e as [k o b|n args]; [reflexivity|]. cbn in *.
  destruct args as [|x [|y [|z' [|w rest]]]]; try reflexivity. now rewrite H1.
Qed.

Lemma last_sb_mild tr t es t' :
  (forall e, In e es -> mild e = true) -> last_sb (tr ++ Conc.tag t es) t' = last_sb tr t'.
Proof.
  intros H. apply last_sb_app_other. intros te Hin. unfold Conc.tag in Hin.
  apply in_map_iff in Hin. destruct Hin as (e & <- & He). unfold is_sb. cbn.
  destruct (mild_parts e (H e He)) as (_ & -> & _). now rewrite andb_false_r.
Qed.

Lemma cov_cl_mild c a tr t es :
  cov_cl c a tr -> (forall e, In e es -> mild e = true) -> cov_cl c a (tr ++ Conc.tag t es).
Proof.
  intros Hc Hq t' sv Hsv. destruct (Hc t' sv Hsv) as (s & Hs & Hcv & Hsn).
  exists s. rewrite last_sb_mild by exact Hq. pose proof (last_sb_lt _ _ _ Hs) as Hlt.
  split; [exact Hs|]. split.
  - intros r j v Hcov Hv Hh. apply (Hcv r j v Hcov Hv). eapply held_prefix; [lia|exact Hh].
  - intros v Hv. rewrite app_length. eapply seen_in_mono; [|apply seen_in_ext; [|apply Hsn; exact Hv]]; lia.
Qed.

Lemma kept_cl_mild tr t es :
  kept_cl tr -> (forall e, In e es -> mild e = true) -> kept_cl (tr ++ Conc.tag t es).
Proof.
  intros Hs Hq. apply kept_cl_ext; [exact Hs|].
  intros k t' r kept s Hk. apply nth_error_tag in Hk. destruct Hk as (_ & Hk).
  apply nth_error_In in Hk. destruct (mild_parts _ (Hq _ Hk)) as (_ & _ & H). discriminate.
Qed.

Definition with_cl (v : lview) (cl : list claim) : lview := mkV (v_rec v) (v_held v) (v_clr v) (v_scan v) cl (v_seen v) (v_op v) (v_val v).
Definition set_claims (a : Aux) (t : nat) (cl : list claim) (eff : nat -> option (list Z)) : Aux :=
  mkAux (a_view (upd_view a t (with_cl (view a t) cl))) eff.

Lemma view_set_claims_same a t cl eff : view (set_claims a t cl eff) t = with_cl (view a t) cl.
Proof. unfold set_claims, view; cbn. now rewrite Nat.eqb_refl. Qed.
Lemma view_set_claims_other a t cl eff t' : t' <> t -> view (set_claims a t cl eff) t' = view a t'.
Proof. intros H. unfold set_claims, view; cbn. destruct (Nat.eqb_spec t' t); congruence. Qed.
Lemma frame_set_claims a t cl eff : Conc.frame view t a (set_claims a t cl eff).
Proof. intros t' H. now apply view_set_claims_other. Qed.

Lemma shrinking_crec r cl : shrinking_claim_on r cl -> crec cl = r.
Proof. intros (act & eff & -> & _). reflexivity. Qed.

Lemma owns_dec (v : lview) (r : nat) : {owns v r} + {~ owns v r}.
Proof.
  unfold owns. destruct (v_rec v) as [r'|].
  - destruct (Nat.eq_dec r' r) as [->|Hne]; [left; now left|].
    destruct (in_dec Nat.eq_dec r (v_held v)); [left; now right|right; intros [H|H]; [congruence|contradiction]].
  - destruct (in_dec Nat.eq_dec r (v_held v)); [left; now right|right; intros [H|H]; [discriminate|contradiction]].
Qed.

Lemma inv_claims c g a tr t g' eff' cl' es :
  Inv c g a tr ->
  g_list g' = g_list g -> List.length (g_recs g') = List.length (g_recs g) ->
  (forall r, r_owner (get_rec g' r) = r_owner (get_rec g r) /\ r_slots (get_rec g' r) = r_slots (get_rec g r)) ->
  (forall r, ~ owns (view a t) r -> r_ret (get_rec g' r) = r_ret (get_rec g r) /\ eff' r = a_eff a r) ->
  let a' := set_claims a t cl' eff' in
  (forall cl, In cl cl' -> owns (view a t) (crec cl) /\ claim_ok g' a' cl) ->
  NoDup (map crec cl') ->
  (forall r x, owns (view a t) r -> eff' r = Some x -> exists cl, In cl cl' /\ crec cl = r) ->
  (forall e, In e es -> mild e = true) ->
  bal_cl g' a' (tr ++ Conc.tag t es) ->
  safe_cl c (tr ++ Conc.tag t es) ->
  (resp_last (tr ++ Conc.tag t es) t -> v_held (view a t) = [] /\ cl' = []) ->
  (forall r p, owns (view a t) r -> In p (effc g' a' r) ->
     retired_before (tr ++ Conc.tag t es) (List.length (tr ++ Conc.tag t es)) p) ->
  (forall sv r s, v_scan (view a t) = Some sv -> v_rec (view a t) = Some r -> last_sb (tr ++ Conc.tag t es) t = Some s ->
     forall p, In p (effc g' a' r) -> retired_before (tr ++ Conc.tag t es) s p) ->
  pre_cl (tr ++ Conc.tag t es) ->
  (ovf_cond c g' (tr ++ Conc.tag t es) -> forall r, owns (view a t) r ->
     List.length (r_ret (get_rec g' r)) < cR c \/ exists cl, In cl cl' /\ shrinking_claim_on r cl) ->
  (ovf_cond c g' (tr ++ Conc.tag t es) -> forall p, cnt "overflow" p (Conc.tag t es) = 0%Z) ->
  (forall e, In e es -> inert e = true) -> (forall k, g_srcs g' k = g_srcs g k) ->
  Inv c g' a' (tr ++ Conc.tag t es).
Proof.
  intros HI Hlist Hlen Hos Hother a' Hcl Hnd Heff Hm Hbal Hsafe Hidle Hretd_t Hrs_t Hpre Hsz_t Hnoovf Hinert Hsrcs.
  assert (HX : X_cl g' a' (tr ++ Conc.tag t es)).
  { apply (X_transfer g a tr g' a' t es (X_of_inv _ _ _ _ HI) Hinert); [|exact Hsrcs].
    intros t'. unfold a'. destruct (Nat.eq_dec t' t) as [->|Hne];
      [rewrite view_set_claims_same|rewrite view_set_claims_other by exact Hne]; cbn; auto. }
  assert (Hs : forall r j, gslot g' r j = gslot g r j).
  { intros r j. unfold gslot. destruct (Hos r) as (_ & ->). reflexivity. }
  assert (Ho : forall r, r_owner (get_rec g' r) = r_owner (get_rec g r)) by (intros r; apply Hos).
  assert (Hvr : forall t', v_rec (view a' t') = v_rec (view a t')).
  { intros t'. unfold a'. destruct (Nat.eq_dec t' t) as [->|Hne];
      [rewrite view_set_claims_same|rewrite view_set_claims_other by exact Hne]; reflexivity. }
  assert (Hvh : forall t', v_held (view a' t') = v_held (view a t')).
  { intros t'. unfold a'. destruct (Nat.eq_dec t' t) as [->|Hne];
      [rewrite view_set_claims_same|rewrite view_set_claims_other by exact Hne]; reflexivity. }
  assert (Hvk : forall t', v_clr (view a' t') = v_clr (view a t')).
  { intros t'. unfold a'. destruct (Nat.eq_dec t' t) as [->|Hne];
      [rewrite view_set_claims_same|rewrite view_set_claims_other by exact Hne]; reflexivity. }
  assert (Hvs : forall t', v_scan (view a' t') = v_scan (view a t')).
  { intros t'. unfold a'. destruct (Nat.eq_dec t' t) as [->|Hne];
      [rewrite view_set_claims_same|rewrite view_set_claims_other by exact Hne]; reflexivity. }
  assert (Hvn : forall t', v_seen (view a' t') = v_seen (view a t')).
  { intros t'. unfold a'. destruct (Nat.eq_dec t' t) as [->|Hne];
      [rewrite view_set_claims_same|rewrite view_set_claims_other by exact Hne]; reflexivity. }
  assert (Hoo : forall t' r, owns (view a' t') r <-> owns (view a t') r).
  { intros t' r. unfold owns. rewrite Hvr, Hvh. tauto. }
  destruct HI. xbullets HX.
  apply mkInv.
  - intros r j. rewrite slot_at_mild by exact Hm. rewrite Hs. auto.
  - intros r j H. rewrite Hs. rewrite Ho in H. auto.
  - intros r j H. rewrite Hs. rewrite Hlist in H. auto.
  - intros r j H. rewrite Hs. auto.
  - intros r H. rewrite Hlist in H. rewrite Hlen. auto.
  - intros t' r H. rewrite Hvr in H. rewrite Ho, Hlist. eauto.
  - intros t' r H. rewrite Hvh in H. rewrite Hlen, Ho. destruct (i_held t' r H) as (H1 & H2 & H3).
    repeat split; auto. intros j. rewrite Hs. auto.
  - intros t1 t2 r H1 H2. apply Hoo in H1. apply Hoo in H2. eauto.
  - intros t'. rewrite Hvr, Hvh. auto.
  - intros t' r j H1 H2. rewrite Hs. rewrite Hvr in H1. rewrite Hvk in H2. eauto.
  - intros r H. rewrite Hlen in H. rewrite Hlist. destruct (i_unl r H) as [H1|(t' & H1)]; [now left|right].
    exists t'. now rewrite Hvh.
  - intros t' r H. rewrite Hvn in H. rewrite Hlist. eauto.
  - intros t' cl H. destruct (Nat.eq_dec t' t) as [->|Hne].
    + unfold a' in H. rewrite view_set_claims_same in H. cbn in H. destruct (Hcl cl H) as (H1 & H2).
      split; [now apply Hoo|exact H2].
    + unfold a' in H. rewrite view_set_claims_other in H by exact Hne.
      destruct (i_claim t' cl H) as (H1 & H2). split; [now apply Hoo|].
      assert (Hno : ~ owns (view a t) (crec cl)).
      { intros H3. apply Hne. eapply i_excl; eauto. }
      destruct (Hother _ Hno) as (E1 & E2).
      destruct cl; cbn in *; rewrite E1, E2; exact H2.
  - intros t'. destruct (Nat.eq_dec t' t) as [->|Hne].
    + unfold a'. rewrite view_set_claims_same. exact Hnd.
    + unfold a'. rewrite view_set_claims_other by exact Hne. auto.
  - intros r x H. change (eff' r = Some x) in H.
    destruct (owns_dec (view a t) r) as [Hown|Hno].
    + destruct (Heff r x Hown H) as (cl & H1 & H2). exists t, cl. split; [|exact H2].
      unfold a'. rewrite view_set_claims_same. exact H1.
    + destruct (Hother _ Hno) as (_ & E2). rewrite E2 in H.
      destruct (i_eff r x H) as (t' & cl & H1 & H2). exists t', cl. split; [|exact H2].
      destruct (Nat.eq_dec t' t) as [->|Hne].
      * exfalso. apply Hno. rewrite <- H2. apply (i_claim t cl H1).
      * unfold a'. rewrite view_set_claims_other by exact Hne. exact H1.
  - exact Hbal.
  - assert (Hc : cov_cl c a (tr ++ Conc.tag t es)) by (apply cov_cl_mild; auto).
    intros t' sv H. rewrite Hvs in H. apply (Hc t' sv H).
  - exact Hsafe.
  - apply kept_cl_mild; auto.
  - intros t' H. destruct (Nat.eq_dec t' t) as [->|Hne].
    + destruct (Hidle H) as (E1 & E2). unfold a'. rewrite view_set_claims_same. split; assumption.
    + unfold a'. rewrite view_set_claims_other by exact Hne. apply i_idle.
      apply (resp_last_other tr t' t es); [congruence|exact H].
  - intros r p H. destruct (owns_dec (view a t) r) as [Hown|Hno]; [exact (Hretd_t r p Hown H)|].
    destruct (Hother _ Hno) as (E1 & E2).
    assert (E : effc g' a' r = effc g a r) by (unfold effc, a'; cbn; now rewrite E1, E2).
    rewrite E in H. apply (retd_cl_ext g a tr _ i_retd r p H).
  - intros t' sv r s H1 H2 H3 p Hp. rewrite Hvs in H1. rewrite Hvr in H2.
    destruct (Nat.eq_dec t' t) as [->|Hne]; [exact (Hrs_t sv r s H1 H2 H3 p Hp)|].
    assert (Hno : ~ owns (view a t) r).
    { intros Hox. apply Hne. eapply i_excl; [left; exact H2|exact Hox]. }
    destruct (Hother _ Hno) as (E1 & E2).
    assert (E : effc g' a' r = effc g a r) by (unfold effc, a'; cbn; now rewrite E1, E2).
    rewrite E in Hp. rewrite last_sb_mild in H3 by exact Hm.
    apply retired_before_ext. eapply i_retd_scan; eauto.
  - exact Hpre.
  - intros t' sv H. rewrite Hvs in H. eapply collsz_ok_mono; [eauto|]. rewrite Hlist. apply le_n.
  - intros Hcond r.
    assert (Hold : ovf_cond c g tr).
    { eapply ovf_cond_weaken; [exact Hcond|rewrite Hlist; apply le_n|intros p; apply cnt_le_app]. }
    destruct (owns_dec (view a t) r) as [Hown|Hno].
    + destruct (Hsz_t Hcond r Hown) as [H|(cl & H1 & H2)]; [now left|right]. exists t, cl. split; [|exact H2].
      unfold a'. rewrite view_set_claims_same. exact H1.
    + destruct (Hother _ Hno) as (E1 & _). rewrite E1.
      destruct (i_size Hold r) as [H|(t' & cl & H1 & H2)]; [now left|right]. exists t', cl. split; [|exact H2].
      destruct (Nat.eq_dec t' t) as [->|Hne].
      * exfalso. apply Hno. rewrite <- (shrinking_crec _ _ H2). apply (i_claim t cl H1).
      * unfold a'. rewrite view_set_claims_other by exact Hne. exact H1.
  - intros Hcond p. rewrite cnt_app, (Hnoovf Hcond p), Z.add_0_r. apply i_noovf.
    eapply ovf_cond_weaken; [exact Hcond|rewrite Hlist; apply le_n|intros q; apply cnt_le_app].
  - exact HX1.
  - exact HX2.
  - exact HX3.
  - exact HX4.
  - exact HX5.
Qed.

Definition set_eff (eff : nat -> option (list Z)) (r : nat) (o : option (list Z)) : nat -> option (list Z) :=
  fun x => if Nat.eqb x r then o else eff x.

Lemma set_eff_same eff r o : set_eff eff r o r = o.
Proof. unfold set_eff. now rewrite Nat.eqb_refl. Qed.
Lemma set_eff_other eff r o r' : r' <> r -> set_eff eff r o r' = eff r'.
Proof. unfold set_eff. intros H. destruct (Nat.eqb_spec r' r); congruence. Qed.

Lemma NoDup_app_r {A} (l l' : list A) : NoDup (l ++ l') -> NoDup l'.
Proof. induction l as [|x l IH]; cbn; [auto|]. intros H. inversion H; auto. Qed.

(** the thread replaces its claim on ONE record it owns (always the first of its claims) *)
Lemma inv_claim1 c g a tr t r g' co cn rest neweff es :
  Inv c g a tr -> owns (view a t) r ->
  g_list g' = g_list g -> List.length (g_recs g') = List.length (g_recs g) ->
  (forall r', r_owner (get_rec g' r') = r_owner (get_rec g r') /\ r_slots (get_rec g' r') = r_slots (get_rec g r')) ->
  (forall r', r' <> r -> r_ret (get_rec g' r') = r_ret (get_rec g r')) ->
  v_cl (view a t) = co ++ rest ->
  (forall cl, In cl co -> crec cl = r) -> (forall cl, In cl rest -> crec cl <> r) ->
  (forall cl, In cl cn -> crec cl = r) -> List.length cn <= 1 ->
  let a' := set_claims a t (cn ++ rest) (set_eff (a_eff a) r neweff) in
  (forall cl, In cl cn -> claim_ok g' a' cl) ->
  (neweff <> None -> cn <> []) ->
  (forall e, In e es -> mild e = true) ->
  bal_cl g' a' (tr ++ Conc.tag t es) ->
  safe_cl c (tr ++ Conc.tag t es) ->
  (resp_last (tr ++ Conc.tag t es) t -> v_held (view a t) = [] /\ cn ++ rest = []) ->
  (forall p, In p (effc g' a' r) ->
     In p (effc g a r) \/
     (v_scan (view a t) = None /\ retired_before (tr ++ Conc.tag t es) (List.length (tr ++ Conc.tag t es)) p)) ->
  pre_cl (tr ++ Conc.tag t es) ->
  (ovf_cond c g' (tr ++ Conc.tag t es) ->
     List.length (r_ret (get_rec g' r)) < cR c \/ exists cl, In cl cn /\ shrinking_claim_on r cl) ->
  (ovf_cond c g' (tr ++ Conc.tag t es) -> forall p, cnt "overflow" p (Conc.tag t es) = 0%Z) ->
  (forall e, In e es -> inert e = true) -> (forall k, g_srcs g' k = g_srcs g k) ->
  Inv c g' a' (tr ++ Conc.tag t es).
Proof.
  intros HI Hown Hlist Hlen Hos Hret Hcl Hco Hrest Hcn Hcn1 a' Hok Hne Hm Hbal Hsafe Hidle Hsub Hpre Hsz Hnoovf Hinert Hsrcs.
  assert (Hsame : forall r0, r0 <> r -> effc g' a' r0 = effc g a r0).
  { intros r0 Hn0. unfold effc, a'; cbn. rewrite set_eff_other by exact Hn0. now rewrite Hret. }
  apply (inv_claims c g a tr t g' (set_eff (a_eff a) r neweff) (cn ++ rest) es); auto.
  - intros r' Hno. assert (r' <> r) by (intros ->; contradiction).
    split; [now apply Hret|now apply set_eff_other].
  - intros cl Hin. apply in_app_or in Hin. destruct Hin as [Hin|Hin].
    + split; [rewrite (Hcn cl Hin); exact Hown|now apply Hok].
    + assert (Hin' : In cl (v_cl (view a t))) by (rewrite Hcl; apply in_or_app; now right).
      destruct (i_claim _ _ _ _ HI t cl Hin') as (H1 & H2). split; [exact H1|].
      pose proof (Hrest cl Hin) as Hn.
      destruct cl; cbn in *; rewrite Hret by exact Hn; rewrite set_eff_other by exact Hn; exact H2.
  - pose proof (i_claim_nd _ _ _ _ HI t) as Hnd. rewrite Hcl, map_app in Hnd.
    apply NoDup_app_r in Hnd. rewrite map_app.
    destruct cn as [|c1 [|c2 cn']]; cbn in *; [exact Hnd| |lia].
    constructor; [|exact Hnd]. rewrite (Hcn c1 (or_introl eq_refl)).
    intros Hin. apply in_map_iff in Hin. destruct Hin as (cl & E & Hin). eapply Hrest; eauto.
  - intros r0 x Ho0 Hx. destruct (Nat.eq_dec r0 r) as [->|Hn0].
    + rewrite set_eff_same in Hx. destruct cn as [|c1 cn']; [exfalso; apply Hne; [congruence|reflexivity]|].
      exists c1. split; [now left|apply Hcn; now left].
    + rewrite set_eff_other in Hx by exact Hn0.
      destruct (i_eff _ _ _ _ HI r0 x Hx) as (t' & cl & H1 & H2).
      assert (t' = t).
      { eapply (i_excl _ _ _ _ HI); [|exact Ho0]. rewrite <- H2. apply (i_claim _ _ _ _ HI t' cl H1). }
      subst t'. rewrite Hcl in H1. apply in_app_or in H1. destruct H1 as [H1|H1].
      * exfalso. apply Hn0. rewrite <- H2. now apply Hco.
      * exists cl. split; [apply in_or_app; now right|exact H2].
  - intros r0 p Ho0 Hp. destruct (Nat.eq_dec r0 r) as [->|Hn0].
    + destruct (Hsub p Hp) as [H|(_ & H)]; [|exact H]. apply (retd_cl_ext g a tr _ (i_retd _ _ _ _ HI) r p H).
    + fold a' in Hp. rewrite Hsame in Hp by exact Hn0. apply (retd_cl_ext g a tr _ (i_retd _ _ _ _ HI) r0 p Hp).
  - intros sv r0 s H1 H2 H3 p Hp. rewrite last_sb_mild in H3 by exact Hm. apply retired_before_ext.
    destruct (Nat.eq_dec r0 r) as [->|Hn0].
    + destruct (Hsub p Hp) as [H|(H & _)]; [|congruence]. eapply (i_retd_scan _ _ _ _ HI); eauto.
    + fold a' in Hp. rewrite Hsame in Hp by exact Hn0. eapply (i_retd_scan _ _ _ _ HI); eauto.
  - intros Hcond r0 Ho0. destruct (Nat.eq_dec r0 r) as [->|Hn0].
    + destruct (Hsz Hcond) as [H|(cl & H1 & H2)]; [now left|right]. exists cl. split; [apply in_or_app; now left|exact H2].
    + rewrite Hret by exact Hn0.
      assert (Hold : ovf_cond c g tr).
      { eapply ovf_cond_weaken; [exact Hcond|rewrite Hlist; apply le_n|intros p; apply cnt_le_app]. }
      destruct (i_size _ _ _ _ HI Hold r0) as [H|(t' & cl & H1 & H2)]; [now left|right].
      pose proof (shrinking_crec _ _ H2) as Ec.
      assert (t' = t).
      { eapply (i_excl _ _ _ _ HI); [|exact Ho0]. rewrite <- Ec. apply (i_claim _ _ _ _ HI t' cl H1). }
      subst t'. rewrite Hcl in H1. apply in_app_or in H1. destruct H1 as [H1|H1].
      * exfalso. apply Hn0. rewrite <- Ec. now apply Hco.
      * exists cl. split; [apply in_or_app; now right|exact H2].
Qed.

Lemma eff_none c g a tr t r :
  Inv c g a tr -> owns (view a t) r -> (forall cl, In cl (v_cl (view a t)) -> crec cl <> r) -> a_eff a r = None.
Proof.
  intros HI Ho Hn. destruct (a_eff a r) as [x|] eqn:E; [|reflexivity]. exfalso.
  destruct (i_eff _ _ _ _ HI r x E) as (t' & cl & H1 & H2).
  assert (t' = t).
  { eapply (i_excl _ _ _ _ HI); [|exact Ho]. rewrite <- H2. apply (i_claim _ _ _ _ HI t' cl H1). }
  subst t'. eapply Hn; eauto.
Qed.

Lemma safe_cl_nodispose c tr t es :
  safe_cl c tr -> (forall e p, In e es -> e <> ev_dispose p) -> safe_cl c (tr ++ Conc.tag t es).
Proof.
  intros Hs Hq. apply safe_cl_ext; [exact Hs|].
  intros k t' p s Hk. apply nth_error_tag in Hk. destruct Hk as (_ & Hk).
  exfalso. apply nth_error_In in Hk. eapply Hq; eauto.
Qed.

(** balance after a step that changes the effective content of one record *)
Lemma bal_step g a tr g' a' t es r :
  bal_cl g a tr -> List.length (g_recs g') = List.length (g_recs g) -> r < List.length (g_recs g) ->
  (forall r', r' <> r -> effc g' a' r' = effc g a r') ->
  (forall p, (cnt "retire" p (Conc.tag t es) - cnt "dispose" p (Conc.tag t es) - cnt "overflow" p (Conc.tag t es)
              = countZ p (effc g' a' r) - countZ p (effc g a r))%Z) ->
  bal_cl g' a' (tr ++ Conc.tag t es).
Proof.
  intros Hb Hlen Hlt Hoth Hd p. rewrite !cnt_app. rewrite (pend_change p g a g' a' r Hlen Hlt Hoth).
  specialize (Hb p). specialize (Hd p). lia.
Qed.

Lemma cnt_tag1 name n x p t :
  cnt name p (Conc.tag t [EvCli n [x]]) = if (String.eqb n name && Z.eqb x p)%bool then 1%Z else 0%Z.
Proof. unfold cnt, Conc.tag. cbn. destruct (String.eqb n name && Z.eqb x p)%bool; reflexivity. Qed.

Lemma cnt_tag_acc name p t k o b : cnt name p (Conc.tag t [EvAcc k o b]) = 0%Z.
Proof. reflexivity. Qed.

Lemma countZ_snoc p l x : countZ p (l ++ [x]) = (countZ p l + if Z.eqb x p then 1 else 0)%Z.
Proof. rewrite countZ_app. cbn. lia. Qed.

Lemma effc_set_claims_same g a t cl eff r o : effc g (set_claims a t cl (set_eff eff r o)) r =
  match o with Some x => x | None => r_ret (get_rec g r) end.
Proof. unfold effc, set_claims; cbn. now rewrite set_eff_same. Qed.
Lemma effc_set_claims_other g g' a t cl r o r' : r' <> r -> r_ret (get_rec g' r') = r_ret (get_rec g r') ->
  effc g' (set_claims a t cl (set_eff (a_eff a) r o)) r' = effc g a r'.
Proof. intros Hne Hr. unfold effc, set_claims; cbn. rewrite set_eff_other by exact Hne. now rewrite Hr. Qed.

Lemma same_g_facts g :
  g_list g = g_list g /\ List.length (g_recs g) = List.length (g_recs g) /\
  (forall r', r_owner (get_rec g r') = r_owner (get_rec g r') /\ r_slots (get_rec g r') = r_slots (get_rec g r')).
Proof. repeat split. Qed.

Lemma set_ret_facts g r l : r < List.length (g_recs g) ->
  let g' := upd_rec g r (set_ret l) in
  g_list g' = g_list g /\ List.length (g_recs g') = List.length (g_recs g) /\
  (forall r', r_owner (get_rec g' r') = r_owner (get_rec g r') /\ r_slots (get_rec g' r') = r_slots (get_rec g r')) /\
  (forall r', r' <> r -> r_ret (get_rec g' r') = r_ret (get_rec g r')) /\
  r_ret (get_rec g' r) = l.
Proof.
  intros Hlt g'. unfold g'. repeat split.
  - apply upd_rec_length.
  - destruct (Nat.eq_dec r' r) as [->|Hne]; [rewrite get_upd_same by exact Hlt|rewrite get_upd_other by exact Hne]; reflexivity.
  - destruct (Nat.eq_dec r' r) as [->|Hne]; [rewrite get_upd_same by exact Hlt|rewrite get_upd_other by exact Hne]; reflexivity.
  - intros r' Hne. now rewrite get_upd_other by exact Hne.
  - now rewrite get_upd_same by exact Hlt.
Qed.

Lemma acc_mild k o b e : In e [EvAcc k o b] -> mild e = true.
Proof. intros [<-|[]]. reflexivity. Qed.
Lemma acc_quiet k o b e : In e [EvAcc k o b] -> quiet e = true.
Proof. intros [<-|[]]. reflexivity. Qed.

Lemma not_resp_last_cli tr t n args : is_resp (EvCli n args) = false -> ~ resp_last (tr ++ Conc.tag t [EvCli n args]) t.
Proof. intros H Hr. apply (resp_last_same tr t [] (EvCli n args)) in Hr. congruence. Qed.

(** under [ovf_cond], an array on which its owner holds no shrinking claim is below the capacity *)
Lemma size_noclaim c g a tr t r tr' :
  Inv c g a tr -> ovf_cond c g tr' -> (forall p, (cnt "retire" p tr <= cnt "retire" p tr')%Z) ->
  owns (view a t) r -> (forall cl, In cl (v_cl (view a t)) -> ~ shrinking_claim_on r cl) ->
  List.length (r_ret (get_rec g r)) < cR c.
Proof.
  intros HI Hcond Hc Hown Hno.
  assert (Hold : ovf_cond c g tr) by (eapply ovf_cond_weaken; [exact Hcond|apply le_n|exact Hc]).
  destruct (i_size _ _ _ _ HI Hold r) as [H|(t' & cl & H1 & H2)]; [exact H|exfalso].
  assert (t' = t).
  { eapply (i_excl _ _ _ _ HI); [|exact Hown]. rewrite <- (shrinking_crec _ _ H2). apply (i_claim _ _ _ _ HI t' cl H1). }
  subst t'. eapply Hno; eauto.
Qed.

Lemma not_shrinking_other r cl : crec cl <> r -> ~ shrinking_claim_on r cl.
Proof. intros H Hs. apply H. now apply shrinking_crec. Qed.

(** C1: the client announces retire(p): the effective content of its array grows *)
Lemma inv_emit_retire c g a tr t r p :
  Inv c g a tr -> v_rec (view a t) = Some r -> v_scan (view a t) = None -> (forall cl, In cl (v_cl (view a t)) -> crec cl <> r) ->
  Inv c g (set_claims a t (ClPush r p :: v_cl (view a t)) (set_eff (a_eff a) r (Some (r_ret (get_rec g r) ++ [p]))))
      (tr ++ Conc.tag t [EvCli "retire" [p]]).
Proof.
  intros HI Hrec Hns Hno.
  assert (Hown : owns (view a t) r) by (left; exact Hrec).
  assert (Hlt := owns_lt _ _ _ _ _ _ HI Hown).
  assert (Hnone := eff_none _ _ _ _ _ _ HI Hown Hno).
  destruct (same_g_facts g) as (H1 & H2 & H3).
  apply (inv_claim1 c g a tr t r g [] [ClPush r p] (v_cl (view a t))); auto.
  - intros cl []. 
  - intros cl [<-|[]]. reflexivity.
  - intros cl [<-|[]]. cbn. now rewrite set_eff_same.
  - intros _. discriminate.
  - intros e [<-|[]]. reflexivity.
  - apply (bal_step g a tr g _ t _ r); auto.
    + exact (i_bal _ _ _ _ HI).
    + intros r' Hne. now apply effc_set_claims_other.
    + intros q. rewrite effc_set_claims_same. unfold effc. rewrite Hnone.
      rewrite !cnt_tag1. cbn. rewrite countZ_snoc. destruct (Z.eqb p q); lia.
  - apply safe_cl_nodispose; [exact (i_safe _ _ _ _ HI)|]. intros e q [<-|[]]. discriminate.
  - intros Hr. exfalso. revert Hr. apply not_resp_last_cli. reflexivity.
  - intros q Hq. rewrite effc_set_claims_same in Hq. apply in_app_or in Hq. destruct Hq as [Hq|[<-|[]]].
    + left. unfold effc. now rewrite Hnone.
    + right. split; [exact Hns|]. exists (List.length tr), t. split; [rewrite app_length; cbn; lia|].
      rewrite nth_error_app2 by lia. now rewrite Nat.sub_diag.
  - apply pre_cl_nodispose; [exact (i_pre _ _ _ _ HI)|]. intros e q [<-|[]]. discriminate.
  - intros Hcond. left.
    apply (size_noclaim c g a tr t r _ HI Hcond); [intros q; apply cnt_le_app|exact Hown|].
    intros cl Hc. apply not_shrinking_other. now apply Hno.
  - intros e0 [<-|[]]. reflexivity.
Qed.

(** C2a: current_.load() of an owned array on which the thread holds no claim *)
Lemma inv_ld_cur_fresh c g a tr t r :
  Inv c g a tr -> owns (view a t) r -> (forall cl, In cl (v_cl (view a t)) -> crec cl <> r) ->
  let l := r_ret (get_rec g r) in
  Inv c g (set_claims a t (ClAct r l l :: v_cl (view a t)) (set_eff (a_eff a) r (Some l)))
      (tr ++ Conc.tag t [EvAcc KLd (obj_cur r) true]).
Proof.
  intros HI Hown Hno l.
  assert (Hlt := owns_lt _ _ _ _ _ _ HI Hown).
  assert (Hnone := eff_none _ _ _ _ _ _ HI Hown Hno).
  destruct (same_g_facts g) as (H1 & H2 & H3).
  apply (inv_claim1 c g a tr t r g [] [ClAct r l l] (v_cl (view a t))); auto.
  - intros cl [].
  - intros cl [<-|[]]. reflexivity.
  - intros cl [<-|[]]. cbn. rewrite set_eff_same. auto.
  - intros _. discriminate.
  - apply acc_mild.
  - apply (bal_step g a tr g _ t _ r); auto.
    + exact (i_bal _ _ _ _ HI).
    + intros r' Hne. now apply effc_set_claims_other.
    + intros q. rewrite effc_set_claims_same. unfold effc. rewrite Hnone. cbn. fold l. lia.
  - apply safe_cl_quiet; [exact (i_safe _ _ _ _ HI)|]. apply acc_quiet.
  - intros Hr. exfalso. revert Hr. apply not_resp_after_acc. discriminate.
  - intros q Hq. rewrite effc_set_claims_same in Hq. left. unfold effc. now rewrite Hnone.
  - apply pre_cl_nodispose; [exact (i_pre _ _ _ _ HI)|]. intros e q [<-|[]]. discriminate.
  - intros _. right. exists (ClAct r l l). split; [now left|]. exists l, l. split; [reflexivity|apply le_n].
  - intros e0 [<-|[]]. reflexivity.
Qed.

(** C2b: the load inside retired_array::push after the retire was announced *)
Lemma inv_ld_cur_push c g a tr t r p rest :
  Inv c g a tr -> v_cl (view a t) = ClPush r p :: rest ->
  let l := r_ret (get_rec g r) in
  Inv c g (set_claims a t (ClAct r l (l ++ [p]) :: rest) (set_eff (a_eff a) r (Some (l ++ [p]))))
      (tr ++ Conc.tag t [EvAcc KLd (obj_cur r) true]).
Proof.
  intros HI Hcl l.
  assert (Hin : In (ClPush r p) (v_cl (view a t))) by (rewrite Hcl; now left).
  destruct (i_claim _ _ _ _ HI t _ Hin) as (Hown & Hok). cbn in Hown, Hok.
  assert (Hlt := owns_lt _ _ _ _ _ _ HI Hown).
  pose proof (i_claim_nd _ _ _ _ HI t) as Hnd. rewrite Hcl in Hnd. cbn in Hnd. inversion Hnd as [|x y Hnin Hnd']; subst.
  destruct (same_g_facts g) as (H1 & H2 & H3).
  apply (inv_claim1 c g a tr t r g [ClPush r p] [ClAct r l (l ++ [p])] rest); auto.
  - intros cl [<-|[]]. reflexivity.
  - intros cl Hc E. apply Hnin. rewrite <- E. now apply in_map.
  - intros cl [<-|[]]. reflexivity.
  - intros cl [<-|[]]. cbn. rewrite set_eff_same. auto.
  - intros _. discriminate.
  - apply acc_mild.
  - apply (bal_step g a tr g _ t _ r); auto.
    + exact (i_bal _ _ _ _ HI).
    + intros r' Hne. now apply effc_set_claims_other.
    + intros q. rewrite effc_set_claims_same. unfold effc. rewrite Hok. cbn. fold l. lia.
  - apply safe_cl_quiet; [exact (i_safe _ _ _ _ HI)|]. apply acc_quiet.
  - intros Hr. exfalso. revert Hr. apply not_resp_after_acc. discriminate.
  - intros q Hq. rewrite effc_set_claims_same in Hq. left. unfold effc. now rewrite Hok.
  - apply pre_cl_nodispose; [exact (i_pre _ _ _ _ HI)|]. intros e q [<-|[]]. discriminate.
  - intros Hcond. left.
    apply (size_noclaim c g a tr t r _ HI Hcond); [intros q; apply cnt_le_app|exact Hown|].
    intros cl Hc. rewrite Hcl in Hc. destruct Hc as [<-|Hc]; [intros (act & eff & E & _); discriminate|].
    apply not_shrinking_other. intros E. apply Hnin. rewrite <- E. now apply in_map.
  - intros e0 [<-|[]]. reflexivity.
Qed.

(** C3/C4: the store (or exchange) of current_ that makes the effective content actual *)
Lemma inv_st_cur c g a tr t r act e rest k :
  Inv c g a tr -> v_cl (view a t) = ClAct r act e :: rest -> k <> KBegin ->
  (ovf_cond c (upd_rec g r (set_ret e)) (tr ++ Conc.tag t [EvAcc k (obj_cur r) true]) -> List.length e < cR c) ->
  Inv c (upd_rec g r (set_ret e)) (set_claims a t rest (set_eff (a_eff a) r None))
      (tr ++ Conc.tag t [EvAcc k (obj_cur r) true]).
Proof.
  intros HI Hcl Hk Hsz.
  assert (Hin : In (ClAct r act e) (v_cl (view a t))) by (rewrite Hcl; now left).
  destruct (i_claim _ _ _ _ HI t _ Hin) as (Hown & Hok). cbn in Hown, Hok. destruct Hok as (Hact & Heff).
  assert (Hlt := owns_lt _ _ _ _ _ _ HI Hown).
  pose proof (i_claim_nd _ _ _ _ HI t) as Hnd. rewrite Hcl in Hnd. cbn in Hnd. inversion Hnd as [|x y Hnin Hnd']; subst.
  destruct (set_ret_facts g r e Hlt) as (H1 & H2 & H3 & H4 & H5).
  apply (inv_claim1 c g a tr t r _ [ClAct r (r_ret (get_rec g r)) e] [] rest).
  - exact HI.
  - exact Hown.
  - exact H1.
  - exact H2.
  - exact H3.
  - exact H4.
  - exact Hcl.
  - intros cl [<-|[]]. reflexivity.
  - intros cl Hc E. apply Hnin. rewrite <- E. now apply in_map.
  - intros cl [].
  - cbn. lia.
  - intros cl [].
  - intros H. exfalso. apply H. reflexivity.
  - apply acc_mild.
  - apply (bal_step g a tr _ _ t _ r).
    + exact (i_bal _ _ _ _ HI).
    + exact H2.
    + exact Hlt.
    + intros r' Hne. apply effc_set_claims_other; auto.
    + intros q. rewrite effc_set_claims_same. rewrite H5. unfold effc. rewrite Heff. cbn. lia.
  - apply safe_cl_quiet; [exact (i_safe _ _ _ _ HI)|]. apply acc_quiet.
  - intros Hr. exfalso. revert Hr. apply not_resp_after_acc. exact Hk.
  - intros q Hq. rewrite effc_set_claims_same, H5 in Hq. left. unfold effc. now rewrite Heff.
  - apply pre_cl_nodispose; [exact (i_pre _ _ _ _ HI)|]. intros e0 q [<-|[]]. discriminate.
  - intros Hcond. left. rewrite H5. now apply Hsz.
  - intros _ q. apply cnt_tag_acc.
  - intros e0 [<-|[]]. unfold inert. cbn. destruct k; try reflexivity. congruence.
  - reflexivity.
Qed.

(** the store of current_ by a push that fills the array: the claim is kept (the scan that follows owns the cells) *)
Lemma inv_st_cur_keep c g a tr t r act e rest k :
  Inv c g a tr -> v_cl (view a t) = ClAct r act e :: rest -> k <> KBegin ->
  Inv c (upd_rec g r (set_ret e)) (set_claims a t (ClAct r e e :: rest) (set_eff (a_eff a) r (Some e)))
      (tr ++ Conc.tag t [EvAcc k (obj_cur r) true]).
Proof.
  intros HI Hcl Hk.
  assert (Hin : In (ClAct r act e) (v_cl (view a t))) by (rewrite Hcl; now left).
  destruct (i_claim _ _ _ _ HI t _ Hin) as (Hown & Hok). cbn in Hown, Hok. destruct Hok as (Hact & Heff).
  assert (Hlt := owns_lt _ _ _ _ _ _ HI Hown).
  pose proof (i_claim_nd _ _ _ _ HI t) as Hnd. rewrite Hcl in Hnd. cbn in Hnd. inversion Hnd as [|x y Hnin Hnd']; subst.
  destruct (set_ret_facts g r e Hlt) as (H1 & H2 & H3 & H4 & H5).
  apply (inv_claim1 c g a tr t r _ [ClAct r (r_ret (get_rec g r)) e] [ClAct r e e] rest).
  - exact HI.
  - exact Hown.
  - exact H1.
  - exact H2.
  - exact H3.
  - exact H4.
  - exact Hcl.
  - intros cl [<-|[]]. reflexivity.
  - intros cl Hc E. apply Hnin. rewrite <- E. now apply in_map.
  - intros cl [<-|[]]. reflexivity.
  - cbn. lia.
  - intros cl [<-|[]]. cbn [claim_ok]. split; [exact H5|cbn [a_eff set_claims]; apply set_eff_same].
  - intros _. discriminate.
  - apply acc_mild.
  - apply (bal_step g a tr _ _ t _ r).
    + exact (i_bal _ _ _ _ HI).
    + exact H2.
    + exact Hlt.
    + intros r' Hne. apply effc_set_claims_other; auto.
    + intros q. rewrite effc_set_claims_same. unfold effc. rewrite Heff. cbn. lia.
  - apply safe_cl_quiet; [exact (i_safe _ _ _ _ HI)|]. apply acc_quiet.
  - intros Hr. exfalso. revert Hr. apply not_resp_after_acc. exact Hk.
  - intros q Hq. rewrite effc_set_claims_same in Hq. left. unfold effc. now rewrite Heff.
  - apply pre_cl_nodispose; [exact (i_pre _ _ _ _ HI)|]. intros e0 q [<-|[]]. discriminate.
  - intros _. right. exists (ClAct r e e). split; [now left|]. exists e, e. split; [reflexivity|apply le_n].
  - intros _ q. apply cnt_tag_acc.
  - intros e0 [<-|[]]. unfold inert. cbn. destruct k; try reflexivity. congruence.
  - reflexivity.
Qed.

(** C5: push past the capacity: the announced entry is dropped *)
Lemma inv_emit_overflow c g a tr t r l p rest :
  Inv c g a tr -> v_cl (view a t) = ClAct r l (l ++ [p]) :: rest -> cR c <= List.length l ->
  Inv c g (set_claims a t rest (set_eff (a_eff a) r None)) (tr ++ Conc.tag t [EvCli "overflow" [p]]).
Proof.
  intros HI Hcl Hfull.
  assert (Hin : In (ClAct r l (l ++ [p])) (v_cl (view a t))) by (rewrite Hcl; now left).
  destruct (i_claim _ _ _ _ HI t _ Hin) as (Hown & Hok). cbn in Hown, Hok. destruct Hok as (Hact & Heff).
  assert (Hlt := owns_lt _ _ _ _ _ _ HI Hown).
  pose proof (i_claim_nd _ _ _ _ HI t) as Hnd. rewrite Hcl in Hnd. cbn in Hnd. inversion Hnd as [|x y Hnin Hnd']; subst.
  destruct (same_g_facts g) as (H1 & H2 & H3).
  apply (inv_claim1 c g a tr t r g [ClAct r (r_ret (get_rec g r)) (r_ret (get_rec g r) ++ [p])] [] rest).
  - exact HI.
  - exact Hown.
  - exact H1.
  - exact H2.
  - exact H3.
  - reflexivity.
  - exact Hcl.
  - intros cl [<-|[]]. reflexivity.
  - intros cl Hc E. apply Hnin. rewrite <- E. now apply in_map.
  - intros cl [].
  - cbn. lia.
  - intros cl [].
  - intros H. exfalso. apply H. reflexivity.
  - intros e [<-|[]]. reflexivity.
  - apply (bal_step g a tr g _ t _ r).
    + exact (i_bal _ _ _ _ HI).
    + reflexivity.
    + exact Hlt.
    + intros r' Hne. now apply effc_set_claims_other.
    + intros q. rewrite effc_set_claims_same. unfold effc. rewrite Heff.
      rewrite !cnt_tag1. cbn. rewrite countZ_snoc. destruct (Z.eqb p q); lia.
  - apply safe_cl_nodispose; [exact (i_safe _ _ _ _ HI)|]. intros e q [<-|[]]. discriminate.
  - intros Hr. exfalso. revert Hr. apply not_resp_last_cli. reflexivity.
  - intros q Hq. rewrite effc_set_claims_same in Hq. left. unfold effc. rewrite Heff. apply in_or_app. now left.
  - apply pre_cl_nodispose; [exact (i_pre _ _ _ _ HI)|]. intros e q [<-|[]]. discriminate.
  - intros Hcond. exfalso.
    assert (Hsmall : List.length (r_ret (get_rec g r)) < cR c).
    { apply (size_noclaim c g a tr t r _ HI Hcond); [intros q; apply cnt_le_app|exact Hown|].
      intros cl Hc. rewrite Hcl in Hc. destruct Hc as [<-|Hc].
      - intros (act & eff & E & Hle). inversion E; subst. rewrite app_length in Hle. cbn in Hle. lia.
      - apply not_shrinking_other. intros E. apply Hnin. rewrite <- E. now apply in_map. }
    lia.
  - intros Hcond. exfalso.
    assert (Hsmall : List.length (r_ret (get_rec g r)) < cR c).
    { apply (size_noclaim c g a tr t r _ HI Hcond); [intros q; apply cnt_le_app|exact Hown|].
      intros cl Hc. rewrite Hcl in Hc. destruct Hc as [<-|Hc].
      - intros (act & eff & E & Hle). inversion E; subst. rewrite app_length in Hle. cbn in Hle. lia.
      - apply not_shrinking_other. intros E. apply Hnin. rewrite <- E. now apply in_map. }
    lia.
  - intros e0 [<-|[]]. reflexivity.
  - reflexivity.
Qed.

(** ** 9. scan markers *)
Lemma cov_one_ext c sv tr es s :
  last_sb tr s = last_sb tr s -> forall t,
  last_sb tr t = Some s ->
  (forall r j v, covered (cH c) sv r j -> v <> 0%Z -> held tr s r j v -> In v (sc_coll sv)) ->
  (forall v, In v (sc_coll sv) -> seen_in tr s (List.length tr) v) ->
  (forall r j v, covered (cH c) sv r j -> v <> 0%Z -> held (tr ++ es) s r j v -> In v (sc_coll sv)) /\
  (forall v, In v (sc_coll sv) -> seen_in (tr ++ es) s (List.length (tr ++ es)) v).
Proof.
  intros _ t Hs Hcv Hsn. pose proof (last_sb_lt _ _ _ Hs) as Hlt. split.
  - intros r j v Hcov Hv Hh. apply (Hcv r j v Hcov Hv). eapply held_prefix; [lia|exact Hh].
  - intros v Hv. rewrite app_length. eapply seen_in_mono; [|apply seen_in_ext; [|apply Hsn; exact Hv]]; lia.
Qed.

Lemma cov_cl_nosb c a tr t es :
  cov_cl c a tr -> (forall e, In e es -> is_cli_named "g_scan_begin" e = false) -> cov_cl c a (tr ++ Conc.tag t es).
Proof.
  intros Hc Hq t' sv Hsv. destruct (Hc t' sv Hsv) as (s & Hs & Hcv & Hsn).
  exists s. rewrite last_sb_nosb by exact Hq. split; [exact Hs|].
  eapply cov_one_ext; eauto.
Qed.

Lemma kept_cl_noend tr t es :
  kept_cl tr -> (forall e, In e es -> is_cli_named "g_scan_end" e = false) -> kept_cl (tr ++ Conc.tag t es).
Proof.
  intros Hs Hq. apply kept_cl_ext; [exact Hs|].
  intros k t' r kept s Hk. apply nth_error_tag in Hk. destruct Hk as (_ & Hk).
  apply nth_error_In in Hk. pose proof (Hq _ Hk) as H. discriminate.
Qed.

Definition sb_evs (r : nat) : list ev := [EvAcc KFaa (obj_sync r) true; EvCli "g_scan_begin" [zn r]].

Lemma last_sb_sb_evs tr t r : last_sb (tr ++ Conc.tag t (sb_evs r)) t = Some (S (List.length tr)).
Proof.
  unfold sb_evs. cbn [Conc.tag map].
  replace (tr ++ [(t, EvAcc KFaa (obj_sync r) true); (t, EvCli "g_scan_begin" [zn r])])
    with ((tr ++ [(t, EvAcc KFaa (obj_sync r) true)]) ++ [(t, EvCli "g_scan_begin" [zn r])])
    by (rewrite <- app_assoc; reflexivity).
  rewrite last_sb_snoc. unfold is_sb. cbn. rewrite Nat.eqb_refl. cbn. rewrite app_length. cbn. f_equal. lia.
Qed.

(** the fetch_add that opens scan(): trace part (the thread is not scanning) ... *)
Lemma inv_trace_sb c g a tr t r :
  Inv c g a tr -> v_scan (view a t) = None -> Inv c g a (tr ++ Conc.tag t (sb_evs r)).
Proof.
  intros HI Hns. assert (HX : X_cl g a (tr ++ Conc.tag t (sb_evs r))).
  { apply (X_transfer g a tr g a t _ (X_of_inv _ _ _ _ HI)); [intros e [<-|[<-|[]]]; reflexivity|auto|auto]. }
  destruct HI. xbullets HX.
  assert (Hnoslot : forall e, In e (sb_evs r) -> is_cli_named "g_slot" e = false) by (intros e [<-|[<-|[]]]; reflexivity).
  assert (Hnoend : forall e, In e (sb_evs r) -> is_cli_named "g_scan_end" e = false) by (intros e [<-|[<-|[]]]; reflexivity).
  apply mkInv.
  - intros r' j. rewrite slot_at_noslot by exact Hnoslot. auto.
  - exact i_zero_unowned.
  - exact i_zero_unlisted.
  - exact i_zero_hi.
  - exact i_list_lt.
  - exact i_rec.
  - exact i_held.
  - exact i_excl.
  - exact i_self.
  - exact i_clr.
  - exact i_unl.
  - exact i_seen.
  - exact i_claim.
  - exact i_claim_nd.
  - exact i_eff.
  - intros p. rewrite !cnt_app. rewrite (i_bal p).
    assert (E : forall name, cnt name p (Conc.tag t (sb_evs r)) = 0%Z \/ ~ In name ["retire"; "dispose"; "overflow"]).
    { intros name. destruct (in_dec string_dec name ["retire"; "dispose"; "overflow"]) as [Hi|Hi]; [left|now right].
      cbn in Hi. destruct Hi as [<-|[<-|[<-|[]]]]; reflexivity. }
    destruct (E "retire") as [->|H]; [|exfalso; apply H; cbn; tauto].
    destruct (E "dispose") as [->|H]; [|exfalso; apply H; cbn; tauto].
    destruct (E "overflow") as [->|H]; [|exfalso; apply H; cbn; tauto]. lia.
  - intros t' sv Hsv. destruct (Nat.eq_dec t' t) as [->|Hne]; [congruence|].
    destruct (i_cov t' sv Hsv) as (s & Hs & Hcv & Hsn). exists s. split.
    + rewrite last_sb_app_other; [exact Hs|]. intros te Hin. eapply is_sb_tag_other; [|exact Hin]. congruence.
    + eapply cov_one_ext; eauto.
  - apply safe_cl_nodispose; [exact i_safe|]. intros e p [<-|[<-|[]]]; discriminate.
  - apply kept_cl_noend; [exact i_kept|exact Hnoend].
  - apply idle_cl_ext; [exact i_idle|]. intros es' e He Hresp. exfalso.
    assert (e = EvCli "g_scan_begin" [zn r]).
    { unfold sb_evs in He. destruct es' as [|x [|y l]]; cbn in He; inversion He; auto. destruct l; discriminate. }
    subst e. discriminate.
  - apply (retd_cl_ext g a tr _ i_retd).
  - intros t' sv r' s H1 H2 H3 p Hp. destruct (Nat.eq_dec t' t) as [->|Hne]; [congruence|].
    rewrite last_sb_app_other in H3 by (intros te Hin; eapply is_sb_tag_other; [|exact Hin]; congruence).
    apply retired_before_ext. eapply i_retd_scan; eauto.
  - apply pre_cl_nodispose; [exact i_pre|]. intros e p [<-|[<-|[]]]; discriminate.
  - exact i_collsz.
  - apply (size_cl_transfer c g a tr g a _ i_size); [apply le_n|intros p; apply cnt_le_app|intros; apply le_n|auto].
  - apply (noovf_cl_transfer c g tr g _ i_noovf); [apply le_n|intros p; apply cnt_le_app|].
    intros p. rewrite cnt_app. unfold sb_evs, cnt, Conc.tag. cbn. lia.
  - exact HX1.
  - exact HX2.
  - exact HX3.
  - exact HX4.
  - exact HX5.
Qed.

Definition with_scan (v : lview) (o : option scanv) : lview := mkV (v_rec v) (v_held v) (v_clr v) o (v_cl v) (v_seen v) (v_op v) (v_val v).

(** ... and the whole step *)
Lemma inv_scan_begin c g a tr t r :
  Inv c g a tr -> v_scan (view a t) = None ->
  Inv c g (upd_view a t (with_scan (view a t) (Some (mkScan [] None None)))) (tr ++ Conc.tag t (sb_evs r)).
Proof.
  intros HI Hns. apply inv_soft; try reflexivity.
  - now apply inv_trace_sb.
  - intros r' H. cbn in H. apply (i_seen _ _ _ _ HI t r' H).
  - intros sv H. cbn in H. inversion H; subst sv. exists (S (List.length tr)). split; [apply last_sb_sb_evs|].
    split; [intros r' j v []|intros v []].
  - intros sv r' s H1 H2 H3 p Hp. rewrite last_sb_sb_evs in H3. inversion H3; subst s.
    apply retired_before_ext. eapply retired_before_mono; [|apply (i_retd _ _ _ _ HI r' p Hp)]. lia.
  - intros sv H. cbn in H. inversion H; subst sv. reflexivity.
Qed.

(** the return of scan(): the cells kept were all seen in some hazard slot during the scan *)
Lemma inv_trace_scan_end c g a tr t r kept sv :
  Inv c g a tr -> v_scan (view a t) = Some sv -> incl kept (sc_coll sv) ->
  Inv c g a (tr ++ Conc.tag t [ev_scan_end r kept]).
Proof.
  intros HI Hsv Hincl.
  assert (Hnr : ~ resp_last (tr ++ Conc.tag t [ev_scan_end r kept]) t).
  { intros H. apply (resp_last_same tr t [] (ev_scan_end r kept)) in H. discriminate. }
  assert (HX : X_cl g a (tr ++ Conc.tag t [ev_scan_end r kept])).
  { apply (X_transfer g a tr g a t _ (X_of_inv _ _ _ _ HI)); [intros e [<-|[]]; reflexivity|auto|auto]. }
  destruct HI. xbullets HX.
  assert (Hnoslot : forall e, In e [ev_scan_end r kept] -> is_cli_named "g_slot" e = false) by (intros e [<-|[]]; reflexivity).
  assert (Hnosb : forall e, In e [ev_scan_end r kept] -> is_cli_named "g_scan_begin" e = false) by (intros e [<-|[]]; reflexivity).
  apply mkInv.
  - intros r' j. rewrite slot_at_noslot by exact Hnoslot. auto.
  - exact i_zero_unowned.
  - exact i_zero_unlisted.
  - exact i_zero_hi.
  - exact i_list_lt.
  - exact i_rec.
  - exact i_held.
  - exact i_excl.
  - exact i_self.
  - exact i_clr.
  - exact i_unl.
  - exact i_seen.
  - exact i_claim.
  - exact i_claim_nd.
  - exact i_eff.
  - intros p. rewrite !cnt_app. rewrite (i_bal p).
    assert (E : forall name, In name ["retire"; "dispose"; "overflow"] -> cnt name p (Conc.tag t [ev_scan_end r kept]) = 0%Z).
    { intros name Hi. apply cnt_tag_none. intros e [<-|[]].
      cbn in Hi. destruct Hi as [<-|[<-|[<-|[]]]]; destruct kept as [|x l]; reflexivity. }
    rewrite !E by (cbn; tauto). lia.
  - apply cov_cl_nosb; [exact i_cov|exact Hnosb].
  - apply safe_cl_nodispose; [exact i_safe|]. intros e p [<-|[]]; discriminate.
  - apply kept_cl_ext; [exact i_kept|].
    intros k t' r' kept' s Hk Hsb p Hp. apply nth_error_tag in Hk. destruct Hk as (-> & Hk).
    destruct k as [|k]; [|destruct k; discriminate]. cbn in Hk. inversion Hk; subst kept'.
    cbn in Hsb. rewrite app_nil_r in Hsb.
    destruct (i_cov t sv Hsv) as (s' & Hs' & _ & Hsn). rewrite Hs' in Hsb. inversion Hsb; subst s'.
    rewrite Nat.add_0_r. apply seen_in_ext; [lia|]. apply Hsn. now apply Hincl.
  - intros t' H. destruct (Nat.eq_dec t' t) as [->|Hne]; [contradiction|].
    apply i_idle. apply (resp_last_other tr t' t [ev_scan_end r kept]); [congruence|exact H].
  - apply (retd_cl_ext g a tr _ i_retd).
  - apply (retd_scan_cl_ext g a tr t _ i_retd_scan). exact Hnosb.
  - apply pre_cl_nodispose; [exact i_pre|]. intros e p [<-|[]]; discriminate.
  - exact i_collsz.
  - apply (size_cl_transfer c g a tr g a _ i_size); [apply le_n|intros p; apply cnt_le_app|intros; apply le_n|auto].
  - apply (noovf_cl_transfer c g tr g _ i_noovf); [apply le_n|intros p; apply cnt_le_app|].
    intros p. rewrite cnt_app. rewrite (cnt_tag_none "overflow" p t [ev_scan_end r kept]); [lia|].
    intros e [<-|[]]. destruct kept as [|x l]; reflexivity.
  - exact HX1.
  - exact HX2.
  - exact HX3.
  - exact HX4.
  - exact HX5.
Qed.

Lemma inv_scan_end c g a tr t r kept sv :
  Inv c g a tr -> v_scan (view a t) = Some sv -> incl kept (sc_coll sv) ->
  Inv c g (upd_view a t (with_scan (view a t) None)) (tr ++ Conc.tag t [ev_scan_end r kept]).
Proof.
  intros HI Hsv Hincl. apply inv_soft; try reflexivity.
  - eapply inv_trace_scan_end; eauto.
  - intros r' H. cbn in H. apply (i_seen _ _ _ _ HI t r' H).
  - intros sv' H. discriminate.
  - intros sv' r' s H. discriminate.
  - intros sv' H. discriminate.
Qed.

(** ** 10. disposer calls of stage 2 *)
Lemma dispose_mild l e : In e (map ev_dispose l) -> mild e = true.
Proof. intros H. apply in_map_iff in H. destruct H as (x & <- & _). reflexivity. Qed.

Lemma cnt_dispose_list q t l : cnt "dispose" q (Conc.tag t (map ev_dispose l)) = countZ q l.
Proof. apply cnt_tag_map. intros x. reflexivity. Qed.
Lemma cnt_retire_dispose_list q t l : cnt "retire" q (Conc.tag t (map ev_dispose l)) = 0%Z.
Proof. apply cnt_tag_none. intros e H. apply in_map_iff in H. destruct H as (x & <- & _). reflexivity. Qed.
Lemma cnt_overflow_dispose_list q t l : cnt "overflow" q (Conc.tag t (map ev_dispose l)) = 0%Z.
Proof. apply cnt_tag_none. intros e H. apply in_map_iff in H. destruct H as (x & <- & _). reflexivity. Qed.

Lemma inv_emit_dispose c g a tr t r l freed kept rest :
  Inv c g a tr -> v_cl (view a t) = ClAct r l l :: rest ->
  (forall p, countZ p l = (countZ p freed + countZ p kept)%Z) -> List.length kept <= List.length l ->
  safe_cl c (tr ++ Conc.tag t (map ev_dispose freed)) ->
  pre_cl (tr ++ Conc.tag t (map ev_dispose freed)) ->
  Inv c g (set_claims a t (ClAct r l kept :: rest) (set_eff (a_eff a) r (Some kept)))
      (tr ++ Conc.tag t (map ev_dispose freed)).
Proof.
  intros HI Hcl Hsplit Hlen Hsafe Hpre.
  assert (Hin : In (ClAct r l l) (v_cl (view a t))) by (rewrite Hcl; now left).
  destruct (i_claim _ _ _ _ HI t _ Hin) as (Hown & Hok). cbn in Hown, Hok. destruct Hok as (Hact & Heff).
  assert (Hlt := owns_lt _ _ _ _ _ _ HI Hown).
  pose proof (i_claim_nd _ _ _ _ HI t) as Hnd. rewrite Hcl in Hnd. cbn in Hnd. inversion Hnd as [|x y Hnin Hnd']; subst x y.
  destruct (same_g_facts g) as (H1 & H2 & H3).
  apply (inv_claim1 c g a tr t r g [ClAct r l l] [ClAct r l kept] rest).
  - exact HI.
  - exact Hown.
  - exact H1.
  - exact H2.
  - exact H3.
  - reflexivity.
  - exact Hcl.
  - intros cl [<-|[]]. reflexivity.
  - intros cl Hc E. apply Hnin. rewrite <- E. now apply in_map.
  - intros cl [<-|[]]. reflexivity.
  - cbn. lia.
  - intros cl [<-|[]]. cbn. rewrite set_eff_same. auto.
  - intros _. discriminate.
  - apply dispose_mild.
  - apply (bal_step g a tr g _ t _ r).
    + exact (i_bal _ _ _ _ HI).
    + reflexivity.
    + exact Hlt.
    + intros r' Hne. now apply effc_set_claims_other.
    + intros q. rewrite effc_set_claims_same. unfold effc. rewrite Heff.
      rewrite cnt_dispose_list, cnt_retire_dispose_list, cnt_overflow_dispose_list. rewrite (Hsplit q). lia.
  - exact Hsafe.
  - intros Hr. exfalso. destruct freed as [|x freed'] using rev_ind.
    + cbn in Hr. rewrite app_nil_r in Hr. destruct (i_idle _ _ _ _ HI t Hr) as (_ & E). rewrite Hcl in E. discriminate.
    + rewrite map_app in Hr. cbn in Hr. apply (resp_last_same tr t) in Hr. discriminate.
  - intros q Hq. rewrite effc_set_claims_same in Hq. left. unfold effc. rewrite Heff.
    apply countZ_pos_In. apply countZ_pos_In in Hq. rewrite (Hsplit q). pose proof (countZ_nonneg q freed). lia.
  - exact Hpre.
  - intros _. right. exists (ClAct r l kept). split; [now left|]. exists l, kept. split; [reflexivity|exact Hlen].
  - intros _ q. apply cnt_overflow_dispose_list.
  - intros e0 He. apply in_map_iff in He. destruct He as (x0 & <- & _). reflexivity.
  - reflexivity.
Qed.

Lemma retire_once_dispose_ext tr t l : retire_once (tr ++ Conc.tag t (map ev_dispose l)) -> retire_once tr.
Proof. intros H p. specialize (H p). rewrite cnt_app, cnt_retire_dispose_list in H. lia. Qed.

Lemma firstn_map {A B} (f : A -> B) n l : firstn n (map f l) = map f (firstn n l).
Proof. revert l; induction n as [|n IH]; intros [|x l]; cbn; auto. now rewrite IH. Qed.

(** the first sentence of C01 for the disposer calls of one stage 2 *)
Lemma safe_cl_dispose c g a tr t sv freed :
  Inv c g a tr -> v_scan (view a t) = Some sv -> sc_todo sv = Some [] ->
  (forall p, In p freed -> (cInplace c = true -> retire_once tr) -> ~ In p (sc_coll sv)) ->
  safe_cl c (tr ++ Conc.tag t (map ev_dispose freed)).
Proof.
  intros HI Hsv Htodo Hfr. apply safe_cl_ext; [exact (i_safe _ _ _ _ HI)|].
  intros k t' p s Hk Hsb Hro Hp0 r j Hheld.
  apply nth_error_tag in Hk. destruct Hk as (-> & Hk).
  rewrite nth_error_map in Hk. destruct (nth_error freed k) as [x|] eqn:Ex; [|discriminate]. cbn in Hk.
  inversion Hk; subst x. apply nth_error_In in Ex.
  unfold Conc.tag in Hsb, Hro, Hheld. rewrite !firstn_map in *. fold (Conc.tag t (map ev_dispose (firstn k freed))) in Hsb, Hro.
  fold (Conc.tag t (map ev_dispose (firstn (S k) freed))) in Hheld.
  rewrite last_sb_mild in Hsb by apply dispose_mild.
  destruct (i_cov _ _ _ _ HI t sv Hsv) as (s' & Hs' & Hcv & _). rewrite Hs' in Hsb. inversion Hsb; subst s'.
  pose proof (last_sb_lt _ _ _ Hs') as Hlt.
  apply (Hfr p Ex).
  - intros Hi. eapply retire_once_dispose_ext. exact (Hro Hi).
  - apply (Hcv r j p); [|exact Hp0|eapply held_prefix; [|exact Hheld]; lia].
    unfold covered. rewrite Htodo. left. intros [].
Qed.

(** everything a stage 2 disposes was retired before the scan began *)
Lemma pre_cl_dispose c g a tr t sv r l e rest freed :
  Inv c g a tr -> v_scan (view a t) = Some sv -> v_rec (view a t) = Some r ->
  v_cl (view a t) = ClAct r l e :: rest -> (forall p, In p freed -> In p e) ->
  pre_cl (tr ++ Conc.tag t (map ev_dispose freed)).
Proof.
  intros HI Hsv Hrec Hcl Hsub. apply pre_cl_ext; [exact (i_pre _ _ _ _ HI)|].
  intros k t' p Hk. apply nth_error_tag in Hk. destruct Hk as (-> & Hk).
  rewrite nth_error_map in Hk. destruct (nth_error freed k) as [x|] eqn:Ex; [|discriminate]. cbn in Hk.
  inversion Hk; subst x. apply nth_error_In in Ex.
  destruct (i_cov _ _ _ _ HI t sv Hsv) as (s & Hs & _). exists s. split.
  - unfold Conc.tag. rewrite firstn_map. fold (Conc.tag t (firstn k (map ev_dispose freed))).
    rewrite firstn_map. rewrite last_sb_mild by apply dispose_mild. exact Hs.
  - apply retired_before_ext. eapply (i_retd_scan _ _ _ _ HI t sv r s Hsv Hrec Hs p).
    assert (Hin : In (ClAct r l e) (v_cl (view a t))) by (rewrite Hcl; now left).
    destruct (i_claim _ _ _ _ HI t _ Hin) as (_ & _ & Heff). cbn in Heff. unfold effc. rewrite Heff. now apply Hsub.
Qed.

(** ** 11. help_scan moves one cell: the load of the destination's current_ (C2d) *)
Lemma inv_ld_cur_move c g a tr t r h srcl x tl rest :
  Inv c g a tr -> v_rec (view a t) = Some r -> v_scan (view a t) = None -> v_cl (view a t) = ClAct h srcl (x :: tl) :: rest ->
  (forall cl, In cl rest -> crec cl <> r) -> h <> r ->
  let l := r_ret (get_rec g r) in
  Inv c g (set_claims a t (ClAct r l (l ++ [x]) :: ClAct h srcl tl :: rest)
             (set_eff (set_eff (a_eff a) h (Some tl)) r (Some (l ++ [x]))))
      (tr ++ Conc.tag t [EvAcc KLd (obj_cur r) true]).
Proof.
  intros HI Hrec Hns Hcl Hrest Hhr l.
  assert (Hinh : In (ClAct h srcl (x :: tl)) (v_cl (view a t))) by (rewrite Hcl; now left).
  destruct (i_claim _ _ _ _ HI t _ Hinh) as (Hownh & Hokh). cbn in Hownh, Hokh. destruct Hokh as (Hacth & Heffh).
  assert (Hown : owns (view a t) r) by (left; exact Hrec).
  assert (Hlt := owns_lt _ _ _ _ _ _ HI Hown). assert (Hlth := owns_lt _ _ _ _ _ _ HI Hownh).
  assert (Hno : forall cl, In cl (v_cl (view a t)) -> crec cl <> r).
  { intros cl Hin. rewrite Hcl in Hin. destruct Hin as [<-|Hin]; [exact Hhr|now apply Hrest]. }
  assert (Hnone := eff_none _ _ _ _ _ _ HI Hown Hno).
  pose proof (i_claim_nd _ _ _ _ HI t) as Hnd. rewrite Hcl in Hnd. cbn in Hnd. inversion Hnd as [|y z Hnin Hnd']; subst y z.
  set (eff' := set_eff (set_eff (a_eff a) h (Some tl)) r (Some (l ++ [x]))).
  assert (Eh : eff' h = Some tl) by (unfold eff'; rewrite set_eff_other by exact Hhr; apply set_eff_same).
  assert (Er : eff' r = Some (l ++ [x])) by (unfold eff'; apply set_eff_same).
  assert (Eo : forall r', r' <> r -> r' <> h -> eff' r' = a_eff a r').
  { intros r' H1 H2. unfold eff'. rewrite !set_eff_other by assumption. reflexivity. }
  apply (inv_claims c g a tr t g eff' (ClAct r l (l ++ [x]) :: ClAct h srcl tl :: rest)).
  - exact HI.
  - reflexivity.
  - reflexivity.
  - intros r'. auto.
  - intros r' Hn. split; [reflexivity|]. apply Eo; intros ->; contradiction.
  - intros cl [<-|[<-|Hin]].
    + split; [exact Hown|]. cbn. split; [reflexivity|exact Er].
    + split; [exact Hownh|]. cbn. split; [exact Hacth|exact Eh].
    + assert (Hin' : In cl (v_cl (view a t))) by (rewrite Hcl; now right).
      destruct (i_claim _ _ _ _ HI t cl Hin') as (H1 & H2). split; [exact H1|].
      assert (crec cl <> r) by now apply Hrest.
      assert (crec cl <> h) by (intros E; apply Hnin; rewrite <- E; now apply in_map).
      destruct cl; cbn in *; rewrite Eo by assumption; exact H2.
  - cbn. constructor; [|constructor; [exact Hnin|exact Hnd']].
    intros [E|Hin]; [congruence|]. apply in_map_iff in Hin. destruct Hin as (cl & E & Hin). eapply Hrest; eauto.
  - intros r0 y Ho0 Hy. destruct (Nat.eq_dec r0 r) as [->|Hn0]; [eexists; split; [now left|reflexivity]|].
    destruct (Nat.eq_dec r0 h) as [->|Hn1]; [eexists; split; [right; now left|reflexivity]|].
    rewrite Eo in Hy by assumption.
    destruct (i_eff _ _ _ _ HI r0 y Hy) as (t' & cl & H1 & H2).
    assert (t' = t).
    { eapply (i_excl _ _ _ _ HI); [|exact Ho0]. rewrite <- H2. apply (i_claim _ _ _ _ HI t' cl H1). }
    subst t'. rewrite Hcl in H1. destruct H1 as [<-|H1]; [cbn in H2; congruence|].
    exists cl. split; [right; now right|exact H2].
  - apply acc_mild.
  - intros q. rewrite !cnt_app, !cnt_tag_acc. rewrite (i_bal _ _ _ _ HI q). rewrite !Z.add_0_r. f_equal.
    set (a1 := mkAux (a_view (set_claims a t (ClAct r l (l ++ [x]) :: ClAct h srcl tl :: rest) eff'))
                     (set_eff (a_eff a) h (Some tl))).
    rewrite (pend_change q g a1 g (set_claims a t (ClAct r l (l ++ [x]) :: ClAct h srcl tl :: rest) eff') r eq_refl Hlt).
    2:{ intros r' Hne. unfold effc; cbn. unfold eff'. now rewrite set_eff_other by exact Hne. }
    rewrite (pend_change q g a g a1 h eq_refl Hlth).
    2:{ intros r' Hne. unfold effc, a1; cbn. now rewrite set_eff_other by exact Hne. }
    assert (E1 : effc g a h = x :: tl) by (unfold effc; now rewrite Heffh).
    assert (E2 : effc g a1 h = tl) by (unfold effc, a1; cbn; now rewrite set_eff_same).
    assert (E3 : effc g a1 r = l) by (unfold effc, a1; cbn; rewrite set_eff_other by congruence; now rewrite Hnone).
    assert (E4 : effc g (set_claims a t (ClAct r l (l ++ [x]) :: ClAct h srcl tl :: rest) eff') r = l ++ [x])
      by (unfold effc; cbn; now rewrite Er).
    rewrite E1, E2, E3, E4. rewrite countZ_snoc. cbn. lia.
  - apply safe_cl_quiet; [exact (i_safe _ _ _ _ HI)|]. apply acc_quiet.
  - intros Hr. exfalso. revert Hr. apply not_resp_after_acc. discriminate.
  - intros r0 q Ho0 Hq.
    assert (Hold : forall r1, In q (effc g a r1) ->
              retired_before (tr ++ Conc.tag t [EvAcc KLd (obj_cur r) true]) (List.length (tr ++ Conc.tag t [EvAcc KLd (obj_cur r) true])) q)
      by (intros r1 H1; apply (retd_cl_ext g a tr _ (i_retd _ _ _ _ HI) r1 q H1)).
    destruct (Nat.eq_dec r0 r) as [->|Hn0].
    + unfold effc in Hq. cbn in Hq. rewrite Er in Hq. apply in_app_or in Hq. destruct Hq as [Hq|[<-|[]]].
      * apply (Hold r). unfold effc. now rewrite Hnone.
      * apply (Hold h). unfold effc. rewrite Heffh. now left.
    + destruct (Nat.eq_dec r0 h) as [->|Hn1].
      * unfold effc in Hq. cbn in Hq. rewrite Eh in Hq. apply (Hold h). unfold effc. rewrite Heffh. now right.
      * apply (Hold r0). unfold effc in *. cbn in Hq. now rewrite Eo in Hq by assumption.
  - intros sv r0 s H1. congruence.
  - apply pre_cl_nodispose; [exact (i_pre _ _ _ _ HI)|]. intros e q [<-|[]]. discriminate.
  - intros Hcond r0 Ho0.
    assert (Hold : ovf_cond c g tr) by (eapply ovf_cond_weaken; [exact Hcond|apply le_n|intros q; apply cnt_le_app]).
    destruct (Nat.eq_dec r0 r) as [->|Hn0].
    { left. apply (size_noclaim c g a tr t r tr HI Hold); [intros; lia|exact Hown|].
      intros cl Hc. apply not_shrinking_other. now apply Hno. }
    destruct (i_size _ _ _ _ HI Hold r0) as [H|(t' & cl & H1 & H2)]; [now left|right].
    pose proof (shrinking_crec _ _ H2) as Ec.
    assert (t' = t).
    { eapply (i_excl _ _ _ _ HI); [|exact Ho0]. rewrite <- Ec. apply (i_claim _ _ _ _ HI t' cl H1). }
    subst t'. rewrite Hcl in H1. destruct H1 as [<-|H1].
    + cbn in Ec. subst r0. exists (ClAct h srcl tl). split; [right; now left|].
      destruct H2 as (act & eff & E & Hle). inversion E; subst act eff. exists srcl, tl. split; [reflexivity|]. cbn in Hle. lia.
    + exists cl. split; [right; now right|exact H2].
  - intros _ q. apply cnt_tag_acc.
  - intros e0 [<-|[]]. reflexivity.
  - reflexivity.
Qed.

(** ** 12. progress of stage 1 *)
Definition with_seen (v : lview) (l : list nat) : lview := mkV (v_rec v) (v_held v) (v_clr v) (v_scan v) (v_cl v) l (v_op v) (v_val v).

Lemma inv_set_seen c g a tr t :
  Inv c g a tr -> Inv c g (upd_view a t (with_seen (view a t) (g_list g))) tr.
Proof.
  intros HI. apply inv_soft; try reflexivity; [exact HI| | | |].
  - intros r H. exact H.
  - intros sv H. cbn in H. apply (i_cov _ _ _ _ HI t sv H).
  - intros sv r s H1 H2 H3 p Hp. cbn in H1, H2. eapply (i_retd_scan _ _ _ _ HI); eauto.
  - intros sv H. cbn in H. eapply (i_collsz _ _ _ _ HI); eauto.
Qed.

Definition scan_view (v : lview) (sv : scanv) (seen : list nat) : lview :=
  mkV (v_rec v) (v_held v) (v_clr v) (Some sv) (v_cl v) seen (v_op v) (v_val v).

(** generic: the scanning thread replaces its scan view by one whose coverage follows from the old one *)
Lemma inv_scan_step c g a tr t sv sv' seen :
  Inv c g a tr -> v_scan (view a t) = Some sv ->
  (forall r, In r seen -> In r (g_list g)) ->
  (forall s, last_sb tr t = Some s ->
     (forall r j v, covered (cH c) sv r j -> v <> 0%Z -> held tr s r j v -> In v (sc_coll sv)) ->
     (forall v, In v (sc_coll sv) -> seen_in tr s (List.length tr) v) ->
     (forall r j v, covered (cH c) sv' r j -> v <> 0%Z -> held tr s r j v -> In v (sc_coll sv')) /\
     (forall v, In v (sc_coll sv') -> seen_in tr s (List.length tr) v)) ->
  (collsz_ok c g sv -> collsz_ok c g sv') ->
  Inv c g (upd_view a t (scan_view (view a t) sv' seen)) tr.
Proof.
  intros HI Hsv Hseen Hstep Hcz. apply inv_soft; try reflexivity; [exact HI|exact Hseen| | |].
  - intros sv0 H. cbn in H. inversion H; subst sv0.
    destruct (i_cov _ _ _ _ HI t sv Hsv) as (s & Hs & Hcv & Hsn). exists s. split; [exact Hs|].
    apply Hstep; assumption.
  - intros sv0 r s H1 H2 H3 p Hp. cbn in H2. eapply (i_retd_scan _ _ _ _ HI); eauto.
  - intros sv0 H. cbn in H. inversion H; subst sv0. apply Hcz. eapply (i_collsz _ _ _ _ HI); eauto.
Qed.

Lemma held_slot c g a tr s r j v t : Inv c g a tr -> last_sb tr t = Some s -> held tr s r j v -> gslot g r j = v.
Proof.
  intros HI Hs Hh. rewrite <- (i_slot _ _ _ _ HI). eapply held_now; [|exact Hh].
  pose proof (last_sb_lt _ _ _ Hs). lia.
Qed.

Definition pos_sv (H : nat) (coll : list Z) (r' : nat) (l' : list nat) (k : nat) : scanv :=
  if Nat.ltb k H then mkScan coll (Some (r' :: l')) (Some (r', k)) else mkScan coll (Some l') None.

Lemma pos_sv_coll H coll r' l' k : sc_coll (pos_sv H coll r' l' k) = coll.
Proof. unfold pos_sv. destruct (Nat.ltb k H); reflexivity. Qed.

Lemma covered_pos H coll r' l' k r j :
  k <= H -> covered H (pos_sv H coll r' l' k) r j -> ~ In r (r' :: l') \/ (r = r' /\ (j < k \/ H <= j)).
Proof.
  intros Hk. unfold pos_sv. destruct (Nat.ltb_spec k H) as [Hlt|Hge]; unfold covered; cbn.
  - intros [H1|(k0 & E & H2)]; [now left|]. inversion E; subst. right. auto.
  - intros [H1|(k0 & E & _)]; [|discriminate]. destruct (Nat.eq_dec r r') as [->|Hne].
    + right. split; [reflexivity|]. lia.
    + left. intros [E|Hin]; [congruence|contradiction].
Qed.

(** thread_list_.load() at the beginning of stage 1 *)
Lemma step_ld_head_scan c g a tr t coll :
  Inv c g a tr -> v_scan (view a t) = Some (mkScan coll None None) ->
  Inv c g (upd_view a t (scan_view (view a t) (mkScan coll (Some (g_list g)) None) (g_list g)))
      (tr ++ Conc.tag t [EvAcc KLd obj_head true]).
Proof.
  intros HI Hsv. assert (HI' := inv_acc c g a tr t KLd obj_head true HI ltac:(discriminate)).
  eapply inv_scan_step; [exact HI'|exact Hsv|auto| |].
  - intros s Hs Hcv Hsn. split; [|exact Hsn].
    intros r j v Hc Hv Hh. exfalso. apply Hv. rewrite <- (held_slot _ _ _ _ _ _ _ _ _ HI' Hs Hh).
    unfold covered in Hc. cbn in Hc. destruct Hc as [Hc|(k & E & _)]; [|discriminate].
    apply (i_zero_unlisted _ _ _ _ HI'). exact Hc.
  - unfold collsz_ok. cbn. intros ->. cbn. lia.
Qed.

(** owner_rec_.load() of the next record *)
Lemma step_ld_owner_scan c g a tr t coll r' l' seen :
  Inv c g a tr -> v_scan (view a t) = Some (mkScan coll (Some (r' :: l')) None) -> v_seen (view a t) = seen ->
  let sv' := if r_owner (get_rec g r') then pos_sv (cH c) coll r' l' 0 else mkScan coll (Some l') None in
  Inv c g (upd_view a t (scan_view (view a t) sv' seen)) (tr ++ Conc.tag t [EvAcc KLd (obj_owner r') true]).
Proof.
  intros HI Hsv Hseen sv'. assert (HI' := inv_acc c g a tr t KLd (obj_owner r') true HI ltac:(discriminate)).
  eapply inv_scan_step; [exact HI'|exact Hsv| | |].
  { intros r H. subst seen. apply (i_seen _ _ _ _ HI' t r H). }
  { intros s Hs Hcv Hsn. unfold sv'. destruct (r_owner (get_rec g r')) eqn:Eo.
  - rewrite pos_sv_coll. split; [|exact Hsn].
    intros r j v Hc Hv Hh. apply covered_pos in Hc; [|lia].
    destruct Hc as [Hc|(-> & [Hc|Hc])]; [| lia |].
    + apply (Hcv r j v); [|exact Hv|exact Hh]. unfold covered; cbn. now left.
    + exfalso. apply Hv. rewrite <- (held_slot _ _ _ _ _ _ _ _ _ HI' Hs Hh). now apply (i_zero_hi _ _ _ _ HI').
  - split; [|exact Hsn]. cbn.
    intros r j v Hc Hv Hh. unfold covered in Hc; cbn in Hc. destruct Hc as [Hc|(k & E & _)]; [|discriminate].
    destruct (Nat.eq_dec r r') as [->|Hne].
    + exfalso. apply Hv. rewrite <- (held_slot _ _ _ _ _ _ _ _ _ HI' Hs Hh). now apply (i_zero_unowned _ _ _ _ HI').
    + apply (Hcv r j v); [|exact Hv|exact Hh]. unfold covered; cbn. left. intros [E|Hin]; [congruence|contradiction]. }
  unfold collsz_ok, sv'. cbn [sc_todo sc_cur sc_coll]. intros Hc.
  destruct (r_owner (get_rec g r')); [|cbn [sc_todo sc_cur sc_coll]; cbn [List.length] in Hc; nia].
  unfold pos_sv. destruct (Nat.ltb_spec 0 (cH c)); cbn [sc_todo sc_cur sc_coll]; cbn [List.length] in *; nia.
Qed.

(** hazards_[k].load() *)
Lemma step_ld_slot_scan c g a tr t coll r' l' k seen :
  Inv c g a tr -> k < cH c ->
  v_scan (view a t) = Some (mkScan coll (Some (r' :: l')) (Some (r', k))) -> v_seen (view a t) = seen ->
  let v0 := gslot g r' k in
  let coll' := if Z.eqb v0 0 then coll else coll ++ [v0] in
  Inv c g (upd_view a t (scan_view (view a t) (pos_sv (cH c) coll' r' l' (S k)) seen))
      (tr ++ Conc.tag t [EvAcc KLd (obj_slot r' k) true]).
Proof.
  intros HI Hk Hsv Hseen v0 coll'.
  assert (HI' := inv_acc c g a tr t KLd (obj_slot r' k) true HI ltac:(discriminate)).
  eapply inv_scan_step; [exact HI'|exact Hsv| | |].
  { intros r H. subst seen. apply (i_seen _ _ _ _ HI' t r H). }
  { intros s Hs Hcv Hsn. rewrite pos_sv_coll. cbn [sc_coll] in *.
  assert (Hsub : forall v, In v coll -> In v coll').
  { intros v H. unfold coll'. destruct (Z.eqb v0 0); [exact H|apply in_or_app; now left]. }
  split.
  - intros r j v Hc Hv Hh. apply covered_pos in Hc; [|lia].
    assert (Hold : covered (cH c) (mkScan coll (Some (r' :: l')) (Some (r', k))) r j -> In v coll')
      by (intros H; apply Hsub; apply (Hcv r j v H Hv Hh)).
    destruct Hc as [Hc|(-> & [Hc|Hc])].
    + apply Hold. unfold covered; cbn. now left.
    + destruct (Nat.eq_dec j k) as [->|Hne].
      * pose proof (held_slot _ _ _ _ _ _ _ _ _ HI' Hs Hh) as E. fold v0 in E. subst v.
        unfold coll'. destruct (Z.eqb_spec v0 0); [contradiction|]. apply in_or_app. right. now left.
      * apply Hold. unfold covered; cbn. right. exists k. split; [reflexivity|]. lia.
    + apply Hold. unfold covered; cbn. right. exists k. split; [reflexivity|]. lia.
  - intros v Hv. unfold coll' in Hv. destruct (Z.eqb_spec v0 0) as [E0|E0]; [now apply Hsn|].
    apply in_app_or in Hv. destruct Hv as [Hv|[<-|[]]]; [now apply Hsn|].
    pose proof (last_sb_lt _ _ _ Hs) as Hlt.
    exists r', k, (List.length (tr ++ Conc.tag t [EvAcc KLd (obj_slot r' k) true])). split; [lia|].
    rewrite firstn_all. apply (i_slot _ _ _ _ HI'). }
  unfold collsz_ok. cbn [sc_todo sc_cur sc_coll]. intros Hc.
  assert (Hl : List.length coll' <= S (List.length coll)).
  { unfold coll'. destruct (Z.eqb v0 0); [lia|]. rewrite app_length. cbn. lia. }
  unfold pos_sv. destruct (Nat.ltb_spec (S k) (cH c)); cbn [sc_todo sc_cur sc_coll]; cbn [List.length] in *; nia.
Qed.

(** ** 13. steps that the trace clauses about operations, last stores and sources look at *)
Lemma same_g_irrel g :
  g_list g = g_list g /\ List.length (g_recs g) = List.length (g_recs g) /\
  (forall r, r_owner (get_rec g r) = r_owner (get_rec g r) /\ r_slots (get_rec g r) = r_slots (get_rec g r) /\
             r_ret (get_rec g r) = r_ret (get_rec g r)).
Proof. repeat split. Qed.

Lemma X_views_same g a tr t o val :
  X_cl g a tr -> forall t', t' <> t -> 
  v_rec (view (upd_view a t (with_x (view a t) o val)) t') = v_rec (view a t') /\
  v_op (view (upd_view a t (with_x (view a t) o val)) t') = v_op (view a t') /\
  v_val (view (upd_view a t (with_x (view a t) o val)) t') = v_val (view a t').
Proof. intros _ t' Hne. rewrite view_upd_other by exact Hne. auto. Qed.

(** one client event that starts an operation: the thread records it *)
Lemma inv_emit_open c g a tr t e :
  Inv c g a tr -> neutral e = true -> xplain e = true -> is_opstart e = true -> is_resp e = false ->
  Inv c g (upd_view a t (with_x (view a t) (Some e) (v_val (view a t)))) (tr ++ Conc.tag t [e]).
Proof.
  intros HI Hn Hx Hos Hnr. destruct (same_g_irrel g) as (E1 & E2 & E3).
  apply (inv_quiet_step c g g a tr t [e]); auto.
  - intros e0 [<-|[]]. exact Hn.
  - intros es' e0 He Hr. exfalso. assert (e0 = e) by (destruct es' as [|y es'']; cbn in He; inversion He; auto; destruct es''; discriminate).
    subst e0. congruence.
  - destruct (X_of_inv _ _ _ _ HI) as (X1 & X2 & X3 & X4 & X5).
    assert (Hxl : forall e0, In e0 [e] -> xplain e0 = true) by (intros e0 [<-|[]]; exact Hx).
    split; [|split; [|split; [|split]]].
    + now apply TrOK_xplain.
    + intros t'. rewrite att_at_xplain by exact Hxl. rewrite X2. vcase t' t; reflexivity.
    + intros t' e0 Ho. vcase t' t.
      * cbn in Ho. inversion Ho; subst e0. rewrite open_op_same. unfold op_fold. cbn. unfold op_upd. now rewrite Hos.
      * rewrite open_op_other by assumption. now apply X3.
    + intros t' r j x ok Hv. apply val_pat_ext; [|right; intros e0 He0; apply xplain_pat_ok; auto].
      eapply X4. vcase t' t; exact Hv.
    + intros k. rewrite src_at_xplain by exact Hxl. apply X5.
Qed.

(** events after which no operation is open (a response), or that do not matter for it: the record is cleared *)
Lemma inv_emit_close c g a tr t es :
  Inv c g a tr -> (forall e, In e es -> neutral e = true) -> (forall e, In e es -> xplain e = true) ->
  (forall es' e, es = es' ++ [e] -> is_resp e = true -> idle (view a t)) ->
  Inv c g (upd_view a t (with_x (view a t) None (v_val (view a t)))) (tr ++ Conc.tag t es).
Proof.
  intros HI Hn Hx Hr. destruct (same_g_irrel g) as (E1 & E2 & E3).
  apply (inv_quiet_step c g g a tr t es); auto.
  destruct (X_of_inv _ _ _ _ HI) as (X1 & X2 & X3 & X4 & X5).
  split; [|split; [|split; [|split]]].
  - now apply TrOK_xplain.
  - intros t'. rewrite att_at_xplain by exact Hx. rewrite X2. vcase t' t; reflexivity.
  - intros t' e0 Ho. vcase t' t; [discriminate|]. rewrite open_op_other by assumption. now apply X3.
  - intros t' r j x ok Hv. apply val_pat_ext; [|right; intros e0 He0; apply xplain_pat_ok; auto].
    eapply X4. vcase t' t; exact Hv.
  - intros k. rewrite src_at_xplain by exact Hx. apply X5.
Qed.

(** the exchange on a client source *)
Definition xchg_evs (k : nat) (o old : Z) : list ev :=
  [EvAcc KXchg (obj_src k) true; EvCli "g_src" [zn k; o; old]; EvCli "unlinked" [old]].
Definition xchg_state (g : G) (k : nat) (o : Z) : G :=
  mkG (g_list g) (g_recs g) (fun i => if Nat.eqb i k then o else g_srcs g i).

Lemma inv_xchg_src c g a tr t k o :
  Inv c g a tr -> v_op (view a t) = Some (EvCli "publish" [zn k; o]) -> idle (view a t) ->
  Inv c (xchg_state g k o) (upd_view a t (with_x (view a t) None (v_val (view a t))))
      (tr ++ Conc.tag t (xchg_evs k o (g_srcs g k))).
Proof.
  intros HI Hop Hidle. set (old := g_srcs g k).
  apply (inv_quiet_step c g (xchg_state g k o) a tr t (xchg_evs k o old)); try reflexivity.
  - exact HI.
  - intros r. auto.
  - intros e [<-|[<-|[<-|[]]]]; reflexivity.
  - intros; exact Hidle.
  - destruct (X_of_inv _ _ _ _ HI) as (X1 & X2 & X3 & X4 & X5).
    assert (Eatt : forall t', att_at (tr ++ Conc.tag t (xchg_evs k o old)) t' = att_at tr t').
    { intros t'. rewrite att_at_app. cbn. unfold att_step. cbn. destruct (Nat.eqb t t'); reflexivity. }
    split; [|split; [|split; [|split]]].
    + apply TrOK_ext; [exact X1|]. intros k0 u e Hk0. apply nth_error_tag in Hk0. destruct Hk0 as (-> & Hk0).
      destruct k0 as [|[|[|k0]]]; cbn in Hk0; try (destruct k0; discriminate); inversion Hk0; subst e; unfold xchg_evs; cbn [firstn Conc.tag map].
      * apply xplain_ev_ok. reflexivity.
      * unfold ev_ok, ev_slot, ev_det, ev_att. repeat split; intros; try discriminate.
        -- match goal with E : EvCli _ _ = EvCli _ _ |- _ => inversion E as [[Ek Eo Eold]] end. apply zn_inj in Ek. subst.
           rewrite src_at_snoc. cbn. symmetry. apply X5.
        -- match goal with E : EvCli _ _ = EvCli _ _ |- _ => inversion E as [[Ek Eo Eold]] end. apply zn_inj in Ek. subst.
           rewrite open_op_snoc. unfold op_step. cbn. rewrite Nat.eqb_refl. cbn. now apply X3.
      * unfold ev_ok, ev_slot, ev_det, ev_att. repeat split; intros; try discriminate.
        -- match goal with E : EvCli _ _ = EvCli _ _ |- _ => inversion E end. subst.
           exists k, o. split; [destruct tr; discriminate|].
           unfold last_te. rewrite app_length. cbn. replace (List.length tr + 2 - 1) with (S (List.length tr)) by lia.
           rewrite nth_error_app2 by lia. replace (S (List.length tr) - List.length tr) with 1 by lia. reflexivity.
    + intros t'. rewrite Eatt, X2. vcase t' t; reflexivity.
    + intros t' e0 Ho. vcase t' t; [discriminate|]. rewrite open_op_other by assumption. now apply X3.
    + intros t' r j x ok Hv. apply val_pat_ext.
      * eapply X4. vcase t' t; exact Hv.
      * right. intros e [<-|[<-|[<-|[]]]]; reflexivity.
    + intros k'. rewrite src_at_app. cbn. rewrite X5. unfold old.
      destruct (Nat.eqb_spec k' k) as [->|Hne]; [now rewrite Z.eqb_refl|].
      destruct (Z.eqb_spec (zn k) (zn k')) as [E|E]; [apply zn_inj in E; congruence|reflexivity].
Qed.

(** a load of a client source; if the thread's last slot store put there the value now read, the store is validated *)
Definition ld_src_evs (k : nat) (x : Z) : list ev := [EvAcc KLd (obj_src k) true; EvCli "g_ld" [zn k; x]].

Lemma inv_ld_src c g a tr t k newval :
  Inv c g a tr ->
  (newval = v_val (view a t) \/
   exists r j ok, v_val (view a t) = Some (r, j, g_srcs g k, ok) /\ newval = Some (r, j, g_srcs g k, Some k)) ->
  Inv c g (upd_view a t (with_x (view a t) (v_op (view a t)) newval)) (tr ++ Conc.tag t (ld_src_evs k (g_srcs g k))).
Proof.
  intros HI Hnv. destruct (same_g_irrel g) as (E1 & E2 & E3). set (x := g_srcs g k) in *.
  apply (inv_quiet_step c g g a tr t (ld_src_evs k x)); auto.
  - intros e [<-|[<-|[]]]; reflexivity.
  - intros es' e He Hr. exfalso.
    assert (e = EvCli "g_ld" [zn k; x]).
    { unfold ld_src_evs in He. destruct es' as [|y [|z l]]; cbn in He; inversion He; auto. destruct l; discriminate. }
    subst e. discriminate.
  - destruct (X_of_inv _ _ _ _ HI) as (X1 & X2 & X3 & X4 & X5).
    assert (Eatt : forall t', att_at (tr ++ Conc.tag t (ld_src_evs k x)) t' = att_at tr t').
    { intros t'. rewrite att_at_app. cbn. unfold att_step. cbn. destruct (Nat.eqb t t'); reflexivity. }
    assert (Eop : forall t', open_op (tr ++ Conc.tag t (ld_src_evs k x)) t' = open_op tr t').
    { intros t'. rewrite open_op_app. cbn. unfold op_step. cbn. destruct (Nat.eqb t t'); reflexivity. }
    assert (Hpat : forall e, In e (ld_src_evs k x) -> pat_ok e = true) by (intros e [<-|[<-|[]]]; reflexivity).
    split; [|split; [|split; [|split]]].
    + apply TrOK_ext; [exact X1|]. intros k0 u e Hk0. apply nth_error_tag in Hk0. destruct Hk0 as (-> & Hk0).
      destruct k0 as [|[|k0]]; cbn in Hk0; try (destruct k0; discriminate); inversion Hk0; subst e; unfold ld_src_evs; cbn [firstn Conc.tag map].
      * apply xplain_ev_ok. reflexivity.
      * unfold ev_ok, ev_slot, ev_det, ev_att. repeat split; intros; try discriminate.
        match goal with E : EvCli _ _ = EvCli _ _ |- _ => inversion E as [[Ek Ex]] end. apply zn_inj in Ek. subst.
        rewrite src_at_snoc. cbn. symmetry. apply X5.
    + intros t'. rewrite Eatt, X2. vcase t' t; reflexivity.
    + intros t' e0 Ho. rewrite Eop. apply X3. vcase t' t; exact Ho.
    + intros t' r j x0 ok Hv. vcase t' t.
      * cbn in Hv. destruct Hnv as [->|(r1 & j1 & ok1 & Hold & ->)].
        -- apply val_pat_ext; [eapply X4; eauto|right; exact Hpat].
        -- inversion Hv; subst r j x0 ok. destruct (X4 t r1 j1 x ok1 Hold) as (g0 & Hg & Hall & _).
           assert (Hlt : g0 < List.length tr) by (apply nth_error_Some; congruence).
           exists g0. split; [rewrite nth_error_app1 by exact Hlt; exact Hg|]. split.
           ++ intros i e Hi Hn. destruct (Nat.lt_ge_cases i (List.length tr)) as [H1|H1].
              ** rewrite nth_error_app1 in Hn by exact H1. eapply Hall; eauto.
              ** rewrite nth_error_app2 in Hn by exact H1. apply nth_error_tag in Hn. destruct Hn as (_ & Hn).
                 apply Hpat. eapply nth_error_In; eauto.
           ++ exists (S (List.length tr)). split; [lia|]. rewrite nth_error_app2 by lia.
              replace (S (List.length tr) - List.length tr) with 1 by lia. reflexivity.
      * apply val_pat_ext; [eapply X4; eauto|now left].
    + intros k'. rewrite src_at_app. cbn. apply X5.
Qed.

(** protect() returns: the slot store was validated *)
Lemma inv_emit_protected c g a tr t r j p k :
  Inv c g a tr -> v_val (view a t) = Some (r, j, p, Some k) -> idle (view a t) ->
  Inv c g (upd_view a t (with_x (view a t) None (v_val (view a t)))) (tr ++ Conc.tag t [EvCli "protected" [zn j; p]]).
Proof.
  intros HI Hval Hidle. destruct (same_g_irrel g) as (E1 & E2 & E3).
  apply (inv_quiet_step c g g a tr t [EvCli "protected" [zn j; p]]); auto.
  - intros e [<-|[]]; reflexivity.
  - destruct (X_of_inv _ _ _ _ HI) as (X1 & X2 & X3 & X4 & X5).
    set (es := [EvCli "protected" [zn j; p]]).
    assert (Eatt : forall t', att_at (tr ++ Conc.tag t es) t' = att_at tr t').
    { intros t'. rewrite att_at_app. cbn. unfold att_step. cbn. destruct (Nat.eqb t t'); reflexivity. }
    split; [|split; [|split; [|split]]].
    + apply TrOK_ext; [exact X1|]. intros k0 u e Hk0. apply nth_error_tag in Hk0. destruct Hk0 as (-> & Hk0).
      destruct k0 as [|k0]; cbn in Hk0; [|destruct k0; discriminate]. inversion Hk0; subst e. cbn [firstn Conc.tag map]. rewrite app_nil_r.
      unfold ev_ok, ev_slot, ev_det, ev_att. repeat split; intros; try discriminate.
      match goal with E : EvCli _ _ = EvCli _ _ |- _ => inversion E as [[Ej Ep]] end. apply zn_inj in Ej. subst.
      exists r, k. eapply X4; eauto.
    + intros t'. rewrite Eatt, X2. vcase t' t; reflexivity.
    + intros t' e0 Ho. vcase t' t; [discriminate|]. rewrite open_op_other by assumption. now apply X3.
    + intros t' r0 j0 x0 ok Hv. apply val_pat_ext.
      * eapply X4. vcase t' t; exact Hv.
      * right. intros e [<-|[]]; reflexivity.
    + intros k'. rewrite src_at_app. cbn. apply X5.
Qed.

(** ** 14. attachment and detachment (ghost events g_att / g_det) *)
Definition att_view (v : lview) (r : nat) : lview :=
  mkV (Some r) (remove Nat.eq_dec r (v_held v)) 0 (v_scan v) (v_cl v) (v_seen v) (v_op v) None.
Definition det_view (v : lview) (r : nat) : lview :=
  mkV None (r :: v_held v) 0 (v_scan v) (v_cl v) (r :: v_seen v) (v_op v) None.

Lemma ghost1_quiet e : In e [ev_att 0] \/ True -> True. Proof. auto. Qed.

(** the thread holds record r (claimed by the reuse CAS, or created and pushed): it becomes its attached record *)
Lemma inv_emit_att c g a tr t r :
  Inv c g a tr -> v_rec (view a t) = None -> v_scan (view a t) = None -> In r (v_held (view a t)) -> In r (g_list g) ->
  Inv c g (upd_view a t (att_view (view a t) r)) (tr ++ Conc.tag t [ev_att r]).
Proof.
  intros HI Hnone Hnoscan Hheld Hin.
  destruct (i_held _ _ _ _ HI t r Hheld) as (Hlt & Howner & Hzero).
  set (es := [ev_att r]). set (a' := upd_view a t (att_view (view a t) r)).
  assert (Hn : forall e, In e es -> neutral e = true) by (intros e [<-|[]]; reflexivity).
  assert (Hq : forall e, In e es -> quiet e = true) by (intros e [<-|[]]; reflexivity).
  assert (Hvc : forall t', v_cl (view a' t') = v_cl (view a t')) by (intros t'; unfold a'; vcase t' t; reflexivity).
  assert (Hvs : forall t', v_scan (view a' t') = v_scan (view a t')) by (intros t'; unfold a'; vcase t' t; reflexivity).
  assert (Hvn : forall t', v_seen (view a' t') = v_seen (view a t')) by (intros t'; unfold a'; vcase t' t; reflexivity).
  assert (Hex : forall t', t' <> t -> ~ owns (view a t') r).
  { intros t' Hne Ho. apply Hne. eapply (i_excl _ _ _ _ HI); [exact Ho|right; exact Hheld]. }
  assert (Hh : forall t' r', In r' (v_held (view a' t')) <-> In r' (v_held (view a t')) /\ r' <> r).
  { intros t' r'. unfold a'. vcase t' t; [cbn; apply in_remove_iff|].
    split; [|tauto]. intros H. split; [exact H|]. intros ->. eapply Hex; [eassumption|right; exact H]. }
  assert (Ho : forall t' r', owns (view a' t') r' <-> owns (view a t') r').
  { intros t' r'. unfold owns. rewrite Hh. unfold a'. vcase t' t.
    - cbn. rewrite Hnone. split.
      + intros [H|(H & _)]; [inversion H; subst; now right|now right].
      + intros [H|H]; [discriminate|]. destruct (Nat.eq_dec r' r) as [->|Hne]; [now left|right; now split].
    - split; [tauto|]. intros [H|H]; [now left|right]. split; [exact H|]. intros ->.
      eapply Hex; [eassumption|right; exact H]. }
  assert (HX : X_cl g a' (tr ++ Conc.tag t es)).
  { destruct (X_of_inv _ _ _ _ HI) as (X1 & X2 & X3 & X4 & X5).
    split; [|split; [|split; [|split]]].
    - apply TrOK_ext; [exact X1|]. intros k0 u e Hk0. apply nth_error_tag in Hk0. destruct Hk0 as (-> & Hk0).
      destruct k0 as [|k0]; cbn in Hk0; [|destruct k0; discriminate]. inversion Hk0; subst e. cbn [firstn Conc.tag map]. rewrite app_nil_r.
      unfold ev_ok, ev_slot, ev_det, ev_att. repeat split; intros; try discriminate.
      + rewrite X2. exact Hnone.
      + match goal with E : EvCli _ _ = EvCli _ _ |- _ => inversion E as [Er] end. apply zn_inj in Er. subst.
        rewrite X2. intros Hc. destruct (Nat.eq_dec t' t) as [->|Hne]; [congruence|]. eapply Hex; [exact Hne|left; exact Hc].
      + match goal with E : EvCli _ _ = EvCli _ _ |- _ => inversion E end. eexists; reflexivity.
    - intros t'. unfold a'. vcase t' t.
      + rewrite att_at_app. cbn. unfold att_step. cbn. rewrite Nat.eqb_refl. cbn. unfold zn. now rewrite Nat2Z.id.
      + rewrite att_at_other by assumption. apply X2.
    - intros t' e0 Ho0. unfold a' in Ho0. vcase t' t.
      + cbn in Ho0. rewrite open_op_same. unfold op_fold. cbn. now apply X3.
      + rewrite open_op_other by assumption. now apply X3.
    - intros t' r0 j0 x0 ok Hv. unfold a' in Hv. vcase t' t; [discriminate|].
      apply val_pat_ext; [eapply X4; eauto|now left].
    - intros k. rewrite src_at_app. cbn. apply X5. }
  destruct HI. xbullets HX.
  apply mkInv.
  - intros r' j. rewrite slot_at_neutral by exact Hn. auto.
  - exact i_zero_unowned.
  - exact i_zero_unlisted.
  - exact i_zero_hi.
  - exact i_list_lt.
  - intros t' r' H. unfold a' in H. vcase t' t; [cbn in H; inversion H; subst r'; auto|eauto].
  - intros t' r' H. apply Hh in H. destruct H as (H & _). apply (i_held t' r' H).
  - intros t1 t2 r' H1 H2. apply Ho in H1. apply Ho in H2. eauto.
  - intros t'. destruct (i_self t') as (H1 & H2). unfold a'. vcase t' t; [cbn|auto]. split.
    + now apply NoDup_remove_eq.
    + intros r' H Hin'. inversion H; subst r'. apply in_remove_iff in Hin'. tauto.
  - intros t' r' j H1 H2. unfold a' in H1, H2. vcase t' t; [cbn in H2; lia|eauto].
  - intros r' H. destruct (Nat.eq_dec r' r) as [->|Hne]; [now left|].
    destruct (i_unl r' H) as [H1|(t' & H1)]; [now left|right]. exists t'. apply Hh. now split.
  - intros t' r' H. rewrite Hvn in H. eauto.
  - intros t' cl H. rewrite Hvc in H. destruct (i_claim t' cl H) as (H1 & H2). split; [now apply Ho|].
    destruct cl; exact H2.
  - intros t'. rewrite Hvc. auto.
  - intros r' x H. destruct (i_eff r' x H) as (t' & cl & H1 & H2). exists t', cl. now rewrite Hvc.
  - assert (Hb : bal_cl g a (tr ++ Conc.tag t es)) by (apply bal_cl_quiet; auto).
    intros p. rewrite Hb. f_equal. symmetry. apply pend_ext; [reflexivity|]. intros; reflexivity.
  - assert (Hc : cov_cl c a (tr ++ Conc.tag t es)) by (apply cov_cl_quiet; auto).
    intros t' sv H. rewrite Hvs in H. apply (Hc t' sv H).
  - now apply safe_cl_quiet.
  - now apply kept_cl_quiet.
  - intros t' H. destruct (Nat.eq_dec t' t) as [->|Hne].
    + exfalso. apply (resp_last_same tr t [] (ev_att r)) in H. discriminate.
    + unfold a'. rewrite view_upd_other by exact Hne. apply i_idle. apply (resp_last_other tr t' t es); [congruence|exact H].
  - apply (retd_cl_ext g a tr _ i_retd).
  - intros t' sv r' s H1 H2 H3 p Hp. rewrite Hvs in H1. destruct (Nat.eq_dec t' t) as [->|Hne]; [congruence|].
    unfold a' in H2. rewrite view_upd_other in H2 by exact Hne.
    apply (retd_scan_cl_ext g a tr t es i_retd_scan (fun e He0 => quiet_nosb e (Hq e He0)) t' sv r' s H1 H2 H3 p Hp).
  - apply (pre_cl_nodispose tr t es i_pre). intros e p He0. apply quiet_not_dispose. auto.
  - intros t' sv H. rewrite Hvs in H. eauto.
  - apply (size_cl_transfer c g a tr g a' _ i_size); [apply le_n|intros p; apply cnt_le_app|intros; apply le_n|].
    intros t' cl H. now rewrite Hvc.
  - apply (noovf_cl_transfer c g tr g _ i_noovf); [apply le_n|intros p; apply cnt_le_app|].
    intros p. rewrite cnt_app, cnt_overflow_quiet by exact Hq. lia.
  - exact HX1.
  - exact HX2.
  - exact HX3.
  - exact HX4.
  - exact HX5.
Qed.

(** free_thread_data, just before the releasing store: the record (all slots null) is no longer the attached one *)
Lemma inv_emit_det c g a tr t r :
  Inv c g a tr -> v_rec (view a t) = Some r -> cH c <= v_clr (view a t) ->
  v_op (view a t) = Some (EvCli "detach" []) ->
  Inv c g (upd_view a t (det_view (view a t) r)) (tr ++ Conc.tag t [ev_det r]).
Proof.
  intros HI Hrec Hclr Hop.
  destruct (i_rec _ _ _ _ HI t r Hrec) as (Howner & Hin).
  assert (Hlt : r < List.length (g_recs g)) by (apply (i_list_lt _ _ _ _ HI); exact Hin).
  assert (Hzero : forall j, gslot g r j = 0%Z).
  { intros j. destruct (Nat.lt_ge_cases j (cH c)); [eapply (i_clr _ _ _ _ HI); eauto; lia|now apply (i_zero_hi _ _ _ _ HI)]. }
  set (es := [ev_det r]). set (a' := upd_view a t (det_view (view a t) r)).
  assert (Hn : forall e, In e es -> neutral e = true) by (intros e [<-|[]]; reflexivity).
  assert (Hq : forall e, In e es -> quiet e = true) by (intros e [<-|[]]; reflexivity).
  assert (Hvc : forall t', v_cl (view a' t') = v_cl (view a t')) by (intros t'; unfold a'; vcase t' t; reflexivity).
  assert (Hvs : forall t', v_scan (view a' t') = v_scan (view a t')) by (intros t'; unfold a'; vcase t' t; reflexivity).
  assert (Hnh : ~ In r (v_held (view a t))) by (destruct (i_self _ _ _ _ HI t) as (_ & H); now apply H).
  assert (Ho : forall t' r', owns (view a' t') r' <-> owns (view a t') r').
  { intros t' r'. unfold owns, a'. vcase t' t; [|tauto]. cbn. rewrite Hrec. split.
    - intros [H|[<-|H]]; [discriminate|now left|now right].
    - intros [H|H]; [inversion H; right; now left|right; now right]. }
  assert (HX : X_cl g a' (tr ++ Conc.tag t es)).
  { destruct (X_of_inv _ _ _ _ HI) as (X1 & X2 & X3 & X4 & X5).
    split; [|split; [|split; [|split]]].
    - apply TrOK_ext; [exact X1|]. intros k0 u e Hk0. apply nth_error_tag in Hk0. destruct Hk0 as (-> & Hk0).
      destruct k0 as [|k0]; cbn in Hk0; [|destruct k0; discriminate]. inversion Hk0; subst e. cbn [firstn Conc.tag map]. rewrite app_nil_r.
      unfold ev_ok, ev_slot, ev_det, ev_att. repeat split; intros; try discriminate. now apply X3.
    - intros t'. unfold a'. vcase t' t.
      + rewrite att_at_app. cbn. unfold att_step. cbn. rewrite Nat.eqb_refl. reflexivity.
      + rewrite att_at_other by assumption. apply X2.
    - intros t' e0 Ho0. unfold a' in Ho0. vcase t' t.
      + cbn in Ho0. rewrite open_op_same. unfold op_fold. cbn. now apply X3.
      + rewrite open_op_other by assumption. now apply X3.
    - intros t' r0 j0 x0 ok Hv. unfold a' in Hv. vcase t' t; [discriminate|].
      apply val_pat_ext; [eapply X4; eauto|now left].
    - intros k. rewrite src_at_app. cbn. apply X5. }
  destruct HI. xbullets HX.
  apply mkInv.
  - intros r' j. rewrite slot_at_neutral by exact Hn. auto.
  - exact i_zero_unowned.
  - exact i_zero_unlisted.
  - exact i_zero_hi.
  - exact i_list_lt.
  - intros t' r' H. unfold a' in H. vcase t' t; [discriminate|eauto].
  - intros t' r' H. unfold a' in H. vcase t' t; [|eauto]. cbn in H. destruct H as [<-|H]; [auto|eauto].
  - intros t1 t2 r' H1 H2. apply Ho in H1. apply Ho in H2. eauto.
  - intros t'. destruct (i_self t') as (H1 & H2). unfold a'. vcase t' t; [cbn|auto]. split.
    + constructor; assumption.
    + intros r' H. discriminate.
  - intros t' r' j H1 H2. unfold a' in H1, H2. vcase t' t; [discriminate|eauto].
  - intros r' H. destruct (i_unl r' H) as [H1|(t' & H1)]; [now left|right]. exists t'.
    unfold a'. vcase t' t; [cbn; now right|exact H1].
  - intros t' r' H. unfold a' in H. vcase t' t; [|eauto]. cbn in H. destruct H as [<-|H]; [exact Hin|eauto].
  - intros t' cl H. rewrite Hvc in H. destruct (i_claim t' cl H) as (H1 & H2). split; [now apply Ho|].
    destruct cl; exact H2.
  - intros t'. rewrite Hvc. auto.
  - intros r' x H. destruct (i_eff r' x H) as (t' & cl & H1 & H2). exists t', cl. now rewrite Hvc.
  - assert (Hb : bal_cl g a (tr ++ Conc.tag t es)) by (apply bal_cl_quiet; auto).
    intros p. rewrite Hb. f_equal. symmetry. apply pend_ext; [reflexivity|]. intros; reflexivity.
  - assert (Hc : cov_cl c a (tr ++ Conc.tag t es)) by (apply cov_cl_quiet; auto).
    intros t' sv H. rewrite Hvs in H. apply (Hc t' sv H).
  - now apply safe_cl_quiet.
  - now apply kept_cl_quiet.
  - intros t' H. destruct (Nat.eq_dec t' t) as [->|Hne].
    + exfalso. apply (resp_last_same tr t [] (ev_det r)) in H. discriminate.
    + unfold a'. rewrite view_upd_other by exact Hne. apply i_idle. apply (resp_last_other tr t' t es); [congruence|exact H].
  - apply (retd_cl_ext g a tr _ i_retd).
  - intros t' sv r' s H1 H2 H3 p Hp. rewrite Hvs in H1. destruct (Nat.eq_dec t' t) as [->|Hne].
    + unfold a' in H2. rewrite view_upd_same in H2. discriminate.
    + unfold a' in H2. rewrite view_upd_other in H2 by exact Hne.
      apply (retd_scan_cl_ext g a tr t es i_retd_scan (fun e He0 => quiet_nosb e (Hq e He0)) t' sv r' s H1 H2 H3 p Hp).
  - apply (pre_cl_nodispose tr t es i_pre). intros e p He0. apply quiet_not_dispose. auto.
  - intros t' sv H. rewrite Hvs in H. eauto.
  - apply (size_cl_transfer c g a tr g a' _ i_size); [apply le_n|intros p; apply cnt_le_app|intros; apply le_n|].
    intros t' cl H. now rewrite Hvc.
  - apply (noovf_cl_transfer c g tr g _ i_noovf); [apply le_n|intros p; apply cnt_le_app|].
    intros p. rewrite cnt_app, cnt_overflow_quiet by exact Hq. lia.
  - exact HX1.
  - exact HX2.
  - exact HX3.
  - exact HX4.
  - exact HX5.
Qed.
