(** * SkipListNestE: the nested-levels invariant for ALL operations (insert, erase, extract, contains) — ghost state, views,
      invariant [EINV], and one rule per kind of access (Owicki-Gries, Conc.safe).

    Ghost state per node q:  [ealk q] = number of levels the inserter of q has linked so far;  [eanl q] = number of levels
    on whose list q is now (the linked levels are exactly 0 .. eanl q - 1: unlinking is top-down);  [eadn q] = the inserter
    gave up (level_unlinked( height - level ));  [eapl] = the (thread, node) pairs with an unlink CAS whose level_unlinked()
    is outstanding ([pend q] = their number for q).  Invariant, besides the level lists [eLs]:
      m_nUnlink q = eanl q + pend q + (height q - ealk q while the inserter is active)        ([e_n3])
      while the inserter is active nothing of q is unlinked                                      ([e_n2'])
      a cell of a level that was linked and is not on the list any more is marked              ([e_d])
    Facts a thread records ([fact]): [FK p l] p was linked at level l at some time; [FZ q l x] the level-l cell of q is
    marked and holds x (marked cells never change); [FB q b] an upper bound b on the number of linked levels of q that stays
    valid (m_nUnlink q <= b was read / the insertion is closed and eanl q <= b / height q <= b). *)
From Coq Require Import ZArith List String Bool Lia PeanoNat.
From LV Require Import Base.Conc Base.Events Model.SkipList Proofs.SkipListProofs Proofs.SkipListSub Proofs.SkipListNest.
Import ListNotations.

(** ** one level: link and unlink with the resulting list *)
Lemma walkl_link g l L p new b :
  walkl g l head L -> ~ In head L -> (p = head \/ In p L) -> new <> null -> new <> head -> new <> p -> ~ In new L ->
  fst (nxt g new l) = fst (nxt g p l) ->
  exists L', walkl (setnx g p l (new, b)) l head L' /\ (forall q, In q L' <-> q = new \/ In q L).
Proof.
  intros W Nh Hp N0 N1 N2 Nin Es. pose proof (walkl_nodup _ _ _ _ W) as ND.
  destruct Hp as [->|Hin].
  - exists (new :: L). split.
    + cbn [walkl]. rewrite setnx_same. cbn [fst]. repeat split; auto.
      assert (W' : walkl g l new L).
      { destruct L as [|n r]; cbn [walkl] in *; [congruence|]. destruct W as (E & Nn & Wr). repeat split; auto. congruence. }
      apply walkl_setnx_other; [|exact W']. right. intros [X|X]; [congruence|contradiction].
    + intros q. cbn [In]. split; intros [H|H]; auto.
  - apply in_split in Hin. destruct Hin as (A & B & EL). rewrite EL in W, ND, Nin, Nh.
    apply walkl_split in W. destruct W as (Sg & Np & WB).
    apply NoDup_remove_2 in ND.
    exists (A ++ p :: new :: B). split.
    + apply walkl_split. split; [|split; [exact Np|]].
      * apply segl_setnx_other; [|exact Sg]. intros [X|X]; [apply Nh; rewrite <- X; apply in_or_app; right; now left|].
        apply ND. apply in_or_app. now left.
      * cbn [walkl]. rewrite setnx_same. cbn [fst]. repeat split; auto.
        assert (W' : walkl g l new B).
        { destruct B as [|n r]; cbn [walkl] in *; [congruence|]. destruct WB as (E & Nn & Wr). repeat split; auto. congruence. }
        apply walkl_setnx_other; [|exact W']. right. intros [X|X]; [congruence|]. apply ND. apply in_or_app. now right.
    + intros q. rewrite EL. rewrite !in_app_iff. cbn [In]. intuition (subst; auto).
Qed.

Lemma walkl_unlink g l L p q b :
  walkl g l head L -> ~ In head L -> (p = head \/ In p L) -> fst (nxt g p l) = q -> q <> null ->
  In q L /\ exists L', walkl (setnx g p l (fst (nxt g q l), b)) l head L' /\ (forall x, In x L' <-> x <> q /\ In x L).
Proof.
  intros W Nh Hp Eq Nq. pose proof (walkl_nodup _ _ _ _ W) as ND.
  destruct Hp as [->|Hin].
  - destruct L as [|n r] eqn:EL; cbn [walkl] in W; [congruence|]. destruct W as (E & Nn & Wr).
    rewrite Eq in E. subst n. inversion ND as [|? ? Nq' NDr]; subst. split; [now left|].
    exists r. split.
    + destruct r as [|n2 r2]; cbn [walkl] in *.
      * rewrite setnx_same. cbn [fst]. exact Wr.
      * rewrite setnx_same. cbn [fst]. destruct Wr as (E2 & N2 & W2). repeat split; auto.
        apply walkl_setnx_other; [|exact W2]. right. intros [X|X]; [apply Nh; rewrite <- X; right; now left|].
        apply Nh. right. now right.
    + intros x. cbn [In]. split.
      * intros Hx. split; [intros ->; contradiction|now right].
      * intros (Hx & [X|X]); [congruence|exact X].
  - apply in_split in Hin. destruct Hin as (A & B & EL). rewrite EL in W, ND, Nh.
    apply walkl_split in W. destruct W as (Sg & Np & WB).
    destruct B as [|n r]; cbn [walkl] in WB; [congruence|]. destruct WB as (E & Nn & Wr).
    rewrite Eq in E. subst n.
    assert (NDp : ~ In p (A ++ q :: r)) by (now apply NoDup_remove_2 in ND).
    assert (NDq : ~ In q (A ++ p :: r)).
    { replace (A ++ p :: q :: r) with ((A ++ [p]) ++ q :: r) in ND by (rewrite <- app_assoc; reflexivity).
      apply NoDup_remove_2 in ND. rewrite <- app_assoc in ND. exact ND. }
    split; [rewrite EL; apply in_or_app; right; right; now left|].
    exists (A ++ p :: r). split.
    + apply walkl_split. split; [|split; [exact Np|]].
      * apply segl_setnx_other; [|exact Sg]. intros [X|X]; [apply Nh; rewrite <- X; apply in_or_app; right; now left|].
        apply NDp. apply in_or_app. now left.
      * destruct r as [|n2 r2]; cbn [walkl] in *.
        -- rewrite setnx_same. cbn [fst]. exact Wr.
        -- rewrite setnx_same. cbn [fst]. destruct Wr as (E2 & N2 & W2). repeat split; auto.
           apply walkl_setnx_other; [|exact W2]. right. intros [X|X].
           ++ apply NDp. apply in_or_app. right. right. now left.
           ++ apply NDp. apply in_or_app. right. right. now right.
    + intros x. rewrite EL. rewrite !in_app_iff. cbn [In]. split.
      * intros Hx. split; [intros ->; apply NDq; rewrite in_app_iff; cbn [In]; tauto|tauto].
      * intros (Hx & [X|[X|[X|X]]]); auto; congruence.
Qed.

Definition updf {A} (f : ptr -> A) (q : ptr) (v : A) : ptr -> A := fun q' => if Nat.eqb q' q then v else f q'.
Lemma updf_same {A} (f : ptr -> A) q v : updf f q v q = v.
Proof. unfold updf. now rewrite Nat.eqb_refl. Qed.
Lemma updf_other {A} (f : ptr -> A) q v q' : q' <> q -> updf f q v q' = f q'.
Proof. unfold updf. intros H. destruct (Nat.eqb_spec q' q); congruence. Qed.

(** ** ghost state, views *)
Inductive fact := FK (p : ptr) (l : nat) | FZ (q : ptr) (l : nat) (x : ptr) | FB (q : ptr) (b : nat).
Definition eown := option (ptr * nat * option ptr * nat).
Record eview := mkEV { wkn : list fact; wser : nat; wown : eown; wowe : option ptr }.
Record eaux := mkEA {
  eLs : nat -> list ptr; ealk : ptr -> nat; eanl : ptr -> nat; eadn : ptr -> bool; eapl : list (nat * ptr); evw : nat -> eview }.
Definition evw' (a : eaux) (t : nat) : eview := evw a t.
Definition setvw (vw : nat -> eview) (t : nat) (lv : eview) : nat -> eview := fun u => if Nat.eqb u t then lv else vw u.

Lemma setvw_same vw t lv : setvw vw t lv t = lv.
Proof. unfold setvw. now rewrite Nat.eqb_refl. Qed.
Lemma setvw_other vw t lv u : u <> t -> setvw vw t lv u = vw u.
Proof. unfold setvw. intros H. destruct (Nat.eqb_spec u t); congruence. Qed.

Definition pend (a : eaux) (q : ptr) : nat := count_occ Nat.eq_dec (map snd (eapl a)) q.
Definition rest (g : G) (a : eaux) (q : ptr) : nat := if eadn a q then 0 else hgt_of g q - ealk a q.
Definition closed (g : G) (a : eaux) (q : ptr) : Prop := eadn a q = true \/ hgt_of g q <= ealk a q.

Lemma closed_rest g a q : closed g a q -> rest g a q = 0.
Proof. unfold closed, rest. intros [H|H]; [now rewrite H|]. destruct (eadn a q); lia. Qed.
Lemma rest_closed g a q : rest g a q = 0 -> closed g a q.
Proof. unfold closed, rest. destruct (eadn a q); [now left|right; lia]. Qed.

Definition fact_ok (g : G) (a : eaux) (f : fact) : Prop :=
  match f with
  | FK p l => l < MAXH /\ (p = null \/ l < ealk a p)
  | FZ q l x => nxt g q l = (x, true)
  | FB q b => 1 <= ealk a q /\ ((unl g q <= Z.of_nat b)%Z \/ (closed g a q /\ eanl a q <= b) \/ hgt_of g q <= b)
  end.
Definition eown_ok (g : G) (a : eaux) (u n : nat) (o : eown) : Prop :=
  match o with
  | None => True
  | Some (nw, k, c, hb) =>
      isnode nw /\ owner_of nw = u /\ ser_of nw < n /\ ealk a nw = k /\ eadn a nw = false /\ hgt_of g nw = hb /\
      (k = 0 -> unl g nw = Z.of_nat hb) /\ (forall x, c = Some x -> fst (nxt g nw k) = x)
  end.
Definition evw_ok (g : G) (a : eaux) (u : nat) (lv : eview) : Prop :=
  (forall f, In f (wkn lv) -> fact_ok g a f) /\ eown_ok g a u (wser lv) (wown lv).

Record EINV (g : G) (a : eaux) : Prop := {
  e_lev : Lev g (eLs a);
  e_n1 : forall l q, l < MAXH -> (In q (eLs a l) <-> l < eanl a q);
  e_n2 : forall q, eanl a q <= ealk a q /\ ealk a q <= hgt_of g q;
  e_hb : forall q, 1 <= hgt_of g q <= MAXH;
  e_n2' : forall q, eadn a q = false -> ealk a q < hgt_of g q -> eanl a q = ealk a q /\ pend a q = 0;
  e_n3 : forall q, 1 <= ealk a q -> unl g q = Z.of_nat (eanl a q + pend a q + rest g a q);
  e_n4 : forall q, eadn a q = true -> 1 <= ealk a q;
  e_d : forall q l, l < ealk a q -> eanl a q <= l -> snd (nxt g q l) = true;
  e_m0 : forall q l, ealk a q = 0 -> snd (nxt g q l) = false;
  e_al : forall q, 1 <= ealk a q -> isnode q /\ ser_of q < wser (evw a (owner_of q));
  e_pl : NoDup (map fst (eapl a)) /\ forall u q, In (u, q) (eapl a) <-> wowe (evw a u) = Some q;
  e_views : forall u, evw_ok g a u (evw a u) }.
Definition EInv (g : G) (a : eaux) (tr : list (nat * ev)) : Prop := EINV g a.

(** what a step of thread t may do to the facts and to the own-insertion knowledge of the other threads *)
Record stepc (t : nat) (g : G) (a : eaux) (g' : G) (a' : eaux) : Prop := {
  sc_alk : forall q, ealk a q <= ealk a' q;
  sc_fz : forall q l, snd (nxt g q l) = true -> nxt g' q l = nxt g q l;
  sc_bd : forall q, 1 <= ealk a q -> (unl g' q <= unl g q)%Z /\ hgt_of g' q = hgt_of g q /\
                                     (closed g a q -> closed g' a' q /\ eanl a' q <= eanl a q);
  sc_own : forall q, owner_of q <> t -> ealk a' q = ealk a q /\ eadn a' q = eadn a q /\ hgt_of g' q = hgt_of g q /\
                                        (ealk a q = 0 -> unl g' q = unl g q);
  sc_cell : forall p l, fst (nxt g' p l) = fst (nxt g p l) \/ owner_of p = t \/ l < ealk a p \/ p = head }.

Lemma fact_step t g a g' a' f : stepc t g a g' a' -> fact_ok g a f -> fact_ok g' a' f.
Proof.
  intros Hs. destruct f as [p l|q l x|q b]; cbn [fact_ok].
  - intros (H1 & H2). split; [exact H1|]. destruct H2 as [H2|H2]; [now left|right]. pose proof (sc_alk _ _ _ _ _ Hs p). lia.
  - intros H. rewrite (sc_fz _ _ _ _ _ Hs q l); [exact H|now rewrite H].
  - intros (H1 & H2). pose proof (sc_alk _ _ _ _ _ Hs q) as A. split; [lia|].
    destruct (sc_bd _ _ _ _ _ Hs q H1) as (B1 & B2 & B3). destruct H2 as [H2|[(H2 & H3)|H2]].
    + left. lia.
    + right. left. destruct (B3 H2). split; [assumption|lia].
    + right. right. lia.
Qed.

Lemma evw_step t g a g' a' u lv : stepc t g a g' a' -> u <> t -> evw_ok g a u lv -> evw_ok g' a' u lv.
Proof.
  intros Hs Hu [Hf Ho]. split; [intros f Hin; eapply fact_step; eauto|].
  unfold eown_ok in *. destruct (wown lv) as [[[[nw k] c] hb]|]; [|exact Logic.I].
  destruct Ho as (O1 & O2 & O3 & O4 & O5 & O6 & O7 & O8).
  destruct (sc_own _ _ _ _ _ Hs nw ltac:(congruence)) as (S1 & S2 & S3 & S4).
  repeat split; auto; try congruence.
  - intros K0. rewrite S4 by congruence. auto.
  - intros x Hx. destruct (sc_cell _ _ _ _ _ Hs nw k) as [E|[E|[E|E]]].
    + rewrite E. auto.
    + congruence.
    + lia.
    + unfold isnode, head in *. lia.
Qed.

(** ** the rule instantiated *)
Definition ESAFE {R} (t : nat) (p : prog R) (lv : eview) : Prop :=
  @Conc.safe G V ev eaux eview evw' EInv R t p lv (fun _ _ => True).
Definition EF {R} (t n : nat) (K : list fact) (O : eown) (W : option ptr) (p : prog R) : Prop :=
  forall lv, incl K (wkn lv) -> wser lv = n -> wown lv = O -> wowe lv = W -> ESAFE t p lv.

Lemma EF_weaken {R} t n K K' O W (p : prog R) : incl K K' -> EF t n K O W p -> EF t n K' O W p.
Proof. intros Hi H lv HK. apply H. eapply incl_tran; eauto. Qed.

Lemma E_act {R} t f (k : V -> prog R) lv :
  (forall g a, EINV g a -> evw a t = lv ->
     exists a', (forall u, u <> t -> evw a' u = evw a u) /\ EINV (fst (fst (f g))) a' /\ ESAFE t (k (snd (fst (f g)))) (evw a' t)) ->
  ESAFE t (Act f k) lv.
Proof.
  intros H. unfold ESAFE. cbn [Conc.safe]. intros g a tr Hi Hv. destruct (H g a Hi Hv) as (a' & H1 & H2 & H3).
  exists a'. split; [exact H2|]. split; [exact H1|exact H3].
Qed.

Lemma EF_ret {R} t n K O W (r : R) : EF t n K O W (Ret r).
Proof. intros lv _ _ _ _. exact Logic.I. Qed.

Lemma EF_emit {R} t n K O W es (k : prog R) : EF t n K O W k -> EF t n K O W (Emit es k).
Proof.
  intros H lv HK Hn HO HW. unfold ESAFE. cbn [Conc.safe]. intros g a tr Hi Hv. exists a. split; [exact Hi|].
  split; [intros ? ?; reflexivity|]. unfold evw' in *. rewrite Hv. now apply H.
Qed.

Definition setview (a : eaux) (t : nat) (lv : eview) : eaux :=
  mkEA (eLs a) (ealk a) (eanl a) (eadn a) (eapl a) (setvw (evw a) t lv).

Lemma evw_ok_ext g a g' a' u lv :
  nxt g' = nxt g -> unl g' = unl g -> hgt_of g' = hgt_of g -> ealk a' = ealk a -> eanl a' = eanl a -> eadn a' = eadn a ->
  evw_ok g a u lv -> evw_ok g' a' u lv.
Proof.
  intros E1 E2 E3 E4 E5 E6 [Hf Ho]. split.
  - intros f Hin. specialize (Hf f Hin). destruct f; cbn [fact_ok] in *; unfold closed in *; rewrite ?E1, ?E2, ?E3, ?E4, ?E5, ?E6; exact Hf.
  - unfold eown_ok in *. destruct (wown lv) as [[[[nw k] c] hb]|]; [|exact Logic.I]. rewrite ?E1, ?E2, ?E3, ?E4, ?E5, ?E6. exact Ho.
Qed.

(** a step that changes neither cells, nor m_nUnlink, nor heights; the thread may record facts *)
Lemma E_view g g' a t lv' :
  EINV g a -> nxt g' = nxt g -> unl g' = unl g -> hgt_of g' = hgt_of g ->
  evw_ok g a t lv' -> wser (evw a t) <= wser lv' -> wowe lv' = wowe (evw a t) -> EINV g' (setview a t lv').
Proof.
  intros Hi E1 E2 E3 Hv Hs Hw. destruct Hi as [I1 I2 I3 I4 I5 I6 I7 I8 I9 I10 I11 I12].
  constructor; unfold setview, pend, rest, closed in *; cbn [eLs ealk eanl eadn eapl evw] in *; rewrite ?E1, ?E2, ?E3; auto.
  - eapply Lev_ext; eauto.
  - intros q Hq. destruct (I10 q Hq) as [A1 A2]. split; [exact A1|].
    destruct (Nat.eq_dec (owner_of q) t) as [X|X]; [rewrite X in *; rewrite setvw_same; lia|now rewrite setvw_other].
  - destruct I11 as [N1 N2]. split; [exact N1|]. intros u q. rewrite N2.
    destruct (Nat.eq_dec u t) as [->|X]; [rewrite setvw_same, Hw; tauto|rewrite setvw_other by exact X; tauto].
  - intros u. destruct (Nat.eq_dec u t) as [->|X]; [rewrite setvw_same|rewrite setvw_other by exact X; specialize (I12 u)];
      eapply evw_ok_ext; eauto.
Qed.

Lemma setview_other a t lv u : u <> t -> evw (setview a t lv) u = evw a u.
Proof. intros H. unfold setview. cbn. now apply setvw_other. Qed.
Lemma setview_same a t lv : evw (setview a t lv) t = lv.
Proof. unfold setview. cbn. apply setvw_same. Qed.

Definition addf (f : fact) (lv : eview) : eview := mkEV (f :: wkn lv) (wser lv) (wown lv) (wowe lv).

Lemma evw_ok_addf g a u lv f : evw_ok g a u lv -> fact_ok g a f -> evw_ok g a u (addf f lv).
Proof. intros [H1 H2] Hf. split; [|exact H2]. intros f' [<-|Hin]; auto. Qed.

(** generic load-like step: the thread may add one valid fact *)
Lemma EF_factstep {R} t n K O W f (k : V -> prog R) :
  (forall g, nxt (fst (fst (f g))) = nxt g /\ unl (fst (fst (f g))) = unl g /\ hgt_of (fst (fst (f g))) = hgt_of g) ->
  (forall g a lv, EINV g a -> evw a t = lv -> incl K (wkn lv) ->
     (EF t n K O W (k (snd (fst (f g))))) \/
     (exists fc, fact_ok g a fc /\ EF t n (fc :: K) O W (k (snd (fst (f g)))))) ->
  EF t n K O W (Act f k).
Proof.
  intros Hf H lv HK Hn HO HW. apply E_act. intros g a Hi Hv. destruct (Hf g) as (E1 & E2 & E3).
  destruct (H g a lv Hi Hv HK) as [H1|(fc & Hfc & H1)]; subst lv.
  - exists (setview a t (evw a t)). split; [intros; now apply setview_other|]. split.
    + apply (E_view g); auto. apply (e_views _ _ Hi).
    + rewrite setview_same. now apply H1.
  - exists (setview a t (addf fc (evw a t))). split; [intros; now apply setview_other|]. split.
    + apply (E_view g); auto. apply evw_ok_addf; [apply (e_views _ _ Hi)|exact Hfc].
    + rewrite setview_same. apply H1; auto. cbn [addf wkn]. intros y [<-|Hy]; [now left|right; now apply HK].
Qed.

Lemma EF_nx {R} t n K O W f (k : V -> prog R) :
  (forall g, nxt (fst (fst (f g))) = nxt g /\ unl (fst (fst (f g))) = unl g /\ hgt_of (fst (fst (f g))) = hgt_of g) ->
  (forall v, EF t n K O W (k v)) -> EF t n K O W (Act f k).
Proof. intros Hf H. apply EF_factstep; [exact Hf|]. intros. left. apply H. Qed.

Definition ekn (K : list fact) (p : ptr) (l : nat) : Prop := p = head \/ (p <> null /\ exists l', l <= l' /\ In (FK p l') K).
Definition ekn1 (K : list fact) (q : ptr) : Prop := q <> null /\ exists l', In (FK q l') K.

Lemma ekn_incl K K' p l : incl K K' -> ekn K p l -> ekn K' p l.
Proof. intros Hi [H|(H1 & l' & H2 & H3)]; [now left|right]. split; [exact H1|]. exists l'. split; auto. Qed.
Lemma ekn_down K p l l' : l' <= l -> ekn K p l -> ekn K p l'.
Proof. intros Hl [H|(H1 & l2 & H2 & H3)]; [now left|right]. split; [exact H1|]. exists l2. split; [lia|exact H3]. Qed.
Lemma ekn1_incl K K' q : incl K K' -> ekn1 K q -> ekn1 K' q.
Proof. intros Hi (H1 & l & H2). split; [exact H1|]. exists l. auto. Qed.
Lemma ekn_ekn1 K p l : ekn K p l -> p <> head -> ekn1 K p.
Proof. intros [H|(H1 & l' & _ & H3)] N; [congruence|]. split; [exact H1|]. now exists l'. Qed.

Lemma ekn_alk g a t K p l : EINV g a -> incl K (wkn (evw a t)) -> ekn K p l -> p = head \/ l < ealk a p.
Proof.
  intros Hi HK [H|(H1 & l' & H2 & H3)]; [now left|right].
  destruct (proj1 (e_views _ _ Hi t) _ (HK _ H3)) as [_ [X|X]]; [congruence|lia].
Qed.
Lemma ekn1_alk g a t K q : EINV g a -> incl K (wkn (evw a t)) -> ekn1 K q -> 1 <= ealk a q.
Proof.
  intros Hi HK (H1 & l' & H3). destruct (proj1 (e_views _ _ Hi t) _ (HK _ H3)) as [_ [X|X]]; [congruence|lia].
Qed.

(** a node that was linked at level l and whose level-l cell is unmarked is on the level-l list *)
Lemma unmarked_on_list g a p l : EINV g a -> l < MAXH -> (p = head \/ l < ealk a p) -> snd (nxt g p l) = false ->
  p = head \/ In p (eLs a l).
Proof.
  intros Hi Hl [H|H] Hm; [now left|right]. apply (e_n1 _ _ Hi l p Hl).
  destruct (Nat.lt_ge_cases l (eanl a p)) as [X|X]; [exact X|]. rewrite (e_d _ _ Hi p l H X) in Hm. discriminate.
Qed.

Lemma head_alk g a : EINV g a -> ealk a head = 0.
Proof.
  intros Hi. destruct (Nat.eq_dec (ealk a head) 0) as [E|E]; [exact E|].
  destruct (e_al _ _ Hi head ltac:(lia)) as [X _]. unfold isnode, head in X. lia.
Qed.

Lemma fk_dec (a : eaux) l q : {l < MAXH /\ (q = null \/ l < ealk a q)} + {~ (l < MAXH /\ (q = null \/ l < ealk a q))}.
Proof.
  destruct (lt_dec l MAXH) as [H|H]; [|right; tauto].
  destruct (Nat.eq_dec q null) as [E|E]; [left; tauto|].
  destruct (lt_dec l (ealk a q)) as [E2|E2]; [left; tauto|right; tauto].
Qed.

Lemma EF_ld {R} t n K O W p l (k : V -> prog R) :
  (forall x K', incl K K' -> (forall s, In (FZ p l s) K -> x = (s, true)) -> (snd x = true -> In (FZ p l (fst x)) K') ->
      (snd x = false -> ekn K p l -> l < MAXH -> In (FK (fst x) l) K') -> EF t n K' O W (k (VP x))) ->
  EF t n K O W (Act (a_ld_next p l) k).
Proof.
  intros H. apply EF_factstep; [intros; repeat split; reflexivity|]. intros g a lv Hi Hv HK. cbn [a_ld_next fst snd].
  set (x := nxt g p l).
  assert (Hfz : forall s, In (FZ p l s) K -> x = (s, true)).
  { intros s Hs. rewrite <- Hv in HK. exact (proj1 (e_views _ _ Hi t) _ (HK _ Hs)). }
  destruct (snd x) eqn:Em.
  - right. exists (FZ p l (fst x)). split; [cbn [fact_ok]; fold x; destruct x; cbn in *; congruence|].
    apply (H x); [apply incl_tl, incl_refl|exact Hfz|intros _; now left|intros X; congruence].
  - destruct (fk_dec a l (fst x)) as [D|D].
    + right. exists (FK (fst x) l). split; [exact D|].
      apply (H x); [apply incl_tl, incl_refl|exact Hfz|intros X; congruence|intros; now left].
    + left. apply (H x); [apply incl_refl|exact Hfz|intros X; congruence|]. intros _ Hk Hl. exfalso. apply D. split; [exact Hl|].
      rewrite <- Hv in HK. pose proof (ekn_alk g a t K p l Hi HK Hk) as Hp.
      pose proof (unmarked_on_list g a p l Hi Hl Hp Em) as Ho.
      destruct (walkl_next_in g l (eLs a l) head p (e_lev _ _ Hi l Hl) Ho) as [X|X]; [now left|right].
      fold x in X. apply (e_n1 _ _ Hi l _ Hl) in X. pose proof (proj1 (e_n2 _ _ Hi (fst x))). lia.
Qed.

Lemma EF_ld_unl {R} t n K O W q b (k : V -> prog R) :
  (forall z K', incl K K' -> ((z <= Z.of_nat b)%Z -> ekn1 K q -> In (FB q b) K') -> EF t n K' O W (k (VZ z))) ->
  EF t n K O W (Act (a_ld_unl q) k).
Proof.
  intros H. apply EF_factstep; [intros; repeat split; reflexivity|]. intros g a lv Hi Hv HK. cbn [a_ld_unl fst snd].
  destruct (Z_le_dec (unl g q) (Z.of_nat b)) as [D|D].
  - destruct (le_dec 1 (ealk a q)) as [D2|D2].
    + right. exists (FB q b). split; [split; [exact D2|now left]|]. apply H; [apply incl_tl, incl_refl|intros; now left].
    + left. apply H; [apply incl_refl|]. intros _ Hk. exfalso. apply D2. rewrite <- Hv in HK. eapply ekn1_alk; eauto.
  - left. apply H; [apply incl_refl|]. intros X. contradiction.
Qed.

Lemma EF_guard_h {R} t n K O W u slot p (k : V -> prog R) :
  (forall h K', incl K K' -> 1 <= h <= MAXH -> (ekn1 K p -> In (FB p h) K') -> EF t n K' O W (k (VZ (Z.of_nat h)))) ->
  EF t n K O W (Act (a_guard_st_h u slot p) k).
Proof.
  intros H. apply EF_factstep; [intros; repeat split; reflexivity|]. intros g a lv Hi Hv HK. cbn [a_guard_st_h fst snd].
  destruct (le_dec 1 (ealk a p)) as [D2|D2].
  - right. exists (FB p (hgt_of g p)). split; [split; [exact D2|right; right; lia]|].
    apply H; [apply incl_tl, incl_refl|apply (e_hb _ _ Hi)|intros; now left].
  - left. apply H; [apply incl_refl|apply (e_hb _ _ Hi)|]. intros Hk. exfalso. apply D2. rewrite <- Hv in HK. eapply ekn1_alk; eauto.
Qed.
