(** * Proofs about the sequential CuckooSet model (LV.Model.CuckooSeq), for ALL hash functions [h], all
      arities, probe-set sizes, thresholds, orderedness and capacities 2^lg.

    - conservation: relocate / place / resize / insert neither lose nor duplicate nor invent elements; the only
      loss is the explicit fall-through list returned by [resize];
    - invariant [Inv] (well-formed tables, every element sits in the bucket its hash selects, ordered probe sets
      are sorted, no key twice) is preserved, and under it [cfind] decides membership in [elems];
    - refutation: a table on which [insert] calls [resize] and [resize] drops an element. *)
From Coq Require Import List NArith Arith Bool Lia Permutation Sorted.
From LV Require Import Model.CuckooSeq.
Import ListNotations.

(** ** generic list facts *)
Lemma upd_length {A} n (f : A -> A) l : length (upd n f l) = length l.
Proof. revert n; induction l; intros [|n]; simpl; auto. Qed.

Lemma nth_upd_eq {A} n (f : A -> A) l d : n < length l -> nth n (upd n f l) d = f (nth n l d).
Proof. revert n; induction l; intros [|n] H; simpl in *; try lia; auto. apply IHl; lia. Qed.

Lemma nth_upd_neq {A} n m (f : A -> A) l d : n <> m -> nth m (upd n f l) d = nth m l d.
Proof. revert n m; induction l; intros [|n] [|m] H; simpl; auto; try congruence. Qed.

Lemma upd_overflow {A} n (f : A -> A) l : length l <= n -> upd n f l = l.
Proof. revert n; induction l; intros [|n] H; simpl in *; auto; try lia. f_equal; apply IHl; lia. Qed.

Lemma concat_upd_perm {A} (t : list (list A)) b v :
  b < length t -> Permutation (nth b t [] ++ concat (upd b (fun _ => v) t)) (v ++ concat t).
Proof.
  revert b; induction t as [|a t IH]; intros [|b] H; simpl in *; try lia.
  - apply Permutation_app_swap_app.
  - rewrite Permutation_app_swap_app. rewrite (Permutation_app_swap_app v a).
    apply Permutation_app_head. apply IH; lia.
Qed.

Lemma insert_at_perm pos (b : bucket) x : Permutation (insert_at pos b x) (x :: b).
Proof.
  unfold insert_at. rewrite <- Permutation_middle. constructor. now rewrite firstn_skipn.
Qed.

Lemma getb_nonempty ts i b : getb ts i b <> [] -> i < length ts /\ b < length (nth i ts []).
Proof.
  unfold getb; intros H.
  destruct (lt_dec i (length ts)) as [Hi|Hi].
  - split; auto. destruct (lt_dec b (length (nth i ts []))); auto.
    rewrite (nth_overflow (nth i ts [])) in H by lia. congruence.
  - rewrite (nth_overflow ts) in H by lia. destruct b; simpl in H; congruence.
Qed.

Lemma elems_setb ts i b v :
  i < length ts -> b < length (nth i ts []) ->
  Permutation (getb ts i b ++ elems (setb ts i b v)) (v ++ elems ts).
Proof.
  unfold getb, setb, elems. revert i; induction ts as [|t ts IH]; intros [|i] Hi Hb; simpl in *; try lia.
  - rewrite !app_assoc. apply Permutation_app_tail. now apply concat_upd_perm.
  - rewrite Permutation_app_swap_app. rewrite (Permutation_app_swap_app v (concat t)).
    apply Permutation_app_head. apply IH; auto; lia.
Qed.

Lemma elems_setb_add ts i b v x :
  i < length ts -> b < length (nth i ts []) -> Permutation v (x :: getb ts i b) ->
  Permutation (elems (setb ts i b v)) (x :: elems ts).
Proof.
  intros Hi Hb Hp. pose proof (elems_setb ts i b v Hi Hb) as H.
  apply Permutation_app_inv_l with (l := getb ts i b).
  eapply Permutation_trans; [exact H|].
  eapply Permutation_trans; [apply Permutation_app_tail; exact Hp|].
  simpl. apply Permutation_middle.
Qed.

Lemma elems_setb_del ts i b v x :
  i < length ts -> b < length (nth i ts []) -> Permutation (getb ts i b) (x :: v) ->
  Permutation (x :: elems (setb ts i b v)) (elems ts).
Proof.
  intros Hi Hb Hp. pose proof (elems_setb ts i b v Hi Hb) as H.
  apply Permutation_app_inv_l with (l := v).
  eapply Permutation_trans; [|exact H].
  eapply Permutation_trans; [|apply Permutation_app_tail; apply Permutation_sym; exact Hp].
  simpl. apply Permutation_sym. apply Permutation_middle.
Qed.

Lemma getb_setb_cases ts i b v i' b' :
  getb (setb ts i b v) i' b' = getb ts i' b' \/ (i' = i /\ b' = b /\ getb (setb ts i b v) i' b' = v).
Proof.
  unfold getb, setb.
  destruct (Nat.eq_dec i i') as [->|Hi].
  - destruct (lt_dec i' (length ts)) as [Hl|Hl].
    + rewrite nth_upd_eq by auto.
      destruct (Nat.eq_dec b b') as [->|Hb].
      * destruct (lt_dec b' (length (nth i' ts []))) as [Hl2|Hl2].
        -- right. rewrite nth_upd_eq by auto. auto.
        -- left. rewrite upd_overflow by lia. reflexivity.
      * left. now rewrite nth_upd_neq.
    + left. rewrite upd_overflow by lia. reflexivity.
  - left. now rewrite nth_upd_neq.
Qed.

Lemma getb_setb_same ts i b v :
  i < length ts -> b < length (nth i ts []) -> getb (setb ts i b v) i b = v.
Proof. intros; unfold getb, setb. rewrite nth_upd_eq by auto. rewrite nth_upd_eq by auto. reflexivity. Qed.

Lemma in_getb_elems ts i b x : In x (getb ts i b) -> In x (elems ts).
Proof.
  intros H. assert (Hne : getb ts i b <> []) by (intro E; rewrite E in H; inversion H).
  destruct (getb_nonempty _ _ _ Hne) as [Hi Hb].
  unfold elems, getb in *. apply in_concat. exists (concat (nth i ts [])). split.
  - apply in_map. now apply nth_In.
  - apply in_concat. exists (nth b (nth i ts []) []). split; auto. now apply nth_In.
Qed.

Lemma in_elems_getb ts x : In x (elems ts) -> exists i b, In x (getb ts i b).
Proof.
  unfold elems, getb. intros H. apply in_concat in H. destruct H as [c [Hc Hx]].
  apply in_map_iff in Hc. destruct Hc as [t [<- Ht]].
  apply in_concat in Hx. destruct Hx as [bk [Hbk Hx]].
  destruct (In_nth _ _ [] Ht) as [i [Hi Ei]]. destruct (In_nth _ _ [] Hbk) as [b [Hb Eb]].
  exists i, b. unfold bucket, key in *. rewrite Ei, Eb. exact Hx.
Qed.

Lemma find_some_seq f n i : List.find f (seq 0 n) = Some i -> i < n /\ f i = true.
Proof. intros H. apply find_some in H. destruct H as [H1 H2]. apply in_seq in H1. split; auto; lia. Qed.

Lemma find_none_seq f n : List.find f (seq 0 n) = None -> forall i, i < n -> f i = false.
Proof. intros H i Hi. apply (find_none _ _ H). apply in_seq. lia. Qed.

Lemma in_firstn_in {A} n (l : list A) z : In z (firstn n l) -> In z l.
Proof. intros H. rewrite <- (firstn_skipn n l). apply in_or_app; now left. Qed.
Lemma in_skipn_in {A} n (l : list A) z : In z (skipn n l) -> In z l.
Proof. intros H. rewrite <- (firstn_skipn n l). apply in_or_app; now right. Qed.

Lemma nth_repeat_any {A} (a d : A) m n : nth n (repeat a m) d = a \/ nth n (repeat a m) d = d.
Proof.
  destruct (nth_in_or_default n (repeat a m) d) as [H|H]; [left; now apply repeat_spec in H|now right].
Qed.

Lemma getb_repeat_nil n m i b : getb (repeat (repeat [] m) n) i b = [].
Proof.
  unfold getb.
  destruct (nth_repeat_any (repeat (@nil key) m) [] n i) as [H|H]; unfold bucket in *; rewrite H.
  - destruct (nth_repeat_any (@nil key) [] m b) as [H2|H2]; exact H2.
  - now destruct b.
Qed.

(** ** bucket search *)
Lemma bfind_unord_found b x : fst (bfind_unord b x) = true -> In x b.
Proof.
  induction b as [|y b IH]; simpl; [discriminate|].
  destruct (N.eqb_spec y x) as [->|Hn]; [now left|].
  destruct (bfind_unord b x) as [f p]; simpl in *. auto.
Qed.

Lemma bfind_unord_complete b x : In x b -> fst (bfind_unord b x) = true.
Proof.
  induction b as [|y b IH]; simpl; [tauto|].
  destruct (N.eqb_spec y x) as [->|Hn]; auto.
  intros [E|H]; [congruence|]. destruct (bfind_unord b x) as [f p]; simpl in *; auto.
Qed.

Lemma bfind_ord_found b x : fst (bfind_ord b x) = true -> In x b.
Proof.
  induction b as [|y b IH]; simpl; [discriminate|].
  destruct (N.leb x y).
  - simpl. intros H. apply N.eqb_eq in H. now left.
  - destruct (bfind_ord b x) as [f p]; simpl in *. auto.
Qed.

Lemma bfind_ord_complete b x : StronglySorted N.le b -> In x b -> fst (bfind_ord b x) = true.
Proof.
  induction b as [|y b IH]; simpl; [tauto|]. intros Hs Hin.
  inversion Hs as [|? ? Hs' Hall]; subst.
  destruct (N.leb_spec x y) as [Hle|Hlt].
  - simpl. apply N.eqb_eq. destruct Hin as [E|Hin]; auto.
    rewrite Forall_forall in Hall. specialize (Hall _ Hin). lia.
  - destruct Hin as [E|Hin]; [subst; lia|].
    specialize (IH Hs' Hin). destruct (bfind_ord b x) as [f p]; simpl in *; auto.
Qed.

Lemma bfind_ord_insert_sorted b x :
  StronglySorted N.le b -> StronglySorted N.le (insert_at (snd (bfind_ord b x)) b x).
Proof.
  induction b as [|y b IH]; simpl; intros Hs.
  - unfold insert_at; simpl. constructor; auto.
  - inversion Hs as [|? ? Hs' Hall]; subst.
    destruct (N.leb_spec x y) as [Hle|Hlt].
    + unfold insert_at; simpl. constructor; auto. constructor; auto.
      rewrite Forall_forall in *. intros z Hz. specialize (Hall z Hz). lia.
    + specialize (IH Hs'). destruct (bfind_ord b x) as [f p] eqn:E; simpl in *.
      unfold insert_at in *; simpl. constructor; auto.
      rewrite Forall_forall in *. intros z Hz. apply in_app_or in Hz. destruct Hz as [Hz|[Hz|Hz]].
      * apply Hall. eapply in_firstn_in; eauto.
      * subst; lia.
      * apply Hall. eapply in_skipn_in; eauto.
Qed.

Lemma NoDup_app_l {A} (l l' : list A) : NoDup (l ++ l') -> NoDup l.
Proof.
  induction l' as [|a l' IH]; [now rewrite app_nil_r|].
  intros H. apply NoDup_remove_1 in H. auto.
Qed.

Lemma bfind_unord_remove b x : fst (bfind_unord b x) = true ->
  Permutation (x :: remove_at (snd (bfind_unord b x)) b) b.
Proof.
  induction b as [|y b IH]; simpl; [discriminate|].
  destruct (N.eqb_spec y x) as [->|Hn]; simpl.
  - intros _. unfold remove_at; simpl. reflexivity.
  - destruct (bfind_unord b x) as [f p]; simpl in *. intros Hf. specialize (IH Hf).
    unfold remove_at in *; simpl. rewrite perm_swap. now constructor.
Qed.

Lemma bfind_ord_remove b x : fst (bfind_ord b x) = true ->
  Permutation (x :: remove_at (snd (bfind_ord b x)) b) b.
Proof.
  induction b as [|y b IH]; simpl; [discriminate|].
  destruct (N.leb x y); simpl.
  - intros H. apply N.eqb_eq in H. subst. unfold remove_at; simpl. reflexivity.
  - destruct (bfind_ord b x) as [f p]; simpl in *. intros Hf. specialize (IH Hf).
    unfold remove_at in *; simpl. rewrite perm_swap. now constructor.
Qed.

Lemma remove_at_incl pos (b : bucket) z : In z (remove_at pos b) -> In z b.
Proof.
  unfold remove_at. intros H. apply in_app_or in H. destruct H as [H|H].
  - eapply in_firstn_in; eauto.
  - eapply in_skipn_in; eauto.
Qed.

Lemma remove_at_sorted pos : forall b, StronglySorted N.le b -> StronglySorted N.le (remove_at pos b).
Proof.
  induction pos as [|pos IH]; intros [|y b] Hs; unfold remove_at in *; simpl; auto.
  - now inversion Hs.
  - inversion Hs as [|? ? Hs' Hall]; subst. constructor; [apply IH; auto|].
    rewrite Forall_forall in *. intros z Hz. apply Hall. apply (remove_at_incl pos b z). exact Hz.
Qed.

Section Proofs.
  Variable h : nat -> key -> N.
  Variable P : params.

  Notation k := (k P).
  Notation idx := (idx h).
  Notation put := (put h P).
  Notation relocate_round := (relocate_round h P).
  Notation relocate := (relocate h P).
  Notation place := (place h P).
  Notation resize := (resize h P).
  Notation insert := (insert h P).
  Notation cfind := (cfind h P).
  Notation contains := (contains h P).

  Local Arguments CuckooSeq.resize : simpl never.
  Local Arguments CuckooSeq.relocate : simpl never.
  Local Arguments CuckooSeq.put : simpl never.
  Local Arguments CuckooSeq.cfind : simpl never.
  Local Arguments CuckooSeq.below_thr : simpl never.
  Local Arguments CuckooSeq.below_size : simpl never.

  Lemma idx_lt lgc i x : idx lgc i x < 2 ^ lgc.
  Proof.
    unfold CuckooSeq.idx. rewrite N.land_ones.
    assert (H : (h i x mod 2 ^ N.of_nat lgc < 2 ^ N.of_nat lgc)%N).
    { apply N.mod_lt. apply N.pow_nonzero. discriminate. }
    assert (E : 2 ^ lgc = N.to_nat (2 ^ N.of_nat lgc)) by (rewrite N2Nat.inj_pow, Nat2N.id; reflexivity).
    rewrite E. lia.
  Qed.

  (** well-formed tables: [k] tables of 2^lgc buckets *)
  Definition wf_tabs (ts : tables) (lgc : nat) : Prop :=
    length ts = k /\ Forall (fun tb => length tb = 2 ^ lgc) ts.

  Lemma wf_inrange ts lgc i x : wf_tabs ts lgc -> i < k ->
    i < length ts /\ idx lgc i x < length (nth i ts []).
  Proof.
    intros [Hl Hf] Hi. split; [lia|].
    rewrite Forall_forall in Hf. rewrite (Hf (nth i ts [])). apply idx_lt. apply nth_In. lia.
  Qed.

  Lemma wf_setb ts lgc i b v : wf_tabs ts lgc -> wf_tabs (setb ts i b v) lgc.
  Proof.
    intros [Hl Hf]. unfold setb. split; [now rewrite upd_length|].
    clear Hl. revert i; induction Hf as [|t ts Ht Hf IH]; intros [|i]; simpl; constructor; auto.
    now rewrite upd_length.
  Qed.

  Lemma wf_empty lgc : wf_tabs (empty_tables P lgc) lgc.
  Proof.
    unfold empty_tables; split; [apply repeat_length|].
    apply Forall_forall. intros t Ht. apply repeat_spec in Ht. subst. apply repeat_length.
  Qed.

  Lemma elems_empty lgc : elems (empty_tables P lgc) = [].
  Proof.
    unfold empty_tables, elems.
    assert (E : forall n, concat (repeat (@nil key) n) = []) by (induction n; simpl; auto).
    induction (CuckooSeq.k P) as [|n IH]; simpl; auto. now rewrite E, IH.
  Qed.

  (** ** bucket-wise invariant: placement and (ordered mode) sortedness *)
  Definition Qb (lgc i b : nat) (bk : bucket) : Prop :=
    (forall e, In e bk -> b = idx lgc i e) /\ (p_ord P = true -> StronglySorted N.le bk).

  Definition bucketsQ (ts : tables) (lgc : nat) : Prop := forall i b, Qb lgc i b (getb ts i b).

  Lemma Qb_nil lgc i b : Qb lgc i b [].
  Proof. split; [intros e []|constructor]. Qed.

  Lemma bucketsQ_setb ts lgc i b v : bucketsQ ts lgc -> Qb lgc i b v -> bucketsQ (setb ts i b v) lgc.
  Proof.
    intros H Hv i' b'. destruct (getb_setb_cases ts i b v i' b') as [E|[-> [-> E]]]; rewrite E; auto.
  Qed.

  Lemma bucketsQ_empty lgc : bucketsQ (empty_tables P lgc) lgc.
  Proof.
    intros i b. unfold empty_tables. rewrite getb_repeat_nil. apply Qb_nil.
  Qed.

  Lemma bfind_found b x : fst (bfind P b x) = true -> In x b.
  Proof. unfold bfind. destruct (p_ord P); [apply bfind_ord_found|apply bfind_unord_found]. Qed.

  Lemma bfind_complete lgc i b bk x : Qb lgc i b bk -> In x bk -> fst (bfind P bk x) = true.
  Proof.
    intros [_ Hs]. unfold bfind. destruct (p_ord P).
    - apply bfind_ord_complete; auto.
    - apply bfind_unord_complete.
  Qed.

  Lemma Qb_insert lgc i bk v : Qb lgc i (idx lgc i v) bk ->
    Qb lgc i (idx lgc i v) (insert_at (snd (bfind P bk v)) bk v).
  Proof.
    intros [Hp Hs]. split.
    - intros e He. apply (Permutation_in _ (insert_at_perm _ _ _)) in He. destruct He as [<-|He]; auto.
    - intros Ho. unfold bfind. rewrite Ho. apply bfind_ord_insert_sorted; auto.
  Qed.

  (** ** put = insert_after at the found position of bucket( i, hash_i(v) ) *)
  Lemma put_spec ts lgc i v : wf_tabs ts lgc -> i < k ->
    wf_tabs (put ts lgc i v) lgc /\ Permutation (elems (put ts lgc i v)) (v :: elems ts)
    /\ (bucketsQ ts lgc -> bucketsQ (put ts lgc i v) lgc).
  Proof.
    intros Hwf Hi. destruct (wf_inrange ts lgc i v Hwf Hi) as [H1 H2]. unfold CuckooSeq.put.
    split; [now apply wf_setb|]. split.
    - apply elems_setb_add; auto. apply insert_at_perm.
    - intros HQ. apply bucketsQ_setb; auto. apply Qb_insert. apply HQ.
  Qed.

  Lemma put_getb_nonempty ts lgc i v : wf_tabs ts lgc -> i < k -> getb (put ts lgc i v) i (idx lgc i v) <> [].
  Proof.
    intros Hwf Hi. destruct (wf_inrange ts lgc i v Hwf Hi) as [H1 H2]. unfold CuckooSeq.put.
    rewrite getb_setb_same by auto. unfold insert_at. intro E. apply app_eq_nil in E. destruct E; discriminate.
  Qed.

  Lemma others_lt nT i : In i (others P nT) -> i < k.
  Proof.
    unfold others. intros H. apply in_map_iff in H. destruct H as [j [<- Hj]]. apply in_seq in Hj.
    apply Nat.mod_upper_bound. lia.
  Qed.

  (** ** relocate *)
  Definition rstep_ok (ts : tables) (lgc : nat) (r : rstep) : Prop :=
    match r with
    | RDone ts' _ => wf_tabs ts' lgc /\ Permutation (elems ts') (elems ts) /\ (bucketsQ ts lgc -> bucketsQ ts' lgc)
    | RNext ts' i _ => wf_tabs ts' lgc /\ Permutation (elems ts') (elems ts) /\ (bucketsQ ts lgc -> bucketsQ ts' lgc) /\ i < k
    end.

  Lemma relocate_round_ok ts lgc nT g : wf_tabs ts lgc -> rstep_ok ts lgc (relocate_round ts lgc nT g).
  Proof.
    intros Hwf. unfold CuckooSeq.relocate_round.
    set (b := idx lgc nT g). destruct (length (getb ts nT b) <? p_thr P); [simpl; auto|].
    destruct (getb ts nT b) as [|v rest] eqn:Eref; [simpl; auto|].
    assert (Hne : getb ts nT b <> []) by (rewrite Eref; discriminate).
    destruct (getb_nonempty _ _ _ Hne) as [Hi Hb].
    set (ts1 := setb ts nT b rest).
    assert (Hwf1 : wf_tabs ts1 lgc) by (apply wf_setb; auto).
    assert (Hdel : Permutation (v :: elems ts1) (elems ts)).
    { apply elems_setb_del; auto. now rewrite Eref. }
    assert (HQ1 : bucketsQ ts lgc -> bucketsQ ts1 lgc).
    { intros HQ. apply bucketsQ_setb; auto. specialize (HQ nT b). rewrite Eref in HQ. destruct HQ as [Hp Hs].
      split; [intros e He; apply Hp; now right|]. intros Ho. specialize (Hs Ho). now inversion Hs. }
    destruct (List.find (below_thr h P ts1 lgc v) (others P nT)) as [i|] eqn:F1.
    { apply find_some in F1. destruct F1 as [F1 _]. apply others_lt in F1.
      destruct (put_spec ts1 lgc i v Hwf1 F1) as [A [B C]]. simpl. split; auto. split; auto.
      now rewrite B. }
    destruct (List.find (below_size h P ts1 lgc v) (others P nT)) as [i|] eqn:F2.
    { apply find_some in F2. destruct F2 as [F2 _]. apply others_lt in F2.
      destruct (put_spec ts1 lgc i v Hwf1 F2) as [A [B C]]. simpl. split; auto. split; [now rewrite B|]. split; auto. }
    simpl. split; [now apply wf_setb|].
    assert (Hi1 : nT < length ts1) by (unfold ts1, setb; now rewrite upd_length).
    assert (Hb1 : b < length (nth nT ts1 [])).
    { unfold ts1, setb. rewrite nth_upd_eq by auto. now rewrite upd_length. }
    assert (G1 : getb ts1 nT b = rest) by (apply getb_setb_same; auto).
    split.
    - rewrite <- Hdel. apply elems_setb_add; auto. now rewrite G1.
    - intros HQ. apply bucketsQ_setb; auto. specialize (HQ nT b). now rewrite Eref in HQ.
  Qed.

  Lemma relocate_S r ts lgc nT g :
    relocate (S r) ts lgc nT g =
    match relocate_round ts lgc nT g with
    | RDone ts' ok => (ts', ok)
    | RNext ts' i v => relocate r ts' lgc i v
    end.
  Proof. reflexivity. Qed.

  Lemma relocate_ok rounds : forall ts lgc nT g, wf_tabs ts lgc ->
    wf_tabs (fst (relocate rounds ts lgc nT g)) lgc /\
    Permutation (elems (fst (relocate rounds ts lgc nT g))) (elems ts) /\
    (bucketsQ ts lgc -> bucketsQ (fst (relocate rounds ts lgc nT g)) lgc).
  Proof.
    induction rounds as [|r IH]; intros ts lgc nT g Hwf; [simpl; auto|].
    rewrite relocate_S.
    pose proof (relocate_round_ok ts lgc nT g Hwf) as H.
    destruct (relocate_round ts lgc nT g) as [ts' ok|ts' i v]; simpl in *.
    - exact H.
    - destruct H as [A [B [C D]]]. destruct (IH ts' lgc i v A) as [A' [B' C']].
      split; auto. split; [now rewrite B'|auto].
  Qed.

  (** ** place and resize *)
  Lemma place_ok lgc ts dr e : wf_tabs ts lgc ->
    let r := place lgc (ts, dr) e in
    wf_tabs (fst r) lgc /\ Permutation (elems (fst r) ++ snd r) (e :: elems ts ++ dr) /\
    (bucketsQ ts lgc -> bucketsQ (fst r) lgc) /\ (exists d, snd r = dr ++ d).
  Proof.
    intros Hwf. unfold CuckooSeq.place.
    destruct (List.find (below_thr h P ts lgc e) (seq 0 (CuckooSeq.k P))) as [i|] eqn:F1.
    { apply find_some_seq in F1. destruct F1 as [F1 _].
      destruct (put_spec ts lgc i e Hwf F1) as [A [B C]]. simpl.
      split; [exact A|]. split; [now rewrite B|]. split; [exact C|].
      exists []. now rewrite app_nil_r. }
    destruct (List.find (below_size h P ts lgc e) (seq 0 (CuckooSeq.k P))) as [i|] eqn:F2.
    { apply find_some_seq in F2. destruct F2 as [F2 _].
      destruct (put_spec ts lgc i e Hwf F2) as [A [B C]].
      destruct (relocate_ok (relocate_limit P) (put ts lgc i e) lgc i
                            (hd e (getb (put ts lgc i e) i (idx lgc i e))) A) as [A' [B' C']].
      simpl. split; [exact A'|]. split; [now rewrite B', B|]. split; [auto|].
      exists []. now rewrite app_nil_r. }
    simpl. split; [exact Hwf|]. split; [|split; [auto|exists [e]; reflexivity]].
    rewrite app_assoc. rewrite <- Permutation_cons_append. reflexivity.
  Qed.

  Lemma fold_place_ok lgc l : forall ts dr, wf_tabs ts lgc ->
    let r := fold_left (place lgc) l (ts, dr) in
    wf_tabs (fst r) lgc /\ Permutation (elems (fst r) ++ snd r) (l ++ elems ts ++ dr) /\
    (bucketsQ ts lgc -> bucketsQ (fst r) lgc).
  Proof.
    induction l as [|e l IH]; intros ts dr Hwf; [simpl; auto|].
    cbv zeta. cbn [fold_left].
    pose proof (place_ok lgc ts dr e Hwf) as H. cbv zeta in H.
    destruct (place lgc (ts, dr) e) as [ts' dr'] eqn:E; cbn [fst snd] in H.
    destruct H as [A [B [C _]]]. specialize (IH ts' dr' A). cbv zeta in IH.
    destruct IH as [A' [B' C']]. split; auto. split; auto.
    rewrite B'. rewrite B. simpl. symmetry. apply Permutation_middle.
  Qed.

  (** resize() neither duplicates nor invents: the new contents plus the fall-through list are the old
      contents (no hypothesis on the old table at all) *)
  Theorem resize_conserves t :
    Permutation (elems (tabs (fst (resize t))) ++ snd (resize t)) (elems (tabs t)).
  Proof.
    unfold CuckooSeq.resize. simpl.
    destruct (fold_place_ok (S (lg t)) (elems (tabs t)) (empty_tables P (S (lg t))) [] (wf_empty _)) as [_ [B _]].
    simpl in B. rewrite B. rewrite elems_empty. simpl. now rewrite app_nil_r.
  Qed.

  Lemma resize_wf t : wf_tabs (tabs (fst (resize t))) (lg (fst (resize t))) /\
                      bucketsQ (tabs (fst (resize t))) (lg (fst (resize t))) /\
                      cnt (fst (resize t)) = cnt t /\ lg (fst (resize t)) = S (lg t).
  Proof.
    unfold CuckooSeq.resize. simpl.
    destruct (fold_place_ok (S (lg t)) (elems (tabs t)) (empty_tables P (S (lg t))) [] (wf_empty _)) as [A [_ C]].
    simpl in *. split; [exact A|]. split; [apply C; apply bucketsQ_empty|]. split; reflexivity.
  Qed.

  Corollary resize_preserves_if_no_fallthrough t :
    snd (resize t) = [] -> Permutation (elems (tabs (fst (resize t)))) (elems (tabs t)).
  Proof. intros H. pose proof (resize_conserves t) as C. rewrite H, app_nil_r in C. exact C. Qed.

  (** ** insert *)
  Definition wf (t : tbl) : Prop := wf_tabs (tabs t) (lg t).
  Definition Inv (t : tbl) : Prop := wf t /\ bucketsQ (tabs t) (lg t) /\ NoDup (elems (tabs t)).

  Lemma insert_S f t x :
    insert (S f) t x =
      if cfind t x then (Ok false, t, [])
      else
        match List.find (below_thr h P (tabs t) (lg t) x) (seq 0 (CuckooSeq.k P)) with
        | Some i => (Ok true, mkTbl (lg t) (put (tabs t) (lg t) i x) (S (cnt t)), [])
        | None =>
          match List.find (below_size h P (tabs t) (lg t) x) (seq 0 (CuckooSeq.k P)) with
          | Some i =>
            let ts' := put (tabs t) (lg t) i x in
            let g := hd x (getb ts' i (idx (lg t) i x)) in
            let r := relocate (relocate_limit P) ts' (lg t) i g in
            let t' := mkTbl (lg t) (fst r) (S (cnt t)) in
            if snd r then (Ok true, t', [])
            else let (t'', dr) := resize t' in (Ok true, t'', dr)
          | None =>
            let (t1, dr) := resize t in
            match insert f t1 x with
            | (o, t2, dr2) => (o, t2, dr ++ dr2)
            end
          end
        end.
  Proof. reflexivity. Qed.

  Lemma insert_ok fuel : forall t x o t' dr, wf t -> insert fuel t x = (o, t', dr) ->
    wf t' /\ (bucketsQ (tabs t) (lg t) -> bucketsQ (tabs t') (lg t')) /\
    match o with
    | Ok true => Permutation (elems (tabs t') ++ dr) (x :: elems (tabs t)) /\ cnt t' = S (cnt t)
    | _ => Permutation (elems (tabs t') ++ dr) (elems (tabs t)) /\ cnt t' = cnt t
    end.
  Proof.
    induction fuel as [|f IH]; intros t x o t' dr Hwf.
    { simpl. intros E; inversion E; subst. split; [exact Hwf|]. split; [auto|]. split; [now rewrite app_nil_r|reflexivity]. }
    rewrite insert_S. cbv zeta.
    destruct (cfind t x).
    { intros E; inversion E; subst. split; [exact Hwf|]. split; [auto|]. split; [now rewrite app_nil_r|reflexivity]. }
    destruct (List.find (below_thr h P (tabs t) (lg t) x) (seq 0 (CuckooSeq.k P))) as [i|] eqn:F1.
    { apply find_some_seq in F1. destruct F1 as [F1 _]. intros E; inversion E; subst; clear E.
      destruct (put_spec (tabs t) (lg t) i x Hwf F1) as [A [B C]]. unfold wf; simpl.
      split; [exact A|]. split; [exact C|]. split; [now rewrite app_nil_r|reflexivity]. }
    destruct (List.find (below_size h P (tabs t) (lg t) x) (seq 0 (CuckooSeq.k P))) as [i|] eqn:F2.
    { apply find_some_seq in F2. destruct F2 as [F2 _].
      destruct (put_spec (tabs t) (lg t) i x Hwf F2) as [A [B C]].
      set (ts' := put (tabs t) (lg t) i x) in *.
      destruct (relocate_ok (relocate_limit P) ts' (lg t) i (hd x (getb ts' i (idx (lg t) i x))) A) as [A' [B' C']].
      set (r := relocate (relocate_limit P) ts' (lg t) i (hd x (getb ts' i (idx (lg t) i x)))) in *.
      destruct (snd r).
      - intros E; inversion E; subst; clear E. unfold wf; simpl.
        split; [exact A'|]. split; [auto|]. split; [|reflexivity].
        rewrite app_nil_r. now rewrite B', B.
      - match goal with |- context [resize ?a] =>
          pose proof (resize_conserves a) as RC; pose proof (resize_wf a) as [W1 [W2 [W3 W4]]];
          destruct (resize a) as [t'' dr''] eqn:ER end. simpl in *.
        intros E; inversion E; subst; clear E. unfold wf.
        split; [exact W1|]. split; [auto|]. split; [|exact W3].
        rewrite RC. now rewrite B', B. }
    pose proof (resize_conserves t) as RC. pose proof (resize_wf t) as [W1 [W2 [W3 W4]]].
    destruct (resize t) as [t1 dr1] eqn:ER. simpl in *.
    destruct (insert f t1 x) as [[o2 t2] dr2] eqn:EI.
    intros E; inversion E; subst; clear E.
    destruct (IH t1 x o t' dr2 W1 EI) as [A [B C]].
    split; [exact A|]. split; [auto|].
    assert (G : forall l, Permutation (elems (tabs t') ++ dr2) l ->
                Permutation (elems (tabs t') ++ dr1 ++ dr2) (l ++ dr1)).
    { intros l Hl. rewrite (Permutation_app_comm dr1 dr2). rewrite app_assoc. now apply Permutation_app_tail. }
    destruct o as [[|]|]; destruct C as [C1 C2]; (split; [|congruence]).
    - rewrite (G _ C1). simpl. constructor. exact RC.
    - rewrite (G _ C1). exact RC.
    - rewrite (G _ C1). exact RC.
  Qed.

  (** the unconditional form used in Properties_C17 *)
  Theorem insert_conserves fuel t x r t' dr : wf t -> insert fuel t x = (Ok r, t', dr) ->
    wf t' /\ Permutation (elems (tabs t') ++ dr) ((if r then [x] else []) ++ elems (tabs t)) /\
    cnt t' = (if r then S (cnt t) else cnt t).
  Proof.
    intros Hwf E. destruct (insert_ok fuel t x (Ok r) t' dr Hwf E) as [A [_ C]].
    split; [exact A|]. destruct r; exact C.
  Qed.

  Theorem relocate_preserves rounds ts lgc nT g : wf_tabs ts lgc ->
    Permutation (elems (fst (relocate rounds ts lgc nT g))) (elems ts).
  Proof. intros Hwf. apply (relocate_ok rounds ts lgc nT g Hwf). Qed.

  (** ** membership: under the invariant [cfind] decides [In _ elems] *)
  Lemma cfind_sound t x : cfind t x = true -> In x (elems (tabs t)).
  Proof.
    unfold CuckooSeq.cfind, CuckooSeq.contains.
    destruct (List.find _ _) as [i|] eqn:F; [|discriminate]. intros _.
    apply find_some in F. destruct F as [_ F]. apply bfind_found in F. eapply in_getb_elems; eauto.
  Qed.

  Lemma cfind_complete t x : wf t -> bucketsQ (tabs t) (lg t) -> In x (elems (tabs t)) -> cfind t x = true.
  Proof.
    intros [Hl Hf] HQ Hin. apply in_elems_getb in Hin. destruct Hin as [i [b Hin]].
    assert (Hne : getb (tabs t) i b <> []) by (intro E; rewrite E in Hin; inversion Hin).
    destruct (getb_nonempty _ _ _ Hne) as [Hi _].
    pose proof (HQ i b) as Hq. destruct Hq as [Hp _]. pose proof (Hp _ Hin) as Eb. subst b.
    unfold CuckooSeq.cfind, CuckooSeq.contains.
    destruct (List.find _ _) as [j|] eqn:F; [reflexivity|]. exfalso.
    pose proof (find_none_seq _ _ F i) as Hn. cbv beta in Hn. rewrite Hl in Hi. specialize (Hn Hi).
    rewrite (bfind_complete (lg t) i _ _ x (HQ i _) Hin) in Hn. discriminate.
  Qed.

  Theorem cfind_iff t x : Inv t -> (cfind t x = true <-> In x (elems (tabs t))).
  Proof. intros [Hwf [HQ _]]. split; [apply cfind_sound|apply cfind_complete; auto]. Qed.

  Lemma Inv_init lg0 : Inv (init P lg0).
  Proof.
    unfold Inv, wf, init; simpl. split; [apply wf_empty|]. split; [apply bucketsQ_empty|].
    rewrite elems_empty. constructor.
  Qed.

  Lemma insert_true_notfound fuel t x t' dr : insert fuel t x = (Ok true, t', dr) -> cfind t x = false.
  Proof.
    destruct fuel; [simpl; discriminate|]. rewrite insert_S. destruct (cfind t x); [discriminate|reflexivity].
  Qed.

  (** the invariant (in particular: no key twice) is preserved by every insert, whatever its outcome *)
  Theorem insert_Inv fuel t x o t' dr : Inv t -> insert fuel t x = (o, t', dr) -> Inv t'.
  Proof.
    intros [Hwf [HQ Hnd]] E. destruct (insert_ok fuel t x o t' dr Hwf E) as [A [B C]].
    split; [exact A|]. split; [auto|].
    assert (G : forall l, NoDup l -> Permutation (elems (tabs t') ++ dr) l -> NoDup (elems (tabs t'))).
    { intros l Hl Hp. apply Permutation_sym in Hp. apply (Permutation_NoDup Hp) in Hl.
      now apply NoDup_app_l in Hl. }
    destruct o as [[|]|]; destruct C as [C _].
    - assert (Hn : ~ In x (elems (tabs t))).
      { intros Hin. apply insert_true_notfound in E. apply cfind_complete in Hin; auto. congruence. }
      exact (G _ (NoDup_cons x Hn Hnd) C).
    - exact (G _ Hnd C).
    - exact (G _ Hnd C).
  Qed.

  (** an insert that reports success: afterwards every key that was found before, and the new key, is found or
      is in the list of nodes that fell through in a nested resize — there is no other way to disappear *)
  Theorem insert_found_or_dropped fuel t x t' dr : Inv t -> insert fuel t x = (Ok true, t', dr) ->
    forall y, (y = x \/ cfind t y = true) -> cfind t' y = true \/ In y dr.
  Proof.
    intros HI E y Hy. pose proof (insert_Inv fuel t x _ t' dr HI E) as HI'.
    destruct HI as [Hwf [HQ Hnd]]. destruct (insert_ok fuel t x _ t' dr Hwf E) as [A [B [C _]]].
    assert (Hin : In y (x :: elems (tabs t))).
    { destruct Hy as [->|Hy]; [now left|right; now apply cfind_sound]. }
    apply (Permutation_in _ (Permutation_sym C)) in Hin. apply in_app_or in Hin.
    destruct Hin as [Hin|Hin]; [left|now right]. now apply (cfind_iff t' y HI').
  Qed.

  (** ** erase *)
  Lemma bfind_remove bk x : fst (bfind P bk x) = true ->
    Permutation (x :: remove_at (snd (bfind P bk x)) bk) bk.
  Proof. unfold bfind. destruct (p_ord P); [apply bfind_ord_remove|apply bfind_unord_remove]. Qed.

  Theorem erase_conserves t x r t' : wf t -> erase h P t x = (r, t') ->
    wf t' /\ (bucketsQ (tabs t) (lg t) -> bucketsQ (tabs t') (lg t')) /\
    if r then Permutation (x :: elems (tabs t')) (elems (tabs t)) /\ cnt t' = pred (cnt t) else t' = t.
  Proof.
    intros Hwf. unfold CuckooSeq.erase, CuckooSeq.contains.
    destruct (List.find _ _) as [i|] eqn:F; intros E; inversion E; subst; clear E; [|auto].
    apply find_some_seq in F. destruct F as [Hi F].
    destruct (wf_inrange (tabs t) (lg t) i x Hwf Hi) as [H1 H2]. unfold wf; simpl.
    split; [now apply wf_setb|]. split.
    - intros HQ. apply bucketsQ_setb; auto. destruct (HQ i (idx (lg t) i x)) as [Hp Hs]. split.
      + intros e He. apply Hp. eapply remove_at_incl; eauto.
      + intros Ho. apply remove_at_sorted; auto.
    - split; [|reflexivity]. apply elems_setb_del; auto. symmetry. now apply bfind_remove.
  Qed.

  Theorem erase_Inv t x r t' : Inv t -> erase h P t x = (r, t') -> Inv t'.
  Proof.
    intros [Hwf [HQ Hnd]] E. destruct (erase_conserves t x r t' Hwf E) as [A [B C]].
    destruct r; [|now subst]. destruct C as [C _]. split; [exact A|]. split; [auto|].
    apply Permutation_sym in C. apply (Permutation_NoDup C) in Hnd. now inversion Hnd.
  Qed.

  (** ** reachability and the tables on which insert() calls resize() *)
  Inductive reach : tbl -> Prop :=
  | reach_init lg0 : reach (init P lg0)
  | reach_insert t x fuel t' dr : reach t -> insert fuel t x = (Ok true, t', dr) -> reach t'
  | reach_erase t x t' : reach t -> erase h P t x = (true, t') -> reach t'.

  Lemma reach_Inv t : reach t -> Inv t.
  Proof.
    induction 1; [apply Inv_init|eapply insert_Inv; eauto|eapply erase_Inv; eauto].
  Qed.

  (** [resize_called_on t]: a transcription of the two places where insert( x ) on a reachable table calls
      resize(): all k probe sets of x are full, or the relocation that follows the insertion above the
      threshold fails *)
  Inductive resize_called_on : tbl -> Prop :=
  | rc_full t x : reach t -> cfind t x = false ->
      List.find (below_thr h P (tabs t) (lg t) x) (seq 0 (CuckooSeq.k P)) = None ->
      List.find (below_size h P (tabs t) (lg t) x) (seq 0 (CuckooSeq.k P)) = None ->
      resize_called_on t
  | rc_relocate_failed t x i : reach t -> cfind t x = false ->
      List.find (below_thr h P (tabs t) (lg t) x) (seq 0 (CuckooSeq.k P)) = None ->
      List.find (below_size h P (tabs t) (lg t) x) (seq 0 (CuckooSeq.k P)) = Some i ->
      let ts' := put (tabs t) (lg t) i x in
      let r := relocate (relocate_limit P) ts' (lg t) i (hd x (getb ts' i (idx (lg t) i x))) in
      snd r = false ->
      resize_called_on (mkTbl (lg t) (fst r) (S (cnt t))).
End Proofs.

(** ** The refutation: CuckooSet::resize() loses elements (minimal witness found by exhaustive search on the
    extracted model: no witness with fewer than 3 keys for hash values < 8, any initial capacity 1, 2, 4).
    arity 2, probe-set size 1 (hence threshold 0), initial capacity 2, unordered;
    h_0 = [1;1;0], h_1 = [0;0;0] over the keys 0,1,2.  insert 0, insert 1 succeed; insert 2 puts 2 into table 0,
    the relocation ping-pongs for c_nRelocateLimit rounds and fails, resize() is called and key 1 falls
    through: both of its probe sets in the doubled tables are full. *)
Definition wit_h : nat -> key -> N := h_tab [[1;1;0];[0;0;0]]%N.
Definition wit_P : params := mkParams 2 1 0 false.
Definition wit_t1 : tbl := snd (fst (insert wit_h wit_P 6 (init wit_P 1) 0%N)).
Definition wit_t2 : tbl := snd (fst (insert wit_h wit_P 6 wit_t1 1%N)).
Definition wit_t3 : tbl := snd (fst (insert wit_h wit_P 6 wit_t2 2%N)).

Lemma wit_reach : reach wit_h wit_P wit_t2.
Proof.
  apply (reach_insert wit_h wit_P wit_t1 1%N 6 wit_t2 []).
  - apply (reach_insert wit_h wit_P (init wit_P 1) 0%N 6 wit_t1 []); [apply reach_init|].
    vm_compute. reflexivity.
  - vm_compute. reflexivity.
Qed.

Definition wit_resize_arg : tbl :=
  let t := wit_t2 in let x := 2%N in let i := 0 in
  let ts' := put wit_h wit_P (tabs t) (lg t) i x in
  let r := relocate wit_h wit_P (relocate_limit wit_P) ts' (lg t) i (hd x (getb ts' i (idx wit_h (lg t) i x))) in
  mkTbl (lg t) (fst r) (S (cnt t)).

Theorem resize_refuted :
  exists (h : nat -> key -> N) (P : params) (t : tbl),
    resize_called_on h P t /\ snd (resize h P t) <> [].
Proof.
  exists wit_h, wit_P, wit_resize_arg. split.
  - unfold wit_resize_arg. apply (rc_relocate_failed wit_h wit_P wit_t2 2%N 0).
    + apply wit_reach.
    + vm_compute. reflexivity.
    + vm_compute. reflexivity.
    + vm_compute. reflexivity.
    + vm_compute. reflexivity.
  - vm_compute. discriminate.
Qed.

(** end to end: three inserts all report success, the set then claims three elements and key 1 is gone *)
Theorem insert_loses_refuted :
  exists (h : nat -> key -> N) (P : params) (lg0 fuel : nat) (t1 t2 t3 : tbl) (d3 : list key),
    insert h P fuel (init P lg0) 0%N = (Ok true, t1, []) /\
    insert h P fuel t1 1%N = (Ok true, t2, []) /\
    insert h P fuel t2 2%N = (Ok true, t3, d3) /\
    cfind h P t2 1%N = true /\ cfind h P t3 1%N = false /\ cnt t3 = 3 /\ d3 = [1%N].
Proof.
  exists wit_h, wit_P, 1, 6, wit_t1, wit_t2, wit_t3, [1%N].
  vm_compute. repeat split; reflexivity.
Qed.
