(** * Arithmetic of the wrapped Vyukov model: a value stored in a size_t is its unbounded ("ghost") value
      modulo 2^64; every comparison the code makes agrees with the comparison of the ghost values as long as the
      two ghost values are less than 2^63 (signed difference) resp. 2^64 (equality tests) apart.
      Also: the generic programs of LV.Model.VyukovWrap instantiated with the checked difference are the programs
      of LV.Model.Vyukov. *)
From Coq Require Import ZArith List Bool Lia Znumtheory.
From LV Require Import Base.Conc Base.Events Base.CInt Model.Vyukov Model.VyukovWrap Proofs.VyukovArith.
Import ListNotations.
Local Open Scope Z_scope.

(** ** the generic programs are the old ones *)
Lemma gen_is_strict_enq q fuel v pos : enq_loop_g sdif q fuel v pos = enq_loop q fuel v pos.
Proof. reflexivity. Qed.
Lemma gen_is_strict_deq q fuel pos : deq_loop_g sdif q fuel pos = deq_loop q fuel pos.
Proof. reflexivity. Qed.
Lemma gen_is_strict_op q fuel o : run_op_g sdif q fuel o = run_op q fuel o.
Proof. reflexivity. Qed.
Lemma gen_is_strict q fuel os : thread_prog_g sdif q fuel os = thread_prog q fuel os.
Proof. reflexivity. Qed.

Definition L62 : Z := 2 ^ 62.

Lemma m64_val : m64 = 18446744073709551616.
Proof. reflexivity. Qed.
Lemma L62_val : L62 = 4611686018427387904.
Proof. reflexivity. Qed.
Lemma m64_pos : 0 < m64.
Proof. rewrite m64_val. lia. Qed.

Lemma mod_congr x y c : x = y + c * m64 -> x mod m64 = y mod m64.
Proof. intros ->. apply Z_mod_plus_full. Qed.

(** equal residues of two values less than 2^64 apart *)
Lemma mod_eq_window a b : - m64 < a - b < m64 -> a mod m64 = b mod m64 -> a = b.
Proof.
  intros Hw He. pose proof m64_pos as Hm.
  pose proof (Z.div_mod a m64 ltac:(lia)) as Ea. pose proof (Z.div_mod b m64 ltac:(lia)) as Eb.
  rewrite He in Ea.
  assert (a - b = m64 * (a / m64 - b / m64)) as E by lia.
  assert (a / m64 - b / m64 = 0) by nia. lia.
Qed.

Lemma eqb_mod_window a b : - m64 < a - b < m64 -> (a mod m64 =? b mod m64) = (a =? b).
Proof.
  intros Hw. destruct (Z.eqb_spec a b) as [->|N].
  - apply Z.eqb_refl.
  - apply Z.eqb_neq. intros E. apply N. apply mod_eq_window; auto.
Qed.

Lemma uadd_mod a n : uadd u64 (a mod m64) n = (a + n) mod m64.
Proof. unfold uadd. cbn [ibits u64]. change (2 ^ 64) with m64. apply Zplus_mod_idemp_l. Qed.

Lemma usub_mod a b : usub u64 (a mod m64) (b mod m64) = (a - b) mod m64.
Proof. unfold usub. cbn [ibits u64]. change (2 ^ 64) with m64. symmetry. apply Zminus_mod. Qed.

(** pos - other == c  on size_t *)
Lemma usub_eqb_window a b c : 0 <= c < m64 -> c - m64 < a - b < c + m64 ->
  (usub u64 (a mod m64) (b mod m64) =? c) = (a - b =? c).
Proof.
  intros Hc Hw. rewrite usub_mod. rewrite <- (Z.mod_small c m64) at 1 by lia.
  apply eqb_mod_window. lia.
Qed.

(** the two's complement signed difference of two residues is the difference of the ghost values when that
    difference fits intptr_t *)
Lemma sdw_exact a b : - 2 ^ 63 <= a - b < 2 ^ 63 -> sdw (a mod m64) (b mod m64) = a - b.
Proof.
  intros Hw. unfold sdw, cast, wrap. cbn [isigned ibits i64].
  change (64 - 1) with 63. change (2 ^ 64) with m64.
  set (h := 2 ^ 63) in *.
  assert (Hh : m64 = 2 * h) by reflexivity.
  pose proof m64_pos as Hm.
  rewrite (Z.mod_eq (a mod m64 + h) m64) by lia. rewrite (Z.mod_eq (b mod m64 + h) m64) by lia.
  rewrite (Z.mod_eq a m64) by lia. rewrite (Z.mod_eq b m64) by lia.
  set (qa := a / m64). set (qb := b / m64).
  set (ra := (a - m64 * qa + h) / m64). set (rb := (b - m64 * qb + h) / m64).
  replace (a - m64 * qa + h - m64 * ra - h - (b - m64 * qb + h - m64 * rb - h) + h)
    with (a - b + h + (qb + rb - qa - ra) * m64) by ring.
  rewrite Z_mod_plus_full. rewrite Z.mod_small by lia. lia.
Qed.

(** ** cells: the mask applied to a residue is the cell of the ghost position (capacity 2^k divides 2^64) *)
Section Ring.
  Variable k : nat.
  Hypothesis Hk : (1 <= k)%nat.
  Hypothesis Hk61 : (k <= 61)%nat.
  Let cap : Z := 2 ^ Z.of_nat k.

  Lemma cap_le_61 : cap <= 2 ^ 61.
  Proof. unfold cap. apply Z.pow_le_mono_r; lia. Qed.

  Lemma cap_lt_B62 : cap < B62.
  Proof. pose proof cap_le_61 as H. unfold B62. change (2 ^ 62) with (2 * 2 ^ 61). lia. Qed.

  Lemma capw_ge2 : 2 <= cap.
  Proof. apply (cap_ge2 k Hk). Qed.

  Lemma cap_divides : (cap | m64).
  Proof.
    exists (2 ^ (64 - Z.of_nat k)). unfold m64, cap. rewrite <- Z.pow_add_r by lia. f_equal. lia.
  Qed.

  Lemma cell_mod p : cell k (p mod m64) = cell k p.
  Proof.
    unfold cell. fold cap. symmetry. apply Zmod_div_mod.
    - pose proof capw_ge2. lia.
    - apply m64_pos.
    - apply cap_divides.
  Qed.

  Lemma idx_mod q p : qcap q = cap -> Z.land (p mod m64) (qmask q) = cell k p.
  Proof.
    intros Hq. rewrite (qmask_val k Hk q Hq cap_lt_B62). fold cap.
    rewrite (land_mask k Hk). apply cell_mod.
  Qed.

  Lemma qmask_cap q : qcap q = cap -> qmask q = cap - 1.
  Proof. intros Hq. apply (qmask_val k Hk q Hq cap_lt_B62). Qed.

  (** cell->sequence.store( pos + m_nBufferMask + 1 ) *)
  Lemma uadd_mask q p : qcap q = cap ->
    uadd u64 (uadd u64 (p mod m64) (qmask q)) 1 = (p + cap) mod m64.
  Proof.
    intros Hq. rewrite (qmask_cap q Hq). rewrite uadd_mod, uadd_mod. f_equal. lia.
  Qed.

  (** the cell of the position of the window [d, d+cap) that shares the cell of x *)
  Lemma cell_window d x : exists p, d <= p < d + cap /\ cell k p = cell k x.
  Proof.
    pose proof capw_ge2 as C2.
    exists (d + (x - d) mod cap). pose proof (Z.mod_pos_bound (x - d) cap ltac:(lia)). split; [lia|].
    unfold cell. fold cap. rewrite Zplus_mod_idemp_r. f_equal. lia.
  Qed.
End Ring.
