(** * The key of an existing item never changes, and item ids are only handed out upwards - for every step of every
      execution of LV.Model.FeldmanIter.  A property of the accesses alone (no invariant needed): [kp_prog p] says that
      every access of program [p] satisfies [KP]; all thread programs of the model do, continuations of such programs do. *)
From Coq Require Import ZArith NArith List Bool Arith PeanoNat Lia String.
From LV Require Import Base.Conc Base.Events Model.Feldman Model.FeldmanIter Proofs.FeldmanIterTraceThm.
Import ListNotations.

Set Implicit Arguments.

Definition KP (g g' : G) : Prop := nitem g <= nitem g' /\ forall x, x <= nitem g -> ikey g' x = ikey g x.

Lemma KP_refl g : KP g g.
Proof. split; auto. Qed.

Lemma KP_trans g1 g2 g3 : KP g1 g2 -> KP g2 g3 -> KP g1 g3.
Proof. intros [A1 A2] [B1 B2]. split; [lia|]. intros x Hx. rewrite B2 by lia. apply A2. exact Hx. Qed.

Notation prog := (Conc.prog G V ev).

Fixpoint kp_prog {R} (p : prog R) : Prop :=
  match p with
  | Ret _ => True
  | Emit _ k => kp_prog k
  | Act f k => (forall g, KP g (fst (fst (f g)))) /\ forall v, kp_prog (k v)
  end.

Lemma kp_bind {A B} (p : prog A) (q : A -> prog B) : kp_prog p -> (forall r, kp_prog (q r)) -> kp_prog (Conc.bind p q).
Proof.
  intros Hp Hq. induction p as [r|es k IH|f k IH]; cbn [Conc.bind kp_prog] in *; auto.
  destruct Hp as [H1 H2]. split; auto.
Qed.

Lemma kp_settle (p : Conc.thread G V ev) : kp_prog p -> kp_prog (snd (Conc.settle p)).
Proof.
  induction p as [r|es k IH|f k IH]; cbn [Conc.settle kp_prog]; intros H; auto.
  specialize (IH H). destruct (Conc.settle k) as [es' p']. exact IH.
Qed.

(** ** the accesses *)
Lemma KP_begin g : KP g (fst (fst (a_begin g))).
Proof. apply KP_refl. Qed.
Lemma KP_ld a i g : KP g (fst (fst (a_ld a i g))).
Proof. apply KP_refl. Qed.
Lemma KP_cas a i e n g : KP g (fst (fst (a_cas a i e n g))).
Proof. unfold KP, a_cas. destruct (slot_eqb _ _); cbn [fst snd nitem ikey]; split; auto. Qed.
Lemma KP_cas_conv a i e g : KP g (fst (fst (a_cas_conv a i e g))).
Proof. unfold KP, a_cas_conv. destruct (slot_eqb _ _); cbn [fst snd nitem ikey]; split; auto. Qed.
Lemma KP_st a i s g : KP g (fst (fst (a_st a i s g))).
Proof. unfold KP, a_st. cbn [fst snd nitem ikey]. split; auto. Qed.
Lemma KP_nop kd o g : KP g (fst (fst (a_nop kd o g))).
Proof. apply KP_refl. Qed.
Lemma KP_cnt kd d g : KP g (fst (fst (a_cnt kd d g))).
Proof. unfold KP, a_cnt. cbn [fst snd nitem ikey]. split; auto. Qed.
Lemma KP_gst_new t s k g : KP g (fst (fst (a_gst_new t s k g))).
Proof.
  unfold KP, a_gst_new. cbn [fst snd nitem ikey]. split; [lia|]. intros x Hx. destruct (Nat.eqb_spec x (S (nitem g))); [lia|reflexivity].
Qed.

#[export] Hint Resolve KP_begin KP_ld KP_cas KP_cas_conv KP_st KP_nop KP_cnt KP_gst_new : fkp.

Ltac kpa := split; [intros ?g; auto with fkp | intros ?v].

Section Progs.
  Variables (hbits abits W : nat) (hs : list N).

  Lemma kp_traverse h : forall sf p, kp_prog (traverse abits sf h p).
  Proof.
    induction sf as [|sf IH]; intros p; cbn [traverse kp_prog]; [exact I|]. kpa.
    destruct (Nat.eqb (sbits (vslot v)) 2); [apply IH|]. destruct (Nat.eqb (sbits (vslot v)) 1); [apply IH|exact I].
  Qed.

  Lemma kp_protect_loop t s p : forall sf cur, kp_prog (protect_loop sf t s p cur).
  Proof.
    induction sf as [|sf IH]; intros cur; cbn [protect_loop kp_prog]; [exact I|].
    unfold a_gst, a_sync. kpa. kpa. kpa. destruct (slot_eqb (vslot v1) (vslot cur)); [exact I|apply IH].
  Qed.

  Lemma kp_protect sf t s p : kp_prog (protect sf t s p).
  Proof. unfold protect. cbn [kp_prog]. kpa. apply kp_protect_loop. Qed.

  Lemma kp_protect_arr t s p : forall sf, kp_prog (protect_arr sf t s p).
  Proof.
    induction sf as [|sf IH]; cbn [protect_arr kp_prog]; [exact I|].
    unfold a_gst, a_sync. kpa. kpa. kpa. kpa. destruct (slot_eqb (vslot v2) (vslot v)); [exact I|apply IH].
  Qed.

  Lemma kp_retire t : kp_prog (retire t).
  Proof. unfold retire, a_rld, a_rst. cbn [kp_prog]. kpa. kpa. exact I. Qed.

  Lemma kp_expand p cur : kp_prog (expand_slot abits hs p cur).
  Proof.
    unfold expand_slot. cbn [kp_prog]. kpa. destruct (vok v); [|exact I]. cbn [kp_prog]. kpa. kpa. exact I.
  Qed.

  Lemma kp_upd_loop sf is_update allow t g0 k id : forall fuel p, kp_prog (upd_loop abits W hs fuel sf is_update allow t g0 k id p).
  Proof.
    induction fuel as [|fuel IH]; intros p; cbn [upd_loop]; [exact I|].
    apply kp_bind; [apply kp_traverse|]. intros [[p' v]|]; [|exact I].
    apply kp_bind; [apply kp_protect_arr|]. intros [v'|]; [|exact I].
    destruct (negb (slot_eqb (vslot v') (vslot v))); [apply IH|].
    destruct (negb (Nat.eqb (sptr (vslot v)) 0)).
    - destruct (N.eqb (hash hs (vkey v')) (hash hs k)).
      + destruct is_update; [|exact I]. cbn [kp_prog]. kpa. destruct (vok v0); [|apply IH].
        apply kp_bind; [apply kp_retire|]. intros _. exact I.
      + destruct allow; [|exact I]. destruct (Nat.ltb (poff p') W); [|exact I].
        apply kp_bind; [apply kp_expand|]. intros _. apply IH.
    - destruct allow; [|exact I]. cbn [kp_prog]. kpa. destruct (vok v0); [|apply IH]. cbn [kp_prog]. kpa. exact I.
  Qed.

  Lemma kp_erase_loop sf t g0 k : forall fuel p, kp_prog (erase_loop abits hs fuel sf t g0 k p).
  Proof.
    induction fuel as [|fuel IH]; intros p; cbn [erase_loop]; [exact I|].
    apply kp_bind; [apply kp_traverse|]. intros [[p' v]|]; [|exact I].
    apply kp_bind; [apply kp_protect|]. intros [v'|]; [|exact I].
    destruct (negb (slot_eqb (vslot v') (vslot v))); [apply IH|].
    destruct (negb (Nat.eqb (sptr (vslot v)) 0)); [|exact I].
    destruct (N.eqb (hash hs (vkey v')) (hash hs k)); [|exact I].
    cbn [kp_prog]. kpa. destruct (vok v0); [|apply IH].
    apply kp_bind; [apply kp_retire|]. intros _. cbn [kp_prog]. kpa. exact I.
  Qed.

  Lemma kp_find_loop sf t g0 k : forall fuel p, kp_prog (find_loop abits hs fuel sf t g0 k p).
  Proof.
    induction fuel as [|fuel IH]; intros p; cbn [find_loop]; [exact I|].
    apply kp_bind; [apply kp_traverse|]. intros [[p' v]|]; [|exact I].
    apply kp_bind; [apply kp_protect|]. intros [v'|]; [|exact I].
    destruct (negb (slot_eqb (vslot v') (vslot v))); [apply IH|exact I].
  Qed.

  Lemma kp_unlink_loop sf t g0 h x : forall fuel p, kp_prog (unlink_loop abits hs fuel sf t g0 h x p).
  Proof.
    induction fuel as [|fuel IH]; intros p; cbn [unlink_loop]; [exact I|].
    apply kp_bind; [apply kp_traverse|]. intros [[p' v]|]; [|exact I].
    apply kp_bind; [apply kp_protect|]. intros [v'|]; [|exact I].
    destruct (negb (slot_eqb (vslot v') (vslot v))); [apply IH|].
    destruct (negb (Nat.eqb (sptr (vslot v)) 0)); [|exact I].
    destruct (N.eqb (hash hs (vkey v')) h && Nat.eqb (sptr (vslot v)) x); [|exact I].
    cbn [kp_prog]. kpa. destruct (vok v0); [|apply IH].
    apply kp_bind; [apply kp_retire|]. intros _. cbn [kp_prog]. kpa. exact I.
  Qed.

  Lemma kp_give_up : kp_prog give_up.
  Proof. exact I. Qed.

  Lemma kp_run_op fuel t o gs : kp_prog (run_op hbits abits W hs fuel t o gs).
  Proof.
    unfold run_op. destruct o as [|code [|kz [|x r]]]; try exact I.
    destruct (Nat.eqb (Z.to_nat code) 1 || Nat.eqb (Z.to_nat code) 3 || Nat.eqb (Z.to_nat code) 4).
    - cbn [kp_prog]. kpa. unfold a_sync. kpa.
      apply kp_bind; [apply kp_upd_loop|]. intros [[x y]|]; [|exact I].
      unfold a_gst. cbn [kp_prog]. kpa. kpa. exact I.
    - destruct (Nat.eqb (Z.to_nat code) 7).
      + cbn [kp_prog]. apply kp_bind; [apply kp_erase_loop|]. intros [[x y]|]; [|exact I].
        unfold a_gst. cbn [kp_prog]. kpa. exact I.
      + cbn [kp_prog]. apply kp_bind; [apply kp_find_loop|]. intros [[x y]|]; [|exact I].
        unfold a_gst. cbn [kp_prog]. kpa. exact I.
  Qed.

  Lemma kp_fwd sf t s : forall fuel stk a i, kp_prog (fwd hbits abits fuel sf t s stk a i).
  Proof.
    induction fuel as [|fuel IH]; intros stk a i; cbn [fwd]; [exact I|].
    destruct (Nat.ltb i (nsize hbits abits a)).
    - cbn [kp_prog]. kpa.
      destruct (Nat.eqb (sbits (vslot v)) 2); [apply IH|]. destruct (Nat.eqb (sbits (vslot v)) 1); [apply IH|].
      destruct (negb (Nat.eqb (sptr (vslot v)) 0)); [|apply IH].
      apply kp_bind; [apply kp_protect|]. intros [v'|]; [|exact I].
      destruct (slot_eqb (vslot v') (vslot v)); [exact I|apply IH].
    - destruct stk as [|[pa pi] r]; [exact I|apply IH].
  Qed.

  Lemma kp_bwd sf t s : forall fuel stk a j, kp_prog (bwd hbits abits fuel sf t s stk a j).
  Proof.
    induction fuel as [|fuel IH]; intros stk a j; cbn [bwd]; [exact I|].
    destruct j as [|i].
    - destruct stk as [|[pa pi] r]; [exact I|apply IH].
    - cbn [kp_prog]. kpa.
      destruct (Nat.eqb (sbits (vslot v)) 2); [apply IH|]. destruct (Nat.eqb (sbits (vslot v)) 1); [apply IH|].
      destruct (negb (Nat.eqb (sptr (vslot v)) 0)); [|apply IH].
      apply kp_bind; [apply kp_protect|]. intros [v'|]; [|exact I].
      destruct (slot_eqb (vslot v') (vslot v)); [exact I|apply IH].
  Qed.

  Lemma kp_erase_at_loop sf t s a i x kx : forall fuel, kp_prog (erase_at_loop hbits abits hs fuel sf t s a i x kx).
  Proof.
    induction fuel as [|fuel IH]; cbn [erase_at_loop]; [exact I|].
    cbn [kp_prog]. kpa. destruct (Nat.eqb (sbits (vslot v)) 0).
    - unfold a_gld. cbn [kp_prog]. kpa. destruct (Nat.eqb (sptr (vslot v)) x); [|exact I].
      cbn [kp_prog]. kpa. destruct (vok v1); [|apply IH].
      apply kp_bind; [apply kp_retire|]. intros _. cbn [kp_prog]. kpa. exact I.
    - unfold a_gld. cbn [kp_prog]. kpa.
      apply kp_bind; [apply kp_unlink_loop|]. intros [[b y]|]; [|exact I].
      unfold a_gst. cbn [kp_prog]. kpa. exact I.
  Qed.

  Lemma kp_iter_loop sf dir t s kdel : forall fuel stk a i, kp_prog (iter_loop hbits abits hs fuel sf dir t s kdel stk a i).
  Proof.
    induction fuel as [|fuel IH]; intros stk a i; cbn [iter_loop]; [exact I|].
    apply kp_bind; [destruct dir; [apply kp_fwd|apply kp_bwd]|].
    intros [[[[stk' a'] i'] [v|]]|]; try exact I.
    unfold a_gld. cbn [kp_prog]. kpa.
    destruct (Nat.eqb (vkey v) kdel); [|apply IH].
    apply kp_bind; [apply kp_erase_at_loop|]. intros [b|]; [|exact I]. cbn [kp_prog]. apply IH.
  Qed.

  Lemma kp_run_opI fuel t o gs : kp_prog (run_opI hbits abits W hs fuel t o gs).
  Proof.
    unfold run_opI. destruct o as [|code [|kz [|x r]]]; try exact I.
    destruct (Nat.eqb (Z.to_nat code) 20 || Nat.eqb (Z.to_nat code) 21); [|apply kp_run_op].
    cbn [kp_prog]. apply kp_bind; [apply kp_iter_loop|]. intros [u|]; [|exact I].
    unfold a_gst. cbn [kp_prog]. kpa. kpa. exact I.
  Qed.

  Lemma kp_run_opsI fuel t : forall os gs, kp_prog (run_opsI hbits abits W hs fuel t os gs).
  Proof.
    induction os as [|o r IH]; intros gs; cbn [run_opsI]; [exact I|].
    apply kp_bind; [apply kp_run_opI|]. intros [gs'|]; [apply IH|exact I].
  Qed.

  Lemma kp_threadI fuel t os : kp_prog (thread_progI hbits abits W hs fuel t os).
  Proof. unfold thread_progI. cbn [kp_prog]. kpa. apply kp_run_opsI. Qed.

  Lemma kp_threads fuel : forall ths t0 t p,
    nth_error (thread_progsI hbits abits W hs fuel t0 ths) t = Some p -> kp_prog p.
  Proof.
    induction ths as [|os r IH]; intros t0 t p H; cbn [thread_progsI] in H.
    - destruct t; discriminate.
    - destruct t as [|t]; cbn in H; [inversion H; subst; apply kp_threadI|eapply IH; eauto].
  Qed.

  (** ** every step, every execution *)
  Notation config := (Conc.config G V ev).
  Definition all_kp (c : config) : Prop := forall t p, nth_error (Conc.threads c) t = Some p -> kp_prog p.

  Lemma kp_step c t c' : all_kp c -> Conc.step_cfg c t = Some c' -> KP (Conc.shared c) (Conc.shared c') /\ all_kp c'.
  Proof.
    intros Hall Hs. unfold Conc.step_cfg in Hs.
    destruct (nth_error (Conc.threads c) t) as [p|] eqn:Hp; [|discriminate].
    pose proof (Hall t p Hp) as Hk.
    unfold Conc.step_thread in Hs. destruct p as [r|es k|f k]; try discriminate.
    cbn [kp_prog] in Hk. destruct Hk as [K1 K2].
    destruct (f (Conc.shared c)) as [[g' v] es] eqn:Hf.
    pose proof (@kp_settle (k v) (K2 v)) as Hsv.
    destruct (Conc.settle (k v)) as [es' p'] eqn:Hst. cbn [snd] in Hsv.
    inversion Hs; subst c'; clear Hs. cbn [Conc.shared Conc.threads]. split.
    - specialize (K1 (Conc.shared c)). rewrite Hf in K1. exact K1.
    - intros u q Hq. cbn [Conc.threads] in Hq. destruct (Nat.eq_dec u t) as [->|Hne].
      + rewrite (Conc.nth_error_set_nth_eq _ _ _ Hp) in Hq. inversion Hq; subst q. exact Hsv.
      + rewrite Conc.nth_error_set_nth_neq in Hq by congruence. eapply Hall; eauto.
  Qed.

  (** along an execution the key of an existing item stays what it is *)
  Theorem feldman_iter_keys fuel ths cs c :
    steps (init_cfgI hbits abits W hs fuel ths) cs c -> forall c', In c' cs -> KP (Conc.shared c') (Conc.shared c).
  Proof.
    intros H.
    assert (X : all_kp c /\ forall c', In c' cs -> KP (Conc.shared c') (Conc.shared c)).
    { induction H as [|cs c t c' H [IH1 IH2] Hs].
      - split; [intros t p Hp; eapply kp_threads; exact Hp|]. intros c' [<-|[]]. apply KP_refl.
      - destruct (@kp_step c t c' IH1 Hs) as [K1 K2]. split; [exact K2|].
        intros c1 H1. apply in_app_or in H1. destruct H1 as [H1|[<-|[]]]; [|apply KP_refl].
        eapply KP_trans; [apply IH2; exact H1|exact K1]. }
    apply X.
  Qed.
End Progs.

(** ** completeness for an element, without any assumption on its key *)
From LV Require Import Proofs.FeldmanStepInv Proofs.FeldmanStepThm Proofs.FeldmanIterTraceDefs Proofs.FeldmanIterTraceInv.
From LV Require Proofs.FeldmanIterSafe.

Section Elem.
  Variables (hbits abits W : nat) (hs : list N).
  Hypothesis Hh : 0 < hbits.
  Hypothesis Ha : 0 < abits.
  Notation config := (Conc.config G V ev).
  Notation len := (@List.length (nat * ev)).

  Lemma data_at_le fuel ths cs c c' a i x :
    steps (init_cfgI hbits abits W hs fuel ths) cs c -> In c' cs -> data_at (Conc.shared c') a i x -> x <= nitem (Conc.shared c').
  Proof.
    intros Hst Hin (Hr & b & Hs & Hb & Hx0).
    destruct (@FeldmanIterSafe.feldman_iter_inv hbits abits W hs Hh Ha fuel ths c' (steps_in_reach Hst c' Hin)) as (A & HI).
    destruct (reach_pfx HI Hr) as (o & pre & Hp).
    destruct (i_data HI _ _ Hp Hs Hb Hx0) as (_ & Hle & _). exact Hle.
  Qed.

  Theorem feldman_iter_complete_elem_keys fuel ths cs c :
    steps (init_cfgI hbits abits W hs fuel ths) cs c ->
    forall t code k tr0 mid rest, iter_code code ->
      Conc.trace c = tr0 ++ [(t, ev_inv code k)] ++ mid ++ [(t, ev_ret true false)] ++ rest ->
      (forall e, In (t, e) mid -> is_cli "inv" e = false /\ is_cli "ret" e = false) ->
      forall x,
        (forall c', In c' cs -> len tr0 < len (Conc.trace c') -> upto cs (len tr0 + 1 + len mid) c' ->
                    exists a i, data_at (Conc.shared c') a i x) ->
        In (t, ev_visit (ikey (Conc.shared c) x)) mid.
  Proof.
    intros Hst t code k tr0 mid rest Hc Etr Hmid x Hx.
    apply (@feldman_iter_complete_elem hbits abits W hs Hh Ha fuel ths cs c Hst t code k tr0 mid rest Hc Etr Hmid x (ikey (Conc.shared c) x)).
    intros c' H1 H2 H3. destruct (Hx c' H1 H2 H3) as (a & i & Hd). split; [exists a, i; exact Hd|].
    destruct (feldman_iter_keys Hst c' H1) as [_ K]. symmetry. apply K. eapply data_at_le; eauto.
  Qed.
End Elem.
