(** * DhpCertProgs: the certificate [PC f] of every program of LV.Model.Dhp, for both allocator instances. *)
From Coq Require Import ZArith NArith List String Bool Lia PeanoNat.
From LV Require Import Base.Conc Base.Events Model.FreeList Model.DhpLang Model.Dhp Proofs.DhpBase Proofs.DhpHist
  Proofs.DhpLangProofs Proofs.FreeListBase Proofs.FreeListOpenRules Proofs.FreeListOpenDhp Proofs.FreeListOpenDhpRules
  Proofs.FreeListOpenDhpThm Proofs.DhpCertBase Proofs.DhpStepsB9 Proofs.DhpProgB4 Proofs.DhpCert.
Import ListNotations.

Ltac kp := intros []; cbn; repeat split; apply keepo_refl.

(** ** more state updates *)
Lemma qS_rt_push c r p g : qS g (fst (rt_push c r p g)).
Proof.
  unfold rt_push. destruct (r_cb (grec g r)) as [b|]; [|cbn [fst]; apply qS_set_oob].
  set (g1 := if Nat.ltb (r_cc (grec g r)) (c_RB c) then upd_rb g b (fun y => bs_cells (upd_nth (rb_cells y) (r_cc (grec g r)) (fun _ => p)) y) else set_oob g true).
  assert (H1 : qS g g1) by (unfold g1; destruct (Nat.ltb _ _); [apply qS_upd_rb; kp|apply qS_set_oob]).
  cbv zeta. fold g1. destruct (Nat.eqb _ _); [destruct (rb_next (grb g1 b))|]; cbn [fst]; (eapply qS_trans; [exact H1|apply qS_upd_rec; kp]).
Qed.
Lemma qS_retire_data c r pl b : forall n i g racc cnt, qS g (fst (fst (retire_data c r pl b i n g racc cnt))).
Proof.
  induction n as [|n IH]; intros i g racc cnt; cbn [retire_data]; [apply qS_refl|].
  destruct (memb _ pl); [|apply IH]. eapply qS_trans; [apply qS_rt_push|apply IH].
Qed.
Lemma qS_stage2_blocks c r pl lastb lastc : forall fuel block g racc fc rc,
  qS g (fst (fst (fst (stage2_blocks c fuel r pl block lastb lastc g racc fc rc)))).
Proof.
  induction fuel as [|fuel IH]; intros block g racc fc rc; destruct block as [b|]; cbn [stage2_blocks]; try apply qS_refl.
  pose proof (qS_retire_data c r pl b (if oeqb (Some b) lastb then lastc else c_RB c) 0 g racc 0) as K.
  destruct (retire_data c r pl b 0 _ g racc 0) as [[g1 racc1] c1]. cbn [fst] in K.
  destruct (oeqb (Some b) lastb); cbn [fst]; [exact K|]. eapply qS_trans; [exact K|apply IH].
Qed.
Lemma qS_stage2 c r pl g : qS g (fst (stage2 c r pl g)).
Proof.
  unfold stage2.
  pose proof (qS_stage2_blocks c r pl (r_cb (grec g r)) (r_cc (grec g r)) (S (List.length (rbs g))) (r_head (grec g r))
                (upd_rec g r (rs_cur (r_head (grec g r)) 0)) [] 0 0) as K.
  destruct (stage2_blocks _ _ _ _ _ _ _ _ _ _ _) as [[[g1 racc] fc] rc]. cbn [fst] in *.
  eapply qS_trans; [|exact K]. apply qS_upd_rec; kp.
Qed.
Lemma qS_hp_init c r g : qS g (fst (hp_init c r g)).
Proof. unfold hp_init. cbn [fst]. apply qS_upd_rec; kp. Qed.

#[export] Hint Resolve qG_refl qS_refl qS_rt_push qS_stage2 qS_hp_init qS_new_rec qS_new_gblock qS_new_rblock qS_slot_set qS_snext_set
  qS_set_tlist qS_set_srcs qS_set_oob : cdb.
#[export] Hint Extern 1 (qG _ _ _) => apply qS_qG : cdb.
#[export] Hint Extern 1 (qS _ (upd_rec _ _ _)) => (apply qS_upd_rec; kp) : cdb.
#[export] Hint Extern 1 (qS _ (upd_gb _ _ _)) => (apply qS_upd_gb; kp) : cdb.
#[export] Hint Extern 1 (qS _ (upd_rb _ _ _)) => (apply qS_upd_rb; kp) : cdb.
#[export] Hint Resolve qa_begin qa_ld_tlist qa_st_tlist qa_cas_tlist qa_ld_tid qa_st_tid qa_cas_tid qa_ld_free qa_st_free qa_faa_sync
  qa_ld_ext qa_st_ext_none qa_ld_slot qa_st_slot qa_ld_src qa_st_src
  qa_ld_head qa_cas_head qa_ld_refs qa_st_refs qa_cas_refs qa_faa_refs qa_fas_refs qa_ld_flnext qa_st_flnext : cdb.

Ltac qes := repeat first [ apply qE_nil | apply qE_cons; [solve [reflexivity | unfold clsf; cbn; reflexivity]|] ].

Ltac pc_known := fail.
Ltac pc :=
  repeat first
    [ pc_known
    | match goal with
      | |- PC _ (ret _) => apply PC_ret'
      | |- PC _ fuel_out => apply PC_fuel_out
      | |- PC _ (xbind _ _) => apply PC_xbind; [|intros]
      | |- PC _ (act _) => apply PC_act'; solve [auto with cdb]
      | |- PC _ (emit _) => apply PC_emit'; solve [qes | auto]
      | |- PC _ (loc _) => apply PC_loc'; let g := fresh "g" in intros g; cbn [fst snd]; solve [auto with cdb]
      | |- PC _ (if ?b then _ else _) => destruct b
      | |- PC _ (match ?o with Some _ => _ | None => _ end) => destruct o
      end ].

Lemma qE_dispose f l : qE f (map ev_dispose l).
Proof. induction l as [|p l IH]; [apply qE_nil|]. cbn. apply qE_cons; [|exact IH]. unfold clsf. rewrite classify_dispose. reflexivity. Qed.
Lemma qE_own f s : qE f [ev_own s]. Proof. destruct s; qes. Qed.
Lemma qE_rel f s : qE f [ev_rel s]. Proof. destruct s; qes. Qed.
Lemma qE_alloc_other f f0 b : f0 <> f -> qE f [ev_alloc f0 b].
Proof. intros H. apply qE_cons; [|apply qE_nil]. unfold clsf. rewrite classify_alloc. destruct f0, f; try congruence; reflexivity. Qed.
Lemma qE_free_other f f0 b : f0 <> f -> qE f [ev_free f0 b].
Proof. intros H. apply qE_cons; [|apply qE_nil]. unfold clsf. rewrite classify_free. destruct f0, f; try congruence; reflexivity. Qed.
Lemma qE_new_other f f0 b : f0 <> f -> qE f [ev_new f0 b].
Proof. intros H. apply qE_cons; [|apply qE_nil]. unfold clsf. rewrite classify_new. destruct f0, f; try congruence; reflexivity. Qed.
Lemma qE_inv f code args : qE f [EvCli "op" (zl (code :: args))]. Proof. qes. Qed.

Section Progs.
  Variable f : fl.

  (** ** the free list of the other instance *)
  Section OtherFl.
    Variable f0 : fl.
    Hypothesis Hne : f0 <> f.

    Lemma pc_add_knowing sp : forall n head, PC f (add_knowing sp f0 n head).
    Proof. induction sp as [|sp IH]; intros n head; cbn [add_knowing]; pc. apply IH. Qed.
    Lemma pc_fl_add sp n : PC f (fl_add sp f0 n).
    Proof. unfold fl_add. pc. apply pc_add_knowing. Qed.
    Lemma pc_fl_put sp n : PC f (fl_put sp f0 n).
    Proof. unfold fl_put. pc. apply pc_fl_add. Qed.
    Lemma pc_fl_get_loop sp : forall head, PC f (fl_get_loop sp f0 head).
    Proof. induction sp as [|sp IH]; intros head; destruct head as [h|]; cbn [fl_get_loop]; pc; try apply IH; try apply pc_fl_add. Qed.
    Lemma pc_fl_get sp : PC f (fl_get sp f0).
    Proof. unfold fl_get. pc. apply pc_fl_get_loop. Qed.
  End OtherFl.

  Lemma pc_link_guards b : forall n i, PC f (link_guards b i n).
  Proof. induction n as [|n IH]; intros i; cbn [link_guards]; pc. apply IH. Qed.
  Lemma pc_clear_slots r : forall n i, PC f (clear_slots r i n).
  Proof. induction n as [|n IH]; intros i; cbn [clear_slots]; pc. apply IH. Qed.
  Lemma pc_copy_hazards mk : forall n i pl, PC f (copy_hazards mk i n pl).
  Proof. induction n as [|n IH]; intros i pl; cbn [copy_hazards]; pc. apply IH. Qed.
  Lemma pc_scan_blocks c : forall fuel b pl, PC f (scan_blocks c fuel b pl).
  Proof. induction fuel as [|fuel IH]; intros [b|] pl; cbn [scan_blocks]; pc; try apply pc_copy_hazards; apply IH. Qed.
  Lemma pc_scan_recs c : forall fuel node pl, PC f (scan_recs c fuel node pl).
  Proof. induction fuel as [|fuel IH]; intros [n|] pl; cbn [scan_recs]; pc; try apply pc_copy_hazards; try apply pc_scan_blocks; try apply IH. Qed.
  Lemma pc_protect_loop r s k : forall fuel p, PC f (protect_loop fuel r s k p).
  Proof. induction fuel as [|fuel IH]; intros p; cbn [protect_loop]; pc. apply IH. Qed.
  Lemma pc_wait_loop k v : forall fuel, PC f (wait_loop fuel k v).
  Proof. induction fuel as [|fuel IH]; cbn [wait_loop]; pc. apply IH. Qed.
  Lemma pc_push_rec r : forall fuel old, PC f (push_rec fuel r old).
  Proof. induction fuel as [|fuel IH]; intros old; cbn [push_rec]; pc. apply IH. Qed.
  Lemma pc_reuse_recs mytid : forall fuel node, PC f (reuse_recs fuel mytid node).
  Proof. induction fuel as [|fuel IH]; intros [h|]; cbn [reuse_recs]; pc. apply IH. Qed.
End Progs.

(** ** updates that concern one kind of block only *)
Lemma shp_rt_same g g' b : recs g' = recs g -> rbs g' = rbs g -> shp FRt g' b -> shp FRt g b.
Proof. intros E1 E2. unfold shp, grec, grb. now rewrite E1, E2. Qed.
Lemma shp_hp_same g g' b : recs g' = recs g -> gbs g' = gbs g -> shp FHp g' b -> shp FHp g b.
Proof. intros E1 E2. unfold shp, grec, ggb. now rewrite E1, E2. Qed.

Lemma qG_rt_upd_gb g b F : (forall x, gb_refs (F x) = gb_refs x) -> (forall x, gb_flnext (F x) = gb_flnext x) -> qG FRt g (upd_gb g b F).
Proof. intros H1 H2. split; [now apply quietG_upd_gb|]. intros b0. apply shp_rt_same; reflexivity. Qed.
Lemma qG_hp_upd_rb g b F : (forall x, rb_refs (F x) = rb_refs x) -> (forall x, rb_flnext (F x) = rb_flnext x) -> qG FHp g (upd_rb g b F).
Proof. intros H1 H2. split; [now apply quietG_upd_rb|]. intros b0. apply shp_hp_same; reflexivity. Qed.
Lemma qG_rt_upd_rec g r F : (forall x, keepo (r_head (F x)) (r_head x)) -> qG FRt g (upd_rec g r F).
Proof.
  intros H. split; [apply quietG_upd_rec|]. intros b [(r' & E)|(b' & E)]; [left|right; exists b'; exact E].
  exists r'. revert E. unfold grec, upd_rec. cbn [recs set_recs]. destruct (nth_upd_cases (recs g) r r' F dflt_rec) as [->|(_ & _ & ->)]; auto.
  intros E. eapply keepo_some; [apply H|exact E].
Qed.
Lemma qG_hp_upd_rec g r F : (forall x, keepo (r_ext (F x)) (r_ext x)) -> qG FHp g (upd_rec g r F).
Proof.
  intros H. split; [apply quietG_upd_rec|]. intros b [(r' & E)|(b' & E)]; [left|right; exists b'; exact E].
  exists r'. revert E. unfold grec, upd_rec. cbn [recs set_recs]. destruct (nth_upd_cases (recs g) r r' F dflt_rec) as [->|(_ & _ & ->)]; auto.
  intros E. eapply keepo_some; [apply H|exact E].
Qed.

Lemma qG_hp_do_extend c r b g : qG FHp g (fst (rt_do_extend c r b g)).
Proof.
  unfold rt_do_extend. set (g1 := match r_tail (grec g r) with Some tl => upd_rb g tl (bs_next (Some b)) | None => g end).
  assert (H1 : qG FHp g g1) by (unfold g1; destruct (r_tail (grec g r)); [apply qG_hp_upd_rb; intros []; reflexivity|apply qG_refl]).
  cbv zeta. fold g1. destruct (c_old c || _); cbn [fst]; (eapply qG_trans; [exact H1|apply qG_hp_upd_rec; intros []; apply keepo_refl]).
Qed.
Lemma qG_hp_trunc c r g : qG FHp g (fst (trunc_f c r g)).
Proof.
  unfold trunc_f. destruct (r_cb (grec g r)) as [cb|]; [|apply qG_refl]. cbv zeta. destruct (rb_next (grb g cb)); cbn [fst]; [|apply qG_refl].
  destruct (c_oldtail c).
  all: first [ apply qG_hp_upd_rb; intros []; reflexivity
             | apply qG_trans with (g2 := upd_rb g cb (bs_next None)); [apply qG_hp_upd_rb; intros []; reflexivity|apply qG_hp_upd_rec; intros []; apply keepo_refl] ].
Qed.

#[export] Hint Resolve qE_alloc_other qE_free_other qE_new_other qE_dispose qE_own qE_rel qE_inv : cdb.

Ltac pc2 :=
  repeat first
    [ pc_known
    | match goal with
      | |- PC _ (ret _) => apply PC_ret'
      | |- PC _ fuel_out => apply PC_fuel_out
      | |- PC _ (xbind _ _) => apply PC_xbind; [|intros]
      | |- PC _ (act _) => apply PC_act'; solve [auto with cdb]
      | |- PC _ (emit _) => apply PC_emit'; solve [qes | auto with cdb]
      | |- PC _ (loc _) => apply PC_loc'; let g := fresh "g" in intros g; cbn [fst snd]; solve [auto with cdb]
      | |- PC _ (if ?b then _ else _) => destruct b
      | |- PC _ (match ?o with Some _ => _ | None => _ end) => destruct o
      end ].

Lemma fl_cases (f : fl) : f = FHp \/ f = FRt. Proof. destruct f; auto. Qed.

Section Progs2.
  Variable f : fl.

  Ltac pc_known ::=
    match goal with
    | |- PC _ (fl_put _ _ _) => apply pc_fl_put; assumption
    | |- PC _ (fl_get _ _) => apply pc_fl_get; assumption
    | |- PC _ (link_guards _ _ _) => apply pc_link_guards
    | |- PC _ (clear_slots _ _ _) => apply pc_clear_slots
    | |- PC _ (copy_hazards _ _ _ _) => apply pc_copy_hazards
    | |- PC _ (scan_blocks _ _ _ _) => apply pc_scan_blocks
    | |- PC _ (scan_recs _ _ _ _) => apply pc_scan_recs
    | |- PC _ (protect_loop _ _ _ _ _) => apply pc_protect_loop
    | |- PC _ (wait_loop _ _ _) => apply pc_wait_loop
    | |- PC _ (push_rec _ _ _) => apply pc_push_rec
    | |- PC _ (reuse_recs _ _ _) => apply pc_reuse_recs
    end.

  Lemma pc_hp_alloc c : FHp <> f -> PC f (hp_alloc c).
  Proof. intros Hne. unfold hp_alloc. pc2. Qed.
  Lemma pc_hp_free c b : FHp <> f -> PC f (hp_free c b).
  Proof. intros Hne. unfold hp_free. pc2. Qed.
  Lemma pc_rt_alloc c : FRt <> f -> PC f (rt_alloc c).
  Proof.
    intros Hne. unfold rt_alloc. pc2.
    all: apply PC_loc'; intros g; cbn [fst]; destruct f; [apply qG_hp_upd_rb; intros []; reflexivity|congruence].
  Qed.
  Lemma pc_rt_free c b : FRt <> f -> PC f (rt_free c b).
  Proof.
    intros Hne. unfold rt_free. apply PC_xbind; [|intros; pc2].
    apply PC_loc'; intros g; cbn [fst]; destruct f; [apply qG_hp_upd_rb; intros []; reflexivity|congruence].
  Qed.

  Lemma pc_hp_extend c r : PC f (hp_extend c r).
  Proof.
    destruct (fl_cases f) as [Ef|Ef]; [apply PC_sp; now constructor|]. unfold hp_extend.
    apply PC_xbind; [apply pc_hp_alloc; congruence|intros b]. apply PC_xbind; [apply PC_act'; apply qa_ld_ext|intros e].
    apply PC_xbind; [apply PC_loc'; intros g; cbn [fst]; rewrite Ef; apply qG_rt_upd_gb; intros []; reflexivity|intros _].
    apply PC_xbind; [|intros _; apply PC_loc'; intros g; cbn [fst]; rewrite Ef; apply qG_rt_upd_rec; intros []; apply keepo_refl].
    apply PC_act'. intros g. cbn [a_st_ext_g fst snd]. split; [rewrite Ef; apply qG_rt_upd_rec; intros []; apply keepo_refl|].
    apply qE_app; [apply qE_rec|]. qes.
  Qed.

  Lemma pc_hp_galloc c r : PC f (hp_galloc c r).
  Proof.
    unfold hp_galloc. apply PC_xbind; [pc2|intros fh]. apply PC_xbind; [destruct fh; [pc2|apply pc_hp_extend]|intros _].
    apply PC_loc'. intros g. destruct (r_fhead (grec g r)); cbn [fst]; auto with cdb.
  Qed.
  Lemma pc_hp_gfree r s : PC f (hp_gfree r s).
  Proof.
    unfold hp_gfree. apply PC_xbind; [pc2|intros _]. apply PC_loc'. intros g. cbn [fst]. apply qS_qG.
    eapply qS_trans; [apply qS_snext_set|apply qS_upd_rec; kp].
  Qed.

  Lemma pc_free_gblocks c : FHp <> f -> forall fuel p, PC f (free_gblocks c fuel p).
  Proof. intros Hne. induction fuel as [|fuel IH]; intros [b|]; cbn [free_gblocks]; pc2; try apply pc_hp_free; auto. Qed.
  Lemma pc_hp_clear c r det : qE f det -> PC f (hp_clear c r det).
  Proof.
    intros Hd. destruct (fl_cases f) as [Ef|Ef]; [apply PC_sp; now constructor|]. unfold hp_clear. pc2.
    all: try (apply PC_emit'; exact Hd). all: try (apply pc_free_gblocks; congruence).
  Qed.

  Lemma pc_rt_init c r : PC f (rt_init c r).
  Proof.
    destruct (fl_cases f) as [Ef|Ef]; [|apply PC_sp; now constructor]. unfold rt_init. apply PC_xbind; [pc2|intros [hd|]]; [pc2|].
    apply PC_xbind; [apply pc_rt_alloc; congruence|intros b]. apply PC_loc'. intros g. cbn [fst]. rewrite Ef. apply qG_hp_upd_rec. intros []; apply keepo_refl.
  Qed.
  Lemma pc_free_rblocks c : FRt <> f -> forall fuel p, PC f (free_rblocks c fuel p).
  Proof. intros Hne. induction fuel as [|fuel IH]; intros [b|]; cbn [free_rblocks]; pc2; try apply pc_rt_free; auto. Qed.
  Lemma pc_rt_fini c r : PC f (rt_fini c r).
  Proof.
    destruct (fl_cases f) as [Ef|Ef]; [|apply PC_sp; now constructor]. unfold rt_fini. apply PC_xbind; [pc2|intros hd].
    apply PC_xbind; [apply pc_free_rblocks; congruence|intros _]. apply PC_loc'. intros g. cbn [fst]. rewrite Ef. apply qG_hp_upd_rec. intros []; apply keepo_refl.
  Qed.
  Lemma pc_rt_extend c r : PC f (rt_extend c r).
  Proof.
    destruct (fl_cases f) as [Ef|Ef]; [|apply PC_sp; now constructor]. unfold rt_extend. apply PC_xbind; [apply pc_rt_alloc; congruence|intros b].
    apply PC_loc'. intros g. rewrite Ef. apply qG_hp_do_extend.
  Qed.
  Lemma pc_trunc_go c r : FRt <> f -> forall fuel p, PC f (trunc_go c r fuel p).
  Proof. intros Hne. induction fuel as [|fuel IH]; intros [b|]; cbn [trunc_go]; pc2; try apply pc_rt_free; auto. Qed.
  Lemma pc_trunc_block c r : PC f (trunc_block c r).
  Proof.
    destruct (fl_cases f) as [Ef|Ef]; [|apply PC_sp; now constructor]. unfold trunc_block. apply PC_xbind; [|intros fb; apply pc_trunc_go; congruence].
    apply PC_loc'. intros g. rewrite Ef. apply qG_hp_trunc.
  Qed.

  Lemma pc_scan c r : PC f (Dhp.scan c r).
  Proof. unfold Dhp.scan. pc2; try apply pc_rt_extend. Qed.
  Lemma pc_move_cells c me b : forall n i, PC f (move_cells c me b i n).
  Proof. induction n as [|n IH]; intros i; cbn [move_cells]; pc2; try apply pc_scan; apply IH. Qed.
  Lemma pc_move_blocks c me src : forall fuel block, PC f (move_blocks c fuel me src block).
  Proof. induction fuel as [|fuel IH]; intros [b|]; cbn [move_blocks]; pc2; try apply pc_move_cells; apply IH. Qed.
  Lemma pc_help_recs c me mytid : forall fuel node, PC f (help_recs c fuel me mytid node).
  Proof.
    induction fuel as [|fuel IH]; intros [h|]; cbn [help_recs]; pc2; try apply IH; try apply pc_move_blocks; try apply pc_rt_fini.
  Qed.
  Lemma pc_help_scan c me mytid : PC f (help_scan c me mytid).
  Proof. unfold help_scan. pc2; [apply pc_help_recs|apply pc_scan]. Qed.
  Lemma pc_alloc_thread_data c mytid : PC f (alloc_thread_data c mytid).
  Proof. unfold alloc_thread_data. pc2; try apply pc_rt_init. Qed.

  Lemma pc_free_thread_data c r mytid help det : qE f det -> PC f (free_thread_data c r mytid help det).
  Proof.
    intros Hd. unfold free_thread_data.
    apply PC_xbind; [apply pc_hp_clear; exact Hd|intros _]. apply PC_xbind; [apply pc_scan|intros _].
    apply PC_xbind; [destruct help; [apply pc_help_scan|pc2]|intros _].
    apply PC_xbind; [pc2|intros e]. apply PC_xbind; [|intros _; pc2].
    destruct e; [apply PC_xbind; [apply pc_rt_fini|intros _; pc2]|]. apply (pc_trunc_block c r).
  Qed.

  Lemma pc_run_op c t L o : PC f (run_op c t L o).
  Proof.
    destruct o; cbn [run_op]; unfold inv, rsp, skip.
    all: try (destruct (l_tls L) as [r|]); try (destruct (gfind (l_guards L) j) as [s|]).
    all: pc2; try apply pc_alloc_thread_data; try apply pc_hp_galloc; try apply pc_hp_gfree; try apply pc_scan.
    all: try (apply pc_free_thread_data; qes).
  Qed.
  Lemma pc_run_ops c t : forall os L, PC f (run_ops c t L os).
  Proof. induction os as [|o os IH]; intros L; cbn [run_ops]; [apply PC_ret'|]. apply PC_xbind; [apply pc_run_op|intros L'; apply IH]. Qed.
End Progs2.
