(** * LazyListActs: the proof rule [Conc.safe] for each atomic access of the LazyList model (structural invariant). *)
From Coq Require Import ZArith List String Bool Lia PeanoNat.
From LV Require Import Base.Conc Base.Events.
From LV Require Import Model.LazyList Proofs.LazyListBase Proofs.LazyListInv Proofs.LazyListSteps.
Import ListNotations.
Local Open Scope Z_scope.

Notation safe := (@Conc.safe G V ev aux lview view Inv).

Definition with_facts (lv : lview) (F : list fact) : lview := mkLV F (lv_held lv) (lv_own lv) (lv_hole lv).
Definition with_held (lv : lview) (H : list (nat * obs)) : lview := mkLV (lv_facts lv) H (lv_own lv) (lv_hole lv).

(** [l] is a node the thread may touch: m_Head, m_Tail or a node it knows to be published *)
Definition pk (F : list fact) (l : nat) : Prop := l = HEAD \/ l = TAIL \/ exists k, In (FPub l k) F.

Lemma pk_incl F F' l : incl F F' -> pk F l -> pk F' l.
Proof. intros H [->|[->|[k Hk]]]; unfold pk; eauto. Qed.

Lemma fact_in g a L t lv f : IS g a L -> view a t = lv -> In f (lv_facts lv) -> fact_ok g (a_pub a) f.
Proof. intros H <- Hf. pose proof (s_facts _ _ _ H t) as K. rewrite Forall_forall in K. auto. Qed.

Lemma pk_pz g a L t lv l : IS g a L -> view a t = lv -> pk (lv_facts lv) l -> pz (a_pub a) l.
Proof.
  intros H Hv [->|[->|[k Hk]]]; unfold pz; auto. right. right.
  pose proof (fact_in _ _ _ _ _ _ H Hv Hk) as K. cbn in K. tauto.
Qed.

(** ** steps that leave the list fields alone *)
Lemma Inv_soft g g' a t lv lv' L tr' :
  IS g a L -> view a t = lv -> same_list_fields g g' -> nalloc g' = nalloc g ->
  (forall u n, u <> t -> holds (view a u) n -> heap g' n = heap g n) ->
  (forall u n k nx, u <> t -> lv_own (view a u) = Some (n, k, nx) -> heap g' n = heap g n) ->
  Forall (fact_ok g' (a_pub a)) (lv_facts lv') -> Forall (held_ok g' (a_pub a)) (lv_held lv') ->
  (forall u n, u <> t -> holds lv' n -> holds (view a u) n -> False) ->
  own_ok g' (a_pub a) (lv_own lv') -> lv_own lv' = lv_own lv -> lv_hole lv' = lv_hole lv ->
  (forall p c s, lv_hole lv' = Some (p, c, s) -> In (p, Some (c, false)) (lv_held lv') /\ holds lv' c) ->
  Inv g' (mk_a a t (a_pub a) (a_succ a) lv') tr'.
Proof.
  intros H Hv. subst lv. intros. exists L. eapply IS_soft; eauto.
Qed.

Lemma same_refl g : same_list_fields g g.
Proof. intros x. auto. Qed.

Definition neutral (f : act) (v : V) : Prop :=
  forall g, exists g' es, f g = (g', v, es) /\ (forall x, heap g' x = heap g x) /\ nalloc g' = nalloc g.

Lemma neutral_nop kd ob : neutral (a_nop kd ob) v0.
Proof. intros g. exists g, [EvAcc kd ob true]. auto. Qed.
Lemma neutral_cnt kd d : neutral (a_cnt kd d) v0.
Proof. intros g. eexists _, _. split; [reflexivity|]. cbn. auto. Qed.
Lemma neutral_begin : neutral a_begin v0.
Proof. intros g. exists g, [EvAcc KBegin [] true]. auto. Qed.

(** the view is unchanged and everything the invariant says stays true when the heap is unchanged *)
Lemma Inv_keep g g' a t lv L tr' :
  IS g a L -> view a t = lv -> (forall x, heap g' x = heap g x) -> nalloc g' = nalloc g ->
  Inv g' (mk_a a t (a_pub a) (a_succ a) lv) tr'.
Proof.
  intros H Hv Hh Hn. eapply Inv_soft; eauto.
  - intros x. rewrite Hh. auto.
  - subst lv. eapply Forall_impl; [|apply (s_facts _ _ _ H)]. intros [n k] K. unfold fact_ok in *. now rewrite Hh.
  - subst lv. eapply (held_ok_frame g g' (a_pub a) (a_pub a)); [auto| |apply (s_held _ _ _ H)]. intros e _. apply Hh.
  - intros u n Hu Hn1 Hn2. subst lv. apply Hu. symmetry. eapply (s_excl _ _ _ H); eauto.
  - subst lv. pose proof (s_own _ _ _ H t) as K. destruct (lv_own (view a t)) as [[[n k] nx]|]; cbn [own_ok] in *; auto.
    rewrite Hn, Hh. exact K.
  - intros p c s E. subst lv. destruct (s_hole _ _ _ H t p c s E) as (_ & K2 & K3 & _). auto.
Qed.

Lemma safe_neutral {R} t f v (k : V -> prog R) lv Q :
  neutral f v -> safe t (k v) lv Q -> safe t (Act f k) lv Q.
Proof.
  intros Hf Hk. cbn [Conc.safe]. intros g a tr (L & HS) Hv.
  destruct (Hf g) as (g' & es & E & H1 & H2). rewrite E. cbn [fst snd].
  exists (mk_a a t (a_pub a) (a_succ a) lv). split; [|split; [apply frame_mk|rewrite view_mk_same; exact Hk]].
  eapply Inv_keep; eauto.
Qed.

Lemma safe_emit {R} t es (k : prog R) lv Q : safe t k lv Q -> safe t (Emit es k) lv Q.
Proof.
  intros Hk. cbn [Conc.safe]. intros g a tr (L & HS) Hv.
  exists (mk_a a t (a_pub a) (a_succ a) lv). split; [|split; [apply frame_mk|rewrite view_mk_same; exact Hk]].
  eapply Inv_keep; eauto.
Qed.

(** ** loads of m_pNext *)
Definition newfacts (n : nat) (v : V) : list fact :=
  if Nat.eqb n TAIL then []
  else if Nat.eqb (vptr v) HEAD || Nat.eqb (vptr v) TAIL then [] else [FPub (vptr v) (vkey v)].

Definition agrees (h : list (nat * obs)) (n : nat) (v : V) : Prop :=
  forall x m, In (n, Some (x, m)) h -> vptr v = x /\ vmark v = m.

Lemma newfacts_ok g a L n : IS g a L -> pz (a_pub a) n ->
  Forall (fact_ok g (a_pub a)) (newfacts n (mkV (nnext (heap g n)) (nmark (heap g n)) (nkey (heap g (nnext (heap g n)))))).
Proof.
  intros H Hn. unfold newfacts. cbn [vptr vkey]. destruct (Nat.eqb_spec n TAIL); [constructor|].
  destruct (next_pz _ _ _ _ H Hn) as [K|K]; [|contradiction].
  destruct (Nat.eqb_spec (nnext (heap g n)) HEAD); cbn [orb]; [constructor|].
  destruct (Nat.eqb_spec (nnext (heap g n)) TAIL); [constructor|].
  constructor; [|constructor]. cbn. destruct K as [K|[K|K]]; try contradiction. auto.
Qed.

(** a load that does not record what was read under a lock *)
Lemma safe_ld {R} t n (k : V -> prog R) lv Q :
  pk (lv_facts lv) n ->
  (forall v, agrees (lv_held lv) n v -> safe t (k v) (with_facts lv (newfacts n v ++ lv_facts lv)) Q) ->
  safe t (Act (a_ld n) k) lv Q.
Proof.
  intros Hn Hk. cbn [Conc.safe]. intros g a tr (L & HS) Hv. unfold a_ld. cbn [fst snd].
  set (v := mkV (nnext (heap g n)) (nmark (heap g n)) (nkey (heap g (nnext (heap g n))))).
  pose proof (pk_pz _ _ _ _ _ _ HS Hv Hn) as Hpz.
  exists (mk_a a t (a_pub a) (a_succ a) (with_facts lv (newfacts n v ++ lv_facts lv))).
  split; [|split; [apply frame_mk|rewrite view_mk_same; apply Hk]].
  - eapply Inv_soft; eauto; try apply same_refl; cbn [with_facts lv_facts lv_held lv_own lv_hole].
    + apply Forall_app. split; [eapply newfacts_ok; eauto|]. subst lv. apply (s_facts _ _ _ HS).
    + subst lv. apply (s_held _ _ _ HS).
    + intros u x Hu Hx Hx'. subst lv. apply Hu. symmetry. eapply (s_excl _ _ _ HS); eauto.
    + subst lv. apply (s_own _ _ _ HS).
    + intros p c s E. subst lv. destruct (s_hole _ _ _ HS t p c s E) as (_ & K2 & K3 & _). auto.
  - intros x m Hin. subst lv. pose proof (held_entry _ _ _ _ _ _ HS Hin) as (_ & _ & K). cbn [fst snd] in K. subst v. cbn. tauto.
Qed.

(** a load under the node's lock: the value is recorded *)
Lemma safe_ld_held {R} t n (k : V -> prog R) lv Q :
  holds lv n ->
  (forall v, agrees (lv_held lv) n v ->
             safe t (k v) (mkLV (newfacts n v ++ lv_facts lv) ((n, Some (vptr v, vmark v)) :: lv_held lv) (lv_own lv) (lv_hole lv)) Q) ->
  safe t (Act (a_ld n) k) lv Q.
Proof.
  intros [o Ho] Hk. cbn [Conc.safe]. intros g a tr (L & HS) Hv. unfold a_ld. cbn [fst snd].
  set (v := mkV (nnext (heap g n)) (nmark (heap g n)) (nkey (heap g (nnext (heap g n))))).
  assert (Hpz : pz (a_pub a) n) by (subst lv; apply (held_entry _ _ _ _ _ _ HS Ho)).
  set (lv' := mkLV (newfacts n v ++ lv_facts lv) ((n, Some (vptr v, vmark v)) :: lv_held lv) (lv_own lv) (lv_hole lv)).
  exists (mk_a a t (a_pub a) (a_succ a) lv').
  split; [|split; [apply frame_mk|rewrite view_mk_same; apply Hk]].
  - eapply Inv_soft; eauto; try apply same_refl; cbn [lv' lv_facts lv_held lv_own lv_hole].
    + apply Forall_app. split; [eapply newfacts_ok; eauto|]. subst lv. apply (s_facts _ _ _ HS).
    + constructor; [|subst lv; apply (s_held _ _ _ HS)].
      subst lv. destruct (held_entry _ _ _ _ _ _ HS Ho) as (K1 & K2 & _). unfold held_ok. cbn. auto.
    + intros u x Hu [ox Hx] Hx'. subst lv. apply Hu. symmetry. destruct Hx as [E|Hx].
      * inversion E; subst x. eapply (s_excl _ _ _ HS); eauto. exists o; exact Ho.
      * eapply (s_excl _ _ _ HS); eauto. exists ox; exact Hx.
    + subst lv. apply (s_own _ _ _ HS).
    + intros p c s E. subst lv. destruct (s_hole _ _ _ HS t p c s E) as (_ & K2 & [oc K3] & _).
      split; [right; exact K2|exists oc; right; exact K3].
  - intros x m Hin. subst lv. pose proof (held_entry _ _ _ _ _ _ HS Hin) as (_ & _ & K). cbn [fst snd] in K. subst v. cbn. tauto.
Qed.

(** ** node spin locks *)
Lemma node_eta (x : node) : x = mkNode (nkey x) (nnext x) (nmark x) (nlock x).
Proof. destruct x; reflexivity. Qed.

Lemma safe_xchg {R} t n (k : V -> prog R) lv Q :
  pk (lv_facts lv) n ->
  safe t (k (vok true)) lv Q ->
  (~ holds lv n -> safe t (k (vok false)) (with_held lv ((n, None) :: lv_held lv)) Q) ->
  safe t (Act (a_xchg n) k) lv Q.
Proof.
  intros Hn Hk1 Hk0. cbn [Conc.safe]. intros g a tr (L & HS) Hv. unfold a_xchg. cbn [fst snd].
  pose proof (pk_pz _ _ _ _ _ _ HS Hv Hn) as Hpz.
  assert (Hsame : same_list_fields g (set_lock g n true)).
  { intros x. destruct (Nat.eq_dec x n) as [->|Hx]; [rewrite heap_set_lock_same; cbn; auto|rewrite heap_set_lock_other; auto]. }
  assert (Hown : forall u x k0 nx, lv_own (view a u) = Some (x, k0, nx) -> heap (set_lock g n true) x = heap g x).
  { intros u x k0 nx E. apply heap_set_lock_other. pose proof (s_own _ _ _ HS u) as K. rewrite E in K. cbn in K.
    destruct K as (K1 & K2 & _). destruct Hpz as [->|[->|Hp]]; unfold HEAD, TAIL; try lia. congruence. }
  assert (Hheldu : forall u x, holds (view a u) x -> heap (set_lock g n true) x = heap g x).
  { intros u x [o Ho]. destruct (Nat.eq_dec x n) as [->|Hx]; [|now apply heap_set_lock_other].
    rewrite heap_set_lock_same. destruct (held_entry _ _ _ _ _ _ HS Ho) as (_ & K & _). cbn [fst] in K.
    destruct (heap g n) as [a1 a2 a3 a4]. cbn in *. subst a4. reflexivity. }
  assert (Hfacts : Forall (fact_ok (set_lock g n true) (a_pub a)) (lv_facts lv)).
  { subst lv. eapply Forall_impl; [|apply (s_facts _ _ _ HS)]. intros [x kx] K. unfold fact_ok in *. destruct (Hsame x) as (E & _). now rewrite E. }
  destruct (nlock (heap g n)) eqn:El.
  - (* the lock is taken *)
    exists (mk_a a t (a_pub a) (a_succ a) lv). split; [|split; [apply frame_mk|rewrite view_mk_same; exact Hk1]].
    eapply Inv_soft; eauto.
    + subst lv. pose proof (s_held _ _ _ HS t) as K. rewrite Forall_forall in *. intros [x o] He. specialize (K _ He).
      unfold held_ok in *. cbn [fst snd] in *. rewrite (Hheldu t x (ex_intro _ o He)). exact K.
    + intros u x Hu Hx Hx'. subst lv. apply Hu. symmetry. eapply (s_excl _ _ _ HS); eauto.
    + subst lv. pose proof (s_own _ _ _ HS t) as K. destruct (lv_own (view a t)) as [[[x kx] nx]|] eqn:E; cbn [own_ok] in *; auto.
      rewrite (Hown t x kx nx E). exact K.
    + intros p c s E. subst lv. destruct (s_hole _ _ _ HS t p c s E) as (_ & K2 & K3 & _). auto.
  - (* acquired *)
    assert (Hfree : forall u, ~ holds (view a u) n).
    { intros u [o Ho]. destruct (held_entry _ _ _ _ _ _ HS Ho) as (_ & K & _). cbn [fst] in K. congruence. }
    exists (mk_a a t (a_pub a) (a_succ a) (with_held lv ((n, None) :: lv_held lv))).
    split; [|split; [apply frame_mk|rewrite view_mk_same; apply Hk0; rewrite <- Hv; apply Hfree]].
    eapply Inv_soft; eauto; cbn [with_held lv_facts lv_held lv_own lv_hole].
    + constructor.
      * unfold held_ok. cbn [fst snd]. rewrite heap_set_lock_same. cbn. auto.
      * subst lv. pose proof (s_held _ _ _ HS t) as K. rewrite Forall_forall in *. intros [x o] He. specialize (K _ He).
        unfold held_ok in *. cbn [fst snd] in *. rewrite (Hheldu t x (ex_intro _ o He)). exact K.
    + intros u x Hu [ox Hx] Hx'. destruct Hx as [E|Hx].
      * inversion E; subst x. eapply Hfree; eauto.
      * subst lv. apply Hu. symmetry. eapply (s_excl _ _ _ HS); eauto. exists ox; exact Hx.
    + subst lv. pose proof (s_own _ _ _ HS t) as K. destruct (lv_own (view a t)) as [[[x kx] nx]|] eqn:E; cbn [own_ok] in *; auto.
      rewrite (Hown t x kx nx E). exact K.
    + intros p c s E. subst lv. destruct (s_hole _ _ _ HS t p c s E) as (_ & K2 & [oc K3] & _).
      split; [right; exact K2|exists oc; right; exact K3].
Qed.

Lemma safe_ldlock {R} t n (k : V -> prog R) lv Q :
  (forall b, safe t (k (vok b)) lv Q) -> safe t (Act (a_ldlock n) k) lv Q.
Proof.
  intros Hk. cbn [Conc.safe]. intros g a tr (L & HS) Hv. unfold a_ldlock. cbn [fst snd].
  exists (mk_a a t (a_pub a) (a_succ a) lv). split; [|split; [apply frame_mk|rewrite view_mk_same; apply Hk]].
  eapply Inv_keep; eauto.
Qed.

Definition release (h : list (nat * obs)) (n : nat) : list (nat * obs) := filter (fun e => negb (Nat.eqb (fst e) n)) h.

Lemma release_in h n x o : In (x, o) (release h n) <-> In (x, o) h /\ x <> n.
Proof.
  unfold release. rewrite filter_In. cbn [fst]. destruct (Nat.eqb_spec x n); cbn; intuition congruence.
Qed.

Lemma safe_unlock {R} t n (k : V -> prog R) lv Q :
  holds lv n -> lv_hole lv = None ->
  safe t (k v0) (with_held lv (release (lv_held lv) n)) Q ->
  safe t (Act (a_unlock n) k) lv Q.
Proof.
  intros [o Ho] Hhole Hk. cbn [Conc.safe]. intros g a tr (L & HS) Hv. unfold a_unlock. cbn [fst snd].
  exists (mk_a a t (a_pub a) (a_succ a) (with_held lv (release (lv_held lv) n))).
  split; [|split; [apply frame_mk|rewrite view_mk_same; exact Hk]].
  assert (Hpz : pz (a_pub a) n) by (subst lv; apply (held_entry _ _ _ _ _ _ HS Ho)).
  assert (Hsame : same_list_fields g (set_lock g n false)).
  { intros x. destruct (Nat.eq_dec x n) as [->|Hx]; [rewrite heap_set_lock_same; cbn; auto|rewrite heap_set_lock_other; auto]. }
  eapply Inv_soft; eauto; cbn [with_held lv_facts lv_held lv_own lv_hole].
  - intros u x Hu Hx. apply heap_set_lock_other. intros ->. apply Hu. subst lv. eapply (s_excl _ _ _ HS); eauto. exists o; exact Ho.
  - intros u x k0 nx Hu E. apply heap_set_lock_other. pose proof (s_own _ _ _ HS u) as K. rewrite E in K. cbn in K.
    destruct K as (K1 & K2 & _). destruct Hpz as [->|[->|Hp]]; unfold HEAD, TAIL; try lia. congruence.
  - subst lv. eapply Forall_impl; [|apply (s_facts _ _ _ HS)]. intros [x kx] K. unfold fact_ok in *. destruct (Hsame x) as (E & _). now rewrite E.
  - rewrite Forall_forall. intros [x ox] He. apply release_in in He. destruct He as [He Hx]. subst lv.
    pose proof (held_entry _ _ _ _ _ _ HS He) as K. unfold held_ok in *. cbn [fst snd] in *. rewrite heap_set_lock_other by exact Hx. exact K.
  - intros u x Hu [ox Hx] Hx'. apply release_in in Hx. destruct Hx as [Hx _]. subst lv. apply Hu. symmetry.
    eapply (s_excl _ _ _ HS); eauto. exists ox; exact Hx.
  - subst lv. pose proof (s_own _ _ _ HS t) as K. destruct (lv_own (view a t)) as [[[x kx] nx]|] eqn:E; cbn [own_ok] in *; auto.
    destruct K as (K1 & K2 & K3). change (nalloc (set_lock g n false)) with (nalloc g). repeat split; try lia; auto.
    rewrite heap_set_lock_other; [exact K3|]. destruct Hpz as [->|[->|Hp]]; unfold HEAD, TAIL; try lia. congruence.
  - intros p c s E. congruence.
Qed.

(** ** allocation and stores *)
Lemma safe_alloc {R} t kk (k : V -> prog R) lv Q :
  (forall n, safe t (k (mkV n false kk)) (mkLV (lv_facts lv) (lv_held lv) (Some (n, kk, 0%nat)) (lv_hole lv)) Q) ->
  safe t (Act (a_alloc kk) k) lv Q.
Proof.
  intros Hk. cbn [Conc.safe]. intros g a tr (L & HS) Hv. unfold a_alloc. cbn [fst snd].
  change (mkG (upd_heap (heap g) (S (nalloc g)) (mkNode kk 0 false false)) (S (nalloc g)) (count g)) with (alloc_g g kk).
  set (lv' := mkLV (lv_facts lv) (lv_held lv) (Some (S (nalloc g), kk, 0%nat)) (lv_hole lv)).
  exists (mk_a a t (a_pub a) (a_succ a) lv'). split; [|split; [apply frame_mk|rewrite view_mk_same; apply Hk]].
  exists L. subst lv. apply IS_alloc; auto.
Qed.

Lemma safe_st_own {R} t n kk nx p (k : V -> prog R) lv Q :
  lv_own lv = Some (n, kk, nx) ->
  safe t (k v0) (mkLV (lv_facts lv) (lv_held lv) (Some (n, kk, p)) (lv_hole lv)) Q ->
  safe t (Act (a_st n p false) k) lv Q.
Proof.
  intros Hown Hk. cbn [Conc.safe]. intros g a tr (L & HS) Hv. unfold a_st. cbn [fst snd].
  set (lv' := mkLV (lv_facts lv) (lv_held lv) (Some (n, kk, p)) (lv_hole lv)).
  exists (mk_a a t (a_pub a) (a_succ a) lv'). split; [|split; [apply frame_mk|rewrite view_mk_same; exact Hk]].
  exists L. subst lv. eapply IS_own_store; eauto.
Qed.

(** the key of [m] (minus infinity for the head) is below [k] *)
Definition klt (F : list fact) (m : nat) (k : Z) : Prop := m = HEAD \/ exists km, In (FPub m km) F /\ km < k.
(** [pc] is the tail or a published node with a key above [k] *)
Definition kgt (F : list fact) (pc : nat) (k : Z) : Prop := pc = TAIL \/ exists kc, In (FPub pc kc) F /\ k < kc.

Lemma safe_st_link {R} t m n kk pc (k : V -> prog R) lv Q :
  In (m, Some (pc, false)) (lv_held lv) -> lv_own lv = Some (n, kk, pc) -> lv_hole lv = None ->
  klt (lv_facts lv) m kk -> kgt (lv_facts lv) pc kk ->
  safe t (k v0) (mkLV (FPub n kk :: lv_facts lv) (set_obs (lv_held lv) m (n, false)) None None) Q ->
  safe t (Act (a_st m n false) k) lv Q.
Proof.
  intros Hm Hown Hhole Hkm Hkc Hk. cbn [Conc.safe]. intros g a tr (L & HS) Hv. unfold a_st. cbn [fst snd].
  set (lv' := mkLV (FPub n kk :: lv_facts lv) (set_obs (lv_held lv) m (n, false)) None None).
  assert (Hpc : pc = TAIL \/ a_pub a pc = true).
  { destruct Hkc as [->|(kc & Hkc & _)]; [left; reflexivity|right]. pose proof (fact_in _ _ _ _ _ _ HS Hv Hkc) as K. cbn in K. tauto. }
  assert (Hk1 : elt (kf g m) (EKey kk)).
  { unfold kf. destruct Hkm as [->|(km & Hkm & Hlt)]; [cbn; exact I|].
    pose proof (fact_in _ _ _ _ _ _ HS Hv Hkm) as (K1 & K2). apply (pub_range _ _ _ _ HS) in K1. unfold HEAD, TAIL.
    destruct (Nat.eqb_spec m 1); [lia|]. destruct (Nat.eqb_spec m 2); [lia|]. cbn. lia. }
  assert (Hk2 : elt (EKey kk) (kf g pc)).
  { unfold kf. destruct Hkc as [->|(kc & Hkc & Hlt)]; [cbn; exact I|].
    pose proof (fact_in _ _ _ _ _ _ HS Hv Hkc) as (K1 & K2). apply (pub_range _ _ _ _ HS) in K1. unfold HEAD, TAIL.
    destruct (Nat.eqb_spec pc 1); [lia|]. destruct (Nat.eqb_spec pc 2); [lia|]. cbn. lia. }
  subst lv.
  destruct (IS_link g a t lv' L m n kk pc HS Hm Hown Hhole Hpc Hk1 Hk2) as (L' & HS' & _); try reflexivity.
  exists (mk_a a t (pub_add (a_pub a) n) (a_succ a) lv'). split; [|split; [apply frame_mk|rewrite view_mk_same; exact Hk]].
  exists L'. exact HS'.
Qed.

Lemma safe_st_mark {R} t p c nx (k : V -> prog R) lv Q :
  In (p, Some (c, false)) (lv_held lv) -> In (c, Some (nx, false)) (lv_held lv) ->
  (exists kc, In (FPub c kc) (lv_facts lv)) -> lv_hole lv = None ->
  safe t (k v0) (mkLV (lv_facts lv) (set_obs (lv_held lv) c (HEAD, true)) (lv_own lv) (Some (p, c, nx))) Q ->
  safe t (Act (a_st c HEAD true) k) lv Q.
Proof.
  intros Hp Hc [kc Hkc] Hhole Hk. cbn [Conc.safe]. intros g a tr (L & HS) Hv. unfold a_st. cbn [fst snd].
  set (lv' := mkLV (lv_facts lv) (set_obs (lv_held lv) c (HEAD, true)) (lv_own lv) (Some (p, c, nx))).
  pose proof (fact_in _ _ _ _ _ _ HS Hv Hkc) as (Hcp & _). subst lv.
  destruct (IS_mark g a t lv' L p c nx HS Hp Hc Hcp Hhole) as (HS' & _); try reflexivity.
  exists (mk_a a t (a_pub a) (succ_set (a_succ a) c (Some nx)) lv'). split; [|split; [apply frame_mk|rewrite view_mk_same; exact Hk]].
  exists L. exact HS'.
Qed.

Lemma safe_st_bypass {R} t p c nx (k : V -> prog R) lv Q :
  lv_hole lv = Some (p, c, nx) ->
  safe t (k v0) (mkLV (lv_facts lv) (set_obs (lv_held lv) p (nx, false)) (lv_own lv) None) Q ->
  safe t (Act (a_st p nx false) k) lv Q.
Proof.
  intros Hhole Hk. cbn [Conc.safe]. intros g a tr (L & HS) Hv. unfold a_st. cbn [fst snd].
  set (lv' := mkLV (lv_facts lv) (set_obs (lv_held lv) p (nx, false)) (lv_own lv) None). subst lv.
  destruct (IS_bypass g a t lv' L p c nx HS Hhole) as (L' & HS' & _); try reflexivity.
  exists (mk_a a t (a_pub a) (succ_set (a_succ a) c None) lv'). split; [|split; [apply frame_mk|rewrite view_mk_same; exact Hk]].
  exists L'. exact HS'.
Qed.
