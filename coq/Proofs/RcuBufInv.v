(** * general_buffered (LV.Model.RcuBuf): accounting invariant.  Every retired object is, at every instant, in exactly
      one place: disposed, in the buffer, or in the hands of one thread (between its "retire" event and the push, between
      a pop and the disposal / re-push, or on the overflow path waiting for the caller's own synchronize). *)
From Coq Require Import ZArith List String Bool Lia PeanoNat.
From LV Require Import Base.Conc Base.Events Model.RcuGp Model.RcuBuf Proofs.RcuGpInv.
Import ListNotations.
Local Open Scope string_scope.
Local Open Scope list_scope.
Local Open Scope Z_scope.

(** ** counting events *)
Definition cnt_ev (P : ev -> bool) (tr : trace) : nat := List.length (filter (fun x => P (snd x)) tr).
Definition nret (p : Z) := cnt_ev (is_retire p).
Definition ndisp (p : Z) := cnt_ev (is_dispose p).
Definition is_done : ev -> bool := is_cli "done".

Lemma cnt_ev_snoc P tr t e : cnt_ev P (tr ++ [(t, e)]) = (cnt_ev P tr + (if P e then 1 else 0))%nat.
Proof. unfold cnt_ev. rewrite filter_app, app_length. cbn. destruct (P e); cbn; lia. Qed.

Lemma cnt_ev_app P tr tr' : cnt_ev P (tr ++ tr') = (cnt_ev P tr + cnt_ev P tr')%nat.
Proof. unfold cnt_ev. rewrite filter_app, app_length. reflexivity. Qed.

(** events that do not take part in the accounting *)
Definition plain (e : ev) : Prop := is_cli "retire" e = false /\ is_cli "dispose" e = false /\ is_cli "done" e = false.

Lemma cli_is_name name d e : cli_is name d e = true -> is_cli name e = true.
Proof. unfold cli_is, is_cli. destruct e as [|n [|x r]]; try discriminate. intros H. apply andb_prop in H. tauto. Qed.

Lemma plain_counts e p : plain e -> is_retire p e = false /\ is_dispose p e = false /\ is_done e = false.
Proof.
  intros (H1 & H2 & H3). repeat split.
  - destruct (is_retire p e) eqn:E; [apply cli_is_name in E; congruence|reflexivity].
  - destruct (is_dispose p e) eqn:E; [apply cli_is_name in E; congruence|reflexivity].
  - exact H3.
Qed.

Lemma plain_acc k o ok : plain (EvAcc k o ok).
Proof. repeat split. Qed.

(** ** hands *)
Definition hands := list (nat * Z).
Definition mine (t : nat) (h : hands) : list Z := map snd (filter (fun x => Nat.eqb (fst x) t) h).
Definition cz (p : Z) (l : list Z) : nat := count_occ Z.eq_dec l p.

Fixpoint rm1 (t : nat) (p : Z) (h : hands) : hands :=
  match h with
  | [] => []
  | (t', q) :: r => if Nat.eqb t' t && (q =? p) then r else (t', q) :: rm1 t p r
  end.

Lemma mine_cons_same t p h : mine t ((t, p) :: h) = p :: mine t h.
Proof. unfold mine. cbn. rewrite Nat.eqb_refl. reflexivity. Qed.
Lemma mine_cons_other t t' p h : t' <> t -> mine t' ((t, p) :: h) = mine t' h.
Proof. unfold mine. cbn. intros H. destruct (Nat.eqb_spec t t'); [congruence|reflexivity]. Qed.

Lemma mine_app t h h' : mine t (h ++ h') = mine t h ++ mine t h'.
Proof. unfold mine. rewrite filter_app, map_app. reflexivity. Qed.

Lemma mine_rm1_other t t' p h : t' <> t -> mine t' (rm1 t p h) = mine t' h.
Proof.
  intros Hne. induction h as [|[t0 q] r IH]; [reflexivity|]. cbn [rm1].
  destruct (Nat.eqb_spec t0 t) as [->|N]; cbn [andb].
  - destruct (q =? p).
    + rewrite mine_cons_other by exact Hne. reflexivity.
    + rewrite !mine_cons_other by exact Hne. exact IH.
  - unfold mine in *. cbn. destruct (Nat.eqb t0 t'); cbn; rewrite IH; reflexivity.
Qed.

Lemma mine_rm1_head t p h hs : mine t h = p :: hs -> mine t (rm1 t p h) = hs.
Proof.
  induction h as [|[t0 q] r IH]; [discriminate|]. cbn [rm1].
  destruct (Nat.eqb_spec t0 t) as [->|N]; cbn [andb].
  - rewrite mine_cons_same. intros E. inversion E; subst q. rewrite Z.eqb_refl. reflexivity.
  - rewrite mine_cons_other by congruence. intros E. rewrite mine_cons_other by congruence. apply IH; exact E.
Qed.

Lemma mine_head_in t p h hs : mine t h = p :: hs -> In (t, p) h.
Proof.
  induction h as [|[t0 q] r IH]; [discriminate|].
  destruct (Nat.eq_dec t0 t) as [->|N].
  - rewrite mine_cons_same. intros E. inversion E; subst. left; reflexivity.
  - rewrite mine_cons_other by congruence. intros E. right. apply IH; exact E.
Qed.

Lemma cz_cons p q l : cz p (q :: l) = ((if Z.eq_dec q p then 1 else 0) + cz p l)%nat.
Proof. unfold cz. cbn. destruct (Z.eq_dec q p); lia. Qed.

Lemma cz_app p l l' : cz p (l ++ l') = (cz p l + cz p l')%nat.
Proof. unfold cz. apply count_occ_app. Qed.

Lemma cz_rm1 t p h q : In (t, p) h ->
  (cz q (map snd (rm1 t p h)) + (if Z.eq_dec p q then 1 else 0) = cz q (map snd h))%nat.
Proof.
  induction h as [|[t0 x] r IH]; [intros []|]. intros Hin. cbn [rm1].
  destruct (Nat.eqb_spec t0 t) as [->|N]; cbn [andb].
  - destruct (Z.eqb_spec x p) as [->|Nx].
    + cbn [map snd]. rewrite cz_cons. lia.
    + cbn [map snd]. rewrite !cz_cons. destruct Hin as [E|Hin]; [inversion E; congruence|]. specialize (IH Hin). lia.
  - cbn [map snd]. rewrite !cz_cons. destruct Hin as [E|Hin]; [inversion E; congruence|]. specialize (IH Hin). lia.
Qed.

Lemma rm1_incl t p h x : In x (rm1 t p h) -> In x h.
Proof.
  induction h as [|[t0 q] r IH]; [intros []|]. cbn [rm1]. destruct (Nat.eqb t0 t && (q =? p)).
  - intros H; right; exact H.
  - intros [H|H]; [left; exact H|right; apply IH; exact H].
Qed.

(** ** auxiliary state and invariant; [N] = number of threads *)
Definition Aux2 := (hands * (nat -> bool))%type.
Definition L2 := (list Z * bool)%type.
Definition view2 (a : Aux2) (t : nat) : L2 := (mine t (fst a), snd a t).

Record InvB (N : nat) (g : G) (a : Aux2) (tr : trace) : Prop := {
  B1 : forall p, nret p tr = (ndisp p tr + cz p (map fst (g_buf g)) + cz p (map snd (fst a)))%nat;
  B3 : forall t, snd a t = true -> mine t (fst a) = [];
  B4 : forall x, In x (fst a) -> (fst x < N)%nat;
  B5 : forall t i, at_ tr i t is_done -> snd a t = true
}.

Lemma frame_hands_cons (h : hands) d t p : Conc.frame view2 t (h, d) ((t, p) :: h, d).
Proof. intros t' H. unfold view2. cbn [fst snd]. rewrite mine_cons_other by exact H. reflexivity. Qed.
Lemma frame_hands_snoc (h : hands) d t p : Conc.frame view2 t (h, d) (h ++ [(t, p)], d).
Proof.
  intros t' H. unfold view2. cbn [fst snd]. rewrite mine_app. rewrite mine_cons_other by exact H. cbn. rewrite app_nil_r. reflexivity.
Qed.
Lemma frame_hands_rm1 (h : hands) d t p : Conc.frame view2 t (h, d) (rm1 t p h, d).
Proof. intros t' H. unfold view2. cbn [fst snd]. rewrite mine_rm1_other by exact H. reflexivity. Qed.

(** *** steps *)
Lemma InvB_plain N g g' a tr t e :
  g_buf g' = g_buf g -> plain e -> InvB N g a tr -> InvB N g' a (tr ++ [(t, e)]).
Proof.
  intros Eg Hp [H1 H3 H4 H5]. destruct (plain_counts e 0 Hp) as (_ & _ & Hd). constructor; auto.
  - intros p. destruct (plain_counts e p Hp) as (P1 & P2 & _). unfold nret, ndisp. rewrite !cnt_ev_snoc, P1, P2, Eg.
    specialize (H1 p). unfold nret, ndisp in H1. lia.
  - intros t0 i Hat. destruct (at_snoc_inv _ _ _ _ _ _ Hat) as [Hat'|(_ & _ & X)]; [eapply H5; eauto|congruence].
Qed.

Lemma is_retire_self p : is_retire p (EvCli "retire" [p]) = true.
Proof. unfold is_retire, cli_is. cbn. apply Z.eqb_refl. Qed.
Lemma is_retire_other p q : q <> p -> is_retire q (EvCli "retire" [p]) = false.
Proof. unfold is_retire, cli_is. cbn. intros H. apply Z.eqb_neq. congruence. Qed.
Lemma is_dispose_self p : is_dispose p (EvCli "dispose" [p]) = true.
Proof. unfold is_dispose, cli_is. cbn. apply Z.eqb_refl. Qed.
Lemma is_dispose_other p q : q <> p -> is_dispose q (EvCli "dispose" [p]) = false.
Proof. unfold is_dispose, cli_is. cbn. intros H. apply Z.eqb_neq. congruence. Qed.

Lemma is_dispose_retire q p : is_dispose q (EvCli "retire" [p]) = false. Proof. reflexivity. Qed.
Lemma is_retire_dispose q p : is_retire q (EvCli "dispose" [p]) = false. Proof. reflexivity. Qed.
Lemma is_retire_done q : is_retire q (EvCli "done" []) = false. Proof. reflexivity. Qed.
Lemma is_dispose_done q : is_dispose q (EvCli "done" []) = false. Proof. reflexivity. Qed.

(** "retire p": the object is in the caller's hands *)
Lemma InvB_retire N g h d tr t p :
  (t < N)%nat -> d t = false -> InvB N g (h, d) tr -> InvB N g (h ++ [(t, p)], d) (tr ++ [(t, EvCli "retire" [p])]).
Proof.
  intros Ht Hdt [H1 H3 H4 H5]. cbn [fst snd] in *. constructor; cbn [fst snd].
  - intros q. unfold nret, ndisp. rewrite !cnt_ev_snoc. rewrite map_app, cz_app. cbn [map snd]. rewrite cz_cons.
    specialize (H1 q). unfold nret, ndisp in H1. change (cz q []) with O.
    destruct (Z.eq_dec p q) as [->|Nq].
    + rewrite is_retire_self, is_dispose_retire. lia.
    + rewrite is_retire_other by congruence. rewrite is_dispose_retire. lia.
  - intros t0 Hd. destruct (Nat.eq_dec t0 t) as [->|Ne]; [congruence|]. rewrite mine_app, mine_cons_other by exact Ne.
    rewrite (H3 t0 Hd). reflexivity.
  - intros x Hx. apply in_app_or in Hx. destruct Hx as [Hx|[<-|[]]]; [apply H4; exact Hx|exact Ht].
  - intros t0 i Hat. destruct (at_snoc_inv _ _ _ _ _ _ Hat) as [Hat'|(_ & _ & X)]; [eapply H5; eauto|discriminate].
Qed.

(** successful push: from the hands into the buffer *)
Lemma InvB_push N g h d tr t p e hs k o ok :
  mine t h = p :: hs -> InvB N g (h, d) tr ->
  InvB N (set_buf g (g_buf g ++ [(p, e)])) (rm1 t p h, d) (tr ++ [(t, EvAcc k o ok)]).
Proof.
  intros Hm [H1 H3 H4 H5]. cbn [fst snd] in *. pose proof (mine_head_in _ _ _ _ Hm) as Hin. constructor; cbn [fst snd set_buf g_buf].
  - intros q. unfold nret, ndisp. rewrite !cnt_ev_snoc. cbn [is_retire is_dispose cli_is]. rewrite map_app, cz_app. cbn [map fst].
    rewrite cz_cons. specialize (H1 q). unfold nret, ndisp in H1. pose proof (cz_rm1 t p h q Hin) as X. unfold cz at 3. cbn. fold (cz q (map snd (rm1 t p h))). lia.
  - intros t0 Hd. destruct (Nat.eq_dec t0 t) as [->|Ne].
    + rewrite (H3 t Hd) in Hm. discriminate.
    + rewrite mine_rm1_other by exact Ne. apply H3; exact Hd.
  - intros x Hx. apply H4. eapply rm1_incl; eauto.
  - intros t0 i Hat. destruct (at_snoc_inv _ _ _ _ _ _ Hat) as [Hat'|(_ & _ & X)]; [eapply H5; eauto|discriminate].
Qed.

(** pop: from the buffer into the hands *)
Lemma InvB_pop N g h d tr t p e r k o ok :
  (t < N)%nat -> d t = false -> g_buf g = (p, e) :: r -> InvB N g (h, d) tr ->
  InvB N (set_buf g r) ((t, p) :: h, d) (tr ++ [(t, EvAcc k o ok)]).
Proof.
  intros Ht Hdt Hb [H1 H3 H4 H5]. cbn [fst snd] in *. constructor; cbn [fst snd set_buf g_buf].
  - intros q. unfold nret, ndisp. rewrite !cnt_ev_snoc. cbn [is_retire is_dispose cli_is]. cbn [map snd]. rewrite cz_cons.
    specialize (H1 q). unfold nret, ndisp in H1. rewrite Hb in H1. cbn [map fst] in H1. rewrite cz_cons in H1. lia.
  - intros t0 Hd. destruct (Nat.eq_dec t0 t) as [->|Ne]; [congruence|]. rewrite mine_cons_other by exact Ne. apply H3; exact Hd.
  - intros x [<-|Hx]; [exact Ht|apply H4; exact Hx].
  - intros t0 i Hat. destruct (at_snoc_inv _ _ _ _ _ _ Hat) as [Hat'|(_ & _ & X)]; [eapply H5; eauto|discriminate].
Qed.

(** "dispose p" of an object in the caller's hands *)
Lemma InvB_dispose N g h d tr t p hs :
  mine t h = p :: hs -> InvB N g (h, d) tr -> InvB N g (rm1 t p h, d) (tr ++ [(t, EvCli "dispose" [p])]).
Proof.
  intros Hm [H1 H3 H4 H5]. cbn [fst snd] in *. pose proof (mine_head_in _ _ _ _ Hm) as Hin. constructor; cbn [fst snd].
  - intros q. unfold nret, ndisp. rewrite !cnt_ev_snoc. specialize (H1 q). unfold nret, ndisp in H1.
    pose proof (cz_rm1 t p h q Hin) as X. rewrite is_retire_dispose.
    destruct (Z.eq_dec p q) as [->|Nq].
    + rewrite is_dispose_self. lia.
    + rewrite is_dispose_other by congruence. lia.
  - intros t0 Hd. destruct (Nat.eq_dec t0 t) as [->|Ne].
    + rewrite (H3 t Hd) in Hm. discriminate.
    + rewrite mine_rm1_other by exact Ne. apply H3; exact Hd.
  - intros x Hx. apply H4. eapply rm1_incl; eauto.
  - intros t0 i Hat. destruct (at_snoc_inv _ _ _ _ _ _ Hat) as [Hat'|(_ & _ & X)]; [eapply H5; eauto|discriminate].
Qed.

(** "done" with empty hands *)
Lemma InvB_done N g h d tr t :
  mine t h = [] -> InvB N g (h, d) tr ->
  InvB N g (h, fun x => if Nat.eqb x t then true else d x) (tr ++ [(t, EvCli "done" [])]).
Proof.
  intros Hm [H1 H3 H4 H5]. cbn [fst snd] in *. constructor; cbn [fst snd]; auto.
  - intros q. unfold nret, ndisp. rewrite !cnt_ev_snoc. specialize (H1 q). unfold nret, ndisp in H1.
    rewrite is_retire_done, is_dispose_done. lia.
  - intros t0. destruct (Nat.eqb_spec t0 t) as [->|Ne]; [intros _; exact Hm|apply H3].
  - intros t0 i Hat. destruct (at_snoc_inv _ _ _ _ _ _ Hat) as [Hat'|(_ & -> & _)].
    + destruct (Nat.eqb t0 t); [reflexivity|eapply H5; eauto].
    + rewrite Nat.eqb_refl. reflexivity.
Qed.
