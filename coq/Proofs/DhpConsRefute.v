(** * DhpConsRefute: the statement [dhp_destroy_disposes_all_statement] of LV.Proofs.DhpProofsC03, read literally, is
      false of the model for a reason that has nothing to do with the reclamation code: the model's retire() of a
      thread that is not attached announces "op 9 p" and does nothing (the real DHP::retire dereferences a null
      tls pointer), so the object counts as retired and is never disposed.  The corrected statement assumes that
      retire() is called by attached threads only ([retire_attached] of LV.Proofs.DhpConsThm). *)
From Coq Require Import ZArith List String Permutation Lia.
From LV Require Import Base.Conc Base.Events Model.DhpLang Model.Dhp Proofs.DhpProofsC03.
Import ListNotations.

Theorem dhp_destroy_disposes_all_statement_refuted : ~ dhp_destroy_disposes_all_statement.
Proof.
  intros H.
  set (c := mkCfg 4 2 4 false 200 1 false). set (ths := [[ORetire 5]]).
  set (conf := fst (Conc.run 100 0 [] (init_cfg 100 c ths))).
  assert (Hth : Conc.threads conf = [Conc.Ret tt]) by (vm_compute; reflexivity).
  specialize (H 100 c ths conf ltac:(cbn; lia) eq_refl eq_refl (Conc.run_reach _ _ _ _)).
  assert (H1 : forall p, nth_error (Conc.threads conf) p <> None -> forall q, nth_error (Conc.threads conf) p = Some q -> Conc.enabled q = false).
  { intros p _ q Hq. rewrite Hth in Hq. destruct p as [|[|p]]; cbn in Hq; inversion Hq; reflexivity. }
  specialize (H H1). clear H1.
  assert (H2 : NoDup (flat_map (fun e => retired_ev (snd e)) (Conc.trace conf))) by (vm_compute; repeat constructor; intros []).
  specialize (H H2 100 _ eq_refl). clear H2.
  assert (H3 : snd (Conc.run 100 0 [] (Conc.Cfg (Conc.shared conf) [compile 100 (DAct a_begin (fun _ => to_unit (destruct c (S (List.length ths)))))] [])) = true)
    by (vm_compute; reflexivity).
  specialize (H H3). vm_compute in H. apply Permutation_nil in H. discriminate.
Qed.
