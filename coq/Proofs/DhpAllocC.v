(** * DhpAllocC: writing next_block_ of a private (unlinked) guard block; remembering the value of
      extended_list_ read by thread_hp_storage::extend. *)
From Coq Require Import ZArith NArith List String Bool Lia PeanoNat.
From LV Require Import Base.Conc Base.Events Model.DhpLang Model.Dhp Proofs.DhpBase Proofs.DhpHist
  Proofs.DhpLangProofs Proofs.DhpInvA Proofs.DhpStepsA Proofs.DhpQuietA Proofs.DhpSlotA Proofs.DhpScanA Proofs.DhpScanC
  Proofs.DhpPresA Proofs.DhpAllocA Proofs.DhpAllocB.
Import ListNotations.

Section AllocC.
  Variable c : cfg.

  Lemma gchain_upd_nextb g b e o S : ~ In b S -> gchain c g o S -> gchain c (upd_gb g b (gs_nextb e)) o S.
  Proof.
    intros Hn. apply gchain_ext; [unfold upd_gb; cbn; rewrite upd_nth_length; lia|].
    intros x Hx. rewrite ggb_upd_gb_any. destruct (Nat.eqb_spec x b) as [->|N]; [contradiction|]. cbn. auto.
  Qed.

  (** views that differ from [a] only in the [va_e] field of thread t *)
  Lemma JA_nextb g a h t b e l :
    JA c g a h -> views a t = l -> va_blk l = Some b -> va_e l = Some (e, false) ->
    JA c (upd_gb g b (gs_nextb e)) (upd_aux a t (with_e l (Some (e, true))) (bown a)) h.
  Proof.
    intros J Hv Hb He. pose proof J as [J1 J2 J3 J4 J5 J6 J7 J8 J9 J10 J11 J12 J15 J16 J17 J18 J13 J14].
    set (g' := upd_gb g b (gs_nextb e)). set (a' := upd_aux a t (with_e l (Some (e, true))) (bown a)).
    assert (Hb0 : va_blk (views a t) = Some b) by (rewrite Hv; exact Hb).
    destruct (J9 t b Hb0) as (Bp & Blt & Bsl & Blim).
    assert (Er : recs g' = recs g) by reflexivity. assert (Et : tlist g' = tlist g) by reflexivity.
    assert (Lg : List.length (gbs g') = List.length (gbs g)) by (unfold g', upd_gb; cbn; apply upd_nth_length).
    assert (Esl : forall x, gb_slots (ggb g' x) = gb_slots (ggb g x)).
    { intros x. unfold g'. rewrite ggb_upd_gb_any. destruct (Nat.eqb x b && _) eqn:E; auto.
      apply andb_true_iff in E. destruct E as (E&_). apply Nat.eqb_eq in E. now subst. }
    assert (Enx : forall x, x <> b -> gb_nextb (ggb g' x) = gb_nextb (ggb g x)).
    { intros x N. unfold g'. rewrite ggb_upd_gb_any. destruct (Nat.eqb_spec x b); [contradiction|reflexivity]. }
    assert (Enb : gb_nextb (ggb g' b) = e).
    { unfold g'. rewrite ggb_upd_gb_any. rewrite Nat.eqb_refl. replace (Nat.ltb b (List.length (gbs g))) with true by (symmetry; now apply Nat.ltb_lt). reflexivity. }
    assert (Af : forall o r, after g o r -> after g' o r) by (intros; eapply after_same_recs; eauto).
    assert (Rc : forall o l0, rchain g o l0 <-> rchain g' o l0).
    { intros o' l'; revert o'; induction l' as [|x l' IH]; intros o'; cbn; [tauto|]. rewrite IH. tauto. }
    assert (NL : forall n S, incl S (map fst (linked h n)) -> ~ In b S).
    { intros n S Hi K. rewrite (chain_blocks_linked c g a h n S b J Hi K) in Bp. discriminate. }
    assert (V : forall t', va_tls (views a' t') = va_tls (views a t') /\ va_unpub (views a' t') = va_unpub (views a t') /\
                           va_hold (views a' t') = va_hold (views a t') /\ va_help (views a' t') = va_help (views a t') /\
                           va_node (views a' t') = va_node (views a t') /\ va_blk (views a' t') = va_blk (views a t') /\
                           va_limbo (views a' t') = va_limbo (views a t') /\ va_scan (views a' t') = va_scan (views a t')).
    { intros t'. unfold a'. vcase t' t; [subst l; cbn; repeat split; reflexivity|repeat split; reflexivity]. }
    assert (B : bown a' = bown a) by reflexivity.
    constructor; rewrite ?Er, ?Et, ?Lg, ?B.
    - destruct J1 as (L & H1 & H2). exists L. split; auto. now apply Rc.
    - intros r t' k Ha. destruct (J2 r t' k Ha) as (X1&X2&X3&X4&X5&X6&X7&X8&X9). destruct (V t') as (E&_). rewrite E.
      split; auto. split; auto. split; auto. split; auto. split; auto. split; auto.
      split; [apply gchain_upd_nextb; auto; eapply NL; apply incl_refl|]. split; auto.
    - intros t' r Ht. destruct (V t') as (E&_). rewrite E in Ht. auto.
    - exact J4.
    - intros t' r bt Ht. destruct (V t') as (_&E&_). rewrite E in Ht. destruct (J5 t' r bt Ht) as (X1&X2&X3&X4&X5&X6). repeat split; auto.
      + intros L HL. apply X3. now apply Rc.
      + intros t'' bt' Ht''. destruct (V t'') as (_&E'&_). rewrite E' in Ht''. eauto.
    - intros t' r Ht. destruct (V t') as (_&_&E&_&_&_&E7&_). rewrite E in Ht. rewrite E7.
      destruct (J6 t' r Ht) as (X1&X2&X3&X4&X5&X6). repeat split; auto.
    - intros t' r Ht. destruct (V t') as (_&_&E3&E4&_). rewrite E4 in Ht. rewrite E3. exact (J7 t' r Ht).
    - intros r Hr Ha. destruct (J8 r Hr Ha) as [X|(t' & X1 & X2)]; [now left|right]. exists t'.
      destruct (V t') as (_&_&E3&_&_&_&E7&_). rewrite E3, E7. auto.
    - intros t' b' Ht. destruct (V t') as (_&_&_&_&_&E6&E7&_). rewrite E6 in Ht. rewrite E7.
      destruct (J9 t' b' Ht) as (X1&X2&X3&X4). rewrite Esl. auto.
    - intros t' o lb Ht. destruct (V t') as (_&_&_&_&_&_&E7&_). rewrite E7 in Ht. destruct (J10 t' o lb Ht) as (X1&X2&X3). split; auto.
      apply gchain_upd_nextb; auto. intros K. destruct (Nat.eq_dec t' t) as [->|N].
      + eapply Blim; eauto.
      + rewrite (X3 b K) in Bp. inversion Bp. congruence.
    - exact J11.
    - exact J12.
    - exact J15.
    - intros b' Hb'. rewrite Esl. auto.
    - intros t' e' f Ht. destruct (Nat.eq_dec t' t) as [->|N].
      + unfold a' in *. rewrite upd_aux_same in *. cbn in Ht. inversion Ht; subst e' f. cbn [va_tls va_blk with_e].
        rewrite <- Hv in He. destruct (J17 t e false He) as (r & Y1 & Y2 & _). exists r. rewrite <- Hv. split; auto. split; auto.
        intros _. exists b. split; auto.
      + unfold a' in *. rewrite upd_aux_other in * by exact N. destruct (J17 t' e' f Ht) as (r & Y1 & Y2 & Y3). exists r. split; auto. split; auto.
        intros Hf. destruct (Y3 Hf) as (b' & Z1 & Z2). exists b'. split; auto. rewrite Enx; auto.
        intros ->. destruct (J9 t' b Z1) as (W&_). rewrite W in Bp. inversion Bp. congruence.
    - intros t' n Ht. destruct (V t') as (_&_&_&_&E5&_). rewrite E5 in Ht. eauto.
    - intros s. rewrite <- J13. destruct s as [r i|x i]; [reflexivity|]. cbn [slot_get]. now rewrite Esl.
    - intros t'. destruct (V t') as (_&_&_&_&_&_&_&E8). rewrite E8. specialize (J14 t').
      destruct (va_scan (views a t')) as [ss|]; auto. destruct J14 as (X1 & X2). split; auto.
      apply (scan_ok_frame c g g' h h ss); [lia|intros s; left; auto|exact Af|left; exact Et|intros n0 _; reflexivity| |exact X2].
      intros s k Hl Hk. split; auto. split; auto. intros n0 o S b0 i Es Hin Hg Hi. split; auto.
      apply gchain_upd_nextb; auto. eapply NL; eauto.
  Qed.
End AllocC.
