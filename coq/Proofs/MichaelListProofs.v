(** * MichaelListProofs: every operation of the MichaelList model is [Conc.safe] for the invariant [Inv];
      consequences for every reachable configuration (every schedule, any number of threads). *)
From Coq Require Import ZArith List String Bool Lia PeanoNat.
From LV Require Import Base.Conc Base.Events Base.Lin Spec.Specs Proofs.LinProofs.
From LV Require Import Model.MichaelList Proofs.MichaelListBase Proofs.MichaelListInv Proofs.MichaelListSteps
                       Proofs.MichaelListLin Proofs.MichaelListActs.
Import ListNotations.
Local Open Scope Z_scope.

Notation safe := (@Conc.safe G V ev aux lview view Inv).
Notation "x <- p ;; q" := (Conc.bind p (fun x => q)) (at level 61, p at next level, right associativity).

(** ** hazard-pointer plumbing: no effect on the invariant *)
Lemma safe_assign_guard t s lv (Q : unit -> lview -> Prop) : Q tt lv -> safe t (assign_guard t s) lv Q.
Proof. intros H. unfold assign_guard. apply safe_neutral with (v := v0); [apply neutral_nop|]. apply safe_neutral with (v := v0); [apply neutral_nop|]. exact H. Qed.
Lemma safe_copy_guard t d s lv (Q : unit -> lview -> Prop) : Q tt lv -> safe t (copy_guard t d s) lv Q.
Proof. intros H. unfold copy_guard. apply safe_neutral with (v := v0); [apply neutral_nop|]. apply safe_assign_guard. exact H. Qed.
Lemma safe_clear_guard t s lv (Q : unit -> lview -> Prop) : Q tt lv -> safe t (clear_guard t s) lv Q.
Proof. intros H. unfold clear_guard. apply safe_neutral with (v := v0); [apply neutral_nop|]. exact H. Qed.
Lemma safe_retire t lv (Q : unit -> lview -> Prop) : Q tt lv -> safe t (retire t) lv Q.
Proof. intros H. unfold retire. apply safe_neutral with (v := v0); [apply neutral_nop|]. apply safe_neutral with (v := v0); [apply neutral_nop|]. exact H. Qed.
Lemma safe_use_guarded t s lv (Q : unit -> lview -> Prop) : Q tt lv -> safe t (use_guarded t s) lv Q.
Proof. intros H. unfold use_guarded. apply safe_neutral with (v := v0); [apply neutral_nop|]. apply safe_neutral with (v := v0); [apply neutral_nop|]. exact H. Qed.
Lemma safe_cnt_inc ic lv t (Q : unit -> lview -> Prop) : Q tt lv -> safe t (cnt_inc ic) lv Q.
Proof. intros H. unfold cnt_inc. destruct ic; [|exact H]. apply safe_neutral with (v := v0); [apply neutral_cnt|]. exact H. Qed.
Lemma safe_cnt_dec ic lv t (Q : unit -> lview -> Prop) : Q tt lv -> safe t (cnt_dec ic) lv Q.
Proof. intros H. unfold cnt_dec. destruct ic; [|exact H]. apply safe_neutral with (v := v0); [apply neutral_cnt|]. exact H. Qed.
Lemma safe_free_guards t gs : forall fr lv (Q : list nat -> lview -> Prop),
  (forall fr', Q fr' lv) -> safe t (free_guards t gs fr) lv Q.
Proof.
  induction gs as [|s gs IH]; intros fr lv Q H; cbn [free_guards]; [apply H|].
  apply safe_neutral with (v := v0); [apply neutral_nop|]. apply IH. exact H.
Qed.

Lemma incl_app_r' {A} (l1 l2 : list A) : incl l2 (l1 ++ l2).
Proof. apply incl_appr. apply incl_refl. Qed.

(** ** protect *)
Lemma safe_protect fuel : forall t s l0 lv (Q : option V -> lview -> Prop),
  ppub (lv_facts lv) l0 ->
  (forall F', incl (lv_facts lv) F' -> Q None (lv_with lv F')) ->
  (forall v F', incl (lv_facts lv) F' -> incl (newfacts l0 v) F' -> Q (Some v) (lv_with lv F')) ->
  safe t (protect fuel t s l0) lv Q.
Proof.
  induction fuel as [|f IH]; intros t s l0 lv Q Hp HN HS; cbn [protect].
  - cbn [Conc.safe]. destruct lv. apply (HN lv_facts). apply incl_refl.
  - apply safe_ld; [exact Hp|]. intros v.
    apply safe_neutral with (v := v0); [apply neutral_nop|]. apply safe_neutral with (v := v0); [apply neutral_nop|].
    apply safe_ld; [eapply ppub_incl; [|exact Hp]; apply incl_app_r'|]. intros v'.
    set (F2 := newfacts l0 v' ++ newfacts l0 v ++ lv_facts lv).
    assert (I0 : incl (lv_facts lv) F2) by (unfold F2; apply incl_appr; apply incl_app_r').
    destruct (veqb v v').
    + cbn [Conc.safe]. apply (HS v F2); auto. unfold F2. apply incl_appr. apply incl_appl. apply incl_refl.
    + change (safe t (protect f t s l0) (lv_with lv F2) Q). apply IH.
      * eapply ppub_incl; eauto.
      * intros F' HF. apply (HN F'). eapply incl_tran; eauto.
      * intros w F' HF HF'. apply (HS w F'); auto. eapply incl_tran; eauto.
Qed.

(** ** search *)
Definition search_inv (F : list fact) (k : Z) (st : option (loc * V)) : Prop :=
  match st with
  | None => True
  | Some (pPrev, pCur) =>
      ppub F pPrev /\ klt F pPrev k /\ (vptr pCur = 0%nat \/ In (FPub (vptr pCur) (vkey pCur)) F)
  end.

Definition pos_ok (F : list fact) (k : Z) (found : bool) (p : pos) : Prop :=
  ppub F (pprev p) /\ klt F (pprev p) k /\
  (if found then In (FPub (pcur p) k) F
   else pcur p = 0%nat \/ exists kc, In (FPub (pcur p) kc) F /\ k < kc).

Lemma newfacts_pub l v F : incl (newfacts l v) F -> vptr v = 0%nat \/ In (FPub (vptr v) (vkey v)) F.
Proof.
  unfold newfacts. intros H. destruct (Nat.eqb_spec (vptr v) 0); [left; assumption|right].
  apply H. apply in_or_app. left. left. reflexivity.
Qed.
Lemma newfacts_frozen l v F : incl (newfacts l v) F -> vmark v = true -> In (FFrozen l (vptr v)) F.
Proof.
  unfold newfacts. intros H Hm. rewrite Hm in H. apply H. apply in_or_app. right. left. reflexivity.
Qed.

Lemma safe_search fuel : forall t g0 g1 g2 k st lv (Q : option (bool * pos) -> lview -> Prop),
  search_inv (lv_facts lv) k st ->
  (forall F', incl (lv_facts lv) F' -> Q None (lv_with lv F')) ->
  (forall F' found p, incl (lv_facts lv) F' -> pos_ok F' k found p -> Q (Some (found, p)) (lv_with lv F')) ->
  safe t (search fuel t g0 g1 g2 k st) lv Q.
Proof.
  induction fuel as [|f IH]; intros t g0 g1 g2 k st lv Q Hinv HN HS; cbn [search].
  - cbn [Conc.safe]. destruct lv. apply (HN lv_facts). apply incl_refl.
  - destruct st as [[pPrev pCur]|].
    + destruct Hinv as (Hpp & Hkl & Hcur).
      destruct (Nat.eqb_spec (vptr pCur) 0) as [E0|E0].
      * cbn [Conc.safe]. destruct lv as [F own st0]. apply (HS F false (mkPos pPrev 0 0)); [apply incl_refl|].
        repeat split; auto.
      * destruct Hcur as [Hcur|Hcur]; [contradiction|].
        apply Conc.safe_bind. apply safe_protect.
        -- right. eexists; exact Hcur.
        -- intros F' HF. cbn [Conc.safe]. apply HN. exact HF.
        -- intros pNext F1 HF1 HN1. cbn beta iota.
           apply safe_ld; [eapply ppub_incl; [exact HF1|exact Hpp]|]. intros pv.
           set (F2 := newfacts pPrev pv ++ F1).
           assert (I12 : incl F1 F2) by (unfold F2; apply incl_app_r').
           assert (I02 : incl (lv_facts lv) F2) by (eapply incl_tran; eauto).
           destruct (negb (Nat.eqb (vptr pv) (vptr pCur) && negb (vmark pv))).
           ++ change (safe t (search f t g0 g1 g2 k None) (lv_with lv F2) Q). apply IH; [exact I|..].
              ** intros F' HF. apply HN. eapply incl_tran; eauto.
              ** intros F' fd p HF Hp. apply HS; auto. eapply incl_tran; eauto.
           ++ destruct (vmark pNext) eqn:Emk.
              ** (* help to unlink the marked pCur *)
                 apply safe_cas_unlink.
                 --- eapply ppub_incl; [exact I02|exact Hpp].
                 --- apply I12. apply (newfacts_frozen _ _ _ HN1 Emk).
                 --- cbn beta iota. change (vmark (vok true)) with true. cbn iota.
                     apply Conc.safe_bind. apply safe_retire. apply Conc.safe_bind. apply safe_copy_guard.
                     change (safe t (search f t g0 g1 g2 k (Some (pPrev, pNext))) (lv_with lv F2) Q). apply IH.
                     +++ cbn [search_inv lv_with lv_facts]. split; [eapply ppub_incl; [exact I02|exact Hpp]|].
                         split; [eapply klt_incl; [exact I02|exact Hkl]|].
                         destruct (newfacts_pub _ _ _ HN1) as [Hz|Hz]; [left; exact Hz|right; apply I12; exact Hz].
                     +++ intros F' HF. apply HN. eapply incl_tran; eauto.
                     +++ intros F' fd p HF Hp. apply HS; auto. eapply incl_tran; eauto.
                 --- cbn beta iota. change (vmark (vok false)) with false. cbn iota.
                     change (safe t (search f t g0 g1 g2 k None) (lv_with lv F2) Q). apply IH; [exact I|..].
                     +++ intros F' HF. apply HN. eapply incl_tran; eauto.
                     +++ intros F' fd p HF Hp. apply HS; auto. eapply incl_tran; eauto.
              ** destruct (Z.leb_spec k (vkey pCur)) as [Hle|Hgt].
                 --- cbn [Conc.safe]. apply (HS F2 (Z.eqb (vkey pCur) k) (mkPos pPrev (vptr pCur) (vptr pNext))); [exact I02|].
                     cbn [pos_ok pprev pcur]. split; [eapply ppub_incl; [exact I02|exact Hpp]|].
                     split; [eapply klt_incl; [exact I02|exact Hkl]|].
                     destruct (Z.eqb_spec (vkey pCur) k) as [Ek|Ek].
                     +++ rewrite <- Ek. apply I02. exact Hcur.
                     +++ right. exists (vkey pCur). split; [apply I02; exact Hcur|lia].
                 --- apply Conc.safe_bind. apply safe_copy_guard. apply Conc.safe_bind. apply safe_copy_guard.
                     change (safe t (search f t g0 g1 g2 k (Some (LNext (vptr pCur), pNext))) (lv_with lv F2) Q). apply IH.
                     +++ cbn [search_inv lv_with lv_facts]. unfold LNext.
                         split; [right; eexists; apply I02; exact Hcur|].
                         split; [right; exists (vkey pCur); split; [apply I02; exact Hcur|lia]|].
                         destruct (newfacts_pub _ _ _ HN1) as [Hz|Hz]; [left; exact Hz|right; apply I12; exact Hz].
                     +++ intros F' HF. apply HN. eapply incl_tran; eauto.
                     +++ intros F' fd p HF Hp. apply HS; auto. eapply incl_tran; eauto.
    + apply Conc.safe_bind. apply safe_protect.
      * left. reflexivity.
      * intros F' HF. cbn [Conc.safe]. apply HN. exact HF.
      * intros v F1 HF1 HN1. cbn beta iota.
        change (safe t (search f t g0 g1 g2 k (Some (LHead, v))) (lv_with lv F1) Q). apply IH.
        -- cbn [search_inv lv_with lv_facts]. split; [left; reflexivity|]. split; [left; reflexivity|].
           exact (newfacts_pub _ _ _ HN1).
        -- intros F' HF. apply HN. eapply incl_tran; eauto.
        -- intros F' fd p HF Hp. apply HS; auto. eapply incl_tran; eauto.
Qed.

(** ** link_node, unlink_node *)
Lemma safe_link_node t own kk p lv o (Q : bool * nat -> lview -> Prop) :
  pos_ok (lv_facts lv) kk false p ->
  lv_st lv = @Pending SetSpec o -> ins_op o kk ->
  (own = None \/ exists n nx, own = Some n /\ lv_own lv = Some (n, kk, nx)) ->
  (forall n, Q (true, n) (mkLV (FPub n kk :: lv_facts lv) None (@Linearized SetSpec o (ins_res o)))) ->
  (forall n, Q (false, n) (mkLV (lv_facts lv) (Some (n, kk, 0%nat)) (lv_st lv))) ->
  safe t (link_node own kk p) lv Q.
Proof.
  intros (Hpp & Hkl & Hcur) Hst Hop Hown HQ1 HQ0. unfold link_node.
  assert (Hcas : forall n lv1, lv_facts lv1 = lv_facts lv -> lv_own lv1 = Some (n, kk, pcur p) -> lv_st lv1 = lv_st lv ->
     safe t (Act (a_cas (pprev p) (pcur p) n false)
               (fun r => if vmark r then Ret (true, n) else Act (a_st_next n 0) (fun _ => Ret (false, n)))) lv1 Q).
  { intros n lv1 E1 E2 E3. eapply safe_cas_link with (kk := kk) (o := o); rewrite ?E1; eauto; [congruence|..].
    - cbn [vmark vok Conc.safe]. apply HQ1.
    - cbn [vmark vok]. eapply safe_st_next; [exact E2|]. intros v Hv. cbn [Conc.safe lv_facts lv_st].
      rewrite E1, E3. apply HQ0. }
  destruct Hown as [->|(n & nx & -> & Hn)].
  - apply safe_alloc_st. intros n. cbn [vptr]. apply Hcas; reflexivity.
  - eapply safe_st_next; [exact Hn|]. intros v Hv. rewrite Hv. apply Hcas; reflexivity.
Qed.

Lemma safe_unlink_node t p kk lv (Q : bool -> lview -> Prop) :
  pos_ok (lv_facts lv) kk true p -> lv_st lv = @Pending SetSpec (SErase kk) ->
  Q true (mkLV (FFrozen (pcur p) (pnext p) :: lv_facts lv) (lv_own lv) (@Linearized SetSpec (SErase kk) (RBool true))) ->
  Q false lv ->
  safe t (unlink_node t p) lv Q.
Proof.
  intros (Hpp & Hkl & Hcur) Hst HQ1 HQ0. unfold unlink_node, LNext.
  eapply safe_cas_mark; [exact Hcur|exact Hst|..].
  - cbn [vmark vok]. apply safe_cas_unlink.
    + cbn [lv_facts]. eapply ppub_incl; [|exact Hpp]. apply incl_tl. apply incl_refl.
    + cbn [lv_facts]. left. reflexivity.
    + cbn [vmark vok]. apply Conc.safe_bind. apply safe_retire. exact HQ1.
    + cbn [vmark vok Conc.safe]. exact HQ1.
  - cbn [vmark vok Conc.safe]. exact HQ0.
Qed.

Lemma fn_not_inv_ret : String.eqb "fn" "inv" = false /\ String.eqb "fn" "ret" = false.
Proof. split; reflexivity. Qed.

(** ** the operation loops *)
Lemma safe_insert_loop fuel : forall sf ic withf t g0 g1 g2 kk fr own lv o
    (Q : out (bool * option nat) -> lview -> Prop),
  lv_st lv = @Pending SetSpec o -> ins_op o kk ->
  (own = None \/ exists n nx, own = Some n /\ lv_own lv = Some (n, kk, nx)) ->
  (forall lv', Q None lv') ->
  (forall F' own', Q (Some (false, None)) (mkLV F' own' (@Pending SetSpec o))) ->
  (forall F' n, Q (Some (true, Some n)) (mkLV F' None (@Linearized SetSpec o (ins_res o)))) ->
  safe t (insert_loop fuel sf ic withf t g0 g1 g2 kk fr own) lv Q.
Proof.
  induction fuel as [|f IH]; intros sf ic withf t g0 g1 g2 kk fr own lv o Q Hst Hop Hown HN HF HT; cbn [insert_loop].
  - cbn [Conc.safe]. apply HN.
  - apply Conc.safe_bind. apply safe_search; [exact I|..].
    + intros F' _. cbn [Conc.safe]. apply HN.
    + intros F' found p HF' Hp. destruct found.
      * cbn [Conc.safe]. unfold lv_with. rewrite Hst. apply HF.
      * assert (Hown' : own = None \/ exists n nx, own = Some n /\ lv_own (lv_with lv F') = Some (n, kk, nx)) by exact Hown.
        destruct withf.
        -- destruct (alloc1 fr) as [g fr']. apply Conc.safe_bind. apply safe_assign_guard.
           apply Conc.safe_bind. eapply safe_link_node; [exact Hp|exact Hst|exact Hop|exact Hown'|..].
           ++ intros n. cbn [fst snd]. apply safe_emit_other; [reflexivity|reflexivity|].
              apply Conc.safe_bind. apply safe_cnt_inc. apply Conc.safe_bind. apply safe_clear_guard.
              cbn [Conc.safe]. apply HT.
           ++ intros n. cbn [fst snd]. apply Conc.safe_bind. apply safe_clear_guard.
              apply IH with (o := o); auto; try (cbn; exact Hst); try (right; exists n, 0%nat; split; reflexivity).
        -- apply Conc.safe_bind. eapply safe_link_node; [exact Hp|exact Hst|exact Hop|exact Hown'|..].
           ++ intros n. cbn [fst snd]. apply Conc.safe_bind. apply safe_cnt_inc. cbn [Conc.safe]. apply HT.
           ++ intros n. cbn [fst snd]. apply IH with (o := o); auto; try (cbn; exact Hst); try (right; exists n, 0%nat; split; reflexivity).
Qed.

Lemma safe_update_loop fuel : forall sf ic allow t g0 g1 g2 kk fr own lv
    (Q : out (bool * bool * option nat) -> lview -> Prop),
  lv_st lv = @Pending SetSpec (SUpdate kk allow) ->
  (own = None \/ exists n nx, own = Some n /\ lv_own lv = Some (n, kk, nx)) ->
  (forall lv', Q None lv') ->
  (forall F' own' a, Q (Some (a, false, None)) (mkLV F' own' (@Pending SetSpec (SUpdate kk allow)))) ->
  (forall F' n, Q (Some (true, true, Some n)) (mkLV F' None (@Linearized SetSpec (SUpdate kk allow) (RPair true true)))) ->
  safe t (update_loop fuel sf ic allow t g0 g1 g2 kk fr own) lv Q.
Proof.
  induction fuel as [|f IH]; intros sf ic allow t g0 g1 g2 kk fr own lv Q Hst Hown HN HF HT; cbn [update_loop].
  - cbn [Conc.safe]. apply HN.
  - apply Conc.safe_bind. apply safe_search; [exact I|..].
    + intros F' _. cbn [Conc.safe]. apply HN.
    + intros F' found p HF' Hp.
      assert (Hown' : own = None \/ exists n nx, own = Some n /\ lv_own (lv_with lv F') = Some (n, kk, nx)) by exact Hown.
      destruct found.
      * destruct Hp as (Hpp & Hkl & Hcur). unfold LNext. apply safe_ld; [right; eexists; exact Hcur|]. intros v.
        destruct (vmark v).
        -- apply IH; auto.
        -- apply safe_emit_other; [reflexivity|reflexivity|]. cbn [Conc.safe]. unfold lv_with. cbn [lv_own lv_st]. rewrite Hst. apply HF.
      * destruct allow; cbn [negb].
        -- destruct (alloc1 fr) as [g fr']. apply Conc.safe_bind. apply safe_assign_guard.
           apply Conc.safe_bind. eapply safe_link_node with (o := SUpdate kk true); [exact Hp|exact Hst|right; reflexivity|exact Hown'|..].
           ++ intros n. cbn [fst snd]. apply Conc.safe_bind. apply safe_cnt_inc.
              apply safe_emit_other; [reflexivity|reflexivity|].
              apply Conc.safe_bind. apply safe_clear_guard. cbn [Conc.safe]. apply HT.
           ++ intros n. cbn [fst snd]. apply Conc.safe_bind. apply safe_clear_guard.
              apply IH; auto; try (cbn; exact Hst); try (right; exists n, 0%nat; split; reflexivity).
        -- cbn [Conc.safe]. unfold lv_with. rewrite Hst. apply HF.
Qed.

Lemma safe_erase_loop fuel : forall sf ic code mine t g0 g1 g2 kk lv (Q : out bool -> lview -> Prop),
  lv_st lv = @Pending SetSpec (SErase kk) ->
  (forall lv', Q None lv') ->
  (forall F' own', Q (Some false) (mkLV F' own' (@Pending SetSpec (SErase kk)))) ->
  (forall F' own', Q (Some true) (mkLV F' own' (@Linearized SetSpec (SErase kk) (RBool true)))) ->
  safe t (erase_loop fuel sf ic code mine t g0 g1 g2 kk) lv Q.
Proof.
  induction fuel as [|f IH]; intros sf ic code mine t g0 g1 g2 kk lv Q Hst HN HF HT; cbn [erase_loop].
  - cbn [Conc.safe]. apply HN.
  - apply Conc.safe_bind. apply safe_search; [exact I|..].
    + intros F' _. cbn [Conc.safe]. apply HN.
    + intros F' found p HF' Hp. destruct found.
      * destruct (Z.eqb code 6 && negb (Nat.eqb (pcur p) mine)).
        -- cbn [Conc.safe]. unfold lv_with. rewrite Hst. apply HF.
        -- apply Conc.safe_bind. eapply safe_unlink_node; [exact Hp|exact Hst|..].
           ++ destruct (Z.eqb code 5).
              ** apply safe_emit_other; [reflexivity|reflexivity|]. apply Conc.safe_bind. apply safe_cnt_dec. cbn [Conc.safe]. apply HT.
              ** apply Conc.safe_bind. apply safe_cnt_dec. cbn [Conc.safe]. apply HT.
           ++ apply IH; auto.
      * cbn [Conc.safe]. unfold lv_with. rewrite Hst. apply HF.
Qed.

(** ** one client operation *)
Lemma of_nothing : String.eqb "outoffuel" "inv" = false /\ String.eqb "outoffuel" "ret" = false.
Proof. split; reflexivity. Qed.

Lemma safe_give_up t lv (Q : out lstate -> lview -> Prop) :
  (forall lv', Q None lv') -> safe t give_up lv Q.
Proof. intros H. unfold give_up. apply safe_emit_other; [reflexivity|reflexivity|]. cbn [Conc.safe]. apply H. Qed.

Lemma safe_run_op fuel sf ic t o ls lv (Q : out lstate -> lview -> Prop) :
  lv_st lv = @Idle SetSpec ->
  (forall lv', Q None lv') ->
  (forall ls' F' own', Q (Some ls') (mkLV F' own' (@Idle SetSpec))) ->
  safe t (run_op fuel sf ic t o ls) lv Q.
Proof.
  intros Hi HN HS. unfold run_op, ev_inv.
  set (code := nth 0 o 0). set (k := nth 1 o 0). set (x := nth 2 o 0). set (v3 := nth 3 o 0).
  clearbody code k x v3. clear o.
  destruct ls as [fr own]. destruct (alloc3 fr) as [[[g0 g1] g2] fr1].
  destruct (Z.leb 1 code && Z.leb code 10) eqn:Hrange.
  2: { cbn [Conc.safe]. destruct lv as [F ow st]; cbn in Hi; subst st. apply HS. }
  apply safe_emit_inv; [exact Hi|].
  set (lv1 := mkLV (lv_facts lv) (lv_own lv) (@Pending SetSpec (spec_op code k x))).
  destruct (Z.eqb code 1 || Z.eqb code 2) eqn:E12.
  { (* insert *)
    assert (Eop : spec_op code k x = SInsert k) by (unfold spec_op; rewrite E12; reflexivity).
    apply Conc.safe_bind. apply safe_insert_loop with (o := SInsert k); [cbn; rewrite Eop; reflexivity|left; reflexivity|left; reflexivity|..].
    - intros lv'. apply safe_give_up. exact HN.
    - intros F' own'. apply Conc.safe_bind. apply safe_free_guards. intros fr2.
      eapply safe_emit_ret_read; [reflexivity|reflexivity|]. cbn [Conc.safe]. apply HS.
    - intros F' n. apply Conc.safe_bind. apply safe_free_guards. intros fr2.
      eapply safe_emit_ret_lin; [reflexivity|reflexivity|reflexivity|]. cbn [Conc.safe]. apply HS. }
  destruct (Z.eqb code 3) eqn:E3.
  { (* update *)
    assert (Eop : spec_op code k x = SUpdate k (Z.odd x)) by (unfold spec_op; rewrite E12, E3; reflexivity).
    apply Conc.safe_bind. apply safe_update_loop; [cbn; rewrite Eop; reflexivity|left; reflexivity|..].
    - intros lv'. apply safe_give_up. exact HN.
    - intros F' own' a. apply Conc.safe_bind. apply safe_free_guards. intros fr2.
      eapply safe_emit_ret_read; [reflexivity|destruct a; reflexivity|]. cbn [Conc.safe]. apply HS.
    - intros F' n. apply Conc.safe_bind. apply safe_free_guards. intros fr2.
      eapply safe_emit_ret_lin; [reflexivity|reflexivity|reflexivity|]. cbn [Conc.safe]. apply HS. }
  destruct (Z.eqb code 4 || Z.eqb code 5 || Z.eqb code 6) eqn:E456.
  { (* erase, erase with functor, unlink *)
    assert (Eop : spec_op code k x = SErase k).
    { unfold spec_op. rewrite E12, E3. replace (Z.leb 4 code && Z.leb code 7) with true; [reflexivity|].
      symmetry. apply andb_true_iff. rewrite !orb_true_iff, !Z.eqb_eq in E456. rewrite !Z.leb_le. lia. }
    apply Conc.safe_bind. apply safe_erase_loop; [cbn; rewrite Eop; reflexivity|..].
    - intros lv'. apply safe_give_up. exact HN.
    - intros F' own'. apply Conc.safe_bind. apply safe_free_guards. intros fr2.
      eapply safe_emit_ret_read; [reflexivity|reflexivity|]. cbn [Conc.safe]. apply HS.
    - intros F' own'. apply Conc.safe_bind. apply safe_free_guards. intros fr2.
      eapply safe_emit_ret_lin; [reflexivity|reflexivity|reflexivity|]. cbn [Conc.safe]. apply HS. }
  destruct (Z.eqb code 7) eqn:E7.
  { (* extract *)
    assert (Eop : spec_op code k x = SErase k).
    { unfold spec_op. rewrite E12, E3. apply Z.eqb_eq in E7. subst code. reflexivity. }
    apply Conc.safe_bind. apply safe_erase_loop; [cbn; rewrite Eop; reflexivity|..].
    - intros lv'. apply safe_give_up. exact HN.
    - intros F' own'. apply Conc.safe_bind. apply safe_free_guards. intros fr2.
      eapply safe_emit_ret_read; [reflexivity|reflexivity|]. cbn [Conc.safe]. apply HS.
    - intros F' own'. apply Conc.safe_bind. apply safe_free_guards. intros fr2.
      apply Conc.safe_bind. apply safe_use_guarded. apply Conc.safe_bind. apply safe_free_guards. intros fr3.
      eapply safe_emit_ret_lin; [reflexivity|reflexivity|reflexivity|]. cbn [Conc.safe]. apply HS. }
  (* get, contains, find with functor *)
  assert (Eop : spec_op code k x = SContains k).
  { unfold spec_op. rewrite E12, E3. replace (Z.leb 4 code && Z.leb code 7) with false; [reflexivity|].
    symmetry. apply andb_false_iff.
    rewrite !orb_false_iff, !Z.eqb_neq in E456. rewrite Z.eqb_neq in E7.
    destruct (Z.leb_spec 4 code); [right|left; reflexivity]. apply Z.leb_gt. lia. }
  apply Conc.safe_bind. apply safe_search; [exact I|..].
  - intros F' _. apply safe_give_up. exact HN.
  - intros F' found p _ _.
    assert (Hst : lv_st (lv_with lv1 F') = @Pending SetSpec (SContains k)) by (cbn; rewrite Eop; reflexivity).
    destruct (Z.eqb code 8 && found).
    + apply Conc.safe_bind. apply safe_free_guards. intros fr2.
      apply Conc.safe_bind. apply safe_use_guarded. apply Conc.safe_bind. apply safe_free_guards. intros fr3.
      eapply safe_emit_ret_read; [exact Hst|reflexivity|]. cbn [Conc.safe]. apply HS.
    + destruct (Z.eqb code 10 && found).
      * apply safe_emit_other; [reflexivity|reflexivity|].
        apply Conc.safe_bind. apply safe_free_guards. intros fr2.
        eapply safe_emit_ret_read; [exact Hst|reflexivity|]. cbn [Conc.safe]. apply HS.
      * apply Conc.safe_bind. apply safe_free_guards. intros fr2.
        eapply safe_emit_ret_read; [exact Hst|reflexivity|]. cbn [Conc.safe]. apply HS.
Qed.

Lemma safe_run_ops fuel sf ic t os : forall ls lv,
  lv_st lv = @Idle SetSpec -> safe t (run_ops fuel sf ic t os ls) lv (fun _ _ => True).
Proof.
  induction os as [|o os IH]; intros ls lv Hi; cbn [run_ops]; [exact I|].
  apply Conc.safe_bind. apply safe_run_op; [exact Hi|..].
  - intros lv'. exact I.
  - intros ls' F' own'. apply IH. reflexivity.
Qed.

Lemma neutral_begin : neutral a_begin v0.
Proof. intros g. exists g, KBegin, []. auto. Qed.

Lemma safe_thread fuel sf ic t os lv :
  lv_st lv = @Idle SetSpec -> safe t (thread_prog fuel sf ic t os) lv (@Conc.QTrue lview).
Proof.
  intros Hi. unfold thread_prog. apply safe_neutral with (v := v0); [apply neutral_begin|].
  eapply Conc.safe_weaken; [|apply safe_run_ops; exact Hi]. intros; exact I.
Qed.

(** ** the initial configuration *)
Definition aux0 : aux := mkAux (fun _ => false) (fun _ => mkLV [] None (@Idle SetSpec)) [].

Lemma Inv_init : Inv init aux0 [].
Proof.
  exists []. split.
  - constructor; cbn; try discriminate; auto.
    split; cbn; auto.
  - constructor; cbn.
    + exists [], (fun _ => @Idle SetSpec). repeat split; auto.
      * intros H. discriminate.
      * intros (n & [] & _).
    + reflexivity.
Qed.

Lemma thread_progs_nth fuel sf ic : forall ths s t p,
  nth_error (thread_progs fuel sf ic s ths) t = Some p ->
  exists os, p = thread_prog fuel sf ic (s + t) os.
Proof.
  induction ths as [|os ths IH]; intros s t p H; cbn [thread_progs] in H.
  - destruct t; discriminate.
  - destruct t as [|t]; cbn [nth_error] in H.
    + inversion H; subst. exists os. f_equal. lia.
    + destruct (IH (S s) t p H) as [os' E]. exists os'. rewrite E. f_equal. lia.
Qed.

Lemma init_ok fuel sf ic ths : Conc.cfg_ok view Inv (init_cfg fuel sf ic ths).
Proof.
  exists aux0. split; [exact Inv_init|].
  intros t p Hp. cbn [init_cfg Conc.threads] in Hp.
  destruct (thread_progs_nth _ _ _ _ _ _ _ Hp) as [os ->]. cbn [Nat.add].
  apply safe_thread. reflexivity.
Qed.

(** ** consequences, for every reachable configuration *)
Fixpoint zsorted (l : list Z) : Prop :=
  match l with
  | [] => True
  | x :: r => match r with [] => True | y :: _ => x < y end /\ zsorted r
  end.

Lemma osorted_some l : osorted (map Some l) <-> zsorted l.
Proof.
  induction l as [|x l IH]; cbn [map osorted zsorted]; [tauto|].
  rewrite IH. destruct l; cbn [map]; tauto.
Qed.

Lemma zsorted_lt_all x r : zsorted (x :: r) -> forall y, In y r -> x < y.
Proof.
  revert x. induction r as [|z r IH]; intros x H y Hy; [destruct Hy|].
  destruct H as [H1 H2]. destruct Hy as [->|Hy]; [exact H1|]. specialize (IH z H2 y Hy). lia.
Qed.

Lemma zsorted_filter (p : Z -> bool) l : zsorted l -> zsorted (filter p l).
Proof.
  induction l as [|x l IH]; intros H; cbn [filter]; [exact I|].
  pose proof (zsorted_lt_all _ _ H) as Hall. destruct H as [_ H2]. specialize (IH H2).
  destruct (p x); [|exact IH]. cbn [zsorted]. split; [|exact IH].
  destruct (filter p l) as [|y r] eqn:E; [exact I|].
  apply Hall. assert (In y (filter p l)) by (rewrite E; left; reflexivity). apply filter_In in H. tauto.
Qed.

(** the nodes reachable from m_pHead, marked or not *)
Definition list_nodes (g : G) (L : list nat) : Prop := linked g 0 L 0 /\ forall n, In n L -> n <> 0%nat.

Definition keys_of (g : G) (L : list nat) : list Z := map (fun n => nkey (heap g n)) L.
Definition unmarked (g : G) (L : list nat) : list nat := filter (fun n => negb (nmark (heap g n))) L.

Lemma chain_keys_sorted g L : chain_ok g L -> zsorted (keys_of g L) /\ forall n, In n L -> n <> 0%nat.
Proof.
  intros [Hl Hs]. pose proof (sorted_nonzero _ _ Hs) as Hnz. split; [|exact Hnz].
  apply osorted_tail in Hs. apply osorted_some. unfold keys_of. rewrite map_map.
  erewrite map_ext_in; [exact Hs|]. intros n Hn. cbn. unfold okey.
  destruct (Nat.eqb_spec n 0); [exfalso; eapply Hnz; eauto|reflexivity].
Qed.

Lemma zsorted_sub g L : zsorted (keys_of g L) -> zsorted (keys_of g (unmarked g L)).
Proof.
  unfold keys_of, unmarked. induction L as [|x L IH]; cbn [map filter]; intros H; [exact I|].
  pose proof (zsorted_lt_all _ _ H) as Hall. destruct H as [_ H2]. specialize (IH H2).
  destruct (negb (nmark (heap g x))); [|exact IH]. cbn [map zsorted]. split; [|exact IH].
  destruct (filter _ L) as [|y r] eqn:E; [exact I|]. cbn [map].
  apply Hall. apply (in_map (fun n => nkey (heap g n))). assert (In y (filter (fun n => negb (nmark (heap g n))) L)) by (rewrite E; left; reflexivity).
  apply filter_In in H. tauto.
Qed.

Theorem mlist_sorted_nodup fuel sf ic ths c :
  Conc.reach (init_cfg fuel sf ic ths) c ->
  exists L, list_nodes (Conc.shared c) L /\
            zsorted (keys_of (Conc.shared c) L) /\
            zsorted (keys_of (Conc.shared c) (unmarked (Conc.shared c) L)).
Proof.
  intros Hr. destruct (Conc.reach_Inv (init_ok fuel sf ic ths) Hr) as (a & L & HS & _).
  destruct (chain_keys_sorted _ _ (is_chain _ _ _ HS)) as [H1 H2].
  exists L. split; [split; [apply (is_chain _ _ _ HS)|exact H2]|]. split; [exact H1|]. apply zsorted_sub. exact H1.
Qed.

Theorem mlist_updates_linearizable_partial fuel sf ic ths c :
  Conc.reach (init_cfg fuel sf ic ths) c ->
  exists atr, lp_valid SetSpec atr /\ erase atr = upd_hist (Conc.trace c).
Proof.
  intros Hr. destruct (Conc.reach_Inv (init_ok fuel sf ic ths) Hr) as (a & L & _ & [(S & st & H1 & _) H2]).
  exists (a_atr a). split; [exists (S, st); exact H1|exact H2].
Qed.

Corollary mlist_updates_linearizable_partial' fuel sf ic ths c :
  Conc.reach (init_cfg fuel sf ic ths) c -> linearizable SetSpec (upd_hist (Conc.trace c)).
Proof.
  intros Hr. destruct (mlist_updates_linearizable_partial _ _ _ _ _ Hr) as (atr & Hv & <-).
  apply lp_valid_linearizable. exact Hv.
Qed.

(** ** the full history (reads included), for the statement that is NOT proved here.
    Every completed operation is kept with its result, except an [unlink] that returned false: unlink( val ) fails
    both when the key is absent and when the list holds a different item with that key, which is not an
    operation of the sequential set (the harness records it as "skip" as well); its invocation is deleted. *)
Fixpoint code_of (t : nat) (pend : list (nat * Z)) : Z :=
  match pend with
  | [] => 0
  | (u, c) :: r => if Nat.eqb u t then c else code_of t r
  end.

Definition fstep (s : hist * list (nat * Z)) (te : nat * ev) : hist * list (nat * Z) :=
  let (out, pend) := s in
  match te with
  | (t, EvCli name args) =>
      if String.eqb name "inv" then
        match args with
        | [c; k; x; _] => (out ++ [@HInv SetSpec t (spec_op c k x)], (t, c) :: pend)
        | _ => s
        end
      else if String.eqb name "ret" then
        match args, last_inv_op t out None with
        | [a; b], Some o =>
            if Z.eqb (code_of t pend) 6 && Z.eqb a 0 then (rm_last (is_hinv t) out, pend)
            else (out ++ [@HRes SetSpec t (res_of o a b)], pend)
        | _, _ => s
        end
      else s
  | (_, EvAcc _ _ _) => s
  end.
Definition full_hist (tr : list (nat * ev)) : hist := fst (fold_left fstep tr ([], [])).

(** executable traversal of the real list (for examples): node ids from pointer [p] *)
Fixpoint walk (g : G) (fuel : nat) (p : nat) : list nat :=
  match fuel with
  | O => []
  | S f => if Nat.eqb p 0 then [] else p :: walk g f (nnext (heap g p))
  end.
