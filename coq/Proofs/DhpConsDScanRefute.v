(** * DhpConsDScanRefute: [dhp_scan_frees_unguarded_statement] (LV.Proofs.DhpProofsC03), read literally, is FALSE of the model.

    The statement says: a complete scan "_scanb r" .. "_scane r" of thread t disposes every object that t has handed to
    retire() before, that is not yet disposed, and that no hazard cell holds at any moment of the scan.  It forgets that
    the retired array belongs to the thread RECORD, not to the thread: an object retired by t while it was attached to
    record r0 stays in r0 when t detaches (if a guard held it at that time), and when t attaches again
    smr::alloc_thread_data gives it the FIRST unowned record of thread_list_, which need not be r0.

    Witness (three threads, round-robin schedule, phases ordered by the client atomic 0):
      thread 0 attaches (record 0); thread 1 attaches (record 1) and guards object 5; thread 2 attaches (record 2) and
      detaches (record 2: unowned, no retired array, first on thread_list_);
      thread 0 retires 5 and detaches: both scans of the detach keep 5 (guarded), record 0 is left with 5 in its array;
      thread 0 attaches again: it gets record 2;   thread 1 clears its guard;
      thread 0 scans (record 2): nothing is freed.  During that scan no hazard cell holds 5, 5 was retired by thread 0
      only and never disposed.
    This is a defect of the STATEMENT (the objects a scan is responsible for are those in the retired array of the
    scanned record), not of the C++ code: 5 is freed by the next help_scan that adopts record 0, or by ~smr
    ([dhp_destroy_disposes_all_detached]).  Corrected statement: [dhp_scan_frees_unguarded_att_statement] below. *)
From Coq Require Import ZArith NArith List String Bool Lia PeanoNat.
From LV Require Import Base.Conc Base.Events Model.DhpLang Model.Dhp Proofs.DhpBase Proofs.DhpSeq Proofs.DhpSeqThm Proofs.DhpHist
  Proofs.DhpProofsC03.
Import ListNotations.
Local Open Scope Z_scope.

(** ** the ghost slot values of a history, as an association list *)
Definition slots_of (tr : list (nat * ev)) : list (gref * nat) :=
  flat_map (fun e => match classify (snd e) with HSlot s v => [(s, v)] | _ => [] end) tr.

Fixpoint lk (l : list (gref * nat)) (s : gref) : nat :=
  match l with
  | [] => 0%nat
  | (s', v) :: r => if gref_eqb s s' then v else lk r s
  end.

Lemma slotv_hist tr : forall s, slotv (hist tr) s = lk (rev (slots_of tr)) s.
Proof.
  induction tr as [|e tr IH] using rev_ind; intros s; [reflexivity|].
  rewrite hist_snoc. unfold slots_of. rewrite flat_map_app. cbn [flat_map]. rewrite app_nil_r, rev_app_distr.
  fold (slots_of tr). unfold hstep.
  destruct (classify (snd e)) eqn:Ec; cbn [slotv rev app lk]; try apply IH.
  - unfold fupd. destruct (gref_eqb s s0); [reflexivity|apply IH].
  - destruct (existsb (Nat.eqb b) (freeh (hist tr) f)); cbn [slotv]; apply IH.
Qed.

Lemma lk_in : forall l s, lk l s = 0%nat \/ exists sv, In sv l /\ fst sv = s.
Proof.
  induction l as [|[s' v] l IH]; intros s; cbn [lk]; [now left|].
  destruct (gref_eqb s s') eqn:E.
  - right. exists (s', v). split; [now left|]. apply gref_eqb_eq in E. now subst.
  - destruct (IH s) as [H|(sv & H1 & H2)]; [now left|right]. exists sv. split; [now right|exact H2].
Qed.

Definition no_holder (p : nat) (tr : list (nat * ev)) : bool :=
  let l := rev (slots_of tr) in forallb (fun sv => negb (Nat.eqb (lk l (fst sv)) p)) l.

Lemma no_holder_ok p tr : p <> 0%nat -> no_holder p tr = true -> forall s, slotv (hist tr) s <> p.
Proof.
  intros Hp H s. rewrite slotv_hist. unfold no_holder in H. rewrite forallb_forall in H.
  destruct (lk_in (rev (slots_of tr)) s) as [E|(sv & H1 & H2)]; [rewrite E; intros K; apply Hp; now symmetry|].
  specialize (H sv H1). rewrite H2 in H. apply negb_true_iff in H. now apply Nat.eqb_neq in H.
Qed.

(** ** the witness *)
Definition wc : cfg := mkCfg 4 2 4 false 200 1 false.
Definition wths : list (list op) := map decode_ops
  [[[1]; [8;0;1]; [15;0;4]; [9;5]; [2]; [1]; [8;0;5]; [15;0;6]; [10]];
   [[15;0;1]; [1]; [3;0]; [5;0;5]; [8;0;2]; [15;0;5]; [6;0]; [8;0;6]];
   [[15;0;2]; [1]; [2]; [8;0;4]]].
Definition wconf := fst (Conc.run 5000 0 [] (init_cfg 5000 wc wths)).
Definition wtr := Conc.trace wconf.
Definition wtr1 := firstn 425 wtr.
Definition wtr2 := firstn 14 (skipn 426 wtr).
Definition wtr3 := skipn 441 wtr.

Theorem dhp_scan_frees_unguarded_statement_refuted : ~ dhp_scan_frees_unguarded_statement.
Proof.
  intros H.
  assert (H4 : (4 <= c_RB wc)%nat) by (vm_compute; lia).
  specialize (H 5000%nat wc wths wconf H4 eq_refl eq_refl (Conc.run_reach _ _ _ _) wtr1 wtr2 wtr3 0%nat 2%nat).
  assert (Etr : Conc.trace wconf = (wtr1 ++ (0%nat, ev_scanb 2) :: wtr2 ++ (0%nat, ev_scane 2) :: wtr3)%list) by (vm_compute; reflexivity).
  specialize (H Etr). clear Etr.
  assert (Hsb : forall e, In e wtr2 -> fst e = 0%nat -> snd e <> ev_scanb 2).
  { assert (E : forallb (fun e => match classify (snd e) with HScanb _ => false | _ => true end) wtr2 = true) by (vm_compute; reflexivity).
    rewrite forallb_forall in E. intros e He _ K. specialize (E e He). rewrite K, classify_scanb in E. discriminate E. }
  specialize (H Hsb 5%nat ltac:(intros K; discriminate K)). clear Hsb.
  assert (Hret : In 5%nat (flat_map (fun e => if Nat.eqb (fst e) 0 then retired_ev (snd e) else []) wtr1)).
  { assert (E : flat_map (fun e => if Nat.eqb (fst e) 0 then retired_ev (snd e) else []) wtr1 = [5%nat]) by (vm_compute; reflexivity).
    rewrite E. left. reflexivity. }
  assert (Hnd : ~ In 5%nat (disposed_of wtr1)).
  { assert (E : disposed_of wtr1 = []) by (vm_compute; reflexivity). rewrite E. intros K. destruct K. }
  specialize (H Hret Hnd). clear Hret Hnd.
  assert (Hsl : forall k, (k <= List.length wtr2)%nat -> forall s, slotv (hist (wtr1 ++ (0%nat, ev_scanb 2) :: firstn k wtr2)) s <> 5%nat).
  { assert (El : List.length wtr2 = 14%nat) by (vm_compute; reflexivity). rewrite El.
    assert (E : forallb (fun k => no_holder 5 (wtr1 ++ (0%nat, ev_scanb 2) :: firstn k wtr2)) (seq 0 15) = true) by (vm_compute; reflexivity).
    rewrite forallb_forall in E. intros k Hk. apply no_holder_ok; [intros K; discriminate K|]. apply E. apply in_seq. lia. }
  specialize (H Hsl). clear Hsl.
  destruct H as [K|(t' & Nt & K)].
  - assert (E : disposed_of wtr2 = []) by (vm_compute; reflexivity). rewrite E in K. destruct K.
  - assert (E : forallb (fun e => if existsb (Nat.eqb 5) (retired_ev (snd e)) then Nat.eqb (fst e) 0 else true) wtr1 = true) by (vm_compute; reflexivity).
    rewrite forallb_forall in E. destruct (proj1 (in_flat_map _ _ _) K) as (e & He & K2). clear K. rename K2 into K. specialize (E e He).
    destruct (Nat.eqb_spec (fst e) t') as [Et|]; [|destruct K].
    assert (X : existsb (Nat.eqb 5) (retired_ev (snd e)) = true) by (apply existsb_exists; exists 5%nat; split; [exact K|reflexivity]).
    rewrite X in E. apply Nat.eqb_eq in E. apply Nt. rewrite <- Et. exact E.
Qed.

(** ** the corrected statement (NOT proved): the objects a scan of record r by thread t is responsible for are those
       that t handed to retire() since it was attached to r for the last time (no detach in between: the "_att r"
       event is the last attach event of t before the scan); objects retired once, no retired cell out of bounds *)
Definition dhp_scan_frees_unguarded_att_statement : Prop := forall fuel c ths conf,
  (4 <= c_RB c)%nat -> c_old c = false -> c_oldtail c = false ->
  (Z.of_nat (List.length ths) + 3 < 2147483648) ->
  Conc.reach (init_cfg fuel c ths) conf ->
  NoDup (flat_map (fun e => retired_ev (snd e)) (Conc.trace conf)) -> oob (Conc.shared conf) = false ->
  forall tr0 tr1 tr2 tr3 t r,
    Conc.trace conf = (tr0 ++ (t, ev_att r) :: tr1 ++ (t, ev_scanb r) :: tr2 ++ (t, ev_scane r) :: tr3)%list ->
  (forall e, In e tr1 -> fst e = t -> forall r', snd e <> ev_att r') ->
  (forall e, In e tr2 -> fst e = t -> snd e <> ev_scanb r) ->
  forall p, p <> 0%nat ->
  In p (flat_map (fun e => if Nat.eqb (fst e) t then retired_ev (snd e) else []) tr1) ->
  ~ In p (disposed_of (tr0 ++ (t, ev_att r) :: tr1)) ->
  (forall k, (k <= List.length tr2)%nat -> forall s, slotv (hist (tr0 ++ (t, ev_att r) :: tr1 ++ (t, ev_scanb r) :: firstn k tr2)) s <> p) ->
  In p (disposed_of tr2).
