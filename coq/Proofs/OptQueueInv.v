(** * Invariant of the OptimisticQueue model and its preservation by every kind of step.

    All linked nodes form the list [LL = done ++ head :: rest] in enqueue order; [tail] is its last
    element; the [next] pointers run backwards through it ([linked (nxt g) (rev LL)]: every node points to
    the node enqueued just before it, the first dummy to null); every non-null [prev] pointer points
    into [LL] (it may be stale - that is what fix_list repairs - but never dangling).  The [next] pointer of
    a linked node never changes, so "p is linked and p->next = h" is a stable fact, and by uniqueness of
    predecessors such a [p] is THE successor of [h]: the node the dequeue must take. *)
From Coq Require Import ZArith List String Bool Lia PeanoNat.
From LV Require Import Base.Conc Base.Events Base.Lin Spec.Specs Proofs.LinProofs Model.OptQueue Proofs.MSQueueBase.
Import ListNotations.
Local Open Scope list_scope.

(** ** lists *)
Lemma last_in_prefix {A} (pre r l' : list A) h :
  NoDup (pre ++ r) -> pre ++ r = l' ++ [h] -> In h pre -> r = [].
Proof.
  intros Hnd El Hin. destruct r as [|b r]; [reflexivity|exfalso].
  assert (Hlast : In h (b :: r)).
  { assert (Hr : rev (pre ++ b :: r) = rev (l' ++ [h])) by (now rewrite El).
    rewrite !rev_app_distr in Hr. cbn [rev app] in Hr.
    destruct (rev r ++ [b]) as [|z zs] eqn:Ez.
    - destruct (rev r); discriminate.
    - cbn in Hr. injection Hr as Hz _. subst z.
      apply in_rev. cbn [rev]. rewrite Ez. now left. }
  clear -Hnd Hin Hlast.
  induction pre as [|y l IH]; [destruct Hin|].
  cbn in Hnd. inversion Hnd as [|? ? Hy Hnd']; subst. destruct Hin as [->|Hin].
  - apply Hy. apply in_or_app. now right.
  - auto.
Qed.

Lemma split_unique {A} (a1 b1 a2 b2 : list A) x :
  NoDup (a1 ++ x :: b1) -> a1 ++ x :: b1 = a2 ++ x :: b2 -> a1 = a2 /\ b1 = b2.
Proof.
  revert a2. induction a1 as [|y a1 IH]; intros a2 Hnd E.
  - destruct a2 as [|z a2]; cbn in E.
    + injection E as ->. auto.
    + injection E as -> E. exfalso. cbn in Hnd. inversion Hnd as [|? ? Hx _]; subst.
      apply Hx. apply in_or_app. right. now left.
  - destruct a2 as [|z a2]; cbn in E.
    + injection E as -> E. exfalso. cbn in Hnd. inversion Hnd as [|? ? Hx _]; subst.
      apply Hx. apply in_or_app. right. now left.
    + injection E as -> E. cbn in Hnd. inversion Hnd as [|? ? _ Hnd']; subst.
      destruct (IH a2 Hnd' E) as [-> ->]. auto.
Qed.

(** in a duplicate-free list whose next pointers run backwards, a member that points to [h] is the
    element right after [h] *)
Lemma succ_unique nx (d r : list nat) h p :
  NoDup (d ++ h :: r) -> linked nx (rev (d ++ h :: r)) -> In p (d ++ h :: r) -> nx p = Some h ->
  exists r', r = p :: r'.
Proof.
  intros Hnd Hl Hin Hn.
  assert (Er : rev (d ++ h :: r) = rev r ++ h :: rev d).
  { rewrite rev_app_distr. cbn [rev]. now rewrite <- app_assoc. }
  apply in_rev in Hin. apply in_split in Hin. destruct Hin as (l1 & l2 & E).
  rewrite E in Hl. pose proof (linked_mid _ _ _ _ Hl) as Hm. rewrite Hn in Hm.
  destruct l2 as [|b l2]; [discriminate|]. injection Hm as <-.
  assert (E2 : (l1 ++ [p]) ++ h :: l2 = rev r ++ h :: rev d).
  { rewrite <- app_assoc. cbn. rewrite <- E. exact Er. }
  assert (Hnd2 : NoDup ((l1 ++ [p]) ++ h :: l2)).
  { rewrite <- app_assoc. cbn. rewrite <- E. apply NoDup_rev. exact Hnd. }
  destruct (split_unique _ _ _ _ _ Hnd2 E2) as [E3 _].
  exists (rev l1). rewrite <- (rev_involutive r), <- E3, rev_app_distr. reflexivity.
Qed.

(** ** auxiliary state *)
Record tview := mkTV {
  tv_st : status Fifo;
  tv_priv : option nat;           (* my allocated, not yet linked node ... *)
  tv_pnx : option nat;            (* ... and the value of its next pointer *)
  tv_hd : option nat;             (* a node I know to be head or a former head *)
  tv_kin : list nat;              (* nodes I know to be linked *)
  tv_pf : option (nat * nat);     (* (p, h): p is linked and p->next = h *)
  tv_cand : bool                  (* tentative LP "dequeue returned empty" *)
}.

Record Aux := mkAux { done : list nat; rest : list nat; views : nat -> tview }.
Definition view (a : Aux) (t : nat) : tview := views a t.
Definition updv (vs : nat -> tview) (t : nat) (v : tview) : nat -> tview :=
  fun x => if Nat.eqb x t then v else vs x.
Definition auxset (a : Aux) (d r : list nat) (t : nat) (v : tview) : Aux := mkAux d r (updv (views a) t v).
Definition LL (g : G) (a : Aux) : list nat := done a ++ head g :: rest a.

Definition tv_ok (g : G) (a : Aux) (v : tview) : Prop :=
  (forall n, tv_priv v = Some n ->
     (n < nalloc g)%nat /\ ~ In n (LL g a) /\ nxt g n = tv_pnx v /\ tv_st v = @Pending Fifo (Enq (val g n))) /\
  (forall h, tv_hd v = Some h -> In h (done a ++ [head g])) /\
  (forall m, In m (tv_kin v) -> In m (LL g a)) /\
  (forall p h, tv_pf v = Some (p, h) -> In p (LL g a) /\ nxt g p = Some h).

Record Inv (g : G) (a : Aux) (tr : list (nat * ev)) : Prop := mkInv {
  I_nodup : NoDup (LL g a);
  I_linked : linked (nxt g) (rev (LL g a));
  I_lt : forall n, In n (LL g a) -> (n < nalloc g)%nat;
  I_last : exists l', LL g a = l' ++ [tail g];
  I_prv : forall n x, prv g n = Some x -> In x (LL g a);
  I_views : forall t, tv_ok g a (views a t);
  I_privs : forall t t' n, t <> t' -> tv_priv (views a t) = Some n -> tv_priv (views a t') <> Some n;
  I_spec : SpecInv (map (val g) (rest a)) (fun t => tv_st (views a t)) (fun t => tv_cand (views a t)) (hist tr)
}.

Lemma updv_same vs t v : updv vs t v t = v.
Proof. unfold updv. now rewrite Nat.eqb_refl. Qed.
Lemma updv_other vs t v x : x <> t -> updv vs t v x = vs x.
Proof. unfold updv. intros H. destruct (Nat.eqb_spec x t); congruence. Qed.

Lemma spec_ext_r q stf cf h stf' cf' :
  SpecInv q stf cf h ->
  (forall t, stf' t = stf t) -> (forall t, cf' t = true -> cf t = true) ->
  SpecInv q stf' cf' h.
Proof. intros H H1 H2. eapply spec_ext; eauto. Qed.

Lemma in_done_LL g a h : In h (done a ++ [head g]) -> In h (LL g a).
Proof.
  unfold LL. intros H. apply in_app_or in H. apply in_or_app. destruct H as [H|[H|[]]]; [now left|].
  right. now left.
Qed.

Lemma tail_in_LL g a tr : Inv g a tr -> In (tail g) (LL g a).
Proof. intros HI. destruct (I_last _ _ _ HI) as (l' & ->). apply in_or_app. right. now left. Qed.

(** the views of the other threads survive a step that only grows what can be known *)
Lemma tv_ok_mono g a g' a' v :
  tv_ok g a v ->
  (forall n, tv_priv v = Some n -> (n < nalloc g)%nat -> ~ In n (LL g a) ->
     (n < nalloc g')%nat /\ ~ In n (LL g' a') /\ nxt g' n = nxt g n /\ val g' n = val g n) ->
  (forall m, In m (LL g a) -> In m (LL g' a')) ->
  (forall h, In h (done a ++ [head g]) -> In h (done a' ++ [head g'])) ->
  (forall p, In p (LL g a) -> nxt g' p = nxt g p) ->
  tv_ok g' a' v.
Proof.
  intros (P1 & P2 & P3 & P4) Hp Hl Hd Hn. split; [|split; [|split]].
  - intros n E. destruct (P1 n E) as (A & B & C & D). destruct (Hp n E A B) as (A' & B' & C' & D').
    repeat split; auto; congruence.
  - intros h E. auto.
  - intros m E. auto.
  - intros p h E. destruct (P4 p h E) as (A & B). split; auto. rewrite Hn; auto.
Qed.

Ltac others x t Hne :=
  destruct (Nat.eq_dec x t) as [->|Hne]; [rewrite updv_same|rewrite updv_other by exact Hne].

(** ** steps that do not touch the chain or the LP status *)
Lemma Inv_acc g a tr t k o b : Inv g a tr -> Inv g a (tr ++ Conc.tag t [EvAcc k o b]).
Proof.
  intros [H1 H2 H3 H4 H5 H6 H7 H8]. constructor; auto.
  rewrite hist_app, hist_acc, app_nil_r. exact H8.
Qed.

Lemma Inv_cli_other g a tr t name args :
  hev_of t (EvCli name args) = [] -> Inv g a tr -> Inv g a (tr ++ Conc.tag t [EvCli name args]).
Proof.
  intros He [H1 H2 H3 H4 H5 H6 H7 H8]. constructor; auto.
  rewrite hist_snoc, He, app_nil_r. exact H8.
Qed.

Lemma privs_upd (vs : nat -> tview) t v' :
  (forall x x' n, x <> x' -> tv_priv (vs x) = Some n -> tv_priv (vs x') <> Some n) ->
  (forall n, tv_priv v' = Some n -> forall x, x <> t -> tv_priv (vs x) <> Some n) ->
  forall x x' n, x <> x' -> tv_priv (updv vs t v' x) = Some n -> tv_priv (updv vs t v' x') <> Some n.
Proof.
  intros H Hv x x' n Hne. destruct (Nat.eq_dec x t) as [->|N1]; destruct (Nat.eq_dec x' t) as [->|N2];
    try congruence; rewrite ?updv_same, ?updv_other by assumption.
  - intros E. apply Hv; auto.
  - intros E E'. apply (Hv n E' x N1). exact E.
  - apply H. exact Hne.
Qed.

(** the thread replaces the facts it remembers *)
Lemma Inv_setv g a tr t v' :
  Inv g a tr ->
  tv_st v' = tv_st (views a t) -> tv_priv v' = tv_priv (views a t) -> tv_pnx v' = tv_pnx (views a t) ->
  tv_cand v' = tv_cand (views a t) ->
  (forall h, tv_hd v' = Some h -> In h (done a ++ [head g])) ->
  (forall m, In m (tv_kin v') -> In m (LL g a)) ->
  (forall p h, tv_pf v' = Some (p, h) -> In p (LL g a) /\ nxt g p = Some h) ->
  Inv g (auxset a (done a) (rest a) t v') tr.
Proof.
  intros [H1 H2 H3 H4 H5 H6 H7 H8] Es Ep Ex Ec Hh Hk Hf.
  constructor; auto; cbn [auxset views done rest].
  - intros x. others x t Hne; [|apply H6].
    destruct (H6 t) as (P1 & _). split; [|auto].
    intros n E. rewrite Ep in E. rewrite Es, Ex. apply (P1 n E).
  - apply privs_upd; [exact H7|]. intros n E x Hx. rewrite Ep in E. apply (H7 t x n); auto.
  - eapply spec_ext; [| |exact H8].
    + intros x. cbn. others x t Hne; [exact Es|reflexivity].
    + intros x. cbn. others x t Hne; [congruence|auto].
Qed.

Lemma Inv_cnt g a tr c : Inv g a tr -> Inv (set_cnt g c) a tr.
Proof. intros [H1 H2 H3 H4 H5 H6 H7 H8]. constructor; auto. Qed.

(** a prev pointer is (re)written with a linked node or null *)
Lemma Inv_st_prev g a tr n p :
  Inv g a tr -> (forall x, p = Some x -> In x (LL g a)) ->
  Inv (mkG (head g) (tail g) (nxt g) (upd (prv g) n p) (val g) (nalloc g) (cnt g)) a tr.
Proof.
  intros [H1 H2 H3 H4 H5 H6 H7 H8] Hp. constructor; auto.
  intros m x. cbn. unfold upd. destruct (Nat.eqb m n); [apply Hp|apply H5].
Qed.

(** ** invoke / response *)
Lemma Inv_event g a tr t (e : aev Fifo) name args s' :
  Inv g a tr ->
  tv_cand (views a t) = false -> tv_priv (views a t) = None ->
  (forall f : stmap, f t = tv_st (views a t) ->
     @lp_step Fifo (map (val g) (rest a), f) e = Some (map (val g) (rest a), Lin.upd f t s')) ->
  hev_of t (EvCli name args) = erase [e] ->
  Inv g (auxset a (done a) (rest a) t (mkTV s' None None None [] None false)) (tr ++ Conc.tag t [EvCli name args]).
Proof.
  intros [H1 H2 H3 H4 H5 H6 H7 H8] Hc Hp Hstep He.
  constructor; auto; cbn [auxset views done rest].
  - intros x. others x t Hne; [|apply H6]. repeat split; cbn; try (intros; discriminate). intros m [].
  - apply privs_upd; [exact H7|]. cbn. discriminate.
  - rewrite hist_snoc, He.
    eapply spec_ext_r; [eapply spec_event; [exact H8|exact Hc|exact Hstep]| |].
    + intros x. cbn. unfold Lin.upd. destruct (Nat.eqb_spec x t) as [->|Hne];
        [now rewrite updv_same|now rewrite updv_other].
    + intros x. cbn. others x t Hne; [discriminate|auto].
Qed.

(** ** node construction (first store) *)
Lemma Inv_alloc g a tr t v :
  Inv g a tr ->
  views a t = mkTV (@Pending Fifo (Enq v)) None None None [] None false ->
  Inv (fst (fst (a_alloc v g)))
      (auxset a (done a) (rest a) t (mkTV (@Pending Fifo (Enq v)) (Some (nalloc g)) None None [] None false)) tr.
Proof.
  intros [H1 H2 H3 H4 H5 H6 H7 H8] Hv. cbn [a_alloc fst].
  set (n := nalloc g).
  assert (HnL : ~ In n (LL g a)) by (intros Hin; apply H3 in Hin; unfold n in Hin; lia).
  constructor; unfold LL in *; cbn [auxset views done rest head tail nxt prv val nalloc]; auto.
  - eapply linked_ext; [|exact H2]. intros x Hx. unfold upd.
    destruct (Nat.eqb_spec x n) as [->|]; [|reflexivity]. exfalso. apply HnL. now apply in_rev.
  - intros x Hx. apply H3 in Hx. lia.
  - intros x. others x t Hne.
    + split; [|repeat split; cbn; try (intros; discriminate); intros m []].
      cbn. intros m E. injection E as <-. fold n. unfold upd. rewrite !Nat.eqb_refl. auto.
    + eapply tv_ok_mono; [apply H6| | | |]; unfold LL; cbn [auxset views done rest head tail nxt prv val nalloc]; auto.
      * intros m _ Hm Hm1. fold n. unfold upd. destruct (Nat.eqb_spec m n) as [->|]; [unfold n in Hm; lia|].
        repeat split; auto.
      * intros p Hp. unfold upd. destruct (Nat.eqb_spec p n) as [->|]; [contradiction|reflexivity].
  - apply privs_upd; [exact H7|]. cbn. intros m E x Hx E'. injection E as <-.
    destruct (H6 x) as (P1 & _). destruct (P1 _ E') as (A & _). unfold n in A. lia.
  - assert (Em : map (fun x => if Nat.eqb x n then v else val g x) (rest a) = map (val g) (rest a)).
    { apply map_ext_in. intros x Hx. destruct (Nat.eqb_spec x n) as [->|]; [|reflexivity].
      exfalso. apply HnL. apply in_or_app. right. now right. }
    rewrite Em. eapply spec_ext; [| |exact H8].
    + intros x. cbn. others x t Hne; [now rewrite Hv|reflexivity].
    + intros x. cbn. others x t Hne; [discriminate|auto].
Qed.

(** ** pNew->m_pNext.store( pTail ): the node is still private *)
Lemma Inv_st_next_priv g a tr t v n pnx p :
  Inv g a tr ->
  views a t = mkTV (@Pending Fifo (Enq v)) (Some n) pnx None [] None false ->
  Inv (mkG (head g) (tail g) (upd (nxt g) n p) (prv g) (val g) (nalloc g) (cnt g))
      (auxset a (done a) (rest a) t (mkTV (@Pending Fifo (Enq v)) (Some n) p None [] None false)) tr.
Proof.
  intros [H1 H2 H3 H4 H5 H6 H7 H8] Hv.
  destruct (H6 t) as (P1 & _). rewrite Hv in P1. cbn in P1. destruct (P1 n eq_refl) as (A & B & C & D).
  constructor; unfold LL in *; cbn [auxset views done rest head tail nxt prv val nalloc]; auto.
  - eapply linked_ext; [|exact H2]. intros x Hx. unfold upd.
    destruct (Nat.eqb_spec x n) as [->|]; [|reflexivity]. exfalso. apply B. now apply in_rev.
  - intros x. others x t Hne.
    + split; [|repeat split; cbn; try (intros; discriminate); intros m []].
      cbn. intros m E. injection E as <-. unfold upd. rewrite Nat.eqb_refl. auto.
    + eapply tv_ok_mono; [apply H6| | | |]; unfold LL; cbn [auxset views done rest head tail nxt prv val nalloc]; auto.
      * intros m Em Hm Hm1. repeat split; auto. unfold upd. destruct (Nat.eqb_spec m n) as [->|]; [|reflexivity].
        exfalso. apply (H7 x t n Hne Em). now rewrite Hv.
      * intros q Hq. unfold upd. destruct (Nat.eqb_spec q n) as [->|]; [contradiction|reflexivity].
  - apply privs_upd; [exact H7|]. cbn. intros m E x Hx. injection E as <-. apply (H7 t x n); auto. now rewrite Hv.
  - eapply spec_ext; [| |exact H8].
    + intros x. cbn. others x t Hne; [now rewrite Hv|reflexivity].
    + intros x. cbn. others x t Hne; [discriminate|auto].
Qed.

(** ** linearization point of enqueue: the successful CAS on tail *)
Lemma Inv_tailcas g a tr t v n tl :
  Inv g a tr ->
  views a t = mkTV (@Pending Fifo (Enq v)) (Some n) (Some tl) None [] None false ->
  tail g = tl ->
  Inv (set_tail g n)
      (auxset a (done a) (rest a ++ [n]) t
         (mkTV (@Linearized Fifo (Enq v) (RBool true)) None None None [n] None false)) tr.
Proof.
  intros [H1 H2 H3 H4 H5 H6 H7 H8] Hv Ht.
  destruct (H6 t) as (P1 & _). rewrite Hv in P1. cbn in P1. destruct (P1 n eq_refl) as (A & B & C & D).
  injection D as D. destruct H4 as (l' & El). rewrite Ht in El.
  assert (ELL : done a ++ head g :: (rest a ++ [n]) = LL g a ++ [n]) by (unfold LL; now rewrite <- app_assoc).
  constructor; unfold LL; cbn [auxset views done rest set_tail head tail nxt prv val nalloc]; rewrite ?ELL.
  - apply NoDup_snoc; auto.
  - rewrite rev_app_distr. cbn [rev app linked]. split; [|exact H2].
    rewrite C, El, rev_app_distr. reflexivity.
  - intros x Hx. apply in_app_or in Hx. destruct Hx as [Hx|[<-|[]]]; auto.
  - exists (LL g a). reflexivity.
  - intros m x Hx. apply in_or_app. left. eapply H5; eauto.
  - intros x. others x t Hne.
    + repeat split; cbn; try (intros; discriminate). intros m [<-|[]]. rewrite ELL. apply in_or_app. right. now left.
    + eapply tv_ok_mono; [apply H6| | | |]; unfold LL; cbn [auxset views done rest set_tail head tail nxt prv val nalloc];
        rewrite ?ELL; auto.
      * intros m Em Hm Hm1. repeat split; auto.
        intros Hin. apply in_app_or in Hin. destruct Hin as [Hin|[<-|[]]]; [contradiction|].
        apply (H7 x t n Hne Em). now rewrite Hv.
      * intros m Hm. apply in_or_app. now left.
  - apply privs_upd; [exact H7|]. cbn. discriminate.
  - rewrite map_app. cbn [map]. rewrite <- D. rewrite <- (app_nil_r (hist tr)).
    change (@nil (hev Fifo)) with (erase [@ALin Fifo t]).
    eapply spec_ext_r; [eapply spec_event with (t := t) (s' := @Linearized Fifo (Enq v) (RBool true)); [exact H8| |]| |].
    + cbn. now rewrite Hv.
    + intros f Hf. cbn beta in Hf. rewrite Hv in Hf. cbn in Hf. apply step_lin_enq. exact Hf.
    + intros x. cbn. unfold Lin.upd. destruct (Nat.eqb_spec x t) as [->|Hne];
        [rewrite updv_same; reflexivity|now rewrite updv_other].
    + intros x. cbn. others x t Hne; [discriminate|auto].
Qed.

(** ** linearization point of a successful dequeue: the successful CAS on head *)
Lemma Inv_headcas g a tr t h p hd kin :
  Inv g a tr ->
  views a t = mkTV (@Pending Fifo Deq) None None hd kin (Some (p, h)) false ->
  head g = h ->
  Inv (set_head g p)
      (auxset a (done a ++ [h]) (List.tl (rest a)) t
         (mkTV (@Linearized Fifo Deq (RVal (Some (val g p)))) None None None [] None false)) tr.
Proof.
  intros [H1 H2 H3 H4 H5 H6 H7 H8] Hv Hh.
  destruct (H6 t) as (_ & _ & _ & P4). rewrite Hv in P4. cbn in P4.
  destruct (P4 p h eq_refl) as (Hin & Hnx).
  assert (Er : exists r', rest a = p :: r').
  { unfold LL in *. rewrite Hh in *. eapply succ_unique; eauto. }
  destruct Er as (r' & Er).
  assert (ELL : (done a ++ [h]) ++ p :: r' = done a ++ h :: p :: r') by (now rewrite <- app_assoc).
  assert (EL0 : LL g a = done a ++ h :: p :: r') by (unfold LL; now rewrite Hh, Er).
  rewrite EL0 in H1, H2, H3, H4, H5.
  constructor; unfold LL; cbn [auxset views done rest set_head head tail nxt prv val nalloc]; rewrite ?Er; cbn [List.tl];
    rewrite ?ELL; auto.
  - intros y. others y t Hny.
    + repeat split; cbn; try (intros; discriminate). intros m [].
    + eapply tv_ok_mono; [apply H6| | | |]; rewrite ?EL0; unfold LL;
        cbn [auxset views done rest set_head head tail nxt prv val nalloc]; rewrite ?Er; cbn [List.tl]; rewrite ?ELL; auto.
      intros h0 Hh0. apply in_or_app. left. rewrite <- Hh. exact Hh0.
  - apply privs_upd; [exact H7|]. cbn. discriminate.
  - rewrite Er in H8. cbn [map] in H8. rewrite <- (app_nil_r (hist tr)).
    change (@nil (hev Fifo)) with (erase [@ALin Fifo t]).
    eapply spec_ext_r; [eapply spec_event with (t := t) (s' := @Linearized Fifo Deq (RVal (Some (val g p)))); [exact H8| |]| |].
    + cbn. now rewrite Hv.
    + intros f Hf. cbn beta in Hf. rewrite Hv in Hf. cbn in Hf. apply step_lin_deq. exact Hf.
    + intros y. cbn. unfold Lin.upd. destruct (Nat.eqb_spec y t) as [->|Hny];
        [rewrite updv_same; reflexivity|now rewrite updv_other].
    + intros y. cbn. others y t Hny; [discriminate|auto].
Qed.

(** ** tentative linearization point of the empty dequeue: the load of tail that returned my head *)
Lemma empty_now g a tr h :
  Inv g a tr -> In h (done a ++ [head g]) -> tail g = h -> rest a = [].
Proof.
  intros [H1 H2 H3 H4 H5 H6 H7 H8] Hin Ht. destruct H4 as (l' & El). rewrite Ht in El.
  unfold LL in *.
  assert (E2 : done a ++ head g :: rest a = (done a ++ [head g]) ++ rest a) by (now rewrite <- app_assoc).
  rewrite E2 in El, H1. eapply last_in_prefix; eauto.
Qed.

Lemma Inv_cand_set g a tr t h kin :
  Inv g a tr ->
  views a t = mkTV (@Pending Fifo Deq) None None (Some h) kin None false ->
  tail g = h ->
  Inv g (auxset a (done a) (rest a) t (mkTV (@Pending Fifo Deq) None None (Some h) [h] None true)) tr.
Proof.
  intros HI Hv Ht. pose proof HI as [H1 H2 H3 H4 H5 H6 H7 H8].
  destruct (H6 t) as (_ & P2 & _). rewrite Hv in P2. cbn in P2.
  pose proof (P2 h eq_refl) as Hin.
  pose proof (empty_now _ _ _ _ HI Hin Ht) as Er.
  constructor; auto; cbn [auxset views done rest].
  - intros x. others x t Hne; [|apply H6]. repeat split; cbn; try (intros; discriminate).
    + intros m E. injection E as <-. exact Hin.
    + intros m [<-|[]]. apply in_done_LL. exact Hin.
  - apply privs_upd; [exact H7|]. cbn. discriminate.
  - rewrite Er in *. cbn [map] in *.
    eapply spec_ext_r; [eapply spec_set_cand with (t := t); [exact H8|]| |].
    + cbn. now rewrite Hv.
    + intros x. cbn. others x t Hne; [now rewrite Hv|reflexivity].
    + intros x. cbn. unfold updb. destruct (Nat.eqb_spec x t) as [->|Hne]; [auto|now rewrite updv_other].
Qed.

Lemma Inv_confirm g a tr t hd kin pf :
  Inv g a tr ->
  views a t = mkTV (@Pending Fifo Deq) None None hd kin pf true ->
  Inv g (auxset a (done a) (rest a) t (mkTV empty_lin None None None [] None false)) tr.
Proof.
  intros [H1 H2 H3 H4 H5 H6 H7 H8] Hv.
  constructor; auto; cbn [auxset views done rest].
  - intros x. others x t Hne; [|apply H6]. repeat split; cbn; try (intros; discriminate). intros m [].
  - apply privs_upd; [exact H7|]. cbn. discriminate.
  - eapply spec_ext_r; [eapply spec_confirm with (t := t); [exact H8|]| |].
    + cbn. now rewrite Hv.
    + intros x. cbn. unfold Lin.upd. destruct (Nat.eqb_spec x t) as [->|Hne];
        [rewrite updv_same; reflexivity|now rewrite updv_other].
    + intros x. cbn. unfold updb. destruct (Nat.eqb_spec x t) as [->|Hne];
        [rewrite updv_same; discriminate|now rewrite updv_other].
Qed.

Lemma Inv_discard g a tr t hd kin pf c :
  Inv g a tr ->
  views a t = mkTV (@Pending Fifo Deq) None None hd kin pf c ->
  Inv g (auxset a (done a) (rest a) t (mkTV (@Pending Fifo Deq) None None None [] None false)) tr.
Proof.
  intros [H1 H2 H3 H4 H5 H6 H7 H8] Hv.
  constructor; auto; cbn [auxset views done rest].
  - intros x. others x t Hne; [|apply H6]. repeat split; cbn; try (intros; discriminate). intros m [].
  - apply privs_upd; [exact H7|]. cbn. discriminate.
  - eapply spec_ext_r; [eapply spec_discard with (t := t); exact H8| |].
    + intros x. cbn. others x t Hne; [now rewrite Hv|reflexivity].
    + intros x. cbn. unfold updb. destruct (Nat.eqb_spec x t) as [->|Hne];
        [rewrite updv_same; discriminate|now rewrite updv_other].
Qed.

(** ** initial state *)
Definition v_idle : tview := mkTV (@Idle Fifo) None None None [] None false.
Definition aux0 : Aux := mkAux [] [] (fun _ => v_idle).

Lemma Inv_init : Inv init aux0 [].
Proof.
  constructor; unfold LL; cbn.
  - constructor; [intros []|constructor].
  - auto.
  - intros n [<-|[]]. lia.
  - now exists [].
  - intros; discriminate.
  - intros t. repeat split; cbn; try (intros; discriminate). intros m [].
  - intros; discriminate.
  - apply spec_init.
Qed.
