(** * general_threaded: all programs preserve the accounting invariant; at-most-once and Destruct theorems. *)
From Coq Require Import ZArith List String Bool Lia PeanoNat.
From LV Require Import Base.Conc Base.Events Model.RcuGp Model.RcuBuf Model.RcuThreaded Proofs.RcuGpInv Proofs.RcuBufInv
  Proofs.RcuBufSafe Proofs.RcuThrInv.
From LV Require Proofs.RcuGpSafe.
Import ListNotations.
Local Open Scope string_scope.
Local Open Scope list_scope.
Local Open Scope Z_scope.

Section SafeT.
  Variable N : nat.
  Notation safeT := (@Conc.safe G V ev AuxT LT viewT (InvT N)).

  Lemma safeT_core {R} t (p : prog R) : core p -> forall l (Q : R -> LT -> Prop), (forall r, Q r l) -> safeT t p l Q.
  Proof.
    induction p as [r|es k IH|f k IH]; intros Hc l Q HQ; cbn [Conc.safe core] in *.
    - apply HQ.
    - destruct Hc as ((e & -> & Hp & Hd) & Hk). intros g a tr HI Hv. exists a.
      split; [rewrite tag1; eapply InvT_plain; eauto; split; assumption|]. split; [intros ? ?; reflexivity|]. rewrite Hv. apply IH; auto.
    - destruct Hc as (Hf & Hk). intros g a tr HI Hv. destruct (Hf g) as ((E1 & _ & E3 & E4 & _) & e & Ee & Hp & Hd). exists a. rewrite Ee.
      split; [rewrite tag1; eapply InvT_plain; eauto; split; assumption|]. split; [intros ? ?; reflexivity|]. rewrite Hv. apply IH; auto.
  Qed.

  Lemma safeT_bind {A B} t (p : prog A) (q : A -> prog B) Q l :
    safeT t p l (fun r l' => safeT t (q r) l' Q) -> safeT t (bind p q) l Q.
  Proof. apply Conc.safe_bind. Qed.

  Lemma plainT_acc k o ok : plainT (EvAcc k o ok).
  Proof. split; [apply plain_acc|reflexivity]. Qed.

  (** a step that changes nothing of the accounting (buffer, quit flag, join counter untouched) *)
  Lemma safeT_act_plain {R} t (f : act) (k : V -> prog R) l Q :
    (forall g, g_buf (fst (fst (f g))) = g_buf g /\ g_quit (fst (fst (f g))) = g_quit g /\ g_ndone (fst (fst (f g))) = g_ndone g /\
               exists k0 o ok, snd (f g) = [EvAcc k0 o ok]) ->
    (forall v, safeT t (k v) l Q) -> safeT t (Act f k) l Q.
  Proof.
    intros Hf Hk. cbn [Conc.safe]. intros g a tr HI Hv. destruct (Hf g) as (E1 & E2 & E3 & k0 & o & ok & Ee). exists a. rewrite Ee.
    split; [rewrite tag1; eapply InvT_plain; eauto; apply plainT_acc|]. split; [intros ? ?; reflexivity|]. rewrite Hv. apply Hk.
  Qed.

  Lemma safeT_emit_plain {R} t e (k : prog R) l Q : plainT e -> safeT t k l Q -> safeT t (Emit [e] k) l Q.
  Proof.
    intros Hp Hk. cbn [Conc.safe]. intros g a tr HI Hv. exists a. split; [rewrite tag1; eapply InvT_plain; eauto|].
    split; [intros ? ?; reflexivity|]. rewrite Hv. exact Hk.
  Qed.

  Ltac plainT_act :=
    let g := fresh "g" in
    intros g; cbv beta delta [a_epoch_ld a_epoch_faa a_buf_size a_begin acc]; cbn; repeat (split; [reflexivity|]); eexists _, _, _; reflexivity.

  (** a mailbox step that does not raise the quit flag *)
  Lemma safeT_mail_step {R} t (f : act) (k : V -> prog R) l Q :
    (forall g, exists task ready k0 o ok, (fst (fst (f g)) = set_mail g task ready (g_quit g) \/ fst (fst (f g)) = g) /\ snd (f g) = [EvAcc k0 o ok]) ->
    (forall v, safeT t (k v) l Q) -> safeT t (Act f k) l Q.
  Proof.
    intros Hf Hk. cbn [Conc.safe]. intros g a tr HI Hv. destruct (Hf g) as (task & ready & k0 & o & ok & [E|E] & Ee).
    - exists a. rewrite Ee, E. split; [rewrite tag1; apply InvT_mail; [left; reflexivity|exact HI]|]. split; [intros ? ?; reflexivity|]. rewrite Hv. apply Hk.
    - exists a. rewrite Ee, E. split; [rewrite tag1; eapply InvT_plain; eauto; apply plainT_acc|]. split; [intros ? ?; reflexivity|]. rewrite Hv. apply Hk.
  Qed.

  Variables (sfuel : nat) (cap : Z) (cnt : bool).

  Lemma safeT_handoff t fuel n : forall l (Q : bool -> LT -> Prop),
    (forall r, Q r l) -> safeT t (handoff fuel n false) l Q.
  Proof.
    induction fuel as [|f IH]; intros l Q HQ; cbn [handoff]; [apply HQ|].
    apply safeT_mail_step.
    - intros g. unfold a_post. destruct (g_ready g); cbn.
      + exists (Some n), false. eexists _, _, _. split; [left; reflexivity|reflexivity].
      + exists None, false. eexists _, _, _. split; [right; reflexivity|reflexivity].
    - intros v. destruct (vz v =? 1); [apply HQ|apply IH; exact HQ].
  Qed.

  Lemma safeT_synchronize t l (Q : bool -> LT -> Prop) : (forall r, Q r l) -> safeT t (synchronize_t sfuel) l Q.
  Proof.
    intros HQ. unfold synchronize_t. apply safeT_act_plain; [plainT_act|]. intros n.
    apply safeT_bind. apply safeT_core; [apply core_lock_loops|]. intros [|]; [|apply HQ].
    cbv beta iota. apply safeT_bind. apply safeT_core; [apply core_flips|]. intros [|]; [|apply HQ].
    cbv beta iota. apply safeT_bind. apply safeT_core; [apply core_unlock|]. intros _. apply safeT_handoff. exact HQ.
  Qed.

  Variable t : nat.
  Hypothesis Ht : (t < N)%nat.

  Definition cl (hs : list Z) : LT := (hs, false, false, TIdle).

  Lemma safeT_dispose {R} p hs d i v (k : prog R) Q :
    safeT t k (hs, d, i, v) Q -> safeT t (Emit (cli "dispose" [p]) k) (p :: hs, d, i, v) Q.
  Proof.
    intros Hk. cbn [Conc.safe]. intros g a tr HI Hv. unfold viewT in Hv. injection Hv as Hm Hd Hi Hvv.
    exists (with_h a (rm1 t p (t_h a))). split; [unfold cli; rewrite tag1; eapply InvT_dispose; eauto|].
    split; [apply frameT_h; intros t' Hne; apply mine_rm1_other; exact Hne|].
    unfold viewT. cbn [with_h t_h t_d t_i t_v]. rewrite (mine_rm1_head _ _ _ _ Hm), Hd, Hi, Hvv. exact Hk.
  Qed.

  Lemma safeT_size_reached {R} (k : bool -> prog R) l Q :
    (forall b, safeT t (k b) l Q) -> safeT t (size_reached cap cnt k) l Q.
  Proof.
    intros H. unfold size_reached. destruct cnt; [|apply H]. apply safeT_act_plain; [plainT_act|]. intros v. apply H.
  Qed.

  Lemma safeT_push p e hs (Q : bool -> LT -> Prop) :
    Q true (cl hs) -> (forall l', Q false l') -> safeT t (push_buffer_t sfuel cap cnt p e) (cl (p :: hs)) Q.
  Proof.
    intros HT HF. unfold push_buffer_t, cl. cbn [Conc.safe]. intros g a tr HI Hv. unfold viewT in Hv. injection Hv as Hm Hd Hi Hvv.
    unfold a_buf_push. destruct (Nat.ltb (List.length (g_buf g)) (g_bcap g)); cbn [fst snd vz].
    - exists (with_h a (rm1 t p (t_h a))). split; [unfold acc; rewrite tag1; eapply InvT_push; eauto|].
      split; [apply frameT_h; intros t' Hne; apply mine_rm1_other; exact Hne|].
      unfold viewT. cbn [with_h t_h t_d t_i t_v]. rewrite (mine_rm1_head _ _ _ _ Hm), Hd, Hi, Hvv. cbn [Z.eqb Pos.eqb].
      apply safeT_size_reached. intros [|]; [|exact HT]. apply safeT_synchronize. intros [|]; [exact HT|apply HF].
    - exists a. split; [unfold acc; rewrite tag1; eapply InvT_plain; eauto; apply plainT_acc|]. split; [intros ? ?; reflexivity|].
      unfold viewT. rewrite Hm, Hd, Hi, Hvv. cbn [Z.eqb].
      apply safeT_bind. apply safeT_synchronize. intros [|]; [|cbn; apply HF].
      cbv beta iota. apply safeT_dispose. cbn. exact HT.
  Qed.

  Lemma safeT_push_all e ps : forall (Q : bool -> LT -> Prop),
    Q true (cl []) -> (forall l', Q false l') -> safeT t (push_all_t sfuel cap cnt e ps) (cl ps) Q.
  Proof.
    induction ps as [|p r IH]; intros Q HT HF; cbn [push_all_t]; [exact HT|].
    apply safeT_bind. apply safeT_push; [|intros l'; cbn; apply HF]. cbv beta iota. apply IH; auto.
  Qed.

  Lemma safeT_retire_ev {R} p hs (k : prog R) Q :
    safeT t k (cl (hs ++ [p])) Q -> safeT t (Emit (cli "retire" [p]) k) (cl hs) Q.
  Proof.
    intros Hk. unfold cl in *. cbn [Conc.safe]. intros g a tr HI Hv. unfold viewT in Hv. injection Hv as Hm Hd Hi Hvv.
    exists (with_h a (t_h a ++ [(t, p)])). split; [unfold cli; rewrite tag1; eapply InvT_retire; eauto|].
    split; [apply frameT_h; intros t' Hne; rewrite mine_app, mine_cons_other by exact Hne; cbn; apply app_nil_r|].
    unfold viewT. cbn [with_h t_h t_d t_i t_v]. rewrite mine_app, mine_cons_same, Hm, Hd, Hi, Hvv. exact Hk.
  Qed.

  Lemma safeT_emit_retires {R} ps : forall hs (k : prog R) Q,
    safeT t k (cl (hs ++ ps)) Q -> safeT t (emit_retires ps k) (cl hs) Q.
  Proof.
    induction ps as [|p r IH]; intros hs k Q Hk; cbn [emit_retires].
    - rewrite app_nil_r in Hk. exact Hk.
    - apply safeT_retire_ev. apply IH. rewrite <- app_assoc. exact Hk.
  Qed.

  Lemma safeT_gpt_retire ps tail (Q : bool -> LT -> Prop) :
    (tail = [] \/ exists e, tail = [e] /\ plainT e) ->
    Q true (cl []) -> (forall l', Q false l') -> safeT t (gpt_retire sfuel cap cnt ps tail) (cl []) Q.
  Proof.
    intros Htail HT HF. unfold gpt_retire. apply safeT_emit_retires. cbn [app].
    apply safeT_act_plain; [plainT_act|]. intros e. apply safeT_bind. apply safeT_push_all; [|intros l'; cbn; apply HF].
    cbv beta iota. destruct Htail as [->|(e0 & -> & Hp)].
    - cbn [Conc.safe]. intros g a tr HI Hv. exists a. cbn. rewrite app_nil_r. split; [exact HI|]. split; [intros ? ?; reflexivity|].
      rewrite Hv. exact HT.
    - apply safeT_emit_plain; [exact Hp|exact HT].
  Qed.

  Lemma safeT_gpt_sync (Q : bool -> LT -> Prop) :
    Q true (cl []) -> (forall l', Q false l') -> safeT t (gpt_sync sfuel) (cl []) Q.
  Proof.
    intros HT HF. unfold gpt_sync, cli. apply safeT_emit_plain; [repeat split|].
    apply safeT_bind. apply safeT_synchronize. intros [|]; [|cbn; apply HF].
    cbv beta iota. apply safeT_emit_plain; [repeat split|exact HT].
  Qed.

  Definition QT : option lst -> LT -> Prop := fun r l' => match r with Some _ => l' = cl [] | None => True end.

  Lemma safeT_run_top s o : safeT t (run_top sfuel cap cnt t s o) (cl []) QT.
  Proof.
    destruct o as [o|ps]; cbn [run_top].
    - destruct o; try (apply safeT_core; [apply core_run_op; reflexivity|]; intros [s'|]; cbn; auto).
      + destruct (my_depth s); [|reflexivity]. apply safeT_bind. apply safeT_gpt_sync; cbn; auto.
      + destruct (my_depth s); [|reflexivity]. apply safeT_bind. apply safeT_gpt_retire; cbn; auto.
    - destruct (my_depth s); [|reflexivity]. destruct ps as [|p r]; [reflexivity|].
      apply safeT_bind. apply safeT_gpt_retire; cbn; auto. right. eexists. split; [reflexivity|repeat split].
  Qed.

  Lemma safeT_finish : safeT t (Emit (cli "done" []) (Act a_done_inc (fun _ => Ret tt))) (cl []) (@Conc.QTrue LT).
  Proof.
    unfold cl. cbn [Conc.safe]. intros g a tr HI Hv. unfold viewT in Hv. injection Hv as Hm Hd Hi Hvv.
    exists (with_d a t). split; [unfold cli; rewrite tag1; apply InvT_done; assumption|].
    split; [intros t' Hne; unfold viewT; cbn; destruct (Nat.eqb_spec t' t); [contradiction|reflexivity]|].
    unfold viewT. cbn [with_d t_h t_d t_i t_v]. rewrite Nat.eqb_refl, Hm, Hi, Hvv.
    cbn [Conc.safe]. intros g1 a1 tr1 HI1 Hv1. unfold viewT in Hv1. injection Hv1 as Hm1 Hd1 Hi1 Hvv1.
    exists (with_i a1 t). unfold a_done_inc. cbn [fst snd]. split; [unfold acc; rewrite tag1; apply InvT_inc; auto|].
    split; [intros t' Hne; unfold viewT; cbn; destruct (Nat.eqb_spec t' t); [contradiction|reflexivity]|exact I].
  Qed.

  Lemma safeT_run_tops os : forall s, safeT t (run_tops sfuel cap cnt t s os) (cl []) (@Conc.QTrue LT).
  Proof.
    induction os as [|o r IH]; intros s; cbn [run_tops].
    - apply safeT_bind. apply safeT_core; [apply core_finish|]. intros _. apply safeT_finish.
    - apply safeT_bind. eapply Conc.safe_weaken; [|apply safeT_run_top].
      intros [s'|] l' HQ; cbn in HQ.
      + subst l'. apply IH.
      + apply safeT_emit_plain; [repeat split|exact I].
  Qed.

  Lemma safeT_thread os : safeT t (tthread_prog sfuel cap cnt t os) (cl []) (@Conc.QTrue LT).
  Proof. unfold tthread_prog. apply safeT_act_plain; [plainT_act|]. intros _. apply safeT_run_tops. Qed.
End SafeT.

(** ** the reclamation thread (thread N) and the destructor (thread N+1) *)
Section SafeD.
  Variable N : nat.
  Notation safeT := (@Conc.safe G V ev AuxT LT viewT (InvT N)).

  Definition dv (j : bool) : tstate := if j then TJoined else TIdle.
  Definition dl (hs : list Z) (v : tstate) : LT := (hs, false, false, v).

  Lemma safeT_drain f : forall n (j : bool) (Q : bool -> LT -> Prop),
    Q true (dl [] (if j then TEmpty else TIdle)) -> (forall l', Q false l') ->
    safeT N (drain f n j) (dl [] (dv j)) Q.
  Proof.
    induction f as [|f IH]; intros n j Q HT HF; cbn [drain]; [apply HF|].
    unfold dl. cbn [Conc.safe]. intros g a tr HI Hv. unfold viewT in Hv. injection Hv as Hm Hd Hi Hvv. unfold a_buf_front.
    destruct (g_buf g) as [|[p e] r] eqn:Eb; cbn [fst snd vp].
    - destruct j; cbn [dv] in *.
      + exists (with_v a N TEmpty). split; [unfold acc; rewrite tag1; apply InvT_empty; auto; [rewrite Hvv; reflexivity|apply (AM _ _ _ _ HI N); left; exact Hvv]|].
        split; [apply frameT_v|]. unfold viewT. cbn [with_v t_h t_d t_i t_v]. rewrite Nat.eqb_refl, Hm, Hd, Hi. exact HT.
      + exists a. split; [unfold acc; rewrite tag1; eapply InvT_plain; eauto; apply plainT_acc|]. split; [intros ? ?; reflexivity|].
        unfold viewT. rewrite Hm, Hd, Hi, Hvv. exact HT.
    - destruct ((e <=? n) || j) eqn:Eq.
      + exists (with_v (with_h a ((N, p) :: t_h a)) N (TStale j)). split; [unfold acc; rewrite tag1; eapply InvT_front; eauto|].
        split; [intros t' Hne; unfold viewT; cbn [with_v with_h t_h t_d t_i t_v]; rewrite mine_cons_other by exact Hne; destruct (Nat.eqb_spec t' N); [contradiction|reflexivity]|].
        unfold viewT. cbn [with_v with_h t_h t_d t_i t_v]. rewrite Nat.eqb_refl, mine_cons_same, Hm, Hd, Hi.
        apply (safeT_dispose N N p [] false false (TStale j)).
        cbn [Conc.safe]. clear g a tr HI Hm Hd Hi Hvv Eb. intros g a tr HI Hv. unfold viewT in Hv. injection Hv as Hm Hd Hi Hvv.
        exists (with_v a N (dv j)). unfold a_buf_popfront. cbn [fst snd]. split; [unfold acc; rewrite tag1; unfold dv; eapply InvT_popfront; eauto|].
        split; [apply frameT_v|]. unfold viewT. cbn [with_v t_h t_d t_i t_v]. rewrite Nat.eqb_refl, Hm, Hd, Hi. apply IH; auto.
      + apply orb_false_elim in Eq. destruct Eq as (_ & ->). cbn [dv] in *.
        exists a. split; [unfold acc; rewrite tag1; eapply InvT_plain; eauto; apply plainT_acc|]. split; [intros ? ?; reflexivity|].
        unfold viewT. rewrite Hm, Hd, Hi, Hvv. exact HT.
  Qed.

  Lemma safeT_take f : forall (Q : option (Z * Z) -> LT -> Prop),
    (forall n q, Q (Some (n, q)) (dl [] (dv (negb (q =? 0))))) -> Q None (dl [] TIdle) ->
    safeT N (take_task f) (dl [] TIdle) Q.
  Proof.
    induction f as [|f IH]; intros Q HS HN; cbn [take_task]; [exact HN|].
    unfold dl. cbn [Conc.safe]. intros g a tr HI Hv. unfold viewT in Hv. injection Hv as Hm Hd Hi Hvv. unfold a_take.
    destruct (g_task g) as [n|] eqn:Et; cbn [fst snd vp].
    - destruct (g_quit g) eqn:Eq; cbn [Z.b2z].
      + exists (with_v a N TJoined). split.
        * unfold acc. rewrite tag1. apply InvT_joined with (g := g); auto; [rewrite Hvv; reflexivity|apply (AQ _ _ _ _ HI Eq)].
        * split; [apply frameT_v|]. unfold viewT. cbn [with_v t_h t_d t_i t_v]. rewrite Nat.eqb_refl, Hm, Hd, Hi. apply (HS n 1).
      + exists a. split; [unfold acc; rewrite tag1; rewrite <- Eq at 2; apply InvT_mail; [left; reflexivity|exact HI]|].
        split; [intros ? ?; reflexivity|]. unfold viewT. rewrite Hm, Hd, Hi, Hvv. apply (HS n 0).
    - exists a. split; [unfold acc; rewrite tag1; eapply InvT_plain; eauto; apply plainT_acc|]. split; [intros ? ?; reflexivity|].
      unfold viewT. rewrite Hm, Hd, Hi, Hvv. apply IH; auto.
  Qed.

  Lemma safeT_disposer rounds fuel : safeT N (disposer rounds fuel) (dl [] TIdle) (@Conc.QTrue LT).
  Proof.
    induction rounds as [|r IH]; cbn [disposer]; [exact I|].
    apply safeT_mail_step.
    - intros g. unfold a_set_ready. cbn. exists (g_task g), true. eexists _, _, _. split; [left; reflexivity|reflexivity].
    - intros _. apply safeT_bind. apply safeT_take; [|exact I].
      intros n q. cbv beta iota. apply safeT_bind. apply safeT_drain; [|intros; exact I].
      cbv beta iota. destruct (q =? 0); cbn [negb]; [exact IH|].
      (* "ddone" *)
      unfold dl. cbn [Conc.safe]. intros g a tr HI Hv. unfold viewT in Hv. injection Hv as Hm Hd Hi Hvv.
      exists (mkT (t_h a) (t_d a) (t_i a) true (t_v a)). split; [unfold cli; rewrite tag1; apply InvT_ddone; assumption|].
      split; [intros ? ?; reflexivity|exact I].
  Qed.

  Lemma safeT_join f : forall (Q : bool -> LT -> Prop),
    Q true (dl [] TJoined) -> (forall l', Q false l') -> safeT (S N) (join_clients f N) (dl [] TIdle) Q.
  Proof.
    induction f as [|f IH]; intros Q HT HF; cbn [join_clients]; [apply HF|].
    unfold dl. cbn [Conc.safe]. intros g a tr HI Hv. unfold viewT in Hv. injection Hv as Hm Hd Hi Hvv. unfold a_join. cbn [fst snd vz].
    destruct (Nat.eqb_spec (g_ndone g) N) as [E|E]; cbn [Z.eqb].
    - exists (with_v a (S N) TJoined). split; [unfold acc; rewrite tag1; apply InvT_joined with (g := g); auto; [rewrite Hvv; reflexivity|eapply join_all; eauto]|].
      split; [apply frameT_v|]. unfold viewT. cbn [with_v t_h t_d t_i t_v]. rewrite Nat.eqb_refl, Hm, Hd, Hi. exact HT.
    - exists a. split; [unfold acc; rewrite tag1; eapply InvT_plain; eauto; apply plainT_acc|]. split; [intros ? ?; reflexivity|].
      unfold viewT. rewrite Hm, Hd, Hi, Hvv. apply IH; auto.
  Qed.

  Lemma safeT_stop f : forall (Q : bool -> LT -> Prop),
    (forall r, Q r (dl [] TJoined)) -> safeT (S N) (handoff f max_epoch true) (dl [] TJoined) Q.
  Proof.
    induction f as [|f IH]; intros Q HQ; cbn [handoff]; [apply HQ|].
    unfold dl. cbn [Conc.safe]. intros g a tr HI Hv. unfold viewT in Hv. injection Hv as Hm Hd Hi Hvv. unfold a_post.
    destruct (g_ready g); cbn [fst snd vz orb].
    - exists a. split; [unfold acc; rewrite tag1; apply InvT_mail; [right; apply (AM _ _ _ _ HI (S N)); left; exact Hvv|exact HI]|].
      split; [intros ? ?; reflexivity|]. unfold viewT. rewrite Hm, Hd, Hi, Hvv. apply HQ.
    - exists a. split; [unfold acc; rewrite tag1; eapply InvT_plain; eauto; apply plainT_acc|]. split; [intros ? ?; reflexivity|].
      unfold viewT. rewrite Hm, Hd, Hi, Hvv. apply IH; auto.
  Qed.

  Lemma safeT_destructor fuel : safeT (S N) (destructor fuel N) (dl [] TIdle) (@Conc.QTrue LT).
  Proof.
    unfold destructor. apply safeT_bind. apply safeT_join; [|intros; exact I].
    cbv beta iota. apply safeT_bind. apply safeT_stop. intros [|]; cbv beta iota; [|exact I].
    apply safeT_emit_plain; [repeat split|exact I].
  Qed.
End SafeD.

Lemma tinit_ok sfuel rounds cap cnt ths :
  Conc.cfg_ok viewT (InvT (List.length ths)) (tinit_cfg sfuel rounds cap cnt ths).
Proof.
  exists (mkT [] (fun _ => false) (fun _ => false) false (fun _ => TIdle)). split.
  - cbn [tinit_cfg Conc.shared Conc.trace]. constructor; cbn; try discriminate; auto.
    + intros x [].
    + intros t0 i (e & H & _). destruct i; discriminate.
    + split; [|discriminate]. induction (seq 0 (List.length ths)); cbn; auto.
    + intros t [X|X]; discriminate.
    + intros t0 i (e & H & _). destruct i; discriminate.
  - intros t p Hp. cbn [tinit_cfg Conc.threads] in Hp.
    destruct (Nat.lt_ge_cases t (List.length ths)) as [Hlt|Hge].
    + rewrite nth_error_app1 in Hp by (rewrite map_length, number_length; exact Hlt). rewrite nth_error_map in Hp.
      destruct (nth_error (number O ths) t) as [x|] eqn:E; [|discriminate]. inversion Hp; subst p.
      assert (Hf : fst x = t) by (apply RcuGpSafe.nth_error_number in E; cbn in E; exact E).
      rewrite Hf. unfold viewT. cbn. apply safeT_thread; assumption.
    + rewrite nth_error_app2 in Hp by (rewrite map_length, number_length; exact Hge). rewrite map_length, number_length in Hp.
      destruct (t - List.length ths)%nat as [|[|k]] eqn:Ek; cbn in Hp; try (destruct k; discriminate).
      * inversion Hp; subst p. assert (t = List.length ths) by lia. subst t. unfold viewT. cbn. apply safeT_disposer.
      * inversion Hp; subst p. assert (t = S (List.length ths)) by lia. subst t. unfold viewT. cbn. apply safeT_destructor.
Qed.

(** ** theorems for every schedule *)
Section ThmT.
  Variables (sfuel rounds : nat) (cap : Z) (cnt : bool) (ths : list (list bop)) (c : Conc.config G V ev).
  Hypothesis Hr : Conc.reach (tinit_cfg sfuel rounds cap cnt ths) c.

  Theorem gpt_dispose_at_most_once_all : forall p, (ndisp p (Conc.trace c) <= nret p (Conc.trace c))%nat.
  Proof. intros p. destruct (Conc.reach_Inv (tinit_ok sfuel rounds cap cnt ths) Hr) as (a & HI). rewrite (A1 _ _ _ _ HI p). lia. Qed.

  (** when the reclamation thread has left its loop (Destruct: join of the clients, stop task, the thread drains the
      buffer and quits) every object has been disposed exactly as often as it was retired *)
  Theorem gpt_destruct_drains_all : (exists i t, at_ (Conc.trace c) i t is_ddone) ->
    forall p, ndisp p (Conc.trace c) = nret p (Conc.trace c).
  Proof.
    intros (i & t & Hat) p. destruct (Conc.reach_Inv (tinit_ok sfuel rounds cap cnt ths) Hr) as (a & HI).
    destruct (AF _ _ _ _ HI (A6 _ _ _ _ HI t i Hat)) as ((Hb & _) & Hh).
    rewrite (A1 _ _ _ _ HI p), Hh. unfold lbuf. rewrite Hb. destruct (stale (List.length ths) a); cbn; lia.
  Qed.
End ThmT.
