(** DhpConsMainC: copy of LV.Proofs.DhpMainC over the two-directional pointer invariant of LV.Proofs.DhpConsInv (conservation);
    the text differs from the original where the JW part of a goal is proved. *)
(** * DhpMainC: every client operation except detach preserves the C03 invariant; threads; the initial configuration. *)
From Coq Require Import ZArith NArith List String Bool Lia PeanoNat.
From LV Require Import Base.Conc Base.Events Model.DhpLang Model.Dhp Proofs.DhpBase Proofs.DhpSeq Proofs.DhpSeqThm Proofs.DhpHist
  Proofs.DhpLangProofs Proofs.DhpAllocA Proofs.DhpInvB Proofs.DhpConsInv Proofs.DhpConsQuietB Proofs.DhpConsQuietB2 Proofs.DhpConsRulesB Proofs.DhpConsStepsB1 Proofs.DhpConsStepsB2
  Proofs.DhpConsStepsB3 Proofs.DhpConsStepsB4 Proofs.DhpConsStepsB5 Proofs.DhpConsStepsB6 Proofs.DhpConsStepsB7 Proofs.DhpConsProgB1 Proofs.DhpConsProgB2
  Proofs.DhpConsProgB3 Proofs.DhpConsProgB4 Proofs.DhpConsStepsB10.
Import ListNotations.

Definition nodetach (o : op) : Prop := o <> ODetach.

Section MainC.
  Variable c : cfg.
  Notation RB := (c_RB c).
  Hypothesis HRB : 4 <= RB.
  Hypothesis Hold : c_old c = false.

  Definition Rel (L : Dhp.L) (l : VB) : Prop := idle l /\ forall r, l_tls L = Some r -> In r (vb_own l) /\ vb_arr l = Some r /\ vb_mine l = Some r.
  (** does the client hold a thread record (is the thread attached)? *)
  Definition tf (L : Dhp.L) : bool := match l_tls L with Some _ => true | None => false end.
  Definition Qop (b : bool) : option Dhp.L -> VB -> Prop := fun o l' => match o with Some L' => Rel L' l' /\ tf L' = b | None => True end.

  Lemma qev_inv code args : code <> 9 -> Forall qevB [EvCli "op" (zl (code :: args))].
  Proof.
    intros H. constructor; [|constructor]. split; [|now rewrite classify_op].
    unfold zl. cbn [map]. destruct args as [|x [|y args]]; cbn [map retired_ev]; try reflexivity.
    cbn. destruct (Z.eqb_spec (zn code) 9) as [E|E]; [|reflexivity]. unfold zn in E. exfalso. apply H. lia.
  Qed.
  Lemma qev_rsp v : Forall qevB [EvCli "ret" [zn v]]. Proof. constructor; [apply qevB_ret|constructor]. Qed.

  Lemma dsafeB_inv {Y} t code args (q : P Y) l Q : code <> 9 -> dsafeB c t q l Q -> dsafeB c t (inv code args ;;; q) l Q.
  Proof. intros H Hq. unfold inv. apply dsafeB_xemit_q; [apply qev_inv; exact H|exact Hq]. Qed.
  Lemma dsafeB_rsp_ret t v L l b : Rel L l -> tf L = b -> dsafeB c t (rsp v ;;; ret L) l (Qop b).
  Proof. intros H Hb. unfold rsp. apply dsafeB_xemit_q; [apply qev_rsp|]. split; assumption. Qed.
  Lemma dsafeB_skip_ret t L l b : Rel L l -> tf L = b -> dsafeB c t (skip ;;; ret L) l (Qop b).
  Proof. intros H Hb. unfold skip. apply dsafeB_xemit_q; [constructor; [apply qevB_skip|constructor]|]. split; assumption. Qed.

  Lemma Rel_tls L L' l : Rel L l -> l_tls L' = l_tls L -> Rel L' l.
  Proof. intros (H1 & H2) E. split; auto. intros r. rewrite E. apply H2. Qed.

  Definition okop (o : op) : Prop := nodetach o \/ c_oldtail c = false.

  (** retire() is called by attached threads only *)
  Definition nextf (o : op) (b : bool) : bool := match o with OAttach => true | ODetach => false | _ => b end.
  Definition raok (o : op) (b : bool) : Prop := match o with ORetire _ => b = true | _ => True end.
  Fixpoint ra (b : bool) (os : list op) : Prop := match os with [] => True | o :: r => raok o b /\ ra (nextf o b) r end.

  Ltac tfl := unfold tf; cbn; try match goal with E : l_tls _ = _ |- _ => rewrite E end; reflexivity.

  Lemma spec_run_op t L l o : okop o -> raok o (tf L) -> Rel L l -> dsafeB c t (run_op c t L o) l (Qop (nextf o (tf L))).
  Proof.
    intros Hnd Hra HR. pose proof HR as (Hi & Ht). pose proof Hi as (I1 & I2 & I3 & I4 & I5 & I6 & I7 & I8 & I9 & I10).
    destruct o; cbn [run_op].
    - (* attach *)
      apply dsafeB_inv; [lia|]. destruct (l_tls L) as [r|] eqn:E; [apply dsafeB_skip_ret; [exact HR|tfl]|].
      apply dsafeB_xbind. apply alloc_thread_data_spec; auto; try solve [intros; exact I].
      intros r l' (X1 & X2) Hr Har. cbn beta iota.
      apply dsafeB_xemit. intros g a tr Hv. unfold viewB in Hv.
      exists (setv a t (set_s0 (set_mine (bvs a t) (Some r)) None)). split; [eapply frame_bvs; reflexivity|]. split.
      { intros _ _ J. apply S_att; auto; rewrite Hv; auto. unfold idle in X1. tauto. }
      unfold viewB. cbn [bvs setv]. rewrite fn_same, Hv. clear g a tr Hv.
      apply dsafeB_rsp_ret; [|tfl]. split; [unfold idle in *; cbn; tauto|]. cbn. intros r' E'. inversion E'; subst. split; [exact Hr|split; [exact Har|reflexivity]].
    - (* detach *)
      destruct Hnd as [Hnd|Htail]; [exfalso; apply Hnd; reflexivity|].
      apply dsafeB_inv; [lia|]. destruct (l_tls L) as [r|] eqn:E; [|apply dsafeB_skip_ret; [exact HR|tfl]].
      apply dsafeB_xbind. destruct (Ht r eq_refl) as (Ht1 & Ht2 & Ht3). apply free_thread_data_spec; auto.
      + constructor; [apply qevB_relall|constructor; [apply qevB_det|constructor]].
      + intros l' Hi' _. cbn beta iota. apply dsafeB_rsp_ret; [|tfl]. split; auto. cbn. discriminate.
    - (* Guard ctor *)
      apply dsafeB_inv; [lia|]. destruct (l_tls L) as [r|] eqn:E; [|apply dsafeB_skip_ret; [exact HR|tfl]].
      destruct (gfind (l_guards L) j); [apply dsafeB_skip_ret; [exact HR|tfl]|].
      apply dsafeB_quiet_seq; [apply qB_hp_galloc|exact I|]. intros [s|].
      + apply dsafeB_xemit_q; [constructor; [apply qevB_own|constructor]|]. apply dsafeB_rsp_ret; [eapply Rel_tls; eauto|tfl].
      + apply dsafeB_xemit_q; [constructor; [apply qevB_err|constructor]|]. split; [exact HR|tfl].
    - (* Guard dtor *)
      apply dsafeB_inv; [lia|]. destruct (l_tls L) as [r|] eqn:E; [|apply dsafeB_skip_ret; [exact HR|tfl]].
      destruct (gfind (l_guards L) j) as [s|]; [|apply dsafeB_skip_ret; [exact HR|tfl]].
      apply dsafeB_xemit_q; [constructor; [apply qevB_rel|constructor]|].
      apply dsafeB_quiet_seq; [apply qB_hp_gfree|exact I|]. intros _. apply dsafeB_rsp_ret; [eapply Rel_tls; eauto|tfl].
    - (* assign *)
      apply dsafeB_inv; [lia|]. destruct (l_tls L) as [r|] eqn:E; [|apply dsafeB_skip_ret; [exact HR|tfl]].
      destruct (gfind (l_guards L) j) as [s|]; [|apply dsafeB_skip_ret; [exact HR|tfl]].
      apply dsafeB_xact_q; [apply qB_st_slot|]. intros _. apply dsafeB_xact_q; [apply qB_faa_sync|]. intros _. apply dsafeB_rsp_ret; [exact HR|tfl].
    - (* clear *)
      apply dsafeB_inv; [lia|]. destruct (l_tls L) as [r|] eqn:E; [|apply dsafeB_skip_ret; [exact HR|tfl]].
      destruct (gfind (l_guards L) j) as [s|]; [|apply dsafeB_skip_ret; [exact HR|tfl]].
      apply dsafeB_xact_q; [apply qB_st_slot|]. intros _. apply dsafeB_rsp_ret; [exact HR|tfl].
    - (* protect *)
      apply dsafeB_inv; [lia|]. destruct (l_tls L) as [r|] eqn:E; [|apply dsafeB_skip_ret; [exact HR|tfl]].
      destruct (gfind (l_guards L) j) as [s|]; [|apply dsafeB_skip_ret; [exact HR|tfl]].
      apply dsafeB_xact_q; [apply qB_ld_src|]. intros p0. apply dsafeB_quiet_seq; [apply qB_protect_loop|exact I|]. intros v.
      apply dsafeB_rsp_ret; [exact HR|tfl].
    - (* publish *)
      apply dsafeB_inv; [lia|]. apply dsafeB_xact_q; [apply qB_st_src|]. intros _. apply dsafeB_rsp_ret; [exact HR|tfl].
    - (* retire *)
      unfold inv. destruct (l_tls L) as [r|] eqn:E.
      + destruct (Ht r eq_refl) as (Ht' & Har & Hmi). clear Ht. rename Ht' into Ht.
        apply dsafeB_xemit. intros g a tr Hv. unfold viewB in Hv. exists (aux_pend a t p). split; [eapply frame_bvs; reflexivity|]. split.
        { intros _ Hnd' J. apply (S_retire_ev c g a tr t p); auto; rewrite Hv; auto. intros E0. rewrite E0 in Ht. contradiction. }
        unfold viewB. cbn [bvs aux_pend]. rewrite fn_same, Hv. clear g a tr Hv.
        apply dsafeB_xloc. intros g a tr Hv. unfold viewB in Hv.
        exists (aux_push a t r p (snd (rt_push c r p g))). split; [eapply frame_bvs; reflexivity|]. split.
        { intros J. apply S_push; auto; rewrite Hv; cbn; auto; congruence. }
        unfold viewB. cbn [bvs aux_push aux_arr]. rewrite fn_same, Hv. generalize (snd (rt_push c r p g)) as ok. clear g a tr Hv. intros ok.
        apply dsafeB_xbind. destruct ok.
        * apply dsafeB_ret. cbn beta iota. apply dsafeB_rsp_ret; [|tfl]. split; [unfold idle; cbn; tauto|]. intros r' E'. rewrite E in E'. inversion E'; subst. split; [exact Ht|split; [exact Har|exact Hmi]].
        * apply scan_spec; auto; cbn [vb_own vb_dead vb_move vb_full vb_freed vb_blk set_full set_pend]; auto; try congruence.
          all: try solve [intros; exact I].
          apply dsafeB_rsp_ret; [|tfl]. split; [unfold idle; cbn; tauto|]. intros r' E'. rewrite E in E'. inversion E'; subst. split; [exact Ht|split; [exact Har|exact Hmi]].
      + exfalso. cbn in Hra. unfold tf in Hra. rewrite E in Hra. discriminate.
    - (* scan *)
      apply dsafeB_inv; [lia|]. destruct (l_tls L) as [r|] eqn:E; [|apply dsafeB_skip_ret; [exact HR|tfl]].
      destruct (Ht r eq_refl) as (Ht' & Har & Hmi). clear Ht. rename Ht' into Ht. apply dsafeB_xbind. apply scan_spec; auto; try congruence.
      all: try solve [intros; exact I].
      apply dsafeB_rsp_ret; [|tfl]. split; [unfold idle; cbn; tauto|]. intros r' E'. rewrite E in E'. inversion E'; subst. split; [exact Ht|split; [exact Har|exact Hmi]].
    - (* wait *)
      apply dsafeB_inv; [lia|]. apply dsafeB_quiet_seq; [apply qB_wait_loop|exact I|]. intros _. apply dsafeB_rsp_ret; [exact HR|tfl].
  Qed.

  Lemma spec_run_ops t : forall os L l, Forall okop os -> ra (tf L) os -> Rel L l -> dsafeB c t (run_ops c t L os) l (fun _ _ => True).
  Proof.
    induction os as [|o os IH]; intros L l Hnd Hra HR; cbn [run_ops]; [exact I|]. inversion Hnd; subst. destruct Hra as (Hr1 & Hr2).
    apply dsafeB_xbind. eapply dsafe_weaken; [|apply spec_run_op; eauto]. intros [L'|] l' H; cbn; auto.
    destruct H as (HA & HB). apply IH; auto. rewrite HB. exact Hr2.
  Qed.

  Lemma spec_thread t os : Forall okop os -> ra false os -> dsafeB c t (thread_src c t os) vb0 (fun _ _ => True).
  Proof.
    intros Hnd Hra. unfold thread_src. apply dsafeB_act_quiet; [apply qB_begin|]. intros _. unfold to_unit. apply dsafe_bind.
    eapply dsafe_weaken; [|apply spec_run_ops; auto]; [intros; exact I|].
    split; [unfold idle; cbn; tauto|]. cbn. discriminate.
  Qed.
End MainC.
