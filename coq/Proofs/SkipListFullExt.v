(** * SkipListFullExt: extract_min / extract_max of the skip list model against the full-history invariant.
      extract -> k is linearized (as "erase k -> true", the encoding of [client_history]) at the level-0 mark CAS of
      try_remove_at; extract -> empty at the level-0 load of the head's cell that returned null (the level-0 list is empty at
      that instant).  A failed try_remove_at (victim marked by somebody else) makes the loop retry; nothing is linearized. *)
From Coq Require Import ZArith List String Bool Lia PeanoNat.
From LV Require Import Base.Conc Base.Events Base.Lin Spec.Specs Proofs.LinProofs.
From LV Require Import Model.SkipList Proofs.SkipListProofs Proofs.SkipListLin Proofs.SkipListFullInv Proofs.SkipListFullActs
                       Proofs.SkipListFullActs2 Proofs.SkipListFullMono Proofs.SkipListFullFind Proofs.SkipListFullProofs.
From LV Require Proofs.MichaelListInv Proofs.MichaelListLin Proofs.MichaelListFullInv.
Import ListNotations.
Local Open Scope Z_scope.

Definition emptyb (x : mptr) : bool := Nat.eqb (fst x) null && negb (snd x).

(** knowledge only *)
Definition kl0 (lv lv' : lview2) : Prop :=
  incl (vkn (fst lv)) (vkn (fst lv')) /\ incl (vfz (fst lv)) (vfz (fst lv')) /\ vown (fst lv') = vown (fst lv) /\
  vser (fst lv') = vser (fst lv) /\
  incl (xhl (snd lv)) (xhl (snd lv')) /\ incl (xfzu (snd lv)) (xfzu (snd lv')) /\ incl (xhe (snd lv)) (xhe (snd lv')) /\
  xoh (snd lv') = xoh (snd lv).

Lemma kle_kl0 lv lv' : kle lv lv' -> kl0 lv lv'.
Proof. intros (A1 & A2 & A3 & A4 & A5 & A6 & A7 & A8 & _). repeat split; auto. Qed.
Lemma kl0_trans a b c : kl0 a b -> kl0 b c -> kl0 a c.
Proof.
  intros (A1 & A2 & A3 & A4 & A5 & A6 & A7 & A8) (B1 & B2 & B3 & B4 & B5 & B6 & B7 & B8).
  repeat split; try congruence; eapply incl_tran; eauto.
Qed.
Lemma kl0_set lv s w : kl0 lv (set_st2 lv s w).
Proof. repeat split; cbn; auto using incl_refl. Qed.
Lemma posk_kl0 n lv lv1 ps : kl0 lv lv1 -> posk_above n lv ps -> posk_above n lv1 ps.
Proof.
  intros (A1 & _ & _ & _ & A5 & _) H L HL. destruct (H L HL) as (A & B & C). split; [|split].
  - destruct A as [A|A]; [now left|right; auto].
  - destruct B as [B|B]; [now left|right; auto].
  - destruct C as [C|C]; [now left|right; auto].
Qed.

(** the states of a view during an extract: searching / observed the empty list *)
Definition extv (o : set_op) (sn : nat) (lv : lview2) : Prop :=
  vser (fst lv) = sn /\ vst (fst lv) = @Pending SetSpec o /\ xwatch (snd lv) = None.
Definition extE (o : set_op) (sn : nat) (lv : lview2) : Prop :=
  vser (fst lv) = sn /\ vst (fst lv) = @Linearized SetSpec o (RVal None) /\ xwatch (snd lv) = None.

Lemma extv_vle2 o sn lv lv' : vle2 lv lv' -> extv o sn lv -> extv o sn lv'.
Proof. intros V (A & B & C). split; [rewrite (kle_ser _ _ (vle2_kle _ _ V)); exact A|]. split; [rewrite (vle2_st _ _ V); exact B|rewrite (vle2_w _ _ V); exact C]. Qed.

Section WithNodes.
Variable nodes : cfg0.
Local Notation SAFE := (SAFE nodes).
Local Notation SAFEm := (SAFEm nodes).

Ltac nxl := intros g0; cbn; repeat split; eauto.
Ltac snx := apply Sm_nx; [nxl|intros ?].

(** ** the two linearization points of extract *)
Lemma S_cas0_mark_ext {R} t del p key h o (k : V -> prog R) lv :
  In del (vkn (fst lv)) -> key_of del = key -> snd p = false -> lnk 0 del (fst p) ->
  is_ext o = true -> vst (fst lv) = @Pending SetSpec o -> xwatch (snd lv) = None ->
  In (del, h) (xhe (snd lv)) -> (forall l, (1 <= l < h)%nat -> In (del, l) (xfzu (snd lv))) ->
  (forall cur, lnk 0 del (fst cur) -> SAFE t (k (VC false cur)) (ld1 0 cur lv)) ->
  SAFE t (k (VC true p))
       (mkLV (vkn (fst lv)) ((del, fst p) :: vfz (fst lv)) (vown (fst lv)) (vser (fst lv)) (@Linearized SetSpec o (RVal (Some key))), snd lv) ->
  SAFE t (Act (a_cas_next del 0 p (fst p, true)) k) lv.
Proof.
  intros Hk Hkey Hm Hl Hx Hst Hwt Hhe Hfz Hfail Hok. subst key. apply S_act. intros g a tr Hi Hv. pose proof Hi as (Hs & He & Hil). unfold a_cas_next.
  pose proof (ok2_view g a t Hs He) as Hok2. rewrite Hv in Hok2. pose proof Hok2 as [O1 O2].
  pose proof O1 as (K & F & O & Fr).
  assert (Hp : apub (b_base a) del = true) by (rewrite Forall_forall in K; auto).
  destruct (mp_eqb (nxt g del 0) p) eqn:E; cbn [fst snd].
  2:{ exists (apub (b_base a)), (aL (b_base a)), (ld1 0 (nxt g del 0) lv), (aatr (b_base a)), (b_wl a).
      split; [now apply cas_fail_step|apply Hfail; apply (s_I _ _ Hs)]. }
  apply mp_eqb_eq in E. rewrite E.
  assert (Hd : nxt g del 0 = (fst p, false)) by (rewrite E; destruct p; cbn in *; congruence).
  assert (HinL : In del (aL (b_base a))) by (apply (s_inL _ _ Hs); [exact Hp|now rewrite Hd]).
  set (lv' := (mkLV (vkn (fst lv)) ((del, fst p) :: vfz (fst lv)) (vown (fst lv)) (vser (fst lv)) (@Linearized SetSpec o (RVal (Some (key_of del)))),
               snd lv)).
  change (mkG (upd2 (nxt g) del 0 (fst p, true)) (unl g) (hgt_of g) (hgt g) (cnt g)) with (setnx g del 0 (fst p, true)).
  set (g' := setnx g del 0 (fst p, true)).
  assert (HIS : forall atr', IS g' (mk_a (b_base a) t (apub (b_base a)) (aL (b_base a)) (fst lv') atr')).
  { intros atr'. apply IS_cell; [exact Hs|exact Hl|apply (s_closed_ptr g (b_base a) del Hs (fst p) Hd)| | | | |].
    + intros _. right. cbn [fst]. now rewrite Hd.
    + intros _ ->. apply (s_node _ _ Hs) in Hp. unfold isnode, head in Hp. lia.
    + intros _ _ X. discriminate.
    + apply lv_ok_others; [exact Hs|intros _; left; now rewrite Hd|intros _; right; left; exact Hp].
    + split; [exact K|]. split; [|split].
      * constructor; [cbn [fst snd]; split; [exact Hp|now rewrite setnx_same]|].
        rewrite Forall_forall in *. intros [c nx] Hin. destruct (F _ Hin) as (F1 & F2). cbn [fst snd] in *. split; [exact F1|].
        rewrite setnx_other0; [exact F2|]. intros ->. rewrite Hd in F2. discriminate.
      * cbn [vown lv' fst]. unfold own_ok in *. destruct (vown (fst lv)) as [[n v]|]; [|exact Logic.I]. destruct O as (W1 & W2 & W3 & W4).
        repeat split; auto. rewrite setnx_other0; [exact W4|]. intros ->. congruence.
      * exact Fr. }
  assert (Hx' : x_ok g' (apub (b_base a)) t lv').
  { destruct O2 as (X1 & X2 & X3 & X4 & X5). split; [|split; [|split; [|split]]]; cbn [lv' fst snd vown].
    - intros d Hd'. congruence.
    - exact X2.
    - eapply Forall_impl; [|exact X3]. intros [c l] (A & B & C). cbn [fst snd] in *. repeat split; auto.
      unfold g'. rewrite setnx_other; [exact C|]. intros X. inversion X; subst. lia.
    - exact X4.
    - exact X5. }
  destruct (inv_step2x nodes g g' a t (apub (b_base a)) (aL (b_base a)) lv' (b_wl a) tr (Conc.tag t [EvAcc KCas (o_next del 0) true])) as (atr' & Hinv).
  - intros atr'. split; [cbn [b_base mk_a2]; apply HIS|].
    apply EX_cell; [exact He|auto|intros n E1 E2; congruence| |intros X; lia| |exact Hx'|cbn [lv' snd]; congruence|apply incl_refl].
    + cbn [fst]. pose proof (e_h1 _ _ He del 0%nat) as X. now rewrite Hd in X.
    + intros _ _ _ l' Hl'. destruct O2 as (_ & _ & X3 & X4 & _). rewrite Forall_forall in X3, X4.
      destruct (X4 _ Hhe) as [_ Xh]. cbn [fst snd] in Xh. rewrite Xh in Hl'.
      destruct (X3 _ (Hfz l' Hl')) as (_ & _ & Xm). exact Xm.
  - intros Hi2. apply (IL2_mark_ext nodes g a t del (fst p) lv' (b_wl a) tr KCas (o_next del 0) true o Hs Hi2 He Hx); auto.
    + rewrite Hv. exact Hst.
    + rewrite Hv. exact Hwt.
  - exact Hil.
  - exists (apub (b_base a)), (aL (b_base a)), lv', atr', (b_wl a). split; [exact Hinv|exact Hok].
Qed.

Lemma walk_head_empty g a : IS g a -> fst (nxt g head 0) = null -> aL a = [].
Proof.
  intros Hs E. pose proof (s_walk _ _ Hs) as W. destruct (aL a) as [|n r]; [reflexivity|]. cbn [walk] in W. destruct W as (W1 & W2 & _). congruence.
Qed.

(** level-0 load of the head's cell: null means that the set is empty now *)
Lemma S_ld_empty {R} t o (want : mptr -> bool) (k : V -> prog R) lv :
  is_ext o = true -> vst (fst lv) = @Pending SetSpec o -> xwatch (snd lv) = None ->
  (forall x, lnk 0 head (fst x) -> snd x = false ->
     SAFE t (k (VP x)) (if want x && emptyb x then set_st2 (ldrec head 0 x lv) (@Linearized SetSpec o (RVal None)) None
                        else ldrec head 0 x lv)) ->
  SAFE t (Act (a_ld_next head 0) k) lv.
Proof.
  intros Hx Hst Hw H. apply S_act. intros g a tr Hi Hv. cbn [a_ld_next fst snd]. set (x := nxt g head 0).
  pose proof Hi as (Hs & He & Hil). destruct (same_ldrec head 0 x lv) as [E1 E2].
  assert (Hok : ok2 g (apub (b_base a)) t (ldrec head 0 x lv)) by (apply ok2_ldrec; auto; [rewrite <- Hv; now apply ok2_view|now left]).
  assert (Hm : snd x = false) by apply (s_head _ _ Hs).
  specialize (H x (s_I _ _ Hs head 0%nat) Hm).
  destruct (want x && emptyb x) eqn:Eb.
  - apply andb_true_iff in Eb. destruct Eb as [_ Eb]. apply andb_true_iff in Eb. destruct Eb as [Eb _]. apply Nat.eqb_eq in Eb.
    set (lv' := set_st2 (ldrec head 0 x lv) (@Linearized SetSpec o (RVal None)) None).
    destruct (inv_step2x nodes g g a t (apub (b_base a)) (aL (b_base a)) lv' (b_wl a) tr (Conc.tag t [EvAcc KLd (o_next head 0) true])) as (atr' & Hinv).
    + intros atr'. destruct Hok as [O1 O2]. split.
      * cbn [b_base mk_a2 lv' set_st2 fst]. apply (IS_view g g (b_base a) t _ atr' Hs eq_refl (s_HB _ _ Hs)). now apply lv_ok_set.
      * apply (EX_view g); auto using incl_refl; [|cbn; congruence]. apply x_ok_set; [exact O2|discriminate].
    + intros Hi2. apply (IL2_lp nodes g g a t (apub (b_base a)) (aL (b_base a)) lv' (b_wl a) tr KLd (o_next head 0) true o Hi2 He).
      * rewrite Hv, Hst. now left.
      * destruct o; try discriminate; reflexivity.
      * reflexivity.
      * reflexivity.
      * intros S HS. assert (HL : aL (b_base a) = []) by (eapply walk_head_empty; eauto).
        assert (S = []).
        { destruct S as [|z S']; [reflexivity|]. exfalso. assert (Z : zmem z (z :: S') = true) by (cbn; now rewrite Z.eqb_refl).
          apply HS in Z. destruct Z as (n & Hn & _). rewrite HL in Hn. destruct Hn. }
        subst S. destruct o; try discriminate; cbn [set_step fst snd]; (split; [exact HS|reflexivity]).
    + exact Hil.
    + exists (apub (b_base a)), (aL (b_base a)), lv', atr', (b_wl a). split; [exact Hinv|exact H].
  - exists (apub (b_base a)), (aL (b_base a)), (ldrec head 0 x lv), (aatr (b_base a)), (b_wl a). split; [|exact H].
    eapply keep_step; eauto.
Qed.

Lemma Sm_cas0_mark_ext {R} t del p key h o (k : V -> prog R) lv :
  In del (vkn (fst lv)) -> key_of del = key -> snd p = false -> lnk 0 del (fst p) ->
  is_ext o = true -> vst (fst lv) = @Pending SetSpec o -> xwatch (snd lv) = None ->
  In (del, h) (xhe (snd lv)) -> (forall l, (1 <= l < h)%nat -> In (del, l) (xfzu (snd lv))) ->
  (forall cur lv1, lnk 0 del (fst cur) -> vle2 lv lv1 -> knownz2 lv1 (fst cur) -> SAFEm t (k (VC false cur)) lv1) ->
  SAFEm t (k (VC true p))
       (mkLV (vkn (fst lv)) ((del, fst p) :: vfz (fst lv)) (vown (fst lv)) (vser (fst lv)) (@Linearized SetSpec o (RVal (Some key))), snd lv) ->
  SAFEm t (Act (a_cas_next del 0 p (fst p, true)) k) lv.
Proof.
  intros Hk Hkey Hm Hl Hx Hst Hw Hhe Hfz Hf0 Hok lv' Hle. pose proof Hle as ((L1 & L2 & L3 & L4 & L5 & L6 & L7 & L8 & L9) & B & C).
  apply (S_cas0_mark_ext t del p key h o);
    [apply L1; exact Hk|exact Hkey|exact Hm|exact Hl|exact Hx|rewrite B; exact Hst|rewrite C; exact Hw|apply L7; exact Hhe|intros l Hl'; apply L6; now apply Hfz| |].
  - intros cur Hc. apply (Hf0 cur (ld1 0 cur lv')); auto; [eapply vle2_trans; [exact Hle|apply vle2_ld1]|apply knownz2_ld1|apply vle2_refl].
  - apply Hok. rewrite L3, L4. split; [|split; cbn; auto]. repeat split; cbn; auto using incl_cons2. left. split; cbn; auto.
Qed.

Lemma Sm_ld_empty {R} t o (want : mptr -> bool) (k : V -> prog R) lv sn :
  is_ext o = true -> extv o sn lv ->
  (forall x lv1, lnk 0 head (fst x) -> snd x = false -> knownz2 lv1 (fst x) -> hld lv1 0 (fst x) -> kl0 lv lv1 ->
     (want x && emptyb x = true -> extE o sn lv1) -> (want x && emptyb x = false -> vle2 lv lv1) -> SAFEm t (k (VP x)) lv1) ->
  SAFEm t (Act (a_ld_next head 0) k) lv.
Proof.
  intros Hx (Es & Est & Ew) H lv' Hle.
  apply (S_ld_empty t o want); [exact Hx|rewrite (vle2_st _ _ Hle); exact Est|rewrite (vle2_w _ _ Hle); exact Ew|]. intros x Lx Hm.
  pose proof (vle2_ldrec head 0 x lv') as V. assert (V1 : vle2 (ld1 0 x lv') (ldrec head 0 x lv')).
  { unfold ldrec. cbv zeta. destruct (snd x); [apply vle2_addfz2|apply vle2_refl]. }
  assert (V0 : vle2 lv (ldrec head 0 x lv')) by (eapply vle2_trans; eauto).
  assert (K1 : knownz2 (ldrec head 0 x lv') (fst x)) by (eapply knownz2_kle; [apply V1|apply knownz2_ld1]).
  assert (D1 : hld (ldrec head 0 x lv') 0 (fst x)) by (eapply hld_kle; [apply V1|apply hld_ld1]).
  destruct (want x && emptyb x) eqn:Eb.
  - apply (H x (set_st2 (ldrec head 0 x lv') (@Linearized SetSpec o (RVal None)) None) Lx Hm).
    + exact K1.
    + exact D1.
    + eapply kl0_trans; [apply kle_kl0, V0|apply kl0_set].
    + intros _. split; [cbn; rewrite (kle_ser _ _ (vle2_kle _ _ V0)); exact Es|split; reflexivity].
    + intros X. congruence.
    + apply vle2_refl.
  - apply (H x (ldrec head 0 x lv') Lx Hm K1 D1).
    + apply kle_kl0, V0.
    + intros X. congruence.
    + intros _. exact V0.
    + apply vle2_refl.
Qed.

Lemma Sm_emit_res_gen {R} t o r o' r' ra b (k : prog R) lv :
  vst (fst lv) = @Linearized SetSpec o r -> xwatch (snd lv) = None -> emap (@Linearized SetSpec o r) = @Linearized SetSpec o' r' ->
  enc_res (fst (op_code o)) ra = r' ->
  enc_op (fst (op_code o)) (snd (op_code o)) ra b =
    enc_op (fst (op_code o)) (snd (op_code o)) (fst (tgof (@Linearized SetSpec o r))) (snd (tgof (@Linearized SetSpec o r))) ->
  SAFEm t k (set_st2 lv (@Idle SetSpec) None) -> SAFEm t (Emit (ev_res ra b) k) lv.
Proof.
  intros Hst Hw Hem Hres Hop Hk lv' Hle.
  apply (S_emit_res_gen nodes t o r o' r' ra b); auto; [rewrite (vle2_st _ _ Hle); exact Hst|rewrite (vle2_w _ _ Hle); exact Hw|].
  apply Hk. now apply vle2_set_st2.
Qed.

Lemma Sm_emit_inv_gen {R} t c key (k : prog R) lv :
  op_code (enc_op c key 0 0) = (c, key) -> (c_noex nodes = true -> cok c = true) -> vst (fst lv) = @Idle SetSpec -> xwatch (snd lv) = None ->
  SAFEm t k (set_st2 lv (@Pending SetSpec (enc_op c key 0 0)) None) -> SAFEm t (Emit (ev_inv c key) k) lv.
Proof.
  intros Hc Hn Hst Hw Hk lv' Hle. apply S_emit_inv_gen; auto; [rewrite (vle2_st _ _ Hle); exact Hst|rewrite (vle2_w _ _ Hle); exact Hw|].
  apply Hk. now apply vle2_set_st2.
Qed.

(** ** GuardArray::protect of the head's level-0 cell *)
Lemma T_ga_protect_empty {R} t o sn fuel : forall s slot (k : option mptr -> prog R) lv,
  is_ext o = true -> extv o sn lv ->
  (forall lv1, vle2 lv lv1 -> SAFEm t (k None) lv1) ->
  (forall x lv1, lnk 0 head (fst x) -> snd x = false -> knownz2 lv1 (fst x) -> hld lv1 0 (fst x) -> kl0 lv lv1 ->
     (fst x = null -> extE o sn lv1) -> (fst x <> null -> vle2 lv lv1) -> SAFEm t (k (Some x)) lv1) ->
  SAFEm t (ga_protect fuel s slot head 0 k) lv.
Proof.
  induction fuel as [|f IH]; intros s slot k lv Hx Hv H0 H1; cbn [ga_protect]; [apply H0, vle2_refl|].
  apply Sm_ld. intros x1 lv1 V1 L1 K1 D1. snx. snx.
  apply (Sm_ld_empty t o (mp_eqb x1)) with (sn := sn); [exact Hx|now apply (extv_vle2 o sn lv)|].
  intros x2 lv2 L2 M2 K2 D2 KL HE HV. cbn [vp].
  destruct (mp_eqb x1 x2) eqn:E.
  - apply mp_eqb_eq in E. subst x2. cbn [andb] in HE, HV. apply H1; auto.
    + eapply kl0_trans; [apply kle_kl0, V1|exact KL].
    + intros En. apply HE. unfold emptyb. now rewrite En, M2.
    + intros Nn. eapply vle2_trans; [exact V1|]. apply HV. unfold emptyb. apply Nat.eqb_neq in Nn. now rewrite Nn.
  - cbn [andb] in HV. specialize (HV eq_refl). assert (V : vle2 lv lv2) by (eapply vle2_trans; eauto).
    apply IH; auto; [now apply (extv_vle2 o sn lv)| |].
    + intros lv3 V3. apply H0. eapply vle2_trans; eauto.
    + intros x lv3 Lx Mx Kx Dx KL3 HE3 HV3. apply H1; auto; [eapply kl0_trans; [apply kle_kl0, V|exact KL3]|].
      intros Nn. eapply vle2_trans; [exact V|now apply HV3].
Qed.

(** ** find_min_position *)
Definition curpost (o : set_op) (sn : nat) (ps : pos) (lv : lview2) : Prop :=
  (pcur ps = null /\ extE o sn lv) \/ (isnode (pcur ps) /\ In (pcur ps) (vkn (fst lv)) /\ extv o sn lv).

Lemma T_fmin_levels {R} t o sn fuel : forall n s ps (retry : TL -> prog R) k kf lv,
  tlk t sn s -> (n <= MAXH)%nat -> is_ext o = true ->
  (forall L, (n <= L < MAXH)%nat -> pprev ps L = head) -> posk_above n lv ps ->
  ((0 < n)%nat -> extv o sn lv) -> (n = 0%nat -> curpost o sn ps lv) ->
  (forall s' lv1, tlk t sn s' -> extv o sn lv1 -> SAFEm t (retry s') lv1) -> (forall lv1, vser (fst lv1) = sn -> SAFEm t kf lv1) ->
  (forall s' ps' lv1, tlk t sn s' -> (forall L, (L < MAXH)%nat -> pprev ps' L = head) -> posk lv1 ps' -> curpost o sn ps' lv1 ->
     SAFEm t (k s' ps') lv1) ->
  SAFEm t (fmin_levels fuel n s ps retry k kf) lv.
Proof.
  induction n as [|lvl IH]; intros s ps retry k kf lv Ht Hn Hx Hp Hq Hv Hc Hr Hf Hk; cbn [fmin_levels].
  - apply Hk; auto. intros L HL. apply Hp. lia.
  - specialize (Hv ltac:(lia)). apply Sm_assign.
    (* the continuation after GuardArray::protect returned cur *)
    assert (Hafter : forall (cur : mptr) (lv1 : lview2), lnk lvl head (fst cur) -> knownz2 lv1 (fst cur) -> hld lv1 lvl (fst cur) -> kl0 lv lv1 ->
              (lvl = 0%nat -> fst cur = null -> extE o sn lv1) -> ((lvl = 0%nat -> fst cur <> null) -> extv o sn lv1) ->
              SAFEm t (let next ps' s' := fmin_levels fuel lvl s' ps' retry k kf in
                       let ps' := mkPos (set_lvl (pprev ps) lvl head) (set_lvl (psucc ps) lvl (fst cur)) (fst cur) (pg ps) in
                       if Nat.eqb (fst cur) null then next ps' s
                       else Act (a_ld_next (fst cur) lvl) (fun vs => Act (a_ld_next head lvl) (fun vr =>
                              if negb (mp_eqb (vp vr) (fst cur, false)) then retry s
                              else if snd (vp vs) then help_remove fuel s lvl head (fst cur) (fun rs => match rs with Ok s' => retry s' | Fuel => kf end)
                              else next ps' s))) lv1).
    { intros cur lv1 Lc Kc Dc KL HE HV. cbv zeta.
      set (ps' := mkPos (set_lvl (pprev ps) lvl head) (set_lvl (psucc ps) lvl (fst cur)) (fst cur) (pg ps)).
      assert (Hnext : forall s' lv2, tlk t sn s' -> knownz2 lv2 (fst cur) -> hld lv2 lvl (fst cur) -> kl0 lv lv2 ->
                (lvl = 0%nat -> fst cur = null -> extE o sn lv2) -> ((lvl = 0%nat -> fst cur <> null) -> extv o sn lv2) ->
                (fst cur <> null -> In (fst cur) (vkn (fst lv2))) ->
                SAFEm t (fmin_levels fuel lvl s' ps' retry k kf) lv2).
      { intros s' lv2 Hs' Kc2 Dc2 KL2 HE2 HV2 Hin2. apply IH; auto; [lia| | | |].
        - intros L HL. unfold ps'. cbn [pprev]. destruct (Nat.eq_dec L lvl) as [->|NL]; [now rewrite set_lvl_same|].
          rewrite set_lvl_other by exact NL. apply Hp. lia.
        - intros L HL. unfold ps'. cbn [pprev psucc]. destruct (Nat.eq_dec L lvl) as [->|NL].
          + rewrite !set_lvl_same. split; [now left|split; assumption].
          + rewrite !set_lvl_other by exact NL. eapply posk_kl0; [exact KL2|exact Hq|lia].
        - intros Hl. apply HV2. lia.
        - intros ->. unfold curpost, ps'. cbn [pcur]. destruct (Nat.eq_dec (fst cur) null) as [E|E]; [left; auto|right].
          split; [destruct Lc as [X|X]; [contradiction|eapply ltp_isnode; eauto]|]. split; [now apply Hin2|]. apply HV2. auto. }
      destruct (Nat.eqb_spec (fst cur) null) as [En|Nn].
      - apply Hnext; auto. contradiction.
      - assert (Hve : extv o sn lv1) by (apply HV; auto).
        pose proof (lnk_ltp _ _ _ Lc Nn) as Lt.
        assert (Kc1 : known2 lv1 (fst cur)) by (apply known_of_knownz2; assumption).
        assert (Hin : In (fst cur) (vkn (fst lv1))) by (destruct Kc1 as [E|E]; [exfalso; destruct Lt as [X _]; unfold isnode, head in *; lia|exact E]).
        apply Sm_ldk; [exact Kc1|]. intros xs lv2 V2 Ls Ks Ds Fs. apply Sm_ld. intros xr lv3 V3 Lr Kr Dr. cbn [vp].
        assert (V13 : vle2 lv1 lv3) by (eapply vle2_trans; eauto).
        assert (Hve3 : extv o sn lv3) by (now apply (extv_vle2 o sn lv1)).
        destruct (negb (mp_eqb xr (fst cur, false))); [now apply Hr|].
        destruct (snd xs).
        + apply (T_help_remove nodes t sn); [exact Ht|exact Lt|now left|eapply known2_kle; [apply V13|exact Kc1]|].
          intros [s'|] lv4 V4 Hs; [apply Hr; [exact Hs|now apply (extv_vle2 o sn lv3)]|apply Hf].
          destruct Hve3 as (X & _). rewrite (kle_ser _ _ (vle2_kle _ _ V4)). exact X.
        + apply Hnext; auto.
          * eapply knownz2_kle; [apply V13|exact Kc].
          * eapply hld_kle; [apply V13|exact Dc].
          * eapply kl0_trans; [exact KL|apply kle_kl0, V13].
          * intros _ X. contradiction.
          * intros _. eapply kn_kle; [apply V13|exact Hin]. }
    destruct lvl as [|lvl'].
    + apply (T_ga_protect_empty t o sn); [exact Hx|exact Hv| |].
      * intros lv1 V. apply Hf. destruct Hv as (X & _). rewrite (kle_ser _ _ (vle2_kle _ _ V)). exact X.
      * intros cur lv1 Lc Mc Kc Dc KL HE HV. apply Hafter; auto. intros Hnn. apply (extv_vle2 o sn lv); [apply HV; auto|exact Hv].
    + apply T_ga_protect.
      * intros lv1 V. apply Hf. destruct Hv as (X & _). rewrite (kle_ser _ _ (vle2_kle _ _ V)). exact X.
      * intros cur lv1 V Lc Kc Dc. apply Hafter; auto; [apply kle_kl0, V|discriminate|]. intros _. now apply (extv_vle2 o sn lv).
Qed.

Lemma T_find_min_position {R} t o sn fuel : forall s ps (k : TL -> pos -> prog R) kf lv,
  tlk t sn s -> is_ext o = true -> extv o sn lv ->
  (forall s' ps' lv1, tlk t sn s' -> (forall L, (L < MAXH)%nat -> pprev ps' L = head) -> posk lv1 ps' -> curpost o sn ps' lv1 ->
     SAFEm t (k s' ps') lv1) ->
  (forall lv1, vser (fst lv1) = sn -> SAFEm t kf lv1) ->
  SAFEm t (find_min_position fuel s ps k kf) lv.
Proof.
  induction fuel as [|f IH]; intros s ps k kf lv Ht Hx Hv Hk Hf; cbn [find_min_position]; [apply Hf; apply Hv|].
  apply (T_fmin_levels t o sn); [exact Ht|lia|exact Hx|intros L HL; lia|intros L HL; lia|intros _; exact Hv|unfold MAXH; discriminate| |exact Hf|exact Hk].
  intros s' lv1 Hs' Hv1. now apply IH.
Qed.

End WithNodes.
