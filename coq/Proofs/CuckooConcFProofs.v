(** * CuckooSet with the refinable policy: linearizability and no duplicates for every schedule.

    The specifications of [CuckooConcProofs.v] (probe sets, linearization points) replayed against the combined
    invariant [InvF] of [CuckooConcFInv.v], with the lock / ownership steps of [CuckooConcRefProofs.v]. *)
From Coq Require Import ZArith List Bool Lia PeanoNat.
From LV Require Import Base.Conc Base.Events Base.Lin Spec.Specs Proofs.LinProofs
     Model.CuckooConc Proofs.StripedConcSpec Proofs.CuckooConcInv Proofs.CuckooConcRefInv Proofs.CuckooConcRefProofs
     Proofs.CuckooConcFInv.
Import ListNotations.
Local Open Scope nat_scope.

Section RefinableF.
  Variable cf : conf.
  Hypothesis Hpol : c_pol cf = Refinable.
  Hypothesis Hnl : 0 < c_nl cf.
  Notation L := (c_nl cf).
  Notation Inv := (CuckooConcFInv.InvF cf).
  Notation CoreB := (CuckooConcFInv.CoreB cf).
  Notation Abs := CuckooConcFInv.Abs.
  Notation safe := (@Conc.safe G V ev FAux fview fvw Inv).
  Notation has0 := CuckooConcFInv.has0.
  Notation all0 := CuckooConcFInv.all0.
  Notation auth := CuckooConcFInv.auth.
  Notation clk := CuckooConcFInv.clk.
  Notation T := CuckooConcFInv.T.
  Notation allp := CuckooConcFInv.allp.
  Notation absent := (CuckooConcFInv.absent cf).
  Notation h0 := (CuckooConcFInv.h0 cf).
  Notation h1 := (CuckooConcFInv.h1 cf).
  Notation hx := (CuckooConcFInv.hx cf).

  Definition optQ {A} (P : A -> fview -> Prop) : option A -> fview -> Prop :=
    fun r v => match r with Some x => P x v | None => True end.

  Lemma safe_bindo {A B} t (p : prog (option A)) (q : A -> prog (option B)) (Q : B -> fview -> Prop) l :
    safe t p l (optQ (fun x l' => safe t (q x) l' (optQ Q))) -> safe t (bindo p q) l (optQ Q).
  Proof.
    intros H. unfold bindo. apply Conc.safe_bind. eapply Conc.safe_weaken; [|exact H].
    intros [x|] l' Hx; cbn in *; auto.
  Qed.
  Lemma safe_thenu {B} t (p : prog unit) (q : prog B) (Q : B -> fview -> Prop) l :
    safe t p l (fun _ l' => safe t q l' Q) -> safe t (thenu p q) l Q.
  Proof. intros H. unfold thenu. apply Conc.safe_bind. exact H. Qed.
  Lemma safe_ret {R} t (r : R) (Q : R -> fview -> Prop) l : Q r l -> safe t (Ret r) l Q.
  Proof. intros H. exact H. Qed.
  Lemma safe_oret {R} t (r : R) (Q : R -> fview -> Prop) l : Q r l -> safe t (oret r) l (optQ Q).
  Proof. intros H. exact H. Qed.

  (** the policy part of the views is unchanged *)
  Lemma CoreR_keepw g a t v' : wof v' = wof (a_view a t) -> CoreR g (wv a) -> CoreR g (wv (setv a t v')).
  Proof.
    intros E. apply CoreR_ext. intros t0. rewrite wv_setv. unfold rsetv. destruct (Nat.eqb_spec t0 t) as [->|Hne]; [exact E|reflexivity].
  Qed.

  (** an access that changes nothing the invariant reads *)
  Definition quietF (g g' : G) : Prop := quiet g g' /\ tabs g' = tabs g.
  Lemma quietF_refl g : quietF g g.
  Proof. split; [apply quiet_refl|reflexivity]. Qed.
  Lemma quietF_count g x : quietF g (set_count g x).
  Proof. split; [apply quiet_count|reflexivity]. Qed.

  Lemma Inv_acc g g' a tr t k o ok : Inv g a tr -> quietF g g' -> Inv g' a (tr ++ Conc.tag t [EvAcc k o ok]).
  Proof.
    intros (Hr & Hb & Ha) [[Hl Hp] Ht]. pose proof Hp as (D1 & D2 & D3 & D4 & D5 & D6 & D7). split; [|split].
    - eapply CoreR_same; eauto.
    - eapply CoreB_same; eauto.
    - eapply Abs_keep; eauto; [apply hist_of_acc|apply dropped_app].
  Qed.

  Lemma safe_silent {R} t (f : action) (k : V -> prog R) (Q : R -> fview -> Prop) v :
    (forall g, quietF g (fst (fst (f g))) /\ exists k o ok, snd (f g) = [EvAcc k o ok]) ->
    (forall g a tr, Inv g a tr -> a_view a t = v -> safe t (k (snd (fst (f g)))) v Q) ->
    safe t (Act f k) v Q.
  Proof.
    intros Hf Hk. cbn [Conc.safe]. intros g a tr Hi Hv. unfold fvw in Hv.
    destruct (Hf g) as (Hq & k0 & o & ok & He). exists a. rewrite He.
    split; [eapply Inv_acc; eauto|]. split; [apply frame_refl|]. unfold fvw. rewrite Hv. eapply Hk; eauto.
  Qed.
  Ltac silent := intros ?g; split; [first [apply quietF_refl|apply quietF_count]|do 3 eexists; reflexivity].

  (** *** the six steps on a reentrant lock word *)
  Definition vlock (g : G) (v : fview) (H' : list lk) (m' : micro) : fview :=
    mkFV (v_op v) H' m' (v_mask v) (fun tb b => T g tb b) (v_fly v) (v_pend v) (v_own v) (v_anc v) (v_chk v) (v_gs v) (v_acc v) (v_wmask v).
  Definition vrel (v : fview) (H' : list lk) (m' : micro) : fview :=
    mkFV (v_op v) H' m' (v_mask v) (v_reg v) (v_fly v) (v_pend v) (v_own v) (keep_val H' (v_anc v)) (keep_val H' (v_chk v)) (v_gs v) (v_acc v) (v_wmask v).

  (** the in-flight item keeps its cells (or the thread is the exclusive owner) *)
  Definition flyok (v : fview) (H' : list lk) (anc' : option (nat * nat)) : Prop :=
    forall x, In x (v_fly v) -> (anc' <> None \/ all0 v) /\ (all0 v \/ (In (clk v 0 (h0 x)) H' /\ In (clk v 1 (h1 x)) H')).

  Lemma Abs_lock g g' a t v' tr k o ok :
    Abs g a tr -> tabs g' = tabs g -> v_op v' = v_op (a_view a t) -> v_fly v' = fly a t -> v_pend v' = pend a t ->
    Abs g' (setv a t v') (tr ++ Conc.tag t [EvAcc k o ok]).
  Proof.
    intros Ha Ct H1 H2 H3. eapply Abs_keep; eauto; [| apply hist_of_acc | apply dropped_app].
    intros t0. destruct (Nat.eq_dec t0 t) as [->|Hne].
    - rewrite setv_same, fly_same, pend_same. auto.
    - rewrite setv_other, fly_other, pend_other by exact Hne. auto.
  Qed.

  (** the probe-set part under an acquisition step *)
  Lemma CoreB_acq g g' a t (H' : list lk) m' :
    CoreB g a -> mask g' = mask g -> tabs g' = tabs g -> cur g' = cur g -> pcap g' = pcap g ->
    (forall l, In l (held a t) -> In l H') ->
    CoreB g' (setv a t (vlock g (a_view a t) H' m')).
  Proof.
    intros Hb Cm Ct Cc Cp Hsup.
    apply (CuckooConcFInv.CoreB_view cf g g' a t _ Hb Cm Ct); cbn [vlock v_fly v_pend v_anc v_gs v_mask v_reg v_held v_own];
      [intros t0 _ _; auto|reflexivity|reflexivity| | | | |].
    - rewrite Cc, Cp. apply (b_gs Hb).
    - intros H0. symmetry. apply (c_mask Hb t). exact H0.
    - reflexivity.
    - intros x Hx. destruct (c_fly Hb t x Hx) as (A0 & A1 & _). split; [exact A0|].
      destruct A1 as [A1|[A1 A2]]; [now left|right; split; apply Hsup; assumption].
    - apply (c_pend Hb t).
  Qed.

  (** ... and under a release step *)
  Lemma CoreB_rel g g' a t (H' : list lk) m' :
    CoreB g a -> mask g' = mask g -> tabs g' = tabs g -> cur g' = cur g -> pcap g' = pcap g ->
    (forall l, In l H' -> In l (held a t)) ->
    flyok (a_view a t) H' (keep_val H' (v_anc (a_view a t))) ->
    CoreB g' (setv a t (vrel (a_view a t) H' m')).
  Proof.
    intros Hb Cm Ct Cc Cp Hsub Hfl.
    assert (Hh : has0 (vrel (a_view a t) H' m') -> has0 (a_view a t)).
    { intros [H|H]; [left|right; exact H]. cbn in H. destruct (keep_val H' (v_anc (a_view a t))) eqn:E; [|congruence].
      apply keep_val_some in E. destruct E as [E _]. congruence. }
    apply (CuckooConcFInv.CoreB_view cf g g' a t _ Hb Cm Ct); cbn [vrel v_fly v_pend v_anc v_gs v_mask v_reg v_held v_own];
      [intros t0 _ _; auto|reflexivity|reflexivity| | | | |].
    - intros H. rewrite Cc, Cp. apply (b_gs Hb). destruct (keep_val H' (v_anc (a_view a t))) eqn:E; [|congruence].
      apply keep_val_some in E. destruct E as [E _]. congruence.
    - intros H0. symmetry. apply (c_mask Hb t). auto.
    - intros tb b Htb [A0 A1]. symmetry. apply (c_reg Hb t tb b Htb). split; [auto|].
      destruct A1 as [A1|A1]; [left; apply Hsub; exact A1|right; exact A1].
    - intros x Hx. destruct (Hfl x Hx) as [B0 B1]. split; auto.
    - apply (c_pend Hb t).
  Qed.

  Definition lk_ok (v : fview) (l : lk) : Prop := CuckooConcRefProofs.lk_ok (wof v) l.

  Ltac split3 := split; [|split].

  (** first acquisition: compare-exchange 0 -> 1 succeeded *)
  Lemma Inv_lock_take g a tr t l :
    Inv g a tr -> lk_ok (a_view a t) l -> mic a t = MNone -> rspin g l = 0 ->
    Inv (set_rspin g (updl (rspin g) l 1)) (setv a t (vlock g (a_view a t) (l :: held a t) (MTaken l)))
        (tr ++ Conc.tag t [EvAcc KCas (o_rspin l) true]).
  Proof.
    intros (Hr & Hb & Ha) Hok Hm H0. split3.
    - apply CoreR_setv. apply (InvR_lock_take cf Hnl g (wv a) tr tr t l Hr Hok Hm H0).
    - apply CoreB_acq; auto. intros l' H. now right.
    - eapply Abs_lock; [exact Ha|reflexivity..].
  Qed.

  Lemma Inv_lock_own g a tr t l :
    Inv g a tr -> mic a t = MTaken l ->
    Inv (set_rown g (updl (rown g) l (S t))) (setv a t (vlock g (a_view a t) (held a t) MNone))
        (tr ++ Conc.tag t [EvAcc KSt (o_rown l) true]).
  Proof.
    intros (Hr & Hb & Ha) Hm. split3.
    - apply CoreR_setv. apply (InvR_lock_own cf Hnl g (wv a) tr tr t l Hr Hm).
    - apply CoreB_acq; auto.
    - eapply Abs_lock; [exact Ha|reflexivity..].
  Qed.

  Lemma Inv_lock_again g a tr t l :
    Inv g a tr -> mic a t = MNone -> In l (held a t) ->
    Inv (set_rspin g (updl (rspin g) l (S (rspin g l)))) (setv a t (vlock g (a_view a t) (l :: held a t) MNone))
        (tr ++ Conc.tag t [EvAcc KFaa (o_rspin l) true]).
  Proof.
    intros (Hr & Hb & Ha) Hm Hin. split3.
    - apply CoreR_setv. apply (InvR_lock_again g (wv a) tr tr t l Hr Hm Hin).
    - apply CoreB_acq; auto. intros l' H. now right.
    - eapply Abs_lock; [exact Ha|reflexivity..].
  Qed.

  Lemma sub_rem1 l (H : list lk) : forall l', In l' (rem1 l H) -> In l' H.
  Proof. intros l' H'. apply in_rem1 in H'. destruct H' as [[_ H']|[-> H']]; auto. apply in_cnt. lia. Qed.

  Lemma Inv_unlock_dec g a tr t l :
    Inv g a tr -> mic a t = MNone -> 1 < cnt (held a t) l ->
    Inv (set_rspin g (updl (rspin g) l (cnt (held a t) l - 1))) (setv a t (vrel (a_view a t) (rem1 l (held a t)) MNone))
        (tr ++ Conc.tag t [EvAcc KSt (o_rspin l) true]).
  Proof.
    intros (Hr & Hb & Ha) Hm Hn. split3.
    - apply CoreR_setv. apply (InvR_unlock_dec cf Hnl g (wv a) tr tr t l Hr Hm Hn).
    - apply (CoreB_rel g _ a t); auto; [apply sub_rem1|].
      assert (Hsup : forall l', In l' (held a t) -> In l' (rem1 l (held a t))).
      { intros l' H'. apply in_rem1. destruct (lk_dec l' l) as [->|E]; [right; split; auto|left; auto]. }
      intros x Hx. destruct (c_fly Hb t x Hx) as (A0 & A1 & _). split.
      + destruct A0 as [A0|A0]; [left|now right]. destruct (v_anc (a_view a t)) as [[gen i]|] eqn:E; [|congruence].
        cbn. destruct (in_dec lk_dec (gen, 0, i) (rem1 l (held a t))) as [|N]; [discriminate|]. exfalso. apply N. apply Hsup.
        apply (r_anc Hr t gen i). exact E.
      + destruct A1 as [A1|[A1 A2]]; [now left|right; split; apply Hsup; assumption].
    - eapply Abs_lock; [exact Ha|reflexivity..].
  Qed.

  Definition vmic (v : fview) (m' : micro) : fview :=
    mkFV (v_op v) (v_held v) m' (v_mask v) (v_reg v) (v_fly v) (v_pend v) (v_own v) (v_anc v) (v_chk v) (v_gs v) (v_acc v) (v_wmask v).

  Lemma Inv_unlock_disown g a tr t l :
    Inv g a tr -> mic a t = MNone -> cnt (held a t) l = 1 ->
    Inv (set_rown g (updl (rown g) l 0)) (setv a t (vmic (a_view a t) (MRel l)))
        (tr ++ Conc.tag t [EvAcc KSt (o_rown l) true]).
  Proof.
    intros (Hr & Hb & Ha) Hm Hn. split3.
    - apply CoreR_setv. apply (InvR_unlock_disown cf Hnl g (wv a) tr tr t l Hr Hm Hn).
    - apply (CuckooConcFInv.CoreB_same cf g); [|reflexivity..]. apply (CuckooConcFInv.CoreB_fp cf g a t _ Hb); cbn [vmic v_mask v_reg v_fly v_pend]; auto.
      + (split; [reflexivity|split; [reflexivity|split; reflexivity]]).
      + apply (c_fly1 Hb t).
      + apply (c_pend2 Hb t).
    - eapply Abs_lock; [exact Ha|reflexivity..].
  Qed.

  Lemma Inv_unlock_free g a tr t l :
    Inv g a tr -> mic a t = MRel l -> keeps (wof (a_view a t)) (rem1 l (held a t)) ->
    flyok (a_view a t) (rem1 l (held a t)) (keep_val (rem1 l (held a t)) (v_anc (a_view a t))) ->
    Inv (set_rspin g (updl (rspin g) l 0)) (setv a t (vrel (a_view a t) (rem1 l (held a t)) MNone))
        (tr ++ Conc.tag t [EvAcc KSt (o_rspin l) true]).
  Proof.
    intros (Hr & Hb & Ha) Hm Hk Hfl. split3.
    - apply CoreR_setv. apply (InvR_unlock_free cf Hnl g (wv a) tr tr t l Hr Hm Hk).
    - apply (CoreB_rel g _ a t); auto. apply sub_rem1.
    - eapply Abs_lock; [exact Ha|reflexivity..].
  Qed.

  (** *** specifications of lock / try_lock / unlock *)
  Lemma rown_me_iff g a t l : CoreR g (wv a) -> mic a t = MNone -> (rown g l = S t <-> In l (held a t)).
  Proof.
    intros Hr Hm. split.
    - intros E. destruct (r_rown Hr l) as [E0|(t1 & E1 & E2 & _)]; [lia|]. assert (t1 = t) by lia. subst. exact E2.
    - intros Hin. apply (r_rown2 Hr t l Hin); unfold wv; cbn; unfold mic in Hm; rewrite Hm; discriminate.
  Qed.

  (** [v'] is [v] with one more lock and a new snapshot of the probe sets *)
  Definition acquired (l : lk) (v v' : fview) : Prop :=
    exists r, v' = mkFV (v_op v) (l :: v_held v) MNone (v_mask v) r (v_fly v) (v_pend v) (v_own v) (v_anc v) (v_chk v) (v_gs v) (v_acc v) (v_wmask v).

  Lemma frame_trans a a1 a2 t : Conc.frame fvw t a a1 -> Conc.frame fvw t a1 a2 -> Conc.frame fvw t a a2.
  Proof. intros H1 H2 t' Hne. rewrite (H2 t' Hne). apply H1; exact Hne. Qed.

  Definition knows (v : fview) (g : G) : Prop :=
    (has0 v -> mask g = v_mask v) /\ (forall tb b, tb < 2 -> auth v tb b -> T g tb b = v_reg v tb b).

  Lemma knows_inv g a tr t : Inv g a tr -> knows (a_view a t) g.
  Proof. intros (_ & Hb & _). split; [apply (c_mask Hb)|apply (c_reg Hb)]. Qed.

  Definition post_ok (t : nat) (l : lk) (post : post_t) (v : fview) (Q : fview -> Prop) : Prop :=
    forall g a tr, Inv g a tr -> acquired l v (a_view a t) ->
      (forall tb b, v_reg (a_view a t) tb b = T g tb b) -> knows v g ->
      exists a', Inv (post g) a' tr /\ Conc.frame fvw t a a' /\ Q (a_view a' t).

  Lemma safe_faa t l post (Q : fview -> Prop) v :
    v_mic v = MNone -> In l (v_held v) -> post_ok t l post v Q ->
    safe t (Act (a_rspin_faa l post) (fun _ => oret tt)) v (optQ (fun _ => Q)).
  Proof.
    intros Hm Hin Hpost. cbn [Conc.safe]. intros g a tr Hi Hv. unfold fvw in Hv. cbn [a_rspin_faa fst snd].
    assert (Hma : mic a t = MNone) by (unfold mic; now rewrite Hv).
    assert (Hia : In l (held a t)) by (unfold held; now rewrite Hv).
    pose proof (Inv_lock_again g a tr t l Hi Hma Hia) as H1.
    pose proof (knows_inv g a tr t Hi) as Hk. rewrite Hv in Hk.
    set (a1 := setv a t (vlock g (a_view a t) (l :: held a t) MNone)) in *.
    destruct (Hpost _ a1 _ H1) as (a2 & H2 & Hf & HQ).
    - unfold a1. rewrite setv_same. unfold held. rewrite Hv. eexists. reflexivity.
    - intros tb b. unfold a1. now rewrite setv_same.
    - exact Hk.
    - exists a2. split; [exact H2|]. split; [eapply frame_trans; [apply frame_setv|exact Hf]|].
      apply safe_oret. exact HQ.
  Qed.

  Definition vtaken (v : fview) (l : lk) (r : nat -> nat -> list item) : fview :=
    mkFV (v_op v) (l :: v_held v) (MTaken l) (v_mask v) r (v_fly v) (v_pend v) (v_own v) (v_anc v) (v_chk v) (v_gs v) (v_acc v) (v_wmask v).

  Lemma has0_taken v l r : has0 v <-> has0 (vtaken v l r).
  Proof. reflexivity. Qed.
  Lemma auth_taken v l r tb b : auth v tb b -> auth (vtaken v l r) tb b.
  Proof. intros [H0 H1]. split; [exact H0|]. destruct H1 as [H1|H1]; [left; cbn; right; exact H1|right; exact H1]. Qed.

  Lemma safe_own t l post (Q : fview -> Prop) v r :
    (forall tb b, tb < 2 -> auth v tb b -> r tb b = v_reg v tb b) ->
    post_ok t l post v Q ->
    safe t (Act (a_rown_st l (S t) post) (fun _ => oret tt)) (vtaken v l r) (optQ (fun _ => Q)).
  Proof.
    intros Hr' Hpost. cbn [Conc.safe]. intros g a tr Hi Hv. unfold fvw in Hv. cbn [a_rown_st fst snd].
    assert (Hma : mic a t = MTaken l) by (unfold mic; now rewrite Hv).
    pose proof (Inv_lock_own g a tr t l Hi Hma) as H1.
    pose proof (knows_inv g a tr t Hi) as [Hk1 Hk2]. rewrite Hv in Hk1, Hk2.
    set (a1 := setv a t (vlock g (a_view a t) (held a t) MNone)) in *.
    destruct (Hpost _ a1 _ H1) as (a2 & H2 & Hf & HQ).
    - unfold a1. rewrite setv_same. unfold held. rewrite Hv. eexists. reflexivity.
    - intros tb b. unfold a1. now rewrite setv_same.
    - split.
      + intros H0. cbn [mask set_rown]. apply (Hk1 H0).
      + intros tb b Htb Ha. unfold CuckooConcFInv.T. cbn [tabs set_rown]. rewrite <- (Hr' tb b Htb Ha).
        apply (Hk2 tb b Htb (auth_taken v l r tb b Ha)).
    - exists a2. split; [exact H2|]. split; [eapply frame_trans; [apply frame_setv|exact Hf]|].
      apply safe_oret. exact HQ.
  Qed.

  Lemma safe_r_acq t l (Q : fview -> Prop) v : lk_ok v l -> v_mic v = MNone ->
    (forall r, (forall tb b, tb < 2 -> auth v tb b -> r tb b = v_reg v tb b) -> Q (vtaken v l r)) ->
    forall fuel, safe t (r_acq_outer fuel l) v (optQ (fun _ => Q)) /\ safe t (r_acq_inner fuel l) v (optQ (fun _ => Q)).
  Proof.
    intros Hok Hm HQ fuel. induction fuel as [|f IH]; split; cbn [r_acq_outer r_acq_inner]; try exact I.
    - cbn [Conc.safe]. intros g a tr Hi Hv. unfold fvw in Hv. unfold a_rspin_cas.
      destruct (Nat.eqb_spec (rspin g l) 0) as [E|E]; cbn [fst snd].
      + eexists. split; [apply (Inv_lock_take g a tr t l Hi); [now rewrite Hv|unfold mic; now rewrite Hv|exact E]|]. split; [apply frame_setv|].
        unfold fvw. rewrite setv_same. cbn [vn vnat Nat.eqb]. apply safe_oret. unfold vlock, held. rewrite Hv.
        pose proof (knows_inv g a tr t Hi) as [Hk1 Hk2]. rewrite Hv in Hk1, Hk2. apply (HQ (fun tb b => T g tb b)); auto.
      + exists a. split; [eapply Inv_acc; eauto; apply quietF_refl|]. split; [apply frame_refl|].
        unfold fvw. rewrite Hv. cbn [vn vnat Nat.eqb]. apply IH.
    - apply safe_silent; [silent|]. intros g a tr _ _. cbn [a_rspin_ld fst snd vn vnat].
      destruct (Nat.eqb (rspin g l) 0); apply IH.
  Qed.

  Lemma safe_r_lock_post t l (post : post_t) (Q : fview -> Prop) fuel v :
    lk_ok v l -> v_mic v = MNone -> post_ok t l post v Q ->
    safe t (r_lock fuel (S t) l post) v (optQ (fun _ => Q)).
  Proof.
    intros Hok Hm Hpost. unfold r_lock. cbn [Conc.safe]. intros g a tr Hi Hv. unfold fvw in Hv.
    cbn [a_rown_ld fst snd]. exists a.
    split; [eapply Inv_acc; eauto; apply quietF_refl|]. split; [apply frame_refl|]. unfold fvw. rewrite Hv. cbn [vn vnat].
    assert (Hma : mic a t = MNone) by (unfold mic; now rewrite Hv).
    pose proof (rown_me_iff g a t l (proj1 Hi) Hma) as Hiff. unfold held in Hiff. rewrite Hv in Hiff.
    destruct (Nat.eqb_spec (rown g l) (S t)) as [E|E].
    - apply safe_faa; auto. now apply Hiff.
    - apply safe_bindo. refine (proj1 (safe_r_acq t l _ v Hok Hm _ fuel)). intros r Hr'. apply safe_own; auto.
  Qed.

  (** nothing else is done in the locking step; what the old view knew about its probe sets stays known *)
  Definition extends (v v' : fview) : Prop := forall tb b, tb < 2 -> auth v tb b -> v_reg v' tb b = v_reg v tb b.

  Lemma safe_r_lock t l (Q : fview -> Prop) fuel v :
    lk_ok v l -> v_mic v = MNone ->
    (forall v', acquired l v v' -> extends v v' -> Q v') ->
    safe t (r_lock fuel (S t) l nopost) v (optQ (fun _ => Q)).
  Proof.
    intros Hok Hm HQ. apply safe_r_lock_post; auto.
    intros g a tr Hi Hacq Hrg [Hk1 Hk2]. exists a. split; [exact Hi|]. split; [apply frame_refl|].
    apply HQ; auto. intros tb b Htb Hau. rewrite Hrg. auto.
  Qed.

  Lemma safe_r_try_lock t l (Q : bool -> fview -> Prop) v :
    lk_ok v l -> v_mic v = MNone ->
    (forall v', acquired l v v' -> extends v v' -> Q true v') -> Q false v ->
    safe t (r_try_lock (S t) l) v Q.
  Proof.
    intros Hok Hm HQ1 HQ0. unfold r_try_lock. cbn [Conc.safe]. intros g a tr Hi Hv. unfold fvw in Hv.
    cbn [a_rown_ld fst snd]. exists a.
    split; [eapply Inv_acc; eauto; apply quietF_refl|]. split; [apply frame_refl|]. unfold fvw. rewrite Hv. cbn [vn vnat].
    assert (Hma : mic a t = MNone) by (unfold mic; now rewrite Hv).
    pose proof (rown_me_iff g a t l (proj1 Hi) Hma) as Hiff. unfold held in Hiff. rewrite Hv in Hiff.
    assert (Hpost : post_ok t l nopost v (Q true)).
    { intros g1 a1 tr1 Hi1 Hacq Hrg [Hk1 Hk2]. exists a1. split; [exact Hi1|]. split; [apply frame_refl|].
      apply HQ1; auto. intros tb b Htb Hau. rewrite Hrg. auto. }
    destruct (Nat.eqb_spec (rown g l) (S t)) as [E|E].
    - assert (K := safe_faa t l nopost (Q true) v Hm (proj1 Hiff E) Hpost).
      cbn [Conc.safe] in K |- *. intros g1 a1 tr1 Hi1 Hv1. destruct (K g1 a1 tr1 Hi1 Hv1) as (a2 & K1 & K2 & K3).
      exists a2. split; auto.
    - cbn [Conc.safe]. clear g a tr Hi Hv Hma Hiff E. intros g a tr Hi Hv. unfold fvw in Hv. unfold a_rspin_cas.
      destruct (Nat.eqb_spec (rspin g l) 0) as [E|E]; cbn [fst snd].
      + eexists. split; [apply (Inv_lock_take g a tr t l Hi); [now rewrite Hv|unfold mic; now rewrite Hv|exact E]|]. split; [apply frame_setv|].
        unfold fvw. rewrite setv_same. cbn [vn vnat Nat.eqb]. unfold vlock, held. rewrite Hv.
        pose proof (knows_inv g a tr t Hi) as [Hk1 Hk2]. rewrite Hv in Hk1, Hk2.
        assert (K := safe_own t l nopost (Q true) v (fun tb b => T g tb b) ltac:(auto) Hpost).
        cbn [Conc.safe] in K |- *. intros g1 a1 tr1 Hi1 Hv1. destruct (K g1 a1 tr1 Hi1 Hv1) as (a2 & K1 & K2 & K3).
        exists a2. split; auto.
      + exists a. split; [eapply Inv_acc; eauto; apply quietF_refl|]. split; [apply frame_refl|].
        unfold fvw. rewrite Hv. cbn [vn vnat Nat.eqb]. exact HQ0.
  Qed.

  (** unlock() *)
  Lemma safe_r_unlock t l (Q : fview -> Prop) v :
    v_mic v = MNone -> In l (v_held v) ->
    (cnt (v_held v) l = 1 -> keeps (wof v) (rem1 l (v_held v)) /\ flyok v (rem1 l (v_held v)) (keep_val (rem1 l (v_held v)) (v_anc v))) ->
    Q (vrel v (rem1 l (v_held v)) MNone) ->
    safe t (r_unlock l) v (fun _ => Q).
  Proof.
    intros Hm Hin Hcond HQ. unfold r_unlock. cbn [Conc.safe]. intros g a tr Hi Hv. unfold fvw in Hv.
    cbn [a_rspin_ld fst snd]. exists a.
    split; [eapply Inv_acc; eauto; apply quietF_refl|]. split; [apply frame_refl|]. unfold fvw. rewrite Hv. cbn [vn vnat].
    assert (Hs : rspin g l = cnt (v_held v) l).
    { rewrite (r_spin (proj1 Hi) t l); unfold wv; cbn; rewrite Hv; auto. }
    rewrite Hs. assert (Hpos : 0 < cnt (v_held v) l) by (now apply in_cnt).
    destruct (Nat.ltb_spec 1 (cnt (v_held v) l)) as [Hgt|Hle].
    - cbn [Conc.safe]. clear g a tr Hi Hv Hs. intros g a tr Hi Hv. unfold fvw in Hv. cbn [a_rspin_st fst snd].
      eexists. split; [|split; [apply frame_setv|]].
      + replace (cnt (v_held v) l - 1) with (cnt (held a t) l - 1) by (unfold held; now rewrite Hv).
        apply (Inv_unlock_dec g a tr t l Hi); [unfold mic; now rewrite Hv|unfold held; now rewrite Hv].
      + unfold fvw. rewrite setv_same. unfold held. rewrite Hv. exact HQ.
    - assert (H1 : cnt (v_held v) l = 1) by lia. destruct (Hcond H1) as [Hkp Hfl].
      cbn [Conc.safe]. clear g a tr Hi Hv Hs. intros g a tr Hi Hv. unfold fvw in Hv. cbn [a_rown_st fst snd nopost].
      eexists. split; [apply (Inv_unlock_disown g a tr t l Hi); [unfold mic; now rewrite Hv|unfold held; now rewrite Hv]|]. split; [apply frame_setv|].
      unfold fvw. rewrite setv_same. unfold held. rewrite Hv. cbn [Conc.safe]. clear g a tr Hi Hv.
      intros g a tr Hi Hv. unfold fvw in Hv. cbn [a_rspin_st fst snd].
      eexists. split; [apply (Inv_unlock_free g a tr t l Hi); unfold mic, held; rewrite Hv; cbn [vmic v_mic v_held v_anc v_fly]; auto|]. split; [apply frame_setv|].
      unfold fvw. rewrite setv_same. unfold held. rewrite Hv. exact HQ.
  Qed.


  (** *** steps on the policy words *)
  Definition fset_gs (v : fview) gs acc : fview :=
    mkFV (v_op v) (v_held v) (v_mic v) (v_mask v) (v_reg v) (v_fly v) (v_pend v) (v_own v) (v_anc v) (v_chk v) gs acc (v_wmask v).
  Definition fset_val (v : fview) anc chk : fview :=
    mkFV (v_op v) (v_held v) (v_mic v) (v_mask v) (v_reg v) (v_fly v) (v_pend v) (v_own v) anc chk (v_gs v) (v_acc v) (v_wmask v).
  (** validated: fresh snapshot *)
  Definition fvalid (v : fview) anc (m : nat) (r : nat -> nat -> list item) : fview :=
    mkFV (v_op v) (v_held v) (v_mic v) m r (v_fly v) (v_pend v) (v_own v) anc None (v_gs v) (v_acc v) (v_wmask v).

  Lemma Abs_view g g' a t v' tr k o ok :
    Abs g a tr -> tabs g' = tabs g -> v_op v' = v_op (a_view a t) -> v_fly v' = fly a t -> v_pend v' = pend a t ->
    Abs g' (setv a t v') (tr ++ Conc.tag t [EvAcc k o ok]).
  Proof. apply Abs_lock. Qed.

  (** the thread notes another (generation, size) / takes or gives up m_access *)
  Lemma Inv_gs g g' a tr t gs acc k o ok :
    Inv g a tr -> CoreR g' (rsetv (wv a) t (wof (fset_gs (a_view a t) gs acc))) ->
    mask g' = mask g -> tabs g' = tabs g -> cur g' = cur g -> pcap g' = pcap g ->
    (gs = (cur g, pcap g) \/ gs = v_gs (a_view a t)) ->
    Inv g' (setv a t (fset_gs (a_view a t) gs acc)) (tr ++ Conc.tag t [EvAcc k o ok]).
  Proof.
    intros (Hr & Hb & Ha) Hr' Cm Ct Cc Cp Hgs. split3; [apply CoreR_setv; exact Hr'| |eapply Abs_view; [exact Ha|auto..]].
    assert (Hg : v_anc (a_view a t) <> None -> gs = v_gs (a_view a t)).
    { intros H. destruct Hgs as [->| ->]; auto. symmetry. apply (b_gs Hb t H). }
    assert (Hh : has0 (fset_gs (a_view a t) gs acc) <-> has0 (a_view a t)) by reflexivity.
    assert (Hau : forall tb b, auth (fset_gs (a_view a t) gs acc) tb b -> auth (a_view a t) tb b).
    { intros tb b [A0 A1]. split; [exact A0|]. destruct A1 as [A1|A1]; [|now right].
      destruct A0 as [A0|A0]; [|now right]. left. unfold clk in *. cbn [fset_gs v_gs v_held] in A1. rewrite (Hg A0) in A1. exact A1. }
    apply (CuckooConcFInv.CoreB_view cf g g' a t _ Hb Cm Ct); cbn [fset_gs v_fly v_pend v_anc v_gs v_mask v_reg v_held v_own];
      [intros t0 _ _; auto|reflexivity|reflexivity| | | | |].
    - intros H. rewrite Cc, Cp, (Hg H). apply (b_gs Hb t H).
    - intros H0. symmetry. apply (c_mask Hb t). exact H0.
    - intros tb b Htb A. symmetry. apply (c_reg Hb t tb b Htb). apply Hau. exact A.
    - intros x Hx. destruct (c_fly Hb t x Hx) as (A0 & A1 & _). split; [exact A0|].
      destruct A1 as [A1|[A1 A2]]; [now left|]. destruct A0 as [A0|A0]; [|now left]. right. unfold clk in *. cbn [fset_gs v_gs]. rewrite (Hg A0). auto.
    - apply (c_pend Hb t).
  Qed.

  Lemma gs_ok_cur g a t : CoreR g (wv a) -> gs_ok (wof (a_view a t)) (cur g, gsize g (cur g)).
  Proof.
    intros Hr. destruct (r_cap Hr) as (_ & _ & _ & Cpos). split; [apply Cpos; lia|].
    intros g0 s n b E. destruct (r_inst Hr t g0 s n b E) as (_ & X & _). cbn. lia.
  Qed.

  Lemma safe_acc_lock t (Q : nat * nat -> fview -> Prop) v : v_acc v = false ->
    (forall gs, gs_ok (wof v) gs -> Q gs (fset_gs v gs true)) ->
    forall fuel, safe t (acc_lock_outer fuel) v (optQ Q) /\ safe t (acc_lock_inner fuel) v (optQ Q).
  Proof.
    intros Hacc HQ fuel. induction fuel as [|f IH]; split; cbn [acc_lock_outer acc_lock_inner]; try exact I.
    - cbn [Conc.safe]. intros g a tr Hi Hv. unfold fvw in Hv. unfold a_access_xchg. cbn [fst snd]. pose proof Hi as (Hr & Hb & _).
      destruct (access g) eqn:E; cbn [b2n vn vm vs Nat.eqb].
      + exists a. split; [eapply Inv_acc; [exact Hi|split; [now apply quiet_access_same|reflexivity]]|]. split; [apply frame_refl|].
        unfold fvw. rewrite Hv. apply IH.
      + destruct (r_cap Hr) as (Cp & _).
        eexists. split; [apply (Inv_gs g (set_access g true) a tr t (cur g, gsize g (cur g)) true _ _ _ Hi); try reflexivity|].
        * apply (CoreR_gs g (set_access g true) (wv a) t (cur g, gsize g (cur g)) true Hr);
            [repeat split|reflexivity|reflexivity|reflexivity|reflexivity|reflexivity|reflexivity|cbn; lia|reflexivity| | |].
          -- intros _. split; auto. split; auto. intros t0 _. apply (proj2 (proj2 (r_acc Hr)) E).
          -- discriminate.
          -- auto.
        * left. now rewrite Cp.
        * split; [apply frame_setv|]. unfold fvw. rewrite setv_same, Hv. apply safe_oret. apply HQ. rewrite <- Hv. apply (gs_ok_cur g a t Hr).
    - apply safe_silent; [silent|]. intros g a tr _ _. cbn [a_access_ld fst snd vn vnat].
      destruct (Nat.eqb (b2n (access g)) 0); apply IH.
  Qed.

  Lemma safe_pcap_ld_acc {R} t (k : V -> prog R) (Q : R -> fview -> Prop) v :
    v_acc v = true ->
    (forall vc, vn vc = snd (v_gs v) -> safe t (k vc) v Q) ->
    safe t (Act a_pcap_ld k) v Q.
  Proof.
    intros Hacc Hk. cbn [Conc.safe]. intros g a tr Hi Hv. unfold fvw in Hv. exists a. pose proof Hi as (Hr & _).
    split; [eapply Inv_acc; [exact Hi|apply quietF_refl]|]. split; [apply frame_refl|]. unfold fvw. rewrite Hv.
    apply Hk. cbn [a_pcap_ld fst snd vn]. destruct (proj1 (r_acc Hr) t) as [_ E]; [unfold wv; cbn; now rewrite Hv|].
    destruct (r_gs Hr t) as [_ E2]. unfold wv in E, E2. cbn in E, E2. rewrite Hv in E, E2. rewrite <- E2, E. apply (r_cap Hr).
  Qed.

  Lemma safe_access_st {R} t (k : V -> prog R) (Q : R -> fview -> Prop) v :
    v_acc v = true -> safe t (k (vnat 0)) (fset_gs v (v_gs v) false) Q -> safe t (Act a_access_st k) v Q.
  Proof.
    intros Hacc Hk. cbn [Conc.safe]. intros g a tr Hi Hv. unfold fvw in Hv. cbn [a_access_st fst snd]. pose proof Hi as (Hr & _).
    assert (Hat : w_acc (wv a t) = true) by (unfold wv; cbn; now rewrite Hv).
    destruct (r_acc Hr) as (B1 & B2 & B3). destruct (r_gs Hr t) as [G1 G2].
    assert (Hoth : forall t0, t0 <> t -> w_acc (wv a t0) = false).
    { intros t0 Hne. destruct (w_acc (wv a t0)) eqn:E; auto. exfalso. apply Hne. now apply B2. }
    eexists. split; [apply (Inv_gs g (set_access g false) a tr t (v_gs (a_view a t)) false _ _ _ Hi); try reflexivity|].
    - apply (CoreR_gs g (set_access g false) (wv a) t (v_gs (a_view a t)) false Hr);
        [repeat split|reflexivity|reflexivity|reflexivity|reflexivity|reflexivity|reflexivity|exact G1|exact G2| | |].
      + discriminate.
      + intros _. split; auto.
      + intros t0 Hne E. rewrite (Hoth t0 Hne) in E. discriminate.
    - now right.
    - split; [apply frame_setv|]. unfold fvw. rewrite setv_same, Hv. exact Hk.
  Qed.

  Lemma safe_wait_owner {R} t (p : prog (option R)) (Q : R -> fview -> Prop) v :
    safe t p v (optQ Q) -> forall fuel, safe t (bindo (wait_owner fuel (S t)) (fun _ => p)) v (optQ Q).
  Proof.
    intros Hp fuel. apply safe_bindo. induction fuel as [|f IH]; cbn [wait_owner]; [exact I|].
    apply safe_silent; [silent|]. intros g a tr _ _. cbn [a_owner_ld fst snd vn vnat].
    destruct (free_or_mine (owner g) (S t)); [apply safe_oret; exact Hp|exact IH].
  Qed.

  Lemma safe_pcap_ld_gs {R} t (k : V -> prog R) (Q : R -> fview -> Prop) v :
    (forall vc, gs_ok (wof v) (vm vc, vn vc) -> (v_anc v <> None -> (vm vc, vn vc) = v_gs v) -> safe t (k vc) (fset_gs v (vm vc, vn vc) (v_acc v)) Q) ->
    safe t (Act a_pcap_ld k) v Q.
  Proof.
    intros Hk. cbn [Conc.safe]. intros g a tr Hi Hv. unfold fvw in Hv. cbn [a_pcap_ld fst snd]. pose proof Hi as (Hr & Hb0 & _).
    destruct (r_acc Hr) as (B1 & B2 & B3). destruct (r_cap Hr) as (Cp & _).
    eexists. split; [apply (Inv_gs g g a tr t (cur g, pcap g) (v_acc (a_view a t)) _ _ _ Hi); try reflexivity|].
    - apply (CoreR_gs g g (wv a) t (cur g, pcap g) (v_acc (a_view a t)) Hr);
        [repeat split|reflexivity|reflexivity|reflexivity|reflexivity|reflexivity|reflexivity|cbn; lia|cbn; now rewrite Cp| | |].
      + intros E. destruct (B1 t E) as [X Y]. split; auto. split; auto. intros t0 Hne.
        destruct (w_acc (wv a t0)) eqn:E0; auto. exfalso. apply Hne. now apply B2.
      + intros E. split; [now apply (B3 E t)|]. intros t0 _. now apply B3.
      + intros t0 _ E. apply (B1 t0 E).
    - now left.
    - split; [apply frame_setv|]. unfold fvw. rewrite setv_same, Hv. apply (Hk (mkV (pcap g) (cur g) 0 [])). cbn [vm vn].
      + rewrite Cp, <- Hv. apply (gs_ok_cur g a t Hr).
      + intros Ha. rewrite <- Hv. symmetry. apply (b_gs Hb0 t). now rewrite Hv.
  Qed.

  (** the re-check of acquire(): the owner word ... *)
  Lemma safe_owner_check {R} t gen i (k : V -> prog R) (Q : R -> fview -> Prop) v :
    In (gen, 0, i) (v_held v) ->
    (forall vo, free_or_mine (vn vo) (S t) = true -> safe t (k vo) (fset_val v (v_anc v) (Some (gen, i))) Q) ->
    (forall vo, free_or_mine (vn vo) (S t) = false -> safe t (k vo) v Q) ->
    safe t (Act a_owner_ld k) v Q.
  Proof.
    intros Hin Hyes Hno. cbn [Conc.safe]. intros g a tr Hi Hv. unfold fvw in Hv. cbn [a_owner_ld fst snd]. pose proof Hi as (Hr & Hb & Ha).
    destruct (free_or_mine (owner g) (S t)) eqn:E.
    - exists (setv a t (fset_val (a_view a t) (v_anc (a_view a t)) (Some (gen, i)))). split; [split3|].
      + apply CoreR_setv. apply (CoreR_val g (wv a) t (v_anc (a_view a t)) (Some (gen, i)) Hr).
        * intros g1 i1 E1. apply (r_anc Hr t g1 i1 E1).
        * intros g1 i1 E1. injection E1 as <- <-. split; [unfold wv; cbn; now rewrite Hv|]. intros _ R0 HR.
          rewrite (free_or_mine_others g (wv a) t Hr E R0 HR). cbn. tauto.
      + apply (CuckooConcFInv.CoreB_fp cf g a t _ Hb); cbn [fset_val v_mask v_reg v_fly v_pend]; auto.
        * (split; [reflexivity|split; [reflexivity|split; reflexivity]]).
        * apply (c_fly1 Hb t).
        * apply (c_pend2 Hb t).
      + eapply Abs_view; [exact Ha|reflexivity..].
      + split; [apply frame_setv|]. unfold fvw. rewrite setv_same, Hv. apply Hyes. exact E.
    - exists a. split; [eapply Inv_acc; [exact Hi|apply quietF_refl]|]. split; [apply frame_refl|]. unfold fvw. rewrite Hv. apply Hno. exact E.
  Qed.

  (** ... then the capacity: the thread is validated, with a fresh snapshot of the mask and the probe sets *)
  Lemma safe_cap_check {R} t gen i sz (k : V -> prog R) (Q : R -> fview -> Prop) v :
    v_chk v = Some (gen, i) -> v_gs v = (gen, sz) -> v_fly v = [] ->
    (forall vc m r, vn vc = sz -> safe t (k vc) (fvalid v (Some (gen, i)) m r) Q) ->
    (forall vc, vn vc <> sz -> safe t (k vc) (fset_val v (v_anc v) None) Q) ->
    safe t (Act a_pcap_ld k) v Q.
  Proof.
    intros Hk Hg Hf Hyes Hno. cbn [Conc.safe]. intros g a tr Hi Hv. unfold fvw in Hv. cbn [a_pcap_ld fst snd]. pose proof Hi as (Hr & Hb & Ha).
    destruct (r_chk Hr t gen i) as [C1 C2]; [unfold wv; cbn; now rewrite Hv|].
    destruct (r_gs Hr t) as [G1 G2]. unfold wv in G1, G2. cbn in G1, G2. rewrite Hv, Hg in G1, G2. cbn [fst snd] in G1, G2.
    destruct (Nat.eq_dec (pcap g) sz) as [E|E].
    - assert (Eg : gen = cur g) by (eapply cap_gen; eauto; lia).
      exists (setv a t (fvalid (a_view a t) (Some (gen, i)) (mask g) (fun tb b => T g tb b))). split; [split3|].
      + apply CoreR_setv. apply (CoreR_val g (wv a) t (Some (gen, i)) None Hr); [|discriminate].
        intros g1 i1 E1. injection E1 as <- <-. split; auto.
      + apply (CuckooConcFInv.CoreB_view cf g g a t (fvalid (a_view a t) (Some (gen, i)) (mask g) (fun tb b => T g tb b)) Hb eq_refl eq_refl);
          cbn [fvalid v_fly v_pend v_anc v_gs v_mask v_reg v_held v_own]; [intros t0 _ _; auto|reflexivity|reflexivity| | | | |].
        * intros _. rewrite Hv, Hg. congruence.
        * reflexivity.
        * reflexivity.
        * unfold fly. rewrite Hv, Hf. intros x [].
        * intros Hp. apply (c_pend Hb t Hp).
      + eapply Abs_view; [exact Ha|reflexivity..].
      + split; [apply frame_setv|]. unfold fvw. rewrite setv_same, Hv. apply Hyes. exact E.
    - exists (setv a t (fset_val (a_view a t) (v_anc (a_view a t)) None)). split; [split3|].
      + apply CoreR_setv. apply (CoreR_val g (wv a) t (v_anc (a_view a t)) None Hr); [|discriminate].
        intros g1 i1 E1. apply (r_anc Hr t g1 i1 E1).
      + apply (CuckooConcFInv.CoreB_fp cf g a t _ Hb); cbn [fset_val v_mask v_reg v_fly v_pend]; auto.
        * (split; [reflexivity|split; [reflexivity|split; reflexivity]]).
        * apply (c_fly1 Hb t).
        * apply (c_pend2 Hb t).
      + eapply Abs_view; [exact Ha|reflexivity..].
      + split; [apply frame_setv|]. unfold fvw. rewrite setv_same, Hv. apply Hno. exact E.
  Qed.


  (** *** unlocking a pair of cells (nothing in flight) *)
  Lemma flyok_nil v H' anc' : v_fly v = [] -> flyok v H' anc'.
  Proof. intros E x Hx. rewrite E in Hx. destruct Hx. Qed.

  Lemma safe_unlock2 t l0 l1 (Q : fview -> Prop) v :
    v_mic v = MNone -> v_fly v = [] -> In l0 (v_held v) -> In l1 (rem1 l0 (v_held v)) ->
    keeps (wof v) (v_held v) -> nl (wof v) l0 -> nl (wof v) l1 ->
    Q (vrel (vrel v (rem1 l0 (v_held v)) MNone) (rem1 l1 (rem1 l0 (v_held v))) MNone) ->
    safe t (unlock2 (l0, l1)) v (fun _ => Q).
  Proof.
    intros Hm Hf H0 H1 Hk N0 N1 HQ. unfold unlock2. cbn [fst snd]. apply safe_thenu.
    apply safe_r_unlock; auto; [intros _; split; [now apply keeps_rem|now apply flyok_nil]|].
    apply safe_r_unlock; auto. intros _. split; [|now apply flyok_nil].
    cbn [vrel v_held wof]. apply keeps_rem; auto. apply (keeps_rem (wof v)); auto.
  Qed.

  Definition rest (v : fview) (H : list lk) (o : ostate) : Prop :=
    v_held v = H /\ v_mic v = MNone /\ v_own v = o /\ v_anc v = None /\ v_chk v = None /\ v_acc v = false /\
    v_fly v = [] /\ (o = ONone -> v_pend v = []).
  (** the status of the operation and the pending items do not change *)
  Definition same_bp (v v' : fview) : Prop := v_op v' = v_op v /\ v_pend v' = v_pend v.
  Lemma same_bp_refl v : same_bp v v.  Proof. split; reflexivity. Qed.
  Lemma same_bp_trans v v1 v2 : same_bp v v1 -> same_bp v1 v2 -> same_bp v v2.
  Proof. intros [A B] [C D]. split; congruence. Qed.

  Lemma safe_pair_exit {R} t (c2 : cells) (H2 : list lk) (Q : R -> fview -> Prop) (p : prog R) v :
    v_held v = snd c2 :: fst c2 :: H2 -> v_mic v = MNone -> v_fly v = [] -> fst c2 <> snd c2 ->
    keeps (wof v) (v_held v) -> nl (wof v) (fst c2) -> nl (wof v) (snd c2) ->
    (forall v', v_held v' = H2 -> v_mic v' = MNone -> v_own v' = v_own v -> v_acc v' = v_acc v -> v_gs v' = v_gs v ->
        v_mask v' = v_mask v -> v_wmask v' = v_wmask v -> (forall tb b, v_reg v' tb b = v_reg v tb b) -> v_fly v' = [] -> same_bp v v' ->
        (v_chk v = None -> v_chk v' = None) ->
        (forall x, v_anc v' = Some x -> v_anc v = Some x /\ In (fst x, 0, snd x) H2) ->
        (v_anc v <> None -> (forall x, v_anc v = Some x -> In (fst x, 0, snd x) H2) -> v_anc v' = v_anc v) ->
        safe t p v' Q) ->
    safe t (thenu (unlock2 c2) p) v Q.
  Proof.
    intros Hh Hm Hf Hne Hk N0 N1 Hp. destruct c2 as [l0 l1]. cbn [fst snd] in *. apply safe_thenu.
    assert (E0 : rem1 l0 (v_held v) = l1 :: H2).
    { rewrite Hh. cbn [rem1]. destruct (lk_dec l1 l0); [congruence|]. destruct (lk_dec l0 l0); congruence. }
    assert (E1 : rem1 l1 (l1 :: H2) = H2) by (cbn; destruct (lk_dec l1 l1); congruence).
    apply safe_unlock2; auto.
    - rewrite Hh. right. now left.
    - rewrite E0. now left.
    - rewrite E0, E1. apply Hp; cbn [vrel v_held v_mic v_own v_acc v_gs v_mask v_wmask v_reg v_fly v_chk v_anc v_op v_pend]; auto.
      + split; reflexivity.
      + intros E. rewrite E. reflexivity.
      + intros x E. apply keep_val_some in E. destruct E as [E X]. apply keep_val_some in E. destruct E as [E _]. auto.
      + intros Ha Hin. destruct (v_anc v) as [[gen i]|] eqn:E; [|congruence]. specialize (Hin _ eq_refl). cbn [fst snd] in Hin.
        cbn [keep_val]. destruct (in_dec lk_dec (gen, 0, i) (l1 :: H2)) as [|N]; [|exfalso; apply N; now right].
        cbn [keep_val]. destruct (in_dec lk_dec (gen, 0, i) H2) as [|N]; [reflexivity|contradiction].
  Qed.

  (** inside the critical section of the cells returned by acquire() for the hashes (hh0, hh1) *)
  Definition incs (v : fview) (cl : cells) (H : list lk) (o : ostate) (hh0 hh1 : nat) : Prop :=
    v_held v = snd cl :: fst cl :: H /\ v_mic v = MNone /\ v_own v = o /\ v_chk v = None /\ v_acc v = false /\
    fresh o (fst cl) /\ fresh o (snd cl) /\ v_fly v = [] /\
    fst cl = clk v 0 hh0 /\ snd cl = clk v 1 hh1 /\
    (exists i, v_anc v = Some (fst (v_gs v), i) /\ (fst (v_gs v), 0, i) = fst cl).

  Lemma incs_ne v cl H o hh0 hh1 : incs v cl H o hh0 hh1 -> fst cl <> snd cl.
  Proof. intros (_ & _ & _ & _ & _ & _ & _ & _ & E0 & E1 & _). rewrite E0, E1. unfold clk. congruence. Qed.

  Lemma safe_cs_exit {R} t cl H o hh0 hh1 (Q : R -> fview -> Prop) (p : prog R) v :
    okbase H o -> incs v cl H o hh0 hh1 -> (o = ONone -> v_pend v = []) ->
    (forall v', rest v' H o -> same_bp v v' -> v_mask v' = v_mask v -> v_wmask v' = v_wmask v -> safe t p v' Q) ->
    safe t (thenu (unlock2 cl) p) v Q.
  Proof.
    intros Hb Hin Hpe Hp. pose proof (incs_ne _ _ _ _ _ _ Hin) as C8.
    destruct Hin as (C1 & C2 & C3 & C4 & C5 & C6 & C7 & Cf & E0 & E1 & (i & Ca & Cl)).
    apply (safe_pair_exit t cl H); [exact C1|exact C2|exact Cf|exact C8| | | |].
    - apply (okbase_keeps H o (wof v) Hb C3). intros l Hl. cbn. rewrite C1. right. now right.
    - apply (okbase_nl H o (wof v) _ Hb C3 C6).
    - apply (okbase_nl H o (wof v) _ Hb C3 C7).
    - intros v' B1 B2 B3 B4 B5 B6 Bw B7 B8 B9 B10 B11 _. apply Hp; auto.
      + repeat split; auto; try congruence.
        * destruct (v_anc v') as [x|] eqn:E; auto. exfalso. destruct (B11 x eq_refl) as [X1 X2].
          rewrite Ca in X1. injection X1 as <-. cbn [fst snd] in X2. rewrite Cl in X2. apply (okbase_notin H o (fst cl) Hb C6 X2).
        * intros Eo. destruct B9 as [_ B9]. rewrite B9. auto.
  Qed.

  (** *** acquire() of the refinable policy *)
  Lemma safe_rf_acquire t hh0 hh1 H o (Q : cells -> fview -> Prop) :
    okbase H o ->
    forall fuel v, rest v H o ->
    (forall cl v', incs v' cl H o hh0 hh1 -> same_bp v v' -> v_wmask v' = v_wmask v -> Q cl v') ->
    safe t (rf_acquire fuel (S t) hh0 hh1) v (optQ Q).
  Proof.
    intros Hb fuel. induction fuel as [|f IH]; intros v Hr HQ; cbn [rf_acquire]; [exact I|].
    pose proof Hr as (R1 & R2 & R3 & R4 & R5 & R6 & R7 & R8).
    apply safe_bindo. refine (proj1 (safe_acc_lock t _ v R6 _ (S f))).
    intros gs [Gpos Gfr]. destruct gs as [gen sz]. cbn [fst snd] in *.
    apply safe_pcap_ld_acc; [reflexivity|]. intros vc Hvc. cbn [fset_gs v_gs snd] in Hvc.
    apply safe_access_st; [reflexivity|]. cbn [fset_gs v_gs v_held v_mic v_own v_anc v_chk v_mask v_reg v_fly v_pend v_op v_wmask].
    set (v2 := mkFV (v_op v) (v_held v) (v_mic v) (v_mask v) (v_reg v) (v_fly v) (v_pend v) (v_own v) (v_anc v) (v_chk v) (gen, sz) false (v_wmask v)).
    assert (Hr2 : rest v2 H o) by (repeat split; auto).
    assert (HQ2 : forall cl v', incs v' cl H o hh0 hh1 -> same_bp v2 v' -> v_wmask v' = v_wmask v2 -> Q cl v') by (intros cl v' A B C; apply HQ; auto).
    apply safe_wait_owner.
    apply safe_silent; [silent|]. intros g a tr _ _. cbn [a_pcap_ld fst snd vn].
    destruct (Nat.eqb (vn vc) (pcap g)); [|apply IH; [exact Hr2|exact HQ2]].
    set (l0 := (gen, 0, hh0 mod sz)). set (l1 := (gen, 1, hh1 mod sz)).
    assert (Hok0 : lk_ok v2 l0) by (exists 0, (hh0 mod sz); cbn; repeat split; auto; apply Nat.mod_upper_bound; lia).
    apply safe_bindo. apply safe_r_lock; [exact Hok0|exact R2|]. intros v3 (r3 & ->) _.
    apply safe_bindo. apply safe_r_lock; [exists 1, (hh1 mod sz); cbn; repeat split; auto; apply Nat.mod_upper_bound; lia|reflexivity|]. intros v4 (r4 & ->) _.
    cbn [v2 v_op v_held v_mic v_mask v_reg v_fly v_pend v_own v_anc v_chk v_gs v_acc v_wmask].
    set (v4 := mkFV (v_op v) (l1 :: l0 :: v_held v) MNone (v_mask v) r4 (v_fly v) (v_pend v) (v_own v) (v_anc v) (v_chk v) (gen, sz) false (v_wmask v)).
    assert (Hne : l0 <> l1) by (unfold l0, l1; congruence).
    assert (Hf0 : fresh o l0) by (intros g0 s n b E; cbn; apply (Gfr g0 s n b); cbn; congruence).
    assert (Hf1 : fresh o l1) by (intros g0 s n b E; cbn; apply (Gfr g0 s n b); cbn; congruence).
    (* leaving without the cells: try again *)
    assert (Hretry : forall vv, v_held vv = l1 :: l0 :: H -> v_mic vv = MNone -> v_own vv = o -> v_anc vv = None -> v_chk vv = None -> v_acc vv = false ->
              v_fly vv = [] -> same_bp v vv -> v_wmask vv = v_wmask v ->
              safe t (thenu (unlock2 (l0, l1)) (rf_acquire f (S t) hh0 hh1)) vv (optQ Q)).
    { intros vv B1 B2 B3 B4 B5 B6 B7 B8 B9.
      apply (safe_pair_exit t (l0, l1) H); [exact B1|exact B2|exact B7|exact Hne| | | |].
      - apply (okbase_keeps H o (wof vv) Hb B3). intros l Hl. cbn. rewrite B1. right. now right.
      - apply (okbase_nl H o (wof vv) _ Hb B3 Hf0).
      - apply (okbase_nl H o (wof vv) _ Hb B3 Hf1).
      - intros v' C1 C2 C3 C4 C5 C6 Cw C7 C8 C9 C10 C11 _. apply IH.
        + repeat split; auto; try congruence.
          * destruct (v_anc v') as [x|] eqn:E; auto. destruct (C11 x eq_refl) as [X _]. congruence.
          * intros Eo. destruct C9 as [_ C9]. destruct B8 as [_ B8]. rewrite C9, B8. auto.
        + intros cl v'' A B C. apply HQ; auto; [eapply same_bp_trans; [exact B8|]; eapply same_bp_trans; eauto|congruence]. }
    apply (safe_owner_check t gen (hh0 mod sz)); [cbn; right; now left| |].
    - intros vo Evo. rewrite Evo.
      apply (safe_cap_check t gen (hh0 mod sz) sz); [reflexivity|reflexivity|exact R7| |].
      + intros vc3 m r E3. rewrite E3, Hvc, Nat.eqb_refl. apply safe_oret. apply HQ; [|split; reflexivity|reflexivity].
        unfold incs, clk. cbn. rewrite R1. repeat split; auto. exists (hh0 mod sz). split; reflexivity.
      + intros vc3 E3. rewrite Hvc. destruct (Nat.eqb_spec sz (vn vc3)) as [E|E]; [congruence|].
        apply Hretry; cbn; auto; [now rewrite R1|split; reflexivity].
    - intros vo Evo. rewrite Evo. apply Hretry; cbn; auto; [now rewrite R1|split; reflexivity].
  Qed.


  (** *** inside a critical section: the abstract set and the two probe sets of a key *)
  Definition bk (g : G) (k tb : nat) : nat := hsel (hashes cf k) tb mod S (mask g).
  Definition lookup (g : G) (k : nat) : option item :=
    match kget k (T g 0 (bk g k 0)) with Some x => Some x | None => kget k (T g 1 (bk g k 1)) end.

  Definition in_cs (g : G) (a : FAux) (t k : nat) : Prop :=
    (forall tb, tb < 2 -> auth (a_view a t) tb (bk g k tb)) /\ fly a t = [] /\ pend a t = [].

  Lemma cs_no_other g a t k x : CoreR g (wv a) -> CoreB g a -> in_cs g a t k -> fst x = k ->
    (forall t0, ~ In x (fly a t0)) /\ (forall t0, ~ In x (pend a t0)).
  Proof.
    intros Hr Hc (Hau & Hf & Hp) Hk. split; intros t0 Hin.
    - destruct (Nat.eq_dec t0 t) as [->|Hne]; [rewrite Hf in Hin; destruct Hin|].
      pose proof (CuckooConcFInv.fly_auth cf g a t0 x 0 Hr Hc Hin ltac:(lia)) as Ha0.
      eapply (CuckooConcFInv.auth_other_none cf g a t t0 0 (bk g k 0) Hr Hc (Hau 0 ltac:(lia)) Hne).
      unfold bk. rewrite <- Hk. exact Ha0.
    - destruct (Nat.eq_dec t0 t) as [->|Hne]; [rewrite Hp in Hin; destruct Hin|].
      assert (Hp0 : pend a t0 <> []) by (intros E; rewrite E in Hin; destruct Hin).
      pose proof (c_pend Hc t0 Hp0) as Hall. destruct (Hau 0 ltac:(lia)) as [H0 _].
      apply Hne. eapply CuckooConcFInv.has0_all0_other; eauto.
  Qed.

  Lemma abs_lookup g a t k s : CoreR g (wv a) -> CoreB g a -> in_cs g a t k -> NoDup (keys s) -> (forall x, In x s <-> allp g a x) ->
    kget k s = lookup g k.
  Proof.
    intros Hr Hc Hcs Hnd Hs. unfold lookup.
    assert (Hin_s : forall tb x, tb < 2 -> In x (T g tb (bk g k tb)) -> In x s).
    { intros tb x Htb Hx. apply Hs. left. eauto. }
    destruct (kget k (T g 0 (bk g k 0))) as [x|] eqn:E0.
    - apply kget_some in E0. destruct E0 as [Hx Hk]. apply kget_unique; auto. apply (Hin_s 0); auto.
    - destruct (kget k (T g 1 (bk g k 1))) as [x|] eqn:E1.
      + apply kget_some in E1. destruct E1 as [Hx Hk]. apply kget_unique; auto. apply (Hin_s 1); auto.
      + apply kget_none. apply khas_false. intros o Hin. apply Hs in Hin.
        destruct Hin as [(tb & b & Htb & Hx)|[(t0 & Hx)|(t0 & Hx)]].
        * pose proof (c_placed Hc tb b (k, o) Htb Hx) as Hb. unfold CuckooConcFInv.hx in Hb. cbn [fst] in Hb. fold (bk g k tb) in Hb. subst b.
          destruct tb as [|[|tb]]; [| |lia].
          -- apply kget_none in E0. rewrite khas_false in E0. eapply E0; eauto.
          -- apply kget_none in E1. rewrite khas_false in E1. eapply E1; eauto.
        * eapply (proj1 (cs_no_other g a t k (k, o) Hr Hc Hcs eq_refl)); eauto.
        * eapply (proj2 (cs_no_other g a t k (k, o) Hr Hc Hcs eq_refl)); eauto.
  Qed.

  Lemma lookup_bucket g a k x : CoreB g a -> lookup g k = Some x ->
    fst x = k /\ exists tb, tb < 2 /\ In x (T g tb (bk g k tb)) /\ forall tb', tb' < 2 -> tb' <> tb -> khas k (T g tb' (bk g k tb')) = false.
  Proof.
    intros Hc. unfold lookup. destruct (kget k (T g 0 (bk g k 0))) as [y|] eqn:E0.
    - intros E. inversion E; subst y. apply kget_some in E0. destruct E0 as [Hx Hk]. split; auto. exists 0. split; [lia|]. split; auto.
      intros tb' H1 H2. assert (tb' = 1) by lia. subst tb'. apply khas_false. intros o Hin.
      eapply (c_cross Hc _ _ x (k, o)); eauto.
    - intros E1. apply kget_some in E1. destruct E1 as [Hx Hk]. split; auto. exists 1. split; [lia|]. split; auto.
      intros tb' H1 H2. assert (tb' = 0) by lia. subst tb'. now apply kget_none.
  Qed.

  (** *** linearization points *)
  Definition with_op (v : fview) (o : status ISet) : fview :=
    mkFV o (v_held v) (v_mic v) (v_mask v) (v_reg v) (v_fly v) (v_pend v) (v_own v) (v_anc v) (v_chk v) (v_gs v) (v_acc v) (v_wmask v).

  Lemma st_setv (st : nat -> status ISet) a t v' x :
    (forall t0, st t0 = v_op (a_view a t0)) -> v_op v' = x ->
    forall t0, Lin.upd st t x t0 = v_op (a_view (setv a t v') t0).
  Proof.
    intros H Hx t0. unfold Lin.upd. destruct (Nat.eqb_spec t0 t) as [->|Hn].
    - now rewrite setv_same.
    - rewrite setv_other by exact Hn. apply H.
  Qed.

  Lemma CoreB_with_op g a t o : CoreB g a -> CoreB g (setv a t (with_op (a_view a t) o)).
  Proof.
    intros Hc. apply (CuckooConcFInv.CoreB_fp cf g a t _ Hc); cbn [with_op v_mask v_reg v_fly v_pend]; auto.
    - (split; [reflexivity|split; [reflexivity|split; reflexivity]]).
    - apply (c_fly1 Hc t).
    - apply (c_pend2 Hc t).
  Qed.
  Lemma CoreR_with_op g a t o : CoreR g (wv a) -> CoreR g (wv (setv a t (with_op (a_view a t) o))).
  Proof. apply CoreR_keepw. reflexivity. Qed.

  Lemma allp_with_op g a t o atr : forall x, allp g (seta (setv a t (with_op (a_view a t) o)) atr) x <-> allp g a x.
  Proof.
    intros x. apply CuckooConcFInv.allp_ext; auto; intros t0; unfold fly, pend; cbn [a_view seta];
      (destruct (Nat.eq_dec t0 t) as [->|Hne]; [now rewrite setv_same|now rewrite setv_other]).
  Qed.

  Lemma Inv_lp_read g g' a tr t k (o : iop) (r : res) kk ob ok :
    Inv g a tr -> quietF g g' ->
    v_op (a_view a t) = Pending (o : Op ISet) -> in_cs g a t k ->
    (forall s, kget k s = lookup g k -> istep s o = (s, r)) ->
    Inv g' (seta (setv a t (with_op (a_view a t) (Linearized (o : Op ISet) (r : Res ISet)))) (a_atr a ++ [ALin t]))
        (tr ++ Conc.tag t [EvAcc kk ob ok]).
  Proof.
    intros (Hr & Hc & Ha) [[Hl Hp] C4] Hop Hcs Hstep. pose proof Hp as (D1 & D2 & D3 & D4 & D5 & D6 & D7). split3.
    - rewrite wv_seta. eapply CoreR_same; [apply CoreR_with_op; exact Hr|exact Hl|exact Hp].
    - apply CuckooConcFInv.CoreB_seta. eapply CuckooConcFInv.CoreB_same; [apply (CoreB_with_op g a t _ Hc)|auto..].
    - destruct Ha as [Hd|(s & st & H1 & H2 & H3 & H4 & H5)]; [left; now apply dropped_app|right].
      exists s, (Lin.upd st t (Linearized (o : Op ISet) (r : Res ISet))). cbn [a_atr seta a_view].
      pose proof (Hstep s (abs_lookup g a t k s Hr Hc Hcs H4 H5)) as Hst.
      split; [|split; [|split; [|split]]].
      + eapply lp_ext; [exact H1|]. cbn [lp_step]. rewrite H3, Hop. cbn [sstep ISet mkSpec]. rewrite Hst. reflexivity.
      + rewrite erase_app, hist_of_acc. cbn. now rewrite app_nil_r.
      + apply st_setv; auto.
      + exact H4.
      + intros x. rewrite H5. symmetry.
        etransitivity; [|apply (allp_with_op g a t (Linearized (o : Op ISet) (r : Res ISet)) (a_atr a ++ [ALin t]))].
        apply CuckooConcFInv.allp_ext; auto. intros. unfold CuckooConcFInv.T. now rewrite C4.
  Qed.

  (** *** steps that replace one probe set *)
  Lemma Inv_table g g' a tr t v' atr' kk ob ok :
    CoreR g' (wv (setv a t v')) -> CoreB g a -> CoreB g' (setv a t v') -> Abs g a tr ->
    (forall s st, lp_run lp_init (a_atr a) = Some (s, st) -> erase (a_atr a) = hist_of tr ->
        (forall t0, st t0 = v_op (a_view a t0)) -> NoDup (keys s) -> (forall x, In x s <-> allp g a x) ->
        exists s' st', lp_run lp_init atr' = Some (s', st') /\ erase atr' = hist_of tr /\
          (forall t0, st' t0 = v_op (a_view (setv a t v') t0)) /\ NoDup (keys s') /\
          forall x, In x s' <-> allp g' (setv a t v') x) ->
    Inv g' (seta (setv a t v') atr') (tr ++ Conc.tag t [EvAcc kk ob ok]).
  Proof.
    intros Hr' Hc Hc' Ha Habs. split3; [exact Hr'|now apply CuckooConcFInv.CoreB_seta|].
    destruct Ha as [Hd|(s & st & H1 & H2 & H3 & H4 & H5)]; [left; now apply dropped_app|right].
    destruct (Habs s st H1 H2 H3 H4 H5) as (s' & st' & K1 & K2 & K3 & K4 & K5).
    exists s', st'. cbn [a_atr seta a_view]. rewrite hist_of_acc. split; [exact K1|]. split; [exact K2|]. split; [exact K3|]. split; [exact K4|].
    intros x. rewrite K5. apply CuckooConcFInv.allp_ext; auto.
  Qed.

  Lemma Inv_move g g' a tr tr' t v' tb b new :
    Inv g a tr -> CoreR g' (wv (setv a t v')) -> CoreB g' (setv a t v') -> tabs g' = set_bkt (tabs g) tb b new -> tb < 2 -> b < S (mask g) ->
    v_op v' = v_op (a_view a t) -> hist_of tr' = hist_of tr -> (dropped tr -> dropped tr') ->
    (forall x, In x new \/ In x (v_fly v') \/ In x (v_pend v') <-> In x (T g tb b) \/ In x (fly a t) \/ In x (pend a t)) ->
    Inv g' (setv a t v') tr'.
  Proof.
    intros (Hr & Hc & Ha) Hr' Hc' Ct Htb Hb Hop Hh Hdr Hmv. split3; [exact Hr'|exact Hc'|].
    destruct Ha as [Hd|(s & st & H1 & H2 & H3 & H4 & H5)]; [left; auto|right].
    exists s, st. rewrite Hh. split; auto. split; auto. split.
    - intros t0. rewrite H3. destruct (Nat.eq_dec t0 t) as [->|Hne]; [now rewrite setv_same|now rewrite setv_other].
    - split; auto. intros x. rewrite H5. symmetry. eapply CuckooConcFInv.allp_move; eauto.
  Qed.

  Lemma bk_lt g k tb : bk g k tb < S (mask g).
  Proof. unfold bk. apply Nat.mod_upper_bound. lia. Qed.

  Definition with_tab (v : fview) (tb b : nat) (new : list item) (f p : list item) : fview :=
    mkFV (v_op v) (v_held v) (v_mic v) (v_mask v)
         (fun tb' b' => if Nat.eqb tb' tb && Nat.eqb b' b then new else v_reg v tb' b') f p
         (v_own v) (v_anc v) (v_chk v) (v_gs v) (v_acc v) (v_wmask v).

  Lemma khas_new_other (new old : list item) x k' :
    (forall y, In y new <-> y = x \/ In y old) -> k' <> fst x -> khas k' new = khas k' old.
  Proof.
    intros Hn Hne. destruct (khas k' old) eqn:E.
    - apply khas_true in E. destruct E as (o & Hin). apply khas_true. exists o. apply Hn. now right.
    - apply khas_false. intros o Hin. apply Hn in Hin. destruct Hin as [E'|Hin].
      + apply Hne. now rewrite <- E'.
      + rewrite khas_false in E. eapply E; eauto.
  Qed.

  (** [v'] is [v] with probe set (tb, b) replaced by [new] and the in-flight / pending items [f], [p] *)
  Definition tab_view (v v' : fview) (tb b : nat) (new f p : list item) : Prop :=
    wof v' = wof v /\ v_mask v' = v_mask v /\
    (forall tb' b', v_reg v' tb' b' = if Nat.eqb tb' tb && Nat.eqb b' b then new else v_reg v tb' b') /\
    v_fly v' = f /\ v_pend v' = p.

  Lemma tab_view_with_tab v tb b new f p : tab_view v (with_tab v tb b new f p) tb b new f p.
  Proof. repeat split. Qed.

  Lemma wof_same_auth v v' : wof v' = wof v -> CuckooConcFInv.same_auth v v'.
  Proof. intros E. injection E as E1 E2 E3 E4 E5 E6 E7 E8. split; [auto|]. split; [now rewrite E3|]. split; auto. Qed.


  Lemma lookup_none g k : lookup g k = None -> forall tb, tb < 2 -> khas k (T g tb (bk g k tb)) = false.
  Proof.
    unfold lookup. destruct (kget k (T g 0 (bk g k 0))) eqn:E0; [discriminate|]. intros E1 tb Htb.
    destruct tb as [|[|tb]]; [now apply kget_none|now apply kget_none|lia].
  Qed.

  Lemma CoreB_insert g a t v' x tb new f p :
    CoreR g (wv a) -> CoreB g a -> tb < 2 -> auth (a_view a t) tb (bk g (fst x) tb) -> absent g x ->
    tab_view (a_view a t) v' tb (bk g (fst x) tb) new f p ->
    (forall y, In y new <-> y = x \/ In y (T g tb (bk g (fst x) tb))) -> NoDup (keys new) ->
    (forall y, In y f -> In y (fly a t) /\ fst y <> fst x) -> length f <= 1 ->
    (forall y, In y p -> In y (pend a t) /\ fst y <> fst x) -> NoDup (keys p) -> (p <> [] -> pend a t <> []) ->
    CoreB (set_tabs g (set_bkt (tabs g) tb (bk g (fst x) tb) new)) (setv a t v').
  Proof.
    intros Hr Hc Htb Hau Hab (V0 & V3 & V4 & V5 & V6) Hnew Hnd Hf Hf1 Hp Hpn Hpe. set (b := bk g (fst x) tb) in *.
    assert (Hkn : forall k', k' <> fst x -> khas k' new = khas k' (T g tb b)) by (intros; eapply khas_new_other; eauto).
    assert (Hif : forall y tb', fst y <> fst x -> tb' < 2 -> absent g y ->
              khas (fst y) (if Nat.eqb tb' tb && Nat.eqb (hx y tb' mod S (mask g)) b then new else T g tb' (hx y tb' mod S (mask g))) = false).
    { intros y tb' Hne Htb' Hay. destruct (Nat.eqb_spec tb' tb) as [->|E1]; destruct (Nat.eqb_spec (hx y tb mod S (mask g)) b) as [E2|E2]; cbn [andb];
        try (apply Hay; auto). rewrite Hkn by exact Hne. rewrite <- E2. apply Hay; auto. }
    apply (CuckooConcFInv.CoreB_table cf g _ a t v' tb b new Hr Hc); cbn [mask tabs cur pcap set_tabs]; auto.
    - apply bk_lt.
    - now apply wof_same_auth.
    - intros y Hy. apply Hnew in Hy. destruct Hy as [->|Hy]; [reflexivity|]. apply (c_placed Hc tb b y Htb Hy).
    - intros y z b' Hy Hz. apply Hnew in Hy. destruct Hy as [->|Hy].
      + intros E. assert (Ho : other tb < 2) by (destruct tb as [|[|?]]; cbn; lia).
        pose proof (c_placed Hc (other tb) b' z Ho Hz) as Hb'. specialize (Hab (other tb) Ho).
        unfold CuckooConcFInv.hx in Hb'. rewrite <- E in Hb'. unfold CuckooConcFInv.hx in Hab. rewrite Hb' in Hab. rewrite khas_false in Hab.
        eapply (Hab (snd z)). rewrite E. destruct z; exact Hz.
      + destruct tb as [|[|tb]]; [| |lia]; cbn [other] in Hz.
        * eapply (c_cross Hc); eauto.
        * intros E. eapply (c_cross Hc b' b z y); eauto.
    - rewrite V5. intros y Hy. destruct (Hf y Hy) as [Hy' Hne]. destruct (c_fly Hc t y Hy') as (A0 & A1 & A3).
      split; [exact A0|split; [exact A1|intros tb' Htb'; apply Hif; auto]].
    - now rewrite V5.
    - rewrite V6. intros Hne. apply (c_pend Hc t). auto.
    - now rewrite V6.
    - rewrite V6, V5. intros y Hy. destruct (Hp y Hy) as [Hy' Hne]. destruct (c_pend2 Hc t) as [_ B]. destruct (B y Hy') as [B1 B2].
      split; [intros tb' Htb'; apply Hif; auto|]. intros z Hz. destruct (Hf z Hz) as [Hz' _]. auto.
  Qed.

  Lemma CoreR_tab g g' a t v' : wof v' = wof (a_view a t) -> quiet g g' -> CoreR g (wv a) -> CoreR g' (wv (setv a t v')).
  Proof. intros E [Hl Hp] Hr. eapply CoreR_same; [apply CoreR_keepw; eauto|exact Hl|exact Hp]. Qed.

  (** moving [x] from the thread's in-flight / pending items into one of its probe sets *)
  Lemma Inv_insert_move g a tr t v' x tb new f p kk ob ok :
    Inv g a tr -> tb < 2 -> auth (a_view a t) tb (bk g (fst x) tb) -> absent g x ->
    tab_view (a_view a t) v' tb (bk g (fst x) tb) new f p -> v_op v' = v_op (a_view a t) ->
    (forall y, In y new <-> y = x \/ In y (T g tb (bk g (fst x) tb))) -> NoDup (keys new) ->
    (forall y, In y f -> In y (fly a t) /\ fst y <> fst x) -> length f <= 1 ->
    (forall y, In y p -> In y (pend a t) /\ fst y <> fst x) -> NoDup (keys p) -> (p <> [] -> pend a t <> []) ->
    (forall y, y = x \/ In y f \/ In y p <-> In y (fly a t) \/ In y (pend a t)) ->
    Inv (set_tabs g (set_bkt (tabs g) tb (bk g (fst x) tb) new)) (setv a t v') (tr ++ Conc.tag t [EvAcc kk ob ok]).
  Proof.
    intros Hi Htb Hau Hab Hv Hop Hnew Hnd Hf Hf1 Hp Hpn Hpe Hmv. pose proof Hi as (Hr & Hc & Ha).
    eapply Inv_move; [exact Hi| |eapply CoreB_insert; eauto|reflexivity|exact Htb|apply bk_lt|exact Hop|apply hist_of_acc|apply dropped_app|].
    - apply (CoreR_tab g); [apply Hv|apply quiet_tabs|exact Hr].
    - destruct Hv as (_ & _ & _ & V5 & V6). intros y. rewrite V5, V6, Hnew. specialize (Hmv y). tauto.
  Qed.

  (** the linearization point of a successful insertion *)
  Lemma Inv_lp_insert g a tr t v' k tb new (o : iop) (r : res) kk ob ok :
    Inv g a tr -> in_cs g a t k -> tb < 2 -> lookup g k = None ->
    v_op (a_view a t) = Pending (o : Op ISet) -> v_op v' = Linearized (o : Op ISet) (r : Res ISet) ->
    tab_view (a_view a t) v' tb (bk g k tb) new [] [] ->
    (forall s, khas k s = false -> istep s o = ((k, t) :: s, r)) ->
    (forall y, In y new <-> y = (k, t) \/ In y (T g tb (bk g k tb))) -> NoDup (keys new) ->
    Inv (set_tabs g (set_bkt (tabs g) tb (bk g k tb) new)) (seta (setv a t v') (a_atr a ++ [ALin t]))
        (tr ++ Conc.tag t [EvAcc kk ob ok]).
  Proof.
    intros (Hr & Hc & Ha) Hcs Htb Hlk Hop Hop' Hv Hstep Hnew Hnd. pose proof Hcs as (Hau & Hfl & Hpe).
    assert (Hab : absent g (k, t)) by (intros tb' Htb'; apply (lookup_none g k Hlk tb' Htb')).
    set (g' := set_tabs g (set_bkt (tabs g) tb (bk g k tb) new)).
    assert (Hc1 : CoreB g' (setv a t v')).
    { apply (CoreB_insert g a t v' (k, t) tb new [] [] Hr Hc Htb (Hau tb Htb) Hab Hv Hnew Hnd);
        [intros y []|cbn; lia|intros y []|constructor|congruence]. }
    eapply Inv_table; [apply (CoreR_tab g); [apply Hv|apply quiet_tabs|exact Hr]|exact Hc|exact Hc1|exact Ha|].
    intros s st H1 H2 H3 H4 H5.
    assert (Hks : khas k s = false).
    { apply kget_none. rewrite (abs_lookup g a t k s Hr Hc Hcs H4 H5). exact Hlk. }
    exists ((k, t) :: s), (Lin.upd st t (Linearized (o : Op ISet) (r : Res ISet))).
    split; [|split; [|split; [|split]]].
    - eapply lp_ext; [exact H1|]. cbn [lp_step]. rewrite H3, Hop. cbn [sstep ISet mkSpec]. rewrite (Hstep s Hks). reflexivity.
    - rewrite erase_app, H2. cbn. now rewrite app_nil_r.
    - apply st_setv; auto.
    - unfold keys. cbn [map fst]. constructor; auto. intros Hin. apply khas_in_keys in Hin. congruence.
    - intros y. destruct Hv as (_ & _ & _ & V5 & V6).
      rewrite (CuckooConcFInv.allp_table cf g g' a t v' tb (bk g k tb) new Hc eq_refl Htb (bk_lt g k tb) y).
      rewrite V5, V6. cbn [In]. rewrite H5, (CuckooConcFInv.allp_split g a t tb (bk g k tb) Htb y), Hfl, Hpe, Hnew. cbn [In].
      assert (Heq : (k, t) = y <-> y = (k, t)) by (split; congruence). tauto.
  Qed.

  (** removal of the item found (erase / unlink): the linearization point *)
  Lemma Inv_lp_remove g a tr t v' k tb x (o : iop) (r : res) kk ob ok :
    Inv g a tr -> in_cs g a t k -> tb < 2 -> lookup g k = Some x -> In x (T g tb (bk g k tb)) ->
    v_op (a_view a t) = Pending (o : Op ISet) -> v_op v' = Linearized (o : Op ISet) (r : Res ISet) ->
    tab_view (a_view a t) v' tb (bk g k tb) (kdel k (T g tb (bk g k tb))) [] [] ->
    (forall s, kget k s = Some x -> istep s o = (kdel k s, r)) ->
    Inv (set_tabs g (set_bkt (tabs g) tb (bk g k tb) (kdel k (T g tb (bk g k tb))))) (seta (setv a t v') (a_atr a ++ [ALin t]))
        (tr ++ Conc.tag t [EvAcc kk ob ok]).
  Proof.
    intros (Hr & Hc & Ha) Hcs Htb Hlk Hx Hop Hop' Hv Hstep. pose proof Hcs as (Hau & Hfl & Hpe).
    set (b := bk g k tb) in *. set (old := T g tb b) in *. set (new := kdel k old).
    set (g' := set_tabs g (set_bkt (tabs g) tb b new)).
    pose proof Hv as (V0 & V3 & V4 & V5 & V6).
    assert (Hsub : forall y, In y new -> In y old) by (intros y Hy; apply kdel_in in Hy; tauto).
    assert (Hc1 : CoreB g' (setv a t v')).
    { apply (CuckooConcFInv.CoreB_table cf g g' a t v' tb b new Hr Hc);
        [reflexivity|reflexivity|reflexivity|reflexivity|exact Htb|apply bk_lt|apply Hau; exact Htb|now apply wof_same_auth|exact V3|exact V4|..].
      - intros y Hy. apply (c_placed Hc tb b y Htb (Hsub y Hy)).
      - apply keys_kdel_nodup. apply (c_nodup Hc).
      - intros y z b' Hy Hz. apply Hsub in Hy. destruct tb as [|[|tb]]; [| |lia]; cbn [other] in Hz.
        + eapply (c_cross Hc); eauto.
        + intros E. eapply (c_cross Hc b' b z y); eauto.
      - rewrite V5. intros y [].
      - rewrite V5. cbn. lia.
      - rewrite V6. congruence.
      - rewrite V6. constructor.
      - rewrite V6. intros y []. }
    eapply Inv_table; [apply (CoreR_tab g); [exact V0|apply quiet_tabs|exact Hr]|exact Hc|exact Hc1|exact Ha|].
    intros s st H1 H2 H3 H4 H5.
    assert (Hks : kget k s = Some x) by (rewrite (abs_lookup g a t k s Hr Hc Hcs H4 H5); exact Hlk).
    destruct (lookup_bucket g a k x Hc Hlk) as (Hkx & tb0 & Htb0 & Hx0 & Hoth).
    assert (tb0 = tb).
    { destruct (Nat.eq_dec tb0 tb) as [E|E]; auto. exfalso. specialize (Hoth tb Htb ltac:(auto)).
      rewrite khas_false in Hoth. eapply (Hoth (snd x)).
      assert (E' : (k, snd x) = x) by (rewrite <- Hkx; destruct x; reflexivity). rewrite E'. exact Hx. }
    subst tb0.
    exists (kdel k s), (Lin.upd st t (Linearized (o : Op ISet) (r : Res ISet))).
    split; [|split; [|split; [|split]]].
    - eapply lp_ext; [exact H1|]. cbn [lp_step]. rewrite H3, Hop. cbn [sstep ISet mkSpec]. rewrite (Hstep s Hks). reflexivity.
    - rewrite erase_app, H2. cbn. now rewrite app_nil_r.
    - apply st_setv; auto.
    - now apply keys_kdel_nodup.
    - intros y. rewrite kdel_in, H5.
      rewrite (CuckooConcFInv.allp_table cf g g' a t v' tb b new Hc eq_refl Htb (bk_lt g k tb) y), V5, V6.
      rewrite (CuckooConcFInv.allp_split g a t tb b Htb y), Hfl, Hpe. cbn [In]. unfold new. rewrite kdel_in.
      assert (K1 : forall tb' b', tb' < 2 -> (tb', b') <> (tb, b) -> In y (T g tb' b') -> fst y <> k).
      { intros tb' b' Htb' Hne Hy E. pose proof (c_placed Hc tb' b' y Htb' Hy) as Hb'. unfold CuckooConcFInv.hx in Hb'. rewrite E in Hb'. fold (bk g k tb') in Hb'.
        destruct (Nat.eq_dec tb' tb) as [->|Et]; [apply Hne; unfold b; now rewrite Hb'|].
        specialize (Hoth tb' Htb' Et). rewrite khas_false in Hoth. eapply (Hoth (snd y)).
        assert (E' : (k, snd y) = y) by (rewrite <- E; destruct y; reflexivity). rewrite E', Hb'. exact Hy. }
      assert (K2 : forall t0, In y (fly a t0) -> fst y <> k) by (intros t0 Hy E; eapply (proj1 (cs_no_other g a t k y Hr Hc Hcs E)); eauto).
      assert (K3 : forall t0, In y (pend a t0) -> fst y <> k) by (intros t0 Hy E; eapply (proj2 (cs_no_other g a t k y Hr Hc Hcs E)); eauto).
      split.
      + intros [[H|[(tb' & b' & A1 & A2 & A3)|[[]|[(t0 & A1 & A2)|[[]|(t0 & A1 & A2)]]]]] Hne]; [left; auto|right; left; eauto|right; right; right; left; eauto|right; right; right; right; right; eauto].
      + intros [[H Hne]|[(tb' & b' & A1 & A2 & A3)|[[]|[(t0 & A1 & A2)|[[]|(t0 & A1 & A2)]]]]].
        * split; auto.
        * split; [right; left; eauto|eapply K1; eauto].
        * split; [right; right; right; left; eauto|eapply K2; eauto].
        * split; [right; right; right; right; right; eauto|eapply K3; eauto].
  Qed.


  (** *** relocation: the victim leaves its probe set (in the step that took the victim's second cell) *)
  Lemma Inv_rm_first g a tr t v' tb b x rest0 :
    Inv g a tr -> tb < 2 -> b < S (mask g) -> auth (a_view a t) tb b -> T g tb b = x :: rest0 ->
    fly a t = [] ->
    (all0 (a_view a t) \/ (In (clk (a_view a t) 0 (h0 x)) (held a t) /\ In (clk (a_view a t) 1 (h1 x)) (held a t))) ->
    tab_view (a_view a t) v' tb b rest0 [x] (pend a t) -> v_op v' = v_op (a_view a t) ->
    Inv (rm_first tb b g) (setv a t v') tr.
  Proof.
    intros Hi Htb Hb Hau Hold Hfl Hlk Hv Hop. pose proof Hi as (Hr & Hc & Ha).
    pose proof Hv as (V0 & V3 & V4 & V5 & V6).
    assert (Hxin : In x (T g tb b)) by (rewrite Hold; now left).
    assert (Hpx : hx x tb mod S (mask g) = b) by (apply (c_placed Hc tb b x Htb Hxin)).
    assert (Hnd : NoDup (keys (x :: rest0))) by (rewrite <- Hold; apply (c_nodup Hc)).
    unfold keys in Hnd. cbn [map] in Hnd. apply NoDup_cons_iff in Hnd. destruct Hnd as [Hnx Hndr].
    assert (Hkx : khas (fst x) rest0 = false).
    { destruct (khas (fst x) rest0) eqn:E; auto. apply khas_in_keys in E. contradiction. }
    assert (Hox : forall b', khas (fst x) (T g (other tb) b') = false).
    { intros b'. apply khas_false. intros o Hin. destruct tb as [|[|tb]]; [| |lia]; cbn [other] in Hin.
      - eapply (c_cross Hc b b' x (fst x, o)); eauto.
      - eapply (c_cross Hc b' b (fst x, o) x); eauto. }
    unfold rm_first. fold (T g tb b). rewrite Hold. cbn [tl].
    eapply Inv_move with (tb := tb) (b := b) (new := rest0); [exact Hi| | |reflexivity|exact Htb|exact Hb|exact Hop|reflexivity|auto|].
    - apply (CoreR_tab g); [exact V0|apply quiet_tabs|exact Hr].
    - apply (CuckooConcFInv.CoreB_table cf g _ a t v' tb b rest0 Hr Hc);
        [reflexivity|reflexivity|reflexivity|reflexivity|exact Htb|exact Hb|exact Hau|now apply wof_same_auth|exact V3|exact V4|..].
      + intros y Hy. apply (c_placed Hc tb b y Htb). rewrite Hold. now right.
      + exact Hndr.
      + intros y z b' Hy Hz. assert (Hy' : In y (T g tb b)) by (rewrite Hold; now right).
        destruct tb as [|[|tb]]; [| |lia]; cbn [other] in Hz.
        * eapply (c_cross Hc); eauto.
        * intros E. eapply (c_cross Hc b' b z y); eauto.
      + rewrite V5. intros y [<-|[]]. destruct Hau as [H0 _]. split; [exact H0|]. split; [exact Hlk|].
        intros tb' Htb'. destruct (Nat.eqb_spec tb' tb) as [->|E1].
        * rewrite Hpx, Nat.eqb_refl. cbn [andb]. exact Hkx.
        * cbn [andb]. assert (tb' = other tb) by (destruct tb as [|[|?]]; destruct tb' as [|[|?]]; cbn; lia). subst tb'. apply Hox.
      + rewrite V5. cbn. lia.
      + rewrite V6. apply (c_pend Hc t).
      + rewrite V6. apply (c_pend2 Hc t).
      + rewrite V6, V5. intros y Hy. destruct (c_pend2 Hc t) as [_ B]. destruct (B y Hy) as [B1 B2].
        assert (Hne : fst y <> fst x).
        { intros E. specialize (B1 tb Htb). unfold CuckooConcFInv.hx in B1. rewrite E in B1. unfold CuckooConcFInv.hx in Hpx. rewrite Hpx in B1.
          rewrite khas_false in B1. eapply (B1 (snd x)). rewrite Hold. left. destruct x; reflexivity. }
        split.
        * intros tb' Htb'. destruct (Nat.eqb_spec tb' tb) as [->|E1]; destruct (Nat.eqb_spec (hx y tb mod S (mask g)) b) as [E2|E2]; cbn [andb];
            try (apply B1; auto). specialize (B1 tb Htb). rewrite E2, Hold in B1.
          apply khas_false. intros o Hin. rewrite khas_false in B1. eapply B1. right. exact Hin.
        * intros z [<-|[]]. auto.
    - intros y. rewrite V5, V6, Hold, Hfl. cbn [In]. tauto.
  Qed.

  (** *** client events *)
  Import String.

  Lemma hist_inv tr t c k x y o : iop_of c k t y = Some o ->
    hist_of (tr ++ Conc.tag t [EvCli "inv" (zl [c; k; x; y])]) = hist_of tr ++ [@HInv ISet t o].
  Proof. intros H. rewrite hist_of_app. f_equal. cbn. unfold z2n. rewrite !Nat2Z.id, H. reflexivity. Qed.
  Lemma hist_ret tr t c r1 r2 :
    hist_of (tr ++ Conc.tag t [EvCli "ret" (zl [c; r1; r2])]) = hist_of tr ++ [@HRes ISet t (res_of c r1 r2)].
  Proof. rewrite hist_of_app. f_equal. cbn. unfold z2n. now rewrite !Nat2Z.id. Qed.
  Lemma hist_other tr t name args : name <> "inv"%string -> name <> "ret"%string ->
    hist_of (tr ++ Conc.tag t [EvCli name args]) = hist_of tr.
  Proof.
    intros N1 N2. rewrite hist_of_app. cbn. apply String.eqb_neq in N1. apply String.eqb_neq in N2. rewrite N1, N2. now rewrite app_nil_r.
  Qed.

  Lemma Inv_cli g a tr t (o : status ISet) name args atr' :
    Inv g a tr ->
    (forall s st, lp_run lp_init (a_atr a) = Some (s, st) -> (forall t0, st t0 = v_op (a_view a t0)) ->
        erase (a_atr a) = hist_of tr ->
        lp_run lp_init atr' = Some (s, Lin.upd st t o) /\ erase atr' = hist_of (tr ++ Conc.tag t [EvCli name args])) ->
    Inv g (seta (setv a t (with_op (a_view a t) o)) atr') (tr ++ Conc.tag t [EvCli name args]).
  Proof.
    intros (Hr & Hc & Ha) Hatr. split3; [rewrite wv_seta; now apply CoreR_with_op|apply CuckooConcFInv.CoreB_seta; now apply CoreB_with_op|].
    destruct Ha as [Hd|(s & st & H1 & H2 & H3 & H4 & H5)]; [left; now apply dropped_app|right].
    destruct (Hatr s st H1 H3 H2) as [K1 K2]. exists s, (Lin.upd st t o). cbn [a_atr seta a_view].
    split; [exact K1|]. split; [exact K2|]. split; [apply st_setv; auto|]. split; [exact H4|].
    intros x. rewrite H5. symmetry. apply allp_with_op.
  Qed.

  Lemma Inv_oof g a tr t : Inv g a tr -> Inv g a (tr ++ Conc.tag t [EvCli "outoffuel" []]).
  Proof.
    intros (Hr & Hc & Ha). split3; auto. eapply CuckooConcFInv.Abs_keep; eauto; [apply hist_other; discriminate|apply dropped_app].
  Qed.

  Definition fdrop (v : fview) (r : list item) : fview :=
    mkFV (v_op v) (v_held v) (v_mic v) (v_mask v) (v_reg v) (v_fly v) r (v_own v) (v_anc v) (v_chk v) (v_gs v) (v_acc v) (v_wmask v).

  Lemma Inv_drop g a tr t x r :
    Inv g a tr -> pend a t = x :: r ->
    Inv g (setv a t (fdrop (a_view a t) r)) (tr ++ Conc.tag t [EvCli "dropped" [Z.of_nat (fst x)]]).
  Proof.
    intros (Hr & Hc & Ha) Hp. split3.
    - apply CoreR_keepw; [reflexivity|exact Hr].
    - apply (CuckooConcFInv.CoreB_fp cf g a t _ Hc); cbn [fdrop v_mask v_reg v_fly v_pend]; auto.
      + (split; [reflexivity|split; [reflexivity|split; reflexivity]]).
      + apply (c_fly1 Hc t).
      + intros y Hy. rewrite Hp. now right.
      + destruct (c_pend2 Hc t) as [A _]. rewrite Hp in A. unfold keys in A. cbn [map] in A. now apply NoDup_cons_iff in A.
    - left. exists t, (Z.of_nat (fst x)). apply in_or_app. right. cbn. left. reflexivity.
  Qed.


  (** *** scoped_cell_trylock *)
  Lemma safe_cell_trylock t hh0 hh1 post (Q : option cells -> fview -> Prop) v :
    v_mic v = MNone ->
    (forall gs, gs_ok (wof v) gs -> (v_anc v <> None -> gs = v_gs v) -> Q None (fset_gs v gs (v_acc v))) ->
    (forall gs, gs_ok (wof v) gs -> (v_anc v <> None -> gs = v_gs v) ->
       forall v1, acquired (fst gs, 0, hh0 mod snd gs) (fset_gs v gs (v_acc v)) v1 -> extends (fset_gs v gs (v_acc v)) v1 ->
       post_ok t (fst gs, 1, hh1 mod snd gs) post v1 (Q (Some ((fst gs, 0, hh0 mod snd gs), (fst gs, 1, hh1 mod snd gs))))) ->
    safe t (cell_trylock (c_pol cf) (c_fuel cf) L (S t) hh0 hh1 post) v (optQ Q).
  Proof.
    intros Hm HN HS. rewrite Hpol. cbn [cell_trylock]. apply safe_pcap_ld_gs. intros vc Hgs Hsame.
    pose proof Hgs as [Gpos _]. cbn [fst snd] in Gpos.
    apply Conc.safe_bind. apply safe_r_try_lock.
    - exists 0, (hh0 mod vn vc). cbn. repeat split; auto. apply Nat.mod_upper_bound. lia.
    - exact Hm.
    - intros v1 Hacq Hext. apply safe_bindo. apply safe_r_lock_post.
      + destruct Hacq as (r & ->). exists 1, (hh1 mod vn vc). cbn. repeat split; auto. apply Nat.mod_upper_bound. lia.
      + destruct Hacq as (r & ->). reflexivity.
      + intros g a tr Hi Hacq1 Hrg Hkn. destruct (HS (vm vc, vn vc) Hgs Hsame v1 Hacq Hext g a tr Hi Hacq1 Hrg Hkn) as (a' & K1 & K2 & K3).
        exists a'. split; [exact K1|]. split; [exact K2|]. apply safe_oret. exact K3.
    - apply safe_oret. apply (HN (vm vc, vn vc) Hgs Hsame).
  Qed.

  (** *** what a view knows inside the critical section of key k *)
  Definition kh0 (k : nat) : nat := fst (hashes cf k).
  Definition kh1 (k : nat) : nat := snd (hashes cf k).
  Definition vb (v : fview) (k tb : nat) : nat := hsel (hashes cf k) tb mod S (v_mask v).
  Definition vlookup (v : fview) (k : nat) : option item :=
    match kget k (v_reg v 0 (vb v k 0)) with Some x => Some x | None => kget k (v_reg v 1 (vb v k 1)) end.

  Definition csview (v : fview) (k : nat) : Prop :=
    has0 v /\ (all0 v \/ (In (clk v 0 (kh0 k)) (v_held v) /\ In (clk v 1 (kh1 k)) (v_held v))) /\
    v_mic v = MNone /\ v_fly v = [] /\ v_pend v = [].

  Lemma all0_dec v : all0 v \/ ~ all0 v.
  Proof. unfold CuckooConcFInv.all0. destruct (v_own v) as [| |g0 sz j|g0 sz n b]; cbn; auto. destruct (Nat.eq_dec j sz); auto. Qed.

  Lemma auth_of_cs g a tr t k tb : Inv g a tr -> csview (a_view a t) k -> tb < 2 -> auth (a_view a t) tb (bk g k tb).
  Proof.
    intros (Hr & Hc & _) (H0 & Hl & _) Htb. split; [exact H0|].
    destruct (all0_dec (a_view a t)) as [D|D]; [now right|]. left.
    destruct Hl as [Hl|[Hl0 Hl1]]; [contradiction|]. destruct H0 as [H0|H0]; [|contradiction].
    unfold CuckooConcFInv.clk, bk. rewrite (CuckooConcFInv.stripe_mod cf g a t _ Hr Hc H0 D).
    destruct tb as [|[|tb]]; [exact Hl0|exact Hl1|lia].
  Qed.

  Lemma in_cs_of_view g a tr t k : Inv g a tr -> csview (a_view a t) k -> in_cs g a t k.
  Proof.
    intros Hi Hcs. pose proof Hcs as (_ & _ & _ & Hf & Hp). split; [|split; [exact Hf|exact Hp]].
    intros tb Htb. eapply auth_of_cs; eauto.
  Qed.

  Lemma view_facts g a tr t k : Inv g a tr -> csview (a_view a t) k ->
    (forall tb, tb < 2 -> bk g k tb = vb (a_view a t) k tb /\ T g tb (bk g k tb) = v_reg (a_view a t) tb (vb (a_view a t) k tb)) /\
    lookup g k = vlookup (a_view a t) k.
  Proof.
    intros Hi Hcs. pose proof Hi as (Hr & Hc & _). pose proof (in_cs_of_view g a tr t k Hi Hcs) as (Hau & _ & _).
    destruct Hcs as (H0 & _).
    assert (Hm : mask g = v_mask (a_view a t)) by (apply (c_mask Hc); exact H0).
    assert (Hb : forall tb, bk g k tb = vb (a_view a t) k tb) by (intros; unfold bk, vb; now rewrite Hm).
    assert (Hr' : forall tb, tb < 2 -> T g tb (bk g k tb) = v_reg (a_view a t) tb (vb (a_view a t) k tb)).
    { intros tb Htb. rewrite <- Hb. apply (c_reg Hc t tb _ Htb). apply Hau; auto. }
    split; [intros tb Htb; split; auto|].
    unfold lookup, vlookup. rewrite (Hr' 0), (Hr' 1) by lia. reflexivity.
  Qed.

  Lemma khas_kget k s : khas k s = match kget k s with Some _ => true | None => false end.
  Proof. destruct (kget k s) eqn:E; [|now apply kget_none]. apply kget_some in E. destruct E as [H1 H2]. apply khas_true. exists (snd i). rewrite <- H2. destruct i; exact H1. Qed.

  (** *** contains(): the two probes, with an optional linearization point at the deciding probe *)
  Definition lin_view (v : fview) (o : iop) (d : option res) : fview :=
    match d with Some r => with_op v (Linearized (o : Op ISet) (r : Res ISet)) | None => v end.

  Lemma csview_lin v k o d : csview v k -> csview (lin_view v o d) k.
  Proof. destruct d; auto. Qed.

  Definition contains_gen {R} (hh : nat * nat) (k : nat) (cont : nat -> nat -> prog R) : prog R :=
    Act (a_probe 0 (fst hh) k) (fun p0 =>
      if Nat.eqb (vn p0) 1 then cont 0 (vm p0)
      else Act (a_probe 1 (snd hh) k) (fun p1 => if Nat.eqb (vn p1) 1 then cont 1 (vm p1) else cont 2 0)).
  Lemma contains_is_gen hh k cont : contains hh k cont = contains_gen hh k cont.
  Proof. reflexivity. Qed.

  Lemma safe_contains {R} t k (o : iop) (dec_found : item -> option res) (dec_none : option res)
        (cont : nat -> nat -> prog R) (Q : R -> fview -> Prop) v :
    csview v k -> v_op v = Pending (o : Op ISet) ->
    (forall x r, dec_found x = Some r -> forall s, kget k s = Some x -> istep s o = (s, r)) ->
    (forall r, dec_none = Some r -> forall s, kget k s = None -> istep s o = (s, r)) ->
    (forall tb x, tb < 2 -> vlookup v k = Some x -> kget k (v_reg v tb (vb v k tb)) = Some x ->
        safe t (cont tb (snd x)) (lin_view v o (dec_found x)) Q) ->
    (vlookup v k = None -> safe t (cont 2 0) (lin_view v o dec_none) Q) ->
    safe t (contains_gen (hashes cf k) k cont) v Q.
  Proof.
    intros Hcs Hop Hdf Hdn Hfound Hnone. unfold contains_gen.
    assert (Step : forall g a tr (d : option res) kk ob ok, Inv g a tr -> a_view a t = v ->
              (forall r, d = Some r -> forall s, kget k s = lookup g k -> istep s o = (s, r)) ->
              exists a', Inv g a' (tr ++ Conc.tag t [EvAcc kk ob ok]) /\ Conc.frame fvw t a a' /\ a_view a' t = lin_view v o d).
    { intros g a tr d kk ob ok Hi Hv Hd. destruct d as [r|]; cbn [lin_view].
      - eexists. split; [apply (Inv_lp_read g g a tr t k o r kk ob ok Hi (quietF_refl g)); auto|].
        + now rewrite Hv.
        + eapply in_cs_of_view; eauto. now rewrite Hv.
        + split; [intros t' Hne; unfold fvw; cbn [a_view seta]; now apply setv_other|].
          cbn [a_view seta]. rewrite setv_same, Hv. reflexivity.
      - exists a. split; [eapply Inv_acc; eauto; apply quietF_refl|]. split; [apply frame_refl|exact Hv]. }
    cbn [Conc.safe]. intros g a tr Hi Hv. unfold fvw in Hv.
    assert (Hcs' : csview (a_view a t) k) by now rewrite Hv.
    destruct (view_facts g a tr t k Hi Hcs') as [Hb Hl]. rewrite Hv in Hb, Hl.
    destruct (Hb 0 ltac:(lia)) as [Hb0 Hr0].
    assert (EE : bkt_get k (get_bkt (tabs g) 0 (bidx g (fst (hashes cf k)))) = kget k (v_reg v 0 (vb v k 0))) by (rewrite <- Hr0; reflexivity).
    unfold a_probe. rewrite EE.
    destruct (kget k (v_reg v 0 (vb v k 0))) as [x|] eqn:E0; cbn [fst snd].
    - assert (Hvl : vlookup v k = Some x) by (unfold vlookup; now rewrite E0).
      destruct (Step g a tr (dec_found x) KLd o_mask true Hi Hv) as (a' & K1 & K2 & K3).
      { intros r Hr s Hs. apply (Hdf x r Hr). now rewrite Hs, Hl. }
      exists a'. split; [exact K1|]. split; [exact K2|]. unfold fvw. rewrite K3. cbn [vn vm Nat.eqb].
      apply (Hfound 0 x); auto.
    - exists a. split; [eapply Inv_acc; eauto; apply quietF_refl|]. split; [apply frame_refl|]. unfold fvw. rewrite Hv. cbn [vn vnat Nat.eqb Conc.safe].
      clear g a tr Hi Hv Hcs' Hb Hl Hb0 Hr0 EE. intros g a tr Hi Hv. unfold fvw in Hv.
      assert (Hcs' : csview (a_view a t) k) by now rewrite Hv.
      destruct (view_facts g a tr t k Hi Hcs') as [Hb Hl]. rewrite Hv in Hb, Hl.
      destruct (Hb 1 ltac:(lia)) as [Hb1 Hr1].
      assert (EE : bkt_get k (get_bkt (tabs g) 1 (bidx g (snd (hashes cf k)))) = kget k (v_reg v 1 (vb v k 1))) by (rewrite <- Hr1; reflexivity).
      unfold a_probe. rewrite EE.
      destruct (kget k (v_reg v 1 (vb v k 1))) as [x|] eqn:E1; cbn [fst snd].
      + assert (Hvl : vlookup v k = Some x) by (unfold vlookup; now rewrite E0, E1).
        destruct (Step g a tr (dec_found x) KLd o_mask true Hi Hv) as (a' & K1 & K2 & K3).
        { intros r Hr s Hs. apply (Hdf x r Hr). now rewrite Hs, Hl. }
        exists a'. split; [exact K1|]. split; [exact K2|]. unfold fvw. rewrite K3. cbn [vn vm Nat.eqb].
        apply (Hfound 1 x); auto.
      + assert (Hvl : vlookup v k = None) by (unfold vlookup; now rewrite E0, E1).
        destruct (Step g a tr dec_none KLd o_mask true Hi Hv) as (a' & K1 & K2 & K3).
        { intros r Hr s Hs. apply (Hdn r Hr). now rewrite Hs, Hl. }
        exists a'. split; [exact K1|]. split; [exact K2|]. unfold fvw. rewrite K3. cbn [vn vnat Nat.eqb].
        apply Hnone; auto.
  Qed.


  (** *** client operations: codes, results *)
  Definition iop_of_cop (o : cop) (k t : nat) : iop :=
    match o with
    | CInsert => IInsert k t
    | CUpdate allow => IUpdate k t allow
    | CUnlink => IUnlink k t
    | CErase => IErase k
    | CFind => IFind k
    end.
  Definition res_of_cop (o : cop) (r1 r2 : nat) : res :=
    match o with CUpdate _ => RPair (n2b r1) (n2b r2) | _ => RBool (n2b r1) end.

  Lemma iop_of_ccode c k t b co : op_of_code c b = Some co -> iop_of c k t b = Some (iop_of_cop co k t).
  Proof.
    unfold op_of_code, iop_of.
    do 15 (destruct c as [|c]; [intros H; inversion H; subst; reflexivity || discriminate|]). discriminate.
  Qed.
  Lemma res_of_ccode c k b co r1 r2 : op_of_code c b = Some co -> res_of c r1 (r2_of_code c k r1 r2) = res_of_cop co r1 r2.
  Proof.
    unfold op_of_code, res_of, r2_of_code.
    do 15 (destruct c as [|c]; [intros H; inversion H; subst; reflexivity || discriminate|]). discriminate.
  Qed.

  Definition idle (v : fview) : Prop := rest v [] ONone /\ v_op v = Lin.Idle.
  Lemma ok_idle : okbase [] ONone.
  Proof. left. auto. Qed.

  Lemma rest_with_op v H o s : rest v H o -> rest (with_op v s) H o.
  Proof. intros H0. exact H0. Qed.

  (** the response event *)
  Lemma safe_fin t c k b co r1 r2 v :
    op_of_code c b = Some co ->
    v_op v = Linearized (iop_of_cop co k t : Op ISet) (res_of_cop co r1 r2 : Res ISet) ->
    safe t (Emit [EvCli "ret" (zl [c; r1; r2_of_code c k r1 r2])] (oret tt)) v
         (optQ (fun _ v' => v' = with_op v Lin.Idle)).
  Proof.
    intros Hoc Hop. cbn [Conc.safe]. intros g a tr Hi Hv. unfold fvw in Hv.
    rewrite <- (res_of_ccode c k b co r1 r2 Hoc) in Hop.
    eexists. split; [apply (Inv_cli g a tr t Lin.Idle "ret" _ (a_atr a ++ [ARes t (res_of c r1 (r2_of_code c k r1 r2) : Res ISet)]) Hi)|].
    - intros s st H1 H3 H2. split.
      + eapply lp_ext; [exact H1|]. cbn [lp_step]. rewrite H3, Hv, Hop.
        assert (E : res_eqb ISet (res_of c r1 (r2_of_code c k r1 r2)) (res_of c r1 (r2_of_code c k r1 r2)) = true) by (apply res_eqb_spec; reflexivity).
        rewrite E. reflexivity.
      + rewrite erase_app, H2, hist_ret. reflexivity.
    - split.
      + intros t' Hne. unfold fvw. cbn [a_view seta]. now apply setv_other.
      + unfold fvw. cbn [a_view seta]. rewrite setv_same, Hv. apply safe_oret. reflexivity.
  Qed.

  Lemma istep_find_some k s x : kget k s = Some x -> istep s (IFind k) = (s, RBool true).
  Proof. intros E. cbn. now rewrite khas_kget, E. Qed.
  Lemma istep_find_none k s : kget k s = None -> istep s (IFind k) = (s, RBool false).
  Proof. intros E. cbn. now rewrite khas_kget, E. Qed.

  Lemma incs_csview v cl k : incs v cl [] ONone (kh0 k) (kh1 k) -> v_pend v = [] -> csview v k.
  Proof.
    intros (C1 & C2 & C3 & C4 & C5 & C6 & C7 & Cf & E0 & E1 & (i & Ca & Cl)) Hp.
    split; [left; congruence|]. split; [right; rewrite C1, <- E0, <- E1; split; [right; now left|now left]|]. auto.
  Qed.

  (** leaving the critical section of a client operation and responding *)
  Lemma safe_client_exit t c k b co cl (r : nat * nat) vv :
    op_of_code c b = Some co -> incs vv cl [] ONone (kh0 k) (kh1 k) -> v_pend vv = [] ->
    v_op vv = Linearized (iop_of_cop co k t : Op ISet) (res_of_cop co (fst r) (snd r) : Res ISet) ->
    safe t (thenu (unlock2 cl) (oret r)) vv
      (optQ (fun r l' => safe t (Emit [EvCli "ret" (zl [c; fst r; r2_of_code c k (fst r) (snd r)])] (oret tt)) l' (optQ (fun _ v' => idle v')))).
  Proof.
    intros Hoc Hin Hp Hop. apply (safe_cs_exit t cl [] ONone (kh0 k) (kh1 k)); [apply ok_idle|exact Hin|auto|].
    intros v' Hr' [B1 B2] _ _. apply safe_oret.
    eapply Conc.safe_weaken; [|eapply (safe_fin t c k b co (fst r) (snd r) v' Hoc)]; [|rewrite B1; exact Hop].
    intros [u|] l' Hl; cbn [optQ] in *; auto. subst l'. split; [apply rest_with_op; exact Hr'|reflexivity].
  Qed.

  Definition pending_idle (v : fview) (o : iop) : Prop := rest v [] ONone /\ v_op v = Pending (o : Op ISet).

  Lemma safe_find t c k b v :
    op_of_code c b = Some CFind -> pending_idle v (IFind k) ->
    safe t (bindo (cell_lock (c_pol cf) (c_fuel cf) L (S t) (fst (hashes cf k)) (snd (hashes cf k))) (fun cl =>
             bindo (contains (hashes cf k) k (fun tb _ => thenu (unlock2 cl) (oret (b2n (Nat.ltb tb 2), 0))))
                   (fun r => Emit [EvCli "ret" (zl [c; fst r; r2_of_code c k (fst r) (snd r)])] (oret tt)))) v
         (optQ (fun _ v' => idle v')).
  Proof.
    intros Hoc [Hr Hop]. apply safe_bindo. rewrite Hpol. cbn [cell_lock].
    apply (safe_rf_acquire t (kh0 k) (kh1 k) [] ONone _ ok_idle _ v Hr).
    intros cl v1 Hin [B1 B2] _. apply safe_bindo. rewrite contains_is_gen.
    assert (Hp1 : v_pend v1 = []) by (rewrite B2; apply Hr; reflexivity).
    assert (Hcs : csview v1 k) by (apply (incs_csview v1 cl k Hin Hp1)).
    assert (Hex : forall r1 vv, incs vv cl [] ONone (kh0 k) (kh1 k) -> v_pend vv = [] -> v_op vv = Linearized (IFind k : Op ISet) (RBool (n2b r1) : Res ISet) ->
              safe t (thenu (unlock2 cl) (oret (r1, 0))) vv
                (optQ (fun r l' => safe t (Emit [EvCli "ret" (zl [c; fst r; r2_of_code c k (fst r) (snd r)])] (oret tt)) l' (optQ (fun _ v' => idle v'))))).
    { intros r1 vv Hvv Hpv Hopv. apply (safe_client_exit t c k b CFind cl (r1, 0) vv Hoc Hvv Hpv Hopv). }
    apply (safe_contains t k (IFind k) (fun _ => Some (RBool true)) (Some (RBool false)) _ _ v1 Hcs); [congruence| | | |].
    - intros x r E s Hs. inversion E; subst. eapply istep_find_some; eauto.
    - intros r E s Hs. inversion E; subst. now apply istep_find_none.
    - intros tb x Htb _ _. apply Nat.ltb_lt in Htb. rewrite Htb. cbn [b2n lin_view]. apply (Hex 1); auto.
    - intros _. cbn [Nat.ltb Nat.leb b2n lin_view]. apply (Hex 0); auto.
  Qed.

  (** erase / unlink *)
  Definition mine_of (co : cop) (t own : nat) : bool := match co with CUnlink => Nat.eqb own t | _ => true end.

  Lemma istep_erase_none co k t s : (co = CErase \/ co = CUnlink) -> kget k s = None -> istep s (iop_of_cop co k t) = (s, RBool false).
  Proof. intros [->| ->] E; cbn; [rewrite khas_kget, E|rewrite E]; reflexivity. Qed.
  Lemma istep_unlink_other k t s x : kget k s = Some x -> Nat.eqb (snd x) t = false -> istep s (IUnlink k t) = (s, RBool false).
  Proof. intros E N. cbn. now rewrite E, N. Qed.
  Lemma istep_erase_some co k t s x : (co = CErase \/ co = CUnlink) -> kget k s = Some x -> mine_of co t (snd x) = true ->
    istep s (iop_of_cop co k t) = (kdel k s, RBool true).
  Proof. intros [->| ->] E M; cbn in *; [rewrite khas_kget, E|rewrite E, M]; reflexivity. Qed.

  Lemma incs_with v cl H o hh0 hh1 v' :
    incs v cl H o hh0 hh1 -> wof v' = wof v -> v_fly v' = [] -> incs v' cl H o hh0 hh1.
  Proof.
    intros (C1 & C2 & C3 & C4 & C5 & C6 & C7 & Cf & E0 & E1 & (i & Ca & Cl)) E Hf.
    injection E as X1 X2 X3 X4 X5 X6 X7 X8. unfold incs, CuckooConcFInv.clk in *. rewrite X1, X2, X3, X4, X5, X6, X7. repeat split; auto. exists i. auto.
  Qed.

  Lemma safe_erase t c k b co v :
    op_of_code c b = Some co -> (co = CErase \/ co = CUnlink) -> pending_idle v (iop_of_cop co k t) ->
    safe t (bindo (cell_lock (c_pol cf) (c_fuel cf) L (S t) (fst (hashes cf k)) (snd (hashes cf k))) (fun cl =>
             bindo (contains (hashes cf k) k (fun tb own =>
                      if (Nat.ltb tb 2 && mine_of co t own)%bool
                      then Act (a_remove tb (hsel (hashes cf k) tb) k) (fun _ => Act a_count_fas (fun _ => thenu (unlock2 cl) (oret (1, 0))))
                      else thenu (unlock2 cl) (oret (0, 0))))
                   (fun r => Emit [EvCli "ret" (zl [c; fst r; r2_of_code c k (fst r) (snd r)])] (oret tt)))) v
         (optQ (fun _ v' => idle v')).
  Proof.
    intros Hoc Hco [Hr Hop]. apply safe_bindo. rewrite Hpol. cbn [cell_lock].
    apply (safe_rf_acquire t (kh0 k) (kh1 k) [] ONone _ ok_idle _ v Hr).
    intros cl v1 Hin [B1 B2] _. apply safe_bindo. rewrite contains_is_gen.
    assert (Hp1 : v_pend v1 = []) by (rewrite B2; apply Hr; reflexivity).
    assert (Hcs : csview v1 k) by (apply (incs_csview v1 cl k Hin Hp1)).
    set (o := iop_of_cop co k t).
    assert (Hrc : forall r1, res_of_cop co r1 0 = RBool (n2b r1)) by (intros; destruct Hco as [->| ->]; reflexivity).
    assert (Hex : forall r1 vv, incs vv cl [] ONone (kh0 k) (kh1 k) -> v_pend vv = [] -> v_op vv = Linearized (o : Op ISet) (RBool (n2b r1) : Res ISet) ->
              safe t (thenu (unlock2 cl) (oret (r1, 0))) vv
                (optQ (fun r l' => safe t (Emit [EvCli "ret" (zl [c; fst r; r2_of_code c k (fst r) (snd r)])] (oret tt)) l' (optQ (fun _ v' => idle v'))))).
    { intros r1 vv Hvv Hpv Hopv. apply (safe_client_exit t c k b co cl (r1, 0) vv Hoc Hvv Hpv). cbn [fst snd]. rewrite Hrc. exact Hopv. }
    apply (safe_contains t k o (fun x => if mine_of co t (snd x) then None else Some (RBool false)) (Some (RBool false)) _ _ v1 Hcs);
      [rewrite B1; exact Hop| | | |].
    - intros x r E s Hs. destruct (mine_of co t (snd x)) eqn:M; [discriminate|]. inversion E; subst r.
      destruct Hco as [->| ->]; [discriminate|]. cbn in M. unfold o. cbn [iop_of_cop]. eapply istep_unlink_other; eauto.
    - intros r E s Hs. inversion E; subst r. now apply istep_erase_none.
    - intros tb x Htb Hvl Hkg. pose proof Htb as Htb'. apply Nat.ltb_lt in Htb'. rewrite Htb'. cbn [andb].
      destruct (mine_of co t (snd x)) eqn:M; cbn [lin_view].
      + (* the item is removed: linearization point *)
        cbn [Conc.safe]. intros g a tr Hi Hv. unfold fvw in Hv.
        assert (Hcs' : csview (a_view a t) k) by now rewrite Hv.
        destruct (view_facts g a tr t k Hi Hcs') as [Hb Hl]. rewrite Hv in Hb, Hl. destruct (Hb tb Htb) as [Hbt Hrt].
        assert (Hx : In x (T g tb (bk g k tb))) by (rewrite Hrt; apply kget_some in Hkg; tauto).
        set (v2 := with_op (with_tab v1 tb (bk g k tb) (kdel k (T g tb (bk g k tb))) [] []) (Linearized (o : Op ISet) (RBool true : Res ISet))).
        exists (seta (setv a t v2) (a_atr a ++ [ALin t])). split; [|split].
        * apply (Inv_lp_remove g a tr t v2 k tb x o (RBool true) KLd o_mask true Hi); auto.
          -- eapply in_cs_of_view; eauto.
          -- now rewrite Hl.
          -- rewrite Hv, B1. exact Hop.
          -- rewrite Hv. unfold v2. repeat split.
          -- intros s Hs. unfold o. apply (istep_erase_some co k t s x); auto.
        * intros t' Hne. unfold fvw. cbn [a_view seta]. now apply setv_other.
        * unfold fvw. cbn [a_view seta]. rewrite setv_same.
          assert (Hin2 : incs v2 cl [] ONone (kh0 k) (kh1 k)) by (apply (incs_with v1 cl _ _ _ _ v2 Hin); reflexivity).
          cbn [Conc.safe]. intros g1 a1 tr1 Hi1 Hv1. unfold fvw in Hv1. exists a1.
          split; [eapply Inv_acc; [exact Hi1|apply quietF_count]|]. split; [apply frame_refl|]. unfold fvw. rewrite Hv1.
          apply (Hex 1 v2); auto.
      + apply (Hex 0); auto.
    - intros _. cbn [Nat.ltb Nat.leb andb lin_view]. apply (Hex 0); auto.
  Qed.


  (** *** relocate *)
  (** authority over the probe sets selected by a pair of hashes *)
  Definition csh (v : fview) (hh0 hh1 : nat) : Prop :=
    has0 v /\ (all0 v \/ (In (clk v 0 hh0) (v_held v) /\ In (clk v 1 hh1) (v_held v))).

  Lemma auth_of_hh g a tr t hh0 hh1 tb : Inv g a tr -> csh (a_view a t) hh0 hh1 -> tb < 2 ->
    auth (a_view a t) tb (hsel (hh0, hh1) tb mod S (mask g)).
  Proof.
    intros (Hr & Hc & _) (H0 & Hl) Htb. split; [exact H0|].
    destruct (all0_dec (a_view a t)) as [D|D]; [now right|]. left.
    destruct Hl as [Hl|[Hl0 Hl1]]; [contradiction|]. destruct H0 as [H0|H0]; [|contradiction].
    unfold CuckooConcFInv.clk. rewrite (CuckooConcFInv.stripe_mod cf g a t _ Hr Hc H0 D).
    destruct tb as [|[|tb]]; [exact Hl0|exact Hl1|lia].
  Qed.

  Lemma incs_csh v cl H o hh0 hh1 : incs v cl H o hh0 hh1 -> csh v hh0 hh1.
  Proof.
    intros (C1 & C2 & C3 & C4 & C5 & C6 & C7 & Cf & E0 & E1 & (i & Ca & Cl)).
    split; [left; congruence|]. right. rewrite C1, <- E0, <- E1. split; [right; now left|now left].
  Qed.

  (** placing the victim (in flight) into a probe set of its own *)
  Lemma Inv_place_fly g a tr t x tb new kk ob ok :
    Inv g a tr -> fly a t = [x] -> tb < 2 ->
    (forall y, In y new <-> y = x \/ In y (T g tb (bk g (fst x) tb))) ->
    (khas (fst x) (T g tb (bk g (fst x) tb)) = false -> NoDup (keys new)) ->
    Inv (set_tabs g (set_bkt (tabs g) tb (bk g (fst x) tb) new))
        (setv a t (with_tab (a_view a t) tb (bk g (fst x) tb) new [] (pend a t))) (tr ++ Conc.tag t [EvAcc kk ob ok]).
  Proof.
    intros Hi Hf Htb Hnew Hnd. pose proof Hi as (Hr & Hc & _).
    assert (Hx : In x (fly a t)) by (rewrite Hf; now left).
    destruct (c_fly Hc t x Hx) as (A0 & A1 & A3).
    apply (Inv_insert_move g a tr t _ x tb new [] (pend a t) kk ob ok Hi Htb);
      [apply (CuckooConcFInv.fly_auth cf g a t x tb Hr Hc Hx Htb)|exact A3|apply tab_view_with_tab|reflexivity|exact Hnew| |intros y []|cbn; lia| |apply (c_pend2 Hc t)|auto|].
    - apply Hnd. apply A3; auto.
    - intros y Hy. split; auto. destruct (c_pend2 Hc t) as [_ B]. destruct (B y Hy) as [_ B2]. apply not_eq_sym. apply B2. exact Hx.
    - intros y. rewrite Hf. cbn [In]. intuition.
  Qed.

  Definition Qreloc (v : fview) (H : list lk) (o : ostate) : (nat * (nat * (nat * nat))) -> fview -> Prop :=
    fun r v' => fst (snd r) < 2 /\ rest v' H o /\ same_bp v v' /\ v_wmask v' = v_wmask v.

  Lemma nodup_keys_cons' (x : item) (b : list item) : khas (fst x) b = false -> NoDup (keys b) -> NoDup (keys (x :: b)).
  Proof. intros Hk Hn. unfold keys. cbn [map]. constructor; [intros Hin; apply khas_in_keys in Hin; congruence|exact Hn]. Qed.

  (** after the victim [x] left probe set (tb, b): put it somewhere, release everything *)
  Lemma safe_reloc_place t tb b x (goal : nat * nat) cl (c2 : cells) H o v0 v (ra rb rc : nat * (nat * (nat * nat))) :
    okbase H o -> tb < 2 -> fst (snd ra) < 2 -> fst (snd rb) < 2 -> fst (snd rc) < 2 ->
    let vh := hashes cf (key_of x) in
    v_held v = snd c2 :: fst c2 :: snd cl :: fst cl :: H -> v_mic v = MNone -> v_fly v = [x] -> fst c2 <> snd c2 ->
    fresh o (fst c2) -> fresh o (snd c2) -> v_own v = o ->
    (forall vv, v_held vv = snd cl :: fst cl :: H -> v_mic vv = MNone -> v_own vv = o -> v_acc vv = v_acc v -> v_gs vv = v_gs v ->
        v_fly vv = [] -> same_bp v vv -> v_wmask vv = v_wmask v -> (v_chk v = None -> v_chk vv = None) ->
        (forall y, v_anc vv = Some y -> v_anc v = Some y) -> (v_anc v <> None -> (forall y, v_anc v = Some y -> In (fst y, 0, snd y) (snd cl :: fst cl :: H)) -> v_anc vv = v_anc v) ->
        incs vv cl H o (fst goal) (snd goal)) ->
    same_bp v0 v -> v_wmask v = v_wmask v0 -> (o = ONone -> v_pend v0 = []) ->
    hsel vh tb mod S (v_mask v) = b -> has0 v ->
    safe t (Act (a_place (c_ord cf) (other tb) (hsel vh (other tb)) x (c_th cf)) (fun v1 =>
              if Nat.eqb (vn v1) 1 then thenu (unlock2 c2) (thenu (unlock2 cl) (oret ra))
              else Act (a_reloc_partial (c_ord cf) (other tb) (hsel vh (other tb)) x (c_ps cf) tb b) (fun v2 =>
                     thenu (unlock2 c2) (thenu (unlock2 cl) (if Nat.eqb (vn v2) 1 then oret rb else oret rc)))))
         v (optQ (Qreloc v0 H o)).
  Proof.
    intros Hb Htb Hra Hrb Hrc vh Hh Hm Hf Hne2 Hf0 Hf1 Ho Hincs Hbp Hwm Hpe0 Hpx Hh0.
    assert (Hot : other tb < 2) by (destruct tb as [|[|?]]; cbn; lia).
    (* leaving: both pairs of cells are released *)
    assert (Hexit : forall r vv, fst (snd r) < 2 -> wof vv = wof v -> v_fly vv = [] -> same_bp v vv ->
              safe t (thenu (unlock2 c2) (thenu (unlock2 cl) (oret r))) vv (optQ (Qreloc v0 H o))).
    { intros r vv Hr2 Ew Cf Cbp. injection Ew as W1 W2 W3 W4 W5 W6 W7 W8.
      apply (safe_pair_exit t c2 (snd cl :: fst cl :: H)); [congruence|congruence|exact Cf|exact Hne2| | | |].
      - apply (okbase_keeps H o (wof vv) Hb); [cbn; congruence|]. intros l Hl. cbn. rewrite W1, Hh. right. right. right. now right.
      - apply (okbase_nl H o (wof vv) _ Hb); [cbn; congruence|exact Hf0].
      - apply (okbase_nl H o (wof vv) _ Hb); [cbn; congruence|exact Hf1].
      - intros v' B1 B2 B3 B4 B5 B6 Bw B7 B8 B9 B10 B11 B12.
        assert (Hin' : incs v' cl H o (fst goal) (snd goal)).
        { apply Hincs; auto; try congruence.
          - eapply same_bp_trans; eauto.
          - intros E. apply B10. congruence.
          - intros y E. destruct (B11 y E) as [X _]. congruence.
          - intros E1 E2. rewrite B12; [congruence|congruence|]. intros y E. apply E2. congruence. }
        apply (safe_cs_exit t cl H o (fst goal) (snd goal)); [exact Hb|exact Hin'| |].
        + intros Eo. destruct B9 as [_ B9]. destruct Cbp as [_ Cbp]. destruct Hbp as [_ Hbp]. rewrite B9, Cbp, Hbp. auto.
        + intros v'' Hr'' Hbp'' _ Hw''. apply safe_oret. split; [exact Hr2|]. split; [exact Hr''|]. split.
          * eapply same_bp_trans; [exact Hbp|]. eapply same_bp_trans; [exact Cbp|]. eapply same_bp_trans; eauto.
          * congruence. }
    (* a successful placement into table (other tb) *)
    assert (Hplace : forall g a tr (limit : nat), Inv g a tr -> a_view a t = v ->
              exists a', Inv (set_tabs g (set_bkt (tabs g) (other tb) (bk g (fst x) (other tb)) (ins_item (c_ord cf) x (T g (other tb) (bk g (fst x) (other tb))))))
                             a' (tr ++ Conc.tag t [EvAcc KLd o_mask true]) /\ Conc.frame fvw t a a' /\
                         wof (a_view a' t) = wof v /\ v_fly (a_view a' t) = [] /\ same_bp v (a_view a' t)).
    { intros g a tr limit Hi Hv. eexists. split; [apply (Inv_place_fly g a tr t x (other tb) _ KLd o_mask true Hi); auto|].
      - unfold fly. now rewrite Hv.
      - intros y. apply ins_item_in.
      - intros Hk. apply ins_item_keys_nodup; auto. apply (c_nodup (proj1 (proj2 Hi))).
      - split; [apply frame_setv|]. rewrite setv_same, Hv. unfold pend. rewrite Hv. cbn. repeat split. }
    cbn [Conc.safe]. intros g a tr Hi Hv. unfold fvw in Hv. unfold a_place. fold (T g (other tb) (bidx g (hsel vh (other tb)))).
    change (bidx g (hsel vh (other tb))) with (bk g (fst x) (other tb)).
    destruct (Nat.ltb (List.length (T g (other tb) (bk g (fst x) (other tb)))) (c_th cf)) eqn:E1; cbn [fst snd].
    - destruct (Hplace g a tr (c_th cf) Hi Hv) as (a' & K1 & K2 & K3 & K4 & K5).
      exists a'. split; [exact K1|]. split; [exact K2|]. unfold fvw. cbn [vn Nat.eqb]. apply Hexit; auto.
    - exists a. split; [eapply Inv_acc; eauto; apply quietF_refl|]. split; [apply frame_refl|]. unfold fvw. rewrite Hv. cbn [vn vnat Nat.eqb Conc.safe].
      clear g a tr Hi Hv E1. intros g a tr Hi Hv. unfold fvw in Hv. unfold a_reloc_partial.
      fold (T g (other tb) (bidx g (hsel vh (other tb)))). change (bidx g (hsel vh (other tb))) with (bk g (fst x) (other tb)).
      destruct (Nat.ltb (List.length (T g (other tb) (bk g (fst x) (other tb)))) (c_ps cf)) eqn:E2; cbn [fst snd].
      + destruct (Hplace g a tr (c_ps cf) Hi Hv) as (a' & K1 & K2 & K3 & K4 & K5).
        exists a'. split; [exact K1|]. split; [exact K2|]. unfold fvw. cbn [vn vnat Nat.eqb]. apply Hexit; auto.
      + (* no room anywhere: the victim goes back to the head of the probe set it came from *)
        pose proof Hi as (Hr & Hc & _).
        assert (Hmk : mask g = v_mask v) by (rewrite <- Hv; apply (c_mask Hc t); rewrite Hv; exact Hh0).
        assert (Hb' : b = bk g (fst x) tb) by (unfold bk; rewrite Hmk; symmetry; exact Hpx).
        fold (T g tb b). rewrite Hb'.
        eexists. split; [apply (Inv_place_fly g a tr t x tb (x :: T g tb (bk g (fst x) tb)) KLd o_mask true Hi); auto|].
        * unfold fly. now rewrite Hv.
        * intros y. cbn [In]. intuition.
        * intros Hk. apply nodup_keys_cons'; auto. apply (c_nodup Hc).
        * split; [apply frame_setv|]. unfold fvw. rewrite setv_same, Hv. unfold pend. rewrite Hv. cbn [vn vnat Nat.eqb].
          destruct (Nat.eqb 0 1) eqn:E01; [discriminate|]. apply Hexit; [exact Hrc|reflexivity|reflexivity|split; reflexivity].
  Qed.


  Lemma auth_more (v v' : fview) tb b :
    v_own v' = v_own v -> v_anc v' = v_anc v -> v_gs v' = v_gs v -> (forall l, In l (v_held v) -> In l (v_held v')) ->
    auth v tb b -> auth v' tb b.
  Proof.
    intros E1 E2 E3 Hs [H0 H1]. unfold CuckooConcFInv.auth, CuckooConcFInv.has0, CuckooConcFInv.all0, CuckooConcFInv.clk in *.
    rewrite E1, E2, E3. split; [exact H0|]. destruct H1 as [H1|H1]; [left; apply Hs; exact H1|right; exact H1].
  Qed.

  Lemma safe_reloc_attempt t tb goal H o : okbase H o -> tb < 2 ->
    forall v, rest v H o -> safe t (reloc_attempt cf (S t) tb goal) v (optQ (Qreloc v H o)).
  Proof.
    intros Hb Htb v Hr. destruct goal as [gh0 gh1]. unfold reloc_attempt. rewrite Hpol. cbn [cell_lock fst snd]. apply safe_bindo.
    apply (safe_rf_acquire t gh0 gh1 H o _ Hb _ v Hr). intros cl v1 Hin Hbp Hwm.
    pose proof Hr as (R1 & R2 & R3 & R4 & R5 & R6 & R7 & R8).
    assert (Hpe1 : o = ONone -> v_pend v1 = []) by (intros E; destruct Hbp as [_ X]; rewrite X; auto).
    assert (Hexit : forall r vv, fst (snd r) < 2 -> incs vv cl H o gh0 gh1 -> same_bp v1 vv -> v_wmask vv = v_wmask v1 ->
              safe t (thenu (unlock2 cl) (oret r)) vv (optQ (Qreloc v H o))).
    { intros r vv Hr2 Hvv Hbpv Hwv. apply (safe_cs_exit t cl H o gh0 gh1); [exact Hb|exact Hvv| |].
      - intros E. destruct Hbpv as [_ X]. rewrite X. auto.
      - intros v' Hr' Hbp' _ Hw'. apply safe_oret. split; [exact Hr2|]. split; [exact Hr'|]. split; [|congruence].
        eapply same_bp_trans; [exact Hbp|]. eapply same_bp_trans; eauto. }
    pose proof Hin as (C1 & C2 & C3 & C4 & C5 & C6 & C7 & Cf & E0 & E1 & (ia & Ca & Cl)).
    pose proof (incs_csh _ _ _ _ _ _ Hin) as Hcsh.
    cbn [Conc.safe].
    (* look at the goal probe set *)
    intros g a tr Hi Hv. unfold fvw in Hv. pose proof Hi as (Hr0 & Hc & _).
    assert (Hau : auth (a_view a t) tb (hsel (gh0, gh1) tb mod S (mask g))) by (apply (auth_of_hh g a tr t gh0 gh1 tb Hi); [now rewrite Hv|exact Htb]).
    assert (H0 : has0 (a_view a t)) by (destruct Hau; auto).
    assert (Hm1 : mask g = v_mask v1) by (rewrite <- Hv; apply (c_mask Hc t H0)).
    set (b := hsel (gh0, gh1) tb mod S (mask g)) in *.
    assert (Hreg : T g tb b = v_reg v1 tb b) by (rewrite <- Hv; apply (c_reg Hc t tb b Htb Hau)).
    rewrite Hv in Hau, H0.
    exists a. split; [unfold a_reloc_look; destruct (Nat.ltb _ _); eapply Inv_acc; eauto; apply quietF_refl|]. split; [apply frame_refl|].
    unfold fvw. rewrite Hv.
    unfold a_reloc_look. fold (T g tb (bidx g (hsel (gh0, gh1) tb))). change (bidx g (hsel (gh0, gh1) tb)) with b.
    destruct (Nat.ltb (List.length (T g tb b)) (c_th cf)) eqn:Eth; cbn [fst snd vn vm vl Nat.eqb];
      [apply Hexit; [exact Htb|exact Hin|apply same_bp_refl|reflexivity]|].
    destruct (T g tb b) as [|x rest0] eqn:Eold; cbn [firstn]; [apply Hexit; [exact Htb|exact Hin|apply same_bp_refl|reflexivity]|].
    assert (Hvr : v_reg v1 tb b = x :: rest0) by (symmetry; exact Hreg).
    assert (Hbv : b = hsel (gh0, gh1) tb mod S (v_mask v1)) by (unfold b; now rewrite Hm1).
    assert (Hpx : hsel (hashes cf (key_of x)) tb mod S (v_mask v1) = b) by (rewrite <- Hm1; apply (c_placed Hc tb b x Htb); rewrite Eold; now left).
    clearbody b. clear g a tr Hi Hv Hr0 Hc Hm1 Hreg Eth Eold.
    set (vh := hashes cf (key_of x)).
    apply safe_bindo. rewrite <- Hpol. apply safe_cell_trylock; [exact C2| |].
    - (* the try-lock failed: the same round again *)
      intros gs _ Hsame. cbv beta iota.
      assert (Eg : gs = v_gs v1) by (apply Hsame; congruence).
      apply Hexit; [exact Htb| |split; reflexivity|reflexivity].
      apply (incs_with v1 cl H o gh0 gh1 _ Hin); [rewrite Eg; destruct v1; reflexivity|exact Cf].
    - intros gs [Gpos Gfr] Hsame v2 (r2 & ->) Hext2.
      assert (Eg : gs = v_gs v1) by (apply Hsame; congruence).
      set (lv0 := (fst gs, 0, fst vh mod snd gs)). set (lv1 := (fst gs, 1, snd vh mod snd gs)).
      (* the second cell of the victim, and its removal from the probe set in the same step *)
      intros g a tr Hi (r3 & Ev3) Hrg [Hk1 Hk2]. pose proof Hi as (Hr0 & Hc & _).
      cbn [fset_gs v_op v_held v_mic v_mask v_reg v_fly v_pend v_own v_anc v_chk v_gs v_acc v_wmask] in *.
      set (v2 := mkFV (v_op v1) (lv0 :: v_held v1) MNone (v_mask v1) r2 (v_fly v1) (v_pend v1) (v_own v1) (v_anc v1) (v_chk v1) gs (v_acc v1) (v_wmask v1)) in *.
      assert (Hau1 : auth (fset_gs v1 gs (v_acc v1)) tb b).
      { apply (auth_more v1 _ tb b); [reflexivity|reflexivity|cbn; rewrite Eg; reflexivity|intros l Hl; exact Hl|exact Hau]. }
      assert (Hau2 : auth v2 tb b).
      { apply (auth_more v1 _ tb b); [reflexivity|reflexivity|cbn; rewrite Eg; reflexivity|intros l Hl; cbn; now right|exact Hau]. }
      assert (Hau3 : auth (a_view a t) tb b).
      { rewrite Ev3. apply (auth_more v1 _ tb b); [reflexivity|reflexivity|cbn; rewrite Eg; reflexivity|intros l Hl; cbn; right; now right|exact Hau]. }
      assert (Hold : T g tb b = x :: rest0).
      { pose proof (Hext2 tb b Htb Hau1) as X. cbn in X. rewrite (Hk2 tb b Htb Hau2). unfold v2. cbn [v_reg]. rewrite X. exact Hvr. }
      assert (Hmg : mask g = v_mask v1) by (apply Hk1; destruct Hau2; auto).
      set (v3 := with_tab (a_view a t) tb b rest0 [x] (pend a t)).
      exists (setv a t v3). split; [|split; [apply frame_setv|]].
      + apply (Inv_rm_first g a tr t v3 tb b x rest0 Hi Htb); auto.
        * rewrite Hbv, Hmg. apply Nat.mod_upper_bound. lia.
        * unfold fly. rewrite Ev3. cbn. exact Cf.
        * right. unfold held, CuckooConcFInv.clk, CuckooConcFInv.h0, CuckooConcFInv.h1. rewrite Ev3. cbn [v_gs v_held fst snd].
          split; [right; now left|now left].
        * apply tab_view_with_tab.
      + rewrite setv_same. cbv beta iota.
        assert (Ev3' : v3 = mkFV (v_op v1) (lv1 :: lv0 :: v_held v1) MNone (v_mask v1)
                        (fun tb' b' => if Nat.eqb tb' tb && Nat.eqb b' b then rest0 else r3 tb' b') [x] (v_pend v1)
                        (v_own v1) (v_anc v1) (v_chk v1) gs (v_acc v1) (v_wmask v1)).
        { unfold v3, with_tab, pend. rewrite Ev3. reflexivity. }
        rewrite Ev3'. clear g a tr Hi Ev3 Hrg Hk1 Hk2 Hr0 Hc Hau3 Hold Hmg v3 Ev3'.
        assert (Hf0 : fresh o lv0) by (intros g0 s n bb E; cbn; apply (Gfr g0 s n bb); cbn; congruence).
        assert (Hf1 : fresh o lv1) by (intros g0 s n bb E; cbn; apply (Gfr g0 s n bb); cbn; congruence).
        apply (safe_reloc_place t tb b x (gh0, gh1) cl (lv0, lv1) H o v _ (0, (tb, (gh0, gh1))) (1, (other tb, vh)) (2, (tb, (gh0, gh1))) Hb Htb);
          cbn [fst snd v_held v_mic v_fly v_own v_op v_pend v_wmask v_mask v_acc v_gs v_chk v_anc];
          [exact Htb|destruct tb as [|[|?]]; cbn; lia|exact Htb|rewrite C1; reflexivity|reflexivity|reflexivity|unfold lv0, lv1; intros E; inversion E|exact Hf0|exact Hf1|exact C3| | |exact Hwm| |exact Hpx|left; rewrite Ca; discriminate].
        * intros vv B1 B2 B3 B4 B5 B6 B7 B8 B9 B10 B11.
          assert (Egs : v_gs vv = v_gs v1) by (rewrite B5; exact Eg).
          unfold incs. split; [exact B1|]. split; [exact B2|]. split; [exact B3|]. split; [apply B9; exact C4|].
          split; [rewrite B4; exact C5|]. split; [exact C6|]. split; [exact C7|]. split; [exact B6|].
          split; [unfold CuckooConcFInv.clk; rewrite Egs; exact E0|]. split; [unfold CuckooConcFInv.clk; rewrite Egs; exact E1|].
          exists ia. rewrite Egs. split; [|exact Cl]. rewrite B11; [exact Ca|congruence|].
          intros y Ey. rewrite Ca in Ey. injection Ey as <-. cbn [fst snd]. rewrite Cl. right. now left.
        * eapply same_bp_trans; [exact Hbp|]. split; reflexivity.
        * destruct Hbp as [_ X]. intros E. auto.
  Qed.

  Lemma safe_reloc_round t tb goal H o : okbase H o -> tb < 2 ->
    forall fuel v, rest v H o -> safe t (reloc_round cf fuel (S t) tb goal) v (optQ (Qreloc v H o)).
  Proof.
    intros Hb Htb fuel. induction fuel as [|f IH]; intros v Hr; cbn [reloc_round]; [exact I|].
    apply safe_bindo. eapply Conc.safe_weaken; [|eapply safe_reloc_attempt; eauto].
    intros [r|] v' Hq; cbn [optQ] in *; auto. destruct Hq as (Q0 & Q1 & Q2 & Q3).
    destruct (Nat.eqb (fst r) 3).
    - eapply Conc.safe_weaken; [|apply IH; exact Q1].
      intros [r'|] v'' Hq'; cbn [optQ] in *; auto. destruct Hq' as (S0 & S1 & S2 & S3). split; auto. split; auto. split; [eapply same_bp_trans; eauto|congruence].
    - apply safe_oret. exact (conj Q0 (conj Q1 (conj Q2 Q3))).
  Qed.

  Lemma safe_relocate t H o : okbase H o ->
    forall rounds tb goal v, tb < 2 -> rest v H o ->
    safe t (relocate cf rounds (S t) tb goal) v (optQ (fun _ v' => rest v' H o /\ same_bp v v' /\ v_wmask v' = v_wmask v)).
  Proof.
    intros Hb rounds. induction rounds as [|n IH]; intros tb goal v Htb Hr; cbn [relocate].
    - apply safe_oret. split; [exact Hr|]. split; [apply same_bp_refl|reflexivity].
    - apply safe_bindo. eapply Conc.safe_weaken; [|eapply safe_reloc_round; eauto].
      intros [r|] v' Hq; cbn [optQ] in *; auto. destruct Hq as (Q0 & Q1 & Q2 & Q3).
      destruct (fst r) as [|[|n0]].
      + apply safe_oret. exact (conj Q1 (conj Q2 Q3)).
      + eapply Conc.safe_weaken; [|apply IH; [exact Q0|exact Q1]].
        intros [r'|] v'' Hq'; cbn [optQ] in *; auto. destruct Hq' as (S1 & S2 & S3). split; auto. split; [eapply same_bp_trans; eauto|congruence].
      + apply safe_oret. exact (conj Q1 (conj Q2 Q3)).
  Qed.


  (** *** resize: re-insertion of the pending items by the exclusive owner *)
  Lemma has0_excl v : all0 v -> has0 v.
  Proof. intros H. now right. Qed.

  Lemma safe_place_pend {R} t tb x r limit (k : V -> prog R) (Q : R -> fview -> Prop) v :
    tb < 2 -> v_pend v = x :: r -> v_fly v = [] -> all0 v ->
    (forall v' w, wof v' = wof v -> v_op v' = v_op v -> v_fly v' = [] -> v_pend v' = r -> vn w = 1 -> safe t (k w) v' Q) ->
    safe t (k (vnat 0)) v Q ->
    safe t (Act (a_place (c_ord cf) tb (hsel (hashes cf (key_of x)) tb) x limit) k) v Q.
  Proof.
    intros Htb Hp Hf Hx Hyes Hno. cbn [Conc.safe]. intros g a tr Hi Hv. unfold fvw in Hv. pose proof Hi as (Hr & Hc & _).
    unfold a_place. fold (T g tb (bidx g (hsel (hashes cf (key_of x)) tb))).
    change (bidx g (hsel (hashes cf (key_of x)) tb)) with (bk g (fst x) tb).
    destruct (Nat.ltb (List.length (T g tb (bk g (fst x) tb))) limit); cbn [fst snd].
    - assert (Hpa : pend a t = x :: r) by (unfold pend; now rewrite Hv).
      assert (Hfa : fly a t = []) by (unfold fly; now rewrite Hv).
      assert (Hpn : pend a t <> []) by (rewrite Hpa; discriminate).
      destruct (c_pend2 Hc t) as [Hnd Hab]. rewrite Hpa in Hnd. unfold keys in Hnd. cbn [map] in Hnd. apply NoDup_cons_iff in Hnd. destruct Hnd as [Hnx Hndr].
      assert (Habx : absent g x) by (apply Hab; rewrite Hpa; now left).
      set (new := ins_item (c_ord cf) x (T g tb (bk g (fst x) tb))).
      exists (setv a t (with_tab (a_view a t) tb (bk g (fst x) tb) new [] r)).
      split; [apply (Inv_insert_move g a tr t _ x tb new [] r KLd o_mask true Hi Htb);
                [rewrite Hv; split; [now right|now right]|exact Habx|apply tab_view_with_tab|reflexivity|intros y; apply ins_item_in| |intros y []|cbn; lia| |exact Hndr|intros _; exact Hpn|]|].
      + apply ins_item_keys_nodup; [apply Habx; exact Htb|apply (c_nodup Hc)].
      + intros y Hy. split; [rewrite Hpa; now right|]. intros E. apply Hnx. rewrite <- E. apply in_map. exact Hy.
      + intros y. rewrite Hfa, Hpa. cbn [In]. intuition.
      + split; [apply frame_setv|]. unfold fvw. rewrite setv_same, Hv. apply Hyes; reflexivity.
    - exists a. split; [eapply Inv_acc; eauto; apply quietF_refl|]. split; [apply frame_refl|]. unfold fvw. rewrite Hv. exact Hno.
  Qed.

  Lemma probe_quietF tb h k g : quietF g (fst (fst (a_probe tb h k g))) /\ exists kk o ok, snd (a_probe tb h k g) = [EvAcc kk o ok].
  Proof. unfold a_probe. destruct (bkt_get k (get_bkt (tabs g) tb (bidx g h))); (split; [apply quietF_refl|do 3 eexists; reflexivity]). Qed.

  Definition pend_view (v v' : fview) (H : list lk) (o : ostate) (r : list item) : Prop :=
    rest v' H o /\ v_op v' = v_op v /\ v_pend v' = r /\ v_wmask v' = v_wmask v.

  Lemma rest_wof v v' H o : rest v H o -> wof v' = wof v -> v_fly v' = [] -> (o = ONone -> v_pend v' = []) -> rest v' H o.
  Proof.
    intros (R1 & R2 & R3 & R4 & R5 & R6 & R7 & R8) E Hf Hp. injection E as X1 X2 X3 X4 X5 X6 X7 X8.
    unfold rest. rewrite X1, X2, X3, X4, X5, X7. repeat split; auto.
  Qed.

  Lemma safe_reinsert t x r v H o :
    okbase H o -> exclusive o -> rest v H o -> v_pend v = x :: r ->
    safe t (reinsert cf (S t) x) v (optQ (fun _ v' => pend_view v v' H o r)).
  Proof.
    intros Hb Hx Hr Hp. unfold reinsert. pose proof Hr as (R1 & R2 & R3 & R4 & R5 & R6 & R7 & R8).
    assert (Hall : all0 v) by (unfold CuckooConcFInv.all0; now rewrite R3).
    assert (Hne : o <> ONone) by (intros ->; destruct Hx).
    assert (Hrel : forall v' tb goal, tb < 2 -> wof v' = wof v -> v_op v' = v_op v -> v_fly v' = [] -> v_pend v' = r ->
              safe t (bindo (relocate cf relocate_limit (S t) tb goal) (fun _ => oret tt)) v' (optQ (fun _ v'' => pend_view v v'' H o r))).
    { intros v' tb goal Htb Ew Eo Ef Ep. apply safe_bindo.
      assert (Hr' : rest v' H o) by (apply (rest_wof v v' H o Hr Ew Ef); intros E; contradiction).
      eapply Conc.safe_weaken; [|apply (safe_relocate t H o Hb relocate_limit tb goal v' Htb Hr')].
      intros [ok|] v'' Hq; cbn [optQ] in *; auto. destruct Hq as (S1 & [S2 S3] & S4). apply safe_oret.
      injection Ew as _ _ _ _ _ _ _ X8. split; [exact S1|]. split; [congruence|]. split; congruence. }
    assert (Hdone : forall v', wof v' = wof v -> v_op v' = v_op v -> v_fly v' = [] -> v_pend v' = r ->
              safe t (oret tt) v' (optQ (fun _ v'' => pend_view v v'' H o r))).
    { intros v' Ew Eo Ef Ep. apply safe_oret. split; [apply (rest_wof v v' H o Hr Ew Ef); intros E; contradiction|].
      injection Ew as _ _ _ _ _ _ _ X8. auto. }
    cbv zeta.
    assert (Hmain : safe t
      (Act (a_place (c_ord cf) 0 (fst (hashes cf (key_of x))) x (c_th cf)) (fun v0 =>
          if Nat.eqb (vn v0) 1 then oret tt
          else Act (a_place (c_ord cf) 1 (snd (hashes cf (key_of x))) x (c_th cf)) (fun v1 => if Nat.eqb (vn v1) 1 then oret tt else
            Act (a_place (c_ord cf) 0 (fst (hashes cf (key_of x))) x (c_ps cf)) (fun w0 =>
          if Nat.eqb (vn w0) 1 then
            bindo (relocate cf relocate_limit (S t) 0 (hashes cf (match vl w0 with y :: _ => key_of y | [] => key_of x end))) (fun _ => oret tt)
          else
            Act (a_place (c_ord cf) 1 (snd (hashes cf (key_of x))) x (c_ps cf)) (fun w1 =>
              if Nat.eqb (vn w1) 1 then
                bindo (relocate cf relocate_limit (S t) 1 (hashes cf (match vl w1 with y :: _ => key_of y | [] => key_of x end))) (fun _ => oret tt)
              else Emit [EvCli "dropped" [Z.of_nat (key_of x)]] (oret tt)))))) v (optQ (fun _ v'' => pend_view v v'' H o r))).
    { apply (safe_place_pend t 0 x r); [lia|exact Hp|exact R7|exact Hall| |].
      { intros v' w A1 A2 A3 A4 E. rewrite E. cbn [Nat.eqb]. apply Hdone; auto. }
      cbn [vn vnat Nat.eqb]. apply (safe_place_pend t 1 x r); [lia|exact Hp|exact R7|exact Hall| |].
      { intros v' w A1 A2 A3 A4 E. rewrite E. cbn [Nat.eqb]. apply Hdone; auto. }
      cbn [vn vnat Nat.eqb]. apply (safe_place_pend t 0 x r); [lia|exact Hp|exact R7|exact Hall| |].
      { intros v' w A1 A2 A3 A4 E. rewrite E. cbn [Nat.eqb]. apply Hrel; auto. }
      cbn [vn vnat Nat.eqb]. apply (safe_place_pend t 1 x r); [lia|exact Hp|exact R7|exact Hall| |].
      { intros v' w A1 A2 A3 A4 E. rewrite E. cbn [Nat.eqb]. apply Hrel; auto. }
      cbn [vn vnat Nat.eqb Conc.safe]. intros g a tr Hi Hv. unfold fvw in Hv.
      eexists. split; [apply (Inv_drop g a tr t x r Hi); unfold pend; now rewrite Hv|]. split; [apply frame_setv|].
      unfold fvw. rewrite setv_same, Hv. apply Hdone; [reflexivity|reflexivity|exact R7|reflexivity]. }
    apply safe_silent; [intros g; apply probe_quietF|]. intros g a tr _ _.
    destruct (Nat.eqb (vn (snd (fst (a_probe 0 (fst (hashes cf (key_of x))) (key_of x) g)))) 1); [exact Hmain|].
    apply safe_silent; [intros g'; apply probe_quietF|]. intros g' a' tr' _ _. exact Hmain.
  Qed.

  Lemma safe_reinsert_all t H o : okbase H o -> exclusive o ->
    forall xs v, rest v H o -> v_pend v = xs ->
    safe t (reinsert_all cf (S t) xs) v (optQ (fun _ v' => pend_view v v' H o [])).
  Proof.
    intros Hb Hx xs. induction xs as [|x r IH]; intros v Hr Hp; cbn [reinsert_all].
    - apply safe_oret. repeat split; auto; apply Hr.
    - apply safe_bindo. eapply Conc.safe_weaken; [|eapply safe_reinsert; eauto].
      intros [u|] v' Hq; cbn [optQ] in *; auto. destruct Hq as (P1 & P2 & P3 & P4).
      eapply Conc.safe_weaken; [|apply IH; auto].
      intros [u'|] v'' Hq; cbn [optQ] in *; auto. destruct Hq as (S1 & S2 & S3 & S4). split; [exact S1|]. split; [congruence|]. split; [exact S3|congruence].
  Qed.


  (** *** resize: the owner protocol *)
  Let indg_end := CuckooConcRefProofs.indg_end cf Hnl.
  Let indg_here := CuckooConcRefProofs.indg_here cf Hnl.
  Let indg_past := CuckooConcRefProofs.indg_past cf Hnl.
  Let indg_step := CuckooConcRefProofs.indg_step cf Hnl.
  Let indg_pos := CuckooConcRefProofs.indg_pos cf Hnl.
  Let indg0_here := CuckooConcRefProofs.indg0_here cf Hnl.
  Let cnt_zero_nil := CuckooConcRefProofs.cnt_zero_nil cf Hnl.
  Definition fset_own (v : fview) (o : ostate) (m : nat) (r : nat -> nat -> list item) : fview :=
    mkFV (v_op v) (v_held v) (v_mic v) m r (v_fly v) (v_pend v) o (v_anc v) (v_chk v) (v_gs v) (v_acc v) m.

  (** the owner state of a thread without validated cell changes *)
  Lemma Inv_own g g' a tr t o m r k ob ok :
    Inv g a tr -> CoreR g' (rsetv (wv a) t (wof (fset_own (a_view a t) o m r))) ->
    mask g' = mask g -> tabs g' = tabs g -> cur g' = cur g -> pcap g' = pcap g ->
    v_anc (a_view a t) = None -> fly a t = [] -> (pend a t <> [] -> exclusive o) ->
    (exclusive o -> m = mask g /\ forall tb b, r tb b = T g tb b) ->
    Inv g' (setv a t (fset_own (a_view a t) o m r)) (tr ++ Conc.tag t [EvAcc k ob ok]).
  Proof.
    intros (Hr & Hb & Ha) Hr' Cm Ct Cc Cp Hanc Hfl Hpe Hex. split3; [apply CoreR_setv; exact Hr'| |eapply Abs_view; [exact Ha|auto..]].
    assert (Hh : has0 (fset_own (a_view a t) o m r) -> exclusive o).
    { intros [H|H]; [cbn in H; congruence|exact H]. }
    apply (CuckooConcFInv.CoreB_view cf g g' a t _ Hb Cm Ct); cbn [fset_own v_fly v_pend v_anc v_gs v_mask v_reg v_held v_own];
      [intros t0 _ _; auto|reflexivity|reflexivity| | | | |].
    - intros H. congruence.
    - intros H0. apply (Hex (Hh H0)).
    - intros tb b Htb [H0 _]. apply (Hex (Hh H0)).
    - rewrite Hfl. intros x [].
    - exact Hpe.
  Qed.

  Lemma safe_lock_all t fuel g0 sz (Q : fview -> Prop) : forall n i v, i + n = sz -> v_mic v = MNone -> v_gs v = (g0, sz) ->
    (forall v', (forall l, cnt (v_held v') l = cnt (v_held v) l + indg g0 sz i l) -> v_mic v' = MNone ->
        v_op v' = v_op v -> v_fly v' = v_fly v -> v_pend v' = v_pend v -> v_own v' = v_own v -> v_anc v' = v_anc v -> v_chk v' = v_chk v ->
        v_gs v' = v_gs v -> v_acc v' = v_acc v -> v_wmask v' = v_wmask v -> Q v') ->
    safe t (lock_all fuel (S t) g0 n i) v (optQ (fun _ => Q)).
  Proof.
    induction n as [|n IH]; intros i v Hn Hm Hg HQ; cbn [lock_all].
    - apply safe_oret. apply HQ; auto. intros l. assert (i = sz) by lia. subst i. rewrite indg_end. lia.
    - apply safe_bindo. apply safe_r_lock; [|exact Hm|].
      { exists 0, i. cbn. rewrite Hg. cbn. repeat split; auto; lia. }
      intros v1 (r1 & ->) _. apply IH; [lia|reflexivity|exact Hg|].
      intros v' B1 B2 B3 B4 B5 B6 B7 B8 B9 B10 B11. cbn [v_held v_op v_fly v_pend v_own v_anc v_chk v_gs v_acc v_wmask] in *. apply HQ; auto.
      intros l. rewrite B1. destruct (lk_dec l (g0, 0, i)) as [->|Hne].
      + rewrite cnt_cons_same, indg_here, indg_past by lia. lia.
      + rewrite cnt_cons_other by auto. rewrite (indg_step g0 sz i l Hne). lia.
  Qed.

  Lemma safe_unlock_all t g0 sz (Q : fview -> Prop) : forall n i v, i + n = sz -> v_mic v = MNone -> v_own v = ONone ->
    v_anc v = None -> v_chk v = None -> v_acc v = false -> v_fly v = [] -> v_pend v = [] ->
    (forall l, cnt (v_held v) l = indg g0 sz i l) ->
    (forall v', rest v' [] ONone -> v_op v' = v_op v -> v_pend v' = [] -> Q v') ->
    safe t (unlock_all g0 n i) v (fun _ => Q).
  Proof.
    induction n as [|n IH]; intros i v Hn Hm Ho Ha Hk Hacc Hf Hp Hc HQ; cbn [unlock_all].
    - apply safe_ret. assert (Hnil : v_held v = []).
      { apply cnt_zero_nil. intros l. rewrite Hc. assert (i = sz) by lia. subst i. apply indg_end. }
      apply HQ; auto. repeat split; auto.
    - assert (Hci : cnt (v_held v) (g0, 0, i) = 1) by (rewrite Hc; apply indg_here; lia).
      apply safe_thenu. apply safe_r_unlock; auto.
      + apply in_cnt. lia.
      + intros _. split; [split; intros g1 s1 x; cbn; rewrite Ho; discriminate|now apply flyok_nil].
      + apply IH; cbn [vrel v_held v_mic v_own v_acc v_anc v_chk v_fly v_pend v_op]; auto; [lia|now rewrite Ha|now rewrite Hk|].
        intros l. destruct (lk_dec l (g0, 0, i)) as [->|Hne].
        * rewrite cnt_rem1_same, Hci, indg_past. reflexivity.
        * rewrite cnt_rem1_other, Hc by auto. apply indg_step. exact Hne.
  Qed.

  Definition resizing (v : fview) (g0 sz : nat) : Prop :=
    v_own v = OLk g0 sz 0 /\ v_gs v = (g0, sz) /\ v_mic v = MNone /\ v_anc v = None /\ v_chk v = None /\ v_acc v = false /\
    v_fly v = [] /\ v_pend v = [] /\ 0 < sz /\ forall l, cnt (v_held v) l = indg g0 sz 0 l.

  Lemma others_none g a t : CoreR g (wv a) -> v_own (a_view a t) <> ONone -> forall t0, t0 <> t -> w_own (wv a t0) = ONone.
  Proof.
    intros Hc Ho t0 Hne. destruct (w_own (wv a t0)) eqn:E; auto; exfalso; apply Hne; eapply (own_unique g (wv a)); eauto; rewrite ?E; try discriminate; exact Ho.
  Qed.

  Lemma safe_rf_acquire_resize t (Q : nat * nat -> fview -> Prop) :
    forall fuel v, rest v [] ONone ->
    (forall gs v', resizing v' (fst gs) (snd gs) -> v_op v' = v_op v -> Q gs v') ->
    safe t (rf_acquire_resize fuel (S t)) v (optQ Q).
  Proof.
    intros fuel. induction fuel as [|f IH]; intros v Hr HQ; cbn [rf_acquire_resize]; [exact I|].
    pose proof Hr as (R1 & R2 & R3 & R4 & R5 & R6 & R7 & R8). specialize (R8 eq_refl).
    apply safe_bindo. refine (proj1 (safe_acc_lock t _ v R6 _ (S f))).
    intros gs [Gpos Gfr]. destruct gs as [gen sz]. cbn [fst snd] in *.
    apply safe_pcap_ld_acc; [reflexivity|]. intros vc Hvc. cbn [fset_gs v_gs snd] in Hvc.
    apply safe_access_st; [reflexivity|]. cbn [fset_gs v_gs v_held v_mic v_own v_anc v_chk v_mask v_reg v_fly v_pend v_op v_wmask].
    set (v2 := mkFV (v_op v) (v_held v) (v_mic v) (v_mask v) (v_reg v) (v_fly v) (v_pend v) (v_own v) (v_anc v) (v_chk v) (gen, sz) false (v_wmask v)).
    assert (Hr2 : rest v2 [] ONone) by (repeat split; auto).
    assert (HQ2 : forall gs v', resizing v' (fst gs) (snd gs) -> v_op v' = v_op v2 -> Q gs v') by (intros gs v' A B; apply HQ; auto).
    (* the compare-exchange on the owner word *)
    cbn [Conc.safe]. intros g a tr Hi Hv. unfold fvw in Hv. unfold a_owner_cas. pose proof Hi as (Hr0 & Hb0 & _).
    destruct (Nat.eqb_spec (owner g) 0) as [E0|E0]; cbn [fst snd vn vnat Nat.eqb].
    2:{ exists a. split; [eapply Inv_acc; [exact Hi|apply quietF_refl]|]. split; [apply frame_refl|]. unfold fvw. rewrite Hv. apply IH; [exact Hr2|exact HQ2]. }
    exists (setv a t (fset_own (a_view a t) OCas (v_wmask (a_view a t)) (v_reg (a_view a t)))).
    split; [apply (Inv_own g (set_owner g (2 * S t + 1)) a tr t OCas _ _ _ _ _ Hi); try reflexivity|].
    { apply (CoreR_own g (set_owner g (2 * S t + 1)) (wv a) t OCas (v_wmask (a_view a t)) Hr0);
        [repeat split|reflexivity|reflexivity|reflexivity|reflexivity|reflexivity|reflexivity| | | | | | | |].
      - intros t0 _. apply (r_own0 Hr0 E0).
      - intros _. reflexivity.
      - discriminate.
      - discriminate.
      - discriminate.
      - intros [].
      - intros g0 s n b E. unfold wv in E. cbn in E. rewrite Hv in E. cbn in E. rewrite R3 in E. discriminate.
      - intros []. }
    { rewrite Hv. exact R4. }
    { unfold fly. rewrite Hv. exact R7. }
    { unfold pend. rewrite Hv. cbn. rewrite R8. congruence. }
    { intros []. }
    split; [apply frame_setv|]. unfold fvw. rewrite setv_same, Hv.
    cbn [fset_own v2 v_op v_held v_mic v_mask v_reg v_fly v_pend v_own v_anc v_chk v_gs v_acc v_wmask].
    set (v3 := mkFV (v_op v) (v_held v) (v_mic v) (v_wmask v) (v_reg v) (v_fly v) (v_pend v) OCas (v_anc v) (v_chk v) (gen, sz) false (v_wmask v)).
    (* the capacity re-check *)
    clear g a tr Hi Hv E0 Hr0 Hb0. cbn [Conc.safe]. intros g a tr Hi Hv. unfold fvw in Hv. cbn [a_pcap_ld fst snd vn]. pose proof Hi as (Hr0 & Hb0 & _).
    assert (Hown : v_own (a_view a t) = OCas) by now rewrite Hv.
    assert (Hoth : forall t0, t0 <> t -> w_own (wv a t0) = ONone) by (apply (others_none g a t Hr0); rewrite Hown; discriminate).
    assert (Hog : owner g = 2 * S t + 1) by (apply (r_own1 Hr0 t); unfold wv; cbn; rewrite Hown; discriminate).
    destruct (r_gs Hr0 t) as [G1 G2]. unfold wv in G1, G2. cbn in G1, G2. rewrite Hv in G1, G2. cbn in G1, G2.
    rewrite Hvc. destruct (Nat.eqb_spec sz (pcap g)) as [Ec|Ec].
    - assert (Eg : gen = cur g) by (eapply cap_gen; eauto; lia).
      exists (setv a t (fset_own (a_view a t) (OLk gen sz 0) (v_wmask (a_view a t)) (v_reg (a_view a t)))).
      split; [apply (Inv_own g g a tr t (OLk gen sz 0) _ _ _ _ _ Hi); try reflexivity|].
      { apply (CoreR_own g g (wv a) t (OLk gen sz 0) (v_wmask (a_view a t)) Hr0);
          [repeat split|reflexivity|reflexivity|reflexivity|reflexivity|reflexivity|reflexivity|exact Hoth| | | | | | |].
        - intros _. exact Hog.
        - discriminate.
        - intros g0 s j E. injection E as <- <- <-. split; [lia|]. split; [auto|]. split; [exact Eg|]. intros i Hi0. lia.
        - discriminate.
        - cbn. intros E. lia.
        - intros g0 s n b E. unfold wv in E. cbn in E. rewrite Hown in E. discriminate.
        - cbn. intros E. lia. }
      { rewrite Hv. exact R4. }
      { unfold fly. rewrite Hv. exact R7. }
      { unfold pend. rewrite Hv. cbn. rewrite R8. congruence. }
      { cbn. intros E. lia. }
      split; [apply frame_setv|]. unfold fvw. rewrite setv_same, Hv.
      apply safe_bindo. apply (safe_lock_all t _ gen sz); [lia|cbn; exact R2|reflexivity|].
      intros v' B1 B2 B3 B4 B5 B6 B7 B8 B9 B10 B11. apply safe_oret. cbn in B3, B4, B5, B6, B7, B8, B9, B10, B11. apply HQ; [|exact B3].
      cbn [fst snd]. unfold resizing. rewrite B4, B5, B6, B7, B8, B9, B10. repeat split; auto.
      intros l. rewrite B1. cbn. rewrite R1. reflexivity.
    - exists a. split; [eapply Inv_acc; [exact Hi|apply quietF_refl]|]. split; [apply frame_refl|]. unfold fvw. rewrite Hv.
      (* the arrays were replaced: give the owner word back and start again *)
      clear g a tr Hi Hv Hown Hoth Hog G1 G2 Ec Hr0 Hb0. cbn [Conc.safe]. intros g a tr Hi Hv. unfold fvw in Hv. cbn [a_owner_st0 fst snd]. pose proof Hi as (Hr0 & Hb0 & _).
      assert (Hown : v_own (a_view a t) = OCas) by now rewrite Hv.
      assert (Hoth : forall t0, t0 <> t -> w_own (wv a t0) = ONone) by (apply (others_none g a t Hr0); rewrite Hown; discriminate).
      exists (setv a t (fset_own (a_view a t) ONone (v_wmask (a_view a t)) (v_reg (a_view a t)))).
      split; [apply (Inv_own g (set_owner g 0) a tr t ONone _ _ _ _ _ Hi); try reflexivity|].
      { apply (CoreR_own g (set_owner g 0) (wv a) t ONone (v_wmask (a_view a t)) Hr0);
          [repeat split|reflexivity|reflexivity|reflexivity|reflexivity|reflexivity|reflexivity|exact Hoth| | | | | | |].
        - congruence.
        - reflexivity.
        - discriminate.
        - discriminate.
        - intros [].
        - intros g0 s n b E. unfold wv in E. cbn in E. rewrite Hown in E. discriminate.
        - intros []. }
      { rewrite Hv. exact R4. }
      { unfold fly. rewrite Hv. exact R7. }
      { unfold pend. rewrite Hv. cbn. rewrite R8. congruence. }
      { intros []. }
      split; [apply frame_setv|]. unfold fvw. rewrite setv_same, Hv. apply IH.
      + repeat split; auto.
      + intros gs v' A B. apply HQ; auto.
  Qed.


  Definition finstall (v : fview) (g0 sz n gen' : nat) : fview :=
    mkFV (v_op v) (v_held v) (v_mic v) (v_mask v) (v_reg v) (v_fly v) (v_pend v) (OIn g0 sz n false) None None (gen', n) true (v_wmask v).
  Definition falloc (v : fview) (g0 sz n : nat) (items : list item) : fview :=
    mkFV (v_op v) (v_held v) (v_mic v) (n - 1) (fun _ _ => []) [] items (OIn g0 sz n true) (v_anc v) (v_chk v) (v_gs v) (v_acc v) (n - 1).

  Lemma safe_install {R} t g0 sz n (k : V -> prog R) (Q : R -> fview -> Prop) v :
    v_own v = OLk g0 sz sz -> v_acc v = true -> v_anc v = None -> v_chk v = None -> n = 2 * S (v_wmask v) -> v_fly v = [] ->
    (forall gen', safe t (k (vnat 0)) (finstall v g0 sz n gen') Q) ->
    safe t (Act (a_pcap_st_install n) k) v Q.
  Proof.
    intros Ho Hac Hn Hk Hnn Hf HK. cbn [Conc.safe]. intros g a tr Hi Hv. unfold fvw in Hv. cbn [a_pcap_st_install fst snd].
    pose proof Hi as (Hr & Hb & Ha).
    assert (Hex : all0 (a_view a t)) by (unfold CuckooConcFInv.all0; rewrite Hv, Ho; reflexivity).
    exists (setv a t (finstall (a_view a t) g0 sz n (ngen g))). split; [split3|].
    - apply CoreR_setv. apply (CoreR_install g (wv a) t g0 sz n Hr); unfold wv; cbn; rewrite Hv; auto.
    - apply (CuckooConcFInv.CoreB_view cf g (set_install g n) a t _ Hb eq_refl eq_refl);
        cbn [finstall v_fly v_pend v_anc v_gs v_mask v_reg v_held v_own]; [|reflexivity|reflexivity| | | | |].
      + intros t0 Hne H. exfalso. destruct (CuckooConcFInv.anc_facts cf g a t0 Hr Hb H) as (i & _ & _ & _ & X). eapply X; eauto.
      + congruence.
      + intros _. symmetry. apply (c_mask Hb t). now right.
      + intros tb b Htb _. symmetry. apply (c_reg Hb t tb b Htb). split; [now right|now right].
      + unfold fly. rewrite Hv, Hf. intros x [].
      + intros _. reflexivity.
    - eapply Abs_view; [exact Ha|reflexivity..].
    - split; [apply frame_setv|]. unfold fvw. rewrite setv_same, Hv. apply HK.
  Qed.

  Lemma safe_alloc {R} t g0 sz n (k : V -> prog R) (Q : R -> fview -> Prop) v :
    v_own v = OIn g0 sz n false -> v_fly v = [] -> v_pend v = [] -> 0 < n ->
    (forall items, safe t (k (mkV 0 0 0 items)) (falloc v g0 sz n items) Q) ->
    safe t (Act (a_mask_st_alloc n) k) v Q.
  Proof.
    intros Ho Hf Hp Hn HK. cbn [Conc.safe]. intros g a tr Hi Hv. unfold fvw in Hv. unfold a_mask_st_alloc, acc. cbn [fst snd].
    pose proof Hi as (Hr & Hc & Ha).
    assert (Hex : all0 (a_view a t)) by (unfold CuckooConcFInv.all0; rewrite Hv, Ho; exact I).
    assert (Hfl : fly a t = []) by (unfold fly; now rewrite Hv).
    assert (Hpe : pend a t = []) by (unfold pend; now rewrite Hv).
    set (g' := set_tabs (set_mask g (n - 1)) [repeat [] n; repeat [] n]).
    fold (all_items g).
    exists (setv a t (falloc (a_view a t) g0 sz n (all_items g))). split; [split3|].
    - apply CoreR_setv. apply (CoreR_alloc g (wv a) t g0 sz n _ Hr). unfold wv. cbn. now rewrite Hv.
    - apply (CuckooConcFInv.CoreB_alloc cf g a t n _ Hr Hc Hex Hfl Hpe Hn); cbn [falloc v_mask v_reg v_fly v_pend]; auto.
      split; [reflexivity|]. split; [|split; reflexivity]. cbn [falloc v_own]. rewrite Hv, Ho. cbn. tauto.
    - destruct Ha as [Hd|(s & st & H1 & H2 & H3 & H4 & H5)]; [left; now apply dropped_app|right].
      exists s, st. rewrite hist_of_acc. split; auto. split; auto. split.
      + intros t0. rewrite H3. destruct (Nat.eq_dec t0 t) as [->|Hne]; [now rewrite setv_same|now rewrite setv_other].
      + split; auto. intros y. rewrite H5. unfold CuckooConcFInv.allp.
        assert (HT : forall tb b, T g' tb b = []) by (intros; unfold CuckooConcFInv.T, g'; cbn [tabs set_tabs]; apply get_bkt_empty).
        setoid_rewrite HT. split.
        * intros [(tb & b & Htb & Hy)|[(t0 & Hy)|(t0 & Hy)]].
          -- right. right. exists t. rewrite pend_same. cbn [falloc v_pend]. apply (CuckooConcFInv.all_items_in cf g a y Hc). eauto.
          -- destruct (Nat.eq_dec t0 t) as [->|Hne]; [rewrite Hfl in Hy; destruct Hy|]. right. left. exists t0. now rewrite fly_other.
          -- destruct (Nat.eq_dec t0 t) as [->|Hne]; [rewrite Hpe in Hy; destruct Hy|]. right. right. exists t0. now rewrite pend_other.
        * intros [(tb & b & Htb & [])|[(t0 & Hy)|(t0 & Hy)]].
          -- destruct (Nat.eq_dec t0 t) as [->|Hne]; [rewrite fly_same in Hy; destruct Hy|]. rewrite fly_other in Hy by exact Hne. right. left. eauto.
          -- destruct (Nat.eq_dec t0 t) as [->|Hne].
             ++ rewrite pend_same in Hy. cbn [falloc v_pend] in Hy. left. apply (CuckooConcFInv.all_items_in cf g a y Hc). exact Hy.
             ++ rewrite pend_other in Hy by exact Hne. right. right. eauto.
    - split; [apply frame_setv|]. unfold fvw. rewrite setv_same, Hv. apply HK.
  Qed.

  (** release_resize(): the owner word first, then the cells *)
  Lemma safe_resize_unlock t g0 sz v :
    (v_own v = OLk g0 sz sz \/ exists n, v_own v = OIn g0 sz n true) ->
    v_mic v = MNone -> v_anc v = None -> v_chk v = None -> v_acc v = false -> v_fly v = [] -> v_pend v = [] ->
    (forall l, cnt (v_held v) l = indg g0 sz 0 l) ->
    safe t (thenu (resize_unlock Refinable (g0, sz)) (oret tt)) v (optQ (fun _ v' => rest v' [] ONone /\ v_op v' = v_op v)).
  Proof.
    intros Ho Hm Ha Hk Hacc Hf Hp Hc. apply safe_thenu. cbn [resize_unlock fst snd].
    cbn [Conc.safe]. intros g a tr Hi Hv. unfold fvw in Hv. cbn [a_owner_st0 fst snd]. pose proof Hi as (Hr0 & Hb0 & _).
    assert (Hne : v_own (a_view a t) <> ONone) by (rewrite Hv; destruct Ho as [->|(n & ->)]; discriminate).
    exists (setv a t (fset_own (a_view a t) ONone (v_wmask (a_view a t)) (v_reg (a_view a t)))).
    split; [apply (Inv_own g (set_owner g 0) a tr t ONone _ _ _ _ _ Hi); try reflexivity|].
    { apply (CoreR_own g (set_owner g 0) (wv a) t ONone (v_wmask (a_view a t)) Hr0);
        [repeat split|reflexivity|reflexivity|reflexivity|reflexivity|reflexivity|reflexivity|apply (others_none g a t Hr0 Hne)| | | | | | |].
      - congruence.
      - reflexivity.
      - discriminate.
      - discriminate.
      - intros [].
      - intros g1 s n b E. unfold wv in E. cbn in E. rewrite Hv in E. destruct Ho as [Ho|(n' & Ho)]; rewrite Ho in E; [discriminate|]. now injection E as _ _ _ <-.
      - intros []. }
    { now rewrite Hv. }
    { unfold fly. now rewrite Hv. }
    { unfold pend. rewrite Hv, Hp. congruence. }
    { intros []. }
    split; [apply frame_setv|]. unfold fvw. rewrite setv_same, Hv.
    apply (safe_unlock_all t g0 sz _ sz 0); auto.
    intros v' Hr' Hop' Hp'. apply safe_oret. split; [exact Hr'|exact Hop'].
  Qed.


  Definition quiet_rest (v v' : fview) : Prop := rest v' [] ONone /\ v_op v' = v_op v.

  Lemma safe_resize t v : rest v [] ONone -> safe t (resize cf (S t)) v (optQ (fun _ v' => quiet_rest v v')).
  Proof.
    intros Hr. unfold resize. apply safe_silent; [silent|]. intros g00 a00 tr00 _ _. cbn [a_mask_ld fst snd vn vnat].
    generalize (S (mask g00)) as nold. clear g00 a00 tr00. intros nold.
    apply safe_bindo. rewrite Hpol. cbn [resize_lock policy_resize].
    apply (safe_rf_acquire_resize t _ (c_fuel cf) v Hr). intros [g0 sz] v1 Hz Hop1. cbn [fst snd] in Hz.
    destruct Hz as (Z1 & Z2 & Z3 & Z4 & Z5 & Z6 & Zf & Zp & Z7 & Z8).
    (* the second load of the bucket mask: every cell is locked, the thread is the exclusive owner *)
    cbn [Conc.safe]. intros g a tr Hi Hv. unfold fvw in Hv. cbn [a_mask_ld fst snd vn vnat]. pose proof Hi as (Hr0 & Hb0 & _).
    assert (Hown : w_own (wv a t) = OLk g0 sz 0) by (unfold wv; cbn; now rewrite Hv).
    destruct (r_scan Hr0 t g0 sz 0 Hown) as (_ & S2 & S3 & _).
    assert (Hlocks : forall i, i < sz -> In (g0, 0, i) (w_held (wv a t))).
    { intros i Hi0. unfold wv. cbn. rewrite Hv. apply in_cnt. rewrite Z8, indg0_here by exact Hi0. lia. }
    assert (Hconf : forall t0 gen i, t0 <> t -> In (gen, 0, i) (w_held (wv a t0)) -> gen <> cur g).
    { intros t0 gen i Hne Hin Eg. destruct (r_range Hr0 _ _ _ _ Hin) as (_ & _ & B3). apply Hne.
      eapply (r_excl Hr0); [exact Hin|]. rewrite Eg, <- S3. apply Hlocks. rewrite Eg, <- S3, <- S2 in B3. exact B3. }
    exists (setv a t (fset_own (a_view a t) (OLk g0 sz sz) (mask g) (fun tb b => T g tb b))).
    split; [apply (Inv_own g g a tr t (OLk g0 sz sz) _ _ _ _ _ Hi); try reflexivity|].
    { apply (CoreR_own g g (wv a) t (OLk g0 sz sz) (mask g) Hr0);
        [repeat split|reflexivity|reflexivity|reflexivity|reflexivity|reflexivity|reflexivity| | | | | | | |].
      - apply (others_none g a t Hr0). rewrite Hv, Z1. discriminate.
      - intros _. apply (r_own1 Hr0 t). rewrite Hown. discriminate.
      - discriminate.
      - intros g1 s j E. injection E as <- <- <-. split; [lia|]. split; [exact S2|]. split; [exact S3|]. exact Hlocks.
      - discriminate.
      - intros _ t0 Hne. split.
        + destruct (w_anc (wv a t0)) as [[gen i]|] eqn:E; auto. exfalso. destruct (r_anc Hr0 t0 gen i E) as (B1 & B2 & _).
          eapply Hconf; eauto.
        + intros gen i E. destruct (r_chk Hr0 t0 gen i E) as (B1 & _). eapply Hconf; eauto.
      - intros g1 s n b E. rewrite Hown in E. discriminate.
      - reflexivity. }
    { now rewrite Hv. }
    { unfold fly. now rewrite Hv. }
    { intros _. split; reflexivity. }
    split; [apply frame_setv|]. unfold fvw. rewrite setv_same, Hv.
    assert (Hunl : forall vv, (v_own vv = OLk g0 sz sz \/ exists n, v_own vv = OIn g0 sz n true) -> v_held vv = v_held v1 -> v_mic vv = MNone ->
              v_anc vv = None -> v_chk vv = None -> v_acc vv = false -> v_fly vv = [] -> v_pend vv = [] -> v_op vv = v_op v ->
              safe t (thenu (resize_unlock Refinable (g0, sz)) (oret tt)) vv (optQ (fun _ v' => quiet_rest v v'))).
    { intros vv B1 B2 B3 B4 B5 B6 B7 B8 B9. eapply Conc.safe_weaken; [|apply safe_resize_unlock; eauto].
      - intros [u|] v' Hq; cbn [optQ] in *; auto. destruct Hq as [Q1 Q2]. split; [exact Q1|congruence].
      - intros l. rewrite B2. apply Z8. }
    destruct (Nat.eqb_spec (S (mask g)) nold) as [En|En]; [|apply Hunl; cbn; auto].
    subst nold. set (m := mask g) in *. set (rg := fun tb b => T g tb b). clearbody m rg. set (n := 2 * S m).
    set (v2 := fset_own v1 (OLk g0 sz sz) m rg).
    (* resize of the policy: new lock arrays, under m_access *)
    apply safe_bindo. apply safe_bindo. refine (proj1 (safe_acc_lock t _ v2 Z6 _ (c_fuel cf))). intros gs _.
    apply (safe_install t g0 sz n); [reflexivity|reflexivity|exact Z4|exact Z5|reflexivity|exact Zf|]. intros gen'.
    apply safe_access_st; [reflexivity|].
    cbv beta. apply safe_oret. cbv beta.
    (* the new tables *)
    apply (safe_alloc t g0 sz n); [reflexivity|exact Zf|exact Zp|unfold n; lia|]. intros items.
    cbn [vl]. apply safe_bindo.
    set (v6 := falloc (fset_gs (finstall (fset_gs v2 gs true) g0 sz n gen') (v_gs (finstall (fset_gs v2 gs true) g0 sz n gen')) false) g0 sz n items).
    assert (Hb6 : okbase (v_held v1) (OIn g0 sz n true)).
    { right. exists g0, sz, n, true. split; [reflexivity|]. split.
      + intros l Hl. apply in_cnt in Hl. rewrite Z8 in Hl. destruct (indg_pos _ _ _ _ Hl) as (j & -> & _). eauto.
      + intros i Hi0. apply in_cnt. rewrite Z8, indg0_here by exact Hi0. lia. }
    eapply Conc.safe_weaken; [|apply (safe_reinsert_all t (v_held v1) (OIn g0 sz n true) Hb6 I items v6)].
    - intros [u|] v' Hq; cbn [optQ] in *; auto. destruct Hq as ((Q1 & Q2 & Q3 & Q4 & Q5 & Q6 & Q7 & Q8) & P2 & P3 & P4).
      apply Hunl; auto; [right; eexists; eauto|rewrite P2; cbn; exact Hop1].
    - repeat split; auto. intros E. discriminate.
    - reflexivity.
  Qed.

  (** *** insert / update *)
  Definition iop_upd (upd : option bool) (k t : nat) : iop :=
    match upd with None => IInsert k t | Some al => IUpdate k t al end.
  Definition res_upd (upd : option bool) (r : nat * nat) : res :=
    match upd with None => RBool (n2b (fst r)) | Some _ => RPair (n2b (fst r)) (n2b (snd r)) end.
  Definition fin_view (op : status ISet) (v' : fview) : Prop := rest v' [] ONone /\ v_op v' = op.

  (** a placement attempt of the new item inside the critical section of its key: the linearization point *)
  Lemma safe_place_lp {R} t k tb (o : iop) (r : res) limit (kont : V -> prog R) (Q : R -> fview -> Prop) v :
    csview v k -> tb < 2 -> vlookup v k = None -> v_op v = Pending (o : Op ISet) ->
    (forall s, khas k s = false -> istep s o = ((k, t) :: s, r)) ->
    (forall v' w, wof v' = wof v -> v_fly v' = [] -> v_pend v' = [] -> v_op v' = Linearized (o : Op ISet) (r : Res ISet) -> vn w = 1 -> safe t (kont w) v' Q) ->
    safe t (kont (vnat 0)) v Q ->
    safe t (Act (a_place (c_ord cf) tb (hsel (hashes cf k) tb) (k, t) limit) kont) v Q.
  Proof.
    intros Hcs Htb Hvl Hop Hstep Hyes Hno. cbn [Conc.safe]. intros g a tr Hi Hv. unfold fvw in Hv. pose proof Hi as (Hr & Hc & _).
    assert (Hcs' : csview (a_view a t) k) by now rewrite Hv.
    destruct (view_facts g a tr t k Hi Hcs') as [Hb Hl]. rewrite Hv in Hb, Hl.
    assert (Hlk : lookup g k = None) by congruence.
    unfold a_place. fold (T g tb (bidx g (hsel (hashes cf k) tb))). change (bidx g (hsel (hashes cf k) tb)) with (bk g k tb).
    destruct (Nat.ltb (List.length (T g tb (bk g k tb))) limit); cbn [fst snd].
    - set (new := ins_item (c_ord cf) (k, t) (T g tb (bk g k tb))).
      set (v2 := with_op (with_tab v tb (bk g k tb) new [] []) (Linearized (o : Op ISet) (r : Res ISet))).
      exists (seta (setv a t v2) (a_atr a ++ [ALin t])). split; [|split].
      + apply (Inv_lp_insert g a tr t v2 k tb new o r KLd o_mask true Hi); auto.
        * eapply in_cs_of_view; eauto.
        * now rewrite Hv.
        * rewrite Hv. unfold v2. repeat split.
        * intros y. apply ins_item_in.
        * apply ins_item_keys_nodup; [apply (lookup_none g k Hlk tb Htb)|apply (c_nodup Hc)].
      + intros t' Hne. unfold fvw. cbn [a_view seta]. now apply setv_other.
      + unfold fvw. cbn [a_view seta]. rewrite setv_same. apply Hyes; reflexivity.
    - exists a. split; [eapply Inv_acc; eauto; apply quietF_refl|]. split; [apply frame_refl|]. unfold fvw. rewrite Hv. exact Hno.
  Qed.


  Lemma csview_wof v v' k : csview v k -> wof v' = wof v -> v_fly v' = [] -> v_pend v' = [] -> csview v' k.
  Proof.
    intros (H0 & Hl & Hm & Hf & Hp) E Hf' Hp'. injection E as X1 X2 X3 X4 X5 X6 X7 X8.
    unfold csview, CuckooConcFInv.has0, CuckooConcFInv.all0, CuckooConcFInv.clk in *. rewrite X1, X2, X3, X4, X6. auto.
  Qed.

  Lemma safe_insert_places t k (o : iop) (rins : res) (r : nat * nat) cl (again : prog (option (nat * nat)))
        (Q : (nat * nat) -> fview -> Prop) v1 :
    incs v1 cl [] ONone (kh0 k) (kh1 k) -> v_pend v1 = [] -> vlookup v1 k = None -> v_op v1 = Pending (o : Op ISet) ->
    (forall s, khas k s = false -> istep s o = ((k, t) :: s, rins)) ->
    (forall v', fin_view (Linearized (o : Op ISet) (rins : Res ISet)) v' -> Q r v') ->
    (forall v', fin_view (Pending (o : Op ISet)) v' -> safe t again v' (optQ Q)) ->
    safe t
      (Act (a_place (c_ord cf) 0 (fst (hashes cf k)) (k, t) (c_th cf)) (fun v0 =>
         if Nat.eqb (vn v0) 1 then Act a_count_faa (fun _ => thenu (unlock2 cl) (oret r)) else
         Act (a_place (c_ord cf) 1 (snd (hashes cf k)) (k, t) (c_th cf)) (fun v1 =>
           if Nat.eqb (vn v1) 1 then Act a_count_faa (fun _ => thenu (unlock2 cl) (oret r)) else
           Act (a_place (c_ord cf) 0 (fst (hashes cf k)) (k, t) (c_ps cf)) (fun w0 =>
             if Nat.eqb (vn w0) 1 then
               Act a_count_faa (fun _ => thenu (unlock2 cl)
                 (bindo (relocate cf relocate_limit (S t) 0 (hashes cf (match vl w0 with y :: _ => key_of y | [] => k end))) (fun ok =>
                    if ok then oret r else bindo (resize cf (S t)) (fun _ => oret r))))
             else
             Act (a_place (c_ord cf) 1 (snd (hashes cf k)) (k, t) (c_ps cf)) (fun w1 =>
               if Nat.eqb (vn w1) 1 then
                 Act a_count_faa (fun _ => thenu (unlock2 cl)
                   (bindo (relocate cf relocate_limit (S t) 1 (hashes cf (match vl w1 with y :: _ => key_of y | [] => k end))) (fun ok =>
                      if ok then oret r else bindo (resize cf (S t)) (fun _ => oret r))))
               else thenu (unlock2 cl) (bindo (resize cf (S t)) (fun _ => again)))))))
      v1 (optQ Q).
  Proof.
    intros Hin Hp1 Hvl Hop Hstep HQ Hagain.
    assert (Hcs : csview v1 k) by (apply (incs_csview v1 cl k Hin Hp1)).
    (* after the linearization point: count, unlock, done *)
    assert (Hdone : forall vv, wof vv = wof v1 -> v_fly vv = [] -> v_pend vv = [] -> v_op vv = Linearized (o : Op ISet) (rins : Res ISet) ->
              safe t (Act a_count_faa (fun _ => thenu (unlock2 cl) (oret r))) vv (optQ Q)).
    { intros vv Ew Ef Ep Co. apply safe_silent; [silent|]. intros g a tr _ _.
      apply (safe_cs_exit t cl [] ONone (kh0 k) (kh1 k)); [apply ok_idle|apply (incs_with v1 cl _ _ _ _ vv Hin Ew Ef)|auto|].
      intros v' Hr' [B1 B2] _ _. apply safe_oret. apply HQ. split; [exact Hr'|congruence]. }
    (* ... or a relocation, perhaps a resize *)
    assert (Hreloc : forall vv tb goal, tb < 2 -> wof vv = wof v1 -> v_fly vv = [] -> v_pend vv = [] -> v_op vv = Linearized (o : Op ISet) (rins : Res ISet) ->
              safe t (Act a_count_faa (fun _ => thenu (unlock2 cl)
                 (bindo (relocate cf relocate_limit (S t) tb goal) (fun ok =>
                    if ok then oret r else bindo (resize cf (S t)) (fun _ => oret r))))) vv (optQ Q)).
    { intros vv tb goal Htb Ew Ef Ep Co. apply safe_silent; [silent|]. intros g a tr _ _.
      apply (safe_cs_exit t cl [] ONone (kh0 k) (kh1 k)); [apply ok_idle|apply (incs_with v1 cl _ _ _ _ vv Hin Ew Ef)|auto|].
      intros v' Hr' [B1 B2] _ _. apply safe_bindo.
      eapply Conc.safe_weaken; [|apply (safe_relocate t [] ONone ok_idle relocate_limit tb goal v' Htb Hr')].
      intros [ok|] v'' Hq; cbn [optQ] in *; auto. destruct Hq as (S1 & [S2 S3] & S4).
      assert (Hfv : fin_view (Linearized (o : Op ISet) (rins : Res ISet)) v'') by (split; [exact S1|congruence]).
      destruct ok; [apply safe_oret; apply HQ; exact Hfv|].
      apply safe_bindo. eapply Conc.safe_weaken; [|apply safe_resize; exact S1].
      intros [u|] v3 Hq; cbn [optQ] in *; auto. destruct Hq as [R1 R2].
      apply HQ. split; [exact R1|]. destruct Hfv as [_ X]. congruence. }
    pose proof Hcs as (C0 & C1 & C2 & C3 & C4).
    apply (safe_place_lp t k 0 o rins); auto.
    { intros v' w P1 P2 P3 P4 E. rewrite E. cbn [Nat.eqb]. apply Hdone; auto. }
    cbn [vn vnat Nat.eqb]. apply (safe_place_lp t k 1 o rins); auto.
    { intros v' w P1 P2 P3 P4 E. rewrite E. cbn [Nat.eqb]. apply Hdone; auto. }
    cbn [vn vnat Nat.eqb]. apply (safe_place_lp t k 0 o rins); auto.
    { intros v' w P1 P2 P3 P4 E. rewrite E. cbn [Nat.eqb]. apply Hreloc; auto. }
    cbn [vn vnat Nat.eqb]. apply (safe_place_lp t k 1 o rins); auto.
    { intros v' w P1 P2 P3 P4 E. rewrite E. cbn [Nat.eqb]. apply Hreloc; auto. }
    cbn [vn vnat Nat.eqb].
    apply (safe_cs_exit t cl [] ONone (kh0 k) (kh1 k)); [apply ok_idle|exact Hin|auto|].
    intros v' Hr' [B1 B2] _ _. apply safe_bindo. eapply Conc.safe_weaken; [|apply safe_resize; exact Hr'].
    intros [u|] v3 Hq; cbn [optQ] in *; auto. destruct Hq as [R1 R2].
    apply Hagain. split; [exact R1|congruence].
  Qed.

  Lemma safe_do_insert t k upd : forall fuel v,
    fin_view (Pending (iop_upd upd k t : Op ISet)) v ->
    safe t (do_insert cf fuel (S t) upd (k, t)) v
      (optQ (fun r v' => fin_view (Linearized (iop_upd upd k t : Op ISet) (res_upd upd r : Res ISet)) v')).
  Proof.
    induction fuel as [|f IH]; intros v [Hr Hop]; cbn [do_insert]; [exact I|].
    set (o := iop_upd upd k t) in *.
    apply safe_bindo. rewrite Hpol. cbn [cell_lock key_of fst].
    apply (safe_rf_acquire t (kh0 k) (kh1 k) [] ONone _ ok_idle _ v Hr).
    intros cl v1 Hin [B1 B2] _. rewrite contains_is_gen.
    assert (Hp1 : v_pend v1 = []) by (rewrite B2; apply Hr; reflexivity).
    assert (Hcs : csview v1 k) by (apply (incs_csview v1 cl k Hin Hp1)).
    assert (Hop1 : v_op v1 = Pending (o : Op ISet)) by congruence.
    set (Q := fun (r : nat * nat) v' => fin_view (Linearized (o : Op ISet) (res_upd upd r : Res ISet)) v').
    assert (Hex : forall r vv, incs vv cl [] ONone (kh0 k) (kh1 k) -> v_pend vv = [] -> v_op vv = Linearized (o : Op ISet) (res_upd upd r : Res ISet) ->
              safe t (thenu (unlock2 cl) (oret r)) vv (optQ Q)).
    { intros r vv Hvv Hpv Co. apply (safe_cs_exit t cl [] ONone (kh0 k) (kh1 k)); [apply ok_idle|exact Hvv|auto|].
      intros v' Hr' [C1 C2] _ _. apply safe_oret. unfold Q. split; [exact Hr'|congruence]. }
    set (rfound := match upd with None => RBool false | Some _ => RPair true false end).
    set (dnone := match upd with Some false => Some (RPair false false) | _ => None end).
    apply (safe_contains t k o (fun _ => Some rfound) dnone _ _ v1 Hcs); [exact Hop1| | | |].
    - intros x r E s Hs. inversion E; subst r. unfold o, rfound. destruct upd as [al|]; cbn; rewrite khas_kget, Hs; reflexivity.
    - intros r E s Hs. unfold dnone in E. destruct upd as [[|]|]; try discriminate. inversion E; subst r.
      unfold o. cbn. rewrite khas_kget, Hs. reflexivity.
    - intros tb x Htb _ _. apply Nat.ltb_lt in Htb. rewrite Htb. cbn [lin_view].
      apply Hex; [apply (incs_with v1 cl _ _ _ _ _ Hin); [reflexivity|apply Hin]|exact Hp1|]. cbn [with_op v_op]. unfold rfound, res_upd. destruct upd; reflexivity.
    - intros Hvl. cbn [Nat.ltb Nat.leb].
      assert (Hpl : forall u rins, dnone = None -> res_upd upd (1, u) = rins -> (forall s, khas k s = false -> istep s o = ((k, t) :: s, rins)) ->
                safe t
      (Act (a_place (c_ord cf) 0 (fst (hashes cf k)) (k, t) (c_th cf)) (fun v0 =>
         if Nat.eqb (vn v0) 1 then Act a_count_faa (fun _ => thenu (unlock2 cl) (oret (1, u))) else
         Act (a_place (c_ord cf) 1 (snd (hashes cf k)) (k, t) (c_th cf)) (fun v1 =>
           if Nat.eqb (vn v1) 1 then Act a_count_faa (fun _ => thenu (unlock2 cl) (oret (1, u))) else
           Act (a_place (c_ord cf) 0 (fst (hashes cf k)) (k, t) (c_ps cf)) (fun w0 =>
             if Nat.eqb (vn w0) 1 then
               Act a_count_faa (fun _ => thenu (unlock2 cl)
                 (bindo (relocate cf relocate_limit (S t) 0 (hashes cf (match vl w0 with y :: _ => key_of y | [] => k end))) (fun ok =>
                    if ok then oret (1, u) else bindo (resize cf (S t)) (fun _ => oret (1, u)))))
             else
             Act (a_place (c_ord cf) 1 (snd (hashes cf k)) (k, t) (c_ps cf)) (fun w1 =>
               if Nat.eqb (vn w1) 1 then
                 Act a_count_faa (fun _ => thenu (unlock2 cl)
                   (bindo (relocate cf relocate_limit (S t) 1 (hashes cf (match vl w1 with y :: _ => key_of y | [] => k end))) (fun ok =>
                      if ok then oret (1, u) else bindo (resize cf (S t)) (fun _ => oret (1, u)))))
               else thenu (unlock2 cl) (bindo (resize cf (S t)) (fun _ => do_insert cf f (S t) upd (k, t))))))))
                (lin_view v1 o dnone) (optQ Q)).
      { intros u rins Hd Hr' Hst. rewrite Hd. cbn [lin_view].
        apply (safe_insert_places t k o rins (1, u) cl _ Q v1 Hin Hp1 Hvl Hop1 Hst).
        - intros v' [G1 G2]. unfold Q. rewrite Hr'. split; auto.
        - intros v' Hfv. apply IH. exact Hfv. }
      destruct upd as [[|]|].
      + apply (Hpl 1 (RPair true true)); [reflexivity|reflexivity|]. intros s Hs. unfold o. cbn. now rewrite Hs.
      + cbn [lin_view dnone]. apply Hex; [apply (incs_with v1 cl _ _ _ _ _ Hin); [reflexivity|apply Hin]|exact Hp1|reflexivity].
      + apply (Hpl 0 (RBool true)); [reflexivity|reflexivity|]. intros s Hs. unfold o. cbn. now rewrite Hs.
  Qed.

  (** *** a whole operation, a thread *)
  Lemma safe_run_op t o v : idle v -> safe t (run_op cf t o) v (optQ (fun _ v' => idle v')).
  Proof.
    intros [Hr Hop]. unfold run_op.
    set (c := nth 0 o 0). set (k := nth 1 o 0). set (x := nth 2 o 0). set (y := nth 3 o 0).
    destruct (op_of_code c y) as [co|] eqn:Hoc; [|apply safe_oret; split; auto].
    cbn [Conc.safe]. intros g a tr Hi Hv. unfold fvw in Hv.
    eexists. split; [apply (Inv_cli g a tr t (Pending (iop_of_cop co k t : Op ISet)) "inv" _ (a_atr a ++ [AInv t (iop_of_cop co k t : Op ISet)]) Hi)|].
    { intros s st H1 H3 H2. split.
      - eapply lp_ext; [exact H1|]. cbn [lp_step]. rewrite H3, Hv, Hop. reflexivity.
      - rewrite erase_app, H2, (hist_inv tr t c k x y (iop_of_cop co k t) (iop_of_ccode c k t y co Hoc)). reflexivity. }
    split; [intros t' Hne; unfold fvw; cbn [a_view seta]; now apply setv_other|].
    unfold fvw. cbn [a_view seta]. rewrite setv_same, Hv. clear g a tr Hi Hv.
    set (v1 := with_op v (Pending (iop_of_cop co k t : Op ISet))).
    assert (Hr1 : rest v1 [] ONone) by (apply rest_with_op; exact Hr).
    assert (Hfin : forall r v', fin_view (Linearized (iop_of_cop co k t : Op ISet) (res_of_cop co (fst r) (snd r) : Res ISet)) v' ->
              safe t (Emit [EvCli "ret" (zl [c; fst r; r2_of_code c k (fst r) (snd r)])] (oret tt)) v' (optQ (fun _ v'' => idle v''))).
    { intros r v' [G1 G2]. eapply Conc.safe_weaken; [|eapply (safe_fin t c k y co (fst r) (snd r) v' Hoc); exact G2].
      intros [u|] l' Hl; cbn [optQ] in *; auto. subst l'. split; [apply rest_with_op; exact G1|reflexivity]. }
    destruct co as [|allow| | |].
    - apply safe_bindo. eapply Conc.safe_weaken; [|apply (safe_do_insert t k None (c_fuel cf) v1); split; [exact Hr1|reflexivity]].
      intros [r|] v' Hq; cbn [optQ] in *; [apply Hfin; exact Hq|exact I].
    - apply safe_bindo. eapply Conc.safe_weaken; [|apply (safe_do_insert t k (Some allow) (c_fuel cf) v1); split; [exact Hr1|reflexivity]].
      intros [r|] v' Hq; cbn [optQ] in *; [apply Hfin; exact Hq|exact I].
    - apply (safe_erase t c k y CUnlink v1 Hoc); [now right|split; [exact Hr1|reflexivity]].
    - apply (safe_erase t c k y CErase v1 Hoc); [now left|split; [exact Hr1|reflexivity]].
    - apply (safe_find t c k y v1 Hoc). split; [exact Hr1|reflexivity].
  Qed.

  Lemma safe_run_ops t os : forall v, idle v -> safe t (run_ops cf t os) v (fun _ _ => True).
  Proof.
    induction os as [|o r IH]; intros v Hv; cbn [run_ops]; [exact I|].
    apply Conc.safe_bind. eapply Conc.safe_weaken; [|apply safe_run_op; auto].
    intros [u|] v' H; cbn [optQ] in H.
    - apply IH; auto.
    - cbn [Conc.safe]. intros g a tr Hi Hv'. exists a. split; [now apply Inv_oof|]. split; [apply frame_refl|exact I].
  Qed.

  Lemma safe_thread t os v : idle v -> safe t (thread_prog cf t os) v (@Conc.QTrue fview).
  Proof.
    intros Hv. unfold thread_prog. apply safe_silent; [silent|].
    intros g a tr _ _. eapply Conc.safe_weaken; [|apply safe_run_ops; auto]. intros; exact I.
  Qed.


  (** ** the initial configuration *)
  Definition fa0 : FAux := mkFAux (fun _ => mkFV Lin.Idle [] MNone 0 (fun _ _ => []) [] [] ONone None None (0, L) false 0) [].

  Lemma init_T tb b : T (init cf) tb b = [].
  Proof. unfold CuckooConcFInv.T, init. cbn [tabs]. apply get_bkt_empty. Qed.

  Lemma init_ok ths : Conc.cfg_ok fvw Inv (init_cfg cf ths).
  Proof.
    exists fa0. split.
    - cbn [init_cfg Conc.shared Conc.trace]. split3.
      + destruct (CuckooConcRefProofs.init_ok cf Hpol Hnl ths) as (ra & Hra & _). cbn [init_cfg Conc.shared Conc.trace] in Hra.
        (* the policy part of the initial assignment *)
        unfold InvR in Hra. clear Hra ra.
        constructor; unfold wv; cbn [fa0 a_view wof init w_held w_mic w_own w_anc w_chk w_gs w_acc w_mask rspin rown owner pcap access cur ngen gsize mask fst snd].
        * intros l H. exfalso. apply H. reflexivity.
        * intros t l [].
        * intros t t' l [].
        * intros l. now left.
        * intros t l [].
        * intros t l [E|E]; discriminate.
        * intros t gg tb i [].
        * intros t H. exfalso. apply H. reflexivity.
        * auto.
        * now left.
        * discriminate.
        * discriminate.
        * discriminate.
        * discriminate.
        * split; [reflexivity|]. split; [reflexivity|]. split; [intros g1 g2 H1 H2; lia|intros gg _; exact Hnl].
        * intros t. cbn. split; [lia|reflexivity].
        * cbn. split; [discriminate|]. split; [discriminate|auto].
        * left. cbn. lia.
        * intros t. cbn. intros [].
      + constructor; unfold fly, pend, held; cbn [fa0 a_view v_anc v_gs v_mask v_reg v_fly v_pend v_held v_own].
        * intros t H. exfalso. apply H. reflexivity.
        * intros t [H|H]; [exfalso; apply H; reflexivity|destruct H].
        * intros t tb b _ [[H|H] _]; [exfalso; apply H; reflexivity|destruct H].
        * cbn [init tabs mask List.length nth]. split; [reflexivity|].
          intros tb Htb. destruct tb as [|[|tb]]; [| |lia]; cbn [nth]; rewrite repeat_length; lia.
        * intros tb b x _ H. rewrite init_T in H. destruct H.
        * intros tb b. rewrite init_T. constructor.
        * intros b b' x y H. rewrite init_T in H. destruct H.
        * intros t x [].
        * intros t. cbn. lia.
        * intros t H. exfalso. apply H. reflexivity.
        * intros t. split; [constructor|intros x []].
      + right. exists [], (fun _ => Lin.Idle). cbn [fa0 a_atr a_view v_op]. split; [reflexivity|]. split; [reflexivity|]. split; [reflexivity|].
        split; [constructor|]. intros x. split; [intros []|].
        intros [(tb & b & _ & H)|[(t & H)|(t & H)]]; [rewrite init_T in H; destruct H|destruct H|destruct H].
    - intros t p Hp. cbn [init_cfg Conc.threads] in Hp. rewrite CuckooConcRefProofs.nth_error_mapi in Hp.
      destruct (nth_error ths t) as [os|]; inversion Hp; subst. cbn [Nat.add].
      apply safe_thread. split; [repeat split|reflexivity].
  Qed.

  (** ** theorems *)
  Theorem cuckoo_refinable_linearizable ths (c : Conc.config G V ev) :
    Conc.reach (init_cfg cf ths) c -> ~ dropped (Conc.trace c) -> linearizable ISet (hist_of (Conc.trace c)).
  Proof.
    intros Hr Hnd. destruct (Conc.reach_Inv (init_ok ths) Hr) as (a & _ & _ & [Hd|(s & st & H1 & H2 & _)]); [contradiction|].
    rewrite <- H2. apply lp_valid_linearizable. eexists; eauto.
  Qed.

  Theorem cuckoo_refinable_nodup ths (c : Conc.config G V ev) :
    Conc.reach (init_cfg cf ths) c ->
    let g := Conc.shared c in
    (forall tb b, NoDup (keys (T g tb b))) /\
    (forall tb b x, tb < 2 -> In x (T g tb b) -> hsel (hashes cf (fst x)) tb mod S (mask g) = b) /\
    (forall b b' x y, In x (T g 0 b) -> In y (T g 1 b') -> fst x <> fst y) /\
    NoDup (keys (all_items g)).
  Proof.
    intros Hr g. destruct (Conc.reach_Inv (init_ok ths) Hr) as (a & _ & Hc & _).
    split; [apply (c_nodup Hc)|]. split; [apply (c_placed Hc)|]. split; [apply (c_cross Hc)|].
    apply (CuckooConcFInv.all_items_nodup cf _ a Hc).
  Qed.

End RefinableF.
