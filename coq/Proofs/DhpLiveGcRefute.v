(** * DhpLiveGcRefute: [dhp_guard_cell_exclusive_statement] (LV.Proofs.DhpLiveF), read literally, is false of the model
      for a degenerate configuration that the C++ cannot have: with [c_GB = 0] (guards per extension block; a
      compile-time constant 16 in /repo, cds/gc/dhp.h c_extended_guard_block_size) the model's extension block has no
      cell, the fifth Guard of a thread with four initial hazard pointers is given the non-existent cell [GE b 0], and
      protect() "stores" into nothing: the thread's last store to a hazard cell hit no cell ([lsl = None]).
      The corrected statement assumes [1 <= c_GB c] (see DhpLiveGcE). *)
From Coq Require Import ZArith List String Lia.
From LV Require Import Base.Conc Base.Events Model.DhpLang Model.Dhp Proofs.DhpHist Proofs.DhpLiveA Proofs.DhpLiveB Proofs.DhpLiveF.
Import ListNotations.

Definition rf_cfg : cfg := mkCfg 4 0 4 false 200 2 false.
Definition rf_ths : list (list op) :=
  [[OAttach; OPublish 0 5; OGalloc 0; OGalloc 1; OGalloc 2; OGalloc 3; OGalloc 4; OProtect 4 0]].
Definition rf_conf := fst (Conc.run 5000 0 [] (init_cfg 5000 rf_cfg rf_ths)).

Lemma rf_flbad : flbad (hist (Conc.trace rf_conf)) = false.
Proof. vm_compute. reflexivity. Qed.
Lemma rf_ret : nth_error (Conc.trace rf_conf) 42 = Some (0, EvCli "ret" [zn 5]).
Proof. vm_compute. reflexivity. Qed.
Lemma rf_lop : lop (sfold (firstn 42 (Conc.trace rf_conf))) 0 = [7%Z; zn 4; zn 0].
Proof. vm_compute. reflexivity. Qed.
Lemma rf_lsl : lsl (sfold (firstn 42 (Conc.trace rf_conf))) 0 = None.
Proof. vm_compute. reflexivity. Qed.

Theorem dhp_guard_cell_exclusive_statement_refuted : ~ dhp_guard_cell_exclusive_statement.
Proof.
  intros H.
  destruct (H 5000 rf_cfg rf_ths rf_conf (Conc.run_reach _ _ _ _) rf_flbad 42 0 4 0 5 ltac:(lia) rf_ret rf_lop)
    as (g0 & s & kl & Hl & _).
  rewrite rf_lsl in Hl. discriminate.
Qed.
